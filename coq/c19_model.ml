
(** val negb : bool -> bool **)

let negb = function
| true -> false
| false -> true

type nat =
| O
| S of nat

(** val option_map : ('a1 -> 'a2) -> 'a1 option -> 'a2 option **)

let option_map f = function
| Some a -> Some (f a)
| None -> None

(** val fst : ('a1 * 'a2) -> 'a1 **)

let fst = function
| (x, _) -> x

(** val snd : ('a1 * 'a2) -> 'a2 **)

let snd = function
| (_, y) -> y

(** val length : 'a1 list -> nat **)

let rec length = function
| [] -> O
| _ :: l' -> S (length l')

(** val app : 'a1 list -> 'a1 list -> 'a1 list **)

let rec app l m =
  match l with
  | [] -> m
  | a :: l1 -> a :: (app l1 m)

type comparison =
| Eq
| Lt
| Gt

(** val compOpp : comparison -> comparison **)

let compOpp = function
| Eq -> Eq
| Lt -> Gt
| Gt -> Lt

module Coq__1 = struct
 (** val add : nat -> nat -> nat **)
 let rec add n0 m =
   match n0 with
   | O -> m
   | S p -> S (add p m)
end
include Coq__1

type byte =
| X00
| X01
| X02
| X03
| X04
| X05
| X06
| X07
| X08
| X09
| X0a
| X0b
| X0c
| X0d
| X0e
| X0f
| X10
| X11
| X12
| X13
| X14
| X15
| X16
| X17
| X18
| X19
| X1a
| X1b
| X1c
| X1d
| X1e
| X1f
| X20
| X21
| X22
| X23
| X24
| X25
| X26
| X27
| X28
| X29
| X2a
| X2b
| X2c
| X2d
| X2e
| X2f
| X30
| X31
| X32
| X33
| X34
| X35
| X36
| X37
| X38
| X39
| X3a
| X3b
| X3c
| X3d
| X3e
| X3f
| X40
| X41
| X42
| X43
| X44
| X45
| X46
| X47
| X48
| X49
| X4a
| X4b
| X4c
| X4d
| X4e
| X4f
| X50
| X51
| X52
| X53
| X54
| X55
| X56
| X57
| X58
| X59
| X5a
| X5b
| X5c
| X5d
| X5e
| X5f
| X60
| X61
| X62
| X63
| X64
| X65
| X66
| X67
| X68
| X69
| X6a
| X6b
| X6c
| X6d
| X6e
| X6f
| X70
| X71
| X72
| X73
| X74
| X75
| X76
| X77
| X78
| X79
| X7a
| X7b
| X7c
| X7d
| X7e
| X7f
| X80
| X81
| X82
| X83
| X84
| X85
| X86
| X87
| X88
| X89
| X8a
| X8b
| X8c
| X8d
| X8e
| X8f
| X90
| X91
| X92
| X93
| X94
| X95
| X96
| X97
| X98
| X99
| X9a
| X9b
| X9c
| X9d
| X9e
| X9f
| Xa0
| Xa1
| Xa2
| Xa3
| Xa4
| Xa5
| Xa6
| Xa7
| Xa8
| Xa9
| Xaa
| Xab
| Xac
| Xad
| Xae
| Xaf
| Xb0
| Xb1
| Xb2
| Xb3
| Xb4
| Xb5
| Xb6
| Xb7
| Xb8
| Xb9
| Xba
| Xbb
| Xbc
| Xbd
| Xbe
| Xbf
| Xc0
| Xc1
| Xc2
| Xc3
| Xc4
| Xc5
| Xc6
| Xc7
| Xc8
| Xc9
| Xca
| Xcb
| Xcc
| Xcd
| Xce
| Xcf
| Xd0
| Xd1
| Xd2
| Xd3
| Xd4
| Xd5
| Xd6
| Xd7
| Xd8
| Xd9
| Xda
| Xdb
| Xdc
| Xdd
| Xde
| Xdf
| Xe0
| Xe1
| Xe2
| Xe3
| Xe4
| Xe5
| Xe6
| Xe7
| Xe8
| Xe9
| Xea
| Xeb
| Xec
| Xed
| Xee
| Xef
| Xf0
| Xf1
| Xf2
| Xf3
| Xf4
| Xf5
| Xf6
| Xf7
| Xf8
| Xf9
| Xfa
| Xfb
| Xfc
| Xfd
| Xfe
| Xff

(** val to_bits :
    byte -> bool * (bool * (bool * (bool * (bool * (bool * (bool * bool)))))) **)

let to_bits = function
| X00 -> (false, (false, (false, (false, (false, (false, (false, false)))))))
| X01 -> (true, (false, (false, (false, (false, (false, (false, false)))))))
| X02 -> (false, (true, (false, (false, (false, (false, (false, false)))))))
| X03 -> (true, (true, (false, (false, (false, (false, (false, false)))))))
| X04 -> (false, (false, (true, (false, (false, (false, (false, false)))))))
| X05 -> (true, (false, (true, (false, (false, (false, (false, false)))))))
| X06 -> (false, (true, (true, (false, (false, (false, (false, false)))))))
| X07 -> (true, (true, (true, (false, (false, (false, (false, false)))))))
| X08 -> (false, (false, (false, (true, (false, (false, (false, false)))))))
| X09 -> (true, (false, (false, (true, (false, (false, (false, false)))))))
| X0a -> (false, (true, (false, (true, (false, (false, (false, false)))))))
| X0b -> (true, (true, (false, (true, (false, (false, (false, false)))))))
| X0c -> (false, (false, (true, (true, (false, (false, (false, false)))))))
| X0d -> (true, (false, (true, (true, (false, (false, (false, false)))))))
| X0e -> (false, (true, (true, (true, (false, (false, (false, false)))))))
| X0f -> (true, (true, (true, (true, (false, (false, (false, false)))))))
| X10 -> (false, (false, (false, (false, (true, (false, (false, false)))))))
| X11 -> (true, (false, (false, (false, (true, (false, (false, false)))))))
| X12 -> (false, (true, (false, (false, (true, (false, (false, false)))))))
| X13 -> (true, (true, (false, (false, (true, (false, (false, false)))))))
| X14 -> (false, (false, (true, (false, (true, (false, (false, false)))))))
| X15 -> (true, (false, (true, (false, (true, (false, (false, false)))))))
| X16 -> (false, (true, (true, (false, (true, (false, (false, false)))))))
| X17 -> (true, (true, (true, (false, (true, (false, (false, false)))))))
| X18 -> (false, (false, (false, (true, (true, (false, (false, false)))))))
| X19 -> (true, (false, (false, (true, (true, (false, (false, false)))))))
| X1a -> (false, (true, (false, (true, (true, (false, (false, false)))))))
| X1b -> (true, (true, (false, (true, (true, (false, (false, false)))))))
| X1c -> (false, (false, (true, (true, (true, (false, (false, false)))))))
| X1d -> (true, (false, (true, (true, (true, (false, (false, false)))))))
| X1e -> (false, (true, (true, (true, (true, (false, (false, false)))))))
| X1f -> (true, (true, (true, (true, (true, (false, (false, false)))))))
| X20 -> (false, (false, (false, (false, (false, (true, (false, false)))))))
| X21 -> (true, (false, (false, (false, (false, (true, (false, false)))))))
| X22 -> (false, (true, (false, (false, (false, (true, (false, false)))))))
| X23 -> (true, (true, (false, (false, (false, (true, (false, false)))))))
| X24 -> (false, (false, (true, (false, (false, (true, (false, false)))))))
| X25 -> (true, (false, (true, (false, (false, (true, (false, false)))))))
| X26 -> (false, (true, (true, (false, (false, (true, (false, false)))))))
| X27 -> (true, (true, (true, (false, (false, (true, (false, false)))))))
| X28 -> (false, (false, (false, (true, (false, (true, (false, false)))))))
| X29 -> (true, (false, (false, (true, (false, (true, (false, false)))))))
| X2a -> (false, (true, (false, (true, (false, (true, (false, false)))))))
| X2b -> (true, (true, (false, (true, (false, (true, (false, false)))))))
| X2c -> (false, (false, (true, (true, (false, (true, (false, false)))))))
| X2d -> (true, (false, (true, (true, (false, (true, (false, false)))))))
| X2e -> (false, (true, (true, (true, (false, (true, (false, false)))))))
| X2f -> (true, (true, (true, (true, (false, (true, (false, false)))))))
| X30 -> (false, (false, (false, (false, (true, (true, (false, false)))))))
| X31 -> (true, (false, (false, (false, (true, (true, (false, false)))))))
| X32 -> (false, (true, (false, (false, (true, (true, (false, false)))))))
| X33 -> (true, (true, (false, (false, (true, (true, (false, false)))))))
| X34 -> (false, (false, (true, (false, (true, (true, (false, false)))))))
| X35 -> (true, (false, (true, (false, (true, (true, (false, false)))))))
| X36 -> (false, (true, (true, (false, (true, (true, (false, false)))))))
| X37 -> (true, (true, (true, (false, (true, (true, (false, false)))))))
| X38 -> (false, (false, (false, (true, (true, (true, (false, false)))))))
| X39 -> (true, (false, (false, (true, (true, (true, (false, false)))))))
| X3a -> (false, (true, (false, (true, (true, (true, (false, false)))))))
| X3b -> (true, (true, (false, (true, (true, (true, (false, false)))))))
| X3c -> (false, (false, (true, (true, (true, (true, (false, false)))))))
| X3d -> (true, (false, (true, (true, (true, (true, (false, false)))))))
| X3e -> (false, (true, (true, (true, (true, (true, (false, false)))))))
| X3f -> (true, (true, (true, (true, (true, (true, (false, false)))))))
| X40 -> (false, (false, (false, (false, (false, (false, (true, false)))))))
| X41 -> (true, (false, (false, (false, (false, (false, (true, false)))))))
| X42 -> (false, (true, (false, (false, (false, (false, (true, false)))))))
| X43 -> (true, (true, (false, (false, (false, (false, (true, false)))))))
| X44 -> (false, (false, (true, (false, (false, (false, (true, false)))))))
| X45 -> (true, (false, (true, (false, (false, (false, (true, false)))))))
| X46 -> (false, (true, (true, (false, (false, (false, (true, false)))))))
| X47 -> (true, (true, (true, (false, (false, (false, (true, false)))))))
| X48 -> (false, (false, (false, (true, (false, (false, (true, false)))))))
| X49 -> (true, (false, (false, (true, (false, (false, (true, false)))))))
| X4a -> (false, (true, (false, (true, (false, (false, (true, false)))))))
| X4b -> (true, (true, (false, (true, (false, (false, (true, false)))))))
| X4c -> (false, (false, (true, (true, (false, (false, (true, false)))))))
| X4d -> (true, (false, (true, (true, (false, (false, (true, false)))))))
| X4e -> (false, (true, (true, (true, (false, (false, (true, false)))))))
| X4f -> (true, (true, (true, (true, (false, (false, (true, false)))))))
| X50 -> (false, (false, (false, (false, (true, (false, (true, false)))))))
| X51 -> (true, (false, (false, (false, (true, (false, (true, false)))))))
| X52 -> (false, (true, (false, (false, (true, (false, (true, false)))))))
| X53 -> (true, (true, (false, (false, (true, (false, (true, false)))))))
| X54 -> (false, (false, (true, (false, (true, (false, (true, false)))))))
| X55 -> (true, (false, (true, (false, (true, (false, (true, false)))))))
| X56 -> (false, (true, (true, (false, (true, (false, (true, false)))))))
| X57 -> (true, (true, (true, (false, (true, (false, (true, false)))))))
| X58 -> (false, (false, (false, (true, (true, (false, (true, false)))))))
| X59 -> (true, (false, (false, (true, (true, (false, (true, false)))))))
| X5a -> (false, (true, (false, (true, (true, (false, (true, false)))))))
| X5b -> (true, (true, (false, (true, (true, (false, (true, false)))))))
| X5c -> (false, (false, (true, (true, (true, (false, (true, false)))))))
| X5d -> (true, (false, (true, (true, (true, (false, (true, false)))))))
| X5e -> (false, (true, (true, (true, (true, (false, (true, false)))))))
| X5f -> (true, (true, (true, (true, (true, (false, (true, false)))))))
| X60 -> (false, (false, (false, (false, (false, (true, (true, false)))))))
| X61 -> (true, (false, (false, (false, (false, (true, (true, false)))))))
| X62 -> (false, (true, (false, (false, (false, (true, (true, false)))))))
| X63 -> (true, (true, (false, (false, (false, (true, (true, false)))))))
| X64 -> (false, (false, (true, (false, (false, (true, (true, false)))))))
| X65 -> (true, (false, (true, (false, (false, (true, (true, false)))))))
| X66 -> (false, (true, (true, (false, (false, (true, (true, false)))))))
| X67 -> (true, (true, (true, (false, (false, (true, (true, false)))))))
| X68 -> (false, (false, (false, (true, (false, (true, (true, false)))))))
| X69 -> (true, (false, (false, (true, (false, (true, (true, false)))))))
| X6a -> (false, (true, (false, (true, (false, (true, (true, false)))))))
| X6b -> (true, (true, (false, (true, (false, (true, (true, false)))))))
| X6c -> (false, (false, (true, (true, (false, (true, (true, false)))))))
| X6d -> (true, (false, (true, (true, (false, (true, (true, false)))))))
| X6e -> (false, (true, (true, (true, (false, (true, (true, false)))))))
| X6f -> (true, (true, (true, (true, (false, (true, (true, false)))))))
| X70 -> (false, (false, (false, (false, (true, (true, (true, false)))))))
| X71 -> (true, (false, (false, (false, (true, (true, (true, false)))))))
| X72 -> (false, (true, (false, (false, (true, (true, (true, false)))))))
| X73 -> (true, (true, (false, (false, (true, (true, (true, false)))))))
| X74 -> (false, (false, (true, (false, (true, (true, (true, false)))))))
| X75 -> (true, (false, (true, (false, (true, (true, (true, false)))))))
| X76 -> (false, (true, (true, (false, (true, (true, (true, false)))))))
| X77 -> (true, (true, (true, (false, (true, (true, (true, false)))))))
| X78 -> (false, (false, (false, (true, (true, (true, (true, false)))))))
| X79 -> (true, (false, (false, (true, (true, (true, (true, false)))))))
| X7a -> (false, (true, (false, (true, (true, (true, (true, false)))))))
| X7b -> (true, (true, (false, (true, (true, (true, (true, false)))))))
| X7c -> (false, (false, (true, (true, (true, (true, (true, false)))))))
| X7d -> (true, (false, (true, (true, (true, (true, (true, false)))))))
| X7e -> (false, (true, (true, (true, (true, (true, (true, false)))))))
| X7f -> (true, (true, (true, (true, (true, (true, (true, false)))))))
| X80 -> (false, (false, (false, (false, (false, (false, (false, true)))))))
| X81 -> (true, (false, (false, (false, (false, (false, (false, true)))))))
| X82 -> (false, (true, (false, (false, (false, (false, (false, true)))))))
| X83 -> (true, (true, (false, (false, (false, (false, (false, true)))))))
| X84 -> (false, (false, (true, (false, (false, (false, (false, true)))))))
| X85 -> (true, (false, (true, (false, (false, (false, (false, true)))))))
| X86 -> (false, (true, (true, (false, (false, (false, (false, true)))))))
| X87 -> (true, (true, (true, (false, (false, (false, (false, true)))))))
| X88 -> (false, (false, (false, (true, (false, (false, (false, true)))))))
| X89 -> (true, (false, (false, (true, (false, (false, (false, true)))))))
| X8a -> (false, (true, (false, (true, (false, (false, (false, true)))))))
| X8b -> (true, (true, (false, (true, (false, (false, (false, true)))))))
| X8c -> (false, (false, (true, (true, (false, (false, (false, true)))))))
| X8d -> (true, (false, (true, (true, (false, (false, (false, true)))))))
| X8e -> (false, (true, (true, (true, (false, (false, (false, true)))))))
| X8f -> (true, (true, (true, (true, (false, (false, (false, true)))))))
| X90 -> (false, (false, (false, (false, (true, (false, (false, true)))))))
| X91 -> (true, (false, (false, (false, (true, (false, (false, true)))))))
| X92 -> (false, (true, (false, (false, (true, (false, (false, true)))))))
| X93 -> (true, (true, (false, (false, (true, (false, (false, true)))))))
| X94 -> (false, (false, (true, (false, (true, (false, (false, true)))))))
| X95 -> (true, (false, (true, (false, (true, (false, (false, true)))))))
| X96 -> (false, (true, (true, (false, (true, (false, (false, true)))))))
| X97 -> (true, (true, (true, (false, (true, (false, (false, true)))))))
| X98 -> (false, (false, (false, (true, (true, (false, (false, true)))))))
| X99 -> (true, (false, (false, (true, (true, (false, (false, true)))))))
| X9a -> (false, (true, (false, (true, (true, (false, (false, true)))))))
| X9b -> (true, (true, (false, (true, (true, (false, (false, true)))))))
| X9c -> (false, (false, (true, (true, (true, (false, (false, true)))))))
| X9d -> (true, (false, (true, (true, (true, (false, (false, true)))))))
| X9e -> (false, (true, (true, (true, (true, (false, (false, true)))))))
| X9f -> (true, (true, (true, (true, (true, (false, (false, true)))))))
| Xa0 -> (false, (false, (false, (false, (false, (true, (false, true)))))))
| Xa1 -> (true, (false, (false, (false, (false, (true, (false, true)))))))
| Xa2 -> (false, (true, (false, (false, (false, (true, (false, true)))))))
| Xa3 -> (true, (true, (false, (false, (false, (true, (false, true)))))))
| Xa4 -> (false, (false, (true, (false, (false, (true, (false, true)))))))
| Xa5 -> (true, (false, (true, (false, (false, (true, (false, true)))))))
| Xa6 -> (false, (true, (true, (false, (false, (true, (false, true)))))))
| Xa7 -> (true, (true, (true, (false, (false, (true, (false, true)))))))
| Xa8 -> (false, (false, (false, (true, (false, (true, (false, true)))))))
| Xa9 -> (true, (false, (false, (true, (false, (true, (false, true)))))))
| Xaa -> (false, (true, (false, (true, (false, (true, (false, true)))))))
| Xab -> (true, (true, (false, (true, (false, (true, (false, true)))))))
| Xac -> (false, (false, (true, (true, (false, (true, (false, true)))))))
| Xad -> (true, (false, (true, (true, (false, (true, (false, true)))))))
| Xae -> (false, (true, (true, (true, (false, (true, (false, true)))))))
| Xaf -> (true, (true, (true, (true, (false, (true, (false, true)))))))
| Xb0 -> (false, (false, (false, (false, (true, (true, (false, true)))))))
| Xb1 -> (true, (false, (false, (false, (true, (true, (false, true)))))))
| Xb2 -> (false, (true, (false, (false, (true, (true, (false, true)))))))
| Xb3 -> (true, (true, (false, (false, (true, (true, (false, true)))))))
| Xb4 -> (false, (false, (true, (false, (true, (true, (false, true)))))))
| Xb5 -> (true, (false, (true, (false, (true, (true, (false, true)))))))
| Xb6 -> (false, (true, (true, (false, (true, (true, (false, true)))))))
| Xb7 -> (true, (true, (true, (false, (true, (true, (false, true)))))))
| Xb8 -> (false, (false, (false, (true, (true, (true, (false, true)))))))
| Xb9 -> (true, (false, (false, (true, (true, (true, (false, true)))))))
| Xba -> (false, (true, (false, (true, (true, (true, (false, true)))))))
| Xbb -> (true, (true, (false, (true, (true, (true, (false, true)))))))
| Xbc -> (false, (false, (true, (true, (true, (true, (false, true)))))))
| Xbd -> (true, (false, (true, (true, (true, (true, (false, true)))))))
| Xbe -> (false, (true, (true, (true, (true, (true, (false, true)))))))
| Xbf -> (true, (true, (true, (true, (true, (true, (false, true)))))))
| Xc0 -> (false, (false, (false, (false, (false, (false, (true, true)))))))
| Xc1 -> (true, (false, (false, (false, (false, (false, (true, true)))))))
| Xc2 -> (false, (true, (false, (false, (false, (false, (true, true)))))))
| Xc3 -> (true, (true, (false, (false, (false, (false, (true, true)))))))
| Xc4 -> (false, (false, (true, (false, (false, (false, (true, true)))))))
| Xc5 -> (true, (false, (true, (false, (false, (false, (true, true)))))))
| Xc6 -> (false, (true, (true, (false, (false, (false, (true, true)))))))
| Xc7 -> (true, (true, (true, (false, (false, (false, (true, true)))))))
| Xc8 -> (false, (false, (false, (true, (false, (false, (true, true)))))))
| Xc9 -> (true, (false, (false, (true, (false, (false, (true, true)))))))
| Xca -> (false, (true, (false, (true, (false, (false, (true, true)))))))
| Xcb -> (true, (true, (false, (true, (false, (false, (true, true)))))))
| Xcc -> (false, (false, (true, (true, (false, (false, (true, true)))))))
| Xcd -> (true, (false, (true, (true, (false, (false, (true, true)))))))
| Xce -> (false, (true, (true, (true, (false, (false, (true, true)))))))
| Xcf -> (true, (true, (true, (true, (false, (false, (true, true)))))))
| Xd0 -> (false, (false, (false, (false, (true, (false, (true, true)))))))
| Xd1 -> (true, (false, (false, (false, (true, (false, (true, true)))))))
| Xd2 -> (false, (true, (false, (false, (true, (false, (true, true)))))))
| Xd3 -> (true, (true, (false, (false, (true, (false, (true, true)))))))
| Xd4 -> (false, (false, (true, (false, (true, (false, (true, true)))))))
| Xd5 -> (true, (false, (true, (false, (true, (false, (true, true)))))))
| Xd6 -> (false, (true, (true, (false, (true, (false, (true, true)))))))
| Xd7 -> (true, (true, (true, (false, (true, (false, (true, true)))))))
| Xd8 -> (false, (false, (false, (true, (true, (false, (true, true)))))))
| Xd9 -> (true, (false, (false, (true, (true, (false, (true, true)))))))
| Xda -> (false, (true, (false, (true, (true, (false, (true, true)))))))
| Xdb -> (true, (true, (false, (true, (true, (false, (true, true)))))))
| Xdc -> (false, (false, (true, (true, (true, (false, (true, true)))))))
| Xdd -> (true, (false, (true, (true, (true, (false, (true, true)))))))
| Xde -> (false, (true, (true, (true, (true, (false, (true, true)))))))
| Xdf -> (true, (true, (true, (true, (true, (false, (true, true)))))))
| Xe0 -> (false, (false, (false, (false, (false, (true, (true, true)))))))
| Xe1 -> (true, (false, (false, (false, (false, (true, (true, true)))))))
| Xe2 -> (false, (true, (false, (false, (false, (true, (true, true)))))))
| Xe3 -> (true, (true, (false, (false, (false, (true, (true, true)))))))
| Xe4 -> (false, (false, (true, (false, (false, (true, (true, true)))))))
| Xe5 -> (true, (false, (true, (false, (false, (true, (true, true)))))))
| Xe6 -> (false, (true, (true, (false, (false, (true, (true, true)))))))
| Xe7 -> (true, (true, (true, (false, (false, (true, (true, true)))))))
| Xe8 -> (false, (false, (false, (true, (false, (true, (true, true)))))))
| Xe9 -> (true, (false, (false, (true, (false, (true, (true, true)))))))
| Xea -> (false, (true, (false, (true, (false, (true, (true, true)))))))
| Xeb -> (true, (true, (false, (true, (false, (true, (true, true)))))))
| Xec -> (false, (false, (true, (true, (false, (true, (true, true)))))))
| Xed -> (true, (false, (true, (true, (false, (true, (true, true)))))))
| Xee -> (false, (true, (true, (true, (false, (true, (true, true)))))))
| Xef -> (true, (true, (true, (true, (false, (true, (true, true)))))))
| Xf0 -> (false, (false, (false, (false, (true, (true, (true, true)))))))
| Xf1 -> (true, (false, (false, (false, (true, (true, (true, true)))))))
| Xf2 -> (false, (true, (false, (false, (true, (true, (true, true)))))))
| Xf3 -> (true, (true, (false, (false, (true, (true, (true, true)))))))
| Xf4 -> (false, (false, (true, (false, (true, (true, (true, true)))))))
| Xf5 -> (true, (false, (true, (false, (true, (true, (true, true)))))))
| Xf6 -> (false, (true, (true, (false, (true, (true, (true, true)))))))
| Xf7 -> (true, (true, (true, (false, (true, (true, (true, true)))))))
| Xf8 -> (false, (false, (false, (true, (true, (true, (true, true)))))))
| Xf9 -> (true, (false, (false, (true, (true, (true, (true, true)))))))
| Xfa -> (false, (true, (false, (true, (true, (true, (true, true)))))))
| Xfb -> (true, (true, (false, (true, (true, (true, (true, true)))))))
| Xfc -> (false, (false, (true, (true, (true, (true, (true, true)))))))
| Xfd -> (true, (false, (true, (true, (true, (true, (true, true)))))))
| Xfe -> (false, (true, (true, (true, (true, (true, (true, true)))))))
| Xff -> (true, (true, (true, (true, (true, (true, (true, true)))))))

(** val eqb : bool -> bool -> bool **)

let eqb b1 b2 =
  if b1 then b2 else if b2 then false else true

module Nat =
 struct
  (** val eqb : nat -> nat -> bool **)

  let rec eqb n0 m =
    match n0 with
    | O -> (match m with
            | O -> true
            | S _ -> false)
    | S n' -> (match m with
               | O -> false
               | S m' -> eqb n' m')
 end

(** val rev : 'a1 list -> 'a1 list **)

let rec rev = function
| [] -> []
| x :: l' -> app (rev l') (x :: [])

(** val map : ('a1 -> 'a2) -> 'a1 list -> 'a2 list **)

let rec map f = function
| [] -> []
| a :: t -> (f a) :: (map f t)

(** val flat_map : ('a1 -> 'a2 list) -> 'a1 list -> 'a2 list **)

let rec flat_map f = function
| [] -> []
| x :: t -> app (f x) (flat_map f t)

(** val skipn : nat -> 'a1 list -> 'a1 list **)

let rec skipn n0 l =
  match n0 with
  | O -> l
  | S n1 -> (match l with
             | [] -> []
             | _ :: l0 -> skipn n1 l0)

type positive =
| XI of positive
| XO of positive
| XH

type n =
| N0
| Npos of positive

type z =
| Z0
| Zpos of positive
| Zneg of positive

module Pos =
 struct
  (** val succ : positive -> positive **)

  let rec succ = function
  | XI p -> XO (succ p)
  | XO p -> XI p
  | XH -> XO XH

  (** val add : positive -> positive -> positive **)

  let rec add x y =
    match x with
    | XI p ->
      (match y with
       | XI q -> XO (add_carry p q)
       | XO q -> XI (add p q)
       | XH -> XO (succ p))
    | XO p ->
      (match y with
       | XI q -> XI (add p q)
       | XO q -> XO (add p q)
       | XH -> XI p)
    | XH -> (match y with
             | XI q -> XO (succ q)
             | XO q -> XI q
             | XH -> XO XH)

  (** val add_carry : positive -> positive -> positive **)

  and add_carry x y =
    match x with
    | XI p ->
      (match y with
       | XI q -> XI (add_carry p q)
       | XO q -> XO (add_carry p q)
       | XH -> XI (succ p))
    | XO p ->
      (match y with
       | XI q -> XO (add_carry p q)
       | XO q -> XI (add p q)
       | XH -> XO (succ p))
    | XH ->
      (match y with
       | XI q -> XI (succ q)
       | XO q -> XO (succ q)
       | XH -> XI XH)

  (** val pred_double : positive -> positive **)

  let rec pred_double = function
  | XI p -> XI (XO p)
  | XO p -> XI (pred_double p)
  | XH -> XH

  (** val pred_N : positive -> n **)

  let pred_N = function
  | XI p -> Npos (XO p)
  | XO p -> Npos (pred_double p)
  | XH -> N0

  (** val mul : positive -> positive -> positive **)

  let rec mul x y =
    match x with
    | XI p -> add y (XO (mul p y))
    | XO p -> XO (mul p y)
    | XH -> y

  (** val iter : ('a1 -> 'a1) -> 'a1 -> positive -> 'a1 **)

  let rec iter f x = function
  | XI n' -> f (iter f (iter f x n') n')
  | XO n' -> iter f (iter f x n') n'
  | XH -> f x

  (** val div2 : positive -> positive **)

  let div2 = function
  | XI p0 -> p0
  | XO p0 -> p0
  | XH -> XH

  (** val div2_up : positive -> positive **)

  let div2_up = function
  | XI p0 -> succ p0
  | XO p0 -> p0
  | XH -> XH

  (** val compare_cont : comparison -> positive -> positive -> comparison **)

  let rec compare_cont r x y =
    match x with
    | XI p ->
      (match y with
       | XI q -> compare_cont r p q
       | XO q -> compare_cont Gt p q
       | XH -> Gt)
    | XO p ->
      (match y with
       | XI q -> compare_cont Lt p q
       | XO q -> compare_cont r p q
       | XH -> Gt)
    | XH -> (match y with
             | XH -> r
             | _ -> Lt)

  (** val compare : positive -> positive -> comparison **)

  let compare =
    compare_cont Eq

  (** val eqb : positive -> positive -> bool **)

  let rec eqb p q =
    match p with
    | XI p0 -> (match q with
                | XI q0 -> eqb p0 q0
                | _ -> false)
    | XO p0 -> (match q with
                | XO q0 -> eqb p0 q0
                | _ -> false)
    | XH -> (match q with
             | XH -> true
             | _ -> false)

  (** val coq_Nsucc_double : n -> n **)

  let coq_Nsucc_double = function
  | N0 -> Npos XH
  | Npos p -> Npos (XI p)

  (** val coq_Ndouble : n -> n **)

  let coq_Ndouble = function
  | N0 -> N0
  | Npos p -> Npos (XO p)

  (** val coq_lor : positive -> positive -> positive **)

  let rec coq_lor p q =
    match p with
    | XI p0 ->
      (match q with
       | XI q0 -> XI (coq_lor p0 q0)
       | XO q0 -> XI (coq_lor p0 q0)
       | XH -> p)
    | XO p0 ->
      (match q with
       | XI q0 -> XI (coq_lor p0 q0)
       | XO q0 -> XO (coq_lor p0 q0)
       | XH -> XI p0)
    | XH -> (match q with
             | XO q0 -> XI q0
             | _ -> q)

  (** val coq_land : positive -> positive -> n **)

  let rec coq_land p q =
    match p with
    | XI p0 ->
      (match q with
       | XI q0 -> coq_Nsucc_double (coq_land p0 q0)
       | XO q0 -> coq_Ndouble (coq_land p0 q0)
       | XH -> Npos XH)
    | XO p0 ->
      (match q with
       | XI q0 -> coq_Ndouble (coq_land p0 q0)
       | XO q0 -> coq_Ndouble (coq_land p0 q0)
       | XH -> N0)
    | XH -> (match q with
             | XO _ -> N0
             | _ -> Npos XH)

  (** val ldiff : positive -> positive -> n **)

  let rec ldiff p q =
    match p with
    | XI p0 ->
      (match q with
       | XI q0 -> coq_Ndouble (ldiff p0 q0)
       | XO q0 -> coq_Nsucc_double (ldiff p0 q0)
       | XH -> Npos (XO p0))
    | XO p0 ->
      (match q with
       | XI q0 -> coq_Ndouble (ldiff p0 q0)
       | XO q0 -> coq_Ndouble (ldiff p0 q0)
       | XH -> Npos p)
    | XH -> (match q with
             | XO _ -> Npos XH
             | _ -> N0)

  (** val iter_op : ('a1 -> 'a1 -> 'a1) -> positive -> 'a1 -> 'a1 **)

  let rec iter_op op p a =
    match p with
    | XI p0 -> op a (iter_op op p0 (op a a))
    | XO p0 -> iter_op op p0 (op a a)
    | XH -> a

  (** val to_nat : positive -> nat **)

  let to_nat x =
    iter_op Coq__1.add x (S O)

  (** val of_succ_nat : nat -> positive **)

  let rec of_succ_nat = function
  | O -> XH
  | S x -> succ (of_succ_nat x)
 end

module N =
 struct
  (** val succ_pos : n -> positive **)

  let succ_pos = function
  | N0 -> XH
  | Npos p -> Pos.succ p

  (** val coq_lor : n -> n -> n **)

  let coq_lor n0 m =
    match n0 with
    | N0 -> m
    | Npos p -> (match m with
                 | N0 -> n0
                 | Npos q -> Npos (Pos.coq_lor p q))

  (** val coq_land : n -> n -> n **)

  let coq_land n0 m =
    match n0 with
    | N0 -> N0
    | Npos p -> (match m with
                 | N0 -> N0
                 | Npos q -> Pos.coq_land p q)

  (** val ldiff : n -> n -> n **)

  let ldiff n0 m =
    match n0 with
    | N0 -> N0
    | Npos p -> (match m with
                 | N0 -> n0
                 | Npos q -> Pos.ldiff p q)

  (** val to_nat : n -> nat **)

  let to_nat = function
  | N0 -> O
  | Npos p -> Pos.to_nat p
 end

(** val eqb0 : byte -> byte -> bool **)

let eqb0 a b =
  let (a0, p) = to_bits a in
  let (a1, p0) = p in
  let (a2, p1) = p0 in
  let (a3, p2) = p1 in
  let (a4, p3) = p2 in
  let (a5, p4) = p3 in
  let (a6, a7) = p4 in
  let (b0, p5) = to_bits b in
  let (b1, p6) = p5 in
  let (b2, p7) = p6 in
  let (b3, p8) = p7 in
  let (b4, p9) = p8 in
  let (b5, p10) = p9 in
  let (b6, b7) = p10 in
  (&&)
    ((&&)
      ((&&)
        ((&&)
          ((&&) ((&&) ((&&) (eqb a0 b0) (eqb a1 b1)) (eqb a2 b2)) (eqb a3 b3))
          (eqb a4 b4)) (eqb a5 b5)) (eqb a6 b6)) (eqb a7 b7)

(** val to_N : byte -> n **)

let to_N = function
| X00 -> N0
| X01 -> Npos XH
| X02 -> Npos (XO XH)
| X03 -> Npos (XI XH)
| X04 -> Npos (XO (XO XH))
| X05 -> Npos (XI (XO XH))
| X06 -> Npos (XO (XI XH))
| X07 -> Npos (XI (XI XH))
| X08 -> Npos (XO (XO (XO XH)))
| X09 -> Npos (XI (XO (XO XH)))
| X0a -> Npos (XO (XI (XO XH)))
| X0b -> Npos (XI (XI (XO XH)))
| X0c -> Npos (XO (XO (XI XH)))
| X0d -> Npos (XI (XO (XI XH)))
| X0e -> Npos (XO (XI (XI XH)))
| X0f -> Npos (XI (XI (XI XH)))
| X10 -> Npos (XO (XO (XO (XO XH))))
| X11 -> Npos (XI (XO (XO (XO XH))))
| X12 -> Npos (XO (XI (XO (XO XH))))
| X13 -> Npos (XI (XI (XO (XO XH))))
| X14 -> Npos (XO (XO (XI (XO XH))))
| X15 -> Npos (XI (XO (XI (XO XH))))
| X16 -> Npos (XO (XI (XI (XO XH))))
| X17 -> Npos (XI (XI (XI (XO XH))))
| X18 -> Npos (XO (XO (XO (XI XH))))
| X19 -> Npos (XI (XO (XO (XI XH))))
| X1a -> Npos (XO (XI (XO (XI XH))))
| X1b -> Npos (XI (XI (XO (XI XH))))
| X1c -> Npos (XO (XO (XI (XI XH))))
| X1d -> Npos (XI (XO (XI (XI XH))))
| X1e -> Npos (XO (XI (XI (XI XH))))
| X1f -> Npos (XI (XI (XI (XI XH))))
| X20 -> Npos (XO (XO (XO (XO (XO XH)))))
| X21 -> Npos (XI (XO (XO (XO (XO XH)))))
| X22 -> Npos (XO (XI (XO (XO (XO XH)))))
| X23 -> Npos (XI (XI (XO (XO (XO XH)))))
| X24 -> Npos (XO (XO (XI (XO (XO XH)))))
| X25 -> Npos (XI (XO (XI (XO (XO XH)))))
| X26 -> Npos (XO (XI (XI (XO (XO XH)))))
| X27 -> Npos (XI (XI (XI (XO (XO XH)))))
| X28 -> Npos (XO (XO (XO (XI (XO XH)))))
| X29 -> Npos (XI (XO (XO (XI (XO XH)))))
| X2a -> Npos (XO (XI (XO (XI (XO XH)))))
| X2b -> Npos (XI (XI (XO (XI (XO XH)))))
| X2c -> Npos (XO (XO (XI (XI (XO XH)))))
| X2d -> Npos (XI (XO (XI (XI (XO XH)))))
| X2e -> Npos (XO (XI (XI (XI (XO XH)))))
| X2f -> Npos (XI (XI (XI (XI (XO XH)))))
| X30 -> Npos (XO (XO (XO (XO (XI XH)))))
| X31 -> Npos (XI (XO (XO (XO (XI XH)))))
| X32 -> Npos (XO (XI (XO (XO (XI XH)))))
| X33 -> Npos (XI (XI (XO (XO (XI XH)))))
| X34 -> Npos (XO (XO (XI (XO (XI XH)))))
| X35 -> Npos (XI (XO (XI (XO (XI XH)))))
| X36 -> Npos (XO (XI (XI (XO (XI XH)))))
| X37 -> Npos (XI (XI (XI (XO (XI XH)))))
| X38 -> Npos (XO (XO (XO (XI (XI XH)))))
| X39 -> Npos (XI (XO (XO (XI (XI XH)))))
| X3a -> Npos (XO (XI (XO (XI (XI XH)))))
| X3b -> Npos (XI (XI (XO (XI (XI XH)))))
| X3c -> Npos (XO (XO (XI (XI (XI XH)))))
| X3d -> Npos (XI (XO (XI (XI (XI XH)))))
| X3e -> Npos (XO (XI (XI (XI (XI XH)))))
| X3f -> Npos (XI (XI (XI (XI (XI XH)))))
| X40 -> Npos (XO (XO (XO (XO (XO (XO XH))))))
| X41 -> Npos (XI (XO (XO (XO (XO (XO XH))))))
| X42 -> Npos (XO (XI (XO (XO (XO (XO XH))))))
| X43 -> Npos (XI (XI (XO (XO (XO (XO XH))))))
| X44 -> Npos (XO (XO (XI (XO (XO (XO XH))))))
| X45 -> Npos (XI (XO (XI (XO (XO (XO XH))))))
| X46 -> Npos (XO (XI (XI (XO (XO (XO XH))))))
| X47 -> Npos (XI (XI (XI (XO (XO (XO XH))))))
| X48 -> Npos (XO (XO (XO (XI (XO (XO XH))))))
| X49 -> Npos (XI (XO (XO (XI (XO (XO XH))))))
| X4a -> Npos (XO (XI (XO (XI (XO (XO XH))))))
| X4b -> Npos (XI (XI (XO (XI (XO (XO XH))))))
| X4c -> Npos (XO (XO (XI (XI (XO (XO XH))))))
| X4d -> Npos (XI (XO (XI (XI (XO (XO XH))))))
| X4e -> Npos (XO (XI (XI (XI (XO (XO XH))))))
| X4f -> Npos (XI (XI (XI (XI (XO (XO XH))))))
| X50 -> Npos (XO (XO (XO (XO (XI (XO XH))))))
| X51 -> Npos (XI (XO (XO (XO (XI (XO XH))))))
| X52 -> Npos (XO (XI (XO (XO (XI (XO XH))))))
| X53 -> Npos (XI (XI (XO (XO (XI (XO XH))))))
| X54 -> Npos (XO (XO (XI (XO (XI (XO XH))))))
| X55 -> Npos (XI (XO (XI (XO (XI (XO XH))))))
| X56 -> Npos (XO (XI (XI (XO (XI (XO XH))))))
| X57 -> Npos (XI (XI (XI (XO (XI (XO XH))))))
| X58 -> Npos (XO (XO (XO (XI (XI (XO XH))))))
| X59 -> Npos (XI (XO (XO (XI (XI (XO XH))))))
| X5a -> Npos (XO (XI (XO (XI (XI (XO XH))))))
| X5b -> Npos (XI (XI (XO (XI (XI (XO XH))))))
| X5c -> Npos (XO (XO (XI (XI (XI (XO XH))))))
| X5d -> Npos (XI (XO (XI (XI (XI (XO XH))))))
| X5e -> Npos (XO (XI (XI (XI (XI (XO XH))))))
| X5f -> Npos (XI (XI (XI (XI (XI (XO XH))))))
| X60 -> Npos (XO (XO (XO (XO (XO (XI XH))))))
| X61 -> Npos (XI (XO (XO (XO (XO (XI XH))))))
| X62 -> Npos (XO (XI (XO (XO (XO (XI XH))))))
| X63 -> Npos (XI (XI (XO (XO (XO (XI XH))))))
| X64 -> Npos (XO (XO (XI (XO (XO (XI XH))))))
| X65 -> Npos (XI (XO (XI (XO (XO (XI XH))))))
| X66 -> Npos (XO (XI (XI (XO (XO (XI XH))))))
| X67 -> Npos (XI (XI (XI (XO (XO (XI XH))))))
| X68 -> Npos (XO (XO (XO (XI (XO (XI XH))))))
| X69 -> Npos (XI (XO (XO (XI (XO (XI XH))))))
| X6a -> Npos (XO (XI (XO (XI (XO (XI XH))))))
| X6b -> Npos (XI (XI (XO (XI (XO (XI XH))))))
| X6c -> Npos (XO (XO (XI (XI (XO (XI XH))))))
| X6d -> Npos (XI (XO (XI (XI (XO (XI XH))))))
| X6e -> Npos (XO (XI (XI (XI (XO (XI XH))))))
| X6f -> Npos (XI (XI (XI (XI (XO (XI XH))))))
| X70 -> Npos (XO (XO (XO (XO (XI (XI XH))))))
| X71 -> Npos (XI (XO (XO (XO (XI (XI XH))))))
| X72 -> Npos (XO (XI (XO (XO (XI (XI XH))))))
| X73 -> Npos (XI (XI (XO (XO (XI (XI XH))))))
| X74 -> Npos (XO (XO (XI (XO (XI (XI XH))))))
| X75 -> Npos (XI (XO (XI (XO (XI (XI XH))))))
| X76 -> Npos (XO (XI (XI (XO (XI (XI XH))))))
| X77 -> Npos (XI (XI (XI (XO (XI (XI XH))))))
| X78 -> Npos (XO (XO (XO (XI (XI (XI XH))))))
| X79 -> Npos (XI (XO (XO (XI (XI (XI XH))))))
| X7a -> Npos (XO (XI (XO (XI (XI (XI XH))))))
| X7b -> Npos (XI (XI (XO (XI (XI (XI XH))))))
| X7c -> Npos (XO (XO (XI (XI (XI (XI XH))))))
| X7d -> Npos (XI (XO (XI (XI (XI (XI XH))))))
| X7e -> Npos (XO (XI (XI (XI (XI (XI XH))))))
| X7f -> Npos (XI (XI (XI (XI (XI (XI XH))))))
| X80 -> Npos (XO (XO (XO (XO (XO (XO (XO XH)))))))
| X81 -> Npos (XI (XO (XO (XO (XO (XO (XO XH)))))))
| X82 -> Npos (XO (XI (XO (XO (XO (XO (XO XH)))))))
| X83 -> Npos (XI (XI (XO (XO (XO (XO (XO XH)))))))
| X84 -> Npos (XO (XO (XI (XO (XO (XO (XO XH)))))))
| X85 -> Npos (XI (XO (XI (XO (XO (XO (XO XH)))))))
| X86 -> Npos (XO (XI (XI (XO (XO (XO (XO XH)))))))
| X87 -> Npos (XI (XI (XI (XO (XO (XO (XO XH)))))))
| X88 -> Npos (XO (XO (XO (XI (XO (XO (XO XH)))))))
| X89 -> Npos (XI (XO (XO (XI (XO (XO (XO XH)))))))
| X8a -> Npos (XO (XI (XO (XI (XO (XO (XO XH)))))))
| X8b -> Npos (XI (XI (XO (XI (XO (XO (XO XH)))))))
| X8c -> Npos (XO (XO (XI (XI (XO (XO (XO XH)))))))
| X8d -> Npos (XI (XO (XI (XI (XO (XO (XO XH)))))))
| X8e -> Npos (XO (XI (XI (XI (XO (XO (XO XH)))))))
| X8f -> Npos (XI (XI (XI (XI (XO (XO (XO XH)))))))
| X90 -> Npos (XO (XO (XO (XO (XI (XO (XO XH)))))))
| X91 -> Npos (XI (XO (XO (XO (XI (XO (XO XH)))))))
| X92 -> Npos (XO (XI (XO (XO (XI (XO (XO XH)))))))
| X93 -> Npos (XI (XI (XO (XO (XI (XO (XO XH)))))))
| X94 -> Npos (XO (XO (XI (XO (XI (XO (XO XH)))))))
| X95 -> Npos (XI (XO (XI (XO (XI (XO (XO XH)))))))
| X96 -> Npos (XO (XI (XI (XO (XI (XO (XO XH)))))))
| X97 -> Npos (XI (XI (XI (XO (XI (XO (XO XH)))))))
| X98 -> Npos (XO (XO (XO (XI (XI (XO (XO XH)))))))
| X99 -> Npos (XI (XO (XO (XI (XI (XO (XO XH)))))))
| X9a -> Npos (XO (XI (XO (XI (XI (XO (XO XH)))))))
| X9b -> Npos (XI (XI (XO (XI (XI (XO (XO XH)))))))
| X9c -> Npos (XO (XO (XI (XI (XI (XO (XO XH)))))))
| X9d -> Npos (XI (XO (XI (XI (XI (XO (XO XH)))))))
| X9e -> Npos (XO (XI (XI (XI (XI (XO (XO XH)))))))
| X9f -> Npos (XI (XI (XI (XI (XI (XO (XO XH)))))))
| Xa0 -> Npos (XO (XO (XO (XO (XO (XI (XO XH)))))))
| Xa1 -> Npos (XI (XO (XO (XO (XO (XI (XO XH)))))))
| Xa2 -> Npos (XO (XI (XO (XO (XO (XI (XO XH)))))))
| Xa3 -> Npos (XI (XI (XO (XO (XO (XI (XO XH)))))))
| Xa4 -> Npos (XO (XO (XI (XO (XO (XI (XO XH)))))))
| Xa5 -> Npos (XI (XO (XI (XO (XO (XI (XO XH)))))))
| Xa6 -> Npos (XO (XI (XI (XO (XO (XI (XO XH)))))))
| Xa7 -> Npos (XI (XI (XI (XO (XO (XI (XO XH)))))))
| Xa8 -> Npos (XO (XO (XO (XI (XO (XI (XO XH)))))))
| Xa9 -> Npos (XI (XO (XO (XI (XO (XI (XO XH)))))))
| Xaa -> Npos (XO (XI (XO (XI (XO (XI (XO XH)))))))
| Xab -> Npos (XI (XI (XO (XI (XO (XI (XO XH)))))))
| Xac -> Npos (XO (XO (XI (XI (XO (XI (XO XH)))))))
| Xad -> Npos (XI (XO (XI (XI (XO (XI (XO XH)))))))
| Xae -> Npos (XO (XI (XI (XI (XO (XI (XO XH)))))))
| Xaf -> Npos (XI (XI (XI (XI (XO (XI (XO XH)))))))
| Xb0 -> Npos (XO (XO (XO (XO (XI (XI (XO XH)))))))
| Xb1 -> Npos (XI (XO (XO (XO (XI (XI (XO XH)))))))
| Xb2 -> Npos (XO (XI (XO (XO (XI (XI (XO XH)))))))
| Xb3 -> Npos (XI (XI (XO (XO (XI (XI (XO XH)))))))
| Xb4 -> Npos (XO (XO (XI (XO (XI (XI (XO XH)))))))
| Xb5 -> Npos (XI (XO (XI (XO (XI (XI (XO XH)))))))
| Xb6 -> Npos (XO (XI (XI (XO (XI (XI (XO XH)))))))
| Xb7 -> Npos (XI (XI (XI (XO (XI (XI (XO XH)))))))
| Xb8 -> Npos (XO (XO (XO (XI (XI (XI (XO XH)))))))
| Xb9 -> Npos (XI (XO (XO (XI (XI (XI (XO XH)))))))
| Xba -> Npos (XO (XI (XO (XI (XI (XI (XO XH)))))))
| Xbb -> Npos (XI (XI (XO (XI (XI (XI (XO XH)))))))
| Xbc -> Npos (XO (XO (XI (XI (XI (XI (XO XH)))))))
| Xbd -> Npos (XI (XO (XI (XI (XI (XI (XO XH)))))))
| Xbe -> Npos (XO (XI (XI (XI (XI (XI (XO XH)))))))
| Xbf -> Npos (XI (XI (XI (XI (XI (XI (XO XH)))))))
| Xc0 -> Npos (XO (XO (XO (XO (XO (XO (XI XH)))))))
| Xc1 -> Npos (XI (XO (XO (XO (XO (XO (XI XH)))))))
| Xc2 -> Npos (XO (XI (XO (XO (XO (XO (XI XH)))))))
| Xc3 -> Npos (XI (XI (XO (XO (XO (XO (XI XH)))))))
| Xc4 -> Npos (XO (XO (XI (XO (XO (XO (XI XH)))))))
| Xc5 -> Npos (XI (XO (XI (XO (XO (XO (XI XH)))))))
| Xc6 -> Npos (XO (XI (XI (XO (XO (XO (XI XH)))))))
| Xc7 -> Npos (XI (XI (XI (XO (XO (XO (XI XH)))))))
| Xc8 -> Npos (XO (XO (XO (XI (XO (XO (XI XH)))))))
| Xc9 -> Npos (XI (XO (XO (XI (XO (XO (XI XH)))))))
| Xca -> Npos (XO (XI (XO (XI (XO (XO (XI XH)))))))
| Xcb -> Npos (XI (XI (XO (XI (XO (XO (XI XH)))))))
| Xcc -> Npos (XO (XO (XI (XI (XO (XO (XI XH)))))))
| Xcd -> Npos (XI (XO (XI (XI (XO (XO (XI XH)))))))
| Xce -> Npos (XO (XI (XI (XI (XO (XO (XI XH)))))))
| Xcf -> Npos (XI (XI (XI (XI (XO (XO (XI XH)))))))
| Xd0 -> Npos (XO (XO (XO (XO (XI (XO (XI XH)))))))
| Xd1 -> Npos (XI (XO (XO (XO (XI (XO (XI XH)))))))
| Xd2 -> Npos (XO (XI (XO (XO (XI (XO (XI XH)))))))
| Xd3 -> Npos (XI (XI (XO (XO (XI (XO (XI XH)))))))
| Xd4 -> Npos (XO (XO (XI (XO (XI (XO (XI XH)))))))
| Xd5 -> Npos (XI (XO (XI (XO (XI (XO (XI XH)))))))
| Xd6 -> Npos (XO (XI (XI (XO (XI (XO (XI XH)))))))
| Xd7 -> Npos (XI (XI (XI (XO (XI (XO (XI XH)))))))
| Xd8 -> Npos (XO (XO (XO (XI (XI (XO (XI XH)))))))
| Xd9 -> Npos (XI (XO (XO (XI (XI (XO (XI XH)))))))
| Xda -> Npos (XO (XI (XO (XI (XI (XO (XI XH)))))))
| Xdb -> Npos (XI (XI (XO (XI (XI (XO (XI XH)))))))
| Xdc -> Npos (XO (XO (XI (XI (XI (XO (XI XH)))))))
| Xdd -> Npos (XI (XO (XI (XI (XI (XO (XI XH)))))))
| Xde -> Npos (XO (XI (XI (XI (XI (XO (XI XH)))))))
| Xdf -> Npos (XI (XI (XI (XI (XI (XO (XI XH)))))))
| Xe0 -> Npos (XO (XO (XO (XO (XO (XI (XI XH)))))))
| Xe1 -> Npos (XI (XO (XO (XO (XO (XI (XI XH)))))))
| Xe2 -> Npos (XO (XI (XO (XO (XO (XI (XI XH)))))))
| Xe3 -> Npos (XI (XI (XO (XO (XO (XI (XI XH)))))))
| Xe4 -> Npos (XO (XO (XI (XO (XO (XI (XI XH)))))))
| Xe5 -> Npos (XI (XO (XI (XO (XO (XI (XI XH)))))))
| Xe6 -> Npos (XO (XI (XI (XO (XO (XI (XI XH)))))))
| Xe7 -> Npos (XI (XI (XI (XO (XO (XI (XI XH)))))))
| Xe8 -> Npos (XO (XO (XO (XI (XO (XI (XI XH)))))))
| Xe9 -> Npos (XI (XO (XO (XI (XO (XI (XI XH)))))))
| Xea -> Npos (XO (XI (XO (XI (XO (XI (XI XH)))))))
| Xeb -> Npos (XI (XI (XO (XI (XO (XI (XI XH)))))))
| Xec -> Npos (XO (XO (XI (XI (XO (XI (XI XH)))))))
| Xed -> Npos (XI (XO (XI (XI (XO (XI (XI XH)))))))
| Xee -> Npos (XO (XI (XI (XI (XO (XI (XI XH)))))))
| Xef -> Npos (XI (XI (XI (XI (XO (XI (XI XH)))))))
| Xf0 -> Npos (XO (XO (XO (XO (XI (XI (XI XH)))))))
| Xf1 -> Npos (XI (XO (XO (XO (XI (XI (XI XH)))))))
| Xf2 -> Npos (XO (XI (XO (XO (XI (XI (XI XH)))))))
| Xf3 -> Npos (XI (XI (XO (XO (XI (XI (XI XH)))))))
| Xf4 -> Npos (XO (XO (XI (XO (XI (XI (XI XH)))))))
| Xf5 -> Npos (XI (XO (XI (XO (XI (XI (XI XH)))))))
| Xf6 -> Npos (XO (XI (XI (XO (XI (XI (XI XH)))))))
| Xf7 -> Npos (XI (XI (XI (XO (XI (XI (XI XH)))))))
| Xf8 -> Npos (XO (XO (XO (XI (XI (XI (XI XH)))))))
| Xf9 -> Npos (XI (XO (XO (XI (XI (XI (XI XH)))))))
| Xfa -> Npos (XO (XI (XO (XI (XI (XI (XI XH)))))))
| Xfb -> Npos (XI (XI (XO (XI (XI (XI (XI XH)))))))
| Xfc -> Npos (XO (XO (XI (XI (XI (XI (XI XH)))))))
| Xfd -> Npos (XI (XO (XI (XI (XI (XI (XI XH)))))))
| Xfe -> Npos (XO (XI (XI (XI (XI (XI (XI XH)))))))
| Xff -> Npos (XI (XI (XI (XI (XI (XI (XI XH)))))))

(** val of_N : n -> byte option **)

let of_N = function
| N0 -> Some X00
| Npos p ->
  (match p with
   | XI p0 ->
     (match p0 with
      | XI p1 ->
        (match p1 with
         | XI p2 ->
           (match p2 with
            | XI p3 ->
              (match p3 with
               | XI p4 ->
                 (match p4 with
                  | XI p5 ->
                    (match p5 with
                     | XI p6 -> (match p6 with
                                 | XH -> Some Xff
                                 | _ -> None)
                     | XO p6 -> (match p6 with
                                 | XH -> Some Xbf
                                 | _ -> None)
                     | XH -> Some X7f)
                  | XO p5 ->
                    (match p5 with
                     | XI p6 -> (match p6 with
                                 | XH -> Some Xdf
                                 | _ -> None)
                     | XO p6 -> (match p6 with
                                 | XH -> Some X9f
                                 | _ -> None)
                     | XH -> Some X5f)
                  | XH -> Some X3f)
               | XO p4 ->
                 (match p4 with
                  | XI p5 ->
                    (match p5 with
                     | XI p6 -> (match p6 with
                                 | XH -> Some Xef
                                 | _ -> None)
                     | XO p6 -> (match p6 with
                                 | XH -> Some Xaf
                                 | _ -> None)
                     | XH -> Some X6f)
                  | XO p5 ->
                    (match p5 with
                     | XI p6 -> (match p6 with
                                 | XH -> Some Xcf
                                 | _ -> None)
                     | XO p6 -> (match p6 with
                                 | XH -> Some X8f
                                 | _ -> None)
                     | XH -> Some X4f)
                  | XH -> Some X2f)
               | XH -> Some X1f)
            | XO p3 ->
              (match p3 with
               | XI p4 ->
                 (match p4 with
                  | XI p5 ->
                    (match p5 with
                     | XI p6 -> (match p6 with
                                 | XH -> Some Xf7
                                 | _ -> None)
                     | XO p6 -> (match p6 with
                                 | XH -> Some Xb7
                                 | _ -> None)
                     | XH -> Some X77)
                  | XO p5 ->
                    (match p5 with
                     | XI p6 -> (match p6 with
                                 | XH -> Some Xd7
                                 | _ -> None)
                     | XO p6 -> (match p6 with
                                 | XH -> Some X97
                                 | _ -> None)
                     | XH -> Some X57)
                  | XH -> Some X37)
               | XO p4 ->
                 (match p4 with
                  | XI p5 ->
                    (match p5 with
                     | XI p6 -> (match p6 with
                                 | XH -> Some Xe7
                                 | _ -> None)
                     | XO p6 -> (match p6 with
                                 | XH -> Some Xa7
                                 | _ -> None)
                     | XH -> Some X67)
                  | XO p5 ->
                    (match p5 with
                     | XI p6 -> (match p6 with
                                 | XH -> Some Xc7
                                 | _ -> None)
                     | XO p6 -> (match p6 with
                                 | XH -> Some X87
                                 | _ -> None)
                     | XH -> Some X47)
                  | XH -> Some X27)
               | XH -> Some X17)
            | XH -> Some X0f)
         | XO p2 ->
           (match p2 with
            | XI p3 ->
              (match p3 with
               | XI p4 ->
                 (match p4 with
                  | XI p5 ->
                    (match p5 with
                     | XI p6 -> (match p6 with
                                 | XH -> Some Xfb
                                 | _ -> None)
                     | XO p6 -> (match p6 with
                                 | XH -> Some Xbb
                                 | _ -> None)
                     | XH -> Some X7b)
                  | XO p5 ->
                    (match p5 with
                     | XI p6 -> (match p6 with
                                 | XH -> Some Xdb
                                 | _ -> None)
                     | XO p6 -> (match p6 with
                                 | XH -> Some X9b
                                 | _ -> None)
                     | XH -> Some X5b)
                  | XH -> Some X3b)
               | XO p4 ->
                 (match p4 with
                  | XI p5 ->
                    (match p5 with
                     | XI p6 -> (match p6 with
                                 | XH -> Some Xeb
                                 | _ -> None)
                     | XO p6 -> (match p6 with
                                 | XH -> Some Xab
                                 | _ -> None)
                     | XH -> Some X6b)
                  | XO p5 ->
                    (match p5 with
                     | XI p6 -> (match p6 with
                                 | XH -> Some Xcb
                                 | _ -> None)
                     | XO p6 -> (match p6 with
                                 | XH -> Some X8b
                                 | _ -> None)
                     | XH -> Some X4b)
                  | XH -> Some X2b)
               | XH -> Some X1b)
            | XO p3 ->
              (match p3 with
               | XI p4 ->
                 (match p4 with
                  | XI p5 ->
                    (match p5 with
                     | XI p6 -> (match p6 with
                                 | XH -> Some Xf3
                                 | _ -> None)
                     | XO p6 -> (match p6 with
                                 | XH -> Some Xb3
                                 | _ -> None)
                     | XH -> Some X73)
                  | XO p5 ->
                    (match p5 with
                     | XI p6 -> (match p6 with
                                 | XH -> Some Xd3
                                 | _ -> None)
                     | XO p6 -> (match p6 with
                                 | XH -> Some X93
                                 | _ -> None)
                     | XH -> Some X53)
                  | XH -> Some X33)
               | XO p4 ->
                 (match p4 with
                  | XI p5 ->
                    (match p5 with
                     | XI p6 -> (match p6 with
                                 | XH -> Some Xe3
                                 | _ -> None)
                     | XO p6 -> (match p6 with
                                 | XH -> Some Xa3
                                 | _ -> None)
                     | XH -> Some X63)
                  | XO p5 ->
                    (match p5 with
                     | XI p6 -> (match p6 with
                                 | XH -> Some Xc3
                                 | _ -> None)
                     | XO p6 -> (match p6 with
                                 | XH -> Some X83
                                 | _ -> None)
                     | XH -> Some X43)
                  | XH -> Some X23)
               | XH -> Some X13)
            | XH -> Some X0b)
         | XH -> Some X07)
      | XO p1 ->
        (match p1 with
         | XI p2 ->
           (match p2 with
            | XI p3 ->
              (match p3 with
               | XI p4 ->
                 (match p4 with
                  | XI p5 ->
                    (match p5 with
                     | XI p6 -> (match p6 with
                                 | XH -> Some Xfd
                                 | _ -> None)
                     | XO p6 -> (match p6 with
                                 | XH -> Some Xbd
                                 | _ -> None)
                     | XH -> Some X7d)
                  | XO p5 ->
                    (match p5 with
                     | XI p6 -> (match p6 with
                                 | XH -> Some Xdd
                                 | _ -> None)
                     | XO p6 -> (match p6 with
                                 | XH -> Some X9d
                                 | _ -> None)
                     | XH -> Some X5d)
                  | XH -> Some X3d)
               | XO p4 ->
                 (match p4 with
                  | XI p5 ->
                    (match p5 with
                     | XI p6 -> (match p6 with
                                 | XH -> Some Xed
                                 | _ -> None)
                     | XO p6 -> (match p6 with
                                 | XH -> Some Xad
                                 | _ -> None)
                     | XH -> Some X6d)
                  | XO p5 ->
                    (match p5 with
                     | XI p6 -> (match p6 with
                                 | XH -> Some Xcd
                                 | _ -> None)
                     | XO p6 -> (match p6 with
                                 | XH -> Some X8d
                                 | _ -> None)
                     | XH -> Some X4d)
                  | XH -> Some X2d)
               | XH -> Some X1d)
            | XO p3 ->
              (match p3 with
               | XI p4 ->
                 (match p4 with
                  | XI p5 ->
                    (match p5 with
                     | XI p6 -> (match p6 with
                                 | XH -> Some Xf5
                                 | _ -> None)
                     | XO p6 -> (match p6 with
                                 | XH -> Some Xb5
                                 | _ -> None)
                     | XH -> Some X75)
                  | XO p5 ->
                    (match p5 with
                     | XI p6 -> (match p6 with
                                 | XH -> Some Xd5
                                 | _ -> None)
                     | XO p6 -> (match p6 with
                                 | XH -> Some X95
                                 | _ -> None)
                     | XH -> Some X55)
                  | XH -> Some X35)
               | XO p4 ->
                 (match p4 with
                  | XI p5 ->
                    (match p5 with
                     | XI p6 -> (match p6 with
                                 | XH -> Some Xe5
                                 | _ -> None)
                     | XO p6 -> (match p6 with
                                 | XH -> Some Xa5
                                 | _ -> None)
                     | XH -> Some X65)
                  | XO p5 ->
                    (match p5 with
                     | XI p6 -> (match p6 with
                                 | XH -> Some Xc5
                                 | _ -> None)
                     | XO p6 -> (match p6 with
                                 | XH -> Some X85
                                 | _ -> None)
                     | XH -> Some X45)
                  | XH -> Some X25)
               | XH -> Some X15)
            | XH -> Some X0d)
         | XO p2 ->
           (match p2 with
            | XI p3 ->
              (match p3 with
               | XI p4 ->
                 (match p4 with
                  | XI p5 ->
                    (match p5 with
                     | XI p6 -> (match p6 with
                                 | XH -> Some Xf9
                                 | _ -> None)
                     | XO p6 -> (match p6 with
                                 | XH -> Some Xb9
                                 | _ -> None)
                     | XH -> Some X79)
                  | XO p5 ->
                    (match p5 with
                     | XI p6 -> (match p6 with
                                 | XH -> Some Xd9
                                 | _ -> None)
                     | XO p6 -> (match p6 with
                                 | XH -> Some X99
                                 | _ -> None)
                     | XH -> Some X59)
                  | XH -> Some X39)
               | XO p4 ->
                 (match p4 with
                  | XI p5 ->
                    (match p5 with
                     | XI p6 -> (match p6 with
                                 | XH -> Some Xe9
                                 | _ -> None)
                     | XO p6 -> (match p6 with
                                 | XH -> Some Xa9
                                 | _ -> None)
                     | XH -> Some X69)
                  | XO p5 ->
                    (match p5 with
                     | XI p6 -> (match p6 with
                                 | XH -> Some Xc9
                                 | _ -> None)
                     | XO p6 -> (match p6 with
                                 | XH -> Some X89
                                 | _ -> None)
                     | XH -> Some X49)
                  | XH -> Some X29)
               | XH -> Some X19)
            | XO p3 ->
              (match p3 with
               | XI p4 ->
                 (match p4 with
                  | XI p5 ->
                    (match p5 with
                     | XI p6 -> (match p6 with
                                 | XH -> Some Xf1
                                 | _ -> None)
                     | XO p6 -> (match p6 with
                                 | XH -> Some Xb1
                                 | _ -> None)
                     | XH -> Some X71)
                  | XO p5 ->
                    (match p5 with
                     | XI p6 -> (match p6 with
                                 | XH -> Some Xd1
                                 | _ -> None)
                     | XO p6 -> (match p6 with
                                 | XH -> Some X91
                                 | _ -> None)
                     | XH -> Some X51)
                  | XH -> Some X31)
               | XO p4 ->
                 (match p4 with
                  | XI p5 ->
                    (match p5 with
                     | XI p6 -> (match p6 with
                                 | XH -> Some Xe1
                                 | _ -> None)
                     | XO p6 -> (match p6 with
                                 | XH -> Some Xa1
                                 | _ -> None)
                     | XH -> Some X61)
                  | XO p5 ->
                    (match p5 with
                     | XI p6 -> (match p6 with
                                 | XH -> Some Xc1
                                 | _ -> None)
                     | XO p6 -> (match p6 with
                                 | XH -> Some X81
                                 | _ -> None)
                     | XH -> Some X41)
                  | XH -> Some X21)
               | XH -> Some X11)
            | XH -> Some X09)
         | XH -> Some X05)
      | XH -> Some X03)
   | XO p0 ->
     (match p0 with
      | XI p1 ->
        (match p1 with
         | XI p2 ->
           (match p2 with
            | XI p3 ->
              (match p3 with
               | XI p4 ->
                 (match p4 with
                  | XI p5 ->
                    (match p5 with
                     | XI p6 -> (match p6 with
                                 | XH -> Some Xfe
                                 | _ -> None)
                     | XO p6 -> (match p6 with
                                 | XH -> Some Xbe
                                 | _ -> None)
                     | XH -> Some X7e)
                  | XO p5 ->
                    (match p5 with
                     | XI p6 -> (match p6 with
                                 | XH -> Some Xde
                                 | _ -> None)
                     | XO p6 -> (match p6 with
                                 | XH -> Some X9e
                                 | _ -> None)
                     | XH -> Some X5e)
                  | XH -> Some X3e)
               | XO p4 ->
                 (match p4 with
                  | XI p5 ->
                    (match p5 with
                     | XI p6 -> (match p6 with
                                 | XH -> Some Xee
                                 | _ -> None)
                     | XO p6 -> (match p6 with
                                 | XH -> Some Xae
                                 | _ -> None)
                     | XH -> Some X6e)
                  | XO p5 ->
                    (match p5 with
                     | XI p6 -> (match p6 with
                                 | XH -> Some Xce
                                 | _ -> None)
                     | XO p6 -> (match p6 with
                                 | XH -> Some X8e
                                 | _ -> None)
                     | XH -> Some X4e)
                  | XH -> Some X2e)
               | XH -> Some X1e)
            | XO p3 ->
              (match p3 with
               | XI p4 ->
                 (match p4 with
                  | XI p5 ->
                    (match p5 with
                     | XI p6 -> (match p6 with
                                 | XH -> Some Xf6
                                 | _ -> None)
                     | XO p6 -> (match p6 with
                                 | XH -> Some Xb6
                                 | _ -> None)
                     | XH -> Some X76)
                  | XO p5 ->
                    (match p5 with
                     | XI p6 -> (match p6 with
                                 | XH -> Some Xd6
                                 | _ -> None)
                     | XO p6 -> (match p6 with
                                 | XH -> Some X96
                                 | _ -> None)
                     | XH -> Some X56)
                  | XH -> Some X36)
               | XO p4 ->
                 (match p4 with
                  | XI p5 ->
                    (match p5 with
                     | XI p6 -> (match p6 with
                                 | XH -> Some Xe6
                                 | _ -> None)
                     | XO p6 -> (match p6 with
                                 | XH -> Some Xa6
                                 | _ -> None)
                     | XH -> Some X66)
                  | XO p5 ->
                    (match p5 with
                     | XI p6 -> (match p6 with
                                 | XH -> Some Xc6
                                 | _ -> None)
                     | XO p6 -> (match p6 with
                                 | XH -> Some X86
                                 | _ -> None)
                     | XH -> Some X46)
                  | XH -> Some X26)
               | XH -> Some X16)
            | XH -> Some X0e)
         | XO p2 ->
           (match p2 with
            | XI p3 ->
              (match p3 with
               | XI p4 ->
                 (match p4 with
                  | XI p5 ->
                    (match p5 with
                     | XI p6 -> (match p6 with
                                 | XH -> Some Xfa
                                 | _ -> None)
                     | XO p6 -> (match p6 with
                                 | XH -> Some Xba
                                 | _ -> None)
                     | XH -> Some X7a)
                  | XO p5 ->
                    (match p5 with
                     | XI p6 -> (match p6 with
                                 | XH -> Some Xda
                                 | _ -> None)
                     | XO p6 -> (match p6 with
                                 | XH -> Some X9a
                                 | _ -> None)
                     | XH -> Some X5a)
                  | XH -> Some X3a)
               | XO p4 ->
                 (match p4 with
                  | XI p5 ->
                    (match p5 with
                     | XI p6 -> (match p6 with
                                 | XH -> Some Xea
                                 | _ -> None)
                     | XO p6 -> (match p6 with
                                 | XH -> Some Xaa
                                 | _ -> None)
                     | XH -> Some X6a)
                  | XO p5 ->
                    (match p5 with
                     | XI p6 -> (match p6 with
                                 | XH -> Some Xca
                                 | _ -> None)
                     | XO p6 -> (match p6 with
                                 | XH -> Some X8a
                                 | _ -> None)
                     | XH -> Some X4a)
                  | XH -> Some X2a)
               | XH -> Some X1a)
            | XO p3 ->
              (match p3 with
               | XI p4 ->
                 (match p4 with
                  | XI p5 ->
                    (match p5 with
                     | XI p6 -> (match p6 with
                                 | XH -> Some Xf2
                                 | _ -> None)
                     | XO p6 -> (match p6 with
                                 | XH -> Some Xb2
                                 | _ -> None)
                     | XH -> Some X72)
                  | XO p5 ->
                    (match p5 with
                     | XI p6 -> (match p6 with
                                 | XH -> Some Xd2
                                 | _ -> None)
                     | XO p6 -> (match p6 with
                                 | XH -> Some X92
                                 | _ -> None)
                     | XH -> Some X52)
                  | XH -> Some X32)
               | XO p4 ->
                 (match p4 with
                  | XI p5 ->
                    (match p5 with
                     | XI p6 -> (match p6 with
                                 | XH -> Some Xe2
                                 | _ -> None)
                     | XO p6 -> (match p6 with
                                 | XH -> Some Xa2
                                 | _ -> None)
                     | XH -> Some X62)
                  | XO p5 ->
                    (match p5 with
                     | XI p6 -> (match p6 with
                                 | XH -> Some Xc2
                                 | _ -> None)
                     | XO p6 -> (match p6 with
                                 | XH -> Some X82
                                 | _ -> None)
                     | XH -> Some X42)
                  | XH -> Some X22)
               | XH -> Some X12)
            | XH -> Some X0a)
         | XH -> Some X06)
      | XO p1 ->
        (match p1 with
         | XI p2 ->
           (match p2 with
            | XI p3 ->
              (match p3 with
               | XI p4 ->
                 (match p4 with
                  | XI p5 ->
                    (match p5 with
                     | XI p6 -> (match p6 with
                                 | XH -> Some Xfc
                                 | _ -> None)
                     | XO p6 -> (match p6 with
                                 | XH -> Some Xbc
                                 | _ -> None)
                     | XH -> Some X7c)
                  | XO p5 ->
                    (match p5 with
                     | XI p6 -> (match p6 with
                                 | XH -> Some Xdc
                                 | _ -> None)
                     | XO p6 -> (match p6 with
                                 | XH -> Some X9c
                                 | _ -> None)
                     | XH -> Some X5c)
                  | XH -> Some X3c)
               | XO p4 ->
                 (match p4 with
                  | XI p5 ->
                    (match p5 with
                     | XI p6 -> (match p6 with
                                 | XH -> Some Xec
                                 | _ -> None)
                     | XO p6 -> (match p6 with
                                 | XH -> Some Xac
                                 | _ -> None)
                     | XH -> Some X6c)
                  | XO p5 ->
                    (match p5 with
                     | XI p6 -> (match p6 with
                                 | XH -> Some Xcc
                                 | _ -> None)
                     | XO p6 -> (match p6 with
                                 | XH -> Some X8c
                                 | _ -> None)
                     | XH -> Some X4c)
                  | XH -> Some X2c)
               | XH -> Some X1c)
            | XO p3 ->
              (match p3 with
               | XI p4 ->
                 (match p4 with
                  | XI p5 ->
                    (match p5 with
                     | XI p6 -> (match p6 with
                                 | XH -> Some Xf4
                                 | _ -> None)
                     | XO p6 -> (match p6 with
                                 | XH -> Some Xb4
                                 | _ -> None)
                     | XH -> Some X74)
                  | XO p5 ->
                    (match p5 with
                     | XI p6 -> (match p6 with
                                 | XH -> Some Xd4
                                 | _ -> None)
                     | XO p6 -> (match p6 with
                                 | XH -> Some X94
                                 | _ -> None)
                     | XH -> Some X54)
                  | XH -> Some X34)
               | XO p4 ->
                 (match p4 with
                  | XI p5 ->
                    (match p5 with
                     | XI p6 -> (match p6 with
                                 | XH -> Some Xe4
                                 | _ -> None)
                     | XO p6 -> (match p6 with
                                 | XH -> Some Xa4
                                 | _ -> None)
                     | XH -> Some X64)
                  | XO p5 ->
                    (match p5 with
                     | XI p6 -> (match p6 with
                                 | XH -> Some Xc4
                                 | _ -> None)
                     | XO p6 -> (match p6 with
                                 | XH -> Some X84
                                 | _ -> None)
                     | XH -> Some X44)
                  | XH -> Some X24)
               | XH -> Some X14)
            | XH -> Some X0c)
         | XO p2 ->
           (match p2 with
            | XI p3 ->
              (match p3 with
               | XI p4 ->
                 (match p4 with
                  | XI p5 ->
                    (match p5 with
                     | XI p6 -> (match p6 with
                                 | XH -> Some Xf8
                                 | _ -> None)
                     | XO p6 -> (match p6 with
                                 | XH -> Some Xb8
                                 | _ -> None)
                     | XH -> Some X78)
                  | XO p5 ->
                    (match p5 with
                     | XI p6 -> (match p6 with
                                 | XH -> Some Xd8
                                 | _ -> None)
                     | XO p6 -> (match p6 with
                                 | XH -> Some X98
                                 | _ -> None)
                     | XH -> Some X58)
                  | XH -> Some X38)
               | XO p4 ->
                 (match p4 with
                  | XI p5 ->
                    (match p5 with
                     | XI p6 -> (match p6 with
                                 | XH -> Some Xe8
                                 | _ -> None)
                     | XO p6 -> (match p6 with
                                 | XH -> Some Xa8
                                 | _ -> None)
                     | XH -> Some X68)
                  | XO p5 ->
                    (match p5 with
                     | XI p6 -> (match p6 with
                                 | XH -> Some Xc8
                                 | _ -> None)
                     | XO p6 -> (match p6 with
                                 | XH -> Some X88
                                 | _ -> None)
                     | XH -> Some X48)
                  | XH -> Some X28)
               | XH -> Some X18)
            | XO p3 ->
              (match p3 with
               | XI p4 ->
                 (match p4 with
                  | XI p5 ->
                    (match p5 with
                     | XI p6 -> (match p6 with
                                 | XH -> Some Xf0
                                 | _ -> None)
                     | XO p6 -> (match p6 with
                                 | XH -> Some Xb0
                                 | _ -> None)
                     | XH -> Some X70)
                  | XO p5 ->
                    (match p5 with
                     | XI p6 -> (match p6 with
                                 | XH -> Some Xd0
                                 | _ -> None)
                     | XO p6 -> (match p6 with
                                 | XH -> Some X90
                                 | _ -> None)
                     | XH -> Some X50)
                  | XH -> Some X30)
               | XO p4 ->
                 (match p4 with
                  | XI p5 ->
                    (match p5 with
                     | XI p6 -> (match p6 with
                                 | XH -> Some Xe0
                                 | _ -> None)
                     | XO p6 -> (match p6 with
                                 | XH -> Some Xa0
                                 | _ -> None)
                     | XH -> Some X60)
                  | XO p5 ->
                    (match p5 with
                     | XI p6 -> (match p6 with
                                 | XH -> Some Xc0
                                 | _ -> None)
                     | XO p6 -> (match p6 with
                                 | XH -> Some X80
                                 | _ -> None)
                     | XH -> Some X40)
                  | XH -> Some X20)
               | XH -> Some X10)
            | XH -> Some X08)
         | XH -> Some X04)
      | XH -> Some X02)
   | XH -> Some X01)

module Z =
 struct
  (** val double : z -> z **)

  let double = function
  | Z0 -> Z0
  | Zpos p -> Zpos (XO p)
  | Zneg p -> Zneg (XO p)

  (** val succ_double : z -> z **)

  let succ_double = function
  | Z0 -> Zpos XH
  | Zpos p -> Zpos (XI p)
  | Zneg p -> Zneg (Pos.pred_double p)

  (** val pred_double : z -> z **)

  let pred_double = function
  | Z0 -> Zneg XH
  | Zpos p -> Zpos (Pos.pred_double p)
  | Zneg p -> Zneg (XI p)

  (** val pos_sub : positive -> positive -> z **)

  let rec pos_sub x y =
    match x with
    | XI p ->
      (match y with
       | XI q -> double (pos_sub p q)
       | XO q -> succ_double (pos_sub p q)
       | XH -> Zpos (XO p))
    | XO p ->
      (match y with
       | XI q -> pred_double (pos_sub p q)
       | XO q -> double (pos_sub p q)
       | XH -> Zpos (Pos.pred_double p))
    | XH ->
      (match y with
       | XI q -> Zneg (XO q)
       | XO q -> Zneg (Pos.pred_double q)
       | XH -> Z0)

  (** val add : z -> z -> z **)

  let add x y =
    match x with
    | Z0 -> y
    | Zpos x' ->
      (match y with
       | Z0 -> x
       | Zpos y' -> Zpos (Pos.add x' y')
       | Zneg y' -> pos_sub x' y')
    | Zneg x' ->
      (match y with
       | Z0 -> x
       | Zpos y' -> pos_sub y' x'
       | Zneg y' -> Zneg (Pos.add x' y'))

  (** val opp : z -> z **)

  let opp = function
  | Z0 -> Z0
  | Zpos x0 -> Zneg x0
  | Zneg x0 -> Zpos x0

  (** val sub : z -> z -> z **)

  let sub m n0 =
    add m (opp n0)

  (** val mul : z -> z -> z **)

  let mul x y =
    match x with
    | Z0 -> Z0
    | Zpos x' ->
      (match y with
       | Z0 -> Z0
       | Zpos y' -> Zpos (Pos.mul x' y')
       | Zneg y' -> Zneg (Pos.mul x' y'))
    | Zneg x' ->
      (match y with
       | Z0 -> Z0
       | Zpos y' -> Zneg (Pos.mul x' y')
       | Zneg y' -> Zpos (Pos.mul x' y'))

  (** val compare : z -> z -> comparison **)

  let compare x y =
    match x with
    | Z0 -> (match y with
             | Z0 -> Eq
             | Zpos _ -> Lt
             | Zneg _ -> Gt)
    | Zpos x' -> (match y with
                  | Zpos y' -> Pos.compare x' y'
                  | _ -> Gt)
    | Zneg x' ->
      (match y with
       | Zneg y' -> compOpp (Pos.compare x' y')
       | _ -> Lt)

  (** val leb : z -> z -> bool **)

  let leb x y =
    match compare x y with
    | Gt -> false
    | _ -> true

  (** val ltb : z -> z -> bool **)

  let ltb x y =
    match compare x y with
    | Lt -> true
    | _ -> false

  (** val eqb : z -> z -> bool **)

  let eqb x y =
    match x with
    | Z0 -> (match y with
             | Z0 -> true
             | _ -> false)
    | Zpos p -> (match y with
                 | Zpos q -> Pos.eqb p q
                 | _ -> false)
    | Zneg p -> (match y with
                 | Zneg q -> Pos.eqb p q
                 | _ -> false)

  (** val to_N : z -> n **)

  let to_N = function
  | Zpos p -> Npos p
  | _ -> N0

  (** val of_nat : nat -> z **)

  let of_nat = function
  | O -> Z0
  | S n1 -> Zpos (Pos.of_succ_nat n1)

  (** val of_N : n -> z **)

  let of_N = function
  | N0 -> Z0
  | Npos p -> Zpos p

  (** val odd : z -> bool **)

  let odd = function
  | Z0 -> false
  | Zpos p -> (match p with
               | XO _ -> false
               | _ -> true)
  | Zneg p -> (match p with
               | XO _ -> false
               | _ -> true)

  (** val div2 : z -> z **)

  let div2 = function
  | Z0 -> Z0
  | Zpos p -> (match p with
               | XH -> Z0
               | _ -> Zpos (Pos.div2 p))
  | Zneg p -> Zneg (Pos.div2_up p)

  (** val shiftl : z -> z -> z **)

  let shiftl a = function
  | Z0 -> a
  | Zpos p -> Pos.iter (mul (Zpos (XO XH))) a p
  | Zneg p -> Pos.iter div2 a p

  (** val shiftr : z -> z -> z **)

  let shiftr a n0 =
    shiftl a (opp n0)

  (** val coq_lor : z -> z -> z **)

  let coq_lor a b =
    match a with
    | Z0 -> b
    | Zpos a0 ->
      (match b with
       | Z0 -> a
       | Zpos b0 -> Zpos (Pos.coq_lor a0 b0)
       | Zneg b0 -> Zneg (N.succ_pos (N.ldiff (Pos.pred_N b0) (Npos a0))))
    | Zneg a0 ->
      (match b with
       | Z0 -> a
       | Zpos b0 -> Zneg (N.succ_pos (N.ldiff (Pos.pred_N a0) (Npos b0)))
       | Zneg b0 ->
         Zneg (N.succ_pos (N.coq_land (Pos.pred_N a0) (Pos.pred_N b0))))

  (** val coq_land : z -> z -> z **)

  let coq_land a b =
    match a with
    | Z0 -> Z0
    | Zpos a0 ->
      (match b with
       | Z0 -> Z0
       | Zpos b0 -> of_N (Pos.coq_land a0 b0)
       | Zneg b0 -> of_N (N.ldiff (Npos a0) (Pos.pred_N b0)))
    | Zneg a0 ->
      (match b with
       | Z0 -> Z0
       | Zpos b0 -> of_N (N.ldiff (Npos b0) (Pos.pred_N a0))
       | Zneg b0 ->
         Zneg (N.succ_pos (N.coq_lor (Pos.pred_N a0) (Pos.pred_N b0))))
 end

type bytes = byte list

(** val byte_of_N : n -> byte **)

let byte_of_N n0 =
  match of_N n0 with
  | Some b -> b
  | None -> X00

(** val n_of_byte : byte -> n **)

let n_of_byte =
  to_N

(** val translation_ok : bool **)

let translation_ok =
  true

(** val modifier_name : byte list option list **)

let modifier_name =
  (Some (X53 :: (X68 :: (X69 :: (X66 :: (X74 :: [])))))) :: ((Some
    (X4c :: (X6f :: (X63 :: (X6b :: []))))) :: ((Some
    (X43 :: (X6f :: (X6e :: (X74 :: (X72 :: (X6f :: (X6c :: [])))))))) :: ((Some
    (X41 :: (X6c :: (X74 :: [])))) :: ((Some
    (X4d :: (X6f :: (X64 :: (X32 :: []))))) :: ((Some
    (X4d :: (X6f :: (X64 :: (X33 :: []))))) :: ((Some
    (X4d :: (X6f :: (X64 :: (X34 :: []))))) :: ((Some
    (X4d :: (X6f :: (X64 :: (X35 :: []))))) :: ((Some
    (X42 :: (X75 :: (X74 :: (X74 :: (X6f :: (X6e :: (X31 :: [])))))))) :: ((Some
    (X42 :: (X75 :: (X74 :: (X74 :: (X6f :: (X6e :: (X32 :: [])))))))) :: ((Some
    (X42 :: (X75 :: (X74 :: (X74 :: (X6f :: (X6e :: (X33 :: [])))))))) :: ((Some
    (X42 :: (X75 :: (X74 :: (X74 :: (X6f :: (X6e :: (X34 :: [])))))))) :: ((Some
    (X42 :: (X75 :: (X74 :: (X74 :: (X6f :: (X6e :: (X35 :: [])))))))) :: (None :: (None :: (None :: (None :: (None :: (None :: (None :: (None :: (None :: (None :: (None :: (None :: (None :: ((Some
    (X53 :: (X75 :: (X70 :: (X65 :: (X72 :: [])))))) :: ((Some
    (X48 :: (X79 :: (X70 :: (X65 :: (X72 :: [])))))) :: ((Some
    (X4d :: (X65 :: (X74 :: (X61 :: []))))) :: (None :: ((Some
    (X52 :: (X65 :: (X6c :: (X65 :: (X61 :: (X73 :: (X65 :: [])))))))) :: (None :: [])))))))))))))))))))))))))))))))

(** val key_names : byte list **)

let key_names =
  X73 :: (X70 :: (X61 :: (X63 :: (X65 :: (X00 :: (X65 :: (X78 :: (X63 :: (X6c :: (X61 :: (X6d :: (X00 :: (X71 :: (X75 :: (X6f :: (X74 :: (X65 :: (X64 :: (X62 :: (X6c :: (X00 :: (X6e :: (X75 :: (X6d :: (X62 :: (X65 :: (X72 :: (X73 :: (X69 :: (X67 :: (X6e :: (X00 :: (X64 :: (X6f :: (X6c :: (X6c :: (X61 :: (X72 :: (X00 :: (X70 :: (X65 :: (X72 :: (X63 :: (X65 :: (X6e :: (X74 :: (X00 :: (X61 :: (X6d :: (X70 :: (X65 :: (X72 :: (X73 :: (X61 :: (X6e :: (X64 :: (X00 :: (X61 :: (X70 :: (X6f :: (X73 :: (X74 :: (X72 :: (X6f :: (X70 :: (X68 :: (X65 :: (X00 :: (X71 :: (X75 :: (X6f :: (X74 :: (X65 :: (X72 :: (X69 :: (X67 :: (X68 :: (X74 :: (X00 :: (X70 :: (X61 :: (X72 :: (X65 :: (X6e :: (X6c :: (X65 :: (X66 :: (X74 :: (X00 :: (X70 :: (X61 :: (X72 :: (X65 :: (X6e :: (X72 :: (X69 :: (X67 :: (X68 :: (X74 :: (X00 :: (X61 :: (X73 :: (X74 :: (X65 :: (X72 :: (X69 :: (X73 :: (X6b :: (X00 :: (X70 :: (X6c :: (X75 :: (X73 :: (X00 :: (X63 :: (X6f :: (X6d :: (X6d :: (X61 :: (X00 :: (X6d :: (X69 :: (X6e :: (X75 :: (X73 :: (X00 :: (X70 :: (X65 :: (X72 :: (X69 :: (X6f :: (X64 :: (X00 :: (X73 :: (X6c :: (X61 :: (X73 :: (X68 :: (X00 :: (X30 :: (X00 :: (X31 :: (X00 :: (X32 :: (X00 :: (X33 :: (X00 :: (X34 :: (X00 :: (X35 :: (X00 :: (X36 :: (X00 :: (X37 :: (X00 :: (X38 :: (X00 :: (X39 :: (X00 :: (X63 :: (X6f :: (X6c :: (X6f :: (X6e :: (X00 :: (X73 :: (X65 :: (X6d :: (X69 :: (X63 :: (X6f :: (X6c :: (X6f :: (X6e :: (X00 :: (X6c :: (X65 :: (X73 :: (X73 :: (X00 :: (X65 :: (X71 :: (X75 :: (X61 :: (X6c :: (X00 :: (X67 :: (X72 :: (X65 :: (X61 :: (X74 :: (X65 :: (X72 :: (X00 :: (X71 :: (X75 :: (X65 :: (X73 :: (X74 :: (X69 :: (X6f :: (X6e :: (X00 :: (X61 :: (X74 :: (X00 :: (X41 :: (X00 :: (X42 :: (X00 :: (X43 :: (X00 :: (X44 :: (X00 :: (X45 :: (X00 :: (X46 :: (X00 :: (X47 :: (X00 :: (X48 :: (X00 :: (X49 :: (X00 :: (X4a :: (X00 :: (X4b :: (X00 :: (X4c :: (X00 :: (X4d :: (X00 :: (X4e :: (X00 :: (X4f :: (X00 :: (X50 :: (X00 :: (X51 :: (X00 :: (X52 :: (X00 :: (X53 :: (X00 :: (X54 :: (X00 :: (X55 :: (X00 :: (X56 :: (X00 :: (X57 :: (X00 :: (X58 :: (X00 :: (X59 :: (X00 :: (X5a :: (X00 :: (X62 :: (X72 :: (X61 :: (X63 :: (X6b :: (X65 :: (X74 :: (X6c :: (X65 :: (X66 :: (X74 :: (X00 :: (X62 :: (X61 :: (X63 :: (X6b :: (X73 :: (X6c :: (X61 :: (X73 :: (X68 :: (X00 :: (X62 :: (X72 :: (X61 :: (X63 :: (X6b :: (X65 :: (X74 :: (X72 :: (X69 :: (X67 :: (X68 :: (X74 :: (X00 :: (X61 :: (X73 :: (X63 :: (X69 :: (X69 :: (X63 :: (X69 :: (X72 :: (X63 :: (X75 :: (X6d :: (X00 :: (X75 :: (X6e :: (X64 :: (X65 :: (X72 :: (X73 :: (X63 :: (X6f :: (X72 :: (X65 :: (X00 :: (X67 :: (X72 :: (X61 :: (X76 :: (X65 :: (X00 :: (X71 :: (X75 :: (X6f :: (X74 :: (X65 :: (X6c :: (X65 :: (X66 :: (X74 :: (X00 :: (X61 :: (X00 :: (X62 :: (X00 :: (X63 :: (X00 :: (X64 :: (X00 :: (X65 :: (X00 :: (X66 :: (X00 :: (X67 :: (X00 :: (X68 :: (X00 :: (X69 :: (X00 :: (X6a :: (X00 :: (X6b :: (X00 :: (X6c :: (X00 :: (X6d :: (X00 :: (X6e :: (X00 :: (X6f :: (X00 :: (X70 :: (X00 :: (X71 :: (X00 :: (X72 :: (X00 :: (X73 :: (X00 :: (X74 :: (X00 :: (X75 :: (X00 :: (X76 :: (X00 :: (X77 :: (X00 :: (X78 :: (X00 :: (X79 :: (X00 :: (X7a :: (X00 :: (X62 :: (X72 :: (X61 :: (X63 :: (X65 :: (X6c :: (X65 :: (X66 :: (X74 :: (X00 :: (X62 :: (X61 :: (X72 :: (X00 :: (X62 :: (X72 :: (X61 :: (X63 :: (X65 :: (X72 :: (X69 :: (X67 :: (X68 :: (X74 :: (X00 :: (X61 :: (X73 :: (X63 :: (X69 :: (X69 :: (X74 :: (X69 :: (X6c :: (X64 :: (X65 :: (X00 :: (X6e :: (X6f :: (X62 :: (X72 :: (X65 :: (X61 :: (X6b :: (X73 :: (X70 :: (X61 :: (X63 :: (X65 :: (X00 :: (X65 :: (X78 :: (X63 :: (X6c :: (X61 :: (X6d :: (X64 :: (X6f :: (X77 :: (X6e :: (X00 :: (X63 :: (X65 :: (X6e :: (X74 :: (X00 :: (X73 :: (X74 :: (X65 :: (X72 :: (X6c :: (X69 :: (X6e :: (X67 :: (X00 :: (X63 :: (X75 :: (X72 :: (X72 :: (X65 :: (X6e :: (X63 :: (X79 :: (X00 :: (X79 :: (X65 :: (X6e :: (X00 :: (X62 :: (X72 :: (X6f :: (X6b :: (X65 :: (X6e :: (X62 :: (X61 :: (X72 :: (X00 :: (X73 :: (X65 :: (X63 :: (X74 :: (X69 :: (X6f :: (X6e :: (X00 :: (X64 :: (X69 :: (X61 :: (X65 :: (X72 :: (X65 :: (X73 :: (X69 :: (X73 :: (X00 :: (X63 :: (X6f :: (X70 :: (X79 :: (X72 :: (X69 :: (X67 :: (X68 :: (X74 :: (X00 :: (X6f :: (X72 :: (X64 :: (X66 :: (X65 :: (X6d :: (X69 :: (X6e :: (X69 :: (X6e :: (X65 :: (X00 :: (X67 :: (X75 :: (X69 :: (X6c :: (X6c :: (X65 :: (X6d :: (X6f :: (X74 :: (X6c :: (X65 :: (X66 :: (X74 :: (X00 :: (X6e :: (X6f :: (X74 :: (X73 :: (X69 :: (X67 :: (X6e :: (X00 :: (X68 :: (X79 :: (X70 :: (X68 :: (X65 :: (X6e :: (X00 :: (X72 :: (X65 :: (X67 :: (X69 :: (X73 :: (X74 :: (X65 :: (X72 :: (X65 :: (X64 :: (X00 :: (X6d :: (X61 :: (X63 :: (X72 :: (X6f :: (X6e :: (X00 :: (X64 :: (X65 :: (X67 :: (X72 :: (X65 :: (X65 :: (X00 :: (X70 :: (X6c :: (X75 :: (X73 :: (X6d :: (X69 :: (X6e :: (X75 :: (X73 :: (X00 :: (X74 :: (X77 :: (X6f :: (X73 :: (X75 :: (X70 :: (X65 :: (X72 :: (X69 :: (X6f :: (X72 :: (X00 :: (X74 :: (X68 :: (X72 :: (X65 :: (X65 :: (X73 :: (X75 :: (X70 :: (X65 :: (X72 :: (X69 :: (X6f :: (X72 :: (X00 :: (X61 :: (X63 :: (X75 :: (X74 :: (X65 :: (X00 :: (X6d :: (X75 :: (X00 :: (X70 :: (X61 :: (X72 :: (X61 :: (X67 :: (X72 :: (X61 :: (X70 :: (X68 :: (X00 :: (X70 :: (X65 :: (X72 :: (X69 :: (X6f :: (X64 :: (X63 :: (X65 :: (X6e :: (X74 :: (X65 :: (X72 :: (X65 :: (X64 :: (X00 :: (X63 :: (X65 :: (X64 :: (X69 :: (X6c :: (X6c :: (X61 :: (X00 :: (X6f :: (X6e :: (X65 :: (X73 :: (X75 :: (X70 :: (X65 :: (X72 :: (X69 :: (X6f :: (X72 :: (X00 :: (X6d :: (X61 :: (X73 :: (X63 :: (X75 :: (X6c :: (X69 :: (X6e :: (X65 :: (X00 :: (X67 :: (X75 :: (X69 :: (X6c :: (X6c :: (X65 :: (X6d :: (X6f :: (X74 :: (X72 :: (X69 :: (X67 :: (X68 :: (X74 :: (X00 :: (X6f :: (X6e :: (X65 :: (X71 :: (X75 :: (X61 :: (X72 :: (X74 :: (X65 :: (X72 :: (X00 :: (X6f :: (X6e :: (X65 :: (X68 :: (X61 :: (X6c :: (X66 :: (X00 :: (X74 :: (X68 :: (X72 :: (X65 :: (X65 :: (X71 :: (X75 :: (X61 :: (X72 :: (X74 :: (X65 :: (X72 :: (X73 :: (X00 :: (X71 :: (X75 :: (X65 :: (X73 :: (X74 :: (X69 :: (X6f :: (X6e :: (X64 :: (X6f :: (X77 :: (X6e :: (X00 :: (X41 :: (X67 :: (X72 :: (X61 :: (X76 :: (X65 :: (X00 :: (X41 :: (X61 :: (X63 :: (X75 :: (X74 :: (X65 :: (X00 :: (X41 :: (X63 :: (X69 :: (X72 :: (X63 :: (X75 :: (X6d :: (X66 :: (X6c :: (X65 :: (X78 :: (X00 :: (X41 :: (X74 :: (X69 :: (X6c :: (X64 :: (X65 :: (X00 :: (X41 :: (X64 :: (X69 :: (X61 :: (X65 :: (X72 :: (X65 :: (X73 :: (X69 :: (X73 :: (X00 :: (X41 :: (X72 :: (X69 :: (X6e :: (X67 :: (X00 :: (X41 :: (X45 :: (X00 :: (X43 :: (X63 :: (X65 :: (X64 :: (X69 :: (X6c :: (X6c :: (X61 :: (X00 :: (X45 :: (X67 :: (X72 :: (X61 :: (X76 :: (X65 :: (X00 :: (X45 :: (X61 :: (X63 :: (X75 :: (X74 :: (X65 :: (X00 :: (X45 :: (X63 :: (X69 :: (X72 :: (X63 :: (X75 :: (X6d :: (X66 :: (X6c :: (X65 :: (X78 :: (X00 :: (X45 :: (X64 :: (X69 :: (X61 :: (X65 :: (X72 :: (X65 :: (X73 :: (X69 :: (X73 :: (X00 :: (X49 :: (X67 :: (X72 :: (X61 :: (X76 :: (X65 :: (X00 :: (X49 :: (X61 :: (X63 :: (X75 :: (X74 :: (X65 :: (X00 :: (X49 :: (X63 :: (X69 :: (X72 :: (X63 :: (X75 :: (X6d :: (X66 :: (X6c :: (X65 :: (X78 :: (X00 :: (X49 :: (X64 :: (X69 :: (X61 :: (X65 :: (X72 :: (X65 :: (X73 :: (X69 :: (X73 :: (X00 :: (X45 :: (X54 :: (X48 :: (X00 :: (X45 :: (X74 :: (X68 :: (X00 :: (X4e :: (X74 :: (X69 :: (X6c :: (X64 :: (X65 :: (X00 :: (X4f :: (X67 :: (X72 :: (X61 :: (X76 :: (X65 :: (X00 :: (X4f :: (X61 :: (X63 :: (X75 :: (X74 :: (X65 :: (X00 :: (X4f :: (X63 :: (X69 :: (X72 :: (X63 :: (X75 :: (X6d :: (X66 :: (X6c :: (X65 :: (X78 :: (X00 :: (X4f :: (X74 :: (X69 :: (X6c :: (X64 :: (X65 :: (X00 :: (X4f :: (X64 :: (X69 :: (X61 :: (X65 :: (X72 :: (X65 :: (X73 :: (X69 :: (X73 :: (X00 :: (X6d :: (X75 :: (X6c :: (X74 :: (X69 :: (X70 :: (X6c :: (X79 :: (X00 :: (X4f :: (X6f :: (X62 :: (X6c :: (X69 :: (X71 :: (X75 :: (X65 :: (X00 :: (X55 :: (X67 :: (X72 :: (X61 :: (X76 :: (X65 :: (X00 :: (X55 :: (X61 :: (X63 :: (X75 :: (X74 :: (X65 :: (X00 :: (X55 :: (X63 :: (X69 :: (X72 :: (X63 :: (X75 :: (X6d :: (X66 :: (X6c :: (X65 :: (X78 :: (X00 :: (X55 :: (X64 :: (X69 :: (X61 :: (X65 :: (X72 :: (X65 :: (X73 :: (X69 :: (X73 :: (X00 :: (X59 :: (X61 :: (X63 :: (X75 :: (X74 :: (X65 :: (X00 :: (X54 :: (X48 :: (X4f :: (X52 :: (X4e :: (X00 :: (X54 :: (X68 :: (X6f :: (X72 :: (X6e :: (X00 :: (X73 :: (X73 :: (X68 :: (X61 :: (X72 :: (X70 :: (X00 :: (X61 :: (X67 :: (X72 :: (X61 :: (X76 :: (X65 :: (X00 :: (X61 :: (X61 :: (X63 :: (X75 :: (X74 :: (X65 :: (X00 :: (X61 :: (X63 :: (X69 :: (X72 :: (X63 :: (X75 :: (X6d :: (X66 :: (X6c :: (X65 :: (X78 :: (X00 :: (X61 :: (X74 :: (X69 :: (X6c :: (X64 :: (X65 :: (X00 :: (X61 :: (X64 :: (X69 :: (X61 :: (X65 :: (X72 :: (X65 :: (X73 :: (X69 :: (X73 :: (X00 :: (X61 :: (X72 :: (X69 :: (X6e :: (X67 :: (X00 :: (X61 :: (X65 :: (X00 :: (X63 :: (X63 :: (X65 :: (X64 :: (X69 :: (X6c :: (X6c :: (X61 :: (X00 :: (X65 :: (X67 :: (X72 :: (X61 :: (X76 :: (X65 :: (X00 :: (X65 :: (X61 :: (X63 :: (X75 :: (X74 :: (X65 :: (X00 :: (X65 :: (X63 :: (X69 :: (X72 :: (X63 :: (X75 :: (X6d :: (X66 :: (X6c :: (X65 :: (X78 :: (X00 :: (X65 :: (X64 :: (X69 :: (X61 :: (X65 :: (X72 :: (X65 :: (X73 :: (X69 :: (X73 :: (X00 :: (X69 :: (X67 :: (X72 :: (X61 :: (X76 :: (X65 :: (X00 :: (X69 :: (X61 :: (X63 :: (X75 :: (X74 :: (X65 :: (X00 :: (X69 :: (X63 :: (X69 :: (X72 :: (X63 :: (X75 :: (X6d :: (X66 :: (X6c :: (X65 :: (X78 :: (X00 :: (X69 :: (X64 :: (X69 :: (X61 :: (X65 :: (X72 :: (X65 :: (X73 :: (X69 :: (X73 :: (X00 :: (X65 :: (X74 :: (X68 :: (X00 :: (X6e :: (X74 :: (X69 :: (X6c :: (X64 :: (X65 :: (X00 :: (X6f :: (X67 :: (X72 :: (X61 :: (X76 :: (X65 :: (X00 :: (X6f :: (X61 :: (X63 :: (X75 :: (X74 :: (X65 :: (X00 :: (X6f :: (X63 :: (X69 :: (X72 :: (X63 :: (X75 :: (X6d :: (X66 :: (X6c :: (X65 :: (X78 :: (X00 :: (X6f :: (X74 :: (X69 :: (X6c :: (X64 :: (X65 :: (X00 :: (X6f :: (X64 :: (X69 :: (X61 :: (X65 :: (X72 :: (X65 :: (X73 :: (X69 :: (X73 :: (X00 :: (X64 :: (X69 :: (X76 :: (X69 :: (X73 :: (X69 :: (X6f :: (X6e :: (X00 :: (X6f :: (X73 :: (X6c :: (X61 :: (X73 :: (X68 :: (X00 :: (X75 :: (X67 :: (X72 :: (X61 :: (X76 :: (X65 :: (X00 :: (X75 :: (X61 :: (X63 :: (X75 :: (X74 :: (X65 :: (X00 :: (X75 :: (X63 :: (X69 :: (X72 :: (X63 :: (X75 :: (X6d :: (X66 :: (X6c :: (X65 :: (X78 :: (X00 :: (X75 :: (X64 :: (X69 :: (X61 :: (X65 :: (X72 :: (X65 :: (X73 :: (X69 :: (X73 :: (X00 :: (X79 :: (X61 :: (X63 :: (X75 :: (X74 :: (X65 :: (X00 :: (X74 :: (X68 :: (X6f :: (X72 :: (X6e :: (X00 :: (X79 :: (X64 :: (X69 :: (X61 :: (X65 :: (X72 :: (X65 :: (X73 :: (X69 :: (X73 :: (X00 :: (X41 :: (X6f :: (X67 :: (X6f :: (X6e :: (X65 :: (X6b :: (X00 :: (X62 :: (X72 :: (X65 :: (X76 :: (X65 :: (X00 :: (X4c :: (X73 :: (X74 :: (X72 :: (X6f :: (X6b :: (X65 :: (X00 :: (X4c :: (X63 :: (X61 :: (X72 :: (X6f :: (X6e :: (X00 :: (X53 :: (X61 :: (X63 :: (X75 :: (X74 :: (X65 :: (X00 :: (X53 :: (X63 :: (X61 :: (X72 :: (X6f :: (X6e :: (X00 :: (X53 :: (X63 :: (X65 :: (X64 :: (X69 :: (X6c :: (X6c :: (X61 :: (X00 :: (X54 :: (X63 :: (X61 :: (X72 :: (X6f :: (X6e :: (X00 :: (X5a :: (X61 :: (X63 :: (X75 :: (X74 :: (X65 :: (X00 :: (X5a :: (X63 :: (X61 :: (X72 :: (X6f :: (X6e :: (X00 :: (X5a :: (X61 :: (X62 :: (X6f :: (X76 :: (X65 :: (X64 :: (X6f :: (X74 :: (X00 :: (X61 :: (X6f :: (X67 :: (X6f :: (X6e :: (X65 :: (X6b :: (X00 :: (X6f :: (X67 :: (X6f :: (X6e :: (X65 :: (X6b :: (X00 :: (X6c :: (X73 :: (X74 :: (X72 :: (X6f :: (X6b :: (X65 :: (X00 :: (X6c :: (X63 :: (X61 :: (X72 :: (X6f :: (X6e :: (X00 :: (X73 :: (X61 :: (X63 :: (X75 :: (X74 :: (X65 :: (X00 :: (X63 :: (X61 :: (X72 :: (X6f :: (X6e :: (X00 :: (X73 :: (X63 :: (X61 :: (X72 :: (X6f :: (X6e :: (X00 :: (X73 :: (X63 :: (X65 :: (X64 :: (X69 :: (X6c :: (X6c :: (X61 :: (X00 :: (X74 :: (X63 :: (X61 :: (X72 :: (X6f :: (X6e :: (X00 :: (X7a :: (X61 :: (X63 :: (X75 :: (X74 :: (X65 :: (X00 :: (X64 :: (X6f :: (X75 :: (X62 :: (X6c :: (X65 :: (X61 :: (X63 :: (X75 :: (X74 :: (X65 :: (X00 :: (X7a :: (X63 :: (X61 :: (X72 :: (X6f :: (X6e :: (X00 :: (X7a :: (X61 :: (X62 :: (X6f :: (X76 :: (X65 :: (X64 :: (X6f :: (X74 :: (X00 :: (X52 :: (X61 :: (X63 :: (X75 :: (X74 :: (X65 :: (X00 :: (X41 :: (X62 :: (X72 :: (X65 :: (X76 :: (X65 :: (X00 :: (X4c :: (X61 :: (X63 :: (X75 :: (X74 :: (X65 :: (X00 :: (X43 :: (X61 :: (X63 :: (X75 :: (X74 :: (X65 :: (X00 :: (X43 :: (X63 :: (X61 :: (X72 :: (X6f :: (X6e :: (X00 :: (X45 :: (X6f :: (X67 :: (X6f :: (X6e :: (X65 :: (X6b :: (X00 :: (X45 :: (X63 :: (X61 :: (X72 :: (X6f :: (X6e :: (X00 :: (X44 :: (X63 :: (X61 :: (X72 :: (X6f :: (X6e :: (X00 :: (X44 :: (X73 :: (X74 :: (X72 :: (X6f :: (X6b :: (X65 :: (X00 :: (X4e :: (X61 :: (X63 :: (X75 :: (X74 :: (X65 :: (X00 :: (X4e :: (X63 :: (X61 :: (X72 :: (X6f :: (X6e :: (X00 :: (X4f :: (X64 :: (X6f :: (X75 :: (X62 :: (X6c :: (X65 :: (X61 :: (X63 :: (X75 :: (X74 :: (X65 :: (X00 :: (X52 :: (X63 :: (X61 :: (X72 :: (X6f :: (X6e :: (X00 :: (X55 :: (X72 :: (X69 :: (X6e :: (X67 :: (X00 :: (X55 :: (X64 :: (X6f :: (X75 :: (X62 :: (X6c :: (X65 :: (X61 :: (X63 :: (X75 :: (X74 :: (X65 :: (X00 :: (X54 :: (X63 :: (X65 :: (X64 :: (X69 :: (X6c :: (X6c :: (X61 :: (X00 :: (X72 :: (X61 :: (X63 :: (X75 :: (X74 :: (X65 :: (X00 :: (X61 :: (X62 :: (X72 :: (X65 :: (X76 :: (X65 :: (X00 :: (X6c :: (X61 :: (X63 :: (X75 :: (X74 :: (X65 :: (X00 :: (X63 :: (X61 :: (X63 :: (X75 :: (X74 :: (X65 :: (X00 :: (X63 :: (X63 :: (X61 :: (X72 :: (X6f :: (X6e :: (X00 :: (X65 :: (X6f :: (X67 :: (X6f :: (X6e :: (X65 :: (X6b :: (X00 :: (X65 :: (X63 :: (X61 :: (X72 :: (X6f :: (X6e :: (X00 :: (X64 :: (X63 :: (X61 :: (X72 :: (X6f :: (X6e :: (X00 :: (X64 :: (X73 :: (X74 :: (X72 :: (X6f :: (X6b :: (X65 :: (X00 :: (X6e :: (X61 :: (X63 :: (X75 :: (X74 :: (X65 :: (X00 :: (X6e :: (X63 :: (X61 :: (X72 :: (X6f :: (X6e :: (X00 :: (X6f :: (X64 :: (X6f :: (X75 :: (X62 :: (X6c :: (X65 :: (X61 :: (X63 :: (X75 :: (X74 :: (X65 :: (X00 :: (X72 :: (X63 :: (X61 :: (X72 :: (X6f :: (X6e :: (X00 :: (X75 :: (X72 :: (X69 :: (X6e :: (X67 :: (X00 :: (X75 :: (X64 :: (X6f :: (X75 :: (X62 :: (X6c :: (X65 :: (X61 :: (X63 :: (X75 :: (X74 :: (X65 :: (X00 :: (X74 :: (X63 :: (X65 :: (X64 :: (X69 :: (X6c :: (X6c :: (X61 :: (X00 :: (X61 :: (X62 :: (X6f :: (X76 :: (X65 :: (X64 :: (X6f :: (X74 :: (X00 :: (X48 :: (X73 :: (X74 :: (X72 :: (X6f :: (X6b :: (X65 :: (X00 :: (X48 :: (X63 :: (X69 :: (X72 :: (X63 :: (X75 :: (X6d :: (X66 :: (X6c :: (X65 :: (X78 :: (X00 :: (X49 :: (X61 :: (X62 :: (X6f :: (X76 :: (X65 :: (X64 :: (X6f :: (X74 :: (X00 :: (X47 :: (X62 :: (X72 :: (X65 :: (X76 :: (X65 :: (X00 :: (X4a :: (X63 :: (X69 :: (X72 :: (X63 :: (X75 :: (X6d :: (X66 :: (X6c :: (X65 :: (X78 :: (X00 :: (X68 :: (X73 :: (X74 :: (X72 :: (X6f :: (X6b :: (X65 :: (X00 :: (X68 :: (X63 :: (X69 :: (X72 :: (X63 :: (X75 :: (X6d :: (X66 :: (X6c :: (X65 :: (X78 :: (X00 :: (X69 :: (X64 :: (X6f :: (X74 :: (X6c :: (X65 :: (X73 :: (X73 :: (X00 :: (X67 :: (X62 :: (X72 :: (X65 :: (X76 :: (X65 :: (X00 :: (X6a :: (X63 :: (X69 :: (X72 :: (X63 :: (X75 :: (X6d :: (X66 :: (X6c :: (X65 :: (X78 :: (X00 :: (X43 :: (X61 :: (X62 :: (X6f :: (X76 :: (X65 :: (X64 :: (X6f :: (X74 :: (X00 :: (X43 :: (X63 :: (X69 :: (X72 :: (X63 :: (X75 :: (X6d :: (X66 :: (X6c :: (X65 :: (X78 :: (X00 :: (X47 :: (X61 :: (X62 :: (X6f :: (X76 :: (X65 :: (X64 :: (X6f :: (X74 :: (X00 :: (X47 :: (X63 :: (X69 :: (X72 :: (X63 :: (X75 :: (X6d :: (X66 :: (X6c :: (X65 :: (X78 :: (X00 :: (X55 :: (X62 :: (X72 :: (X65 :: (X76 :: (X65 :: (X00 :: (X53 :: (X63 :: (X69 :: (X72 :: (X63 :: (X75 :: (X6d :: (X66 :: (X6c :: (X65 :: (X78 :: (X00 :: (X63 :: (X61 :: (X62 :: (X6f :: (X76 :: (X65 :: (X64 :: (X6f :: (X74 :: (X00 :: (X63 :: (X63 :: (X69 :: (X72 :: (X63 :: (X75 :: (X6d :: (X66 :: (X6c :: (X65 :: (X78 :: (X00 :: (X67 :: (X61 :: (X62 :: (X6f :: (X76 :: (X65 :: (X64 :: (X6f :: (X74 :: (X00 :: (X67 :: (X63 :: (X69 :: (X72 :: (X63 :: (X75 :: (X6d :: (X66 :: (X6c :: (X65 :: (X78 :: (X00 :: (X75 :: (X62 :: (X72 :: (X65 :: (X76 :: (X65 :: (X00 :: (X73 :: (X63 :: (X69 :: (X72 :: (X63 :: (X75 :: (X6d :: (X66 :: (X6c :: (X65 :: (X78 :: (X00 :: (X6b :: (X61 :: (X70 :: (X70 :: (X61 :: (X00 :: (X6b :: (X72 :: (X61 :: (X00 :: (X52 :: (X63 :: (X65 :: (X64 :: (X69 :: (X6c :: (X6c :: (X61 :: (X00 :: (X49 :: (X74 :: (X69 :: (X6c :: (X64 :: (X65 :: (X00 :: (X4c :: (X63 :: (X65 :: (X64 :: (X69 :: (X6c :: (X6c :: (X61 :: (X00 :: (X45 :: (X6d :: (X61 :: (X63 :: (X72 :: (X6f :: (X6e :: (X00 :: (X47 :: (X63 :: (X65 :: (X64 :: (X69 :: (X6c :: (X6c :: (X61 :: (X00 :: (X54 :: (X73 :: (X6c :: (X61 :: (X73 :: (X68 :: (X00 :: (X72 :: (X63 :: (X65 :: (X64 :: (X69 :: (X6c :: (X6c :: (X61 :: (X00 :: (X69 :: (X74 :: (X69 :: (X6c :: (X64 :: (X65 :: (X00 :: (X6c :: (X63 :: (X65 :: (X64 :: (X69 :: (X6c :: (X6c :: (X61 :: (X00 :: (X65 :: (X6d :: (X61 :: (X63 :: (X72 :: (X6f :: (X6e :: (X00 :: (X67 :: (X63 :: (X65 :: (X64 :: (X69 :: (X6c :: (X6c :: (X61 :: (X00 :: (X74 :: (X73 :: (X6c :: (X61 :: (X73 :: (X68 :: (X00 :: (X45 :: (X4e :: (X47 :: (X00 :: (X65 :: (X6e :: (X67 :: (X00 :: (X41 :: (X6d :: (X61 :: (X63 :: (X72 :: (X6f :: (X6e :: (X00 :: (X49 :: (X6f :: (X67 :: (X6f :: (X6e :: (X65 :: (X6b :: (X00 :: (X45 :: (X61 :: (X62 :: (X6f :: (X76 :: (X65 :: (X64 :: (X6f :: (X74 :: (X00 :: (X49 :: (X6d :: (X61 :: (X63 :: (X72 :: (X6f :: (X6e :: (X00 :: (X4e :: (X63 :: (X65 :: (X64 :: (X69 :: (X6c :: (X6c :: (X61 :: (X00 :: (X4f :: (X6d :: (X61 :: (X63 :: (X72 :: (X6f :: (X6e :: (X00 :: (X4b :: (X63 :: (X65 :: (X64 :: (X69 :: (X6c :: (X6c :: (X61 :: (X00 :: (X55 :: (X6f :: (X67 :: (X6f :: (X6e :: (X65 :: (X6b :: (X00 :: (X55 :: (X74 :: (X69 :: (X6c :: (X64 :: (X65 :: (X00 :: (X55 :: (X6d :: (X61 :: (X63 :: (X72 :: (X6f :: (X6e :: (X00 :: (X61 :: (X6d :: (X61 :: (X63 :: (X72 :: (X6f :: (X6e :: (X00 :: (X69 :: (X6f :: (X67 :: (X6f :: (X6e :: (X65 :: (X6b :: (X00 :: (X65 :: (X61 :: (X62 :: (X6f :: (X76 :: (X65 :: (X64 :: (X6f :: (X74 :: (X00 :: (X69 :: (X6d :: (X61 :: (X63 :: (X72 :: (X6f :: (X6e :: (X00 :: (X6e :: (X63 :: (X65 :: (X64 :: (X69 :: (X6c :: (X6c :: (X61 :: (X00 :: (X6f :: (X6d :: (X61 :: (X63 :: (X72 :: (X6f :: (X6e :: (X00 :: (X6b :: (X63 :: (X65 :: (X64 :: (X69 :: (X6c :: (X6c :: (X61 :: (X00 :: (X75 :: (X6f :: (X67 :: (X6f :: (X6e :: (X65 :: (X6b :: (X00 :: (X75 :: (X74 :: (X69 :: (X6c :: (X64 :: (X65 :: (X00 :: (X75 :: (X6d :: (X61 :: (X63 :: (X72 :: (X6f :: (X6e :: (X00 :: (X6f :: (X76 :: (X65 :: (X72 :: (X6c :: (X69 :: (X6e :: (X65 :: (X00 :: (X6b :: (X61 :: (X6e :: (X61 :: (X5f :: (X66 :: (X75 :: (X6c :: (X6c :: (X73 :: (X74 :: (X6f :: (X70 :: (X00 :: (X6b :: (X61 :: (X6e :: (X61 :: (X5f :: (X6f :: (X70 :: (X65 :: (X6e :: (X69 :: (X6e :: (X67 :: (X62 :: (X72 :: (X61 :: (X63 :: (X6b :: (X65 :: (X74 :: (X00 :: (X6b :: (X61 :: (X6e :: (X61 :: (X5f :: (X63 :: (X6c :: (X6f :: (X73 :: (X69 :: (X6e :: (X67 :: (X62 :: (X72 :: (X61 :: (X63 :: (X6b :: (X65 :: (X74 :: (X00 :: (X6b :: (X61 :: (X6e :: (X61 :: (X5f :: (X63 :: (X6f :: (X6d :: (X6d :: (X61 :: (X00 :: (X6b :: (X61 :: (X6e :: (X61 :: (X5f :: (X63 :: (X6f :: (X6e :: (X6a :: (X75 :: (X6e :: (X63 :: (X74 :: (X69 :: (X76 :: (X65 :: (X00 :: (X6b :: (X61 :: (X6e :: (X61 :: (X5f :: (X6d :: (X69 :: (X64 :: (X64 :: (X6c :: (X65 :: (X64 :: (X6f :: (X74 :: (X00 :: (X6b :: (X61 :: (X6e :: (X61 :: (X5f :: (X57 :: (X4f :: (X00 :: (X6b :: (X61 :: (X6e :: (X61 :: (X5f :: (X61 :: (X00 :: (X6b :: (X61 :: (X6e :: (X61 :: (X5f :: (X69 :: (X00 :: (X6b :: (X61 :: (X6e :: (X61 :: (X5f :: (X75 :: (X00 :: (X6b :: (X61 :: (X6e :: (X61 :: (X5f :: (X65 :: (X00 :: (X6b :: (X61 :: (X6e :: (X61 :: (X5f :: (X6f :: (X00 :: (X6b :: (X61 :: (X6e :: (X61 :: (X5f :: (X79 :: (X61 :: (X00 :: (X6b :: (X61 :: (X6e :: (X61 :: (X5f :: (X79 :: (X75 :: (X00 :: (X6b :: (X61 :: (X6e :: (X61 :: (X5f :: (X79 :: (X6f :: (X00 :: (X6b :: (X61 :: (X6e :: (X61 :: (X5f :: (X74 :: (X73 :: (X75 :: (X00 :: (X6b :: (X61 :: (X6e :: (X61 :: (X5f :: (X74 :: (X75 :: (X00 :: (X70 :: (X72 :: (X6f :: (X6c :: (X6f :: (X6e :: (X67 :: (X65 :: (X64 :: (X73 :: (X6f :: (X75 :: (X6e :: (X64 :: (X00 :: (X6b :: (X61 :: (X6e :: (X61 :: (X5f :: (X41 :: (X00 :: (X6b :: (X61 :: (X6e :: (X61 :: (X5f :: (X49 :: (X00 :: (X6b :: (X61 :: (X6e :: (X61 :: (X5f :: (X55 :: (X00 :: (X6b :: (X61 :: (X6e :: (X61 :: (X5f :: (X45 :: (X00 :: (X6b :: (X61 :: (X6e :: (X61 :: (X5f :: (X4f :: (X00 :: (X6b :: (X61 :: (X6e :: (X61 :: (X5f :: (X4b :: (X41 :: (X00 :: (X6b :: (X61 :: (X6e :: (X61 :: (X5f :: (X4b :: (X49 :: (X00 :: (X6b :: (X61 :: (X6e :: (X61 :: (X5f :: (X4b :: (X55 :: (X00 :: (X6b :: (X61 :: (X6e :: (X61 :: (X5f :: (X4b :: (X45 :: (X00 :: (X6b :: (X61 :: (X6e :: (X61 :: (X5f :: (X4b :: (X4f :: (X00 :: (X6b :: (X61 :: (X6e :: (X61 :: (X5f :: (X53 :: (X41 :: (X00 :: (X6b :: (X61 :: (X6e :: (X61 :: (X5f :: (X53 :: (X48 :: (X49 :: (X00 :: (X6b :: (X61 :: (X6e :: (X61 :: (X5f :: (X53 :: (X55 :: (X00 :: (X6b :: (X61 :: (X6e :: (X61 :: (X5f :: (X53 :: (X45 :: (X00 :: (X6b :: (X61 :: (X6e :: (X61 :: (X5f :: (X53 :: (X4f :: (X00 :: (X6b :: (X61 :: (X6e :: (X61 :: (X5f :: (X54 :: (X41 :: (X00 :: (X6b :: (X61 :: (X6e :: (X61 :: (X5f :: (X43 :: (X48 :: (X49 :: (X00 :: (X6b :: (X61 :: (X6e :: (X61 :: (X5f :: (X54 :: (X49 :: (X00 :: (X6b :: (X61 :: (X6e :: (X61 :: (X5f :: (X54 :: (X53 :: (X55 :: (X00 :: (X6b :: (X61 :: (X6e :: (X61 :: (X5f :: (X54 :: (X55 :: (X00 :: (X6b :: (X61 :: (X6e :: (X61 :: (X5f :: (X54 :: (X45 :: (X00 :: (X6b :: (X61 :: (X6e :: (X61 :: (X5f :: (X54 :: (X4f :: (X00 :: (X6b :: (X61 :: (X6e :: (X61 :: (X5f :: (X4e :: (X41 :: (X00 :: (X6b :: (X61 :: (X6e :: (X61 :: (X5f :: (X4e :: (X49 :: (X00 :: (X6b :: (X61 :: (X6e :: (X61 :: (X5f :: (X4e :: (X55 :: (X00 :: (X6b :: (X61 :: (X6e :: (X61 :: (X5f :: (X4e :: (X45 :: (X00 :: (X6b :: (X61 :: (X6e :: (X61 :: (X5f :: (X4e :: (X4f :: (X00 :: (X6b :: (X61 :: (X6e :: (X61 :: (X5f :: (X48 :: (X41 :: (X00 :: (X6b :: (X61 :: (X6e :: (X61 :: (X5f :: (X48 :: (X49 :: (X00 :: (X6b :: (X61 :: (X6e :: (X61 :: (X5f :: (X46 :: (X55 :: (X00 :: (X6b :: (X61 :: (X6e :: (X61 :: (X5f :: (X48 :: (X55 :: (X00 :: (X6b :: (X61 :: (X6e :: (X61 :: (X5f :: (X48 :: (X45 :: (X00 :: (X6b :: (X61 :: (X6e :: (X61 :: (X5f :: (X48 :: (X4f :: (X00 :: (X6b :: (X61 :: (X6e :: (X61 :: (X5f :: (X4d :: (X41 :: (X00 :: (X6b :: (X61 :: (X6e :: (X61 :: (X5f :: (X4d :: (X49 :: (X00 :: (X6b :: (X61 :: (X6e :: (X61 :: (X5f :: (X4d :: (X55 :: (X00 :: (X6b :: (X61 :: (X6e :: (X61 :: (X5f :: (X4d :: (X45 :: (X00 :: (X6b :: (X61 :: (X6e :: (X61 :: (X5f :: (X4d :: (X4f :: (X00 :: (X6b :: (X61 :: (X6e :: (X61 :: (X5f :: (X59 :: (X41 :: (X00 :: (X6b :: (X61 :: (X6e :: (X61 :: (X5f :: (X59 :: (X55 :: (X00 :: (X6b :: (X61 :: (X6e :: (X61 :: (X5f :: (X59 :: (X4f :: (X00 :: (X6b :: (X61 :: (X6e :: (X61 :: (X5f :: (X52 :: (X41 :: (X00 :: (X6b :: (X61 :: (X6e :: (X61 :: (X5f :: (X52 :: (X49 :: (X00 :: (X6b :: (X61 :: (X6e :: (X61 :: (X5f :: (X52 :: (X55 :: (X00 :: (X6b :: (X61 :: (X6e :: (X61 :: (X5f :: (X52 :: (X45 :: (X00 :: (X6b :: (X61 :: (X6e :: (X61 :: (X5f :: (X52 :: (X4f :: (X00 :: (X6b :: (X61 :: (X6e :: (X61 :: (X5f :: (X57 :: (X41 :: (X00 :: (X6b :: (X61 :: (X6e :: (X61 :: (X5f :: (X4e :: (X00 :: (X76 :: (X6f :: (X69 :: (X63 :: (X65 :: (X64 :: (X73 :: (X6f :: (X75 :: (X6e :: (X64 :: (X00 :: (X73 :: (X65 :: (X6d :: (X69 :: (X76 :: (X6f :: (X69 :: (X63 :: (X65 :: (X64 :: (X73 :: (X6f :: (X75 :: (X6e :: (X64 :: (X00 :: (X41 :: (X72 :: (X61 :: (X62 :: (X69 :: (X63 :: (X5f :: (X63 :: (X6f :: (X6d :: (X6d :: (X61 :: (X00 :: (X41 :: (X72 :: (X61 :: (X62 :: (X69 :: (X63 :: (X5f :: (X73 :: (X65 :: (X6d :: (X69 :: (X63 :: (X6f :: (X6c :: (X6f :: (X6e :: (X00 :: (X41 :: (X72 :: (X61 :: (X62 :: (X69 :: (X63 :: (X5f :: (X71 :: (X75 :: (X65 :: (X73 :: (X74 :: (X69 :: (X6f :: (X6e :: (X5f :: (X6d :: (X61 :: (X72 :: (X6b :: (X00 :: (X41 :: (X72 :: (X61 :: (X62 :: (X69 :: (X63 :: (X5f :: (X68 :: (X61 :: (X6d :: (X7a :: (X61 :: (X00 :: (X41 :: (X72 :: (X61 :: (X62 :: (X69 :: (X63 :: (X5f :: (X6d :: (X61 :: (X64 :: (X64 :: (X61 :: (X6f :: (X6e :: (X61 :: (X6c :: (X65 :: (X66 :: (X00 :: (X41 :: (X72 :: (X61 :: (X62 :: (X69 :: (X63 :: (X5f :: (X68 :: (X61 :: (X6d :: (X7a :: (X61 :: (X6f :: (X6e :: (X61 :: (X6c :: (X65 :: (X66 :: (X00 :: (X41 :: (X72 :: (X61 :: (X62 :: (X69 :: (X63 :: (X5f :: (X68 :: (X61 :: (X6d :: (X7a :: (X61 :: (X6f :: (X6e :: (X77 :: (X61 :: (X77 :: (X00 :: (X41 :: (X72 :: (X61 :: (X62 :: (X69 :: (X63 :: (X5f :: (X68 :: (X61 :: (X6d :: (X7a :: (X61 :: (X75 :: (X6e :: (X64 :: (X65 :: (X72 :: (X61 :: (X6c :: (X65 :: (X66 :: (X00 :: (X41 :: (X72 :: (X61 :: (X62 :: (X69 :: (X63 :: (X5f :: (X68 :: (X61 :: (X6d :: (X7a :: (X61 :: (X6f :: (X6e :: (X79 :: (X65 :: (X68 :: (X00 :: (X41 :: (X72 :: (X61 :: (X62 :: (X69 :: (X63 :: (X5f :: (X61 :: (X6c :: (X65 :: (X66 :: (X00 :: (X41 :: (X72 :: (X61 :: (X62 :: (X69 :: (X63 :: (X5f :: (X62 :: (X65 :: (X68 :: (X00 :: (X41 :: (X72 :: (X61 :: (X62 :: (X69 :: (X63 :: (X5f :: (X74 :: (X65 :: (X68 :: (X6d :: (X61 :: (X72 :: (X62 :: (X75 :: (X74 :: (X61 :: (X00 :: (X41 :: (X72 :: (X61 :: (X62 :: (X69 :: (X63 :: (X5f :: (X74 :: (X65 :: (X68 :: (X00 :: (X41 :: (X72 :: (X61 :: (X62 :: (X69 :: (X63 :: (X5f :: (X74 :: (X68 :: (X65 :: (X68 :: (X00 :: (X41 :: (X72 :: (X61 :: (X62 :: (X69 :: (X63 :: (X5f :: (X6a :: (X65 :: (X65 :: (X6d :: (X00 :: (X41 :: (X72 :: (X61 :: (X62 :: (X69 :: (X63 :: (X5f :: (X68 :: (X61 :: (X68 :: (X00 :: (X41 :: (X72 :: (X61 :: (X62 :: (X69 :: (X63 :: (X5f :: (X6b :: (X68 :: (X61 :: (X68 :: (X00 :: (X41 :: (X72 :: (X61 :: (X62 :: (X69 :: (X63 :: (X5f :: (X64 :: (X61 :: (X6c :: (X00 :: (X41 :: (X72 :: (X61 :: (X62 :: (X69 :: (X63 :: (X5f :: (X74 :: (X68 :: (X61 :: (X6c :: (X00 :: (X41 :: (X72 :: (X61 :: (X62 :: (X69 :: (X63 :: (X5f :: (X72 :: (X61 :: (X00 :: (X41 :: (X72 :: (X61 :: (X62 :: (X69 :: (X63 :: (X5f :: (X7a :: (X61 :: (X69 :: (X6e :: (X00 :: (X41 :: (X72 :: (X61 :: (X62 :: (X69 :: (X63 :: (X5f :: (X73 :: (X65 :: (X65 :: (X6e :: (X00 :: (X41 :: (X72 :: (X61 :: (X62 :: (X69 :: (X63 :: (X5f :: (X73 :: (X68 :: (X65 :: (X65 :: (X6e :: (X00 :: (X41 :: (X72 :: (X61 :: (X62 :: (X69 :: (X63 :: (X5f :: (X73 :: (X61 :: (X64 :: (X00 :: (X41 :: (X72 :: (X61 :: (X62 :: (X69 :: (X63 :: (X5f :: (X64 :: (X61 :: (X64 :: (X00 :: (X41 :: (X72 :: (X61 :: (X62 :: (X69 :: (X63 :: (X5f :: (X74 :: (X61 :: (X68 :: (X00 :: (X41 :: (X72 :: (X61 :: (X62 :: (X69 :: (X63 :: (X5f :: (X7a :: (X61 :: (X68 :: (X00 :: (X41 :: (X72 :: (X61 :: (X62 :: (X69 :: (X63 :: (X5f :: (X61 :: (X69 :: (X6e :: (X00 :: (X41 :: (X72 :: (X61 :: (X62 :: (X69 :: (X63 :: (X5f :: (X67 :: (X68 :: (X61 :: (X69 :: (X6e :: (X00 :: (X41 :: (X72 :: (X61 :: (X62 :: (X69 :: (X63 :: (X5f :: (X74 :: (X61 :: (X74 :: (X77 :: (X65 :: (X65 :: (X6c :: (X00 :: (X41 :: (X72 :: (X61 :: (X62 :: (X69 :: (X63 :: (X5f :: (X66 :: (X65 :: (X68 :: (X00 :: (X41 :: (X72 :: (X61 :: (X62 :: (X69 :: (X63 :: (X5f :: (X71 :: (X61 :: (X66 :: (X00 :: (X41 :: (X72 :: (X61 :: (X62 :: (X69 :: (X63 :: (X5f :: (X6b :: (X61 :: (X66 :: (X00 :: (X41 :: (X72 :: (X61 :: (X62 :: (X69 :: (X63 :: (X5f :: (X6c :: (X61 :: (X6d :: (X00 :: (X41 :: (X72 :: (X61 :: (X62 :: (X69 :: (X63 :: (X5f :: (X6d :: (X65 :: (X65 :: (X6d :: (X00 :: (X41 :: (X72 :: (X61 :: (X62 :: (X69 :: (X63 :: (X5f :: (X6e :: (X6f :: (X6f :: (X6e :: (X00 :: (X41 :: (X72 :: (X61 :: (X62 :: (X69 :: (X63 :: (X5f :: (X68 :: (X61 :: (X00 :: (X41 :: (X72 :: (X61 :: (X62 :: (X69 :: (X63 :: (X5f :: (X68 :: (X65 :: (X68 :: (X00 :: (X41 :: (X72 :: (X61 :: (X62 :: (X69 :: (X63 :: (X5f :: (X77 :: (X61 :: (X77 :: (X00 :: (X41 :: (X72 :: (X61 :: (X62 :: (X69 :: (X63 :: (X5f :: (X61 :: (X6c :: (X65 :: (X66 :: (X6d :: (X61 :: (X6b :: (X73 :: (X75 :: (X72 :: (X61 :: (X00 :: (X41 :: (X72 :: (X61 :: (X62 :: (X69 :: (X63 :: (X5f :: (X79 :: (X65 :: (X68 :: (X00 :: (X41 :: (X72 :: (X61 :: (X62 :: (X69 :: (X63 :: (X5f :: (X66 :: (X61 :: (X74 :: (X68 :: (X61 :: (X74 :: (X61 :: (X6e :: (X00 :: (X41 :: (X72 :: (X61 :: (X62 :: (X69 :: (X63 :: (X5f :: (X64 :: (X61 :: (X6d :: (X6d :: (X61 :: (X74 :: (X61 :: (X6e :: (X00 :: (X41 :: (X72 :: (X61 :: (X62 :: (X69 :: (X63 :: (X5f :: (X6b :: (X61 :: (X73 :: (X72 :: (X61 :: (X74 :: (X61 :: (X6e :: (X00 :: (X41 :: (X72 :: (X61 :: (X62 :: (X69 :: (X63 :: (X5f :: (X66 :: (X61 :: (X74 :: (X68 :: (X61 :: (X00 :: (X41 :: (X72 :: (X61 :: (X62 :: (X69 :: (X63 :: (X5f :: (X64 :: (X61 :: (X6d :: (X6d :: (X61 :: (X00 :: (X41 :: (X72 :: (X61 :: (X62 :: (X69 :: (X63 :: (X5f :: (X6b :: (X61 :: (X73 :: (X72 :: (X61 :: (X00 :: (X41 :: (X72 :: (X61 :: (X62 :: (X69 :: (X63 :: (X5f :: (X73 :: (X68 :: (X61 :: (X64 :: (X64 :: (X61 :: (X00 :: (X41 :: (X72 :: (X61 :: (X62 :: (X69 :: (X63 :: (X5f :: (X73 :: (X75 :: (X6b :: (X75 :: (X6e :: (X00 :: (X53 :: (X65 :: (X72 :: (X62 :: (X69 :: (X61 :: (X6e :: (X5f :: (X64 :: (X6a :: (X65 :: (X00 :: (X4d :: (X61 :: (X63 :: (X65 :: (X64 :: (X6f :: (X6e :: (X69 :: (X61 :: (X5f :: (X67 :: (X6a :: (X65 :: (X00 :: (X43 :: (X79 :: (X72 :: (X69 :: (X6c :: (X6c :: (X69 :: (X63 :: (X5f :: (X69 :: (X6f :: (X00 :: (X55 :: (X6b :: (X72 :: (X61 :: (X69 :: (X6e :: (X69 :: (X61 :: (X6e :: (X5f :: (X69 :: (X65 :: (X00 :: (X55 :: (X6b :: (X72 :: (X61 :: (X6e :: (X69 :: (X61 :: (X6e :: (X5f :: (X6a :: (X65 :: (X00 :: (X4d :: (X61 :: (X63 :: (X65 :: (X64 :: (X6f :: (X6e :: (X69 :: (X61 :: (X5f :: (X64 :: (X73 :: (X65 :: (X00 :: (X55 :: (X6b :: (X72 :: (X61 :: (X69 :: (X6e :: (X69 :: (X61 :: (X6e :: (X5f :: (X69 :: (X00 :: (X55 :: (X6b :: (X72 :: (X61 :: (X6e :: (X69 :: (X61 :: (X6e :: (X5f :: (X69 :: (X00 :: (X55 :: (X6b :: (X72 :: (X61 :: (X69 :: (X6e :: (X69 :: (X61 :: (X6e :: (X5f :: (X79 :: (X69 :: (X00 :: (X55 :: (X6b :: (X72 :: (X61 :: (X6e :: (X69 :: (X61 :: (X6e :: (X5f :: (X79 :: (X69 :: (X00 :: (X43 :: (X79 :: (X72 :: (X69 :: (X6c :: (X6c :: (X69 :: (X63 :: (X5f :: (X6a :: (X65 :: (X00 :: (X53 :: (X65 :: (X72 :: (X62 :: (X69 :: (X61 :: (X6e :: (X5f :: (X6a :: (X65 :: (X00 :: (X43 :: (X79 :: (X72 :: (X69 :: (X6c :: (X6c :: (X69 :: (X63 :: (X5f :: (X6c :: (X6a :: (X65 :: (X00 :: (X53 :: (X65 :: (X72 :: (X62 :: (X69 :: (X61 :: (X6e :: (X5f :: (X6c :: (X6a :: (X65 :: (X00 :: (X43 :: (X79 :: (X72 :: (X69 :: (X6c :: (X6c :: (X69 :: (X63 :: (X5f :: (X6e :: (X6a :: (X65 :: (X00 :: (X53 :: (X65 :: (X72 :: (X62 :: (X69 :: (X61 :: (X6e :: (X5f :: (X6e :: (X6a :: (X65 :: (X00 :: (X53 :: (X65 :: (X72 :: (X62 :: (X69 :: (X61 :: (X6e :: (X5f :: (X74 :: (X73 :: (X68 :: (X65 :: (X00 :: (X4d :: (X61 :: (X63 :: (X65 :: (X64 :: (X6f :: (X6e :: (X69 :: (X61 :: (X5f :: (X6b :: (X6a :: (X65 :: (X00 :: (X42 :: (X79 :: (X65 :: (X6c :: (X6f :: (X72 :: (X75 :: (X73 :: (X73 :: (X69 :: (X61 :: (X6e :: (X5f :: (X73 :: (X68 :: (X6f :: (X72 :: (X74 :: (X75 :: (X00 :: (X43 :: (X79 :: (X72 :: (X69 :: (X6c :: (X6c :: (X69 :: (X63 :: (X5f :: (X64 :: (X7a :: (X68 :: (X65 :: (X00 :: (X53 :: (X65 :: (X72 :: (X62 :: (X69 :: (X61 :: (X6e :: (X5f :: (X64 :: (X7a :: (X65 :: (X00 :: (X6e :: (X75 :: (X6d :: (X65 :: (X72 :: (X6f :: (X73 :: (X69 :: (X67 :: (X6e :: (X00 :: (X53 :: (X65 :: (X72 :: (X62 :: (X69 :: (X61 :: (X6e :: (X5f :: (X44 :: (X4a :: (X45 :: (X00 :: (X4d :: (X61 :: (X63 :: (X65 :: (X64 :: (X6f :: (X6e :: (X69 :: (X61 :: (X5f :: (X47 :: (X4a :: (X45 :: (X00 :: (X43 :: (X79 :: (X72 :: (X69 :: (X6c :: (X6c :: (X69 :: (X63 :: (X5f :: (X49 :: (X4f :: (X00 :: (X55 :: (X6b :: (X72 :: (X61 :: (X69 :: (X6e :: (X69 :: (X61 :: (X6e :: (X5f :: (X49 :: (X45 :: (X00 :: (X55 :: (X6b :: (X72 :: (X61 :: (X6e :: (X69 :: (X61 :: (X6e :: (X5f :: (X4a :: (X45 :: (X00 :: (X4d :: (X61 :: (X63 :: (X65 :: (X64 :: (X6f :: (X6e :: (X69 :: (X61 :: (X5f :: (X44 :: (X53 :: (X45 :: (X00 :: (X55 :: (X6b :: (X72 :: (X61 :: (X69 :: (X6e :: (X69 :: (X61 :: (X6e :: (X5f :: (X49 :: (X00 :: (X55 :: (X6b :: (X72 :: (X61 :: (X6e :: (X69 :: (X61 :: (X6e :: (X5f :: (X49 :: (X00 :: (X55 :: (X6b :: (X72 :: (X61 :: (X69 :: (X6e :: (X69 :: (X61 :: (X6e :: (X5f :: (X59 :: (X49 :: (X00 :: (X55 :: (X6b :: (X72 :: (X61 :: (X6e :: (X69 :: (X61 :: (X6e :: (X5f :: (X59 :: (X49 :: (X00 :: (X43 :: (X79 :: (X72 :: (X69 :: (X6c :: (X6c :: (X69 :: (X63 :: (X5f :: (X4a :: (X45 :: (X00 :: (X53 :: (X65 :: (X72 :: (X62 :: (X69 :: (X61 :: (X6e :: (X5f :: (X4a :: (X45 :: (X00 :: (X43 :: (X79 :: (X72 :: (X69 :: (X6c :: (X6c :: (X69 :: (X63 :: (X5f :: (X4c :: (X4a :: (X45 :: (X00 :: (X53 :: (X65 :: (X72 :: (X62 :: (X69 :: (X61 :: (X6e :: (X5f :: (X4c :: (X4a :: (X45 :: (X00 :: (X43 :: (X79 :: (X72 :: (X69 :: (X6c :: (X6c :: (X69 :: (X63 :: (X5f :: (X4e :: (X4a :: (X45 :: (X00 :: (X53 :: (X65 :: (X72 :: (X62 :: (X69 :: (X61 :: (X6e :: (X5f :: (X4e :: (X4a :: (X45 :: (X00 :: (X53 :: (X65 :: (X72 :: (X62 :: (X69 :: (X61 :: (X6e :: (X5f :: (X54 :: (X53 :: (X48 :: (X45 :: (X00 :: (X4d :: (X61 :: (X63 :: (X65 :: (X64 :: (X6f :: (X6e :: (X69 :: (X61 :: (X5f :: (X4b :: (X4a :: (X45 :: (X00 :: (X42 :: (X79 :: (X65 :: (X6c :: (X6f :: (X72 :: (X75 :: (X73 :: (X73 :: (X69 :: (X61 :: (X6e :: (X5f :: (X53 :: (X48 :: (X4f :: (X52 :: (X54 :: (X55 :: (X00 :: (X43 :: (X79 :: (X72 :: (X69 :: (X6c :: (X6c :: (X69 :: (X63 :: (X5f :: (X44 :: (X5a :: (X48 :: (X45 :: (X00 :: (X53 :: (X65 :: (X72 :: (X62 :: (X69 :: (X61 :: (X6e :: (X5f :: (X44 :: (X5a :: (X45 :: (X00 :: (X43 :: (X79 :: (X72 :: (X69 :: (X6c :: (X6c :: (X69 :: (X63 :: (X5f :: (X79 :: (X75 :: (X00 :: (X43 :: (X79 :: (X72 :: (X69 :: (X6c :: (X6c :: (X69 :: (X63 :: (X5f :: (X61 :: (X00 :: (X43 :: (X79 :: (X72 :: (X69 :: (X6c :: (X6c :: (X69 :: (X63 :: (X5f :: (X62 :: (X65 :: (X00 :: (X43 :: (X79 :: (X72 :: (X69 :: (X6c :: (X6c :: (X69 :: (X63 :: (X5f :: (X74 :: (X73 :: (X65 :: (X00 :: (X43 :: (X79 :: (X72 :: (X69 :: (X6c :: (X6c :: (X69 :: (X63 :: (X5f :: (X64 :: (X65 :: (X00 :: (X43 :: (X79 :: (X72 :: (X69 :: (X6c :: (X6c :: (X69 :: (X63 :: (X5f :: (X69 :: (X65 :: (X00 :: (X43 :: (X79 :: (X72 :: (X69 :: (X6c :: (X6c :: (X69 :: (X63 :: (X5f :: (X65 :: (X66 :: (X00 :: (X43 :: (X79 :: (X72 :: (X69 :: (X6c :: (X6c :: (X69 :: (X63 :: (X5f :: (X67 :: (X68 :: (X65 :: (X00 :: (X43 :: (X79 :: (X72 :: (X69 :: (X6c :: (X6c :: (X69 :: (X63 :: (X5f :: (X68 :: (X61 :: (X00 :: (X43 :: (X79 :: (X72 :: (X69 :: (X6c :: (X6c :: (X69 :: (X63 :: (X5f :: (X69 :: (X00 :: (X43 :: (X79 :: (X72 :: (X69 :: (X6c :: (X6c :: (X69 :: (X63 :: (X5f :: (X73 :: (X68 :: (X6f :: (X72 :: (X74 :: (X69 :: (X00 :: (X43 :: (X79 :: (X72 :: (X69 :: (X6c :: (X6c :: (X69 :: (X63 :: (X5f :: (X6b :: (X61 :: (X00 :: (X43 :: (X79 :: (X72 :: (X69 :: (X6c :: (X6c :: (X69 :: (X63 :: (X5f :: (X65 :: (X6c :: (X00 :: (X43 :: (X79 :: (X72 :: (X69 :: (X6c :: (X6c :: (X69 :: (X63 :: (X5f :: (X65 :: (X6d :: (X00 :: (X43 :: (X79 :: (X72 :: (X69 :: (X6c :: (X6c :: (X69 :: (X63 :: (X5f :: (X65 :: (X6e :: (X00 :: (X43 :: (X79 :: (X72 :: (X69 :: (X6c :: (X6c :: (X69 :: (X63 :: (X5f :: (X6f :: (X00 :: (X43 :: (X79 :: (X72 :: (X69 :: (X6c :: (X6c :: (X69 :: (X63 :: (X5f :: (X70 :: (X65 :: (X00 :: (X43 :: (X79 :: (X72 :: (X69 :: (X6c :: (X6c :: (X69 :: (X63 :: (X5f :: (X79 :: (X61 :: (X00 :: (X43 :: (X79 :: (X72 :: (X69 :: (X6c :: (X6c :: (X69 :: (X63 :: (X5f :: (X65 :: (X72 :: (X00 :: (X43 :: (X79 :: (X72 :: (X69 :: (X6c :: (X6c :: (X69 :: (X63 :: (X5f :: (X65 :: (X73 :: (X00 :: (X43 :: (X79 :: (X72 :: (X69 :: (X6c :: (X6c :: (X69 :: (X63 :: (X5f :: (X74 :: (X65 :: (X00 :: (X43 :: (X79 :: (X72 :: (X69 :: (X6c :: (X6c :: (X69 :: (X63 :: (X5f :: (X75 :: (X00 :: (X43 :: (X79 :: (X72 :: (X69 :: (X6c :: (X6c :: (X69 :: (X63 :: (X5f :: (X7a :: (X68 :: (X65 :: (X00 :: (X43 :: (X79 :: (X72 :: (X69 :: (X6c :: (X6c :: (X69 :: (X63 :: (X5f :: (X76 :: (X65 :: (X00 :: (X43 :: (X79 :: (X72 :: (X69 :: (X6c :: (X6c :: (X69 :: (X63 :: (X5f :: (X73 :: (X6f :: (X66 :: (X74 :: (X73 :: (X69 :: (X67 :: (X6e :: (X00 :: (X43 :: (X79 :: (X72 :: (X69 :: (X6c :: (X6c :: (X69 :: (X63 :: (X5f :: (X79 :: (X65 :: (X72 :: (X75 :: (X00 :: (X43 :: (X79 :: (X72 :: (X69 :: (X6c :: (X6c :: (X69 :: (X63 :: (X5f :: (X7a :: (X65 :: (X00 :: (X43 :: (X79 :: (X72 :: (X69 :: (X6c :: (X6c :: (X69 :: (X63 :: (X5f :: (X73 :: (X68 :: (X61 :: (X00 :: (X43 :: (X79 :: (X72 :: (X69 :: (X6c :: (X6c :: (X69 :: (X63 :: (X5f :: (X65 :: (X00 :: (X43 :: (X79 :: (X72 :: (X69 :: (X6c :: (X6c :: (X69 :: (X63 :: (X5f :: (X73 :: (X68 :: (X63 :: (X68 :: (X61 :: (X00 :: (X43 :: (X79 :: (X72 :: (X69 :: (X6c :: (X6c :: (X69 :: (X63 :: (X5f :: (X63 :: (X68 :: (X65 :: (X00 :: (X43 :: (X79 :: (X72 :: (X69 :: (X6c :: (X6c :: (X69 :: (X63 :: (X5f :: (X68 :: (X61 :: (X72 :: (X64 :: (X73 :: (X69 :: (X67 :: (X6e :: (X00 :: (X43 :: (X79 :: (X72 :: (X69 :: (X6c :: (X6c :: (X69 :: (X63 :: (X5f :: (X59 :: (X55 :: (X00 :: (X43 :: (X79 :: (X72 :: (X69 :: (X6c :: (X6c :: (X69 :: (X63 :: (X5f :: (X41 :: (X00 :: (X43 :: (X79 :: (X72 :: (X69 :: (X6c :: (X6c :: (X69 :: (X63 :: (X5f :: (X42 :: (X45 :: (X00 :: (X43 :: (X79 :: (X72 :: (X69 :: (X6c :: (X6c :: (X69 :: (X63 :: (X5f :: (X54 :: (X53 :: (X45 :: (X00 :: (X43 :: (X79 :: (X72 :: (X69 :: (X6c :: (X6c :: (X69 :: (X63 :: (X5f :: (X44 :: (X45 :: (X00 :: (X43 :: (X79 :: (X72 :: (X69 :: (X6c :: (X6c :: (X69 :: (X63 :: (X5f :: (X49 :: (X45 :: (X00 :: (X43 :: (X79 :: (X72 :: (X69 :: (X6c :: (X6c :: (X69 :: (X63 :: (X5f :: (X45 :: (X46 :: (X00 :: (X43 :: (X79 :: (X72 :: (X69 :: (X6c :: (X6c :: (X69 :: (X63 :: (X5f :: (X47 :: (X48 :: (X45 :: (X00 :: (X43 :: (X79 :: (X72 :: (X69 :: (X6c :: (X6c :: (X69 :: (X63 :: (X5f :: (X48 :: (X41 :: (X00 :: (X43 :: (X79 :: (X72 :: (X69 :: (X6c :: (X6c :: (X69 :: (X63 :: (X5f :: (X49 :: (X00 :: (X43 :: (X79 :: (X72 :: (X69 :: (X6c :: (X6c :: (X69 :: (X63 :: (X5f :: (X53 :: (X48 :: (X4f :: (X52 :: (X54 :: (X49 :: (X00 :: (X43 :: (X79 :: (X72 :: (X69 :: (X6c :: (X6c :: (X69 :: (X63 :: (X5f :: (X4b :: (X41 :: (X00 :: (X43 :: (X79 :: (X72 :: (X69 :: (X6c :: (X6c :: (X69 :: (X63 :: (X5f :: (X45 :: (X4c :: (X00 :: (X43 :: (X79 :: (X72 :: (X69 :: (X6c :: (X6c :: (X69 :: (X63 :: (X5f :: (X45 :: (X4d :: (X00 :: (X43 :: (X79 :: (X72 :: (X69 :: (X6c :: (X6c :: (X69 :: (X63 :: (X5f :: (X45 :: (X4e :: (X00 :: (X43 :: (X79 :: (X72 :: (X69 :: (X6c :: (X6c :: (X69 :: (X63 :: (X5f :: (X4f :: (X00 :: (X43 :: (X79 :: (X72 :: (X69 :: (X6c :: (X6c :: (X69 :: (X63 :: (X5f :: (X50 :: (X45 :: (X00 :: (X43 :: (X79 :: (X72 :: (X69 :: (X6c :: (X6c :: (X69 :: (X63 :: (X5f :: (X59 :: (X41 :: (X00 :: (X43 :: (X79 :: (X72 :: (X69 :: (X6c :: (X6c :: (X69 :: (X63 :: (X5f :: (X45 :: (X52 :: (X00 :: (X43 :: (X79 :: (X72 :: (X69 :: (X6c :: (X6c :: (X69 :: (X63 :: (X5f :: (X45 :: (X53 :: (X00 :: (X43 :: (X79 :: (X72 :: (X69 :: (X6c :: (X6c :: (X69 :: (X63 :: (X5f :: (X54 :: (X45 :: (X00 :: (X43 :: (X79 :: (X72 :: (X69 :: (X6c :: (X6c :: (X69 :: (X63 :: (X5f :: (X55 :: (X00 :: (X43 :: (X79 :: (X72 :: (X69 :: (X6c :: (X6c :: (X69 :: (X63 :: (X5f :: (X5a :: (X48 :: (X45 :: (X00 :: (X43 :: (X79 :: (X72 :: (X69 :: (X6c :: (X6c :: (X69 :: (X63 :: (X5f :: (X56 :: (X45 :: (X00 :: (X43 :: (X79 :: (X72 :: (X69 :: (X6c :: (X6c :: (X69 :: (X63 :: (X5f :: (X53 :: (X4f :: (X46 :: (X54 :: (X53 :: (X49 :: (X47 :: (X4e :: (X00 :: (X43 :: (X79 :: (X72 :: (X69 :: (X6c :: (X6c :: (X69 :: (X63 :: (X5f :: (X59 :: (X45 :: (X52 :: (X55 :: (X00 :: (X43 :: (X79 :: (X72 :: (X69 :: (X6c :: (X6c :: (X69 :: (X63 :: (X5f :: (X5a :: (X45 :: (X00 :: (X43 :: (X79 :: (X72 :: (X69 :: (X6c :: (X6c :: (X69 :: (X63 :: (X5f :: (X53 :: (X48 :: (X41 :: (X00 :: (X43 :: (X79 :: (X72 :: (X69 :: (X6c :: (X6c :: (X69 :: (X63 :: (X5f :: (X45 :: (X00 :: (X43 :: (X79 :: (X72 :: (X69 :: (X6c :: (X6c :: (X69 :: (X63 :: (X5f :: (X53 :: (X48 :: (X43 :: (X48 :: (X41 :: (X00 :: (X43 :: (X79 :: (X72 :: (X69 :: (X6c :: (X6c :: (X69 :: (X63 :: (X5f :: (X43 :: (X48 :: (X45 :: (X00 :: (X43 :: (X79 :: (X72 :: (X69 :: (X6c :: (X6c :: (X69 :: (X63 :: (X5f :: (X48 :: (X41 :: (X52 :: (X44 :: (X53 :: (X49 :: (X47 :: (X4e :: (X00 :: (X47 :: (X72 :: (X65 :: (X65 :: (X6b :: (X5f :: (X41 :: (X4c :: (X50 :: (X48 :: (X41 :: (X61 :: (X63 :: (X63 :: (X65 :: (X6e :: (X74 :: (X00 :: (X47 :: (X72 :: (X65 :: (X65 :: (X6b :: (X5f :: (X45 :: (X50 :: (X53 :: (X49 :: (X4c :: (X4f :: (X4e :: (X61 :: (X63 :: (X63 :: (X65 :: (X6e :: (X74 :: (X00 :: (X47 :: (X72 :: (X65 :: (X65 :: (X6b :: (X5f :: (X45 :: (X54 :: (X41 :: (X61 :: (X63 :: (X63 :: (X65 :: (X6e :: (X74 :: (X00 :: (X47 :: (X72 :: (X65 :: (X65 :: (X6b :: (X5f :: (X49 :: (X4f :: (X54 :: (X41 :: (X61 :: (X63 :: (X63 :: (X65 :: (X6e :: (X74 :: (X00 :: (X47 :: (X72 :: (X65 :: (X65 :: (X6b :: (X5f :: (X49 :: (X4f :: (X54 :: (X41 :: (X64 :: (X69 :: (X65 :: (X72 :: (X65 :: (X73 :: (X69 :: (X73 :: (X00 :: (X47 :: (X72 :: (X65 :: (X65 :: (X6b :: (X5f :: (X49 :: (X4f :: (X54 :: (X41 :: (X64 :: (X69 :: (X61 :: (X65 :: (X72 :: (X65 :: (X73 :: (X69 :: (X73 :: (X00 :: (X47 :: (X72 :: (X65 :: (X65 :: (X6b :: (X5f :: (X4f :: (X4d :: (X49 :: (X43 :: (X52 :: (X4f :: (X4e :: (X61 :: (X63 :: (X63 :: (X65 :: (X6e :: (X74 :: (X00 :: (X47 :: (X72 :: (X65 :: (X65 :: (X6b :: (X5f :: (X55 :: (X50 :: (X53 :: (X49 :: (X4c :: (X4f :: (X4e :: (X61 :: (X63 :: (X63 :: (X65 :: (X6e :: (X74 :: (X00 :: (X47 :: (X72 :: (X65 :: (X65 :: (X6b :: (X5f :: (X55 :: (X50 :: (X53 :: (X49 :: (X4c :: (X4f :: (X4e :: (X64 :: (X69 :: (X65 :: (X72 :: (X65 :: (X73 :: (X69 :: (X73 :: (X00 :: (X47 :: (X72 :: (X65 :: (X65 :: (X6b :: (X5f :: (X4f :: (X4d :: (X45 :: (X47 :: (X41 :: (X61 :: (X63 :: (X63 :: (X65 :: (X6e :: (X74 :: (X00 :: (X47 :: (X72 :: (X65 :: (X65 :: (X6b :: (X5f :: (X61 :: (X63 :: (X63 :: (X65 :: (X6e :: (X74 :: (X64 :: (X69 :: (X65 :: (X72 :: (X65 :: (X73 :: (X69 :: (X73 :: (X00 :: (X47 :: (X72 :: (X65 :: (X65 :: (X6b :: (X5f :: (X68 :: (X6f :: (X72 :: (X69 :: (X7a :: (X62 :: (X61 :: (X72 :: (X00 :: (X47 :: (X72 :: (X65 :: (X65 :: (X6b :: (X5f :: (X61 :: (X6c :: (X70 :: (X68 :: (X61 :: (X61 :: (X63 :: (X63 :: (X65 :: (X6e :: (X74 :: (X00 :: (X47 :: (X72 :: (X65 :: (X65 :: (X6b :: (X5f :: (X65 :: (X70 :: (X73 :: (X69 :: (X6c :: (X6f :: (X6e :: (X61 :: (X63 :: (X63 :: (X65 :: (X6e :: (X74 :: (X00 :: (X47 :: (X72 :: (X65 :: (X65 :: (X6b :: (X5f :: (X65 :: (X74 :: (X61 :: (X61 :: (X63 :: (X63 :: (X65 :: (X6e :: (X74 :: (X00 :: (X47 :: (X72 :: (X65 :: (X65 :: (X6b :: (X5f :: (X69 :: (X6f :: (X74 :: (X61 :: (X61 :: (X63 :: (X63 :: (X65 :: (X6e :: (X74 :: (X00 :: (X47 :: (X72 :: (X65 :: (X65 :: (X6b :: (X5f :: (X69 :: (X6f :: (X74 :: (X61 :: (X64 :: (X69 :: (X65 :: (X72 :: (X65 :: (X73 :: (X69 :: (X73 :: (X00 :: (X47 :: (X72 :: (X65 :: (X65 :: (X6b :: (X5f :: (X69 :: (X6f :: (X74 :: (X61 :: (X61 :: (X63 :: (X63 :: (X65 :: (X6e :: (X74 :: (X64 :: (X69 :: (X65 :: (X72 :: (X65 :: (X73 :: (X69 :: (X73 :: (X00 :: (X47 :: (X72 :: (X65 :: (X65 :: (X6b :: (X5f :: (X6f :: (X6d :: (X69 :: (X63 :: (X72 :: (X6f :: (X6e :: (X61 :: (X63 :: (X63 :: (X65 :: (X6e :: (X74 :: (X00 :: (X47 :: (X72 :: (X65 :: (X65 :: (X6b :: (X5f :: (X75 :: (X70 :: (X73 :: (X69 :: (X6c :: (X6f :: (X6e :: (X61 :: (X63 :: (X63 :: (X65 :: (X6e :: (X74 :: (X00 :: (X47 :: (X72 :: (X65 :: (X65 :: (X6b :: (X5f :: (X75 :: (X70 :: (X73 :: (X69 :: (X6c :: (X6f :: (X6e :: (X64 :: (X69 :: (X65 :: (X72 :: (X65 :: (X73 :: (X69 :: (X73 :: (X00 :: (X47 :: (X72 :: (X65 :: (X65 :: (X6b :: (X5f :: (X75 :: (X70 :: (X73 :: (X69 :: (X6c :: (X6f :: (X6e :: (X61 :: (X63 :: (X63 :: (X65 :: (X6e :: (X74 :: (X64 :: (X69 :: (X65 :: (X72 :: (X65 :: (X73 :: (X69 :: (X73 :: (X00 :: (X47 :: (X72 :: (X65 :: (X65 :: (X6b :: (X5f :: (X6f :: (X6d :: (X65 :: (X67 :: (X61 :: (X61 :: (X63 :: (X63 :: (X65 :: (X6e :: (X74 :: (X00 :: (X47 :: (X72 :: (X65 :: (X65 :: (X6b :: (X5f :: (X41 :: (X4c :: (X50 :: (X48 :: (X41 :: (X00 :: (X47 :: (X72 :: (X65 :: (X65 :: (X6b :: (X5f :: (X42 :: (X45 :: (X54 :: (X41 :: (X00 :: (X47 :: (X72 :: (X65 :: (X65 :: (X6b :: (X5f :: (X47 :: (X41 :: (X4d :: (X4d :: (X41 :: (X00 :: (X47 :: (X72 :: (X65 :: (X65 :: (X6b :: (X5f :: (X44 :: (X45 :: (X4c :: (X54 :: (X41 :: (X00 :: (X47 :: (X72 :: (X65 :: (X65 :: (X6b :: (X5f :: (X45 :: (X50 :: (X53 :: (X49 :: (X4c :: (X4f :: (X4e :: (X00 :: (X47 :: (X72 :: (X65 :: (X65 :: (X6b :: (X5f :: (X5a :: (X45 :: (X54 :: (X41 :: (X00 :: (X47 :: (X72 :: (X65 :: (X65 :: (X6b :: (X5f :: (X45 :: (X54 :: (X41 :: (X00 :: (X47 :: (X72 :: (X65 :: (X65 :: (X6b :: (X5f :: (X54 :: (X48 :: (X45 :: (X54 :: (X41 :: (X00 :: (X47 :: (X72 :: (X65 :: (X65 :: (X6b :: (X5f :: (X49 :: (X4f :: (X54 :: (X41 :: (X00 :: (X47 :: (X72 :: (X65 :: (X65 :: (X6b :: (X5f :: (X4b :: (X41 :: (X50 :: (X50 :: (X41 :: (X00 :: (X47 :: (X72 :: (X65 :: (X65 :: (X6b :: (X5f :: (X4c :: (X41 :: (X4d :: (X42 :: (X44 :: (X41 :: (X00 :: (X47 :: (X72 :: (X65 :: (X65 :: (X6b :: (X5f :: (X4c :: (X41 :: (X4d :: (X44 :: (X41 :: (X00 :: (X47 :: (X72 :: (X65 :: (X65 :: (X6b :: (X5f :: (X4d :: (X55 :: (X00 :: (X47 :: (X72 :: (X65 :: (X65 :: (X6b :: (X5f :: (X4e :: (X55 :: (X00 :: (X47 :: (X72 :: (X65 :: (X65 :: (X6b :: (X5f :: (X58 :: (X49 :: (X00 :: (X47 :: (X72 :: (X65 :: (X65 :: (X6b :: (X5f :: (X4f :: (X4d :: (X49 :: (X43 :: (X52 :: (X4f :: (X4e :: (X00 :: (X47 :: (X72 :: (X65 :: (X65 :: (X6b :: (X5f :: (X50 :: (X49 :: (X00 :: (X47 :: (X72 :: (X65 :: (X65 :: (X6b :: (X5f :: (X52 :: (X48 :: (X4f :: (X00 :: (X47 :: (X72 :: (X65 :: (X65 :: (X6b :: (X5f :: (X53 :: (X49 :: (X47 :: (X4d :: (X41 :: (X00 :: (X47 :: (X72 :: (X65 :: (X65 :: (X6b :: (X5f :: (X54 :: (X41 :: (X55 :: (X00 :: (X47 :: (X72 :: (X65 :: (X65 :: (X6b :: (X5f :: (X55 :: (X50 :: (X53 :: (X49 :: (X4c :: (X4f :: (X4e :: (X00 :: (X47 :: (X72 :: (X65 :: (X65 :: (X6b :: (X5f :: (X50 :: (X48 :: (X49 :: (X00 :: (X47 :: (X72 :: (X65 :: (X65 :: (X6b :: (X5f :: (X43 :: (X48 :: (X49 :: (X00 :: (X47 :: (X72 :: (X65 :: (X65 :: (X6b :: (X5f :: (X50 :: (X53 :: (X49 :: (X00 :: (X47 :: (X72 :: (X65 :: (X65 :: (X6b :: (X5f :: (X4f :: (X4d :: (X45 :: (X47 :: (X41 :: (X00 :: (X47 :: (X72 :: (X65 :: (X65 :: (X6b :: (X5f :: (X61 :: (X6c :: (X70 :: (X68 :: (X61 :: (X00 :: (X47 :: (X72 :: (X65 :: (X65 :: (X6b :: (X5f :: (X62 :: (X65 :: (X74 :: (X61 :: (X00 :: (X47 :: (X72 :: (X65 :: (X65 :: (X6b :: (X5f :: (X67 :: (X61 :: (X6d :: (X6d :: (X61 :: (X00 :: (X47 :: (X72 :: (X65 :: (X65 :: (X6b :: (X5f :: (X64 :: (X65 :: (X6c :: (X74 :: (X61 :: (X00 :: (X47 :: (X72 :: (X65 :: (X65 :: (X6b :: (X5f :: (X65 :: (X70 :: (X73 :: (X69 :: (X6c :: (X6f :: (X6e :: (X00 :: (X47 :: (X72 :: (X65 :: (X65 :: (X6b :: (X5f :: (X7a :: (X65 :: (X74 :: (X61 :: (X00 :: (X47 :: (X72 :: (X65 :: (X65 :: (X6b :: (X5f :: (X65 :: (X74 :: (X61 :: (X00 :: (X47 :: (X72 :: (X65 :: (X65 :: (X6b :: (X5f :: (X74 :: (X68 :: (X65 :: (X74 :: (X61 :: (X00 :: (X47 :: (X72 :: (X65 :: (X65 :: (X6b :: (X5f :: (X69 :: (X6f :: (X74 :: (X61 :: (X00 :: (X47 :: (X72 :: (X65 :: (X65 :: (X6b :: (X5f :: (X6b :: (X61 :: (X70 :: (X70 :: (X61 :: (X00 :: (X47 :: (X72 :: (X65 :: (X65 :: (X6b :: (X5f :: (X6c :: (X61 :: (X6d :: (X62 :: (X64 :: (X61 :: (X00 :: (X47 :: (X72 :: (X65 :: (X65 :: (X6b :: (X5f :: (X6c :: (X61 :: (X6d :: (X64 :: (X61 :: (X00 :: (X47 :: (X72 :: (X65 :: (X65 :: (X6b :: (X5f :: (X6d :: (X75 :: (X00 :: (X47 :: (X72 :: (X65 :: (X65 :: (X6b :: (X5f :: (X6e :: (X75 :: (X00 :: (X47 :: (X72 :: (X65 :: (X65 :: (X6b :: (X5f :: (X78 :: (X69 :: (X00 :: (X47 :: (X72 :: (X65 :: (X65 :: (X6b :: (X5f :: (X6f :: (X6d :: (X69 :: (X63 :: (X72 :: (X6f :: (X6e :: (X00 :: (X47 :: (X72 :: (X65 :: (X65 :: (X6b :: (X5f :: (X70 :: (X69 :: (X00 :: (X47 :: (X72 :: (X65 :: (X65 :: (X6b :: (X5f :: (X72 :: (X68 :: (X6f :: (X00 :: (X47 :: (X72 :: (X65 :: (X65 :: (X6b :: (X5f :: (X73 :: (X69 :: (X67 :: (X6d :: (X61 :: (X00 :: (X47 :: (X72 :: (X65 :: (X65 :: (X6b :: (X5f :: (X66 :: (X69 :: (X6e :: (X61 :: (X6c :: (X73 :: (X6d :: (X61 :: (X6c :: (X6c :: (X73 :: (X69 :: (X67 :: (X6d :: (X61 :: (X00 :: (X47 :: (X72 :: (X65 :: (X65 :: (X6b :: (X5f :: (X74 :: (X61 :: (X75 :: (X00 :: (X47 :: (X72 :: (X65 :: (X65 :: (X6b :: (X5f :: (X75 :: (X70 :: (X73 :: (X69 :: (X6c :: (X6f :: (X6e :: (X00 :: (X47 :: (X72 :: (X65 :: (X65 :: (X6b :: (X5f :: (X70 :: (X68 :: (X69 :: (X00 :: (X47 :: (X72 :: (X65 :: (X65 :: (X6b :: (X5f :: (X63 :: (X68 :: (X69 :: (X00 :: (X47 :: (X72 :: (X65 :: (X65 :: (X6b :: (X5f :: (X70 :: (X73 :: (X69 :: (X00 :: (X47 :: (X72 :: (X65 :: (X65 :: (X6b :: (X5f :: (X6f :: (X6d :: (X65 :: (X67 :: (X61 :: (X00 :: (X6c :: (X65 :: (X66 :: (X74 :: (X72 :: (X61 :: (X64 :: (X69 :: (X63 :: (X61 :: (X6c :: (X00 :: (X74 :: (X6f :: (X70 :: (X6c :: (X65 :: (X66 :: (X74 :: (X72 :: (X61 :: (X64 :: (X69 :: (X63 :: (X61 :: (X6c :: (X00 :: (X68 :: (X6f :: (X72 :: (X69 :: (X7a :: (X63 :: (X6f :: (X6e :: (X6e :: (X65 :: (X63 :: (X74 :: (X6f :: (X72 :: (X00 :: (X74 :: (X6f :: (X70 :: (X69 :: (X6e :: (X74 :: (X65 :: (X67 :: (X72 :: (X61 :: (X6c :: (X00 :: (X62 :: (X6f :: (X74 :: (X69 :: (X6e :: (X74 :: (X65 :: (X67 :: (X72 :: (X61 :: (X6c :: (X00 :: (X76 :: (X65 :: (X72 :: (X74 :: (X63 :: (X6f :: (X6e :: (X6e :: (X65 :: (X63 :: (X74 :: (X6f :: (X72 :: (X00 :: (X74 :: (X6f :: (X70 :: (X6c :: (X65 :: (X66 :: (X74 :: (X73 :: (X71 :: (X62 :: (X72 :: (X61 :: (X63 :: (X6b :: (X65 :: (X74 :: (X00 :: (X62 :: (X6f :: (X74 :: (X6c :: (X65 :: (X66 :: (X74 :: (X73 :: (X71 :: (X62 :: (X72 :: (X61 :: (X63 :: (X6b :: (X65 :: (X74 :: (X00 :: (X74 :: (X6f :: (X70 :: (X72 :: (X69 :: (X67 :: (X68 :: (X74 :: (X73 :: (X71 :: (X62 :: (X72 :: (X61 :: (X63 :: (X6b :: (X65 :: (X74 :: (X00 :: (X62 :: (X6f :: (X74 :: (X72 :: (X69 :: (X67 :: (X68 :: (X74 :: (X73 :: (X71 :: (X62 :: (X72 :: (X61 :: (X63 :: (X6b :: (X65 :: (X74 :: (X00 :: (X74 :: (X6f :: (X70 :: (X6c :: (X65 :: (X66 :: (X74 :: (X70 :: (X61 :: (X72 :: (X65 :: (X6e :: (X73 :: (X00 :: (X62 :: (X6f :: (X74 :: (X6c :: (X65 :: (X66 :: (X74 :: (X70 :: (X61 :: (X72 :: (X65 :: (X6e :: (X73 :: (X00 :: (X74 :: (X6f :: (X70 :: (X72 :: (X69 :: (X67 :: (X68 :: (X74 :: (X70 :: (X61 :: (X72 :: (X65 :: (X6e :: (X73 :: (X00 :: (X62 :: (X6f :: (X74 :: (X72 :: (X69 :: (X67 :: (X68 :: (X74 :: (X70 :: (X61 :: (X72 :: (X65 :: (X6e :: (X73 :: (X00 :: (X6c :: (X65 :: (X66 :: (X74 :: (X6d :: (X69 :: (X64 :: (X64 :: (X6c :: (X65 :: (X63 :: (X75 :: (X72 :: (X6c :: (X79 :: (X62 :: (X72 :: (X61 :: (X63 :: (X65 :: (X00 :: (X72 :: (X69 :: (X67 :: (X68 :: (X74 :: (X6d :: (X69 :: (X64 :: (X64 :: (X6c :: (X65 :: (X63 :: (X75 :: (X72 :: (X6c :: (X79 :: (X62 :: (X72 :: (X61 :: (X63 :: (X65 :: (X00 :: (X74 :: (X6f :: (X70 :: (X6c :: (X65 :: (X66 :: (X74 :: (X73 :: (X75 :: (X6d :: (X6d :: (X61 :: (X74 :: (X69 :: (X6f :: (X6e :: (X00 :: (X62 :: (X6f :: (X74 :: (X6c :: (X65 :: (X66 :: (X74 :: (X73 :: (X75 :: (X6d :: (X6d :: (X61 :: (X74 :: (X69 :: (X6f :: (X6e :: (X00 :: (X74 :: (X6f :: (X70 :: (X76 :: (X65 :: (X72 :: (X74 :: (X73 :: (X75 :: (X6d :: (X6d :: (X61 :: (X74 :: (X69 :: (X6f :: (X6e :: (X63 :: (X6f :: (X6e :: (X6e :: (X65 :: (X63 :: (X74 :: (X6f :: (X72 :: (X00 :: (X62 :: (X6f :: (X74 :: (X76 :: (X65 :: (X72 :: (X74 :: (X73 :: (X75 :: (X6d :: (X6d :: (X61 :: (X74 :: (X69 :: (X6f :: (X6e :: (X63 :: (X6f :: (X6e :: (X6e :: (X65 :: (X63 :: (X74 :: (X6f :: (X72 :: (X00 :: (X74 :: (X6f :: (X70 :: (X72 :: (X69 :: (X67 :: (X68 :: (X74 :: (X73 :: (X75 :: (X6d :: (X6d :: (X61 :: (X74 :: (X69 :: (X6f :: (X6e :: (X00 :: (X62 :: (X6f :: (X74 :: (X72 :: (X69 :: (X67 :: (X68 :: (X74 :: (X73 :: (X75 :: (X6d :: (X6d :: (X61 :: (X74 :: (X69 :: (X6f :: (X6e :: (X00 :: (X72 :: (X69 :: (X67 :: (X68 :: (X74 :: (X6d :: (X69 :: (X64 :: (X64 :: (X6c :: (X65 :: (X73 :: (X75 :: (X6d :: (X6d :: (X61 :: (X74 :: (X69 :: (X6f :: (X6e :: (X00 :: (X6c :: (X65 :: (X73 :: (X73 :: (X74 :: (X68 :: (X61 :: (X6e :: (X65 :: (X71 :: (X75 :: (X61 :: (X6c :: (X00 :: (X6e :: (X6f :: (X74 :: (X65 :: (X71 :: (X75 :: (X61 :: (X6c :: (X00 :: (X67 :: (X72 :: (X65 :: (X61 :: (X74 :: (X65 :: (X72 :: (X74 :: (X68 :: (X61 :: (X6e :: (X65 :: (X71 :: (X75 :: (X61 :: (X6c :: (X00 :: (X69 :: (X6e :: (X74 :: (X65 :: (X67 :: (X72 :: (X61 :: (X6c :: (X00 :: (X74 :: (X68 :: (X65 :: (X72 :: (X65 :: (X66 :: (X6f :: (X72 :: (X65 :: (X00 :: (X76 :: (X61 :: (X72 :: (X69 :: (X61 :: (X74 :: (X69 :: (X6f :: (X6e :: (X00 :: (X69 :: (X6e :: (X66 :: (X69 :: (X6e :: (X69 :: (X74 :: (X79 :: (X00 :: (X6e :: (X61 :: (X62 :: (X6c :: (X61 :: (X00 :: (X61 :: (X70 :: (X70 :: (X72 :: (X6f :: (X78 :: (X69 :: (X6d :: (X61 :: (X74 :: (X65 :: (X00 :: (X73 :: (X69 :: (X6d :: (X69 :: (X6c :: (X61 :: (X72 :: (X65 :: (X71 :: (X75 :: (X61 :: (X6c :: (X00 :: (X69 :: (X66 :: (X6f :: (X6e :: (X6c :: (X79 :: (X69 :: (X66 :: (X00 :: (X69 :: (X6d :: (X70 :: (X6c :: (X69 :: (X65 :: (X73 :: (X00 :: (X69 :: (X64 :: (X65 :: (X6e :: (X74 :: (X69 :: (X63 :: (X61 :: (X6c :: (X00 :: (X72 :: (X61 :: (X64 :: (X69 :: (X63 :: (X61 :: (X6c :: (X00 :: (X69 :: (X6e :: (X63 :: (X6c :: (X75 :: (X64 :: (X65 :: (X64 :: (X69 :: (X6e :: (X00 :: (X69 :: (X6e :: (X63 :: (X6c :: (X75 :: (X64 :: (X65 :: (X73 :: (X00 :: (X69 :: (X6e :: (X74 :: (X65 :: (X72 :: (X73 :: (X65 :: (X63 :: (X74 :: (X69 :: (X6f :: (X6e :: (X00 :: (X75 :: (X6e :: (X69 :: (X6f :: (X6e :: (X00 :: (X6c :: (X6f :: (X67 :: (X69 :: (X63 :: (X61 :: (X6c :: (X61 :: (X6e :: (X64 :: (X00 :: (X6c :: (X6f :: (X67 :: (X69 :: (X63 :: (X61 :: (X6c :: (X6f :: (X72 :: (X00 :: (X70 :: (X61 :: (X72 :: (X74 :: (X69 :: (X61 :: (X6c :: (X64 :: (X65 :: (X72 :: (X69 :: (X76 :: (X61 :: (X74 :: (X69 :: (X76 :: (X65 :: (X00 :: (X66 :: (X75 :: (X6e :: (X63 :: (X74 :: (X69 :: (X6f :: (X6e :: (X00 :: (X6c :: (X65 :: (X66 :: (X74 :: (X61 :: (X72 :: (X72 :: (X6f :: (X77 :: (X00 :: (X75 :: (X70 :: (X61 :: (X72 :: (X72 :: (X6f :: (X77 :: (X00 :: (X72 :: (X69 :: (X67 :: (X68 :: (X74 :: (X61 :: (X72 :: (X72 :: (X6f :: (X77 :: (X00 :: (X64 :: (X6f :: (X77 :: (X6e :: (X61 :: (X72 :: (X72 :: (X6f :: (X77 :: (X00 :: (X62 :: (X6c :: (X61 :: (X6e :: (X6b :: (X00 :: (X73 :: (X6f :: (X6c :: (X69 :: (X64 :: (X64 :: (X69 :: (X61 :: (X6d :: (X6f :: (X6e :: (X64 :: (X00 :: (X63 :: (X68 :: (X65 :: (X63 :: (X6b :: (X65 :: (X72 :: (X62 :: (X6f :: (X61 :: (X72 :: (X64 :: (X00 :: (X68 :: (X74 :: (X00 :: (X66 :: (X66 :: (X00 :: (X63 :: (X72 :: (X00 :: (X6c :: (X66 :: (X00 :: (X6e :: (X6c :: (X00 :: (X76 :: (X74 :: (X00 :: (X6c :: (X6f :: (X77 :: (X72 :: (X69 :: (X67 :: (X68 :: (X74 :: (X63 :: (X6f :: (X72 :: (X6e :: (X65 :: (X72 :: (X00 :: (X75 :: (X70 :: (X72 :: (X69 :: (X67 :: (X68 :: (X74 :: (X63 :: (X6f :: (X72 :: (X6e :: (X65 :: (X72 :: (X00 :: (X75 :: (X70 :: (X6c :: (X65 :: (X66 :: (X74 :: (X63 :: (X6f :: (X72 :: (X6e :: (X65 :: (X72 :: (X00 :: (X6c :: (X6f :: (X77 :: (X6c :: (X65 :: (X66 :: (X74 :: (X63 :: (X6f :: (X72 :: (X6e :: (X65 :: (X72 :: (X00 :: (X63 :: (X72 :: (X6f :: (X73 :: (X73 :: (X69 :: (X6e :: (X67 :: (X6c :: (X69 :: (X6e :: (X65 :: (X73 :: (X00 :: (X68 :: (X6f :: (X72 :: (X69 :: (X7a :: (X6c :: (X69 :: (X6e :: (X65 :: (X73 :: (X63 :: (X61 :: (X6e :: (X31 :: (X00 :: (X68 :: (X6f :: (X72 :: (X69 :: (X7a :: (X6c :: (X69 :: (X6e :: (X65 :: (X73 :: (X63 :: (X61 :: (X6e :: (X33 :: (X00 :: (X68 :: (X6f :: (X72 :: (X69 :: (X7a :: (X6c :: (X69 :: (X6e :: (X65 :: (X73 :: (X63 :: (X61 :: (X6e :: (X35 :: (X00 :: (X68 :: (X6f :: (X72 :: (X69 :: (X7a :: (X6c :: (X69 :: (X6e :: (X65 :: (X73 :: (X63 :: (X61 :: (X6e :: (X37 :: (X00 :: (X68 :: (X6f :: (X72 :: (X69 :: (X7a :: (X6c :: (X69 :: (X6e :: (X65 :: (X73 :: (X63 :: (X61 :: (X6e :: (X39 :: (X00 :: (X6c :: (X65 :: (X66 :: (X74 :: (X74 :: (X00 :: (X72 :: (X69 :: (X67 :: (X68 :: (X74 :: (X74 :: (X00 :: (X62 :: (X6f :: (X74 :: (X74 :: (X00 :: (X74 :: (X6f :: (X70 :: (X74 :: (X00 :: (X76 :: (X65 :: (X72 :: (X74 :: (X62 :: (X61 :: (X72 :: (X00 :: (X65 :: (X6d :: (X73 :: (X70 :: (X61 :: (X63 :: (X65 :: (X00 :: (X65 :: (X6e :: (X73 :: (X70 :: (X61 :: (X63 :: (X65 :: (X00 :: (X65 :: (X6d :: (X33 :: (X73 :: (X70 :: (X61 :: (X63 :: (X65 :: (X00 :: (X65 :: (X6d :: (X34 :: (X73 :: (X70 :: (X61 :: (X63 :: (X65 :: (X00 :: (X64 :: (X69 :: (X67 :: (X69 :: (X74 :: (X73 :: (X70 :: (X61 :: (X63 :: (X65 :: (X00 :: (X70 :: (X75 :: (X6e :: (X63 :: (X74 :: (X73 :: (X70 :: (X61 :: (X63 :: (X65 :: (X00 :: (X74 :: (X68 :: (X69 :: (X6e :: (X73 :: (X70 :: (X61 :: (X63 :: (X65 :: (X00 :: (X68 :: (X61 :: (X69 :: (X72 :: (X73 :: (X70 :: (X61 :: (X63 :: (X65 :: (X00 :: (X65 :: (X6d :: (X64 :: (X61 :: (X73 :: (X68 :: (X00 :: (X65 :: (X6e :: (X64 :: (X61 :: (X73 :: (X68 :: (X00 :: (X73 :: (X69 :: (X67 :: (X6e :: (X69 :: (X66 :: (X62 :: (X6c :: (X61 :: (X6e :: (X6b :: (X00 :: (X65 :: (X6c :: (X6c :: (X69 :: (X70 :: (X73 :: (X69 :: (X73 :: (X00 :: (X64 :: (X6f :: (X75 :: (X62 :: (X62 :: (X61 :: (X73 :: (X65 :: (X6c :: (X69 :: (X6e :: (X65 :: (X64 :: (X6f :: (X74 :: (X00 :: (X6f :: (X6e :: (X65 :: (X74 :: (X68 :: (X69 :: (X72 :: (X64 :: (X00 :: (X74 :: (X77 :: (X6f :: (X74 :: (X68 :: (X69 :: (X72 :: (X64 :: (X73 :: (X00 :: (X6f :: (X6e :: (X65 :: (X66 :: (X69 :: (X66 :: (X74 :: (X68 :: (X00 :: (X74 :: (X77 :: (X6f :: (X66 :: (X69 :: (X66 :: (X74 :: (X68 :: (X73 :: (X00 :: (X74 :: (X68 :: (X72 :: (X65 :: (X65 :: (X66 :: (X69 :: (X66 :: (X74 :: (X68 :: (X73 :: (X00 :: (X66 :: (X6f :: (X75 :: (X72 :: (X66 :: (X69 :: (X66 :: (X74 :: (X68 :: (X73 :: (X00 :: (X6f :: (X6e :: (X65 :: (X73 :: (X69 :: (X78 :: (X74 :: (X68 :: (X00 :: (X66 :: (X69 :: (X76 :: (X65 :: (X73 :: (X69 :: (X78 :: (X74 :: (X68 :: (X73 :: (X00 :: (X63 :: (X61 :: (X72 :: (X65 :: (X6f :: (X66 :: (X00 :: (X66 :: (X69 :: (X67 :: (X64 :: (X61 :: (X73 :: (X68 :: (X00 :: (X6c :: (X65 :: (X66 :: (X74 :: (X61 :: (X6e :: (X67 :: (X6c :: (X65 :: (X62 :: (X72 :: (X61 :: (X63 :: (X6b :: (X65 :: (X74 :: (X00 :: (X64 :: (X65 :: (X63 :: (X69 :: (X6d :: (X61 :: (X6c :: (X70 :: (X6f :: (X69 :: (X6e :: (X74 :: (X00 :: (X72 :: (X69 :: (X67 :: (X68 :: (X74 :: (X61 :: (X6e :: (X67 :: (X6c :: (X65 :: (X62 :: (X72 :: (X61 :: (X63 :: (X6b :: (X65 :: (X74 :: (X00 :: (X6d :: (X61 :: (X72 :: (X6b :: (X65 :: (X72 :: (X00 :: (X6f :: (X6e :: (X65 :: (X65 :: (X69 :: (X67 :: (X68 :: (X74 :: (X68 :: (X00 :: (X74 :: (X68 :: (X72 :: (X65 :: (X65 :: (X65 :: (X69 :: (X67 :: (X68 :: (X74 :: (X68 :: (X73 :: (X00 :: (X66 :: (X69 :: (X76 :: (X65 :: (X65 :: (X69 :: (X67 :: (X68 :: (X74 :: (X68 :: (X73 :: (X00 :: (X73 :: (X65 :: (X76 :: (X65 :: (X6e :: (X65 :: (X69 :: (X67 :: (X68 :: (X74 :: (X68 :: (X73 :: (X00 :: (X74 :: (X72 :: (X61 :: (X64 :: (X65 :: (X6d :: (X61 :: (X72 :: (X6b :: (X00 :: (X73 :: (X69 :: (X67 :: (X6e :: (X61 :: (X74 :: (X75 :: (X72 :: (X65 :: (X6d :: (X61 :: (X72 :: (X6b :: (X00 :: (X74 :: (X72 :: (X61 :: (X64 :: (X65 :: (X6d :: (X61 :: (X72 :: (X6b :: (X69 :: (X6e :: (X63 :: (X69 :: (X72 :: (X63 :: (X6c :: (X65 :: (X00 :: (X6c :: (X65 :: (X66 :: (X74 :: (X6f :: (X70 :: (X65 :: (X6e :: (X74 :: (X72 :: (X69 :: (X61 :: (X6e :: (X67 :: (X6c :: (X65 :: (X00 :: (X72 :: (X69 :: (X67 :: (X68 :: (X74 :: (X6f :: (X70 :: (X65 :: (X6e :: (X74 :: (X72 :: (X69 :: (X61 :: (X6e :: (X67 :: (X6c :: (X65 :: (X00 :: (X65 :: (X6d :: (X6f :: (X70 :: (X65 :: (X6e :: (X63 :: (X69 :: (X72 :: (X63 :: (X6c :: (X65 :: (X00 :: (X65 :: (X6d :: (X6f :: (X70 :: (X65 :: (X6e :: (X72 :: (X65 :: (X63 :: (X74 :: (X61 :: (X6e :: (X67 :: (X6c :: (X65 :: (X00 :: (X6c :: (X65 :: (X66 :: (X74 :: (X73 :: (X69 :: (X6e :: (X67 :: (X6c :: (X65 :: (X71 :: (X75 :: (X6f :: (X74 :: (X65 :: (X6d :: (X61 :: (X72 :: (X6b :: (X00 :: (X72 :: (X69 :: (X67 :: (X68 :: (X74 :: (X73 :: (X69 :: (X6e :: (X67 :: (X6c :: (X65 :: (X71 :: (X75 :: (X6f :: (X74 :: (X65 :: (X6d :: (X61 :: (X72 :: (X6b :: (X00 :: (X6c :: (X65 :: (X66 :: (X74 :: (X64 :: (X6f :: (X75 :: (X62 :: (X6c :: (X65 :: (X71 :: (X75 :: (X6f :: (X74 :: (X65 :: (X6d :: (X61 :: (X72 :: (X6b :: (X00 :: (X72 :: (X69 :: (X67 :: (X68 :: (X74 :: (X64 :: (X6f :: (X75 :: (X62 :: (X6c :: (X65 :: (X71 :: (X75 :: (X6f :: (X74 :: (X65 :: (X6d :: (X61 :: (X72 :: (X6b :: (X00 :: (X70 :: (X72 :: (X65 :: (X73 :: (X63 :: (X72 :: (X69 :: (X70 :: (X74 :: (X69 :: (X6f :: (X6e :: (X00 :: (X6d :: (X69 :: (X6e :: (X75 :: (X74 :: (X65 :: (X73 :: (X00 :: (X73 :: (X65 :: (X63 :: (X6f :: (X6e :: (X64 :: (X73 :: (X00 :: (X6c :: (X61 :: (X74 :: (X69 :: (X6e :: (X63 :: (X72 :: (X6f :: (X73 :: (X73 :: (X00 :: (X68 :: (X65 :: (X78 :: (X61 :: (X67 :: (X72 :: (X61 :: (X6d :: (X00 :: (X66 :: (X69 :: (X6c :: (X6c :: (X65 :: (X64 :: (X72 :: (X65 :: (X63 :: (X74 :: (X62 :: (X75 :: (X6c :: (X6c :: (X65 :: (X74 :: (X00 :: (X66 :: (X69 :: (X6c :: (X6c :: (X65 :: (X64 :: (X6c :: (X65 :: (X66 :: (X74 :: (X74 :: (X72 :: (X69 :: (X62 :: (X75 :: (X6c :: (X6c :: (X65 :: (X74 :: (X00 :: (X66 :: (X69 :: (X6c :: (X6c :: (X65 :: (X64 :: (X72 :: (X69 :: (X67 :: (X68 :: (X74 :: (X74 :: (X72 :: (X69 :: (X62 :: (X75 :: (X6c :: (X6c :: (X65 :: (X74 :: (X00 :: (X65 :: (X6d :: (X66 :: (X69 :: (X6c :: (X6c :: (X65 :: (X64 :: (X63 :: (X69 :: (X72 :: (X63 :: (X6c :: (X65 :: (X00 :: (X65 :: (X6d :: (X66 :: (X69 :: (X6c :: (X6c :: (X65 :: (X64 :: (X72 :: (X65 :: (X63 :: (X74 :: (X00 :: (X65 :: (X6e :: (X6f :: (X70 :: (X65 :: (X6e :: (X63 :: (X69 :: (X72 :: (X63 :: (X62 :: (X75 :: (X6c :: (X6c :: (X65 :: (X74 :: (X00 :: (X65 :: (X6e :: (X6f :: (X70 :: (X65 :: (X6e :: (X73 :: (X71 :: (X75 :: (X61 :: (X72 :: (X65 :: (X62 :: (X75 :: (X6c :: (X6c :: (X65 :: (X74 :: (X00 :: (X6f :: (X70 :: (X65 :: (X6e :: (X72 :: (X65 :: (X63 :: (X74 :: (X62 :: (X75 :: (X6c :: (X6c :: (X65 :: (X74 :: (X00 :: (X6f :: (X70 :: (X65 :: (X6e :: (X74 :: (X72 :: (X69 :: (X62 :: (X75 :: (X6c :: (X6c :: (X65 :: (X74 :: (X75 :: (X70 :: (X00 :: (X6f :: (X70 :: (X65 :: (X6e :: (X74 :: (X72 :: (X69 :: (X62 :: (X75 :: (X6c :: (X6c :: (X65 :: (X74 :: (X64 :: (X6f :: (X77 :: (X6e :: (X00 :: (X6f :: (X70 :: (X65 :: (X6e :: (X73 :: (X74 :: (X61 :: (X72 :: (X00 :: (X65 :: (X6e :: (X66 :: (X69 :: (X6c :: (X6c :: (X65 :: (X64 :: (X63 :: (X69 :: (X72 :: (X63 :: (X62 :: (X75 :: (X6c :: (X6c :: (X65 :: (X74 :: (X00 :: (X65 :: (X6e :: (X66 :: (X69 :: (X6c :: (X6c :: (X65 :: (X64 :: (X73 :: (X71 :: (X62 :: (X75 :: (X6c :: (X6c :: (X65 :: (X74 :: (X00 :: (X66 :: (X69 :: (X6c :: (X6c :: (X65 :: (X64 :: (X74 :: (X72 :: (X69 :: (X62 :: (X75 :: (X6c :: (X6c :: (X65 :: (X74 :: (X75 :: (X70 :: (X00 :: (X66 :: (X69 :: (X6c :: (X6c :: (X65 :: (X64 :: (X74 :: (X72 :: (X69 :: (X62 :: (X75 :: (X6c :: (X6c :: (X65 :: (X74 :: (X64 :: (X6f :: (X77 :: (X6e :: (X00 :: (X6c :: (X65 :: (X66 :: (X74 :: (X70 :: (X6f :: (X69 :: (X6e :: (X74 :: (X65 :: (X72 :: (X00 :: (X72 :: (X69 :: (X67 :: (X68 :: (X74 :: (X70 :: (X6f :: (X69 :: (X6e :: (X74 :: (X65 :: (X72 :: (X00 :: (X63 :: (X6c :: (X75 :: (X62 :: (X00 :: (X64 :: (X69 :: (X61 :: (X6d :: (X6f :: (X6e :: (X64 :: (X00 :: (X68 :: (X65 :: (X61 :: (X72 :: (X74 :: (X00 :: (X6d :: (X61 :: (X6c :: (X74 :: (X65 :: (X73 :: (X65 :: (X63 :: (X72 :: (X6f :: (X73 :: (X73 :: (X00 :: (X64 :: (X61 :: (X67 :: (X67 :: (X65 :: (X72 :: (X00 :: (X64 :: (X6f :: (X75 :: (X62 :: (X6c :: (X65 :: (X64 :: (X61 :: (X67 :: (X67 :: (X65 :: (X72 :: (X00 :: (X63 :: (X68 :: (X65 :: (X63 :: (X6b :: (X6d :: (X61 :: (X72 :: (X6b :: (X00 :: (X62 :: (X61 :: (X6c :: (X6c :: (X6f :: (X74 :: (X63 :: (X72 :: (X6f :: (X73 :: (X73 :: (X00 :: (X6d :: (X75 :: (X73 :: (X69 :: (X63 :: (X61 :: (X6c :: (X73 :: (X68 :: (X61 :: (X72 :: (X70 :: (X00 :: (X6d :: (X75 :: (X73 :: (X69 :: (X63 :: (X61 :: (X6c :: (X66 :: (X6c :: (X61 :: (X74 :: (X00 :: (X6d :: (X61 :: (X6c :: (X65 :: (X73 :: (X79 :: (X6d :: (X62 :: (X6f :: (X6c :: (X00 :: (X66 :: (X65 :: (X6d :: (X61 :: (X6c :: (X65 :: (X73 :: (X79 :: (X6d :: (X62 :: (X6f :: (X6c :: (X00 :: (X74 :: (X65 :: (X6c :: (X65 :: (X70 :: (X68 :: (X6f :: (X6e :: (X65 :: (X00 :: (X74 :: (X65 :: (X6c :: (X65 :: (X70 :: (X68 :: (X6f :: (X6e :: (X65 :: (X72 :: (X65 :: (X63 :: (X6f :: (X72 :: (X64 :: (X65 :: (X72 :: (X00 :: (X70 :: (X68 :: (X6f :: (X6e :: (X6f :: (X67 :: (X72 :: (X61 :: (X70 :: (X68 :: (X63 :: (X6f :: (X70 :: (X79 :: (X72 :: (X69 :: (X67 :: (X68 :: (X74 :: (X00 :: (X63 :: (X61 :: (X72 :: (X65 :: (X74 :: (X00 :: (X73 :: (X69 :: (X6e :: (X67 :: (X6c :: (X65 :: (X6c :: (X6f :: (X77 :: (X71 :: (X75 :: (X6f :: (X74 :: (X65 :: (X6d :: (X61 :: (X72 :: (X6b :: (X00 :: (X64 :: (X6f :: (X75 :: (X62 :: (X6c :: (X65 :: (X6c :: (X6f :: (X77 :: (X71 :: (X75 :: (X6f :: (X74 :: (X65 :: (X6d :: (X61 :: (X72 :: (X6b :: (X00 :: (X63 :: (X75 :: (X72 :: (X73 :: (X6f :: (X72 :: (X00 :: (X6c :: (X65 :: (X66 :: (X74 :: (X63 :: (X61 :: (X72 :: (X65 :: (X74 :: (X00 :: (X72 :: (X69 :: (X67 :: (X68 :: (X74 :: (X63 :: (X61 :: (X72 :: (X65 :: (X74 :: (X00 :: (X64 :: (X6f :: (X77 :: (X6e :: (X63 :: (X61 :: (X72 :: (X65 :: (X74 :: (X00 :: (X75 :: (X70 :: (X63 :: (X61 :: (X72 :: (X65 :: (X74 :: (X00 :: (X6f :: (X76 :: (X65 :: (X72 :: (X62 :: (X61 :: (X72 :: (X00 :: (X64 :: (X6f :: (X77 :: (X6e :: (X74 :: (X61 :: (X63 :: (X6b :: (X00 :: (X75 :: (X70 :: (X73 :: (X68 :: (X6f :: (X65 :: (X00 :: (X64 :: (X6f :: (X77 :: (X6e :: (X73 :: (X74 :: (X69 :: (X6c :: (X65 :: (X00 :: (X75 :: (X6e :: (X64 :: (X65 :: (X72 :: (X62 :: (X61 :: (X72 :: (X00 :: (X6a :: (X6f :: (X74 :: (X00 :: (X71 :: (X75 :: (X61 :: (X64 :: (X00 :: (X75 :: (X70 :: (X74 :: (X61 :: (X63 :: (X6b :: (X00 :: (X63 :: (X69 :: (X72 :: (X63 :: (X6c :: (X65 :: (X00 :: (X75 :: (X70 :: (X73 :: (X74 :: (X69 :: (X6c :: (X65 :: (X00 :: (X64 :: (X6f :: (X77 :: (X6e :: (X73 :: (X68 :: (X6f :: (X65 :: (X00 :: (X72 :: (X69 :: (X67 :: (X68 :: (X74 :: (X73 :: (X68 :: (X6f :: (X65 :: (X00 :: (X6c :: (X65 :: (X66 :: (X74 :: (X73 :: (X68 :: (X6f :: (X65 :: (X00 :: (X6c :: (X65 :: (X66 :: (X74 :: (X74 :: (X61 :: (X63 :: (X6b :: (X00 :: (X72 :: (X69 :: (X67 :: (X68 :: (X74 :: (X74 :: (X61 :: (X63 :: (X6b :: (X00 :: (X68 :: (X65 :: (X62 :: (X72 :: (X65 :: (X77 :: (X5f :: (X64 :: (X6f :: (X75 :: (X62 :: (X6c :: (X65 :: (X6c :: (X6f :: (X77 :: (X6c :: (X69 :: (X6e :: (X65 :: (X00 :: (X68 :: (X65 :: (X62 :: (X72 :: (X65 :: (X77 :: (X5f :: (X61 :: (X6c :: (X65 :: (X70 :: (X68 :: (X00 :: (X68 :: (X65 :: (X62 :: (X72 :: (X65 :: (X77 :: (X5f :: (X62 :: (X65 :: (X74 :: (X00 :: (X68 :: (X65 :: (X62 :: (X72 :: (X65 :: (X77 :: (X5f :: (X62 :: (X65 :: (X74 :: (X68 :: (X00 :: (X68 :: (X65 :: (X62 :: (X72 :: (X65 :: (X77 :: (X5f :: (X67 :: (X69 :: (X6d :: (X65 :: (X6c :: (X00 :: (X68 :: (X65 :: (X62 :: (X72 :: (X65 :: (X77 :: (X5f :: (X67 :: (X69 :: (X6d :: (X6d :: (X65 :: (X6c :: (X00 :: (X68 :: (X65 :: (X62 :: (X72 :: (X65 :: (X77 :: (X5f :: (X64 :: (X61 :: (X6c :: (X65 :: (X74 :: (X00 :: (X68 :: (X65 :: (X62 :: (X72 :: (X65 :: (X77 :: (X5f :: (X64 :: (X61 :: (X6c :: (X65 :: (X74 :: (X68 :: (X00 :: (X68 :: (X65 :: (X62 :: (X72 :: (X65 :: (X77 :: (X5f :: (X68 :: (X65 :: (X00 :: (X68 :: (X65 :: (X62 :: (X72 :: (X65 :: (X77 :: (X5f :: (X77 :: (X61 :: (X77 :: (X00 :: (X68 :: (X65 :: (X62 :: (X72 :: (X65 :: (X77 :: (X5f :: (X7a :: (X61 :: (X69 :: (X6e :: (X00 :: (X68 :: (X65 :: (X62 :: (X72 :: (X65 :: (X77 :: (X5f :: (X7a :: (X61 :: (X79 :: (X69 :: (X6e :: (X00 :: (X68 :: (X65 :: (X62 :: (X72 :: (X65 :: (X77 :: (X5f :: (X63 :: (X68 :: (X65 :: (X74 :: (X00 :: (X68 :: (X65 :: (X62 :: (X72 :: (X65 :: (X77 :: (X5f :: (X68 :: (X65 :: (X74 :: (X00 :: (X68 :: (X65 :: (X62 :: (X72 :: (X65 :: (X77 :: (X5f :: (X74 :: (X65 :: (X74 :: (X00 :: (X68 :: (X65 :: (X62 :: (X72 :: (X65 :: (X77 :: (X5f :: (X74 :: (X65 :: (X74 :: (X68 :: (X00 :: (X68 :: (X65 :: (X62 :: (X72 :: (X65 :: (X77 :: (X5f :: (X79 :: (X6f :: (X64 :: (X00 :: (X68 :: (X65 :: (X62 :: (X72 :: (X65 :: (X77 :: (X5f :: (X66 :: (X69 :: (X6e :: (X61 :: (X6c :: (X6b :: (X61 :: (X70 :: (X68 :: (X00 :: (X68 :: (X65 :: (X62 :: (X72 :: (X65 :: (X77 :: (X5f :: (X6b :: (X61 :: (X70 :: (X68 :: (X00 :: (X68 :: (X65 :: (X62 :: (X72 :: (X65 :: (X77 :: (X5f :: (X6c :: (X61 :: (X6d :: (X65 :: (X64 :: (X00 :: (X68 :: (X65 :: (X62 :: (X72 :: (X65 :: (X77 :: (X5f :: (X66 :: (X69 :: (X6e :: (X61 :: (X6c :: (X6d :: (X65 :: (X6d :: (X00 :: (X68 :: (X65 :: (X62 :: (X72 :: (X65 :: (X77 :: (X5f :: (X6d :: (X65 :: (X6d :: (X00 :: (X68 :: (X65 :: (X62 :: (X72 :: (X65 :: (X77 :: (X5f :: (X66 :: (X69 :: (X6e :: (X61 :: (X6c :: (X6e :: (X75 :: (X6e :: (X00 :: (X68 :: (X65 :: (X62 :: (X72 :: (X65 :: (X77 :: (X5f :: (X6e :: (X75 :: (X6e :: (X00 :: (X68 :: (X65 :: (X62 :: (X72 :: (X65 :: (X77 :: (X5f :: (X73 :: (X61 :: (X6d :: (X65 :: (X63 :: (X68 :: (X00 :: (X68 :: (X65 :: (X62 :: (X72 :: (X65 :: (X77 :: (X5f :: (X73 :: (X61 :: (X6d :: (X65 :: (X6b :: (X68 :: (X00 :: (X68 :: (X65 :: (X62 :: (X72 :: (X65 :: (X77 :: (X5f :: (X61 :: (X79 :: (X69 :: (X6e :: (X00 :: (X68 :: (X65 :: (X62 :: (X72 :: (X65 :: (X77 :: (X5f :: (X66 :: (X69 :: (X6e :: (X61 :: (X6c :: (X70 :: (X65 :: (X00 :: (X68 :: (X65 :: (X62 :: (X72 :: (X65 :: (X77 :: (X5f :: (X70 :: (X65 :: (X00 :: (X68 :: (X65 :: (X62 :: (X72 :: (X65 :: (X77 :: (X5f :: (X66 :: (X69 :: (X6e :: (X61 :: (X6c :: (X7a :: (X61 :: (X64 :: (X65 :: (X00 :: (X68 :: (X65 :: (X62 :: (X72 :: (X65 :: (X77 :: (X5f :: (X66 :: (X69 :: (X6e :: (X61 :: (X6c :: (X7a :: (X61 :: (X64 :: (X69 :: (X00 :: (X68 :: (X65 :: (X62 :: (X72 :: (X65 :: (X77 :: (X5f :: (X7a :: (X61 :: (X64 :: (X65 :: (X00 :: (X68 :: (X65 :: (X62 :: (X72 :: (X65 :: (X77 :: (X5f :: (X7a :: (X61 :: (X64 :: (X69 :: (X00 :: (X68 :: (X65 :: (X62 :: (X72 :: (X65 :: (X77 :: (X5f :: (X6b :: (X75 :: (X66 :: (X00 :: (X68 :: (X65 :: (X62 :: (X72 :: (X65 :: (X77 :: (X5f :: (X71 :: (X6f :: (X70 :: (X68 :: (X00 :: (X68 :: (X65 :: (X62 :: (X72 :: (X65 :: (X77 :: (X5f :: (X72 :: (X65 :: (X73 :: (X68 :: (X00 :: (X68 :: (X65 :: (X62 :: (X72 :: (X65 :: (X77 :: (X5f :: (X73 :: (X68 :: (X69 :: (X6e :: (X00 :: (X68 :: (X65 :: (X62 :: (X72 :: (X65 :: (X77 :: (X5f :: (X74 :: (X61 :: (X66 :: (X00 :: (X68 :: (X65 :: (X62 :: (X72 :: (X65 :: (X77 :: (X5f :: (X74 :: (X61 :: (X77 :: (X00 :: (X54 :: (X68 :: (X61 :: (X69 :: (X5f :: (X6b :: (X6f :: (X6b :: (X61 :: (X69 :: (X00 :: (X54 :: (X68 :: (X61 :: (X69 :: (X5f :: (X6b :: (X68 :: (X6f :: (X6b :: (X68 :: (X61 :: (X69 :: (X00 :: (X54 :: (X68 :: (X61 :: (X69 :: (X5f :: (X6b :: (X68 :: (X6f :: (X6b :: (X68 :: (X75 :: (X61 :: (X74 :: (X00 :: (X54 :: (X68 :: (X61 :: (X69 :: (X5f :: (X6b :: (X68 :: (X6f :: (X6b :: (X68 :: (X77 :: (X61 :: (X69 :: (X00 :: (X54 :: (X68 :: (X61 :: (X69 :: (X5f :: (X6b :: (X68 :: (X6f :: (X6b :: (X68 :: (X6f :: (X6e :: (X00 :: (X54 :: (X68 :: (X61 :: (X69 :: (X5f :: (X6b :: (X68 :: (X6f :: (X72 :: (X61 :: (X6b :: (X68 :: (X61 :: (X6e :: (X67 :: (X00 :: (X54 :: (X68 :: (X61 :: (X69 :: (X5f :: (X6e :: (X67 :: (X6f :: (X6e :: (X67 :: (X75 :: (X00 :: (X54 :: (X68 :: (X61 :: (X69 :: (X5f :: (X63 :: (X68 :: (X6f :: (X63 :: (X68 :: (X61 :: (X6e :: (X00 :: (X54 :: (X68 :: (X61 :: (X69 :: (X5f :: (X63 :: (X68 :: (X6f :: (X63 :: (X68 :: (X69 :: (X6e :: (X67 :: (X00 :: (X54 :: (X68 :: (X61 :: (X69 :: (X5f :: (X63 :: (X68 :: (X6f :: (X63 :: (X68 :: (X61 :: (X6e :: (X67 :: (X00 :: (X54 :: (X68 :: (X61 :: (X69 :: (X5f :: (X73 :: (X6f :: (X73 :: (X6f :: (X00 :: (X54 :: (X68 :: (X61 :: (X69 :: (X5f :: (X63 :: (X68 :: (X6f :: (X63 :: (X68 :: (X6f :: (X65 :: (X00 :: (X54 :: (X68 :: (X61 :: (X69 :: (X5f :: (X79 :: (X6f :: (X79 :: (X69 :: (X6e :: (X67 :: (X00 :: (X54 :: (X68 :: (X61 :: (X69 :: (X5f :: (X64 :: (X6f :: (X63 :: (X68 :: (X61 :: (X64 :: (X61 :: (X00 :: (X54 :: (X68 :: (X61 :: (X69 :: (X5f :: (X74 :: (X6f :: (X70 :: (X61 :: (X74 :: (X61 :: (X6b :: (X00 :: (X54 :: (X68 :: (X61 :: (X69 :: (X5f :: (X74 :: (X68 :: (X6f :: (X74 :: (X68 :: (X61 :: (X6e :: (X00 :: (X54 :: (X68 :: (X61 :: (X69 :: (X5f :: (X74 :: (X68 :: (X6f :: (X6e :: (X61 :: (X6e :: (X67 :: (X6d :: (X6f :: (X6e :: (X74 :: (X68 :: (X6f :: (X00 :: (X54 :: (X68 :: (X61 :: (X69 :: (X5f :: (X74 :: (X68 :: (X6f :: (X70 :: (X68 :: (X75 :: (X74 :: (X68 :: (X61 :: (X6f :: (X00 :: (X54 :: (X68 :: (X61 :: (X69 :: (X5f :: (X6e :: (X6f :: (X6e :: (X65 :: (X6e :: (X00 :: (X54 :: (X68 :: (X61 :: (X69 :: (X5f :: (X64 :: (X6f :: (X64 :: (X65 :: (X6b :: (X00 :: (X54 :: (X68 :: (X61 :: (X69 :: (X5f :: (X74 :: (X6f :: (X74 :: (X61 :: (X6f :: (X00 :: (X54 :: (X68 :: (X61 :: (X69 :: (X5f :: (X74 :: (X68 :: (X6f :: (X74 :: (X68 :: (X75 :: (X6e :: (X67 :: (X00 :: (X54 :: (X68 :: (X61 :: (X69 :: (X5f :: (X74 :: (X68 :: (X6f :: (X74 :: (X68 :: (X61 :: (X68 :: (X61 :: (X6e :: (X00 :: (X54 :: (X68 :: (X61 :: (X69 :: (X5f :: (X74 :: (X68 :: (X6f :: (X74 :: (X68 :: (X6f :: (X6e :: (X67 :: (X00 :: (X54 :: (X68 :: (X61 :: (X69 :: (X5f :: (X6e :: (X6f :: (X6e :: (X75 :: (X00 :: (X54 :: (X68 :: (X61 :: (X69 :: (X5f :: (X62 :: (X6f :: (X62 :: (X61 :: (X69 :: (X6d :: (X61 :: (X69 :: (X00 :: (X54 :: (X68 :: (X61 :: (X69 :: (X5f :: (X70 :: (X6f :: (X70 :: (X6c :: (X61 :: (X00 :: (X54 :: (X68 :: (X61 :: (X69 :: (X5f :: (X70 :: (X68 :: (X6f :: (X70 :: (X68 :: (X75 :: (X6e :: (X67 :: (X00 :: (X54 :: (X68 :: (X61 :: (X69 :: (X5f :: (X66 :: (X6f :: (X66 :: (X61 :: (X00 :: (X54 :: (X68 :: (X61 :: (X69 :: (X5f :: (X70 :: (X68 :: (X6f :: (X70 :: (X68 :: (X61 :: (X6e :: (X00 :: (X54 :: (X68 :: (X61 :: (X69 :: (X5f :: (X66 :: (X6f :: (X66 :: (X61 :: (X6e :: (X00 :: (X54 :: (X68 :: (X61 :: (X69 :: (X5f :: (X70 :: (X68 :: (X6f :: (X73 :: (X61 :: (X6d :: (X70 :: (X68 :: (X61 :: (X6f :: (X00 :: (X54 :: (X68 :: (X61 :: (X69 :: (X5f :: (X6d :: (X6f :: (X6d :: (X61 :: (X00 :: (X54 :: (X68 :: (X61 :: (X69 :: (X5f :: (X79 :: (X6f :: (X79 :: (X61 :: (X6b :: (X00 :: (X54 :: (X68 :: (X61 :: (X69 :: (X5f :: (X72 :: (X6f :: (X72 :: (X75 :: (X61 :: (X00 :: (X54 :: (X68 :: (X61 :: (X69 :: (X5f :: (X72 :: (X75 :: (X00 :: (X54 :: (X68 :: (X61 :: (X69 :: (X5f :: (X6c :: (X6f :: (X6c :: (X69 :: (X6e :: (X67 :: (X00 :: (X54 :: (X68 :: (X61 :: (X69 :: (X5f :: (X6c :: (X75 :: (X00 :: (X54 :: (X68 :: (X61 :: (X69 :: (X5f :: (X77 :: (X6f :: (X77 :: (X61 :: (X65 :: (X6e :: (X00 :: (X54 :: (X68 :: (X61 :: (X69 :: (X5f :: (X73 :: (X6f :: (X73 :: (X61 :: (X6c :: (X61 :: (X00 :: (X54 :: (X68 :: (X61 :: (X69 :: (X5f :: (X73 :: (X6f :: (X72 :: (X75 :: (X73 :: (X69 :: (X00 :: (X54 :: (X68 :: (X61 :: (X69 :: (X5f :: (X73 :: (X6f :: (X73 :: (X75 :: (X61 :: (X00 :: (X54 :: (X68 :: (X61 :: (X69 :: (X5f :: (X68 :: (X6f :: (X68 :: (X69 :: (X70 :: (X00 :: (X54 :: (X68 :: (X61 :: (X69 :: (X5f :: (X6c :: (X6f :: (X63 :: (X68 :: (X75 :: (X6c :: (X61 :: (X00 :: (X54 :: (X68 :: (X61 :: (X69 :: (X5f :: (X6f :: (X61 :: (X6e :: (X67 :: (X00 :: (X54 :: (X68 :: (X61 :: (X69 :: (X5f :: (X68 :: (X6f :: (X6e :: (X6f :: (X6b :: (X68 :: (X75 :: (X6b :: (X00 :: (X54 :: (X68 :: (X61 :: (X69 :: (X5f :: (X70 :: (X61 :: (X69 :: (X79 :: (X61 :: (X6e :: (X6e :: (X6f :: (X69 :: (X00 :: (X54 :: (X68 :: (X61 :: (X69 :: (X5f :: (X73 :: (X61 :: (X72 :: (X61 :: (X61 :: (X00 :: (X54 :: (X68 :: (X61 :: (X69 :: (X5f :: (X6d :: (X61 :: (X69 :: (X68 :: (X61 :: (X6e :: (X61 :: (X6b :: (X61 :: (X74 :: (X00 :: (X54 :: (X68 :: (X61 :: (X69 :: (X5f :: (X73 :: (X61 :: (X72 :: (X61 :: (X61 :: (X61 :: (X00 :: (X54 :: (X68 :: (X61 :: (X69 :: (X5f :: (X73 :: (X61 :: (X72 :: (X61 :: (X61 :: (X6d :: (X00 :: (X54 :: (X68 :: (X61 :: (X69 :: (X5f :: (X73 :: (X61 :: (X72 :: (X61 :: (X69 :: (X00 :: (X54 :: (X68 :: (X61 :: (X69 :: (X5f :: (X73 :: (X61 :: (X72 :: (X61 :: (X69 :: (X69 :: (X00 :: (X54 :: (X68 :: (X61 :: (X69 :: (X5f :: (X73 :: (X61 :: (X72 :: (X61 :: (X75 :: (X65 :: (X00 :: (X54 :: (X68 :: (X61 :: (X69 :: (X5f :: (X73 :: (X61 :: (X72 :: (X61 :: (X75 :: (X65 :: (X65 :: (X00 :: (X54 :: (X68 :: (X61 :: (X69 :: (X5f :: (X73 :: (X61 :: (X72 :: (X61 :: (X75 :: (X00 :: (X54 :: (X68 :: (X61 :: (X69 :: (X5f :: (X73 :: (X61 :: (X72 :: (X61 :: (X75 :: (X75 :: (X00 :: (X54 :: (X68 :: (X61 :: (X69 :: (X5f :: (X70 :: (X68 :: (X69 :: (X6e :: (X74 :: (X68 :: (X75 :: (X00 :: (X54 :: (X68 :: (X61 :: (X69 :: (X5f :: (X6d :: (X61 :: (X69 :: (X68 :: (X61 :: (X6e :: (X61 :: (X6b :: (X61 :: (X74 :: (X5f :: (X6d :: (X61 :: (X69 :: (X74 :: (X68 :: (X6f :: (X00 :: (X54 :: (X68 :: (X61 :: (X69 :: (X5f :: (X62 :: (X61 :: (X68 :: (X74 :: (X00 :: (X54 :: (X68 :: (X61 :: (X69 :: (X5f :: (X73 :: (X61 :: (X72 :: (X61 :: (X65 :: (X00 :: (X54 :: (X68 :: (X61 :: (X69 :: (X5f :: (X73 :: (X61 :: (X72 :: (X61 :: (X61 :: (X65 :: (X00 :: (X54 :: (X68 :: (X61 :: (X69 :: (X5f :: (X73 :: (X61 :: (X72 :: (X61 :: (X6f :: (X00 :: (X54 :: (X68 :: (X61 :: (X69 :: (X5f :: (X73 :: (X61 :: (X72 :: (X61 :: (X61 :: (X69 :: (X6d :: (X61 :: (X69 :: (X6d :: (X75 :: (X61 :: (X6e :: (X00 :: (X54 :: (X68 :: (X61 :: (X69 :: (X5f :: (X73 :: (X61 :: (X72 :: (X61 :: (X61 :: (X69 :: (X6d :: (X61 :: (X69 :: (X6d :: (X61 :: (X6c :: (X61 :: (X69 :: (X00 :: (X54 :: (X68 :: (X61 :: (X69 :: (X5f :: (X6c :: (X61 :: (X6b :: (X6b :: (X68 :: (X61 :: (X6e :: (X67 :: (X79 :: (X61 :: (X6f :: (X00 :: (X54 :: (X68 :: (X61 :: (X69 :: (X5f :: (X6d :: (X61 :: (X69 :: (X79 :: (X61 :: (X6d :: (X6f :: (X6b :: (X00 :: (X54 :: (X68 :: (X61 :: (X69 :: (X5f :: (X6d :: (X61 :: (X69 :: (X74 :: (X61 :: (X69 :: (X6b :: (X68 :: (X75 :: (X00 :: (X54 :: (X68 :: (X61 :: (X69 :: (X5f :: (X6d :: (X61 :: (X69 :: (X65 :: (X6b :: (X00 :: (X54 :: (X68 :: (X61 :: (X69 :: (X5f :: (X6d :: (X61 :: (X69 :: (X74 :: (X68 :: (X6f :: (X00 :: (X54 :: (X68 :: (X61 :: (X69 :: (X5f :: (X6d :: (X61 :: (X69 :: (X74 :: (X72 :: (X69 :: (X00 :: (X54 :: (X68 :: (X61 :: (X69 :: (X5f :: (X6d :: (X61 :: (X69 :: (X63 :: (X68 :: (X61 :: (X74 :: (X74 :: (X61 :: (X77 :: (X61 :: (X00 :: (X54 :: (X68 :: (X61 :: (X69 :: (X5f :: (X74 :: (X68 :: (X61 :: (X6e :: (X74 :: (X68 :: (X61 :: (X6b :: (X68 :: (X61 :: (X74 :: (X00 :: (X54 :: (X68 :: (X61 :: (X69 :: (X5f :: (X6e :: (X69 :: (X6b :: (X68 :: (X61 :: (X68 :: (X69 :: (X74 :: (X00 :: (X54 :: (X68 :: (X61 :: (X69 :: (X5f :: (X6c :: (X65 :: (X6b :: (X73 :: (X75 :: (X6e :: (X00 :: (X54 :: (X68 :: (X61 :: (X69 :: (X5f :: (X6c :: (X65 :: (X6b :: (X6e :: (X75 :: (X6e :: (X67 :: (X00 :: (X54 :: (X68 :: (X61 :: (X69 :: (X5f :: (X6c :: (X65 :: (X6b :: (X73 :: (X6f :: (X6e :: (X67 :: (X00 :: (X54 :: (X68 :: (X61 :: (X69 :: (X5f :: (X6c :: (X65 :: (X6b :: (X73 :: (X61 :: (X6d :: (X00 :: (X54 :: (X68 :: (X61 :: (X69 :: (X5f :: (X6c :: (X65 :: (X6b :: (X73 :: (X69 :: (X00 :: (X54 :: (X68 :: (X61 :: (X69 :: (X5f :: (X6c :: (X65 :: (X6b :: (X68 :: (X61 :: (X00 :: (X54 :: (X68 :: (X61 :: (X69 :: (X5f :: (X6c :: (X65 :: (X6b :: (X68 :: (X6f :: (X6b :: (X00 :: (X54 :: (X68 :: (X61 :: (X69 :: (X5f :: (X6c :: (X65 :: (X6b :: (X63 :: (X68 :: (X65 :: (X74 :: (X00 :: (X54 :: (X68 :: (X61 :: (X69 :: (X5f :: (X6c :: (X65 :: (X6b :: (X70 :: (X61 :: (X65 :: (X74 :: (X00 :: (X54 :: (X68 :: (X61 :: (X69 :: (X5f :: (X6c :: (X65 :: (X6b :: (X6b :: (X61 :: (X6f :: (X00 :: (X48 :: (X61 :: (X6e :: (X67 :: (X75 :: (X6c :: (X5f :: (X4b :: (X69 :: (X79 :: (X65 :: (X6f :: (X67 :: (X00 :: (X48 :: (X61 :: (X6e :: (X67 :: (X75 :: (X6c :: (X5f :: (X53 :: (X73 :: (X61 :: (X6e :: (X67 :: (X4b :: (X69 :: (X79 :: (X65 :: (X6f :: (X67 :: (X00 :: (X48 :: (X61 :: (X6e :: (X67 :: (X75 :: (X6c :: (X5f :: (X4b :: (X69 :: (X79 :: (X65 :: (X6f :: (X67 :: (X53 :: (X69 :: (X6f :: (X73 :: (X00 :: (X48 :: (X61 :: (X6e :: (X67 :: (X75 :: (X6c :: (X5f :: (X4e :: (X69 :: (X65 :: (X75 :: (X6e :: (X00 :: (X48 :: (X61 :: (X6e :: (X67 :: (X75 :: (X6c :: (X5f :: (X4e :: (X69 :: (X65 :: (X75 :: (X6e :: (X4a :: (X69 :: (X65 :: (X75 :: (X6a :: (X00 :: (X48 :: (X61 :: (X6e :: (X67 :: (X75 :: (X6c :: (X5f :: (X4e :: (X69 :: (X65 :: (X75 :: (X6e :: (X48 :: (X69 :: (X65 :: (X75 :: (X68 :: (X00 :: (X48 :: (X61 :: (X6e :: (X67 :: (X75 :: (X6c :: (X5f :: (X44 :: (X69 :: (X6b :: (X65 :: (X75 :: (X64 :: (X00 :: (X48 :: (X61 :: (X6e :: (X67 :: (X75 :: (X6c :: (X5f :: (X53 :: (X73 :: (X61 :: (X6e :: (X67 :: (X44 :: (X69 :: (X6b :: (X65 :: (X75 :: (X64 :: (X00 :: (X48 :: (X61 :: (X6e :: (X67 :: (X75 :: (X6c :: (X5f :: (X52 :: (X69 :: (X65 :: (X75 :: (X6c :: (X00 :: (X48 :: (X61 :: (X6e :: (X67 :: (X75 :: (X6c :: (X5f :: (X52 :: (X69 :: (X65 :: (X75 :: (X6c :: (X4b :: (X69 :: (X79 :: (X65 :: (X6f :: (X67 :: (X00 :: (X48 :: (X61 :: (X6e :: (X67 :: (X75 :: (X6c :: (X5f :: (X52 :: (X69 :: (X65 :: (X75 :: (X6c :: (X4d :: (X69 :: (X65 :: (X75 :: (X6d :: (X00 :: (X48 :: (X61 :: (X6e :: (X67 :: (X75 :: (X6c :: (X5f :: (X52 :: (X69 :: (X65 :: (X75 :: (X6c :: (X50 :: (X69 :: (X65 :: (X75 :: (X62 :: (X00 :: (X48 :: (X61 :: (X6e :: (X67 :: (X75 :: (X6c :: (X5f :: (X52 :: (X69 :: (X65 :: (X75 :: (X6c :: (X53 :: (X69 :: (X6f :: (X73 :: (X00 :: (X48 :: (X61 :: (X6e :: (X67 :: (X75 :: (X6c :: (X5f :: (X52 :: (X69 :: (X65 :: (X75 :: (X6c :: (X54 :: (X69 :: (X65 :: (X75 :: (X74 :: (X00 :: (X48 :: (X61 :: (X6e :: (X67 :: (X75 :: (X6c :: (X5f :: (X52 :: (X69 :: (X65 :: (X75 :: (X6c :: (X50 :: (X68 :: (X69 :: (X65 :: (X75 :: (X66 :: (X00 :: (X48 :: (X61 :: (X6e :: (X67 :: (X75 :: (X6c :: (X5f :: (X52 :: (X69 :: (X65 :: (X75 :: (X6c :: (X48 :: (X69 :: (X65 :: (X75 :: (X68 :: (X00 :: (X48 :: (X61 :: (X6e :: (X67 :: (X75 :: (X6c :: (X5f :: (X4d :: (X69 :: (X65 :: (X75 :: (X6d :: (X00 :: (X48 :: (X61 :: (X6e :: (X67 :: (X75 :: (X6c :: (X5f :: (X50 :: (X69 :: (X65 :: (X75 :: (X62 :: (X00 :: (X48 :: (X61 :: (X6e :: (X67 :: (X75 :: (X6c :: (X5f :: (X53 :: (X73 :: (X61 :: (X6e :: (X67 :: (X50 :: (X69 :: (X65 :: (X75 :: (X62 :: (X00 :: (X48 :: (X61 :: (X6e :: (X67 :: (X75 :: (X6c :: (X5f :: (X50 :: (X69 :: (X65 :: (X75 :: (X62 :: (X53 :: (X69 :: (X6f :: (X73 :: (X00 :: (X48 :: (X61 :: (X6e :: (X67 :: (X75 :: (X6c :: (X5f :: (X53 :: (X69 :: (X6f :: (X73 :: (X00 :: (X48 :: (X61 :: (X6e :: (X67 :: (X75 :: (X6c :: (X5f :: (X53 :: (X73 :: (X61 :: (X6e :: (X67 :: (X53 :: (X69 :: (X6f :: (X73 :: (X00 :: (X48 :: (X61 :: (X6e :: (X67 :: (X75 :: (X6c :: (X5f :: (X49 :: (X65 :: (X75 :: (X6e :: (X67 :: (X00 :: (X48 :: (X61 :: (X6e :: (X67 :: (X75 :: (X6c :: (X5f :: (X4a :: (X69 :: (X65 :: (X75 :: (X6a :: (X00 :: (X48 :: (X61 :: (X6e :: (X67 :: (X75 :: (X6c :: (X5f :: (X53 :: (X73 :: (X61 :: (X6e :: (X67 :: (X4a :: (X69 :: (X65 :: (X75 :: (X6a :: (X00 :: (X48 :: (X61 :: (X6e :: (X67 :: (X75 :: (X6c :: (X5f :: (X43 :: (X69 :: (X65 :: (X75 :: (X63 :: (X00 :: (X48 :: (X61 :: (X6e :: (X67 :: (X75 :: (X6c :: (X5f :: (X4b :: (X68 :: (X69 :: (X65 :: (X75 :: (X71 :: (X00 :: (X48 :: (X61 :: (X6e :: (X67 :: (X75 :: (X6c :: (X5f :: (X54 :: (X69 :: (X65 :: (X75 :: (X74 :: (X00 :: (X48 :: (X61 :: (X6e :: (X67 :: (X75 :: (X6c :: (X5f :: (X50 :: (X68 :: (X69 :: (X65 :: (X75 :: (X66 :: (X00 :: (X48 :: (X61 :: (X6e :: (X67 :: (X75 :: (X6c :: (X5f :: (X48 :: (X69 :: (X65 :: (X75 :: (X68 :: (X00 :: (X48 :: (X61 :: (X6e :: (X67 :: (X75 :: (X6c :: (X5f :: (X41 :: (X00 :: (X48 :: (X61 :: (X6e :: (X67 :: (X75 :: (X6c :: (X5f :: (X41 :: (X45 :: (X00 :: (X48 :: (X61 :: (X6e :: (X67 :: (X75 :: (X6c :: (X5f :: (X59 :: (X41 :: (X00 :: (X48 :: (X61 :: (X6e :: (X67 :: (X75 :: (X6c :: (X5f :: (X59 :: (X41 :: (X45 :: (X00 :: (X48 :: (X61 :: (X6e :: (X67 :: (X75 :: (X6c :: (X5f :: (X45 :: (X4f :: (X00 :: (X48 :: (X61 :: (X6e :: (X67 :: (X75 :: (X6c :: (X5f :: (X45 :: (X00 :: (X48 :: (X61 :: (X6e :: (X67 :: (X75 :: (X6c :: (X5f :: (X59 :: (X45 :: (X4f :: (X00 :: (X48 :: (X61 :: (X6e :: (X67 :: (X75 :: (X6c :: (X5f :: (X59 :: (X45 :: (X00 :: (X48 :: (X61 :: (X6e :: (X67 :: (X75 :: (X6c :: (X5f :: (X4f :: (X00 :: (X48 :: (X61 :: (X6e :: (X67 :: (X75 :: (X6c :: (X5f :: (X57 :: (X41 :: (X00 :: (X48 :: (X61 :: (X6e :: (X67 :: (X75 :: (X6c :: (X5f :: (X57 :: (X41 :: (X45 :: (X00 :: (X48 :: (X61 :: (X6e :: (X67 :: (X75 :: (X6c :: (X5f :: (X4f :: (X45 :: (X00 :: (X48 :: (X61 :: (X6e :: (X67 :: (X75 :: (X6c :: (X5f :: (X59 :: (X4f :: (X00 :: (X48 :: (X61 :: (X6e :: (X67 :: (X75 :: (X6c :: (X5f :: (X55 :: (X00 :: (X48 :: (X61 :: (X6e :: (X67 :: (X75 :: (X6c :: (X5f :: (X57 :: (X45 :: (X4f :: (X00 :: (X48 :: (X61 :: (X6e :: (X67 :: (X75 :: (X6c :: (X5f :: (X57 :: (X45 :: (X00 :: (X48 :: (X61 :: (X6e :: (X67 :: (X75 :: (X6c :: (X5f :: (X57 :: (X49 :: (X00 :: (X48 :: (X61 :: (X6e :: (X67 :: (X75 :: (X6c :: (X5f :: (X59 :: (X55 :: (X00 :: (X48 :: (X61 :: (X6e :: (X67 :: (X75 :: (X6c :: (X5f :: (X45 :: (X55 :: (X00 :: (X48 :: (X61 :: (X6e :: (X67 :: (X75 :: (X6c :: (X5f :: (X59 :: (X49 :: (X00 :: (X48 :: (X61 :: (X6e :: (X67 :: (X75 :: (X6c :: (X5f :: (X49 :: (X00 :: (X48 :: (X61 :: (X6e :: (X67 :: (X75 :: (X6c :: (X5f :: (X4a :: (X5f :: (X4b :: (X69 :: (X79 :: (X65 :: (X6f :: (X67 :: (X00 :: (X48 :: (X61 :: (X6e :: (X67 :: (X75 :: (X6c :: (X5f :: (X4a :: (X5f :: (X53 :: (X73 :: (X61 :: (X6e :: (X67 :: (X4b :: (X69 :: (X79 :: (X65 :: (X6f :: (X67 :: (X00 :: (X48 :: (X61 :: (X6e :: (X67 :: (X75 :: (X6c :: (X5f :: (X4a :: (X5f :: (X4b :: (X69 :: (X79 :: (X65 :: (X6f :: (X67 :: (X53 :: (X69 :: (X6f :: (X73 :: (X00 :: (X48 :: (X61 :: (X6e :: (X67 :: (X75 :: (X6c :: (X5f :: (X4a :: (X5f :: (X4e :: (X69 :: (X65 :: (X75 :: (X6e :: (X00 :: (X48 :: (X61 :: (X6e :: (X67 :: (X75 :: (X6c :: (X5f :: (X4a :: (X5f :: (X4e :: (X69 :: (X65 :: (X75 :: (X6e :: (X4a :: (X69 :: (X65 :: (X75 :: (X6a :: (X00 :: (X48 :: (X61 :: (X6e :: (X67 :: (X75 :: (X6c :: (X5f :: (X4a :: (X5f :: (X4e :: (X69 :: (X65 :: (X75 :: (X6e :: (X48 :: (X69 :: (X65 :: (X75 :: (X68 :: (X00 :: (X48 :: (X61 :: (X6e :: (X67 :: (X75 :: (X6c :: (X5f :: (X4a :: (X5f :: (X44 :: (X69 :: (X6b :: (X65 :: (X75 :: (X64 :: (X00 :: (X48 :: (X61 :: (X6e :: (X67 :: (X75 :: (X6c :: (X5f :: (X4a :: (X5f :: (X52 :: (X69 :: (X65 :: (X75 :: (X6c :: (X00 :: (X48 :: (X61 :: (X6e :: (X67 :: (X75 :: (X6c :: (X5f :: (X4a :: (X5f :: (X52 :: (X69 :: (X65 :: (X75 :: (X6c :: (X4b :: (X69 :: (X79 :: (X65 :: (X6f :: (X67 :: (X00 :: (X48 :: (X61 :: (X6e :: (X67 :: (X75 :: (X6c :: (X5f :: (X4a :: (X5f :: (X52 :: (X69 :: (X65 :: (X75 :: (X6c :: (X4d :: (X69 :: (X65 :: (X75 :: (X6d :: (X00 :: (X48 :: (X61 :: (X6e :: (X67 :: (X75 :: (X6c :: (X5f :: (X4a :: (X5f :: (X52 :: (X69 :: (X65 :: (X75 :: (X6c :: (X50 :: (X69 :: (X65 :: (X75 :: (X62 :: (X00 :: (X48 :: (X61 :: (X6e :: (X67 :: (X75 :: (X6c :: (X5f :: (X4a :: (X5f :: (X52 :: (X69 :: (X65 :: (X75 :: (X6c :: (X53 :: (X69 :: (X6f :: (X73 :: (X00 :: (X48 :: (X61 :: (X6e :: (X67 :: (X75 :: (X6c :: (X5f :: (X4a :: (X5f :: (X52 :: (X69 :: (X65 :: (X75 :: (X6c :: (X54 :: (X69 :: (X65 :: (X75 :: (X74 :: (X00 :: (X48 :: (X61 :: (X6e :: (X67 :: (X75 :: (X6c :: (X5f :: (X4a :: (X5f :: (X52 :: (X69 :: (X65 :: (X75 :: (X6c :: (X50 :: (X68 :: (X69 :: (X65 :: (X75 :: (X66 :: (X00 :: (X48 :: (X61 :: (X6e :: (X67 :: (X75 :: (X6c :: (X5f :: (X4a :: (X5f :: (X52 :: (X69 :: (X65 :: (X75 :: (X6c :: (X48 :: (X69 :: (X65 :: (X75 :: (X68 :: (X00 :: (X48 :: (X61 :: (X6e :: (X67 :: (X75 :: (X6c :: (X5f :: (X4a :: (X5f :: (X4d :: (X69 :: (X65 :: (X75 :: (X6d :: (X00 :: (X48 :: (X61 :: (X6e :: (X67 :: (X75 :: (X6c :: (X5f :: (X4a :: (X5f :: (X50 :: (X69 :: (X65 :: (X75 :: (X62 :: (X00 :: (X48 :: (X61 :: (X6e :: (X67 :: (X75 :: (X6c :: (X5f :: (X4a :: (X5f :: (X50 :: (X69 :: (X65 :: (X75 :: (X62 :: (X53 :: (X69 :: (X6f :: (X73 :: (X00 :: (X48 :: (X61 :: (X6e :: (X67 :: (X75 :: (X6c :: (X5f :: (X4a :: (X5f :: (X53 :: (X69 :: (X6f :: (X73 :: (X00 :: (X48 :: (X61 :: (X6e :: (X67 :: (X75 :: (X6c :: (X5f :: (X4a :: (X5f :: (X53 :: (X73 :: (X61 :: (X6e :: (X67 :: (X53 :: (X69 :: (X6f :: (X73 :: (X00 :: (X48 :: (X61 :: (X6e :: (X67 :: (X75 :: (X6c :: (X5f :: (X4a :: (X5f :: (X49 :: (X65 :: (X75 :: (X6e :: (X67 :: (X00 :: (X48 :: (X61 :: (X6e :: (X67 :: (X75 :: (X6c :: (X5f :: (X4a :: (X5f :: (X4a :: (X69 :: (X65 :: (X75 :: (X6a :: (X00 :: (X48 :: (X61 :: (X6e :: (X67 :: (X75 :: (X6c :: (X5f :: (X4a :: (X5f :: (X43 :: (X69 :: (X65 :: (X75 :: (X63 :: (X00 :: (X48 :: (X61 :: (X6e :: (X67 :: (X75 :: (X6c :: (X5f :: (X4a :: (X5f :: (X4b :: (X68 :: (X69 :: (X65 :: (X75 :: (X71 :: (X00 :: (X48 :: (X61 :: (X6e :: (X67 :: (X75 :: (X6c :: (X5f :: (X4a :: (X5f :: (X54 :: (X69 :: (X65 :: (X75 :: (X74 :: (X00 :: (X48 :: (X61 :: (X6e :: (X67 :: (X75 :: (X6c :: (X5f :: (X4a :: (X5f :: (X50 :: (X68 :: (X69 :: (X65 :: (X75 :: (X66 :: (X00 :: (X48 :: (X61 :: (X6e :: (X67 :: (X75 :: (X6c :: (X5f :: (X4a :: (X5f :: (X48 :: (X69 :: (X65 :: (X75 :: (X68 :: (X00 :: (X48 :: (X61 :: (X6e :: (X67 :: (X75 :: (X6c :: (X5f :: (X52 :: (X69 :: (X65 :: (X75 :: (X6c :: (X59 :: (X65 :: (X6f :: (X72 :: (X69 :: (X6e :: (X48 :: (X69 :: (X65 :: (X75 :: (X68 :: (X00 :: (X48 :: (X61 :: (X6e :: (X67 :: (X75 :: (X6c :: (X5f :: (X53 :: (X75 :: (X6e :: (X6b :: (X79 :: (X65 :: (X6f :: (X6e :: (X67 :: (X65 :: (X75 :: (X6d :: (X4d :: (X69 :: (X65 :: (X75 :: (X6d :: (X00 :: (X48 :: (X61 :: (X6e :: (X67 :: (X75 :: (X6c :: (X5f :: (X53 :: (X75 :: (X6e :: (X6b :: (X79 :: (X65 :: (X6f :: (X6e :: (X67 :: (X65 :: (X75 :: (X6d :: (X50 :: (X69 :: (X65 :: (X75 :: (X62 :: (X00 :: (X48 :: (X61 :: (X6e :: (X67 :: (X75 :: (X6c :: (X5f :: (X50 :: (X61 :: (X6e :: (X53 :: (X69 :: (X6f :: (X73 :: (X00 :: (X48 :: (X61 :: (X6e :: (X67 :: (X75 :: (X6c :: (X5f :: (X4b :: (X6b :: (X6f :: (X67 :: (X6a :: (X69 :: (X44 :: (X61 :: (X6c :: (X72 :: (X69 :: (X6e :: (X49 :: (X65 :: (X75 :: (X6e :: (X67 :: (X00 :: (X48 :: (X61 :: (X6e :: (X67 :: (X75 :: (X6c :: (X5f :: (X53 :: (X75 :: (X6e :: (X6b :: (X79 :: (X65 :: (X6f :: (X6e :: (X67 :: (X65 :: (X75 :: (X6d :: (X50 :: (X68 :: (X69 :: (X65 :: (X75 :: (X66 :: (X00 :: (X48 :: (X61 :: (X6e :: (X67 :: (X75 :: (X6c :: (X5f :: (X59 :: (X65 :: (X6f :: (X72 :: (X69 :: (X6e :: (X48 :: (X69 :: (X65 :: (X75 :: (X68 :: (X00 :: (X48 :: (X61 :: (X6e :: (X67 :: (X75 :: (X6c :: (X5f :: (X41 :: (X72 :: (X61 :: (X65 :: (X41 :: (X00 :: (X48 :: (X61 :: (X6e :: (X67 :: (X75 :: (X6c :: (X5f :: (X41 :: (X72 :: (X61 :: (X65 :: (X41 :: (X45 :: (X00 :: (X48 :: (X61 :: (X6e :: (X67 :: (X75 :: (X6c :: (X5f :: (X4a :: (X5f :: (X50 :: (X61 :: (X6e :: (X53 :: (X69 :: (X6f :: (X73 :: (X00 :: (X48 :: (X61 :: (X6e :: (X67 :: (X75 :: (X6c :: (X5f :: (X4a :: (X5f :: (X4b :: (X6b :: (X6f :: (X67 :: (X6a :: (X69 :: (X44 :: (X61 :: (X6c :: (X72 :: (X69 :: (X6e :: (X49 :: (X65 :: (X75 :: (X6e :: (X67 :: (X00 :: (X48 :: (X61 :: (X6e :: (X67 :: (X75 :: (X6c :: (X5f :: (X4a :: (X5f :: (X59 :: (X65 :: (X6f :: (X72 :: (X69 :: (X6e :: (X48 :: (X69 :: (X65 :: (X75 :: (X68 :: (X00 :: (X4b :: (X6f :: (X72 :: (X65 :: (X61 :: (X6e :: (X5f :: (X57 :: (X6f :: (X6e :: (X00 :: (X4f :: (X45 :: (X00 :: (X6f :: (X65 :: (X00 :: (X59 :: (X64 :: (X69 :: (X61 :: (X65 :: (X72 :: (X65 :: (X73 :: (X69 :: (X73 :: (X00 :: (X45 :: (X63 :: (X75 :: (X53 :: (X69 :: (X67 :: (X6e :: (X00 :: (X43 :: (X6f :: (X6c :: (X6f :: (X6e :: (X53 :: (X69 :: (X67 :: (X6e :: (X00 :: (X43 :: (X72 :: (X75 :: (X7a :: (X65 :: (X69 :: (X72 :: (X6f :: (X53 :: (X69 :: (X67 :: (X6e :: (X00 :: (X46 :: (X46 :: (X72 :: (X61 :: (X6e :: (X63 :: (X53 :: (X69 :: (X67 :: (X6e :: (X00 :: (X4c :: (X69 :: (X72 :: (X61 :: (X53 :: (X69 :: (X67 :: (X6e :: (X00 :: (X4d :: (X69 :: (X6c :: (X6c :: (X53 :: (X69 :: (X67 :: (X6e :: (X00 :: (X4e :: (X61 :: (X69 :: (X72 :: (X61 :: (X53 :: (X69 :: (X67 :: (X6e :: (X00 :: (X50 :: (X65 :: (X73 :: (X65 :: (X74 :: (X61 :: (X53 :: (X69 :: (X67 :: (X6e :: (X00 :: (X52 :: (X75 :: (X70 :: (X65 :: (X65 :: (X53 :: (X69 :: (X67 :: (X6e :: (X00 :: (X57 :: (X6f :: (X6e :: (X53 :: (X69 :: (X67 :: (X6e :: (X00 :: (X4e :: (X65 :: (X77 :: (X53 :: (X68 :: (X65 :: (X71 :: (X65 :: (X6c :: (X53 :: (X69 :: (X67 :: (X6e :: (X00 :: (X44 :: (X6f :: (X6e :: (X67 :: (X53 :: (X69 :: (X67 :: (X6e :: (X00 :: (X45 :: (X75 :: (X72 :: (X6f :: (X53 :: (X69 :: (X67 :: (X6e :: (X00 :: (X33 :: (X32 :: (X37 :: (X30 :: (X5f :: (X44 :: (X75 :: (X70 :: (X6c :: (X69 :: (X63 :: (X61 :: (X74 :: (X65 :: (X00 :: (X33 :: (X32 :: (X37 :: (X30 :: (X5f :: (X46 :: (X69 :: (X65 :: (X6c :: (X64 :: (X4d :: (X61 :: (X72 :: (X6b :: (X00 :: (X33 :: (X32 :: (X37 :: (X30 :: (X5f :: (X52 :: (X69 :: (X67 :: (X68 :: (X74 :: (X32 :: (X00 :: (X33 :: (X32 :: (X37 :: (X30 :: (X5f :: (X4c :: (X65 :: (X66 :: (X74 :: (X32 :: (X00 :: (X33 :: (X32 :: (X37 :: (X30 :: (X5f :: (X42 :: (X61 :: (X63 :: (X6b :: (X54 :: (X61 :: (X62 :: (X00 :: (X33 :: (X32 :: (X37 :: (X30 :: (X5f :: (X45 :: (X72 :: (X61 :: (X73 :: (X65 :: (X45 :: (X4f :: (X46 :: (X00 :: (X33 :: (X32 :: (X37 :: (X30 :: (X5f :: (X45 :: (X72 :: (X61 :: (X73 :: (X65 :: (X49 :: (X6e :: (X70 :: (X75 :: (X74 :: (X00 :: (X33 :: (X32 :: (X37 :: (X30 :: (X5f :: (X52 :: (X65 :: (X73 :: (X65 :: (X74 :: (X00 :: (X33 :: (X32 :: (X37 :: (X30 :: (X5f :: (X51 :: (X75 :: (X69 :: (X74 :: (X00 :: (X33 :: (X32 :: (X37 :: (X30 :: (X5f :: (X50 :: (X41 :: (X31 :: (X00 :: (X33 :: (X32 :: (X37 :: (X30 :: (X5f :: (X50 :: (X41 :: (X32 :: (X00 :: (X33 :: (X32 :: (X37 :: (X30 :: (X5f :: (X50 :: (X41 :: (X33 :: (X00 :: (X33 :: (X32 :: (X37 :: (X30 :: (X5f :: (X54 :: (X65 :: (X73 :: (X74 :: (X00 :: (X33 :: (X32 :: (X37 :: (X30 :: (X5f :: (X41 :: (X74 :: (X74 :: (X6e :: (X00 :: (X33 :: (X32 :: (X37 :: (X30 :: (X5f :: (X43 :: (X75 :: (X72 :: (X73 :: (X6f :: (X72 :: (X42 :: (X6c :: (X69 :: (X6e :: (X6b :: (X00 :: (X33 :: (X32 :: (X37 :: (X30 :: (X5f :: (X41 :: (X6c :: (X74 :: (X43 :: (X75 :: (X72 :: (X73 :: (X6f :: (X72 :: (X00 :: (X33 :: (X32 :: (X37 :: (X30 :: (X5f :: (X4b :: (X65 :: (X79 :: (X43 :: (X6c :: (X69 :: (X63 :: (X6b :: (X00 :: (X33 :: (X32 :: (X37 :: (X30 :: (X5f :: (X4a :: (X75 :: (X6d :: (X70 :: (X00 :: (X33 :: (X32 :: (X37 :: (X30 :: (X5f :: (X49 :: (X64 :: (X65 :: (X6e :: (X74 :: (X00 :: (X33 :: (X32 :: (X37 :: (X30 :: (X5f :: (X52 :: (X75 :: (X6c :: (X65 :: (X00 :: (X33 :: (X32 :: (X37 :: (X30 :: (X5f :: (X43 :: (X6f :: (X70 :: (X79 :: (X00 :: (X33 :: (X32 :: (X37 :: (X30 :: (X5f :: (X50 :: (X6c :: (X61 :: (X79 :: (X00 :: (X33 :: (X32 :: (X37 :: (X30 :: (X5f :: (X53 :: (X65 :: (X74 :: (X75 :: (X70 :: (X00 :: (X33 :: (X32 :: (X37 :: (X30 :: (X5f :: (X52 :: (X65 :: (X63 :: (X6f :: (X72 :: (X64 :: (X00 :: (X33 :: (X32 :: (X37 :: (X30 :: (X5f :: (X43 :: (X68 :: (X61 :: (X6e :: (X67 :: (X65 :: (X53 :: (X63 :: (X72 :: (X65 :: (X65 :: (X6e :: (X00 :: (X33 :: (X32 :: (X37 :: (X30 :: (X5f :: (X44 :: (X65 :: (X6c :: (X65 :: (X74 :: (X65 :: (X57 :: (X6f :: (X72 :: (X64 :: (X00 :: (X33 :: (X32 :: (X37 :: (X30 :: (X5f :: (X45 :: (X78 :: (X53 :: (X65 :: (X6c :: (X65 :: (X63 :: (X74 :: (X00 :: (X33 :: (X32 :: (X37 :: (X30 :: (X5f :: (X43 :: (X75 :: (X72 :: (X73 :: (X6f :: (X72 :: (X53 :: (X65 :: (X6c :: (X65 :: (X63 :: (X74 :: (X00 :: (X33 :: (X32 :: (X37 :: (X30 :: (X5f :: (X50 :: (X72 :: (X69 :: (X6e :: (X74 :: (X53 :: (X63 :: (X72 :: (X65 :: (X65 :: (X6e :: (X00 :: (X33 :: (X32 :: (X37 :: (X30 :: (X5f :: (X45 :: (X6e :: (X74 :: (X65 :: (X72 :: (X00 :: (X49 :: (X53 :: (X4f :: (X5f :: (X4c :: (X6f :: (X63 :: (X6b :: (X00 :: (X49 :: (X53 :: (X4f :: (X5f :: (X4c :: (X65 :: (X76 :: (X65 :: (X6c :: (X32 :: (X5f :: (X4c :: (X61 :: (X74 :: (X63 :: (X68 :: (X00 :: (X49 :: (X53 :: (X4f :: (X5f :: (X4c :: (X65 :: (X76 :: (X65 :: (X6c :: (X33 :: (X5f :: (X53 :: (X68 :: (X69 :: (X66 :: (X74 :: (X00 :: (X49 :: (X53 :: (X4f :: (X5f :: (X4c :: (X65 :: (X76 :: (X65 :: (X6c :: (X33 :: (X5f :: (X4c :: (X61 :: (X74 :: (X63 :: (X68 :: (X00 :: (X49 :: (X53 :: (X4f :: (X5f :: (X4c :: (X65 :: (X76 :: (X65 :: (X6c :: (X33 :: (X5f :: (X4c :: (X6f :: (X63 :: (X6b :: (X00 :: (X49 :: (X53 :: (X4f :: (X5f :: (X47 :: (X72 :: (X6f :: (X75 :: (X70 :: (X5f :: (X4c :: (X61 :: (X74 :: (X63 :: (X68 :: (X00 :: (X49 :: (X53 :: (X4f :: (X5f :: (X47 :: (X72 :: (X6f :: (X75 :: (X70 :: (X5f :: (X4c :: (X6f :: (X63 :: (X6b :: (X00 :: (X49 :: (X53 :: (X4f :: (X5f :: (X4e :: (X65 :: (X78 :: (X74 :: (X5f :: (X47 :: (X72 :: (X6f :: (X75 :: (X70 :: (X00 :: (X49 :: (X53 :: (X4f :: (X5f :: (X4e :: (X65 :: (X78 :: (X74 :: (X5f :: (X47 :: (X72 :: (X6f :: (X75 :: (X70 :: (X5f :: (X4c :: (X6f :: (X63 :: (X6b :: (X00 :: (X49 :: (X53 :: (X4f :: (X5f :: (X50 :: (X72 :: (X65 :: (X76 :: (X5f :: (X47 :: (X72 :: (X6f :: (X75 :: (X70 :: (X00 :: (X49 :: (X53 :: (X4f :: (X5f :: (X50 :: (X72 :: (X65 :: (X76 :: (X5f :: (X47 :: (X72 :: (X6f :: (X75 :: (X70 :: (X5f :: (X4c :: (X6f :: (X63 :: (X6b :: (X00 :: (X49 :: (X53 :: (X4f :: (X5f :: (X46 :: (X69 :: (X72 :: (X73 :: (X74 :: (X5f :: (X47 :: (X72 :: (X6f :: (X75 :: (X70 :: (X00 :: (X49 :: (X53 :: (X4f :: (X5f :: (X46 :: (X69 :: (X72 :: (X73 :: (X74 :: (X5f :: (X47 :: (X72 :: (X6f :: (X75 :: (X70 :: (X5f :: (X4c :: (X6f :: (X63 :: (X6b :: (X00 :: (X49 :: (X53 :: (X4f :: (X5f :: (X4c :: (X61 :: (X73 :: (X74 :: (X5f :: (X47 :: (X72 :: (X6f :: (X75 :: (X70 :: (X00 :: (X49 :: (X53 :: (X4f :: (X5f :: (X4c :: (X61 :: (X73 :: (X74 :: (X5f :: (X47 :: (X72 :: (X6f :: (X75 :: (X70 :: (X5f :: (X4c :: (X6f :: (X63 :: (X6b :: (X00 :: (X49 :: (X53 :: (X4f :: (X5f :: (X4c :: (X65 :: (X66 :: (X74 :: (X5f :: (X54 :: (X61 :: (X62 :: (X00 :: (X49 :: (X53 :: (X4f :: (X5f :: (X4d :: (X6f :: (X76 :: (X65 :: (X5f :: (X4c :: (X69 :: (X6e :: (X65 :: (X5f :: (X55 :: (X70 :: (X00 :: (X49 :: (X53 :: (X4f :: (X5f :: (X4d :: (X6f :: (X76 :: (X65 :: (X5f :: (X4c :: (X69 :: (X6e :: (X65 :: (X5f :: (X44 :: (X6f :: (X77 :: (X6e :: (X00 :: (X49 :: (X53 :: (X4f :: (X5f :: (X50 :: (X61 :: (X72 :: (X74 :: (X69 :: (X61 :: (X6c :: (X5f :: (X4c :: (X69 :: (X6e :: (X65 :: (X5f :: (X55 :: (X70 :: (X00 :: (X49 :: (X53 :: (X4f :: (X5f :: (X50 :: (X61 :: (X72 :: (X74 :: (X69 :: (X61 :: (X6c :: (X5f :: (X4c :: (X69 :: (X6e :: (X65 :: (X5f :: (X44 :: (X6f :: (X77 :: (X6e :: (X00 :: (X49 :: (X53 :: (X4f :: (X5f :: (X50 :: (X61 :: (X72 :: (X74 :: (X69 :: (X61 :: (X6c :: (X5f :: (X53 :: (X70 :: (X61 :: (X63 :: (X65 :: (X5f :: (X4c :: (X65 :: (X66 :: (X74 :: (X00 :: (X49 :: (X53 :: (X4f :: (X5f :: (X50 :: (X61 :: (X72 :: (X74 :: (X69 :: (X61 :: (X6c :: (X5f :: (X53 :: (X70 :: (X61 :: (X63 :: (X65 :: (X5f :: (X52 :: (X69 :: (X67 :: (X68 :: (X74 :: (X00 :: (X49 :: (X53 :: (X4f :: (X5f :: (X53 :: (X65 :: (X74 :: (X5f :: (X4d :: (X61 :: (X72 :: (X67 :: (X69 :: (X6e :: (X5f :: (X4c :: (X65 :: (X66 :: (X74 :: (X00 :: (X49 :: (X53 :: (X4f :: (X5f :: (X53 :: (X65 :: (X74 :: (X5f :: (X4d :: (X61 :: (X72 :: (X67 :: (X69 :: (X6e :: (X5f :: (X52 :: (X69 :: (X67 :: (X68 :: (X74 :: (X00 :: (X49 :: (X53 :: (X4f :: (X5f :: (X52 :: (X65 :: (X6c :: (X65 :: (X61 :: (X73 :: (X65 :: (X5f :: (X4d :: (X61 :: (X72 :: (X67 :: (X69 :: (X6e :: (X5f :: (X4c :: (X65 :: (X66 :: (X74 :: (X00 :: (X49 :: (X53 :: (X4f :: (X5f :: (X52 :: (X65 :: (X6c :: (X65 :: (X61 :: (X73 :: (X65 :: (X5f :: (X4d :: (X61 :: (X72 :: (X67 :: (X69 :: (X6e :: (X5f :: (X52 :: (X69 :: (X67 :: (X68 :: (X74 :: (X00 :: (X49 :: (X53 :: (X4f :: (X5f :: (X52 :: (X65 :: (X6c :: (X65 :: (X61 :: (X73 :: (X65 :: (X5f :: (X42 :: (X6f :: (X74 :: (X68 :: (X5f :: (X4d :: (X61 :: (X72 :: (X67 :: (X69 :: (X6e :: (X73 :: (X00 :: (X49 :: (X53 :: (X4f :: (X5f :: (X46 :: (X61 :: (X73 :: (X74 :: (X5f :: (X43 :: (X75 :: (X72 :: (X73 :: (X6f :: (X72 :: (X5f :: (X4c :: (X65 :: (X66 :: (X74 :: (X00 :: (X49 :: (X53 :: (X4f :: (X5f :: (X46 :: (X61 :: (X73 :: (X74 :: (X5f :: (X43 :: (X75 :: (X72 :: (X73 :: (X6f :: (X72 :: (X5f :: (X52 :: (X69 :: (X67 :: (X68 :: (X74 :: (X00 :: (X49 :: (X53 :: (X4f :: (X5f :: (X46 :: (X61 :: (X73 :: (X74 :: (X5f :: (X43 :: (X75 :: (X72 :: (X73 :: (X6f :: (X72 :: (X5f :: (X55 :: (X70 :: (X00 :: (X49 :: (X53 :: (X4f :: (X5f :: (X46 :: (X61 :: (X73 :: (X74 :: (X5f :: (X43 :: (X75 :: (X72 :: (X73 :: (X6f :: (X72 :: (X5f :: (X44 :: (X6f :: (X77 :: (X6e :: (X00 :: (X49 :: (X53 :: (X4f :: (X5f :: (X43 :: (X6f :: (X6e :: (X74 :: (X69 :: (X6e :: (X75 :: (X6f :: (X75 :: (X73 :: (X5f :: (X55 :: (X6e :: (X64 :: (X65 :: (X72 :: (X6c :: (X69 :: (X6e :: (X65 :: (X00 :: (X49 :: (X53 :: (X4f :: (X5f :: (X44 :: (X69 :: (X73 :: (X63 :: (X6f :: (X6e :: (X74 :: (X69 :: (X6e :: (X75 :: (X6f :: (X75 :: (X73 :: (X5f :: (X55 :: (X6e :: (X64 :: (X65 :: (X72 :: (X6c :: (X69 :: (X6e :: (X65 :: (X00 :: (X49 :: (X53 :: (X4f :: (X5f :: (X45 :: (X6d :: (X70 :: (X68 :: (X61 :: (X73 :: (X69 :: (X7a :: (X65 :: (X00 :: (X49 :: (X53 :: (X4f :: (X5f :: (X43 :: (X65 :: (X6e :: (X74 :: (X65 :: (X72 :: (X5f :: (X4f :: (X62 :: (X6a :: (X65 :: (X63 :: (X74 :: (X00 :: (X49 :: (X53 :: (X4f :: (X5f :: (X45 :: (X6e :: (X74 :: (X65 :: (X72 :: (X00 :: (X64 :: (X65 :: (X61 :: (X64 :: (X5f :: (X67 :: (X72 :: (X61 :: (X76 :: (X65 :: (X00 :: (X64 :: (X65 :: (X61 :: (X64 :: (X5f :: (X61 :: (X63 :: (X75 :: (X74 :: (X65 :: (X00 :: (X64 :: (X65 :: (X61 :: (X64 :: (X5f :: (X63 :: (X69 :: (X72 :: (X63 :: (X75 :: (X6d :: (X66 :: (X6c :: (X65 :: (X78 :: (X00 :: (X64 :: (X65 :: (X61 :: (X64 :: (X5f :: (X74 :: (X69 :: (X6c :: (X64 :: (X65 :: (X00 :: (X64 :: (X65 :: (X61 :: (X64 :: (X5f :: (X6d :: (X61 :: (X63 :: (X72 :: (X6f :: (X6e :: (X00 :: (X64 :: (X65 :: (X61 :: (X64 :: (X5f :: (X62 :: (X72 :: (X65 :: (X76 :: (X65 :: (X00 :: (X64 :: (X65 :: (X61 :: (X64 :: (X5f :: (X61 :: (X62 :: (X6f :: (X76 :: (X65 :: (X64 :: (X6f :: (X74 :: (X00 :: (X64 :: (X65 :: (X61 :: (X64 :: (X5f :: (X64 :: (X69 :: (X61 :: (X65 :: (X72 :: (X65 :: (X73 :: (X69 :: (X73 :: (X00 :: (X64 :: (X65 :: (X61 :: (X64 :: (X5f :: (X61 :: (X62 :: (X6f :: (X76 :: (X65 :: (X72 :: (X69 :: (X6e :: (X67 :: (X00 :: (X64 :: (X65 :: (X61 :: (X64 :: (X5f :: (X64 :: (X6f :: (X75 :: (X62 :: (X6c :: (X65 :: (X61 :: (X63 :: (X75 :: (X74 :: (X65 :: (X00 :: (X64 :: (X65 :: (X61 :: (X64 :: (X5f :: (X63 :: (X61 :: (X72 :: (X6f :: (X6e :: (X00 :: (X64 :: (X65 :: (X61 :: (X64 :: (X5f :: (X63 :: (X65 :: (X64 :: (X69 :: (X6c :: (X6c :: (X61 :: (X00 :: (X64 :: (X65 :: (X61 :: (X64 :: (X5f :: (X6f :: (X67 :: (X6f :: (X6e :: (X65 :: (X6b :: (X00 :: (X64 :: (X65 :: (X61 :: (X64 :: (X5f :: (X69 :: (X6f :: (X74 :: (X61 :: (X00 :: (X64 :: (X65 :: (X61 :: (X64 :: (X5f :: (X76 :: (X6f :: (X69 :: (X63 :: (X65 :: (X64 :: (X5f :: (X73 :: (X6f :: (X75 :: (X6e :: (X64 :: (X00 :: (X64 :: (X65 :: (X61 :: (X64 :: (X5f :: (X73 :: (X65 :: (X6d :: (X69 :: (X76 :: (X6f :: (X69 :: (X63 :: (X65 :: (X64 :: (X5f :: (X73 :: (X6f :: (X75 :: (X6e :: (X64 :: (X00 :: (X64 :: (X65 :: (X61 :: (X64 :: (X5f :: (X62 :: (X65 :: (X6c :: (X6f :: (X77 :: (X64 :: (X6f :: (X74 :: (X00 :: (X64 :: (X65 :: (X61 :: (X64 :: (X5f :: (X68 :: (X6f :: (X6f :: (X6b :: (X00 :: (X64 :: (X65 :: (X61 :: (X64 :: (X5f :: (X68 :: (X6f :: (X72 :: (X6e :: (X00 :: (X41 :: (X63 :: (X63 :: (X65 :: (X73 :: (X73 :: (X58 :: (X5f :: (X45 :: (X6e :: (X61 :: (X62 :: (X6c :: (X65 :: (X00 :: (X41 :: (X63 :: (X63 :: (X65 :: (X73 :: (X73 :: (X58 :: (X5f :: (X46 :: (X65 :: (X65 :: (X64 :: (X62 :: (X61 :: (X63 :: (X6b :: (X5f :: (X45 :: (X6e :: (X61 :: (X62 :: (X6c :: (X65 :: (X00 :: (X52 :: (X65 :: (X70 :: (X65 :: (X61 :: (X74 :: (X4b :: (X65 :: (X79 :: (X73 :: (X5f :: (X45 :: (X6e :: (X61 :: (X62 :: (X6c :: (X65 :: (X00 :: (X53 :: (X6c :: (X6f :: (X77 :: (X4b :: (X65 :: (X79 :: (X73 :: (X5f :: (X45 :: (X6e :: (X61 :: (X62 :: (X6c :: (X65 :: (X00 :: (X42 :: (X6f :: (X75 :: (X6e :: (X63 :: (X65 :: (X4b :: (X65 :: (X79 :: (X73 :: (X5f :: (X45 :: (X6e :: (X61 :: (X62 :: (X6c :: (X65 :: (X00 :: (X53 :: (X74 :: (X69 :: (X63 :: (X6b :: (X79 :: (X4b :: (X65 :: (X79 :: (X73 :: (X5f :: (X45 :: (X6e :: (X61 :: (X62 :: (X6c :: (X65 :: (X00 :: (X4d :: (X6f :: (X75 :: (X73 :: (X65 :: (X4b :: (X65 :: (X79 :: (X73 :: (X5f :: (X45 :: (X6e :: (X61 :: (X62 :: (X6c :: (X65 :: (X00 :: (X4d :: (X6f :: (X75 :: (X73 :: (X65 :: (X4b :: (X65 :: (X79 :: (X73 :: (X5f :: (X41 :: (X63 :: (X63 :: (X65 :: (X6c :: (X5f :: (X45 :: (X6e :: (X61 :: (X62 :: (X6c :: (X65 :: (X00 :: (X4f :: (X76 :: (X65 :: (X72 :: (X6c :: (X61 :: (X79 :: (X31 :: (X5f :: (X45 :: (X6e :: (X61 :: (X62 :: (X6c :: (X65 :: (X00 :: (X4f :: (X76 :: (X65 :: (X72 :: (X6c :: (X61 :: (X79 :: (X32 :: (X5f :: (X45 :: (X6e :: (X61 :: (X62 :: (X6c :: (X65 :: (X00 :: (X41 :: (X75 :: (X64 :: (X69 :: (X62 :: (X6c :: (X65 :: (X42 :: (X65 :: (X6c :: (X6c :: (X5f :: (X45 :: (X6e :: (X61 :: (X62 :: (X6c :: (X65 :: (X00 :: (X46 :: (X69 :: (X72 :: (X73 :: (X74 :: (X5f :: (X56 :: (X69 :: (X72 :: (X74 :: (X75 :: (X61 :: (X6c :: (X5f :: (X53 :: (X63 :: (X72 :: (X65 :: (X65 :: (X6e :: (X00 :: (X50 :: (X72 :: (X65 :: (X76 :: (X5f :: (X56 :: (X69 :: (X72 :: (X74 :: (X75 :: (X61 :: (X6c :: (X5f :: (X53 :: (X63 :: (X72 :: (X65 :: (X65 :: (X6e :: (X00 :: (X4e :: (X65 :: (X78 :: (X74 :: (X5f :: (X56 :: (X69 :: (X72 :: (X74 :: (X75 :: (X61 :: (X6c :: (X5f :: (X53 :: (X63 :: (X72 :: (X65 :: (X65 :: (X6e :: (X00 :: (X4c :: (X61 :: (X73 :: (X74 :: (X5f :: (X56 :: (X69 :: (X72 :: (X74 :: (X75 :: (X61 :: (X6c :: (X5f :: (X53 :: (X63 :: (X72 :: (X65 :: (X65 :: (X6e :: (X00 :: (X54 :: (X65 :: (X72 :: (X6d :: (X69 :: (X6e :: (X61 :: (X74 :: (X65 :: (X5f :: (X53 :: (X65 :: (X72 :: (X76 :: (X65 :: (X72 :: (X00 :: (X50 :: (X6f :: (X69 :: (X6e :: (X74 :: (X65 :: (X72 :: (X5f :: (X4c :: (X65 :: (X66 :: (X74 :: (X00 :: (X50 :: (X6f :: (X69 :: (X6e :: (X74 :: (X65 :: (X72 :: (X5f :: (X52 :: (X69 :: (X67 :: (X68 :: (X74 :: (X00 :: (X50 :: (X6f :: (X69 :: (X6e :: (X74 :: (X65 :: (X72 :: (X5f :: (X55 :: (X70 :: (X00 :: (X50 :: (X6f :: (X69 :: (X6e :: (X74 :: (X65 :: (X72 :: (X5f :: (X44 :: (X6f :: (X77 :: (X6e :: (X00 :: (X50 :: (X6f :: (X69 :: (X6e :: (X74 :: (X65 :: (X72 :: (X5f :: (X55 :: (X70 :: (X4c :: (X65 :: (X66 :: (X74 :: (X00 :: (X50 :: (X6f :: (X69 :: (X6e :: (X74 :: (X65 :: (X72 :: (X5f :: (X55 :: (X70 :: (X52 :: (X69 :: (X67 :: (X68 :: (X74 :: (X00 :: (X50 :: (X6f :: (X69 :: (X6e :: (X74 :: (X65 :: (X72 :: (X5f :: (X44 :: (X6f :: (X77 :: (X6e :: (X4c :: (X65 :: (X66 :: (X74 :: (X00 :: (X50 :: (X6f :: (X69 :: (X6e :: (X74 :: (X65 :: (X72 :: (X5f :: (X44 :: (X6f :: (X77 :: (X6e :: (X52 :: (X69 :: (X67 :: (X68 :: (X74 :: (X00 :: (X50 :: (X6f :: (X69 :: (X6e :: (X74 :: (X65 :: (X72 :: (X5f :: (X42 :: (X75 :: (X74 :: (X74 :: (X6f :: (X6e :: (X5f :: (X44 :: (X66 :: (X6c :: (X74 :: (X00 :: (X50 :: (X6f :: (X69 :: (X6e :: (X74 :: (X65 :: (X72 :: (X5f :: (X42 :: (X75 :: (X74 :: (X74 :: (X6f :: (X6e :: (X31 :: (X00 :: (X50 :: (X6f :: (X69 :: (X6e :: (X74 :: (X65 :: (X72 :: (X5f :: (X42 :: (X75 :: (X74 :: (X74 :: (X6f :: (X6e :: (X32 :: (X00 :: (X50 :: (X6f :: (X69 :: (X6e :: (X74 :: (X65 :: (X72 :: (X5f :: (X42 :: (X75 :: (X74 :: (X74 :: (X6f :: (X6e :: (X33 :: (X00 :: (X50 :: (X6f :: (X69 :: (X6e :: (X74 :: (X65 :: (X72 :: (X5f :: (X42 :: (X75 :: (X74 :: (X74 :: (X6f :: (X6e :: (X34 :: (X00 :: (X50 :: (X6f :: (X69 :: (X6e :: (X74 :: (X65 :: (X72 :: (X5f :: (X42 :: (X75 :: (X74 :: (X74 :: (X6f :: (X6e :: (X35 :: (X00 :: (X50 :: (X6f :: (X69 :: (X6e :: (X74 :: (X65 :: (X72 :: (X5f :: (X44 :: (X62 :: (X6c :: (X43 :: (X6c :: (X69 :: (X63 :: (X6b :: (X5f :: (X44 :: (X66 :: (X6c :: (X74 :: (X00 :: (X50 :: (X6f :: (X69 :: (X6e :: (X74 :: (X65 :: (X72 :: (X5f :: (X44 :: (X62 :: (X6c :: (X43 :: (X6c :: (X69 :: (X63 :: (X6b :: (X31 :: (X00 :: (X50 :: (X6f :: (X69 :: (X6e :: (X74 :: (X65 :: (X72 :: (X5f :: (X44 :: (X62 :: (X6c :: (X43 :: (X6c :: (X69 :: (X63 :: (X6b :: (X32 :: (X00 :: (X50 :: (X6f :: (X69 :: (X6e :: (X74 :: (X65 :: (X72 :: (X5f :: (X44 :: (X62 :: (X6c :: (X43 :: (X6c :: (X69 :: (X63 :: (X6b :: (X33 :: (X00 :: (X50 :: (X6f :: (X69 :: (X6e :: (X74 :: (X65 :: (X72 :: (X5f :: (X44 :: (X62 :: (X6c :: (X43 :: (X6c :: (X69 :: (X63 :: (X6b :: (X34 :: (X00 :: (X50 :: (X6f :: (X69 :: (X6e :: (X74 :: (X65 :: (X72 :: (X5f :: (X44 :: (X62 :: (X6c :: (X43 :: (X6c :: (X69 :: (X63 :: (X6b :: (X35 :: (X00 :: (X50 :: (X6f :: (X69 :: (X6e :: (X74 :: (X65 :: (X72 :: (X5f :: (X44 :: (X72 :: (X61 :: (X67 :: (X5f :: (X44 :: (X66 :: (X6c :: (X74 :: (X00 :: (X50 :: (X6f :: (X69 :: (X6e :: (X74 :: (X65 :: (X72 :: (X5f :: (X44 :: (X72 :: (X61 :: (X67 :: (X31 :: (X00 :: (X50 :: (X6f :: (X69 :: (X6e :: (X74 :: (X65 :: (X72 :: (X5f :: (X44 :: (X72 :: (X61 :: (X67 :: (X32 :: (X00 :: (X50 :: (X6f :: (X69 :: (X6e :: (X74 :: (X65 :: (X72 :: (X5f :: (X44 :: (X72 :: (X61 :: (X67 :: (X33 :: (X00 :: (X50 :: (X6f :: (X69 :: (X6e :: (X74 :: (X65 :: (X72 :: (X5f :: (X44 :: (X72 :: (X61 :: (X67 :: (X34 :: (X00 :: (X50 :: (X6f :: (X69 :: (X6e :: (X74 :: (X65 :: (X72 :: (X5f :: (X45 :: (X6e :: (X61 :: (X62 :: (X6c :: (X65 :: (X4b :: (X65 :: (X79 :: (X73 :: (X00 :: (X50 :: (X6f :: (X69 :: (X6e :: (X74 :: (X65 :: (X72 :: (X5f :: (X41 :: (X63 :: (X63 :: (X65 :: (X6c :: (X65 :: (X72 :: (X61 :: (X74 :: (X65 :: (X00 :: (X50 :: (X6f :: (X69 :: (X6e :: (X74 :: (X65 :: (X72 :: (X5f :: (X44 :: (X66 :: (X6c :: (X74 :: (X42 :: (X74 :: (X6e :: (X4e :: (X65 :: (X78 :: (X74 :: (X00 :: (X50 :: (X6f :: (X69 :: (X6e :: (X74 :: (X65 :: (X72 :: (X5f :: (X44 :: (X66 :: (X6c :: (X74 :: (X42 :: (X74 :: (X6e :: (X50 :: (X72 :: (X65 :: (X76 :: (X00 :: (X50 :: (X6f :: (X69 :: (X6e :: (X74 :: (X65 :: (X72 :: (X5f :: (X44 :: (X72 :: (X61 :: (X67 :: (X35 :: (X00 :: (X42 :: (X61 :: (X63 :: (X6b :: (X53 :: (X70 :: (X61 :: (X63 :: (X65 :: (X00 :: (X54 :: (X61 :: (X62 :: (X00 :: (X4c :: (X69 :: (X6e :: (X65 :: (X66 :: (X65 :: (X65 :: (X64 :: (X00 :: (X43 :: (X6c :: (X65 :: (X61 :: (X72 :: (X00 :: (X52 :: (X65 :: (X74 :: (X75 :: (X72 :: (X6e :: (X00 :: (X50 :: (X61 :: (X75 :: (X73 :: (X65 :: (X00 :: (X53 :: (X63 :: (X72 :: (X6f :: (X6c :: (X6c :: (X5f :: (X4c :: (X6f :: (X63 :: (X6b :: (X00 :: (X53 :: (X79 :: (X73 :: (X5f :: (X52 :: (X65 :: (X71 :: (X00 :: (X45 :: (X73 :: (X63 :: (X61 :: (X70 :: (X65 :: (X00 :: (X4d :: (X75 :: (X6c :: (X74 :: (X69 :: (X5f :: (X6b :: (X65 :: (X79 :: (X00 :: (X4b :: (X61 :: (X6e :: (X6a :: (X69 :: (X00 :: (X4d :: (X75 :: (X68 :: (X65 :: (X6e :: (X6b :: (X61 :: (X6e :: (X00 :: (X48 :: (X65 :: (X6e :: (X6b :: (X61 :: (X6e :: (X00 :: (X48 :: (X65 :: (X6e :: (X6b :: (X61 :: (X6e :: (X5f :: (X4d :: (X6f :: (X64 :: (X65 :: (X00 :: (X52 :: (X6f :: (X6d :: (X61 :: (X6a :: (X69 :: (X00 :: (X48 :: (X69 :: (X72 :: (X61 :: (X67 :: (X61 :: (X6e :: (X61 :: (X00 :: (X4b :: (X61 :: (X74 :: (X61 :: (X6b :: (X61 :: (X6e :: (X61 :: (X00 :: (X48 :: (X69 :: (X72 :: (X61 :: (X67 :: (X61 :: (X6e :: (X61 :: (X5f :: (X4b :: (X61 :: (X74 :: (X61 :: (X6b :: (X61 :: (X6e :: (X61 :: (X00 :: (X5a :: (X65 :: (X6e :: (X6b :: (X61 :: (X6b :: (X75 :: (X00 :: (X48 :: (X61 :: (X6e :: (X6b :: (X61 :: (X6b :: (X75 :: (X00 :: (X5a :: (X65 :: (X6e :: (X6b :: (X61 :: (X6b :: (X75 :: (X5f :: (X48 :: (X61 :: (X6e :: (X6b :: (X61 :: (X6b :: (X75 :: (X00 :: (X54 :: (X6f :: (X75 :: (X72 :: (X6f :: (X6b :: (X75 :: (X00 :: (X4d :: (X61 :: (X73 :: (X73 :: (X79 :: (X6f :: (X00 :: (X4b :: (X61 :: (X6e :: (X61 :: (X5f :: (X4c :: (X6f :: (X63 :: (X6b :: (X00 :: (X4b :: (X61 :: (X6e :: (X61 :: (X5f :: (X53 :: (X68 :: (X69 :: (X66 :: (X74 :: (X00 :: (X45 :: (X69 :: (X73 :: (X75 :: (X5f :: (X53 :: (X68 :: (X69 :: (X66 :: (X74 :: (X00 :: (X45 :: (X69 :: (X73 :: (X75 :: (X5f :: (X74 :: (X6f :: (X67 :: (X67 :: (X6c :: (X65 :: (X00 :: (X48 :: (X61 :: (X6e :: (X67 :: (X75 :: (X6c :: (X00 :: (X48 :: (X61 :: (X6e :: (X67 :: (X75 :: (X6c :: (X5f :: (X53 :: (X74 :: (X61 :: (X72 :: (X74 :: (X00 :: (X48 :: (X61 :: (X6e :: (X67 :: (X75 :: (X6c :: (X5f :: (X45 :: (X6e :: (X64 :: (X00 :: (X48 :: (X61 :: (X6e :: (X67 :: (X75 :: (X6c :: (X5f :: (X48 :: (X61 :: (X6e :: (X6a :: (X61 :: (X00 :: (X48 :: (X61 :: (X6e :: (X67 :: (X75 :: (X6c :: (X5f :: (X4a :: (X61 :: (X6d :: (X6f :: (X00 :: (X48 :: (X61 :: (X6e :: (X67 :: (X75 :: (X6c :: (X5f :: (X52 :: (X6f :: (X6d :: (X61 :: (X6a :: (X61 :: (X00 :: (X43 :: (X6f :: (X64 :: (X65 :: (X69 :: (X6e :: (X70 :: (X75 :: (X74 :: (X00 :: (X48 :: (X61 :: (X6e :: (X67 :: (X75 :: (X6c :: (X5f :: (X4a :: (X65 :: (X6f :: (X6e :: (X6a :: (X61 :: (X00 :: (X48 :: (X61 :: (X6e :: (X67 :: (X75 :: (X6c :: (X5f :: (X42 :: (X61 :: (X6e :: (X6a :: (X61 :: (X00 :: (X48 :: (X61 :: (X6e :: (X67 :: (X75 :: (X6c :: (X5f :: (X50 :: (X72 :: (X65 :: (X48 :: (X61 :: (X6e :: (X6a :: (X61 :: (X00 :: (X48 :: (X61 :: (X6e :: (X67 :: (X75 :: (X6c :: (X5f :: (X50 :: (X6f :: (X73 :: (X74 :: (X48 :: (X61 :: (X6e :: (X6a :: (X61 :: (X00 :: (X53 :: (X69 :: (X6e :: (X67 :: (X6c :: (X65 :: (X43 :: (X61 :: (X6e :: (X64 :: (X69 :: (X64 :: (X61 :: (X74 :: (X65 :: (X00 :: (X4d :: (X75 :: (X6c :: (X74 :: (X69 :: (X70 :: (X6c :: (X65 :: (X43 :: (X61 :: (X6e :: (X64 :: (X69 :: (X64 :: (X61 :: (X74 :: (X65 :: (X00 :: (X50 :: (X72 :: (X65 :: (X76 :: (X69 :: (X6f :: (X75 :: (X73 :: (X43 :: (X61 :: (X6e :: (X64 :: (X69 :: (X64 :: (X61 :: (X74 :: (X65 :: (X00 :: (X48 :: (X61 :: (X6e :: (X67 :: (X75 :: (X6c :: (X5f :: (X53 :: (X70 :: (X65 :: (X63 :: (X69 :: (X61 :: (X6c :: (X00 :: (X48 :: (X6f :: (X6d :: (X65 :: (X00 :: (X4c :: (X65 :: (X66 :: (X74 :: (X00 :: (X55 :: (X70 :: (X00 :: (X52 :: (X69 :: (X67 :: (X68 :: (X74 :: (X00 :: (X44 :: (X6f :: (X77 :: (X6e :: (X00 :: (X50 :: (X61 :: (X67 :: (X65 :: (X5f :: (X55 :: (X70 :: (X00 :: (X50 :: (X72 :: (X69 :: (X6f :: (X72 :: (X00 :: (X50 :: (X61 :: (X67 :: (X65 :: (X5f :: (X44 :: (X6f :: (X77 :: (X6e :: (X00 :: (X4e :: (X65 :: (X78 :: (X74 :: (X00 :: (X45 :: (X6e :: (X64 :: (X00 :: (X42 :: (X65 :: (X67 :: (X69 :: (X6e :: (X00 :: (X53 :: (X65 :: (X6c :: (X65 :: (X63 :: (X74 :: (X00 :: (X50 :: (X72 :: (X69 :: (X6e :: (X74 :: (X00 :: (X45 :: (X78 :: (X65 :: (X63 :: (X75 :: (X74 :: (X65 :: (X00 :: (X49 :: (X6e :: (X73 :: (X65 :: (X72 :: (X74 :: (X00 :: (X55 :: (X6e :: (X64 :: (X6f :: (X00 :: (X52 :: (X65 :: (X64 :: (X6f :: (X00 :: (X4d :: (X65 :: (X6e :: (X75 :: (X00 :: (X46 :: (X69 :: (X6e :: (X64 :: (X00 :: (X43 :: (X61 :: (X6e :: (X63 :: (X65 :: (X6c :: (X00 :: (X48 :: (X65 :: (X6c :: (X70 :: (X00 :: (X42 :: (X72 :: (X65 :: (X61 :: (X6b :: (X00 :: (X41 :: (X72 :: (X61 :: (X62 :: (X69 :: (X63 :: (X5f :: (X73 :: (X77 :: (X69 :: (X74 :: (X63 :: (X68 :: (X00 :: (X47 :: (X72 :: (X65 :: (X65 :: (X6b :: (X5f :: (X73 :: (X77 :: (X69 :: (X74 :: (X63 :: (X68 :: (X00 :: (X48 :: (X61 :: (X6e :: (X67 :: (X75 :: (X6c :: (X5f :: (X73 :: (X77 :: (X69 :: (X74 :: (X63 :: (X68 :: (X00 :: (X48 :: (X65 :: (X62 :: (X72 :: (X65 :: (X77 :: (X5f :: (X73 :: (X77 :: (X69 :: (X74 :: (X63 :: (X68 :: (X00 :: (X49 :: (X53 :: (X4f :: (X5f :: (X47 :: (X72 :: (X6f :: (X75 :: (X70 :: (X5f :: (X53 :: (X68 :: (X69 :: (X66 :: (X74 :: (X00 :: (X4d :: (X6f :: (X64 :: (X65 :: (X5f :: (X73 :: (X77 :: (X69 :: (X74 :: (X63 :: (X68 :: (X00 :: (X6b :: (X61 :: (X6e :: (X61 :: (X5f :: (X73 :: (X77 :: (X69 :: (X74 :: (X63 :: (X68 :: (X00 :: (X73 :: (X63 :: (X72 :: (X69 :: (X70 :: (X74 :: (X5f :: (X73 :: (X77 :: (X69 :: (X74 :: (X63 :: (X68 :: (X00 :: (X4e :: (X75 :: (X6d :: (X5f :: (X4c :: (X6f :: (X63 :: (X6b :: (X00 :: (X4b :: (X50 :: (X5f :: (X53 :: (X70 :: (X61 :: (X63 :: (X65 :: (X00 :: (X4b :: (X50 :: (X5f :: (X54 :: (X61 :: (X62 :: (X00 :: (X4b :: (X50 :: (X5f :: (X45 :: (X6e :: (X74 :: (X65 :: (X72 :: (X00 :: (X4b :: (X50 :: (X5f :: (X46 :: (X31 :: (X00 :: (X4b :: (X50 :: (X5f :: (X46 :: (X32 :: (X00 :: (X4b :: (X50 :: (X5f :: (X46 :: (X33 :: (X00 :: (X4b :: (X50 :: (X5f :: (X46 :: (X34 :: (X00 :: (X4b :: (X50 :: (X5f :: (X48 :: (X6f :: (X6d :: (X65 :: (X00 :: (X4b :: (X50 :: (X5f :: (X4c :: (X65 :: (X66 :: (X74 :: (X00 :: (X4b :: (X50 :: (X5f :: (X55 :: (X70 :: (X00 :: (X4b :: (X50 :: (X5f :: (X52 :: (X69 :: (X67 :: (X68 :: (X74 :: (X00 :: (X4b :: (X50 :: (X5f :: (X44 :: (X6f :: (X77 :: (X6e :: (X00 :: (X4b :: (X50 :: (X5f :: (X50 :: (X61 :: (X67 :: (X65 :: (X5f :: (X55 :: (X70 :: (X00 :: (X4b :: (X50 :: (X5f :: (X50 :: (X72 :: (X69 :: (X6f :: (X72 :: (X00 :: (X4b :: (X50 :: (X5f :: (X50 :: (X61 :: (X67 :: (X65 :: (X5f :: (X44 :: (X6f :: (X77 :: (X6e :: (X00 :: (X4b :: (X50 :: (X5f :: (X4e :: (X65 :: (X78 :: (X74 :: (X00 :: (X4b :: (X50 :: (X5f :: (X45 :: (X6e :: (X64 :: (X00 :: (X4b :: (X50 :: (X5f :: (X42 :: (X65 :: (X67 :: (X69 :: (X6e :: (X00 :: (X4b :: (X50 :: (X5f :: (X49 :: (X6e :: (X73 :: (X65 :: (X72 :: (X74 :: (X00 :: (X4b :: (X50 :: (X5f :: (X44 :: (X65 :: (X6c :: (X65 :: (X74 :: (X65 :: (X00 :: (X4b :: (X50 :: (X5f :: (X4d :: (X75 :: (X6c :: (X74 :: (X69 :: (X70 :: (X6c :: (X79 :: (X00 :: (X4b :: (X50 :: (X5f :: (X41 :: (X64 :: (X64 :: (X00 :: (X4b :: (X50 :: (X5f :: (X53 :: (X65 :: (X70 :: (X61 :: (X72 :: (X61 :: (X74 :: (X6f :: (X72 :: (X00 :: (X4b :: (X50 :: (X5f :: (X53 :: (X75 :: (X62 :: (X74 :: (X72 :: (X61 :: (X63 :: (X74 :: (X00 :: (X4b :: (X50 :: (X5f :: (X44 :: (X65 :: (X63 :: (X69 :: (X6d :: (X61 :: (X6c :: (X00 :: (X4b :: (X50 :: (X5f :: (X44 :: (X69 :: (X76 :: (X69 :: (X64 :: (X65 :: (X00 :: (X4b :: (X50 :: (X5f :: (X30 :: (X00 :: (X4b :: (X50 :: (X5f :: (X31 :: (X00 :: (X4b :: (X50 :: (X5f :: (X32 :: (X00 :: (X4b :: (X50 :: (X5f :: (X33 :: (X00 :: (X4b :: (X50 :: (X5f :: (X34 :: (X00 :: (X4b :: (X50 :: (X5f :: (X35 :: (X00 :: (X4b :: (X50 :: (X5f :: (X36 :: (X00 :: (X4b :: (X50 :: (X5f :: (X37 :: (X00 :: (X4b :: (X50 :: (X5f :: (X38 :: (X00 :: (X4b :: (X50 :: (X5f :: (X39 :: (X00 :: (X4b :: (X50 :: (X5f :: (X45 :: (X71 :: (X75 :: (X61 :: (X6c :: (X00 :: (X46 :: (X31 :: (X00 :: (X46 :: (X32 :: (X00 :: (X46 :: (X33 :: (X00 :: (X46 :: (X34 :: (X00 :: (X46 :: (X35 :: (X00 :: (X46 :: (X36 :: (X00 :: (X46 :: (X37 :: (X00 :: (X46 :: (X38 :: (X00 :: (X46 :: (X39 :: (X00 :: (X46 :: (X31 :: (X30 :: (X00 :: (X46 :: (X31 :: (X31 :: (X00 :: (X46 :: (X31 :: (X32 :: (X00 :: (X46 :: (X31 :: (X33 :: (X00 :: (X46 :: (X31 :: (X34 :: (X00 :: (X46 :: (X31 :: (X35 :: (X00 :: (X46 :: (X31 :: (X36 :: (X00 :: (X46 :: (X31 :: (X37 :: (X00 :: (X46 :: (X31 :: (X38 :: (X00 :: (X46 :: (X31 :: (X39 :: (X00 :: (X46 :: (X32 :: (X30 :: (X00 :: (X46 :: (X32 :: (X31 :: (X00 :: (X46 :: (X32 :: (X32 :: (X00 :: (X46 :: (X32 :: (X33 :: (X00 :: (X46 :: (X32 :: (X34 :: (X00 :: (X46 :: (X32 :: (X35 :: (X00 :: (X46 :: (X32 :: (X36 :: (X00 :: (X46 :: (X32 :: (X37 :: (X00 :: (X46 :: (X32 :: (X38 :: (X00 :: (X46 :: (X32 :: (X39 :: (X00 :: (X46 :: (X33 :: (X30 :: (X00 :: (X46 :: (X33 :: (X31 :: (X00 :: (X46 :: (X33 :: (X32 :: (X00 :: (X46 :: (X33 :: (X33 :: (X00 :: (X46 :: (X33 :: (X34 :: (X00 :: (X46 :: (X33 :: (X35 :: (X00 :: (X53 :: (X68 :: (X69 :: (X66 :: (X74 :: (X5f :: (X4c :: (X00 :: (X53 :: (X68 :: (X69 :: (X66 :: (X74 :: (X5f :: (X52 :: (X00 :: (X43 :: (X6f :: (X6e :: (X74 :: (X72 :: (X6f :: (X6c :: (X5f :: (X4c :: (X00 :: (X43 :: (X6f :: (X6e :: (X74 :: (X72 :: (X6f :: (X6c :: (X5f :: (X52 :: (X00 :: (X43 :: (X61 :: (X70 :: (X73 :: (X5f :: (X4c :: (X6f :: (X63 :: (X6b :: (X00 :: (X53 :: (X68 :: (X69 :: (X66 :: (X74 :: (X5f :: (X4c :: (X6f :: (X63 :: (X6b :: (X00 :: (X4d :: (X65 :: (X74 :: (X61 :: (X5f :: (X4c :: (X00 :: (X4d :: (X65 :: (X74 :: (X61 :: (X5f :: (X52 :: (X00 :: (X41 :: (X6c :: (X74 :: (X5f :: (X4c :: (X00 :: (X41 :: (X6c :: (X74 :: (X5f :: (X52 :: (X00 :: (X53 :: (X75 :: (X70 :: (X65 :: (X72 :: (X5f :: (X4c :: (X00 :: (X53 :: (X75 :: (X70 :: (X65 :: (X72 :: (X5f :: (X52 :: (X00 :: (X48 :: (X79 :: (X70 :: (X65 :: (X72 :: (X5f :: (X4c :: (X00 :: (X48 :: (X79 :: (X70 :: (X65 :: (X72 :: (X5f :: (X52 :: (X00 :: (X44 :: (X65 :: (X6c :: (X65 :: (X74 :: (X65 :: (X00 :: (X56 :: (X6f :: (X69 :: (X64 :: (X53 :: (X79 :: (X6d :: (X62 :: (X6f :: (X6c :: (X00 :: (X00 :: []))))))))))))))))))))))))))))))))))))))))))))))))))))))))))))))))))))))))))))))))))))))))))))))))))))))))))))))))))))))))))))))))))))))))))))))))))))))))))))))))))))))))))))))))))))))))))))))))))))))))))))))))))))))))))))))))))))))))))))))))))))))))))))))))))))))))))))))))))))))))))))))))))))))))))))))))))))))))))))))))))))))))))))))))))))))))))))))))))))))))))))))))))))))))))))))))))))))))))))))))))))))))))))))))))))))))))))))))))))))))))))))))))))))))))))))))))))))))))))))))))))))))))))))))))))))))))))))))))))))))))))))))))))))))))))))))))))))))))))))))))))))))))))))))))))))))))))))))))))))))))))))))))))))))))))))))))))))))))))))))))))))))))))))))))))))))))))))))))))))))))))))))))))))))))))))))))))))))))))))))))))))))))))))))))))))))))))))))))))))))))))))))))))))))))))))))))))))))))))))))))))))))))))))))))))))))))))))))))))))))))))))))))))))))))))))))))))))))))))))))))))))))))))))))))))))))))))))))))))))))))))))))))))))))))))))))))))))))))))))))))))))))))))))))))))))))))))))))))))))))))))))))))))))))))))))))))))))))))))))))))))))))))))))))))))))))))))))))))))))))))))))))))))))))))))))))))))))))))))))))))))))))))))))))))))))))))))))))))))))))))))))))))))))))))))))))))))))))))))))))))))))))))))))))))))))))))))))))))))))))))))))))))))))))))))))))))))))))))))))))))))))))))))))))))))))))))))))))))))))))))))))))))))))))))))))))))))))))))))))))))))))))))))))))))))))))))))))))))))))))))))))))))))))))))))))))))))))))))))))))))))))))))))))))))))))))))))))))))))))))))))))))))))))))))))))))))))))))))))))))))))))))))))))))))))))))))))))))))))))))))))))))))))))))))))))))))))))))))))))))))))))))))))))))))))))))))))))))))))))))))))))))))))))))))))))))))))))))))))))))))))))))))))))))))))))))))))))))))))))))))))))))))))))))))))))))))))))))))))))))))))))))))))))))))))))))))))))))))))))))))))))))))))))))))))))))))))))))))))))))))))))))))))))))))))))))))))))))))))))))))))))))))))))))))))))))))))))))))))))))))))))))))))))))))))))))))))))))))))))))))))))))))))))))))))))))))))))))))))))))))))))))))))))))))))))))))))))))))))))))))))))))))))))))))))))))))))))))))))))))))))))))))))))))))))))))))))))))))))))))))))))))))))))))))))))))))))))))))))))))))))))))))))))))))))))))))))))))))))))))))))))))))))))))))))))))))))))))))))))))))))))))))))))))))))))))))))))))))))))))))))))))))))))))))))))))))))))))))))))))))))))))))))))))))))))))))))))))))))))))))))))))))))))))))))))))))))))))))))))))))))))))))))))))))))))))))))))))))))))))))))))))))))))))))))))))))))))))))))))))))))))))))))))))))))))))))))))))))))))))))))))))))))))))))))))))))))))))))))))))))))))))))))))))))))))))))))))))))))))))))))))))))))))))))))))))))))))))))))))))))))))))))))))))))))))))))))))))))))))))))))))))))))))))))))))))))))))))))))))))))))))))))))))))))))))))))))))))))))))))))))))))))))))))))))))))))))))))))))))))))))))))))))))))))))))))))))))))))))))))))))))))))))))))))))))))))))))))))))))))))))))))))))))))))))))))))))))))))))))))))))))))))))))))))))))))))))))))))))))))))))))))))))))))))))))))))))))))))))))))))))))))))))))))))))))))))))))))))))))))))))))))))))))))))))))))))))))))))))))))))))))))))))))))))))))))))))))))))))))))))))))))))))))))))))))))))))))))))))))))))))))))))))))))))))))))))))))))))))))))))))))))))))))))))))))))))))))))))))))))))))))))))))))))))))))))))))))))))))))))))))))))))))))))))))))))))))))))))))))))))))))))))))))))))))))))))))))))))))))))))))))))))))))))))))))))))))))))))))))))))))))))))))))))))))))))))))))))))))))))))))))))))))))))))))))))))))))))))))))))))))))))))))))))))))))))))))))))))))))))))))))))))))))))))))))))))))))))))))))))))))))))))))))))))))))))))))))))))))))))))))))))))))))))))))))))))))))))))))))))))))))))))))))))))))))))))))))))))))))))))))))))))))))))))))))))))))))))))))))))))))))))))))))))))))))))))))))))))))))))))))))))))))))))))))))))))))))))))))))))))))))))))))))))))))))))))))))))))))))))))))))))))))))))))))))))))))))))))))))))))))))))))))))))))))))))))))))))))))))))))))))))))))))))))))))))))))))))))))))))))))))))))))))))))))))))))))))))))))))))))))))))))))))))))))))))))))))))))))))))))))))))))))))))))))))))))))))))))))))))))))))))))))))))))))))))))))))))))))))))))))))))))))))))))))))))))))))))))))))))))))))))))))))))))))))))))))))))))))))))))))))))))))))))))))))))))))))))))))))))))))))))))))))))))))))))))))))))))))))))))))))))))))))))))))))))))))))))))))))))))))))))))))))))))))))))))))))))))))))))))))))))))))))))))))))))))))))))))))))))))))))))))))))))))))))))))))))))))))))))))))))))))))))))))))))))))))))))))))))))))))))))))))))))))))))))))))))))))))))))))))))))))))))))))))))))))))))))))))))))))))))))))))))))))))))))))))))))))))))))))))))))))))))))))))))))))))))))))))))))))))))))))))))))))))))))))))))))))))))))))))))))))))))))))))))))))))))))))))))))))))))))))))))))))))))))))))))))))))))))))))))))))))))))))))))))))))))))))))))))))))))))))))))))))))))))))))))))))))))))))))))))))))))))))))))))))))))))))))))))))))))))))))))))))))))))))))))))))))))))))))))))))))))))))))))))))))))))))))))))))))))))))))))))))))))))))))))))))))))))))))))))))))))))))))))))))))))))))))))))))))))))))))))))))))))))))))))))))))))))))))))))))))))))))))))))))))))))))))))))))))))))))))))))))))))))))))))))))))))))))))))))))))))))))))))))))))))))))))))))))))))))))))))))))))))))))))))))))))))))))))))))))))))))))))))))))))))))))))))))))))))))))))))))))))))))))))))))))))))))))))))))))))))))))))))))))))))))))))))))))))))))))))))))))))))))))))))))))))))))))))))))))))))))))))))))))))))))))))))))))))))))))))))))))))))))))))))))))))))))))))))))))))))))))))))))))))))))))))))))))))))))))))))))))))))))))))))))))))))))))))))))))))))))))))))))))))))))))))))))))))))))))))))))))))))))))))))))))))))))))))))))))))))))))))))))))))))))))))))))))))))))))))))))))))))))))))))))))))))))))))))))))))))))))))))))))))))))))))))))))))))))))))))))))))))))))))))))))))))))))))))))))))))))))))))))))))))))))))))))))))))))))))))))))))))))))))))))))))))))))))))))))))))))))))))))))))))))))))))))))))))))))))))))))))))))))))))))))))))))))))))))))))))))))))))))))))))))))))))))))))))))))))))))))))))))))))))))))))))))))))))))))))))))))))))))))))))))))))))))))))))))))))))))))))))))))))))))))))))))))))))))))))))))))))))))))))))))))))))))))))))))))))))))))))))))))))))))))))))))))))))))))))))))))))))))))))))))))))))))))))))))))))))))))))))))))))))))))))))))))))))))))))))))))))))))))))))))))))))))))))))))))))))))))))))))))))))))))))))))))))))))))))))))))))))))))))))))))))))))))))))))))))))))))))))))))))))))))))))))))))))))))))))))))))))))))))))))))))))))))))))))))))))))))))))))))))))))))))))))))))))))))))))))))))))))))))))))))))))))))))))))))))))))))))))))))))))))))))))))))))))))))))))))))))))))))))))))))))))))))))))))))))))))))))))))))))))))))))))))))))))))))))))))))))))))))))))))))))))))))))))))))))))))))))))))))))))))))))))))))))))))))))))))))))))))))))))))))))))))))))))))))))))))))))))))))))))))))))))))))))))))))))))))))))))))))))))))))))))))))))))))))))))))))))))))))))))))))))))))))))))))))))))))))))))))))))))))))))))))))))))))))))))))))))))))))))))))))))))))))))))))))))))))))))))))))))))))))))))))))))))))))))))))))))))))))))))))))))))))))))))))))))))))))))))))))))))))))))))))))))))))))))))))))))))))))))))))))))))))))))))))))))))))))))))))))))))))))))))))))))))))))))))))))))))))))))))))))))))))))))))))))))))))))))))))))))))))))))))))))))))))))))))))))))))))))))))))))))))))))))))))))))))))))))))))))))))))))))))))))))))))))))))))))))))))))))))))))))))))))))))))))))))))))))))))))))))))))))))))))))))))))))))))))))))))))))))))))))))))))))))))))))))))))))))))))))))))))))))))))))))))))))))))))))))))))))))))))))))))))))))))))))))))))))))))))))))))))))))))))))))))))))))))))))))))))))))))))))))))))))))))))))))))))))))))))))))))))))))))))))))))))))))))))))))))))))))))))))))))))))))))))))))))))))))))))))))))))))))))))))))))))))))))))))))))))))))))))))))))))))))))))))))))))))))))))))))))))))))))))))))))))))))))))))))))))))))))))))))))))))))))))))))))))))))))))))))))))))))))))))))))))))))))))))))))))))))))))))))))))))))))))))))))))))))))))))))))))))))))))))))))))))))))))))))))))))))))))))))))))))))))))))))))))))))))))))))))))))))))))))))))))))))))))))))))))))))))))))))))))))))))))))))))))))))))))))))))))))))))))))))))))))))))))))))))))))))))))))))))))))))))))))))))))))))))))))))))))))))))))))))))))))))))))))))))))))))))))))))))))))))))))))))))))))))))))))))))))))))))))))))))))))))))))))))))))))))))))))))))))))))))))))))))))))))))))))))))))))))))))))))))))))))))))))))))))))))))))))))))))))))))))))))))))))))))))))))))))))))))))))))))))))))))))))))))))))))))))))))))))))))))))))))))))))))))))))))))))))))))))))))))))))))))))))))))))))))))))))))))))))))))))))))))))))))))))))))))))))))))))))))))))))))))))))))))))))))))))))))))))))))))))))))))))))))))))))))))))))))))))))))))))))))))))))))))))))))))))))))))))))))))))))))))))))))))))))))))))))))))))))))))))))))))))))))))))))))))))))))))))))))))))))))))))))))))))))))))))))))))))))))))))))))))))))))))))))))))))))))))))))))))))))))))))))))))))))))))))))))))))))))))))))))))))))))))))))))))))))))))))))))))))))))))))))))))))))))))))))))))))))))))))))))))))))))))))))))))))))))))))))))))))))))))))))))))))))))))))))))))))))))))))))))))))))))))))))))))))))))))))))))))))))))))))))))))))))))))))))))))))))))))))))))))))))))))))))))))))))))))))))))))))))))))))))))))))))))))))))))))))))))))))))))))))))))))))))))))))))))))))))))))))))))))))))))))))))))))))))))))))))))))))))))))))))))))))))))))))))))))))))))))))))))))))))))))))))))))))))))))))))))))))))))))))))))))))))))))))))))))))))))))))))))))))))))))))))))))))))))))))))))))))))))))))))))))))))))))))))))))))))))))))))))))))))))))))))))))))))))))))))))))))))))))))))))))))))))))))))))))))))))))))))))))))))))))))))))))))))))))))))))))))))))))))))))))))))))))))))))))))))))))))))))))))))))))))))))))))))))))))))))))))))))))))))))))))))))))))))))))))))))))))))))))))))))))))))))))))))))))))))))))))))))))))))))))))))))))))))))))))))))))))))))))))))))))))))))))))))))))))))))))))))))))))))))))))))))))))))))))))))))))))))))))))))))))))))))))))))))))))))))))))))))))))))))))))))))))))))))))))))))))))))))))))))))))))))))))))))))))))))))))))))))))))))))))))))))))))))))))))))))))))))))))))))))))))))))))))))))))))))))))))))))))))))))))))))))))))))))))))))))))))))))))))))))))))))))))))))))))))))))))))))))))))))))))))))))))))))))))))))))))))))))))))))))))))))))))))))))))))))))))))))))))))))))))))))))))))))))))))))))))))))))))))))))))))))))))))))))))))))))))))))))))))))))))))))))))))))))))))))))))))))))))))))))))))))))))))))))))))))))))))))))))))))))))))))))))))))))))))))))))))))))))))))))))))))))))))))))))))))))))))))))))))))))))))))))))))))))))))))))))))))))))))))))))))))))))))))))))))))))))))))))))))))))))))))))))))))))))))))))))))))))))))))))))))))))))))))))))))))))))))))))))))))))))))))))))))))))))))))))))))))))))))))))))))))))))))))))))))))))))))))))))))))))))))))))))))))))))))))))))))))))))))))))))))))))))))))))))))))))))))))))))))))))))))))))))))))))))))))))))))))))))))))))))))))))))))))))))))))))))))))))))))))))))))))))))))))))))))))))))))))))))))))))))))))))))))))))))))))))))))))))))))))))))))))))))))))))))))))))))))))))))))))))))))))))))))))))))))))))))))))))))))))))))))))))))))))))))))))))))))))))))))))))))))))))))))))))))))))))))))))))))))))))))))))))))))))))))))))))))))))))))))))))))))))))))))))))))))))))))))))))))))))))))))))))))))))))))))))))))))))))))))))))))))))))))))))))))))))))))))))))))))))))))))))))))))))))))))))))))))))))))))))))))))))))))))))))))))))))))))))))))))))))))))))))))))))))))))))))))))))))))))))))))))))))))))))))))))))))))))))))))))))))))))))))))))))))))))))))))))))))))))))))))))))))))))))))))))))))))))))))))))))))))))))))))))))))))))))))))))))))))))))))))))))))))))))))))))))))))))))))))))))))))))))))))))))))))))))))))))))))))))))))))))))))))))))))))))))))))))))))))))))))))))))))))))))))))))))))))))))))))))))))))))))))))))))))))))))))))))))))))))))))))))))))))))))))))))))))))))))))))))))))))))))))))))))))))))))))))))))))))))))))))))))))))))))))))))))))))))))))))))))))))))))))))))))))))))))))))))))))))))))))))))))))))))))))))))))))))))))))))))))))))))))))))))))))))))))))))))))))))))))))))))))))))))))))))))))))))))))))))))))))))))))))))))))))))))))))))))))))))))))))))))))))))))))))))))))))))))))))))))))))))))))))))))))))))))))))))))))))))))))))))))))))))))))))))))))))))))))))))))))))))))))))))))))))))))))))))))))))))))))))))))))))))))))))))))))))))))))))))))))))))))))))))))))))))))))))))))))))))))))))))))))))))))))))))))))))))))))))))))))))))))))))))))))))))))))))))))))))))))))))))))))))))))))))))))))))))))))))))))))))))))))))))))))))))))))))))))))))))))))))))))))))))))))))))))))))))))))))))))))))))))))))))))))))))))))))))))))))))))))))))))))))))))))))))))))))))))))))))))))))))))))))))))))))))))))))))))))))))))))))))))))))))))))))))))))))))))))))))))))))))))))))))))))))))))))))))))))))))))))))))))))))))))))))))))))))))))))))))))))))))))))))))))))))))))))))))))))))))))))))))))))))))))))))))))))))))))))))))))))))))))))))))))))))))))))))))))))))))))))))))))))))))))))))))))))))))))))))))))))))))))))))))))))))))))))))))))))))))))))))))))))))))))))))))))))))))))))))))))))))))))))))))))))))))))))))))))))))))))))))))))))))))))))))))))))))))))))))))))))))))))))))))))))))))))))))))))))))))))))))))))))))))))))))))))))))))))))))))))))))))))))))))))))))))))))))))))))))))))))))))))))))))))))))))))))))))))))))))))))))))))))))))))))))))))))))))))))))))))))))))))))))))))))))))))))))))))))))))))))))))))))))))))))))))))))))))))))))))))))))))))))))))))))))))))))))))))))))))))))))))))))))))))))))))))))))))))))))))))))))))))))))))))))))))))))))))))))))))))))))))))))))))))))))))))))))))))))))))))))))))))))))))))))))))))))))))))))))))))))))))))))))))))))))))))))))))))))))))))))))))))))))))))))))))))))))))))))))))))))))))))))))))))))))))))))))))))))))))))))))))))))))))))))))))))))))))))))))))))))))))))))))))))))))))))))))))))))))))))))))))))))))))))))))))))))))))))))))))))))))))))))))))))))))))))))))))))))))))))))))))))))))))))))))))))))))))))))))))))))))))))))))))))))))))))))))))))))))))))))))))))))))))))))))))))))))))))))))))))))))))))))))))))))))))))))))))))))))))))))))))))))))))))))))))))))))))))))))))))))))))))))))))))))))))))))))))))))))))))))))))))))))))))))))))))))))))))))))))))))))))))))))))))))))))))))))))))))))))))))))))))))))))))))))))))))))))))))))))))))))))))))))))))))))))))))))))))))))))))))))))))))))))))))))))))))))))))))))))))))))))))))))))))))))))))))))))))))))))))))))))))))))))))))))))))))))))))))))))))))))))))))))))))))))))))))))))))))))))))))))))))))))))))))))

(** val keys_by_keyval : (z * n) list **)

let keys_by_keyval =
  ((Zpos (XO (XO (XO (XO (XO XH)))))), N0) :: (((Zpos (XI (XO (XO (XO (XO
    XH)))))), (Npos (XO (XI XH)))) :: (((Zpos (XO (XI (XO (XO (XO XH)))))),
    (Npos (XI (XO (XI XH))))) :: (((Zpos (XI (XI (XO (XO (XO XH)))))), (Npos
    (XO (XI (XI (XO XH)))))) :: (((Zpos (XO (XO (XI (XO (XO XH)))))), (Npos
    (XI (XO (XO (XO (XO XH))))))) :: (((Zpos (XI (XO (XI (XO (XO XH)))))),
    (Npos (XO (XO (XO (XI (XO XH))))))) :: (((Zpos (XO (XI (XI (XO (XO
    XH)))))), (Npos (XO (XO (XO (XO (XI XH))))))) :: (((Zpos (XI (XI (XI (XO
    (XO XH)))))), (Npos (XO (XI (XO (XI (XI XH))))))) :: (((Zpos (XI (XI (XI
    (XO (XO XH)))))), (Npos (XI (XO (XI (XO (XO (XO XH)))))))) :: (((Zpos (XO
    (XO (XO (XI (XO XH)))))), (Npos (XO (XO (XO (XO (XI (XO
    XH)))))))) :: (((Zpos (XI (XO (XO (XI (XO XH)))))), (Npos (XO (XI (XO (XI
    (XI (XO XH)))))))) :: (((Zpos (XO (XI (XO (XI (XO XH)))))), (Npos (XI (XO
    (XI (XO (XO (XI XH)))))))) :: (((Zpos (XI (XI (XO (XI (XO XH)))))), (Npos
    (XO (XI (XI (XI (XO (XI XH)))))))) :: (((Zpos (XO (XO (XI (XI (XO
    XH)))))), (Npos (XI (XI (XO (XO (XI (XI XH)))))))) :: (((Zpos (XI (XO (XI
    (XI (XO XH)))))), (Npos (XI (XO (XO (XI (XI (XI XH)))))))) :: (((Zpos (XO
    (XI (XI (XI (XO XH)))))), (Npos (XI (XI (XI (XI (XI (XI
    XH)))))))) :: (((Zpos (XI (XI (XI (XI (XO XH)))))), (Npos (XO (XI (XI (XO
    (XO (XO (XO XH))))))))) :: (((Zpos (XO (XO (XO (XO (XI XH)))))), (Npos
    (XO (XO (XI (XI (XO (XO (XO XH))))))))) :: (((Zpos (XI (XO (XO (XO (XI
    XH)))))), (Npos (XO (XI (XI (XI (XO (XO (XO XH))))))))) :: (((Zpos (XO
    (XI (XO (XO (XI XH)))))), (Npos (XO (XO (XO (XO (XI (XO (XO
    XH))))))))) :: (((Zpos (XI (XI (XO (XO (XI XH)))))), (Npos (XO (XI (XO
    (XO (XI (XO (XO XH))))))))) :: (((Zpos (XO (XO (XI (XO (XI XH)))))),
    (Npos (XO (XO (XI (XO (XI (XO (XO XH))))))))) :: (((Zpos (XI (XO (XI (XO
    (XI XH)))))), (Npos (XO (XI (XI (XO (XI (XO (XO XH))))))))) :: (((Zpos
    (XO (XI (XI (XO (XI XH)))))), (Npos (XO (XO (XO (XI (XI (XO (XO
    XH))))))))) :: (((Zpos (XI (XI (XI (XO (XI XH)))))), (Npos (XO (XI (XO
    (XI (XI (XO (XO XH))))))))) :: (((Zpos (XO (XO (XO (XI (XI XH)))))),
    (Npos (XO (XO (XI (XI (XI (XO (XO XH))))))))) :: (((Zpos (XI (XO (XO (XI
    (XI XH)))))), (Npos (XO (XI (XI (XI (XI (XO (XO XH))))))))) :: (((Zpos
    (XO (XI (XO (XI (XI XH)))))), (Npos (XO (XO (XO (XO (XO (XI (XO
    XH))))))))) :: (((Zpos (XI (XI (XO (XI (XI XH)))))), (Npos (XO (XI (XI
    (XO (XO (XI (XO XH))))))))) :: (((Zpos (XO (XO (XI (XI (XI XH)))))),
    (Npos (XO (XO (XO (XO (XI (XI (XO XH))))))))) :: (((Zpos (XI (XO (XI (XI
    (XI XH)))))), (Npos (XI (XO (XI (XO (XI (XI (XO XH))))))))) :: (((Zpos
    (XO (XI (XI (XI (XI XH)))))), (Npos (XI (XI (XO (XI (XI (XI (XO
    XH))))))))) :: (((Zpos (XI (XI (XI (XI (XI XH)))))), (Npos (XI (XI (XO
    (XO (XO (XO (XI XH))))))))) :: (((Zpos (XO (XO (XO (XO (XO (XO XH))))))),
    (Npos (XO (XO (XI (XI (XO (XO (XI XH))))))))) :: (((Zpos (XI (XO (XO (XO
    (XO (XO XH))))))), (Npos (XI (XI (XI (XI (XO (XO (XI
    XH))))))))) :: (((Zpos (XO (XI (XO (XO (XO (XO XH))))))), (Npos (XI (XO
    (XO (XO (XI (XO (XI XH))))))))) :: (((Zpos (XI (XI (XO (XO (XO (XO
    XH))))))), (Npos (XI (XI (XO (XO (XI (XO (XI XH))))))))) :: (((Zpos (XO
    (XO (XI (XO (XO (XO XH))))))), (Npos (XI (XO (XI (XO (XI (XO (XI
    XH))))))))) :: (((Zpos (XI (XO (XI (XO (XO (XO XH))))))), (Npos (XI (XI
    (XI (XO (XI (XO (XI XH))))))))) :: (((Zpos (XO (XI (XI (XO (XO (XO
    XH))))))), (Npos (XI (XO (XO (XI (XI (XO (XI XH))))))))) :: (((Zpos (XI
    (XI (XI (XO (XO (XO XH))))))), (Npos (XI (XI (XO (XI (XI (XO (XI
    XH))))))))) :: (((Zpos (XO (XO (XO (XI (XO (XO XH))))))), (Npos (XI (XO
    (XI (XI (XI (XO (XI XH))))))))) :: (((Zpos (XI (XO (XO (XI (XO (XO
    XH))))))), (Npos (XI (XI (XI (XI (XI (XO (XI XH))))))))) :: (((Zpos (XO
    (XI (XO (XI (XO (XO XH))))))), (Npos (XI (XO (XO (XO (XO (XI (XI
    XH))))))))) :: (((Zpos (XI (XI (XO (XI (XO (XO XH))))))), (Npos (XI (XI
    (XO (XO (XO (XI (XI XH))))))))) :: (((Zpos (XO (XO (XI (XI (XO (XO
    XH))))))), (Npos (XI (XO (XI (XO (XO (XI (XI XH))))))))) :: (((Zpos (XI
    (XO (XI (XI (XO (XO XH))))))), (Npos (XI (XI (XI (XO (XO (XI (XI
    XH))))))))) :: (((Zpos (XO (XI (XI (XI (XO (XO XH))))))), (Npos (XI (XO
    (XO (XI (XO (XI (XI XH))))))))) :: (((Zpos (XI (XI (XI (XI (XO (XO
    XH))))))), (Npos (XI (XI (XO (XI (XO (XI (XI XH))))))))) :: (((Zpos (XO
    (XO (XO (XO (XI (XO XH))))))), (Npos (XI (XO (XI (XI (XO (XI (XI
    XH))))))))) :: (((Zpos (XI (XO (XO (XO (XI (XO XH))))))), (Npos (XI (XI
    (XI (XI (XO (XI (XI XH))))))))) :: (((Zpos (XO (XI (XO (XO (XI (XO
    XH))))))), (Npos (XI (XO (XO (XO (XI (XI (XI XH))))))))) :: (((Zpos (XI
    (XI (XO (XO (XI (XO XH))))))), (Npos (XI (XI (XO (XO (XI (XI (XI
    XH))))))))) :: (((Zpos (XO (XO (XI (XO (XI (XO XH))))))), (Npos (XI (XO
    (XI (XO (XI (XI (XI XH))))))))) :: (((Zpos (XI (XO (XI (XO (XI (XO
    XH))))))), (Npos (XI (XI (XI (XO (XI (XI (XI XH))))))))) :: (((Zpos (XO
    (XI (XI (XO (XI (XO XH))))))), (Npos (XI (XO (XO (XI (XI (XI (XI
    XH))))))))) :: (((Zpos (XI (XI (XI (XO (XI (XO XH))))))), (Npos (XI (XI
    (XO (XI (XI (XI (XI XH))))))))) :: (((Zpos (XO (XO (XO (XI (XI (XO
    XH))))))), (Npos (XI (XO (XI (XI (XI (XI (XI XH))))))))) :: (((Zpos (XI
    (XO (XO (XI (XI (XO XH))))))), (Npos (XI (XI (XI (XI (XI (XI (XI
    XH))))))))) :: (((Zpos (XO (XI (XO (XI (XI (XO XH))))))), (Npos (XI (XO
    (XO (XO (XO (XO (XO (XO XH)))))))))) :: (((Zpos (XI (XI (XO (XI (XI (XO
    XH))))))), (Npos (XI (XI (XO (XO (XO (XO (XO (XO XH)))))))))) :: (((Zpos
    (XO (XO (XI (XI (XI (XO XH))))))), (Npos (XI (XI (XI (XI (XO (XO (XO (XO
    XH)))))))))) :: (((Zpos (XI (XO (XI (XI (XI (XO XH))))))), (Npos (XI (XO
    (XO (XI (XI (XO (XO (XO XH)))))))))) :: (((Zpos (XO (XI (XI (XI (XI (XO
    XH))))))), (Npos (XO (XI (XI (XO (XO (XI (XO (XO XH)))))))))) :: (((Zpos
    (XI (XI (XI (XI (XI (XO XH))))))), (Npos (XO (XI (XO (XO (XI (XI (XO (XO
    XH)))))))))) :: (((Zpos (XO (XO (XO (XO (XO (XI XH))))))), (Npos (XI (XO
    (XI (XI (XI (XI (XO (XO XH)))))))))) :: (((Zpos (XO (XO (XO (XO (XO (XI
    XH))))))), (Npos (XI (XI (XO (XO (XO (XO (XI (XO XH)))))))))) :: (((Zpos
    (XI (XO (XO (XO (XO (XI XH))))))), (Npos (XI (XO (XI (XI (XO (XO (XI (XO
    XH)))))))))) :: (((Zpos (XO (XI (XO (XO (XO (XI XH))))))), (Npos (XI (XI
    (XI (XI (XO (XO (XI (XO XH)))))))))) :: (((Zpos (XI (XI (XO (XO (XO (XI
    XH))))))), (Npos (XI (XO (XO (XO (XI (XO (XI (XO XH)))))))))) :: (((Zpos
    (XO (XO (XI (XO (XO (XI XH))))))), (Npos (XI (XI (XO (XO (XI (XO (XI (XO
    XH)))))))))) :: (((Zpos (XI (XO (XI (XO (XO (XI XH))))))), (Npos (XI (XO
    (XI (XO (XI (XO (XI (XO XH)))))))))) :: (((Zpos (XO (XI (XI (XO (XO (XI
    XH))))))), (Npos (XI (XI (XI (XO (XI (XO (XI (XO XH)))))))))) :: (((Zpos
    (XI (XI (XI (XO (XO (XI XH))))))), (Npos (XI (XO (XO (XI (XI (XO (XI (XO
    XH)))))))))) :: (((Zpos (XO (XO (XO (XI (XO (XI XH))))))), (Npos (XI (XI
    (XO (XI (XI (XO (XI (XO XH)))))))))) :: (((Zpos (XI (XO (XO (XI (XO (XI
    XH))))))), (Npos (XI (XO (XI (XI (XI (XO (XI (XO XH)))))))))) :: (((Zpos
    (XO (XI (XO (XI (XO (XI XH))))))), (Npos (XI (XI (XI (XI (XI (XO (XI (XO
    XH)))))))))) :: (((Zpos (XI (XI (XO (XI (XO (XI XH))))))), (Npos (XI (XO
    (XO (XO (XO (XI (XI (XO XH)))))))))) :: (((Zpos (XO (XO (XI (XI (XO (XI
    XH))))))), (Npos (XI (XI (XO (XO (XO (XI (XI (XO XH)))))))))) :: (((Zpos
    (XI (XO (XI (XI (XO (XI XH))))))), (Npos (XI (XO (XI (XO (XO (XI (XI (XO
    XH)))))))))) :: (((Zpos (XO (XI (XI (XI (XO (XI XH))))))), (Npos (XI (XI
    (XI (XO (XO (XI (XI (XO XH)))))))))) :: (((Zpos (XI (XI (XI (XI (XO (XI
    XH))))))), (Npos (XI (XO (XO (XI (XO (XI (XI (XO XH)))))))))) :: (((Zpos
    (XO (XO (XO (XO (XI (XI XH))))))), (Npos (XI (XI (XO (XI (XO (XI (XI (XO
    XH)))))))))) :: (((Zpos (XI (XO (XO (XO (XI (XI XH))))))), (Npos (XI (XO
    (XI (XI (XO (XI (XI (XO XH)))))))))) :: (((Zpos (XO (XI (XO (XO (XI (XI
    XH))))))), (Npos (XI (XI (XI (XI (XO (XI (XI (XO XH)))))))))) :: (((Zpos
    (XI (XI (XO (XO (XI (XI XH))))))), (Npos (XI (XO (XO (XO (XI (XI (XI (XO
    XH)))))))))) :: (((Zpos (XO (XO (XI (XO (XI (XI XH))))))), (Npos (XI (XI
    (XO (XO (XI (XI (XI (XO XH)))))))))) :: (((Zpos (XI (XO (XI (XO (XI (XI
    XH))))))), (Npos (XI (XO (XI (XO (XI (XI (XI (XO XH)))))))))) :: (((Zpos
    (XO (XI (XI (XO (XI (XI XH))))))), (Npos (XI (XI (XI (XO (XI (XI (XI (XO
    XH)))))))))) :: (((Zpos (XI (XI (XI (XO (XI (XI XH))))))), (Npos (XI (XO
    (XO (XI (XI (XI (XI (XO XH)))))))))) :: (((Zpos (XO (XO (XO (XI (XI (XI
    XH))))))), (Npos (XI (XI (XO (XI (XI (XI (XI (XO XH)))))))))) :: (((Zpos
    (XI (XO (XO (XI (XI (XI XH))))))), (Npos (XI (XO (XI (XI (XI (XI (XI (XO
    XH)))))))))) :: (((Zpos (XO (XI (XO (XI (XI (XI XH))))))), (Npos (XI (XI
    (XI (XI (XI (XI (XI (XO XH)))))))))) :: (((Zpos (XI (XI (XO (XI (XI (XI
    XH))))))), (Npos (XI (XO (XO (XO (XO (XO (XO (XI XH)))))))))) :: (((Zpos
    (XO (XO (XI (XI (XI (XI XH))))))), (Npos (XI (XI (XO (XI (XO (XO (XO (XI
    XH)))))))))) :: (((Zpos (XI (XO (XI (XI (XI (XI XH))))))), (Npos (XI (XI
    (XI (XI (XO (XO (XO (XI XH)))))))))) :: (((Zpos (XO (XI (XI (XI (XI (XI
    XH))))))), (Npos (XO (XI (XO (XI (XI (XO (XO (XI XH)))))))))) :: (((Zpos
    (XO (XO (XO (XO (XO (XI (XO XH)))))))), (Npos (XI (XO (XI (XO (XO (XI (XO
    (XI XH)))))))))) :: (((Zpos (XI (XO (XO (XO (XO (XI (XO XH)))))))), (Npos
    (XO (XI (XO (XO (XI (XI (XO (XI XH)))))))))) :: (((Zpos (XO (XI (XO (XO
    (XO (XI (XO XH)))))))), (Npos (XI (XO (XI (XI (XI (XI (XO (XI
    XH)))))))))) :: (((Zpos (XI (XI (XO (XO (XO (XI (XO XH)))))))), (Npos (XO
    (XI (XO (XO (XO (XO (XI (XI XH)))))))))) :: (((Zpos (XO (XO (XI (XO (XO
    (XI (XO XH)))))))), (Npos (XI (XI (XO (XI (XO (XO (XI (XI
    XH)))))))))) :: (((Zpos (XI (XO (XI (XO (XO (XI (XO XH)))))))), (Npos (XO
    (XO (XI (XO (XI (XO (XI (XI XH)))))))))) :: (((Zpos (XO (XI (XI (XO (XO
    (XI (XO XH)))))))), (Npos (XO (XO (XO (XI (XI (XO (XI (XI
    XH)))))))))) :: (((Zpos (XI (XI (XI (XO (XO (XI (XO XH)))))))), (Npos (XO
    (XI (XO (XO (XO (XI (XI (XI XH)))))))))) :: (((Zpos (XO (XO (XO (XI (XO
    (XI (XO XH)))))))), (Npos (XO (XI (XO (XI (XO (XI (XI (XI
    XH)))))))))) :: (((Zpos (XI (XO (XO (XI (XO (XI (XO XH)))))))), (Npos (XO
    (XO (XI (XO (XI (XI (XI (XI XH)))))))))) :: (((Zpos (XO (XI (XO (XI (XO
    (XI (XO XH)))))))), (Npos (XO (XI (XI (XI (XI (XI (XI (XI
    XH)))))))))) :: (((Zpos (XI (XI (XO (XI (XO (XI (XO XH)))))))), (Npos (XO
    (XI (XO (XI (XO (XO (XO (XO (XO XH))))))))))) :: (((Zpos (XO (XO (XI (XI
    (XO (XI (XO XH)))))))), (Npos (XO (XO (XO (XI (XI (XO (XO (XO (XO
    XH))))))))))) :: (((Zpos (XI (XO (XI (XI (XO (XI (XO XH)))))))), (Npos
    (XO (XO (XO (XO (XO (XI (XO (XO (XO XH))))))))))) :: (((Zpos (XO (XI (XI
    (XI (XO (XI (XO XH)))))))), (Npos (XI (XI (XI (XO (XO (XI (XO (XO (XO
    XH))))))))))) :: (((Zpos (XI (XI (XI (XI (XO (XI (XO XH)))))))), (Npos
    (XO (XI (XO (XO (XI (XI (XO (XO (XO XH))))))))))) :: (((Zpos (XO (XO (XO
    (XO (XI (XI (XO XH)))))))), (Npos (XI (XO (XO (XI (XI (XI (XO (XO (XO
    XH))))))))))) :: (((Zpos (XI (XO (XO (XO (XI (XI (XO XH)))))))), (Npos
    (XO (XO (XO (XO (XO (XO (XI (XO (XO XH))))))))))) :: (((Zpos (XO (XI (XO
    (XO (XI (XI (XO XH)))))))), (Npos (XO (XI (XO (XI (XO (XO (XI (XO (XO
    XH))))))))))) :: (((Zpos (XI (XI (XO (XO (XI (XI (XO XH)))))))), (Npos
    (XO (XI (XI (XO (XI (XO (XI (XO (XO XH))))))))))) :: (((Zpos (XO (XO (XI
    (XO (XI (XI (XO XH)))))))), (Npos (XO (XO (XI (XO (XO (XI (XI (XO (XO
    XH))))))))))) :: (((Zpos (XI (XO (XI (XO (XI (XI (XO XH)))))))), (Npos
    (XO (XI (XO (XI (XO (XI (XI (XO (XO XH))))))))))) :: (((Zpos (XO (XI (XI
    (XO (XI (XI (XO XH)))))))), (Npos (XI (XO (XI (XI (XO (XI (XI (XO (XO
    XH))))))))))) :: (((Zpos (XI (XI (XI (XO (XI (XI (XO XH)))))))), (Npos
    (XI (XI (XI (XO (XI (XI (XI (XO (XO XH))))))))))) :: (((Zpos (XO (XO (XO
    (XI (XI (XI (XO XH)))))))), (Npos (XO (XI (XI (XO (XO (XO (XO (XI (XO
    XH))))))))))) :: (((Zpos (XI (XO (XO (XI (XI (XI (XO XH)))))))), (Npos
    (XO (XI (XI (XI (XO (XO (XO (XI (XO XH))))))))))) :: (((Zpos (XO (XI (XO
    (XI (XI (XI (XO XH)))))))), (Npos (XO (XI (XO (XI (XI (XO (XO (XI (XO
    XH))))))))))) :: (((Zpos (XI (XI (XO (XI (XI (XI (XO XH)))))))), (Npos
    (XO (XO (XI (XO (XO (XI (XO (XI (XO XH))))))))))) :: (((Zpos (XO (XO (XI
    (XI (XI (XI (XO XH)))))))), (Npos (XI (XI (XO (XO (XI (XI (XO (XI (XO
    XH))))))))))) :: (((Zpos (XI (XO (XI (XI (XI (XI (XO XH)))))))), (Npos
    (XO (XI (XI (XI (XI (XI (XO (XI (XO XH))))))))))) :: (((Zpos (XO (XI (XI
    (XI (XI (XI (XO XH)))))))), (Npos (XO (XI (XI (XO (XO (XO (XI (XI (XO
    XH))))))))))) :: (((Zpos (XI (XI (XI (XI (XI (XI (XO XH)))))))), (Npos
    (XO (XO (XI (XO (XI (XO (XI (XI (XO XH))))))))))) :: (((Zpos (XO (XO (XO
    (XO (XO (XO (XI XH)))))))), (Npos (XI (XO (XO (XO (XO (XI (XI (XI (XO
    XH))))))))))) :: (((Zpos (XI (XO (XO (XO (XO (XO (XI XH)))))))), (Npos
    (XO (XO (XO (XI (XO (XI (XI (XI (XO XH))))))))))) :: (((Zpos (XO (XI (XO
    (XO (XO (XO (XI XH)))))))), (Npos (XI (XI (XI (XI (XO (XI (XI (XI (XO
    XH))))))))))) :: (((Zpos (XI (XI (XO (XO (XO (XO (XI XH)))))))), (Npos
    (XI (XI (XO (XI (XI (XI (XI (XI (XO XH))))))))))) :: (((Zpos (XO (XO (XI
    (XO (XO (XO (XI XH)))))))), (Npos (XO (XI (XO (XO (XO (XO (XO (XO (XI
    XH))))))))))) :: (((Zpos (XI (XO (XI (XO (XO (XO (XI XH)))))))), (Npos
    (XI (XO (XI (XI (XO (XO (XO (XO (XI XH))))))))))) :: (((Zpos (XO (XI (XI
    (XO (XO (XO (XI XH)))))))), (Npos (XI (XI (XO (XO (XI (XO (XO (XO (XI
    XH))))))))))) :: (((Zpos (XI (XI (XI (XO (XO (XO (XI XH)))))))), (Npos
    (XO (XI (XI (XO (XI (XO (XO (XO (XI XH))))))))))) :: (((Zpos (XO (XO (XO
    (XI (XO (XO (XI XH)))))))), (Npos (XI (XI (XI (XI (XI (XO (XO (XO (XI
    XH))))))))))) :: (((Zpos (XI (XO (XO (XI (XO (XO (XI XH)))))))), (Npos
    (XO (XI (XI (XO (XO (XI (XO (XO (XI XH))))))))))) :: (((Zpos (XO (XI (XO
    (XI (XO (XO (XI XH)))))))), (Npos (XI (XO (XI (XI (XO (XI (XO (XO (XI
    XH))))))))))) :: (((Zpos (XI (XI (XO (XI (XO (XO (XI XH)))))))), (Npos
    (XI (XO (XO (XI (XI (XI (XO (XO (XI XH))))))))))) :: (((Zpos (XO (XO (XI
    (XI (XO (XO (XI XH)))))))), (Npos (XO (XO (XI (XO (XO (XO (XI (XO (XI
    XH))))))))))) :: (((Zpos (XI (XO (XI (XI (XO (XO (XI XH)))))))), (Npos
    (XI (XI (XO (XI (XO (XO (XI (XO (XI XH))))))))))) :: (((Zpos (XO (XI (XI
    (XI (XO (XO (XI XH)))))))), (Npos (XO (XI (XO (XO (XI (XO (XI (XO (XI
    XH))))))))))) :: (((Zpos (XI (XI (XI (XI (XO (XO (XI XH)))))))), (Npos
    (XO (XI (XI (XI (XI (XO (XI (XO (XI XH))))))))))) :: (((Zpos (XO (XO (XO
    (XO (XI (XO (XI XH)))))))), (Npos (XI (XO (XO (XI (XO (XI (XI (XO (XI
    XH))))))))))) :: (((Zpos (XO (XO (XO (XO (XI (XO (XI XH)))))))), (Npos
    (XI (XO (XI (XI (XO (XI (XI (XO (XI XH))))))))))) :: (((Zpos (XI (XO (XO
    (XO (XI (XO (XI XH)))))))), (Npos (XI (XO (XO (XO (XI (XI (XI (XO (XI
    XH))))))))))) :: (((Zpos (XO (XI (XO (XO (XI (XO (XI XH)))))))), (Npos
    (XO (XO (XO (XI (XI (XI (XI (XO (XI XH))))))))))) :: (((Zpos (XI (XI (XO
    (XO (XI (XO (XI XH)))))))), (Npos (XI (XI (XI (XI (XI (XI (XI (XO (XI
    XH))))))))))) :: (((Zpos (XO (XO (XI (XO (XI (XO (XI XH)))))))), (Npos
    (XO (XI (XI (XO (XO (XO (XO (XI (XI XH))))))))))) :: (((Zpos (XI (XO (XI
    (XO (XI (XO (XI XH)))))))), (Npos (XO (XI (XO (XO (XI (XO (XO (XI (XI
    XH))))))))))) :: (((Zpos (XO (XI (XI (XO (XI (XO (XI XH)))))))), (Npos
    (XI (XO (XO (XI (XI (XO (XO (XI (XI XH))))))))))) :: (((Zpos (XI (XI (XI
    (XO (XI (XO (XI XH)))))))), (Npos (XO (XO (XI (XO (XO (XI (XO (XI (XI
    XH))))))))))) :: (((Zpos (XO (XO (XO (XI (XI (XO (XI XH)))))))), (Npos
    (XI (XO (XI (XI (XO (XI (XO (XI (XI XH))))))))))) :: (((Zpos (XI (XO (XO
    (XI (XI (XO (XI XH)))))))), (Npos (XO (XI (XI (XO (XI (XI (XO (XI (XI
    XH))))))))))) :: (((Zpos (XO (XI (XO (XI (XI (XO (XI XH)))))))), (Npos
    (XI (XO (XI (XI (XI (XI (XO (XI (XI XH))))))))))) :: (((Zpos (XI (XI (XO
    (XI (XI (XO (XI XH)))))))), (Npos (XO (XO (XI (XO (XO (XO (XI (XI (XI
    XH))))))))))) :: (((Zpos (XO (XO (XI (XI (XI (XO (XI XH)))))))), (Npos
    (XO (XO (XO (XO (XI (XO (XI (XI (XI XH))))))))))) :: (((Zpos (XI (XO (XI
    (XI (XI (XO (XI XH)))))))), (Npos (XI (XI (XO (XI (XI (XO (XI (XI (XI
    XH))))))))))) :: (((Zpos (XO (XI (XI (XI (XI (XO (XI XH)))))))), (Npos
    (XO (XI (XO (XO (XO (XI (XI (XI (XI XH))))))))))) :: (((Zpos (XO (XI (XI
    (XI (XI (XO (XI XH)))))))), (Npos (XO (XO (XO (XI (XO (XI (XI (XI (XI
    XH))))))))))) :: (((Zpos (XI (XI (XI (XI (XI (XO (XI XH)))))))), (Npos
    (XO (XI (XI (XI (XO (XI (XI (XI (XI XH))))))))))) :: (((Zpos (XO (XO (XO
    (XO (XO (XI (XI XH)))))))), (Npos (XI (XO (XI (XO (XI (XI (XI (XI (XI
    XH))))))))))) :: (((Zpos (XI (XO (XO (XO (XO (XI (XI XH)))))))), (Npos
    (XO (XO (XI (XI (XI (XI (XI (XI (XI XH))))))))))) :: (((Zpos (XO (XI (XO
    (XO (XO (XI (XI XH)))))))), (Npos (XI (XI (XO (XO (XO (XO (XO (XO (XO (XO
    XH)))))))))))) :: (((Zpos (XI (XI (XO (XO (XO (XI (XI XH)))))))), (Npos
    (XI (XI (XI (XI (XO (XO (XO (XO (XO (XO XH)))))))))))) :: (((Zpos (XO (XO
    (XI (XO (XO (XI (XI XH)))))))), (Npos (XO (XI (XI (XO (XI (XO (XO (XO (XO
    (XO XH)))))))))))) :: (((Zpos (XI (XO (XI (XO (XO (XI (XI XH)))))))),
    (Npos (XI (XO (XO (XO (XO (XI (XO (XO (XO (XO XH)))))))))))) :: (((Zpos
    (XO (XI (XI (XO (XO (XI (XI XH)))))))), (Npos (XI (XI (XI (XO (XO (XI (XO
    (XO (XO (XO XH)))))))))))) :: (((Zpos (XI (XI (XI (XO (XO (XI (XI
    XH)))))))), (Npos (XO (XI (XO (XI (XO (XI (XO (XO (XO (XO
    XH)))))))))))) :: (((Zpos (XO (XO (XO (XI (XO (XI (XI XH)))))))), (Npos
    (XI (XI (XO (XO (XI (XI (XO (XO (XO (XO XH)))))))))))) :: (((Zpos (XI (XO
    (XO (XI (XO (XI (XI XH)))))))), (Npos (XO (XI (XO (XI (XI (XI (XO (XO (XO
    (XO XH)))))))))))) :: (((Zpos (XO (XI (XO (XI (XO (XI (XI XH)))))))),
    (Npos (XI (XO (XO (XO (XO (XO (XI (XO (XO (XO XH)))))))))))) :: (((Zpos
    (XI (XI (XO (XI (XO (XI (XI XH)))))))), (Npos (XI (XO (XI (XI (XO (XO (XI
    (XO (XO (XO XH)))))))))))) :: (((Zpos (XO (XO (XI (XI (XO (XI (XI
    XH)))))))), (Npos (XO (XO (XO (XI (XI (XO (XI (XO (XO (XO
    XH)))))))))))) :: (((Zpos (XI (XO (XI (XI (XO (XI (XI XH)))))))), (Npos
    (XI (XI (XI (XI (XI (XO (XI (XO (XO (XO XH)))))))))))) :: (((Zpos (XO (XI
    (XI (XI (XO (XI (XI XH)))))))), (Npos (XO (XI (XI (XO (XO (XI (XI (XO (XO
    (XO XH)))))))))))) :: (((Zpos (XI (XI (XI (XI (XO (XI (XI XH)))))))),
    (Npos (XO (XI (XO (XO (XI (XI (XI (XO (XO (XO XH)))))))))))) :: (((Zpos
    (XO (XO (XO (XO (XI (XI (XI XH)))))))), (Npos (XI (XO (XI (XI (XI (XI (XI
    (XO (XO (XO XH)))))))))))) :: (((Zpos (XI (XO (XO (XO (XI (XI (XI
    XH)))))))), (Npos (XI (XO (XO (XO (XO (XO (XO (XI (XO (XO
    XH)))))))))))) :: (((Zpos (XO (XI (XO (XO (XI (XI (XI XH)))))))), (Npos
    (XO (XO (XO (XI (XO (XO (XO (XI (XO (XO XH)))))))))))) :: (((Zpos (XI (XI
    (XO (XO (XI (XI (XI XH)))))))), (Npos (XI (XI (XI (XI (XO (XO (XO (XI (XO
    (XO XH)))))))))))) :: (((Zpos (XO (XO (XI (XO (XI (XI (XI XH)))))))),
    (Npos (XO (XI (XI (XO (XI (XO (XO (XI (XO (XO XH)))))))))))) :: (((Zpos
    (XI (XO (XI (XO (XI (XI (XI XH)))))))), (Npos (XO (XI (XO (XO (XO (XI (XO
    (XI (XO (XO XH)))))))))))) :: (((Zpos (XO (XI (XI (XO (XI (XI (XI
    XH)))))))), (Npos (XI (XO (XO (XI (XO (XI (XO (XI (XO (XO
    XH)))))))))))) :: (((Zpos (XI (XI (XI (XO (XI (XI (XI XH)))))))), (Npos
    (XO (XO (XI (XO (XI (XI (XO (XI (XO (XO XH)))))))))))) :: (((Zpos (XO (XO
    (XO (XI (XI (XI (XI XH)))))))), (Npos (XI (XO (XI (XI (XI (XI (XO (XI (XO
    (XO XH)))))))))))) :: (((Zpos (XI (XO (XO (XI (XI (XI (XI XH)))))))),
    (Npos (XO (XO (XI (XO (XO (XO (XI (XI (XO (XO XH)))))))))))) :: (((Zpos
    (XO (XI (XO (XI (XI (XI (XI XH)))))))), (Npos (XI (XI (XO (XI (XO (XO (XI
    (XI (XO (XO XH)))))))))))) :: (((Zpos (XI (XI (XO (XI (XI (XI (XI
    XH)))))))), (Npos (XO (XI (XO (XO (XI (XO (XI (XI (XO (XO
    XH)))))))))))) :: (((Zpos (XO (XO (XI (XI (XI (XI (XI XH)))))))), (Npos
    (XO (XI (XI (XI (XI (XO (XI (XI (XO (XO XH)))))))))))) :: (((Zpos (XI (XO
    (XI (XI (XI (XI (XI XH)))))))), (Npos (XI (XO (XO (XI (XO (XI (XI (XI (XO
    (XO XH)))))))))))) :: (((Zpos (XO (XI (XI (XI (XI (XI (XI XH)))))))),
    (Npos (XO (XO (XO (XO (XI (XI (XI (XI (XO (XO XH)))))))))))) :: (((Zpos
    (XI (XI (XI (XI (XI (XI (XI XH)))))))), (Npos (XO (XI (XI (XO (XI (XI (XI
    (XI (XO (XO XH)))))))))))) :: (((Zpos (XI (XO (XO (XO (XO (XI (XO (XI
    XH))))))))), (Npos (XI (XO (XO (XO (XO (XO (XO (XO (XI (XO
    XH)))))))))))) :: (((Zpos (XO (XI (XO (XO (XO (XI (XO (XI XH))))))))),
    (Npos (XI (XO (XO (XI (XO (XO (XO (XO (XI (XO XH)))))))))))) :: (((Zpos
    (XI (XI (XO (XO (XO (XI (XO (XI XH))))))))), (Npos (XI (XI (XI (XI (XO
    (XO (XO (XO (XI (XO XH)))))))))))) :: (((Zpos (XI (XO (XI (XO (XO (XI (XO
    (XI XH))))))))), (Npos (XI (XI (XI (XO (XI (XO (XO (XO (XI (XO
    XH)))))))))))) :: (((Zpos (XO (XI (XI (XO (XO (XI (XO (XI XH))))))))),
    (Npos (XO (XI (XI (XI (XI (XO (XO (XO (XI (XO XH)))))))))))) :: (((Zpos
    (XI (XO (XO (XI (XO (XI (XO (XI XH))))))))), (Npos (XI (XO (XI (XO (XO
    (XI (XO (XO (XI (XO XH)))))))))))) :: (((Zpos (XO (XI (XO (XI (XO (XI (XO
    (XI XH))))))))), (Npos (XO (XO (XI (XI (XO (XI (XO (XO (XI (XO
    XH)))))))))))) :: (((Zpos (XI (XI (XO (XI (XO (XI (XO (XI XH))))))))),
    (Npos (XI (XO (XI (XO (XI (XI (XO (XO (XI (XO XH)))))))))))) :: (((Zpos
    (XO (XO (XI (XI (XO (XI (XO (XI XH))))))))), (Npos (XO (XO (XI (XI (XI
    (XI (XO (XO (XI (XO XH)))))))))))) :: (((Zpos (XO (XI (XI (XI (XO (XI (XO
    (XI XH))))))))), (Npos (XI (XI (XO (XO (XO (XO (XI (XO (XI (XO
    XH)))))))))))) :: (((Zpos (XI (XI (XI (XI (XO (XI (XO (XI XH))))))))),
    (Npos (XO (XI (XO (XI (XO (XO (XI (XO (XI (XO XH)))))))))))) :: (((Zpos
    (XI (XO (XO (XO (XI (XI (XO (XI XH))))))))), (Npos (XO (XO (XI (XO (XI
    (XO (XI (XO (XI (XO XH)))))))))))) :: (((Zpos (XO (XI (XO (XO (XI (XI (XO
    (XI XH))))))))), (Npos (XO (XO (XI (XI (XI (XO (XI (XO (XI (XO
    XH)))))))))))) :: (((Zpos (XI (XI (XO (XO (XI (XI (XO (XI XH))))))))),
    (Npos (XI (XI (XO (XO (XO (XI (XI (XO (XI (XO XH)))))))))))) :: (((Zpos
    (XI (XO (XI (XO (XI (XI (XO (XI XH))))))))), (Npos (XI (XI (XO (XI (XO
    (XI (XI (XO (XI (XO XH)))))))))))) :: (((Zpos (XO (XI (XI (XO (XI (XI (XO
    (XI XH))))))))), (Npos (XO (XI (XO (XO (XI (XI (XI (XO (XI (XO
    XH)))))))))))) :: (((Zpos (XI (XI (XI (XO (XI (XI (XO (XI XH))))))))),
    (Npos (XI (XO (XO (XI (XI (XI (XI (XO (XI (XO XH)))))))))))) :: (((Zpos
    (XI (XO (XO (XI (XI (XI (XO (XI XH))))))))), (Npos (XI (XI (XI (XI (XI
    (XI (XI (XO (XI (XO XH)))))))))))) :: (((Zpos (XO (XI (XO (XI (XI (XI (XO
    (XI XH))))))))), (Npos (XO (XI (XI (XO (XO (XO (XO (XI (XI (XO
    XH)))))))))))) :: (((Zpos (XI (XI (XO (XI (XI (XI (XO (XI XH))))))))),
    (Npos (XI (XI (XI (XI (XO (XO (XO (XI (XI (XO XH)))))))))))) :: (((Zpos
    (XO (XO (XI (XI (XI (XI (XO (XI XH))))))))), (Npos (XO (XI (XI (XO (XI
    (XO (XO (XI (XI (XO XH)))))))))))) :: (((Zpos (XI (XO (XI (XI (XI (XI (XO
    (XI XH))))))))), (Npos (XI (XO (XI (XI (XI (XO (XO (XI (XI (XO
    XH)))))))))))) :: (((Zpos (XO (XI (XI (XI (XI (XI (XO (XI XH))))))))),
    (Npos (XI (XO (XO (XI (XO (XI (XO (XI (XI (XO XH)))))))))))) :: (((Zpos
    (XI (XI (XI (XI (XI (XI (XO (XI XH))))))))), (Npos (XO (XO (XO (XO (XI
    (XI (XO (XI (XI (XO XH)))))))))))) :: (((Zpos (XO (XO (XO (XO (XO (XO (XI
    (XI XH))))))))), (Npos (XO (XI (XO (XI (XI (XI (XO (XI (XI (XO
    XH)))))))))))) :: (((Zpos (XI (XI (XO (XO (XO (XO (XI (XI XH))))))))),
    (Npos (XI (XO (XO (XO (XO (XO (XI (XI (XI (XO XH)))))))))))) :: (((Zpos
    (XI (XO (XI (XO (XO (XO (XI (XI XH))))))))), (Npos (XO (XO (XO (XI (XO
    (XO (XI (XI (XI (XO XH)))))))))))) :: (((Zpos (XO (XI (XI (XO (XO (XO (XI
    (XI XH))))))))), (Npos (XI (XI (XI (XI (XO (XO (XI (XI (XI (XO
    XH)))))))))))) :: (((Zpos (XO (XO (XO (XI (XO (XO (XI (XI XH))))))))),
    (Npos (XO (XI (XI (XO (XI (XO (XI (XI (XI (XO XH)))))))))))) :: (((Zpos
    (XO (XI (XO (XI (XO (XO (XI (XI XH))))))))), (Npos (XI (XO (XI (XI (XI
    (XO (XI (XI (XI (XO XH)))))))))))) :: (((Zpos (XO (XO (XI (XI (XO (XO (XI
    (XI XH))))))))), (Npos (XI (XO (XI (XO (XO (XI (XI (XI (XI (XO
    XH)))))))))))) :: (((Zpos (XI (XI (XI (XI (XO (XO (XI (XI XH))))))))),
    (Npos (XO (XO (XI (XI (XO (XI (XI (XI (XI (XO XH)))))))))))) :: (((Zpos
    (XO (XO (XO (XO (XI (XO (XI (XI XH))))))))), (Npos (XI (XI (XO (XO (XI
    (XI (XI (XI (XI (XO XH)))))))))))) :: (((Zpos (XI (XO (XO (XO (XI (XO (XI
    (XI XH))))))))), (Npos (XI (XI (XO (XI (XI (XI (XI (XI (XI (XO
    XH)))))))))))) :: (((Zpos (XO (XI (XO (XO (XI (XO (XI (XI XH))))))))),
    (Npos (XO (XI (XO (XO (XO (XO (XO (XO (XO (XI XH)))))))))))) :: (((Zpos
    (XI (XO (XI (XO (XI (XO (XI (XI XH))))))))), (Npos (XI (XO (XO (XI (XO
    (XO (XO (XO (XO (XI XH)))))))))))) :: (((Zpos (XO (XO (XO (XI (XI (XO (XI
    (XI XH))))))))), (Npos (XO (XI (XI (XO (XI (XO (XO (XO (XO (XI
    XH)))))))))))) :: (((Zpos (XI (XO (XO (XI (XI (XO (XI (XI XH))))))))),
    (Npos (XI (XO (XI (XI (XI (XO (XO (XO (XO (XI XH)))))))))))) :: (((Zpos
    (XI (XI (XO (XI (XI (XO (XI (XI XH))))))))), (Npos (XI (XI (XO (XO (XO
    (XI (XO (XO (XO (XI XH)))))))))))) :: (((Zpos (XO (XI (XI (XI (XI (XO (XI
    (XI XH))))))))), (Npos (XO (XO (XO (XO (XI (XI (XO (XO (XO (XI
    XH)))))))))))) :: (((Zpos (XO (XO (XO (XO (XO (XI (XI (XI XH))))))))),
    (Npos (XI (XO (XO (XI (XI (XI (XO (XO (XO (XI XH)))))))))))) :: (((Zpos
    (XI (XI (XO (XO (XO (XI (XI (XI XH))))))))), (Npos (XO (XO (XO (XO (XO
    (XO (XI (XO (XO (XI XH)))))))))))) :: (((Zpos (XI (XO (XI (XO (XO (XI (XI
    (XI XH))))))))), (Npos (XI (XI (XI (XO (XO (XO (XI (XO (XO (XI
    XH)))))))))))) :: (((Zpos (XO (XI (XI (XO (XO (XI (XI (XI XH))))))))),
    (Npos (XO (XI (XI (XI (XO (XO (XI (XO (XO (XI XH)))))))))))) :: (((Zpos
    (XO (XO (XO (XI (XO (XI (XI (XI XH))))))))), (Npos (XI (XO (XI (XO (XI
    (XO (XI (XO (XO (XI XH)))))))))))) :: (((Zpos (XO (XI (XO (XI (XO (XI (XI
    (XI XH))))))))), (Npos (XO (XO (XI (XI (XI (XO (XI (XO (XO (XI
    XH)))))))))))) :: (((Zpos (XO (XO (XI (XI (XO (XI (XI (XI XH))))))))),
    (Npos (XO (XO (XI (XO (XO (XI (XI (XO (XO (XI XH)))))))))))) :: (((Zpos
    (XI (XI (XI (XI (XO (XI (XI (XI XH))))))))), (Npos (XI (XI (XO (XI (XO
    (XI (XI (XO (XO (XI XH)))))))))))) :: (((Zpos (XO (XO (XO (XO (XI (XI (XI
    (XI XH))))))))), (Npos (XO (XI (XO (XO (XI (XI (XI (XO (XO (XI
    XH)))))))))))) :: (((Zpos (XI (XO (XO (XO (XI (XI (XI (XI XH))))))))),
    (Npos (XO (XI (XO (XI (XI (XI (XI (XO (XO (XI XH)))))))))))) :: (((Zpos
    (XO (XI (XO (XO (XI (XI (XI (XI XH))))))))), (Npos (XI (XO (XO (XO (XO
    (XO (XO (XI (XO (XI XH)))))))))))) :: (((Zpos (XI (XO (XI (XO (XI (XI (XI
    (XI XH))))))))), (Npos (XO (XO (XO (XI (XO (XO (XO (XI (XO (XI
    XH)))))))))))) :: (((Zpos (XO (XO (XO (XI (XI (XI (XI (XI XH))))))))),
    (Npos (XI (XO (XI (XO (XI (XO (XO (XI (XO (XI XH)))))))))))) :: (((Zpos
    (XI (XO (XO (XI (XI (XI (XI (XI XH))))))))), (Npos (XO (XO (XI (XI (XI
    (XO (XO (XI (XO (XI XH)))))))))))) :: (((Zpos (XI (XI (XO (XI (XI (XI (XI
    (XI XH))))))))), (Npos (XO (XI (XO (XO (XO (XI (XO (XI (XO (XI
    XH)))))))))))) :: (((Zpos (XO (XI (XI (XI (XI (XI (XI (XI XH))))))))),
    (Npos (XI (XI (XI (XI (XO (XI (XO (XI (XO (XI XH)))))))))))) :: (((Zpos
    (XI (XI (XI (XI (XI (XI (XI (XI XH))))))))), (Npos (XO (XO (XO (XI (XI
    (XI (XO (XI (XO (XI XH)))))))))))) :: (((Zpos (XI (XO (XO (XO (XO (XI (XO
    (XI (XO XH)))))))))), (Npos (XI (XO (XO (XO (XO (XO (XI (XI (XO (XI
    XH)))))))))))) :: (((Zpos (XO (XI (XI (XO (XO (XI (XO (XI (XO
    XH)))))))))), (Npos (XI (XO (XO (XI (XO (XO (XI (XI (XO (XI
    XH)))))))))))) :: (((Zpos (XI (XO (XO (XI (XO (XI (XO (XI (XO
    XH)))))))))), (Npos (XI (XO (XI (XO (XI (XO (XI (XI (XO (XI
    XH)))))))))))) :: (((Zpos (XI (XI (XO (XI (XO (XI (XO (XI (XO
    XH)))))))))), (Npos (XI (XI (XI (XI (XI (XO (XI (XI (XO (XI
    XH)))))))))))) :: (((Zpos (XO (XO (XI (XI (XO (XI (XO (XI (XO
    XH)))))))))), (Npos (XO (XI (XI (XO (XO (XI (XI (XI (XO (XI
    XH)))))))))))) :: (((Zpos (XI (XO (XO (XO (XI (XI (XO (XI (XO
    XH)))))))))), (Npos (XO (XI (XO (XO (XI (XI (XI (XI (XO (XI
    XH)))))))))))) :: (((Zpos (XO (XI (XI (XO (XI (XI (XO (XI (XO
    XH)))))))))), (Npos (XO (XI (XO (XI (XI (XI (XI (XI (XO (XI
    XH)))))))))))) :: (((Zpos (XI (XO (XO (XI (XI (XI (XO (XI (XO
    XH)))))))))), (Npos (XO (XI (XI (XO (XO (XO (XO (XO (XI (XI
    XH)))))))))))) :: (((Zpos (XI (XI (XO (XI (XI (XI (XO (XI (XO
    XH)))))))))), (Npos (XI (XI (XI (XI (XO (XO (XO (XO (XI (XI
    XH)))))))))))) :: (((Zpos (XO (XO (XI (XI (XI (XI (XO (XI (XO
    XH)))))))))), (Npos (XO (XI (XI (XO (XI (XO (XO (XO (XI (XI
    XH)))))))))))) :: (((Zpos (XI (XO (XI (XO (XO (XO (XI (XI (XO
    XH)))))))))), (Npos (XO (XI (XO (XO (XO (XI (XO (XO (XI (XI
    XH)))))))))))) :: (((Zpos (XO (XI (XI (XO (XO (XO (XI (XI (XO
    XH)))))))))), (Npos (XO (XO (XI (XI (XO (XI (XO (XO (XI (XI
    XH)))))))))))) :: (((Zpos (XI (XO (XI (XO (XI (XO (XI (XI (XO
    XH)))))))))), (Npos (XO (XO (XO (XI (XI (XI (XO (XO (XI (XI
    XH)))))))))))) :: (((Zpos (XO (XO (XO (XI (XI (XO (XI (XI (XO
    XH)))))))))), (Npos (XO (XI (XO (XO (XO (XO (XI (XO (XI (XI
    XH)))))))))))) :: (((Zpos (XI (XO (XI (XI (XI (XO (XI (XI (XO
    XH)))))))))), (Npos (XO (XI (XI (XI (XO (XO (XI (XO (XI (XI
    XH)))))))))))) :: (((Zpos (XO (XI (XI (XI (XI (XO (XI (XI (XO
    XH)))))))))), (Npos (XI (XO (XI (XO (XI (XO (XI (XO (XI (XI
    XH)))))))))))) :: (((Zpos (XI (XO (XI (XO (XO (XI (XI (XI (XO
    XH)))))))))), (Npos (XI (XO (XO (XO (XO (XI (XI (XO (XI (XI
    XH)))))))))))) :: (((Zpos (XO (XI (XI (XO (XO (XI (XI (XI (XO
    XH)))))))))), (Npos (XI (XI (XO (XI (XO (XI (XI (XO (XI (XI
    XH)))))))))))) :: (((Zpos (XI (XO (XI (XO (XI (XI (XI (XI (XO
    XH)))))))))), (Npos (XI (XI (XI (XO (XI (XI (XI (XO (XI (XI
    XH)))))))))))) :: (((Zpos (XO (XO (XO (XI (XI (XI (XI (XI (XO
    XH)))))))))), (Npos (XI (XO (XO (XO (XO (XO (XO (XI (XI (XI
    XH)))))))))))) :: (((Zpos (XI (XO (XI (XI (XI (XI (XI (XI (XO
    XH)))))))))), (Npos (XI (XO (XI (XI (XO (XO (XO (XI (XI (XI
    XH)))))))))))) :: (((Zpos (XO (XI (XI (XI (XI (XI (XI (XI (XO
    XH)))))))))), (Npos (XO (XO (XI (XO (XI (XO (XO (XI (XI (XI
    XH)))))))))))) :: (((Zpos (XO (XI (XO (XO (XO (XI (XO (XI (XI
    XH)))))))))), (Npos (XO (XO (XO (XO (XO (XI (XO (XI (XI (XI
    XH)))))))))))) :: (((Zpos (XO (XI (XO (XO (XO (XI (XO (XI (XI
    XH)))))))))), (Npos (XO (XI (XI (XO (XO (XI (XO (XI (XI (XI
    XH)))))))))))) :: (((Zpos (XI (XI (XO (XO (XO (XI (XO (XI (XI
    XH)))))))))), (Npos (XO (XI (XO (XI (XO (XI (XO (XI (XI (XI
    XH)))))))))))) :: (((Zpos (XI (XO (XI (XO (XO (XI (XO (XI (XI
    XH)))))))))), (Npos (XI (XI (XO (XO (XI (XI (XO (XI (XI (XI
    XH)))))))))))) :: (((Zpos (XO (XI (XI (XO (XO (XI (XO (XI (XI
    XH)))))))))), (Npos (XO (XI (XO (XI (XI (XI (XO (XI (XI (XI
    XH)))))))))))) :: (((Zpos (XO (XI (XO (XI (XO (XI (XO (XI (XI
    XH)))))))))), (Npos (XI (XI (XO (XO (XO (XO (XI (XI (XI (XI
    XH)))))))))))) :: (((Zpos (XI (XI (XO (XI (XO (XI (XO (XI (XI
    XH)))))))))), (Npos (XI (XI (XO (XI (XO (XO (XI (XI (XI (XI
    XH)))))))))))) :: (((Zpos (XO (XO (XI (XI (XO (XI (XO (XI (XI
    XH)))))))))), (Npos (XO (XO (XI (XO (XI (XO (XI (XI (XI (XI
    XH)))))))))))) :: (((Zpos (XI (XI (XO (XO (XI (XI (XO (XI (XI
    XH)))))))))), (Npos (XI (XI (XO (XI (XI (XO (XI (XI (XI (XI
    XH)))))))))))) :: (((Zpos (XI (XO (XI (XO (XI (XI (XO (XI (XI
    XH)))))))))), (Npos (XO (XO (XI (XO (XO (XI (XI (XI (XI (XI
    XH)))))))))))) :: (((Zpos (XO (XI (XI (XO (XI (XI (XO (XI (XI
    XH)))))))))), (Npos (XI (XI (XO (XI (XO (XI (XI (XI (XI (XI
    XH)))))))))))) :: (((Zpos (XO (XI (XO (XI (XI (XI (XO (XI (XI
    XH)))))))))), (Npos (XO (XO (XI (XO (XI (XI (XI (XI (XI (XI
    XH)))))))))))) :: (((Zpos (XI (XI (XO (XI (XI (XI (XO (XI (XI
    XH)))))))))), (Npos (XO (XO (XI (XI (XI (XI (XI (XI (XI (XI
    XH)))))))))))) :: (((Zpos (XO (XO (XI (XI (XI (XI (XO (XI (XI
    XH)))))))))), (Npos (XI (XO (XI (XO (XO (XO (XO (XO (XO (XO (XO
    XH))))))))))))) :: (((Zpos (XI (XO (XI (XI (XI (XI (XO (XI (XI
    XH)))))))))), (Npos (XO (XO (XI (XI (XO (XO (XO (XO (XO (XO (XO
    XH))))))))))))) :: (((Zpos (XI (XI (XI (XI (XI (XI (XO (XI (XI
    XH)))))))))), (Npos (XO (XO (XO (XO (XI (XO (XO (XO (XO (XO (XO
    XH))))))))))))) :: (((Zpos (XO (XO (XO (XO (XO (XO (XI (XI (XI
    XH)))))))))), (Npos (XO (XO (XI (XO (XI (XO (XO (XO (XO (XO (XO
    XH))))))))))))) :: (((Zpos (XI (XI (XI (XO (XO (XO (XI (XI (XI
    XH)))))))))), (Npos (XO (XO (XI (XI (XI (XO (XO (XO (XO (XO (XO
    XH))))))))))))) :: (((Zpos (XO (XO (XI (XI (XO (XO (XI (XI (XI
    XH)))))))))), (Npos (XO (XO (XI (XO (XO (XI (XO (XO (XO (XO (XO
    XH))))))))))))) :: (((Zpos (XI (XI (XI (XI (XO (XO (XI (XI (XI
    XH)))))))))), (Npos (XO (XI (XI (XI (XO (XI (XO (XO (XO (XO (XO
    XH))))))))))))) :: (((Zpos (XI (XO (XO (XO (XI (XO (XI (XI (XI
    XH)))))))))), (Npos (XO (XI (XI (XO (XI (XI (XO (XO (XO (XO (XO
    XH))))))))))))) :: (((Zpos (XO (XI (XO (XO (XI (XO (XI (XI (XI
    XH)))))))))), (Npos (XI (XI (XI (XI (XI (XI (XO (XO (XO (XO (XO
    XH))))))))))))) :: (((Zpos (XI (XI (XO (XO (XI (XO (XI (XI (XI
    XH)))))))))), (Npos (XI (XI (XI (XO (XO (XO (XI (XO (XO (XO (XO
    XH))))))))))))) :: (((Zpos (XI (XO (XO (XI (XI (XO (XI (XI (XI
    XH)))))))))), (Npos (XO (XO (XO (XO (XI (XO (XI (XO (XO (XO (XO
    XH))))))))))))) :: (((Zpos (XI (XO (XI (XI (XI (XO (XI (XI (XI
    XH)))))))))), (Npos (XO (XO (XO (XI (XI (XO (XI (XO (XO (XO (XO
    XH))))))))))))) :: (((Zpos (XO (XI (XI (XI (XI (XO (XI (XI (XI
    XH)))))))))), (Npos (XI (XI (XI (XI (XI (XO (XI (XO (XO (XO (XO
    XH))))))))))))) :: (((Zpos (XO (XO (XO (XO (XO (XI (XI (XI (XI
    XH)))))))))), (Npos (XI (XI (XI (XO (XO (XI (XI (XO (XO (XO (XO
    XH))))))))))))) :: (((Zpos (XI (XI (XI (XO (XO (XI (XI (XI (XI
    XH)))))))))), (Npos (XI (XI (XI (XI (XO (XI (XI (XO (XO (XO (XO
    XH))))))))))))) :: (((Zpos (XO (XO (XI (XI (XO (XI (XI (XI (XI
    XH)))))))))), (Npos (XI (XI (XI (XO (XI (XI (XI (XO (XO (XO (XO
    XH))))))))))))) :: (((Zpos (XI (XI (XI (XI (XO (XI (XI (XI (XI
    XH)))))))))), (Npos (XI (XO (XO (XO (XO (XO (XO (XI (XO (XO (XO
    XH))))))))))))) :: (((Zpos (XI (XO (XO (XO (XI (XI (XI (XI (XI
    XH)))))))))), (Npos (XI (XO (XO (XI (XO (XO (XO (XI (XO (XO (XO
    XH))))))))))))) :: (((Zpos (XO (XI (XO (XO (XI (XI (XI (XI (XI
    XH)))))))))), (Npos (XO (XI (XO (XO (XI (XO (XO (XI (XO (XO (XO
    XH))))))))))))) :: (((Zpos (XI (XI (XO (XO (XI (XI (XI (XI (XI
    XH)))))))))), (Npos (XO (XI (XO (XI (XI (XO (XO (XI (XO (XO (XO
    XH))))))))))))) :: (((Zpos (XI (XO (XO (XI (XI (XI (XI (XI (XI
    XH)))))))))), (Npos (XI (XI (XO (XO (XO (XI (XO (XI (XO (XO (XO
    XH))))))))))))) :: (((Zpos (XI (XO (XI (XI (XI (XI (XI (XI (XI
    XH)))))))))), (Npos (XI (XI (XO (XI (XO (XI (XO (XI (XO (XO (XO
    XH))))))))))))) :: (((Zpos (XO (XI (XI (XI (XI (XI (XI (XI (XI
    XH)))))))))), (Npos (XO (XI (XO (XO (XI (XI (XO (XI (XO (XO (XO
    XH))))))))))))) :: (((Zpos (XO (XI (XI (XI (XI (XI (XI (XO (XO (XO
    XH))))))))))), (Npos (XO (XI (XO (XI (XI (XI (XO (XI (XO (XO (XO
    XH))))))))))))) :: (((Zpos (XI (XO (XO (XO (XO (XI (XO (XI (XO (XO
    XH))))))))))), (Npos (XI (XI (XO (XO (XO (XO (XI (XI (XO (XO (XO
    XH))))))))))))) :: (((Zpos (XO (XI (XO (XO (XO (XI (XO (XI (XO (XO
    XH))))))))))), (Npos (XI (XO (XO (XO (XI (XO (XI (XI (XO (XO (XO
    XH))))))))))))) :: (((Zpos (XI (XI (XO (XO (XO (XI (XO (XI (XO (XO
    XH))))))))))), (Npos (XI (XO (XI (XO (XO (XI (XI (XI (XO (XO (XO
    XH))))))))))))) :: (((Zpos (XO (XO (XI (XO (XO (XI (XO (XI (XO (XO
    XH))))))))))), (Npos (XI (XO (XO (XI (XI (XI (XI (XI (XO (XO (XO
    XH))))))))))))) :: (((Zpos (XI (XO (XI (XO (XO (XI (XO (XI (XO (XO
    XH))))))))))), (Npos (XO (XO (XI (XO (XO (XO (XO (XO (XI (XO (XO
    XH))))))))))))) :: (((Zpos (XI (XO (XI (XO (XO (XI (XO (XI (XO (XO
    XH))))))))))), (Npos (XI (XO (XI (XO (XI (XO (XO (XO (XI (XO (XO
    XH))))))))))))) :: (((Zpos (XO (XI (XI (XO (XO (XI (XO (XI (XO (XO
    XH))))))))))), (Npos (XO (XO (XI (XO (XO (XI (XO (XO (XI (XO (XO
    XH))))))))))))) :: (((Zpos (XI (XI (XI (XO (XO (XI (XO (XI (XO (XO
    XH))))))))))), (Npos (XO (XO (XI (XI (XO (XI (XO (XO (XI (XO (XO
    XH))))))))))))) :: (((Zpos (XO (XO (XO (XI (XO (XI (XO (XI (XO (XO
    XH))))))))))), (Npos (XI (XI (XO (XO (XI (XI (XO (XO (XI (XO (XO
    XH))))))))))))) :: (((Zpos (XI (XO (XO (XI (XO (XI (XO (XI (XO (XO
    XH))))))))))), (Npos (XO (XI (XO (XI (XI (XI (XO (XO (XI (XO (XO
    XH))))))))))))) :: (((Zpos (XO (XI (XO (XI (XO (XI (XO (XI (XO (XO
    XH))))))))))), (Npos (XI (XO (XO (XO (XO (XO (XI (XO (XI (XO (XO
    XH))))))))))))) :: (((Zpos (XI (XI (XO (XI (XO (XI (XO (XI (XO (XO
    XH))))))))))), (Npos (XO (XO (XO (XI (XO (XO (XI (XO (XI (XO (XO
    XH))))))))))))) :: (((Zpos (XO (XO (XI (XI (XO (XI (XO (XI (XO (XO
    XH))))))))))), (Npos (XI (XI (XI (XI (XO (XO (XI (XO (XI (XO (XO
    XH))))))))))))) :: (((Zpos (XI (XO (XI (XI (XO (XI (XO (XI (XO (XO
    XH))))))))))), (Npos (XI (XI (XI (XO (XI (XO (XI (XO (XI (XO (XO
    XH))))))))))))) :: (((Zpos (XO (XI (XI (XI (XO (XI (XO (XI (XO (XO
    XH))))))))))), (Npos (XI (XI (XI (XI (XI (XO (XI (XO (XI (XO (XO
    XH))))))))))))) :: (((Zpos (XI (XI (XI (XI (XO (XI (XO (XI (XO (XO
    XH))))))))))), (Npos (XI (XI (XI (XO (XO (XI (XI (XO (XI (XO (XO
    XH))))))))))))) :: (((Zpos (XI (XI (XI (XI (XO (XI (XO (XI (XO (XO
    XH))))))))))), (Npos (XO (XO (XO (XO (XI (XI (XI (XO (XI (XO (XO
    XH))))))))))))) :: (((Zpos (XO (XO (XO (XO (XI (XI (XO (XI (XO (XO
    XH))))))))))), (Npos (XO (XO (XO (XI (XI (XI (XI (XO (XI (XO (XO
    XH))))))))))))) :: (((Zpos (XI (XO (XO (XO (XI (XI (XO (XI (XO (XO
    XH))))))))))), (Npos (XI (XI (XI (XO (XO (XO (XO (XI (XI (XO (XO
    XH))))))))))))) :: (((Zpos (XO (XI (XO (XO (XI (XI (XO (XI (XO (XO
    XH))))))))))), (Npos (XO (XI (XI (XI (XO (XO (XO (XI (XI (XO (XO
    XH))))))))))))) :: (((Zpos (XI (XI (XO (XO (XI (XI (XO (XI (XO (XO
    XH))))))))))), (Npos (XI (XO (XI (XO (XI (XO (XO (XI (XI (XO (XO
    XH))))))))))))) :: (((Zpos (XO (XO (XI (XO (XI (XI (XO (XI (XO (XO
    XH))))))))))), (Npos (XO (XO (XI (XI (XI (XO (XO (XI (XI (XO (XO
    XH))))))))))))) :: (((Zpos (XI (XO (XI (XO (XI (XI (XO (XI (XO (XO
    XH))))))))))), (Npos (XI (XI (XO (XO (XO (XI (XO (XI (XI (XO (XO
    XH))))))))))))) :: (((Zpos (XO (XI (XI (XO (XI (XI (XO (XI (XO (XO
    XH))))))))))), (Npos (XO (XI (XO (XI (XO (XI (XO (XI (XI (XO (XO
    XH))))))))))))) :: (((Zpos (XI (XI (XI (XO (XI (XI (XO (XI (XO (XO
    XH))))))))))), (Npos (XO (XI (XO (XO (XI (XI (XO (XI (XI (XO (XO
    XH))))))))))))) :: (((Zpos (XO (XO (XO (XI (XI (XI (XO (XI (XO (XO
    XH))))))))))), (Npos (XO (XI (XO (XI (XI (XI (XO (XI (XI (XO (XO
    XH))))))))))))) :: (((Zpos (XI (XO (XO (XI (XI (XI (XO (XI (XO (XO
    XH))))))))))), (Npos (XO (XI (XO (XO (XO (XO (XI (XI (XI (XO (XO
    XH))))))))))))) :: (((Zpos (XO (XI (XO (XI (XI (XI (XO (XI (XO (XO
    XH))))))))))), (Npos (XO (XI (XO (XI (XO (XO (XI (XI (XI (XO (XO
    XH))))))))))))) :: (((Zpos (XI (XI (XO (XI (XI (XI (XO (XI (XO (XO
    XH))))))))))), (Npos (XO (XI (XO (XO (XI (XO (XI (XI (XI (XO (XO
    XH))))))))))))) :: (((Zpos (XO (XO (XI (XI (XI (XI (XO (XI (XO (XO
    XH))))))))))), (Npos (XO (XI (XO (XI (XI (XO (XI (XI (XI (XO (XO
    XH))))))))))))) :: (((Zpos (XI (XO (XI (XI (XI (XI (XO (XI (XO (XO
    XH))))))))))), (Npos (XI (XI (XO (XO (XO (XI (XI (XI (XI (XO (XO
    XH))))))))))))) :: (((Zpos (XO (XI (XI (XI (XI (XI (XO (XI (XO (XO
    XH))))))))))), (Npos (XI (XI (XO (XI (XO (XI (XI (XI (XI (XO (XO
    XH))))))))))))) :: (((Zpos (XI (XI (XI (XI (XI (XI (XO (XI (XO (XO
    XH))))))))))), (Npos (XI (XI (XO (XO (XI (XI (XI (XI (XI (XO (XO
    XH))))))))))))) :: (((Zpos (XO (XO (XO (XO (XO (XO (XI (XI (XO (XO
    XH))))))))))), (Npos (XI (XI (XO (XI (XI (XI (XI (XI (XI (XO (XO
    XH))))))))))))) :: (((Zpos (XI (XO (XO (XO (XO (XO (XI (XI (XO (XO
    XH))))))))))), (Npos (XI (XI (XO (XO (XO (XO (XO (XO (XO (XI (XO
    XH))))))))))))) :: (((Zpos (XI (XO (XO (XO (XO (XO (XI (XI (XO (XO
    XH))))))))))), (Npos (XO (XO (XI (XI (XO (XO (XO (XO (XO (XI (XO
    XH))))))))))))) :: (((Zpos (XO (XI (XO (XO (XO (XO (XI (XI (XO (XO
    XH))))))))))), (Npos (XO (XO (XI (XO (XI (XO (XO (XO (XO (XI (XO
    XH))))))))))))) :: (((Zpos (XO (XI (XO (XO (XO (XO (XI (XI (XO (XO
    XH))))))))))), (Npos (XI (XO (XI (XI (XI (XO (XO (XO (XO (XI (XO
    XH))))))))))))) :: (((Zpos (XI (XI (XO (XO (XO (XO (XI (XI (XO (XO
    XH))))))))))), (Npos (XI (XO (XI (XO (XO (XI (XO (XO (XO (XI (XO
    XH))))))))))))) :: (((Zpos (XO (XO (XI (XO (XO (XO (XI (XI (XO (XO
    XH))))))))))), (Npos (XI (XO (XI (XI (XO (XI (XO (XO (XO (XI (XO
    XH))))))))))))) :: (((Zpos (XI (XO (XI (XO (XO (XO (XI (XI (XO (XO
    XH))))))))))), (Npos (XI (XO (XI (XO (XI (XI (XO (XO (XO (XI (XO
    XH))))))))))))) :: (((Zpos (XO (XI (XI (XO (XO (XO (XI (XI (XO (XO
    XH))))))))))), (Npos (XI (XO (XI (XI (XI (XI (XO (XO (XO (XI (XO
    XH))))))))))))) :: (((Zpos (XI (XI (XI (XO (XO (XO (XI (XI (XO (XO
    XH))))))))))), (Npos (XI (XO (XI (XO (XO (XO (XI (XO (XO (XI (XO
    XH))))))))))))) :: (((Zpos (XO (XO (XO (XI (XO (XO (XI (XI (XO (XO
    XH))))))))))), (Npos (XI (XO (XI (XI (XO (XO (XI (XO (XO (XI (XO
    XH))))))))))))) :: (((Zpos (XI (XO (XO (XI (XO (XO (XI (XI (XO (XO
    XH))))))))))), (Npos (XI (XO (XI (XO (XI (XO (XI (XO (XO (XI (XO
    XH))))))))))))) :: (((Zpos (XO (XI (XO (XI (XO (XO (XI (XI (XO (XO
    XH))))))))))), (Npos (XI (XO (XI (XI (XI (XO (XI (XO (XO (XI (XO
    XH))))))))))))) :: (((Zpos (XI (XI (XO (XI (XO (XO (XI (XI (XO (XO
    XH))))))))))), (Npos (XI (XO (XI (XO (XO (XI (XI (XO (XO (XI (XO
    XH))))))))))))) :: (((Zpos (XO (XO (XI (XI (XO (XO (XI (XI (XO (XO
    XH))))))))))), (Npos (XI (XO (XI (XI (XO (XI (XI (XO (XO (XI (XO
    XH))))))))))))) :: (((Zpos (XO (XO (XI (XI (XO (XO (XI (XI (XO (XO
    XH))))))))))), (Npos (XI (XO (XI (XO (XI (XI (XI (XO (XO (XI (XO
    XH))))))))))))) :: (((Zpos (XI (XO (XI (XI (XO (XO (XI (XI (XO (XO
    XH))))))))))), (Npos (XI (XO (XI (XI (XI (XI (XI (XO (XO (XI (XO
    XH))))))))))))) :: (((Zpos (XO (XI (XI (XI (XO (XO (XI (XI (XO (XO
    XH))))))))))), (Npos (XI (XO (XI (XO (XO (XO (XO (XI (XO (XI (XO
    XH))))))))))))) :: (((Zpos (XI (XI (XI (XI (XO (XO (XI (XI (XO (XO
    XH))))))))))), (Npos (XI (XO (XI (XI (XO (XO (XO (XI (XO (XI (XO
    XH))))))))))))) :: (((Zpos (XO (XO (XO (XO (XI (XO (XI (XI (XO (XO
    XH))))))))))), (Npos (XI (XO (XI (XO (XI (XO (XO (XI (XO (XI (XO
    XH))))))))))))) :: (((Zpos (XI (XO (XO (XO (XI (XO (XI (XI (XO (XO
    XH))))))))))), (Npos (XI (XO (XI (XI (XI (XO (XO (XI (XO (XI (XO
    XH))))))))))))) :: (((Zpos (XO (XI (XO (XO (XI (XO (XI (XI (XO (XO
    XH))))))))))), (Npos (XI (XO (XI (XO (XO (XI (XO (XI (XO (XI (XO
    XH))))))))))))) :: (((Zpos (XI (XI (XO (XO (XI (XO (XI (XI (XO (XO
    XH))))))))))), (Npos (XI (XO (XI (XI (XO (XI (XO (XI (XO (XI (XO
    XH))))))))))))) :: (((Zpos (XO (XO (XI (XO (XI (XO (XI (XI (XO (XO
    XH))))))))))), (Npos (XI (XO (XI (XO (XI (XI (XO (XI (XO (XI (XO
    XH))))))))))))) :: (((Zpos (XI (XO (XI (XO (XI (XO (XI (XI (XO (XO
    XH))))))))))), (Npos (XI (XO (XI (XI (XI (XI (XO (XI (XO (XI (XO
    XH))))))))))))) :: (((Zpos (XO (XI (XI (XO (XI (XO (XI (XI (XO (XO
    XH))))))))))), (Npos (XI (XO (XI (XO (XO (XO (XI (XI (XO (XI (XO
    XH))))))))))))) :: (((Zpos (XI (XI (XI (XO (XI (XO (XI (XI (XO (XO
    XH))))))))))), (Npos (XI (XO (XI (XI (XO (XO (XI (XI (XO (XI (XO
    XH))))))))))))) :: (((Zpos (XO (XO (XO (XI (XI (XO (XI (XI (XO (XO
    XH))))))))))), (Npos (XI (XO (XI (XO (XI (XO (XI (XI (XO (XI (XO
    XH))))))))))))) :: (((Zpos (XI (XO (XO (XI (XI (XO (XI (XI (XO (XO
    XH))))))))))), (Npos (XI (XO (XI (XI (XI (XO (XI (XI (XO (XI (XO
    XH))))))))))))) :: (((Zpos (XO (XI (XO (XI (XI (XO (XI (XI (XO (XO
    XH))))))))))), (Npos (XI (XO (XI (XO (XO (XI (XI (XI (XO (XI (XO
    XH))))))))))))) :: (((Zpos (XI (XI (XO (XI (XI (XO (XI (XI (XO (XO
    XH))))))))))), (Npos (XI (XO (XI (XI (XO (XI (XI (XI (XO (XI (XO
    XH))))))))))))) :: (((Zpos (XO (XO (XI (XI (XI (XO (XI (XI (XO (XO
    XH))))))))))), (Npos (XI (XO (XI (XO (XI (XI (XI (XI (XO (XI (XO
    XH))))))))))))) :: (((Zpos (XI (XO (XI (XI (XI (XO (XI (XI (XO (XO
    XH))))))))))), (Npos (XI (XO (XI (XI (XI (XI (XI (XI (XO (XI (XO
    XH))))))))))))) :: (((Zpos (XO (XI (XI (XI (XI (XO (XI (XI (XO (XO
    XH))))))))))), (Npos (XO (XO (XI (XO (XO (XO (XO (XO (XI (XI (XO
    XH))))))))))))) :: (((Zpos (XI (XI (XI (XI (XI (XO (XI (XI (XO (XO
    XH))))))))))), (Npos (XO (XO (XO (XO (XI (XO (XO (XO (XI (XI (XO
    XH))))))))))))) :: (((Zpos (XO (XO (XI (XI (XO (XI (XO (XI (XI (XO
    XH))))))))))), (Npos (XO (XO (XO (XO (XO (XI (XO (XO (XI (XI (XO
    XH))))))))))))) :: (((Zpos (XI (XI (XO (XI (XI (XI (XO (XI (XI (XO
    XH))))))))))), (Npos (XI (XO (XI (XI (XO (XI (XO (XO (XI (XI (XO
    XH))))))))))))) :: (((Zpos (XI (XI (XI (XI (XI (XI (XO (XI (XI (XO
    XH))))))))))), (Npos (XO (XI (XI (XI (XI (XI (XO (XO (XI (XI (XO
    XH))))))))))))) :: (((Zpos (XI (XO (XO (XO (XO (XO (XI (XI (XI (XO
    XH))))))))))), (Npos (XI (XI (XO (XO (XI (XO (XI (XO (XI (XI (XO
    XH))))))))))))) :: (((Zpos (XO (XI (XO (XO (XO (XO (XI (XI (XI (XO
    XH))))))))))), (Npos (XO (XO (XO (XO (XO (XI (XI (XO (XI (XI (XO
    XH))))))))))))) :: (((Zpos (XI (XI (XO (XO (XO (XO (XI (XI (XI (XO
    XH))))))))))), (Npos (XI (XI (XO (XO (XI (XI (XI (XO (XI (XI (XO
    XH))))))))))))) :: (((Zpos (XO (XO (XI (XO (XO (XO (XI (XI (XI (XO
    XH))))))))))), (Npos (XO (XI (XI (XO (XO (XO (XO (XI (XI (XI (XO
    XH))))))))))))) :: (((Zpos (XI (XO (XI (XO (XO (XO (XI (XI (XI (XO
    XH))))))))))), (Npos (XO (XO (XO (XI (XI (XO (XO (XI (XI (XI (XO
    XH))))))))))))) :: (((Zpos (XO (XI (XI (XO (XO (XO (XI (XI (XI (XO
    XH))))))))))), (Npos (XO (XI (XI (XI (XO (XI (XO (XI (XI (XI (XO
    XH))))))))))))) :: (((Zpos (XI (XI (XI (XO (XO (XO (XI (XI (XI (XO
    XH))))))))))), (Npos (XO (XO (XO (XO (XO (XO (XI (XI (XI (XI (XO
    XH))))))))))))) :: (((Zpos (XO (XO (XO (XI (XO (XO (XI (XI (XI (XO
    XH))))))))))), (Npos (XO (XO (XI (XI (XO (XO (XI (XI (XI (XI (XO
    XH))))))))))))) :: (((Zpos (XI (XO (XO (XI (XO (XO (XI (XI (XI (XO
    XH))))))))))), (Npos (XI (XI (XI (XO (XI (XO (XI (XI (XI (XI (XO
    XH))))))))))))) :: (((Zpos (XO (XI (XO (XI (XO (XO (XI (XI (XI (XO
    XH))))))))))), (Npos (XI (XO (XO (XI (XO (XI (XI (XI (XI (XI (XO
    XH))))))))))))) :: (((Zpos (XI (XI (XO (XI (XO (XO (XI (XI (XI (XO
    XH))))))))))), (Npos (XO (XO (XI (XO (XI (XI (XI (XI (XI (XI (XO
    XH))))))))))))) :: (((Zpos (XO (XO (XI (XI (XO (XO (XI (XI (XI (XO
    XH))))))))))), (Npos (XO (XO (XO (XO (XO (XO (XO (XO (XO (XO (XI
    XH))))))))))))) :: (((Zpos (XI (XO (XI (XI (XO (XO (XI (XI (XI (XO
    XH))))))))))), (Npos (XO (XO (XI (XI (XO (XO (XO (XO (XO (XO (XI
    XH))))))))))))) :: (((Zpos (XO (XI (XI (XI (XO (XO (XI (XI (XI (XO
    XH))))))))))), (Npos (XI (XI (XI (XO (XI (XO (XO (XO (XO (XO (XI
    XH))))))))))))) :: (((Zpos (XI (XI (XI (XI (XO (XO (XI (XI (XI (XO
    XH))))))))))), (Npos (XI (XI (XO (XO (XO (XI (XO (XO (XO (XO (XI
    XH))))))))))))) :: (((Zpos (XO (XO (XO (XO (XI (XO (XI (XI (XI (XO
    XH))))))))))), (Npos (XO (XI (XI (XI (XO (XI (XO (XO (XO (XO (XI
    XH))))))))))))) :: (((Zpos (XI (XO (XO (XO (XI (XO (XI (XI (XI (XO
    XH))))))))))), (Npos (XO (XI (XO (XI (XI (XI (XO (XO (XO (XO (XI
    XH))))))))))))) :: (((Zpos (XO (XI (XO (XO (XI (XO (XI (XI (XI (XO
    XH))))))))))), (Npos (XO (XO (XI (XO (XO (XO (XI (XO (XO (XO (XI
    XH))))))))))))) :: (((Zpos (XI (XI (XO (XO (XI (XO (XI (XI (XI (XO
    XH))))))))))), (Npos (XO (XO (XO (XO (XI (XO (XI (XO (XO (XO (XI
    XH))))))))))))) :: (((Zpos (XO (XO (XI (XO (XI (XO (XI (XI (XI (XO
    XH))))))))))), (Npos (XO (XO (XI (XI (XI (XO (XI (XO (XO (XO (XI
    XH))))))))))))) :: (((Zpos (XI (XO (XI (XO (XI (XO (XI (XI (XI (XO
    XH))))))))))), (Npos (XI (XO (XO (XI (XO (XI (XI (XO (XO (XO (XI
    XH))))))))))))) :: (((Zpos (XO (XI (XI (XO (XI (XO (XI (XI (XI (XO
    XH))))))))))), (Npos (XO (XO (XI (XO (XI (XI (XI (XO (XO (XO (XI
    XH))))))))))))) :: (((Zpos (XI (XI (XI (XO (XI (XO (XI (XI (XI (XO
    XH))))))))))), (Npos (XI (XI (XI (XI (XI (XI (XI (XO (XO (XO (XI
    XH))))))))))))) :: (((Zpos (XO (XO (XO (XI (XI (XO (XI (XI (XI (XO
    XH))))))))))), (Npos (XO (XI (XO (XI (XO (XO (XO (XI (XO (XO (XI
    XH))))))))))))) :: (((Zpos (XI (XO (XO (XI (XI (XO (XI (XI (XI (XO
    XH))))))))))), (Npos (XI (XO (XI (XO (XI (XO (XO (XI (XO (XO (XI
    XH))))))))))))) :: (((Zpos (XO (XI (XO (XI (XI (XO (XI (XI (XI (XO
    XH))))))))))), (Npos (XO (XO (XO (XO (XO (XI (XO (XI (XO (XO (XI
    XH))))))))))))) :: (((Zpos (XO (XO (XO (XO (XO (XI (XI (XI (XI (XO
    XH))))))))))), (Npos (XI (XO (XI (XI (XO (XI (XO (XI (XO (XO (XI
    XH))))))))))))) :: (((Zpos (XI (XO (XO (XO (XO (XI (XI (XI (XI (XO
    XH))))))))))), (Npos (XO (XO (XI (XI (XI (XI (XO (XI (XO (XO (XI
    XH))))))))))))) :: (((Zpos (XO (XI (XO (XO (XO (XI (XI (XI (XI (XO
    XH))))))))))), (Npos (XI (XI (XI (XO (XO (XO (XI (XI (XO (XO (XI
    XH))))))))))))) :: (((Zpos (XI (XI (XO (XO (XO (XI (XI (XI (XI (XO
    XH))))))))))), (Npos (XO (XI (XO (XO (XI (XO (XI (XI (XO (XO (XI
    XH))))))))))))) :: (((Zpos (XO (XO (XI (XO (XO (XI (XI (XI (XI (XO
    XH))))))))))), (Npos (XI (XO (XI (XI (XI (XO (XI (XI (XO (XO (XI
    XH))))))))))))) :: (((Zpos (XI (XO (XI (XO (XO (XI (XI (XI (XI (XO
    XH))))))))))), (Npos (XO (XO (XO (XI (XO (XI (XI (XI (XO (XO (XI
    XH))))))))))))) :: (((Zpos (XO (XI (XI (XO (XO (XI (XI (XI (XI (XO
    XH))))))))))), (Npos (XO (XO (XI (XO (XI (XI (XI (XI (XO (XO (XI
    XH))))))))))))) :: (((Zpos (XI (XI (XI (XO (XO (XI (XI (XI (XI (XO
    XH))))))))))), (Npos (XO (XO (XO (XO (XO (XO (XO (XO (XI (XO (XI
    XH))))))))))))) :: (((Zpos (XI (XI (XI (XO (XO (XI (XI (XI (XI (XO
    XH))))))))))), (Npos (XO (XI (XO (XI (XO (XO (XO (XO (XI (XO (XI
    XH))))))))))))) :: (((Zpos (XO (XO (XO (XI (XO (XI (XI (XI (XI (XO
    XH))))))))))), (Npos (XI (XO (XI (XO (XI (XO (XO (XO (XI (XO (XI
    XH))))))))))))) :: (((Zpos (XI (XO (XO (XI (XO (XI (XI (XI (XI (XO
    XH))))))))))), (Npos (XO (XO (XO (XO (XO (XI (XO (XO (XI (XO (XI
    XH))))))))))))) :: (((Zpos (XO (XI (XO (XI (XO (XI (XI (XI (XI (XO
    XH))))))))))), (Npos (XI (XI (XO (XO (XI (XI (XO (XO (XI (XO (XI
    XH))))))))))))) :: (((Zpos (XI (XI (XO (XI (XO (XI (XI (XI (XI (XO
    XH))))))))))), (Npos (XO (XI (XI (XI (XI (XI (XO (XO (XI (XO (XI
    XH))))))))))))) :: (((Zpos (XO (XO (XI (XI (XO (XI (XI (XI (XI (XO
    XH))))))))))), (Npos (XO (XI (XI (XI (XO (XO (XI (XO (XI (XO (XI
    XH))))))))))))) :: (((Zpos (XI (XO (XI (XI (XO (XI (XI (XI (XI (XO
    XH))))))))))), (Npos (XO (XI (XI (XI (XI (XO (XI (XO (XI (XO (XI
    XH))))))))))))) :: (((Zpos (XO (XI (XI (XI (XO (XI (XI (XI (XI (XO
    XH))))))))))), (Npos (XO (XI (XI (XI (XO (XI (XI (XO (XI (XO (XI
    XH))))))))))))) :: (((Zpos (XI (XI (XI (XI (XO (XI (XI (XI (XI (XO
    XH))))))))))), (Npos (XI (XI (XO (XI (XI (XI (XI (XO (XI (XO (XI
    XH))))))))))))) :: (((Zpos (XO (XO (XO (XO (XI (XI (XI (XI (XI (XO
    XH))))))))))), (Npos (XO (XO (XO (XI (XO (XO (XO (XI (XI (XO (XI
    XH))))))))))))) :: (((Zpos (XI (XO (XO (XO (XI (XI (XI (XI (XI (XO
    XH))))))))))), (Npos (XI (XO (XI (XO (XI (XO (XO (XI (XI (XO (XI
    XH))))))))))))) :: (((Zpos (XO (XI (XO (XO (XI (XI (XI (XI (XI (XO
    XH))))))))))), (Npos (XI (XI (XO (XO (XO (XI (XO (XI (XI (XO (XI
    XH))))))))))))) :: (((Zpos (XI (XO (XO (XO (XO (XI (XO (XI (XO (XI
    XH))))))))))), (Npos (XO (XO (XO (XO (XI (XI (XO (XI (XI (XO (XI
    XH))))))))))))) :: (((Zpos (XO (XI (XO (XO (XO (XI (XO (XI (XO (XI
    XH))))))))))), (Npos (XO (XO (XI (XI (XI (XI (XO (XI (XI (XO (XI
    XH))))))))))))) :: (((Zpos (XI (XI (XO (XO (XO (XI (XO (XI (XO (XI
    XH))))))))))), (Npos (XO (XI (XO (XI (XO (XO (XI (XI (XI (XO (XI
    XH))))))))))))) :: (((Zpos (XO (XO (XI (XO (XO (XI (XO (XI (XO (XI
    XH))))))))))), (Npos (XO (XI (XI (XO (XI (XO (XI (XI (XI (XO (XI
    XH))))))))))))) :: (((Zpos (XO (XO (XI (XO (XO (XI (XO (XI (XO (XI
    XH))))))))))), (Npos (XI (XI (XO (XO (XO (XI (XI (XI (XI (XO (XI
    XH))))))))))))) :: (((Zpos (XI (XO (XI (XO (XO (XI (XO (XI (XO (XI
    XH))))))))))), (Npos (XI (XI (XI (XI (XO (XI (XI (XI (XI (XO (XI
    XH))))))))))))) :: (((Zpos (XO (XI (XI (XO (XO (XI (XO (XI (XO (XI
    XH))))))))))), (Npos (XI (XO (XI (XI (XI (XI (XI (XI (XI (XO (XI
    XH))))))))))))) :: (((Zpos (XO (XI (XI (XO (XO (XI (XO (XI (XO (XI
    XH))))))))))), (Npos (XI (XO (XO (XI (XO (XO (XO (XO (XO (XI (XI
    XH))))))))))))) :: (((Zpos (XI (XI (XI (XO (XO (XI (XO (XI (XO (XI
    XH))))))))))), (Npos (XO (XO (XI (XO (XI (XO (XO (XO (XO (XI (XI
    XH))))))))))))) :: (((Zpos (XI (XI (XI (XO (XO (XI (XO (XI (XO (XI
    XH))))))))))), (Npos (XI (XO (XO (XO (XO (XI (XO (XO (XO (XI (XI
    XH))))))))))))) :: (((Zpos (XO (XO (XO (XI (XO (XI (XO (XI (XO (XI
    XH))))))))))), (Npos (XI (XO (XI (XI (XO (XI (XO (XO (XO (XI (XI
    XH))))))))))))) :: (((Zpos (XO (XO (XO (XI (XO (XI (XO (XI (XO (XI
    XH))))))))))), (Npos (XI (XO (XO (XI (XI (XI (XO (XO (XO (XI (XI
    XH))))))))))))) :: (((Zpos (XI (XO (XO (XI (XO (XI (XO (XI (XO (XI
    XH))))))))))), (Npos (XO (XO (XI (XO (XO (XO (XI (XO (XO (XI (XI
    XH))))))))))))) :: (((Zpos (XI (XO (XO (XI (XO (XI (XO (XI (XO (XI
    XH))))))))))), (Npos (XI (XO (XO (XO (XI (XO (XI (XO (XO (XI (XI
    XH))))))))))))) :: (((Zpos (XO (XI (XO (XI (XO (XI (XO (XI (XO (XI
    XH))))))))))), (Npos (XI (XO (XI (XI (XI (XO (XI (XO (XO (XI (XI
    XH))))))))))))) :: (((Zpos (XO (XI (XO (XI (XO (XI (XO (XI (XO (XI
    XH))))))))))), (Npos (XO (XI (XO (XI (XO (XI (XI (XO (XO (XI (XI
    XH))))))))))))) :: (((Zpos (XI (XI (XO (XI (XO (XI (XO (XI (XO (XI
    XH))))))))))), (Npos (XO (XI (XI (XO (XI (XI (XI (XO (XO (XI (XI
    XH))))))))))))) :: (((Zpos (XO (XO (XI (XI (XO (XI (XO (XI (XO (XI
    XH))))))))))), (Npos (XI (XI (XO (XO (XO (XO (XO (XI (XO (XI (XI
    XH))))))))))))) :: (((Zpos (XO (XI (XI (XI (XO (XI (XO (XI (XO (XI
    XH))))))))))), (Npos (XI (XO (XO (XO (XI (XO (XO (XI (XO (XI (XI
    XH))))))))))))) :: (((Zpos (XI (XI (XI (XI (XO (XI (XO (XI (XO (XI
    XH))))))))))), (Npos (XI (XO (XI (XO (XO (XI (XO (XI (XO (XI (XI
    XH))))))))))))) :: (((Zpos (XI (XI (XI (XI (XO (XI (XO (XI (XO (XI
    XH))))))))))), (Npos (XI (XI (XO (XO (XI (XI (XO (XI (XO (XI (XI
    XH))))))))))))) :: (((Zpos (XO (XO (XO (XO (XI (XI (XO (XI (XO (XI
    XH))))))))))), (Npos (XI (XI (XI (XI (XI (XI (XO (XI (XO (XI (XI
    XH))))))))))))) :: (((Zpos (XI (XO (XO (XO (XI (XI (XO (XI (XO (XI
    XH))))))))))), (Npos (XO (XI (XO (XI (XO (XO (XI (XI (XO (XI (XI
    XH))))))))))))) :: (((Zpos (XO (XI (XO (XO (XI (XI (XO (XI (XO (XI
    XH))))))))))), (Npos (XO (XI (XI (XO (XI (XO (XI (XI (XO (XI (XI
    XH))))))))))))) :: (((Zpos (XI (XI (XO (XO (XI (XI (XO (XI (XO (XI
    XH))))))))))), (Npos (XO (XO (XI (XO (XO (XI (XI (XI (XO (XI (XI
    XH))))))))))))) :: (((Zpos (XO (XO (XI (XO (XI (XI (XO (XI (XO (XI
    XH))))))))))), (Npos (XO (XO (XO (XO (XI (XI (XI (XI (XO (XI (XI
    XH))))))))))))) :: (((Zpos (XO (XO (XI (XO (XI (XI (XO (XI (XO (XI
    XH))))))))))), (Npos (XI (XO (XI (XI (XI (XI (XI (XI (XO (XI (XI
    XH))))))))))))) :: (((Zpos (XI (XO (XI (XO (XI (XI (XO (XI (XO (XI
    XH))))))))))), (Npos (XI (XO (XO (XI (XO (XO (XO (XO (XI (XI (XI
    XH))))))))))))) :: (((Zpos (XO (XI (XI (XO (XI (XI (XO (XI (XO (XI
    XH))))))))))), (Npos (XI (XI (XI (XO (XI (XO (XO (XO (XI (XI (XI
    XH))))))))))))) :: (((Zpos (XO (XI (XI (XO (XI (XI (XO (XI (XO (XI
    XH))))))))))), (Npos (XI (XI (XO (XO (XO (XI (XO (XO (XI (XI (XI
    XH))))))))))))) :: (((Zpos (XI (XI (XI (XO (XI (XI (XO (XI (XO (XI
    XH))))))))))), (Npos (XO (XI (XI (XI (XO (XI (XO (XO (XI (XI (XI
    XH))))))))))))) :: (((Zpos (XI (XI (XI (XO (XI (XI (XO (XI (XO (XI
    XH))))))))))), (Npos (XI (XI (XO (XI (XI (XI (XO (XO (XI (XI (XI
    XH))))))))))))) :: (((Zpos (XO (XO (XO (XI (XI (XI (XO (XI (XO (XI
    XH))))))))))), (Npos (XI (XI (XI (XO (XO (XO (XI (XO (XI (XI (XI
    XH))))))))))))) :: (((Zpos (XO (XO (XO (XI (XI (XI (XO (XI (XO (XI
    XH))))))))))), (Npos (XI (XI (XO (XO (XI (XO (XI (XO (XI (XI (XI
    XH))))))))))))) :: (((Zpos (XI (XO (XO (XI (XI (XI (XO (XI (XO (XI
    XH))))))))))), (Npos (XO (XI (XI (XI (XI (XO (XI (XO (XI (XI (XI
    XH))))))))))))) :: (((Zpos (XI (XO (XO (XI (XI (XI (XO (XI (XO (XI
    XH))))))))))), (Npos (XI (XI (XO (XI (XO (XI (XI (XO (XI (XI (XI
    XH))))))))))))) :: (((Zpos (XO (XI (XO (XI (XI (XI (XO (XI (XO (XI
    XH))))))))))), (Npos (XI (XI (XI (XO (XI (XI (XI (XO (XI (XI (XI
    XH))))))))))))) :: (((Zpos (XO (XI (XO (XI (XI (XI (XO (XI (XO (XI
    XH))))))))))), (Npos (XO (XO (XI (XO (XO (XO (XO (XI (XI (XI (XI
    XH))))))))))))) :: (((Zpos (XI (XI (XO (XI (XI (XI (XO (XI (XO (XI
    XH))))))))))), (Npos (XO (XO (XO (XO (XI (XO (XO (XI (XI (XI (XI
    XH))))))))))))) :: (((Zpos (XO (XO (XI (XI (XI (XI (XO (XI (XO (XI
    XH))))))))))), (Npos (XI (XO (XI (XI (XI (XO (XO (XI (XI (XI (XI
    XH))))))))))))) :: (((Zpos (XO (XI (XI (XI (XI (XI (XO (XI (XO (XI
    XH))))))))))), (Npos (XI (XI (XO (XI (XO (XI (XO (XI (XI (XI (XI
    XH))))))))))))) :: (((Zpos (XI (XI (XI (XI (XI (XI (XO (XI (XO (XI
    XH))))))))))), (Npos (XI (XI (XI (XI (XI (XI (XO (XI (XI (XI (XI
    XH))))))))))))) :: (((Zpos (XI (XI (XI (XI (XI (XI (XO (XI (XO (XI
    XH))))))))))), (Npos (XI (XO (XI (XI (XO (XO (XI (XI (XI (XI (XI
    XH))))))))))))) :: (((Zpos (XO (XO (XO (XO (XO (XO (XI (XI (XO (XI
    XH))))))))))), (Npos (XI (XO (XO (XI (XI (XO (XI (XI (XI (XI (XI
    XH))))))))))))) :: (((Zpos (XI (XO (XO (XO (XO (XO (XI (XI (XO (XI
    XH))))))))))), (Npos (XI (XO (XI (XO (XO (XI (XI (XI (XI (XI (XI
    XH))))))))))))) :: (((Zpos (XO (XI (XO (XO (XO (XO (XI (XI (XO (XI
    XH))))))))))), (Npos (XO (XO (XO (XO (XI (XI (XI (XI (XI (XI (XI
    XH))))))))))))) :: (((Zpos (XI (XI (XO (XO (XO (XO (XI (XI (XO (XI
    XH))))))))))), (Npos (XO (XO (XI (XI (XI (XI (XI (XI (XI (XI (XI
    XH))))))))))))) :: (((Zpos (XO (XO (XI (XO (XO (XO (XI (XI (XO (XI
    XH))))))))))), (Npos (XI (XO (XO (XI (XO (XO (XO (XO (XO (XO (XO (XO
    XH)))))))))))))) :: (((Zpos (XI (XO (XI (XO (XO (XO (XI (XI (XO (XI
    XH))))))))))), (Npos (XI (XO (XI (XO (XI (XO (XO (XO (XO (XO (XO (XO
    XH)))))))))))))) :: (((Zpos (XO (XI (XI (XO (XO (XO (XI (XI (XO (XI
    XH))))))))))), (Npos (XI (XO (XO (XO (XO (XI (XO (XO (XO (XO (XO (XO
    XH)))))))))))))) :: (((Zpos (XI (XI (XI (XO (XO (XO (XI (XI (XO (XI
    XH))))))))))), (Npos (XI (XO (XI (XI (XO (XI (XO (XO (XO (XO (XO (XO
    XH)))))))))))))) :: (((Zpos (XO (XO (XO (XI (XO (XO (XI (XI (XO (XI
    XH))))))))))), (Npos (XO (XI (XO (XI (XI (XI (XO (XO (XO (XO (XO (XO
    XH)))))))))))))) :: (((Zpos (XI (XO (XO (XI (XO (XO (XI (XI (XO (XI
    XH))))))))))), (Npos (XO (XI (XI (XO (XO (XO (XI (XO (XO (XO (XO (XO
    XH)))))))))))))) :: (((Zpos (XO (XI (XO (XI (XO (XO (XI (XI (XO (XI
    XH))))))))))), (Npos (XI (XO (XO (XO (XI (XO (XI (XO (XO (XO (XO (XO
    XH)))))))))))))) :: (((Zpos (XI (XI (XO (XI (XO (XO (XI (XI (XO (XI
    XH))))))))))), (Npos (XI (XO (XO (XO (XO (XI (XI (XO (XO (XO (XO (XO
    XH)))))))))))))) :: (((Zpos (XO (XO (XI (XI (XO (XO (XI (XI (XO (XI
    XH))))))))))), (Npos (XI (XO (XI (XI (XO (XI (XI (XO (XO (XO (XO (XO
    XH)))))))))))))) :: (((Zpos (XI (XO (XI (XI (XO (XO (XI (XI (XO (XI
    XH))))))))))), (Npos (XI (XO (XO (XI (XI (XI (XI (XO (XO (XO (XO (XO
    XH)))))))))))))) :: (((Zpos (XO (XI (XI (XI (XO (XO (XI (XI (XO (XI
    XH))))))))))), (Npos (XI (XO (XI (XO (XO (XO (XO (XI (XO (XO (XO (XO
    XH)))))))))))))) :: (((Zpos (XI (XI (XI (XI (XO (XO (XI (XI (XO (XI
    XH))))))))))), (Npos (XI (XO (XO (XO (XI (XO (XO (XI (XO (XO (XO (XO
    XH)))))))))))))) :: (((Zpos (XO (XO (XO (XO (XI (XO (XI (XI (XO (XI
    XH))))))))))), (Npos (XO (XO (XI (XI (XI (XO (XO (XI (XO (XO (XO (XO
    XH)))))))))))))) :: (((Zpos (XI (XO (XO (XO (XI (XO (XI (XI (XO (XI
    XH))))))))))), (Npos (XO (XO (XO (XI (XO (XI (XO (XI (XO (XO (XO (XO
    XH)))))))))))))) :: (((Zpos (XO (XI (XO (XO (XI (XO (XI (XI (XO (XI
    XH))))))))))), (Npos (XO (XO (XI (XO (XI (XI (XO (XI (XO (XO (XO (XO
    XH)))))))))))))) :: (((Zpos (XI (XI (XO (XO (XI (XO (XI (XI (XO (XI
    XH))))))))))), (Npos (XO (XO (XO (XO (XO (XO (XI (XI (XO (XO (XO (XO
    XH)))))))))))))) :: (((Zpos (XO (XO (XI (XO (XI (XO (XI (XI (XO (XI
    XH))))))))))), (Npos (XO (XO (XI (XI (XO (XO (XI (XI (XO (XO (XO (XO
    XH)))))))))))))) :: (((Zpos (XI (XO (XI (XO (XI (XO (XI (XI (XO (XI
    XH))))))))))), (Npos (XO (XO (XO (XI (XI (XO (XI (XI (XO (XO (XO (XO
    XH)))))))))))))) :: (((Zpos (XO (XI (XI (XO (XI (XO (XI (XI (XO (XI
    XH))))))))))), (Npos (XI (XI (XO (XO (XO (XI (XI (XI (XO (XO (XO (XO
    XH)))))))))))))) :: (((Zpos (XI (XI (XI (XO (XI (XO (XI (XI (XO (XI
    XH))))))))))), (Npos (XO (XO (XO (XO (XI (XI (XI (XI (XO (XO (XO (XO
    XH)))))))))))))) :: (((Zpos (XO (XO (XO (XI (XI (XO (XI (XI (XO (XI
    XH))))))))))), (Npos (XO (XO (XI (XI (XI (XI (XI (XI (XO (XO (XO (XO
    XH)))))))))))))) :: (((Zpos (XI (XO (XO (XI (XI (XO (XI (XI (XO (XI
    XH))))))))))), (Npos (XO (XI (XI (XI (XO (XO (XO (XO (XI (XO (XO (XO
    XH)))))))))))))) :: (((Zpos (XO (XI (XO (XI (XI (XO (XI (XI (XO (XI
    XH))))))))))), (Npos (XO (XO (XI (XI (XI (XO (XO (XO (XI (XO (XO (XO
    XH)))))))))))))) :: (((Zpos (XI (XI (XO (XI (XI (XO (XI (XI (XO (XI
    XH))))))))))), (Npos (XO (XO (XO (XI (XO (XI (XO (XO (XI (XO (XO (XO
    XH)))))))))))))) :: (((Zpos (XO (XO (XI (XI (XI (XO (XI (XI (XO (XI
    XH))))))))))), (Npos (XI (XO (XI (XO (XI (XI (XO (XO (XI (XO (XO (XO
    XH)))))))))))))) :: (((Zpos (XI (XO (XI (XI (XI (XO (XI (XI (XO (XI
    XH))))))))))), (Npos (XO (XO (XO (XO (XO (XO (XI (XO (XI (XO (XO (XO
    XH)))))))))))))) :: (((Zpos (XO (XI (XI (XI (XI (XO (XI (XI (XO (XI
    XH))))))))))), (Npos (XI (XI (XI (XI (XO (XO (XI (XO (XI (XO (XO (XO
    XH)))))))))))))) :: (((Zpos (XI (XI (XI (XI (XI (XO (XI (XI (XO (XI
    XH))))))))))), (Npos (XO (XO (XI (XI (XI (XO (XI (XO (XI (XO (XO (XO
    XH)))))))))))))) :: (((Zpos (XO (XO (XO (XO (XO (XI (XI (XI (XO (XI
    XH))))))))))), (Npos (XO (XI (XI (XI (XO (XI (XI (XO (XI (XO (XO (XO
    XH)))))))))))))) :: (((Zpos (XI (XO (XO (XO (XO (XI (XI (XI (XO (XI
    XH))))))))))), (Npos (XO (XI (XO (XI (XI (XI (XI (XO (XI (XO (XO (XO
    XH)))))))))))))) :: (((Zpos (XO (XI (XO (XO (XO (XI (XI (XI (XO (XI
    XH))))))))))), (Npos (XI (XO (XI (XO (XO (XO (XO (XI (XI (XO (XO (XO
    XH)))))))))))))) :: (((Zpos (XI (XI (XO (XO (XO (XI (XI (XI (XO (XI
    XH))))))))))), (Npos (XI (XO (XO (XO (XI (XO (XO (XI (XI (XO (XO (XO
    XH)))))))))))))) :: (((Zpos (XO (XO (XI (XO (XO (XI (XI (XI (XO (XI
    XH))))))))))), (Npos (XO (XI (XI (XI (XI (XO (XO (XI (XI (XO (XO (XO
    XH)))))))))))))) :: (((Zpos (XI (XO (XI (XO (XO (XI (XI (XI (XO (XI
    XH))))))))))), (Npos (XO (XI (XO (XI (XO (XI (XO (XI (XI (XO (XO (XO
    XH)))))))))))))) :: (((Zpos (XO (XI (XI (XO (XO (XI (XI (XI (XO (XI
    XH))))))))))), (Npos (XO (XI (XI (XO (XI (XI (XO (XI (XI (XO (XO (XO
    XH)))))))))))))) :: (((Zpos (XI (XI (XI (XO (XO (XI (XI (XI (XO (XI
    XH))))))))))), (Npos (XO (XI (XO (XO (XO (XO (XI (XI (XI (XO (XO (XO
    XH)))))))))))))) :: (((Zpos (XO (XO (XO (XI (XO (XI (XI (XI (XO (XI
    XH))))))))))), (Npos (XI (XI (XI (XI (XO (XO (XI (XI (XI (XO (XO (XO
    XH)))))))))))))) :: (((Zpos (XI (XO (XO (XI (XO (XI (XI (XI (XO (XI
    XH))))))))))), (Npos (XI (XI (XO (XI (XI (XO (XI (XI (XI (XO (XO (XO
    XH)))))))))))))) :: (((Zpos (XO (XI (XO (XI (XO (XI (XI (XI (XO (XI
    XH))))))))))), (Npos (XO (XI (XI (XO (XO (XI (XI (XI (XI (XO (XO (XO
    XH)))))))))))))) :: (((Zpos (XI (XI (XO (XI (XO (XI (XI (XI (XO (XI
    XH))))))))))), (Npos (XO (XI (XI (XO (XI (XI (XI (XI (XI (XO (XO (XO
    XH)))))))))))))) :: (((Zpos (XO (XO (XI (XI (XO (XI (XI (XI (XO (XI
    XH))))))))))), (Npos (XO (XI (XO (XO (XO (XO (XO (XO (XO (XI (XO (XO
    XH)))))))))))))) :: (((Zpos (XI (XO (XI (XI (XO (XI (XI (XI (XO (XI
    XH))))))))))), (Npos (XO (XI (XI (XI (XO (XO (XO (XO (XO (XI (XO (XO
    XH)))))))))))))) :: (((Zpos (XO (XI (XI (XI (XO (XI (XI (XI (XO (XI
    XH))))))))))), (Npos (XO (XI (XO (XI (XI (XO (XO (XO (XO (XI (XO (XO
    XH)))))))))))))) :: (((Zpos (XI (XI (XI (XI (XO (XI (XI (XI (XO (XI
    XH))))))))))), (Npos (XO (XI (XI (XO (XO (XI (XO (XO (XO (XI (XO (XO
    XH)))))))))))))) :: (((Zpos (XO (XO (XO (XO (XI (XI (XI (XI (XO (XI
    XH))))))))))), (Npos (XI (XO (XO (XO (XI (XI (XO (XO (XO (XI (XO (XO
    XH)))))))))))))) :: (((Zpos (XI (XO (XO (XO (XI (XI (XI (XI (XO (XI
    XH))))))))))), (Npos (XI (XO (XI (XI (XI (XI (XO (XO (XO (XI (XO (XO
    XH)))))))))))))) :: (((Zpos (XO (XI (XO (XO (XI (XI (XI (XI (XO (XI
    XH))))))))))), (Npos (XI (XO (XO (XI (XO (XO (XI (XO (XO (XI (XO (XO
    XH)))))))))))))) :: (((Zpos (XI (XI (XO (XO (XI (XI (XI (XI (XO (XI
    XH))))))))))), (Npos (XI (XO (XI (XO (XI (XO (XI (XO (XO (XI (XO (XO
    XH)))))))))))))) :: (((Zpos (XO (XO (XI (XO (XI (XI (XI (XI (XO (XI
    XH))))))))))), (Npos (XI (XO (XO (XO (XO (XI (XI (XO (XO (XI (XO (XO
    XH)))))))))))))) :: (((Zpos (XI (XO (XI (XO (XI (XI (XI (XI (XO (XI
    XH))))))))))), (Npos (XI (XO (XI (XI (XO (XI (XI (XO (XO (XI (XO (XO
    XH)))))))))))))) :: (((Zpos (XO (XI (XI (XO (XI (XI (XI (XI (XO (XI
    XH))))))))))), (Npos (XO (XO (XO (XI (XI (XI (XI (XO (XO (XI (XO (XO
    XH)))))))))))))) :: (((Zpos (XI (XI (XI (XO (XI (XI (XI (XI (XO (XI
    XH))))))))))), (Npos (XI (XO (XI (XO (XO (XO (XO (XI (XO (XI (XO (XO
    XH)))))))))))))) :: (((Zpos (XO (XO (XO (XI (XI (XI (XI (XI (XO (XI
    XH))))))))))), (Npos (XI (XO (XO (XO (XI (XO (XO (XI (XO (XI (XO (XO
    XH)))))))))))))) :: (((Zpos (XI (XO (XO (XI (XI (XI (XI (XI (XO (XI
    XH))))))))))), (Npos (XI (XI (XO (XO (XO (XI (XO (XI (XO (XI (XO (XO
    XH)))))))))))))) :: (((Zpos (XO (XI (XO (XI (XI (XI (XI (XI (XO (XI
    XH))))))))))), (Npos (XI (XO (XO (XO (XI (XI (XO (XI (XO (XI (XO (XO
    XH)))))))))))))) :: (((Zpos (XI (XI (XO (XI (XI (XI (XI (XI (XO (XI
    XH))))))))))), (Npos (XI (XO (XI (XI (XI (XI (XO (XI (XO (XI (XO (XO
    XH)))))))))))))) :: (((Zpos (XO (XO (XI (XI (XI (XI (XI (XI (XO (XI
    XH))))))))))), (Npos (XO (XI (XO (XI (XO (XO (XI (XI (XO (XI (XO (XO
    XH)))))))))))))) :: (((Zpos (XI (XO (XI (XI (XI (XI (XI (XI (XO (XI
    XH))))))))))), (Npos (XI (XO (XI (XO (XI (XO (XI (XI (XO (XI (XO (XO
    XH)))))))))))))) :: (((Zpos (XO (XI (XI (XI (XI (XI (XI (XI (XO (XI
    XH))))))))))), (Npos (XO (XO (XI (XO (XO (XI (XI (XI (XO (XI (XO (XO
    XH)))))))))))))) :: (((Zpos (XI (XI (XI (XI (XI (XI (XI (XI (XO (XI
    XH))))))))))), (Npos (XI (XO (XO (XO (XI (XI (XI (XI (XO (XI (XO (XO
    XH)))))))))))))) :: (((Zpos (XI (XO (XO (XO (XO (XI (XO (XI (XI (XI
    XH))))))))))), (Npos (XI (XI (XO (XO (XO (XO (XO (XO (XI (XI (XO (XO
    XH)))))))))))))) :: (((Zpos (XO (XI (XO (XO (XO (XI (XO (XI (XI (XI
    XH))))))))))), (Npos (XI (XO (XI (XO (XI (XO (XO (XO (XI (XI (XO (XO
    XH)))))))))))))) :: (((Zpos (XI (XI (XO (XO (XO (XI (XO (XI (XI (XI
    XH))))))))))), (Npos (XI (XO (XO (XI (XO (XI (XO (XO (XI (XI (XO (XO
    XH)))))))))))))) :: (((Zpos (XO (XO (XI (XO (XO (XI (XO (XI (XI (XI
    XH))))))))))), (Npos (XI (XO (XO (XI (XI (XI (XO (XO (XI (XI (XO (XO
    XH)))))))))))))) :: (((Zpos (XI (XO (XI (XO (XO (XI (XO (XI (XI (XI
    XH))))))))))), (Npos (XO (XI (XO (XI (XO (XO (XI (XO (XI (XI (XO (XO
    XH)))))))))))))) :: (((Zpos (XI (XO (XI (XO (XO (XI (XO (XI (XI (XI
    XH))))))))))), (Npos (XI (XO (XI (XI (XI (XO (XI (XO (XI (XI (XO (XO
    XH)))))))))))))) :: (((Zpos (XI (XI (XI (XO (XO (XI (XO (XI (XI (XI
    XH))))))))))), (Npos (XI (XO (XO (XO (XI (XI (XI (XO (XI (XI (XO (XO
    XH)))))))))))))) :: (((Zpos (XO (XO (XO (XI (XO (XI (XO (XI (XI (XI
    XH))))))))))), (Npos (XI (XO (XI (XO (XO (XO (XO (XI (XI (XI (XO (XO
    XH)))))))))))))) :: (((Zpos (XI (XO (XO (XI (XO (XI (XO (XI (XI (XI
    XH))))))))))), (Npos (XI (XO (XO (XI (XI (XO (XO (XI (XI (XI (XO (XO
    XH)))))))))))))) :: (((Zpos (XI (XI (XO (XI (XO (XI (XO (XI (XI (XI
    XH))))))))))), (Npos (XI (XI (XI (XI (XO (XI (XO (XI (XI (XI (XO (XO
    XH)))))))))))))) :: (((Zpos (XO (XI (XI (XI (XO (XI (XO (XI (XI (XI
    XH))))))))))), (Npos (XI (XO (XO (XO (XO (XO (XI (XI (XI (XI (XO (XO
    XH)))))))))))))) :: (((Zpos (XI (XI (XI (XI (XO (XI (XO (XI (XI (XI
    XH))))))))))), (Npos (XO (XI (XI (XO (XI (XO (XI (XI (XI (XI (XO (XO
    XH)))))))))))))) :: (((Zpos (XI (XO (XO (XO (XI (XI (XO (XI (XI (XI
    XH))))))))))), (Npos (XI (XO (XI (XO (XO (XI (XI (XI (XI (XI (XO (XO
    XH)))))))))))))) :: (((Zpos (XO (XI (XO (XO (XI (XI (XO (XI (XI (XI
    XH))))))))))), (Npos (XI (XI (XI (XO (XI (XI (XI (XI (XI (XI (XO (XO
    XH)))))))))))))) :: (((Zpos (XI (XI (XO (XO (XI (XI (XO (XI (XI (XI
    XH))))))))))), (Npos (XI (XI (XO (XI (XO (XO (XO (XO (XO (XO (XI (XO
    XH)))))))))))))) :: (((Zpos (XO (XO (XI (XO (XI (XI (XO (XI (XI (XI
    XH))))))))))), (Npos (XI (XI (XO (XI (XI (XO (XO (XO (XO (XO (XI (XO
    XH)))))))))))))) :: (((Zpos (XI (XO (XI (XO (XI (XI (XO (XI (XI (XI
    XH))))))))))), (Npos (XO (XO (XI (XI (XO (XI (XO (XO (XO (XO (XI (XO
    XH)))))))))))))) :: (((Zpos (XO (XI (XI (XO (XI (XI (XO (XI (XI (XI
    XH))))))))))), (Npos (XI (XI (XI (XI (XI (XI (XO (XO (XO (XO (XI (XO
    XH)))))))))))))) :: (((Zpos (XI (XI (XI (XO (XI (XI (XO (XI (XI (XI
    XH))))))))))), (Npos (XO (XO (XO (XI (XI (XO (XI (XO (XO (XO (XI (XO
    XH)))))))))))))) :: (((Zpos (XO (XO (XO (XI (XI (XI (XO (XI (XI (XI
    XH))))))))))), (Npos (XO (XO (XI (XI (XO (XI (XI (XO (XO (XO (XI (XO
    XH)))))))))))))) :: (((Zpos (XI (XO (XO (XI (XI (XI (XO (XI (XI (XI
    XH))))))))))), (Npos (XO (XO (XO (XO (XO (XO (XO (XI (XO (XO (XI (XO
    XH)))))))))))))) :: (((Zpos (XO (XI (XO (XI (XI (XI (XO (XI (XI (XI
    XH))))))))))), (Npos (XO (XI (XI (XO (XI (XO (XO (XI (XO (XO (XI (XO
    XH)))))))))))))) :: (((Zpos (XI (XI (XO (XI (XI (XI (XO (XI (XI (XI
    XH))))))))))), (Npos (XO (XI (XO (XO (XI (XI (XO (XI (XO (XO (XI (XO
    XH)))))))))))))) :: (((Zpos (XI (XO (XO (XO (XO (XO (XI (XI (XI (XI
    XH))))))))))), (Npos (XO (XO (XI (XO (XO (XO (XI (XI (XO (XO (XI (XO
    XH)))))))))))))) :: (((Zpos (XO (XI (XO (XO (XO (XO (XI (XI (XI (XI
    XH))))))))))), (Npos (XO (XO (XO (XO (XI (XO (XI (XI (XO (XO (XI (XO
    XH)))))))))))))) :: (((Zpos (XI (XI (XO (XO (XO (XO (XI (XI (XI (XI
    XH))))))))))), (Npos (XI (XI (XO (XI (XI (XO (XI (XI (XO (XO (XI (XO
    XH)))))))))))))) :: (((Zpos (XO (XO (XI (XO (XO (XO (XI (XI (XI (XI
    XH))))))))))), (Npos (XI (XI (XI (XO (XO (XI (XI (XI (XO (XO (XI (XO
    XH)))))))))))))) :: (((Zpos (XI (XO (XI (XO (XO (XO (XI (XI (XI (XI
    XH))))))))))), (Npos (XI (XI (XO (XO (XI (XI (XI (XI (XO (XO (XI (XO
    XH)))))))))))))) :: (((Zpos (XO (XI (XI (XO (XO (XO (XI (XI (XI (XI
    XH))))))))))), (Npos (XI (XO (XO (XO (XO (XO (XO (XO (XI (XO (XI (XO
    XH)))))))))))))) :: (((Zpos (XI (XI (XI (XO (XO (XO (XI (XI (XI (XI
    XH))))))))))), (Npos (XO (XO (XI (XI (XO (XO (XO (XO (XI (XO (XI (XO
    XH)))))))))))))) :: (((Zpos (XO (XO (XO (XI (XO (XO (XI (XI (XI (XI
    XH))))))))))), (Npos (XO (XI (XI (XO (XI (XO (XO (XO (XI (XO (XI (XO
    XH)))))))))))))) :: (((Zpos (XI (XO (XO (XI (XO (XO (XI (XI (XI (XI
    XH))))))))))), (Npos (XO (XI (XO (XO (XO (XI (XO (XO (XI (XO (XI (XO
    XH)))))))))))))) :: (((Zpos (XO (XI (XO (XI (XO (XO (XI (XI (XI (XI
    XH))))))))))), (Npos (XI (XO (XI (XI (XO (XI (XO (XO (XI (XO (XI (XO
    XH)))))))))))))) :: (((Zpos (XI (XI (XO (XI (XO (XO (XI (XI (XI (XI
    XH))))))))))), (Npos (XI (XO (XO (XI (XI (XI (XO (XO (XI (XO (XI (XO
    XH)))))))))))))) :: (((Zpos (XI (XI (XO (XI (XO (XO (XI (XI (XI (XI
    XH))))))))))), (Npos (XO (XI (XI (XO (XO (XO (XI (XO (XI (XO (XI (XO
    XH)))))))))))))) :: (((Zpos (XO (XO (XI (XI (XO (XO (XI (XI (XI (XI
    XH))))))))))), (Npos (XO (XI (XO (XO (XI (XO (XI (XO (XI (XO (XI (XO
    XH)))))))))))))) :: (((Zpos (XI (XO (XI (XI (XO (XO (XI (XI (XI (XI
    XH))))))))))), (Npos (XI (XI (XO (XI (XI (XO (XI (XO (XI (XO (XI (XO
    XH)))))))))))))) :: (((Zpos (XO (XI (XI (XI (XO (XO (XI (XI (XI (XI
    XH))))))))))), (Npos (XO (XO (XI (XO (XO (XI (XI (XO (XI (XO (XI (XO
    XH)))))))))))))) :: (((Zpos (XI (XI (XI (XI (XO (XO (XI (XI (XI (XI
    XH))))))))))), (Npos (XI (XO (XI (XI (XO (XI (XI (XO (XI (XO (XI (XO
    XH)))))))))))))) :: (((Zpos (XO (XO (XO (XO (XI (XO (XI (XI (XI (XI
    XH))))))))))), (Npos (XI (XI (XO (XI (XI (XI (XI (XO (XI (XO (XI (XO
    XH)))))))))))))) :: (((Zpos (XI (XO (XO (XO (XI (XO (XI (XI (XI (XI
    XH))))))))))), (Npos (XO (XO (XI (XO (XO (XO (XO (XI (XI (XO (XI (XO
    XH)))))))))))))) :: (((Zpos (XO (XI (XO (XO (XI (XO (XI (XI (XI (XI
    XH))))))))))), (Npos (XO (XI (XI (XI (XO (XO (XO (XI (XI (XO (XI (XO
    XH)))))))))))))) :: (((Zpos (XO (XO (XI (XO (XI (XO (XI (XI (XI (XI
    XH))))))))))), (Npos (XO (XI (XO (XI (XI (XO (XO (XI (XI (XO (XI (XO
    XH)))))))))))))) :: (((Zpos (XI (XO (XI (XO (XI (XO (XI (XI (XI (XI
    XH))))))))))), (Npos (XO (XO (XI (XO (XO (XI (XO (XI (XI (XO (XI (XO
    XH)))))))))))))) :: (((Zpos (XO (XI (XI (XO (XI (XO (XI (XI (XI (XI
    XH))))))))))), (Npos (XO (XI (XO (XO (XI (XI (XO (XI (XI (XO (XI (XO
    XH)))))))))))))) :: (((Zpos (XI (XI (XI (XO (XI (XO (XI (XI (XI (XI
    XH))))))))))), (Npos (XO (XO (XI (XI (XI (XI (XO (XI (XI (XO (XI (XO
    XH)))))))))))))) :: (((Zpos (XO (XO (XO (XI (XI (XO (XI (XI (XI (XI
    XH))))))))))), (Npos (XO (XI (XI (XO (XO (XO (XI (XI (XI (XO (XI (XO
    XH)))))))))))))) :: (((Zpos (XI (XO (XO (XI (XI (XO (XI (XI (XI (XI
    XH))))))))))), (Npos (XO (XO (XO (XO (XI (XO (XI (XI (XI (XO (XI (XO
    XH)))))))))))))) :: (((Zpos (XI (XO (XO (XO (XO (XI (XI (XI (XI (XI
    XH))))))))))), (Npos (XO (XO (XI (XI (XI (XO (XI (XI (XI (XO (XI (XO
    XH)))))))))))))) :: (((Zpos (XO (XI (XO (XO (XO (XI (XI (XI (XI (XI
    XH))))))))))), (Npos (XO (XO (XO (XI (XO (XI (XI (XI (XI (XO (XI (XO
    XH)))))))))))))) :: (((Zpos (XI (XI (XO (XO (XO (XI (XI (XI (XI (XI
    XH))))))))))), (Npos (XI (XI (XO (XO (XI (XI (XI (XI (XI (XO (XI (XO
    XH)))))))))))))) :: (((Zpos (XO (XO (XI (XO (XO (XI (XI (XI (XI (XI
    XH))))))))))), (Npos (XI (XI (XI (XI (XI (XI (XI (XI (XI (XO (XI (XO
    XH)))))))))))))) :: (((Zpos (XI (XO (XI (XO (XO (XI (XI (XI (XI (XI
    XH))))))))))), (Npos (XI (XI (XO (XI (XO (XO (XO (XO (XO (XI (XI (XO
    XH)))))))))))))) :: (((Zpos (XO (XI (XI (XO (XO (XI (XI (XI (XI (XI
    XH))))))))))), (Npos (XI (XO (XO (XI (XI (XO (XO (XO (XO (XI (XI (XO
    XH)))))))))))))) :: (((Zpos (XI (XI (XI (XO (XO (XI (XI (XI (XI (XI
    XH))))))))))), (Npos (XO (XO (XI (XO (XO (XI (XO (XO (XO (XI (XI (XO
    XH)))))))))))))) :: (((Zpos (XO (XO (XO (XI (XO (XI (XI (XI (XI (XI
    XH))))))))))), (Npos (XO (XI (XI (XI (XO (XI (XO (XO (XO (XI (XI (XO
    XH)))))))))))))) :: (((Zpos (XI (XO (XO (XI (XO (XI (XI (XI (XI (XI
    XH))))))))))), (Npos (XO (XI (XO (XI (XI (XI (XO (XO (XO (XI (XI (XO
    XH)))))))))))))) :: (((Zpos (XO (XI (XO (XI (XO (XI (XI (XI (XI (XI
    XH))))))))))), (Npos (XI (XO (XI (XO (XO (XO (XI (XO (XO (XI (XI (XO
    XH)))))))))))))) :: (((Zpos (XI (XI (XO (XI (XO (XI (XI (XI (XI (XI
    XH))))))))))), (Npos (XI (XO (XO (XO (XI (XO (XI (XO (XO (XI (XI (XO
    XH)))))))))))))) :: (((Zpos (XI (XI (XO (XI (XO (XI (XI (XI (XI (XI
    XH))))))))))), (Npos (XO (XI (XI (XI (XI (XO (XI (XO (XO (XI (XI (XO
    XH)))))))))))))) :: (((Zpos (XO (XO (XI (XI (XO (XI (XI (XI (XI (XI
    XH))))))))))), (Npos (XO (XI (XO (XI (XO (XI (XI (XO (XO (XI (XI (XO
    XH)))))))))))))) :: (((Zpos (XI (XO (XI (XI (XO (XI (XI (XI (XI (XI
    XH))))))))))), (Npos (XI (XI (XO (XO (XI (XI (XI (XO (XO (XI (XI (XO
    XH)))))))))))))) :: (((Zpos (XO (XI (XI (XI (XO (XI (XI (XI (XI (XI
    XH))))))))))), (Npos (XO (XO (XI (XI (XI (XI (XI (XO (XO (XI (XI (XO
    XH)))))))))))))) :: (((Zpos (XI (XI (XI (XI (XO (XI (XI (XI (XI (XI
    XH))))))))))), (Npos (XI (XO (XI (XO (XO (XO (XO (XI (XO (XI (XI (XO
    XH)))))))))))))) :: (((Zpos (XO (XO (XO (XO (XI (XI (XI (XI (XI (XI
    XH))))))))))), (Npos (XI (XI (XO (XO (XI (XO (XO (XI (XO (XI (XI (XO
    XH)))))))))))))) :: (((Zpos (XI (XO (XO (XO (XI (XI (XI (XI (XI (XI
    XH))))))))))), (Npos (XO (XO (XI (XI (XI (XO (XO (XI (XO (XI (XI (XO
    XH)))))))))))))) :: (((Zpos (XO (XI (XO (XO (XI (XI (XI (XI (XI (XI
    XH))))))))))), (Npos (XO (XI (XI (XO (XO (XI (XO (XI (XO (XI (XI (XO
    XH)))))))))))))) :: (((Zpos (XI (XI (XO (XO (XI (XI (XI (XI (XI (XI
    XH))))))))))), (Npos (XO (XI (XO (XO (XI (XI (XO (XI (XO (XI (XI (XO
    XH)))))))))))))) :: (((Zpos (XO (XO (XI (XO (XI (XI (XI (XI (XI (XI
    XH))))))))))), (Npos (XO (XO (XO (XI (XO (XO (XI (XI (XO (XI (XI (XO
    XH)))))))))))))) :: (((Zpos (XI (XO (XI (XO (XI (XI (XI (XI (XI (XI
    XH))))))))))), (Npos (XO (XI (XO (XO (XI (XO (XI (XI (XO (XI (XI (XO
    XH)))))))))))))) :: (((Zpos (XO (XI (XI (XO (XI (XI (XI (XI (XI (XI
    XH))))))))))), (Npos (XO (XO (XO (XO (XO (XI (XI (XI (XO (XI (XI (XO
    XH)))))))))))))) :: (((Zpos (XI (XI (XI (XO (XI (XI (XI (XI (XI (XI
    XH))))))))))), (Npos (XO (XI (XO (XI (XO (XI (XI (XI (XO (XI (XI (XO
    XH)))))))))))))) :: (((Zpos (XO (XO (XO (XI (XI (XI (XI (XI (XI (XI
    XH))))))))))), (Npos (XO (XO (XI (XO (XI (XI (XI (XI (XO (XI (XI (XO
    XH)))))))))))))) :: (((Zpos (XI (XO (XO (XI (XI (XI (XI (XI (XI (XI
    XH))))))))))), (Npos (XO (XI (XI (XI (XI (XI (XI (XI (XO (XI (XI (XO
    XH)))))))))))))) :: (((Zpos (XI (XO (XO (XO (XO (XI (XO (XI (XO (XO (XO
    XH)))))))))))), (Npos (XO (XI (XO (XI (XO (XO (XO (XO (XI (XI (XI (XO
    XH)))))))))))))) :: (((Zpos (XO (XI (XO (XO (XO (XI (XO (XI (XO (XO (XO
    XH)))))))))))), (Npos (XO (XI (XI (XO (XI (XO (XO (XO (XI (XI (XI (XO
    XH)))))))))))))) :: (((Zpos (XI (XI (XO (XO (XO (XI (XO (XI (XO (XO (XO
    XH)))))))))))), (Npos (XI (XO (XI (XO (XO (XI (XO (XO (XI (XI (XI (XO
    XH)))))))))))))) :: (((Zpos (XO (XO (XI (XO (XO (XI (XO (XI (XO (XO (XO
    XH)))))))))))), (Npos (XO (XO (XI (XO (XI (XI (XO (XO (XI (XI (XI (XO
    XH)))))))))))))) :: (((Zpos (XI (XO (XI (XO (XO (XI (XO (XI (XO (XO (XO
    XH)))))))))))), (Npos (XO (XO (XO (XO (XO (XO (XI (XO (XI (XI (XI (XO
    XH)))))))))))))) :: (((Zpos (XO (XI (XI (XO (XO (XI (XO (XI (XO (XO (XO
    XH)))))))))))), (Npos (XO (XO (XI (XI (XO (XO (XI (XO (XI (XI (XI (XO
    XH)))))))))))))) :: (((Zpos (XI (XI (XI (XO (XO (XI (XO (XI (XO (XO (XO
    XH)))))))))))), (Npos (XO (XI (XO (XI (XI (XO (XI (XO (XI (XI (XI (XO
    XH)))))))))))))) :: (((Zpos (XO (XO (XO (XI (XO (XI (XO (XI (XO (XO (XO
    XH)))))))))))), (Npos (XI (XI (XO (XI (XO (XI (XI (XO (XI (XI (XI (XO
    XH)))))))))))))) :: (((Zpos (XI (XO (XO (XI (XO (XI (XO (XI (XO (XO (XO
    XH)))))))))))), (Npos (XO (XO (XI (XI (XI (XI (XI (XO (XI (XI (XI (XO
    XH)))))))))))))) :: (((Zpos (XO (XI (XO (XI (XO (XI (XO (XI (XO (XO (XO
    XH)))))))))))), (Npos (XO (XI (XI (XI (XO (XO (XO (XI (XI (XI (XI (XO
    XH)))))))))))))) :: (((Zpos (XI (XI (XO (XI (XO (XI (XO (XI (XO (XO (XO
    XH)))))))))))), (Npos (XO (XO (XO (XO (XO (XI (XO (XI (XI (XI (XI (XO
    XH)))))))))))))) :: (((Zpos (XO (XO (XI (XI (XO (XI (XO (XI (XO (XO (XO
    XH)))))))))))), (Npos (XO (XI (XI (XI (XO (XI (XO (XI (XI (XI (XI (XO
    XH)))))))))))))) :: (((Zpos (XI (XO (XI (XI (XO (XI (XO (XI (XO (XO (XO
    XH)))))))))))), (Npos (XO (XO (XI (XI (XI (XI (XO (XI (XI (XI (XI (XO
    XH)))))))))))))) :: (((Zpos (XO (XI (XI (XI (XO (XI (XO (XI (XO (XO (XO
    XH)))))))))))), (Npos (XI (XI (XO (XI (XO (XO (XI (XI (XI (XI (XI (XO
    XH)))))))))))))) :: (((Zpos (XI (XI (XI (XI (XO (XI (XO (XI (XO (XO (XO
    XH)))))))))))), (Npos (XO (XI (XO (XI (XI (XO (XI (XI (XI (XI (XI (XO
    XH)))))))))))))) :: (((Zpos (XO (XO (XO (XO (XI (XI (XO (XI (XO (XO (XO
    XH)))))))))))), (Npos (XI (XI (XI (XI (XO (XI (XI (XI (XI (XI (XI (XO
    XH)))))))))))))) :: (((Zpos (XI (XO (XO (XO (XI (XI (XO (XI (XO (XO (XO
    XH)))))))))))), (Npos (XI (XO (XI (XO (XO (XO (XO (XO (XO (XO (XO (XI
    XH)))))))))))))) :: (((Zpos (XO (XI (XO (XO (XI (XI (XO (XI (XO (XO (XO
    XH)))))))))))), (Npos (XO (XI (XI (XO (XI (XO (XO (XO (XO (XO (XO (XI
    XH)))))))))))))) :: (((Zpos (XI (XI (XO (XO (XI (XI (XO (XI (XO (XO (XO
    XH)))))))))))), (Npos (XI (XI (XI (XO (XO (XI (XO (XO (XO (XO (XO (XI
    XH)))))))))))))) :: (((Zpos (XO (XO (XI (XO (XI (XI (XO (XI (XO (XO (XO
    XH)))))))))))), (Npos (XI (XO (XO (XO (XO (XO (XI (XO (XO (XO (XO (XI
    XH)))))))))))))) :: (((Zpos (XI (XO (XI (XO (XI (XI (XO (XI (XO (XO (XO
    XH)))))))))))), (Npos (XI (XI (XO (XI (XI (XO (XI (XO (XO (XO (XO (XI
    XH)))))))))))))) :: (((Zpos (XO (XI (XI (XO (XI (XI (XO (XI (XO (XO (XO
    XH)))))))))))), (Npos (XI (XO (XI (XI (XO (XI (XI (XO (XO (XO (XO (XI
    XH)))))))))))))) :: (((Zpos (XI (XI (XI (XO (XI (XI (XO (XI (XO (XO (XO
    XH)))))))))))), (Npos (XI (XI (XI (XI (XI (XI (XI (XO (XO (XO (XO (XI
    XH)))))))))))))) :: (((Zpos (XO (XO (XI (XI (XI (XI (XO (XI (XO (XO (XO
    XH)))))))))))), (Npos (XO (XO (XI (XO (XI (XO (XO (XI (XO (XO (XO (XI
    XH)))))))))))))) :: (((Zpos (XI (XO (XI (XI (XI (XI (XO (XI (XO (XO (XO
    XH)))))))))))), (Npos (XO (XI (XO (XO (XO (XI (XO (XI (XO (XO (XO (XI
    XH)))))))))))))) :: (((Zpos (XO (XI (XI (XI (XI (XI (XO (XI (XO (XO (XO
    XH)))))))))))), (Npos (XI (XI (XO (XI (XO (XI (XO (XI (XO (XO (XO (XI
    XH)))))))))))))) :: (((Zpos (XI (XI (XI (XI (XI (XI (XO (XI (XO (XO (XO
    XH)))))))))))), (Npos (XO (XO (XI (XI (XI (XI (XO (XI (XO (XO (XO (XI
    XH)))))))))))))) :: (((Zpos (XO (XO (XO (XO (XO (XO (XI (XI (XO (XO (XO
    XH)))))))))))), (Npos (XI (XO (XI (XO (XO (XO (XI (XI (XO (XO (XO (XI
    XH)))))))))))))) :: (((Zpos (XI (XO (XO (XO (XO (XO (XI (XI (XO (XO (XO
    XH)))))))))))), (Npos (XI (XI (XI (XI (XO (XO (XI (XI (XO (XO (XO (XI
    XH)))))))))))))) :: (((Zpos (XO (XI (XO (XO (XO (XO (XI (XI (XO (XO (XO
    XH)))))))))))), (Npos (XI (XO (XO (XI (XI (XO (XI (XI (XO (XO (XO (XI
    XH)))))))))))))) :: (((Zpos (XI (XO (XI (XO (XO (XO (XI (XI (XO (XO (XO
    XH)))))))))))), (Npos (XO (XI (XO (XO (XO (XI (XI (XI (XO (XO (XO (XI
    XH)))))))))))))) :: (((Zpos (XO (XO (XO (XI (XO (XO (XI (XI (XO (XO (XO
    XH)))))))))))), (Npos (XO (XO (XO (XI (XO (XI (XI (XI (XO (XO (XO (XI
    XH)))))))))))))) :: (((Zpos (XI (XO (XO (XI (XO (XO (XI (XI (XO (XO (XO
    XH)))))))))))), (Npos (XO (XO (XI (XO (XI (XI (XI (XI (XO (XO (XO (XI
    XH)))))))))))))) :: (((Zpos (XI (XO (XI (XI (XO (XO (XI (XI (XO (XO (XO
    XH)))))))))))), (Npos (XI (XO (XO (XO (XO (XO (XO (XO (XI (XO (XO (XI
    XH)))))))))))))) :: (((Zpos (XO (XI (XI (XI (XO (XO (XI (XI (XO (XO (XO
    XH)))))))))))), (Npos (XO (XI (XO (XI (XO (XO (XO (XO (XI (XO (XO (XI
    XH)))))))))))))) :: (((Zpos (XI (XI (XI (XI (XO (XO (XI (XI (XO (XO (XO
    XH)))))))))))), (Npos (XO (XI (XO (XO (XI (XO (XO (XO (XI (XO (XO (XI
    XH)))))))))))))) :: (((Zpos (XO (XI (XI (XO (XI (XO (XI (XI (XO (XO (XO
    XH)))))))))))), (Npos (XO (XO (XI (XI (XI (XO (XO (XO (XI (XO (XO (XI
    XH)))))))))))))) :: (((Zpos (XO (XI (XO (XI (XI (XO (XI (XI (XO (XO (XO
    XH)))))))))))), (Npos (XO (XO (XI (XO (XO (XI (XO (XO (XI (XO (XO (XI
    XH)))))))))))))) :: (((Zpos (XI (XI (XO (XI (XI (XO (XI (XI (XO (XO (XO
    XH)))))))))))), (Npos (XI (XI (XI (XI (XO (XI (XO (XO (XI (XO (XO (XI
    XH)))))))))))))) :: (((Zpos (XO (XO (XI (XI (XI (XO (XI (XI (XO (XO (XO
    XH)))))))))))), (Npos (XO (XO (XO (XI (XI (XI (XO (XO (XI (XO (XO (XI
    XH)))))))))))))) :: (((Zpos (XI (XO (XI (XI (XI (XO (XI (XI (XO (XO (XO
    XH)))))))))))), (Npos (XI (XO (XI (XO (XO (XO (XI (XO (XI (XO (XO (XI
    XH)))))))))))))) :: (((Zpos (XO (XI (XI (XI (XI (XO (XI (XI (XO (XO (XO
    XH)))))))))))), (Npos (XI (XI (XO (XI (XO (XO (XI (XO (XI (XO (XO (XI
    XH)))))))))))))) :: (((Zpos (XI (XI (XI (XI (XI (XO (XI (XI (XO (XO (XO
    XH)))))))))))), (Npos (XO (XI (XI (XO (XI (XO (XI (XO (XI (XO (XO (XI
    XH)))))))))))))) :: (((Zpos (XI (XI (XI (XI (XO (XI (XI (XI (XO (XO (XO
    XH)))))))))))), (Npos (XO (XO (XO (XO (XO (XI (XI (XO (XI (XO (XO (XI
    XH)))))))))))))) :: (((Zpos (XO (XI (XI (XO (XI (XI (XI (XI (XO (XO (XO
    XH)))))))))))), (Npos (XO (XI (XO (XO (XI (XI (XI (XO (XI (XO (XO (XI
    XH)))))))))))))) :: (((Zpos (XI (XI (XO (XI (XI (XI (XI (XI (XO (XO (XO
    XH)))))))))))), (Npos (XI (XI (XO (XI (XI (XI (XI (XO (XI (XO (XO (XI
    XH)))))))))))))) :: (((Zpos (XO (XO (XI (XI (XI (XI (XI (XI (XO (XO (XO
    XH)))))))))))), (Npos (XI (XO (XI (XO (XO (XO (XO (XI (XI (XO (XO (XI
    XH)))))))))))))) :: (((Zpos (XI (XO (XI (XI (XI (XI (XI (XI (XO (XO (XO
    XH)))))))))))), (Npos (XI (XO (XI (XI (XO (XO (XO (XI (XI (XO (XO (XI
    XH)))))))))))))) :: (((Zpos (XO (XI (XI (XI (XI (XI (XI (XI (XO (XO (XO
    XH)))))))))))), (Npos (XO (XO (XO (XI (XI (XO (XO (XI (XI (XO (XO (XI
    XH)))))))))))))) :: (((Zpos (XI (XI (XI (XI (XI (XO (XI (XI (XI (XO (XO
    XH)))))))))))), (Npos (XO (XI (XO (XO (XO (XI (XO (XI (XI (XO (XO (XI
    XH)))))))))))))) :: (((Zpos (XO (XO (XO (XO (XO (XI (XI (XI (XI (XO (XO
    XH)))))))))))), (Npos (XO (XO (XO (XI (XO (XI (XO (XI (XI (XO (XO (XI
    XH)))))))))))))) :: (((Zpos (XI (XO (XO (XO (XO (XI (XI (XI (XI (XO (XO
    XH)))))))))))), (Npos (XI (XO (XI (XO (XI (XI (XO (XI (XI (XO (XO (XI
    XH)))))))))))))) :: (((Zpos (XO (XI (XO (XO (XO (XI (XI (XI (XI (XO (XO
    XH)))))))))))), (Npos (XO (XI (XO (XO (XO (XO (XI (XI (XI (XO (XO (XI
    XH)))))))))))))) :: (((Zpos (XI (XI (XO (XO (XO (XI (XI (XI (XI (XO (XO
    XH)))))))))))), (Npos (XI (XO (XI (XO (XO (XO (XI (XI (XI (XO (XO (XI
    XH)))))))))))))) :: (((Zpos (XO (XO (XI (XO (XO (XI (XI (XI (XI (XO (XO
    XH)))))))))))), (Npos (XO (XO (XO (XI (XO (XO (XI (XI (XI (XO (XO (XI
    XH)))))))))))))) :: (((Zpos (XI (XO (XI (XO (XO (XI (XI (XI (XI (XO (XO
    XH)))))))))))), (Npos (XI (XI (XO (XI (XO (XO (XI (XI (XI (XO (XO (XI
    XH)))))))))))))) :: (((Zpos (XO (XO (XO (XI (XO (XI (XI (XI (XI (XO (XO
    XH)))))))))))), (Npos (XO (XI (XI (XI (XO (XO (XI (XI (XI (XO (XO (XI
    XH)))))))))))))) :: (((Zpos (XI (XO (XO (XI (XO (XI (XI (XI (XI (XO (XO
    XH)))))))))))), (Npos (XI (XO (XO (XO (XI (XO (XI (XI (XI (XO (XO (XI
    XH)))))))))))))) :: (((Zpos (XO (XI (XO (XI (XO (XI (XI (XI (XI (XO (XO
    XH)))))))))))), (Npos (XO (XO (XI (XO (XI (XO (XI (XI (XI (XO (XO (XI
    XH)))))))))))))) :: (((Zpos (XI (XI (XO (XI (XO (XI (XI (XI (XI (XO (XO
    XH)))))))))))), (Npos (XI (XI (XO (XO (XO (XI (XI (XI (XI (XO (XO (XI
    XH)))))))))))))) :: (((Zpos (XO (XO (XI (XI (XO (XI (XI (XI (XI (XO (XO
    XH)))))))))))), (Npos (XI (XO (XO (XO (XI (XI (XI (XI (XI (XO (XO (XI
    XH)))))))))))))) :: (((Zpos (XI (XO (XI (XI (XO (XI (XI (XI (XI (XO (XO
    XH)))))))))))), (Npos (XO (XI (XI (XI (XI (XI (XI (XI (XI (XO (XO (XI
    XH)))))))))))))) :: (((Zpos (XO (XI (XI (XI (XO (XI (XI (XI (XI (XO (XO
    XH)))))))))))), (Npos (XO (XO (XI (XI (XO (XO (XO (XO (XO (XI (XO (XI
    XH)))))))))))))) :: (((Zpos (XI (XI (XI (XI (XO (XI (XI (XI (XI (XO (XO
    XH)))))))))))), (Npos (XO (XI (XO (XI (XI (XO (XO (XO (XO (XI (XO (XI
    XH)))))))))))))) :: (((Zpos (XO (XO (XO (XO (XI (XI (XI (XI (XI (XO (XO
    XH)))))))))))), (Npos (XI (XO (XO (XI (XO (XI (XO (XO (XO (XI (XO (XI
    XH)))))))))))))) :: (((Zpos (XI (XO (XO (XO (XI (XI (XI (XI (XI (XO (XO
    XH)))))))))))), (Npos (XO (XO (XO (XI (XI (XI (XO (XO (XO (XI (XO (XI
    XH)))))))))))))) :: (((Zpos (XO (XI (XO (XO (XI (XI (XI (XI (XI (XO (XO
    XH)))))))))))), (Npos (XI (XI (XI (XO (XO (XO (XI (XO (XO (XI (XO (XI
    XH)))))))))))))) :: (((Zpos (XI (XI (XO (XO (XI (XI (XI (XI (XI (XO (XO
    XH)))))))))))), (Npos (XO (XI (XI (XO (XI (XO (XI (XO (XO (XI (XO (XI
    XH)))))))))))))) :: (((Zpos (XO (XO (XI (XO (XI (XI (XI (XI (XI (XO (XO
    XH)))))))))))), (Npos (XI (XO (XI (XO (XO (XI (XI (XO (XO (XI (XO (XI
    XH)))))))))))))) :: (((Zpos (XI (XO (XI (XO (XI (XI (XI (XI (XI (XO (XO
    XH)))))))))))), (Npos (XI (XI (XO (XI (XO (XI (XI (XO (XO (XI (XO (XI
    XH)))))))))))))) :: (((Zpos (XO (XI (XI (XO (XI (XI (XI (XI (XI (XO (XO
    XH)))))))))))), (Npos (XO (XI (XO (XO (XI (XI (XI (XO (XO (XI (XO (XI
    XH)))))))))))))) :: (((Zpos (XI (XI (XI (XO (XI (XI (XI (XI (XI (XO (XO
    XH)))))))))))), (Npos (XI (XI (XI (XO (XI (XI (XI (XO (XO (XI (XO (XI
    XH)))))))))))))) :: (((Zpos (XO (XO (XO (XI (XI (XI (XI (XI (XI (XO (XO
    XH)))))))))))), (Npos (XO (XO (XI (XI (XI (XI (XI (XO (XO (XI (XO (XI
    XH)))))))))))))) :: (((Zpos (XI (XO (XO (XO (XO (XI (XO (XI (XO (XI (XO
    XH)))))))))))), (Npos (XO (XO (XI (XO (XO (XO (XO (XI (XO (XI (XO (XI
    XH)))))))))))))) :: (((Zpos (XO (XI (XO (XO (XO (XI (XO (XI (XO (XI (XO
    XH)))))))))))), (Npos (XO (XO (XI (XI (XO (XO (XO (XI (XO (XI (XO (XI
    XH)))))))))))))) :: (((Zpos (XI (XI (XO (XO (XO (XI (XO (XI (XO (XI (XO
    XH)))))))))))), (Npos (XO (XO (XI (XO (XI (XO (XO (XI (XO (XI (XO (XI
    XH)))))))))))))) :: (((Zpos (XO (XO (XI (XO (XO (XI (XO (XI (XO (XI (XO
    XH)))))))))))), (Npos (XI (XO (XI (XI (XI (XO (XO (XI (XO (XI (XO (XI
    XH)))))))))))))) :: (((Zpos (XI (XO (XI (XO (XO (XI (XO (XI (XO (XI (XO
    XH)))))))))))), (Npos (XO (XI (XI (XO (XO (XI (XO (XI (XO (XI (XO (XI
    XH)))))))))))))) :: (((Zpos (XO (XI (XI (XO (XO (XI (XO (XI (XO (XI (XO
    XH)))))))))))), (Npos (XI (XO (XO (XO (XI (XI (XO (XI (XO (XI (XO (XI
    XH)))))))))))))) :: (((Zpos (XI (XI (XI (XO (XO (XI (XO (XI (XO (XI (XO
    XH)))))))))))), (Npos (XO (XO (XI (XI (XI (XI (XO (XI (XO (XI (XO (XI
    XH)))))))))))))) :: (((Zpos (XO (XO (XO (XI (XO (XI (XO (XI (XO (XI (XO
    XH)))))))))))), (Npos (XO (XI (XI (XO (XO (XO (XI (XI (XO (XI (XO (XI
    XH)))))))))))))) :: (((Zpos (XI (XO (XO (XI (XO (XI (XO (XI (XO (XI (XO
    XH)))))))))))), (Npos (XO (XO (XO (XO (XI (XO (XI (XI (XO (XI (XO (XI
    XH)))))))))))))) :: (((Zpos (XO (XI (XO (XI (XO (XI (XO (XI (XO (XI (XO
    XH)))))))))))), (Npos (XI (XI (XI (XO (XI (XO (XI (XI (XO (XI (XO (XI
    XH)))))))))))))) :: (((Zpos (XO (XO (XI (XI (XO (XI (XO (XI (XO (XI (XO
    XH)))))))))))), (Npos (XO (XI (XI (XI (XI (XO (XI (XI (XO (XI (XO (XI
    XH)))))))))))))) :: (((Zpos (XO (XI (XI (XI (XO (XI (XO (XI (XO (XI (XO
    XH)))))))))))), (Npos (XO (XI (XO (XI (XO (XI (XI (XI (XO (XI (XO (XI
    XH)))))))))))))) :: (((Zpos (XI (XI (XI (XI (XO (XI (XO (XI (XO (XI (XO
    XH)))))))))))), (Npos (XI (XI (XO (XO (XI (XI (XI (XI (XO (XI (XO (XI
    XH)))))))))))))) :: (((Zpos (XO (XO (XO (XO (XI (XI (XO (XI (XO (XI (XO
    XH)))))))))))), (Npos (XI (XI (XO (XO (XO (XO (XO (XO (XI (XI (XO (XI
    XH)))))))))))))) :: (((Zpos (XI (XO (XO (XO (XI (XI (XO (XI (XO (XI (XO
    XH)))))))))))), (Npos (XO (XO (XI (XI (XO (XO (XO (XO (XI (XI (XO (XI
    XH)))))))))))))) :: (((Zpos (XO (XI (XO (XO (XI (XI (XO (XI (XO (XI (XO
    XH)))))))))))), (Npos (XO (XI (XI (XO (XI (XO (XO (XO (XI (XI (XO (XI
    XH)))))))))))))) :: (((Zpos (XI (XI (XO (XO (XI (XI (XO (XI (XO (XI (XO
    XH)))))))))))), (Npos (XI (XI (XI (XI (XI (XO (XO (XO (XI (XI (XO (XI
    XH)))))))))))))) :: (((Zpos (XO (XO (XI (XO (XI (XI (XO (XI (XO (XI (XO
    XH)))))))))))), (Npos (XI (XO (XO (XI (XO (XI (XO (XO (XI (XI (XO (XI
    XH)))))))))))))) :: (((Zpos (XI (XO (XI (XO (XI (XI (XO (XI (XO (XI (XO
    XH)))))))))))), (Npos (XI (XO (XI (XO (XI (XI (XO (XO (XI (XI (XO (XI
    XH)))))))))))))) :: (((Zpos (XO (XI (XI (XO (XI (XI (XO (XI (XO (XI (XO
    XH)))))))))))), (Npos (XO (XO (XO (XO (XO (XO (XI (XO (XI (XI (XO (XI
    XH)))))))))))))) :: (((Zpos (XI (XI (XI (XO (XI (XI (XO (XI (XO (XI (XO
    XH)))))))))))), (Npos (XI (XO (XO (XI (XO (XO (XI (XO (XI (XI (XO (XI
    XH)))))))))))))) :: (((Zpos (XO (XO (XO (XI (XI (XI (XO (XI (XO (XI (XO
    XH)))))))))))), (Npos (XO (XO (XI (XO (XI (XO (XI (XO (XI (XI (XO (XI
    XH)))))))))))))) :: (((Zpos (XI (XI (XO (XI (XI (XI (XO (XI (XO (XI (XO
    XH)))))))))))), (Npos (XI (XI (XO (XI (XI (XO (XI (XO (XI (XI (XO (XI
    XH)))))))))))))) :: (((Zpos (XO (XO (XI (XI (XI (XI (XO (XI (XO (XI (XO
    XH)))))))))))), (Npos (XI (XI (XO (XO (XO (XI (XI (XO (XI (XI (XO (XI
    XH)))))))))))))) :: (((Zpos (XI (XO (XI (XI (XI (XI (XO (XI (XO (XI (XO
    XH)))))))))))), (Npos (XO (XO (XI (XO (XI (XI (XI (XO (XI (XI (XO (XI
    XH)))))))))))))) :: (((Zpos (XO (XI (XI (XI (XI (XI (XO (XI (XO (XI (XO
    XH)))))))))))), (Npos (XI (XO (XO (XO (XO (XO (XO (XI (XI (XI (XO (XI
    XH)))))))))))))) :: (((Zpos (XI (XI (XI (XI (XI (XI (XO (XI (XO (XI (XO
    XH)))))))))))), (Npos (XI (XI (XO (XO (XI (XO (XO (XI (XI (XI (XO (XI
    XH)))))))))))))) :: (((Zpos (XI (XI (XO (XO (XO (XO (XI (XI (XO (XI (XO
    XH)))))))))))), (Npos (XO (XI (XO (XI (XI (XO (XO (XI (XI (XI (XO (XI
    XH)))))))))))))) :: (((Zpos (XO (XO (XI (XO (XO (XO (XI (XI (XO (XI (XO
    XH)))))))))))), (Npos (XO (XO (XI (XO (XO (XI (XO (XI (XI (XI (XO (XI
    XH)))))))))))))) :: (((Zpos (XI (XO (XI (XO (XO (XO (XI (XI (XO (XI (XO
    XH)))))))))))), (Npos (XI (XO (XO (XO (XI (XI (XO (XI (XI (XI (XO (XI
    XH)))))))))))))) :: (((Zpos (XO (XI (XI (XO (XO (XO (XI (XI (XO (XI (XO
    XH)))))))))))), (Npos (XI (XO (XI (XI (XI (XI (XO (XI (XI (XI (XO (XI
    XH)))))))))))))) :: (((Zpos (XI (XO (XO (XI (XO (XO (XI (XI (XO (XI (XO
    XH)))))))))))), (Npos (XO (XI (XO (XI (XO (XO (XI (XI (XI (XI (XO (XI
    XH)))))))))))))) :: (((Zpos (XO (XI (XO (XI (XO (XO (XI (XI (XO (XI (XO
    XH)))))))))))), (Npos (XO (XO (XI (XO (XI (XO (XI (XI (XI (XI (XO (XI
    XH)))))))))))))) :: (((Zpos (XI (XI (XO (XI (XO (XO (XI (XI (XO (XI (XO
    XH)))))))))))), (Npos (XO (XI (XO (XO (XO (XI (XI (XI (XI (XI (XO (XI
    XH)))))))))))))) :: (((Zpos (XO (XO (XI (XI (XO (XO (XI (XI (XO (XI (XO
    XH)))))))))))), (Npos (XO (XO (XI (XO (XI (XI (XI (XI (XI (XI (XO (XI
    XH)))))))))))))) :: (((Zpos (XI (XO (XI (XI (XO (XO (XI (XI (XO (XI (XO
    XH)))))))))))), (Npos (XI (XO (XI (XO (XO (XO (XO (XO (XO (XO (XI (XI
    XH)))))))))))))) :: (((Zpos (XO (XI (XI (XI (XO (XO (XI (XI (XO (XI (XO
    XH)))))))))))), (Npos (XI (XI (XI (XO (XI (XO (XO (XO (XO (XO (XI (XI
    XH)))))))))))))) :: (((Zpos (XI (XI (XI (XI (XO (XO (XI (XI (XO (XI (XO
    XH)))))))))))), (Npos (XO (XO (XI (XO (XO (XI (XO (XO (XO (XO (XI (XI
    XH)))))))))))))) :: (((Zpos (XO (XO (XO (XO (XI (XO (XI (XI (XO (XI (XO
    XH)))))))))))), (Npos (XO (XO (XI (XO (XI (XI (XO (XO (XO (XO (XI (XI
    XH)))))))))))))) :: (((Zpos (XI (XO (XO (XO (XI (XO (XI (XI (XO (XI (XO
    XH)))))))))))), (Npos (XO (XO (XO (XI (XO (XO (XI (XO (XO (XO (XI (XI
    XH)))))))))))))) :: (((Zpos (XO (XI (XO (XO (XI (XO (XI (XI (XO (XI (XO
    XH)))))))))))), (Npos (XI (XO (XI (XI (XI (XO (XI (XO (XO (XO (XI (XI
    XH)))))))))))))) :: (((Zpos (XI (XI (XO (XO (XI (XO (XI (XI (XO (XI (XO
    XH)))))))))))), (Npos (XI (XO (XO (XO (XI (XI (XI (XO (XO (XO (XI (XI
    XH)))))))))))))) :: (((Zpos (XO (XO (XI (XO (XI (XO (XI (XI (XO (XI (XO
    XH)))))))))))), (Npos (XO (XI (XI (XO (XO (XO (XO (XI (XO (XO (XI (XI
    XH)))))))))))))) :: (((Zpos (XO (XI (XI (XO (XI (XO (XI (XI (XO (XI (XO
    XH)))))))))))), (Npos (XI (XI (XO (XO (XI (XO (XO (XI (XO (XO (XI (XI
    XH)))))))))))))) :: (((Zpos (XI (XI (XI (XO (XI (XO (XI (XI (XO (XI (XO
    XH)))))))))))), (Npos (XI (XI (XO (XI (XI (XO (XO (XI (XO (XO (XI (XI
    XH)))))))))))))) :: (((Zpos (XI (XO (XO (XI (XI (XO (XI (XI (XO (XI (XO
    XH)))))))))))), (Npos (XI (XI (XO (XO (XO (XI (XO (XI (XO (XO (XI (XI
    XH)))))))))))))) :: (((Zpos (XO (XI (XO (XI (XI (XO (XI (XI (XO (XI (XO
    XH)))))))))))), (Npos (XO (XI (XI (XI (XO (XI (XO (XI (XO (XO (XI (XI
    XH)))))))))))))) :: (((Zpos (XI (XI (XO (XI (XI (XO (XI (XI (XO (XI (XO
    XH)))))))))))), (Npos (XI (XI (XI (XO (XI (XI (XO (XI (XO (XO (XI (XI
    XH)))))))))))))) :: (((Zpos (XO (XO (XI (XI (XI (XO (XI (XI (XO (XI (XO
    XH)))))))))))), (Npos (XO (XO (XO (XI (XO (XO (XI (XI (XO (XO (XI (XI
    XH)))))))))))))) :: (((Zpos (XI (XO (XI (XI (XI (XO (XI (XI (XO (XI (XO
    XH)))))))))))), (Npos (XO (XO (XI (XI (XI (XO (XI (XI (XO (XO (XI (XI
    XH)))))))))))))) :: (((Zpos (XO (XI (XI (XI (XI (XO (XI (XI (XO (XI (XO
    XH)))))))))))), (Npos (XI (XO (XO (XO (XI (XI (XI (XI (XO (XO (XI (XI
    XH)))))))))))))) :: (((Zpos (XI (XI (XI (XI (XI (XO (XI (XI (XO (XI (XO
    XH)))))))))))), (Npos (XO (XO (XO (XO (XO (XO (XO (XO (XI (XO (XI (XI
    XH)))))))))))))) :: (((Zpos (XO (XO (XO (XO (XO (XI (XI (XI (XO (XI (XO
    XH)))))))))))), (Npos (XI (XO (XI (XI (XO (XO (XO (XO (XI (XO (XI (XI
    XH)))))))))))))) :: (((Zpos (XI (XO (XO (XO (XO (XI (XI (XI (XO (XI (XO
    XH)))))))))))), (Npos (XO (XI (XI (XI (XI (XO (XO (XO (XI (XO (XI (XI
    XH)))))))))))))) :: (((Zpos (XO (XI (XO (XO (XO (XI (XI (XI (XO (XI (XO
    XH)))))))))))), (Npos (XI (XO (XO (XO (XI (XI (XO (XO (XI (XO (XI (XI
    XH)))))))))))))) :: (((Zpos (XI (XI (XO (XO (XO (XI (XI (XI (XO (XI (XO
    XH)))))))))))), (Npos (XO (XO (XO (XO (XO (XO (XI (XO (XI (XO (XI (XI
    XH)))))))))))))) :: (((Zpos (XO (XO (XI (XO (XO (XI (XI (XI (XO (XI (XO
    XH)))))))))))), (Npos (XO (XO (XO (XO (XI (XO (XI (XO (XI (XO (XI (XI
    XH)))))))))))))) :: (((Zpos (XI (XO (XI (XO (XO (XI (XI (XI (XO (XI (XO
    XH)))))))))))), (Npos (XO (XI (XO (XO (XO (XI (XI (XO (XI (XO (XI (XI
    XH)))))))))))))) :: (((Zpos (XO (XI (XI (XO (XO (XI (XI (XI (XO (XI (XO
    XH)))))))))))), (Npos (XI (XI (XO (XI (XO (XI (XI (XO (XI (XO (XI (XI
    XH)))))))))))))) :: (((Zpos (XI (XI (XI (XO (XO (XI (XI (XI (XO (XI (XO
    XH)))))))))))), (Npos (XO (XI (XI (XI (XI (XI (XI (XO (XI (XO (XI (XI
    XH)))))))))))))) :: (((Zpos (XO (XO (XO (XI (XO (XI (XI (XI (XO (XI (XO
    XH)))))))))))), (Npos (XI (XI (XI (XI (XO (XO (XO (XI (XI (XO (XI (XI
    XH)))))))))))))) :: (((Zpos (XI (XO (XO (XI (XO (XI (XI (XI (XO (XI (XO
    XH)))))))))))), (Npos (XI (XO (XO (XO (XO (XI (XO (XI (XI (XO (XI (XI
    XH)))))))))))))) :: (((Zpos (XO (XI (XO (XI (XO (XI (XI (XI (XO (XI (XO
    XH)))))))))))), (Npos (XI (XO (XI (XO (XI (XI (XO (XI (XI (XO (XI (XI
    XH)))))))))))))) :: (((Zpos (XI (XI (XO (XI (XO (XI (XI (XI (XO (XI (XO
    XH)))))))))))), (Npos (XI (XO (XO (XO (XO (XO (XI (XI (XI (XO (XI (XI
    XH)))))))))))))) :: (((Zpos (XO (XO (XI (XI (XO (XI (XI (XI (XO (XI (XO
    XH)))))))))))), (Npos (XO (XI (XI (XI (XO (XO (XI (XI (XI (XO (XI (XI
    XH)))))))))))))) :: (((Zpos (XI (XO (XI (XI (XO (XI (XI (XI (XO (XI (XO
    XH)))))))))))), (Npos (XI (XI (XO (XO (XI (XO (XI (XI (XI (XO (XI (XI
    XH)))))))))))))) :: (((Zpos (XO (XI (XI (XI (XO (XI (XI (XI (XO (XI (XO
    XH)))))))))))), (Npos (XI (XI (XO (XI (XI (XO (XI (XI (XI (XO (XI (XI
    XH)))))))))))))) :: (((Zpos (XO (XO (XO (XO (XI (XI (XI (XI (XO (XI (XO
    XH)))))))))))), (Npos (XI (XO (XO (XO (XO (XI (XI (XI (XI (XO (XI (XI
    XH)))))))))))))) :: (((Zpos (XI (XO (XO (XO (XI (XI (XI (XI (XO (XI (XO
    XH)))))))))))), (Npos (XO (XI (XI (XI (XO (XI (XI (XI (XI (XO (XI (XI
    XH)))))))))))))) :: (((Zpos (XO (XI (XO (XO (XI (XI (XI (XI (XO (XI (XO
    XH)))))))))))), (Npos (XI (XO (XI (XO (XI (XI (XI (XI (XI (XO (XI (XI
    XH)))))))))))))) :: (((Zpos (XI (XI (XO (XO (XI (XI (XI (XI (XO (XI (XO
    XH)))))))))))), (Npos (XO (XI (XO (XO (XO (XO (XO (XO (XO (XI (XI (XI
    XH)))))))))))))) :: (((Zpos (XO (XO (XI (XO (XI (XI (XI (XI (XO (XI (XO
    XH)))))))))))), (Npos (XO (XO (XI (XI (XO (XO (XO (XO (XO (XI (XI (XI
    XH)))))))))))))) :: (((Zpos (XI (XO (XI (XO (XI (XI (XI (XI (XO (XI (XO
    XH)))))))))))), (Npos (XO (XO (XO (XI (XI (XO (XO (XO (XO (XI (XI (XI
    XH)))))))))))))) :: (((Zpos (XO (XI (XI (XO (XI (XI (XI (XI (XO (XI (XO
    XH)))))))))))), (Npos (XI (XO (XI (XO (XO (XI (XO (XO (XO (XI (XI (XI
    XH)))))))))))))) :: (((Zpos (XI (XI (XI (XO (XI (XI (XI (XI (XO (XI (XO
    XH)))))))))))), (Npos (XI (XO (XO (XO (XI (XI (XO (XO (XO (XI (XI (XI
    XH)))))))))))))) :: (((Zpos (XO (XO (XO (XI (XI (XI (XI (XI (XO (XI (XO
    XH)))))))))))), (Npos (XO (XO (XI (XI (XI (XI (XO (XO (XO (XI (XI (XI
    XH)))))))))))))) :: (((Zpos (XI (XO (XO (XI (XI (XI (XI (XI (XO (XI (XO
    XH)))))))))))), (Npos (XI (XO (XO (XI (XO (XO (XI (XO (XO (XI (XI (XI
    XH)))))))))))))) :: (((Zpos (XO (XI (XO (XI (XI (XI (XI (XI (XO (XI (XO
    XH)))))))))))), (Npos (XI (XI (XO (XO (XI (XO (XI (XO (XO (XI (XI (XI
    XH)))))))))))))) :: (((Zpos (XI (XI (XO (XI (XI (XI (XI (XI (XO (XI (XO
    XH)))))))))))), (Npos (XI (XO (XI (XO (XO (XI (XI (XO (XO (XI (XI (XI
    XH)))))))))))))) :: (((Zpos (XO (XO (XI (XI (XI (XI (XI (XI (XO (XI (XO
    XH)))))))))))), (Npos (XI (XO (XO (XI (XI (XI (XI (XO (XO (XI (XI (XI
    XH)))))))))))))) :: (((Zpos (XI (XO (XI (XI (XI (XI (XI (XI (XO (XI (XO
    XH)))))))))))), (Npos (XI (XI (XI (XI (XI (XI (XI (XO (XO (XI (XI (XI
    XH)))))))))))))) :: (((Zpos (XO (XI (XI (XI (XI (XI (XI (XI (XO (XI (XO
    XH)))))))))))), (Npos (XO (XI (XO (XO (XI (XO (XO (XI (XO (XI (XI (XI
    XH)))))))))))))) :: (((Zpos (XI (XI (XI (XI (XI (XI (XI (XI (XO (XI (XO
    XH)))))))))))), (Npos (XI (XO (XI (XO (XO (XI (XO (XI (XO (XI (XI (XI
    XH)))))))))))))) :: (((Zpos (XI (XI (XO (XO (XO (XI (XO (XI (XI (XI (XO
    XH)))))))))))), (Npos (XO (XO (XI (XI (XO (XI (XO (XI (XO (XI (XI (XI
    XH)))))))))))))) :: (((Zpos (XO (XI (XI (XO (XO (XI (XO (XI (XI (XI (XO
    XH)))))))))))), (Npos (XO (XI (XI (XO (XI (XI (XO (XI (XO (XI (XI (XI
    XH)))))))))))))) :: (((Zpos (XO (XO (XO (XI (XO (XI (XO (XI (XI (XI (XO
    XH)))))))))))), (Npos (XI (XO (XO (XO (XO (XO (XI (XI (XO (XI (XI (XI
    XH)))))))))))))) :: (((Zpos (XI (XO (XO (XI (XO (XI (XO (XI (XI (XI (XO
    XH)))))))))))), (Npos (XI (XI (XO (XI (XO (XO (XI (XI (XO (XI (XI (XI
    XH)))))))))))))) :: (((Zpos (XO (XO (XO (XO (XO (XO (XI (XI (XI (XI (XO
    XH)))))))))))), (Npos (XI (XI (XO (XO (XI (XO (XI (XI (XO (XI (XI (XI
    XH)))))))))))))) :: (((Zpos (XO (XI (XO (XO (XO (XO (XI (XI (XI (XI (XO
    XH)))))))))))), (Npos (XI (XI (XO (XI (XI (XO (XI (XI (XO (XI (XI (XI
    XH)))))))))))))) :: (((Zpos (XI (XI (XO (XO (XO (XO (XI (XI (XI (XI (XO
    XH)))))))))))), (Npos (XO (XO (XI (XO (XO (XI (XI (XI (XO (XI (XI (XI
    XH)))))))))))))) :: (((Zpos (XO (XO (XI (XO (XO (XO (XI (XI (XI (XI (XO
    XH)))))))))))), (Npos (XI (XI (XO (XI (XO (XI (XI (XI (XO (XI (XI (XI
    XH)))))))))))))) :: (((Zpos (XO (XI (XI (XO (XO (XO (XI (XI (XI (XI (XO
    XH)))))))))))), (Npos (XI (XO (XI (XO (XI (XI (XI (XI (XO (XI (XI (XI
    XH)))))))))))))) :: (((Zpos (XO (XI (XO (XI (XO (XO (XI (XI (XI (XI (XO
    XH)))))))))))), (Npos (XO (XI (XI (XI (XI (XI (XI (XI (XO (XI (XI (XI
    XH)))))))))))))) :: (((Zpos (XO (XO (XI (XI (XO (XO (XI (XI (XI (XI (XO
    XH)))))))))))), (Npos (XO (XI (XO (XO (XO (XO (XO (XO (XI (XI (XI (XI
    XH)))))))))))))) :: (((Zpos (XO (XI (XI (XI (XO (XO (XI (XI (XI (XI (XO
    XH)))))))))))), (Npos (XI (XI (XI (XO (XO (XO (XO (XO (XI (XI (XI (XI
    XH)))))))))))))) :: (((Zpos (XI (XI (XI (XI (XO (XO (XI (XI (XI (XI (XO
    XH)))))))))))), (Npos (XO (XI (XI (XI (XO (XO (XO (XO (XI (XI (XI (XI
    XH)))))))))))))) :: (((Zpos (XI (XI (XO (XO (XI (XO (XI (XI (XI (XI (XO
    XH)))))))))))), (Npos (XI (XO (XI (XO (XI (XO (XO (XO (XI (XI (XI (XI
    XH)))))))))))))) :: (((Zpos (XO (XI (XI (XO (XI (XO (XI (XI (XI (XI (XO
    XH)))))))))))), (Npos (XI (XO (XI (XI (XI (XO (XO (XO (XI (XI (XI (XI
    XH)))))))))))))) :: (((Zpos (XO (XO (XO (XI (XI (XO (XI (XI (XI (XI (XO
    XH)))))))))))), (Npos (XO (XI (XI (XO (XO (XI (XO (XO (XI (XI (XI (XI
    XH)))))))))))))) :: (((Zpos (XO (XI (XO (XI (XI (XO (XI (XI (XI (XI (XO
    XH)))))))))))), (Npos (XO (XO (XO (XO (XI (XI (XO (XO (XI (XI (XI (XI
    XH)))))))))))))) :: (((Zpos (XO (XO (XI (XI (XI (XO (XI (XI (XI (XI (XO
    XH)))))))))))), (Npos (XI (XO (XO (XI (XI (XI (XO (XO (XI (XI (XI (XI
    XH)))))))))))))) :: (((Zpos (XO (XO (XI (XI (XI (XI (XI (XI (XI (XI (XO
    XH)))))))))))), (Npos (XO (XI (XO (XO (XO (XO (XI (XO (XI (XI (XI (XI
    XH)))))))))))))) :: (((Zpos (XI (XI (XI (XI (XI (XO (XI (XI (XO (XO (XI
    XH)))))))))))), (Npos (XO (XO (XI (XI (XO (XO (XI (XO (XI (XI (XI (XI
    XH)))))))))))))) :: (((Zpos (XO (XO (XO (XO (XO (XI (XI (XI (XO (XO (XI
    XH)))))))))))), (Npos (XI (XO (XO (XO (XO (XI (XI (XO (XI (XI (XI (XI
    XH)))))))))))))) :: (((Zpos (XI (XO (XO (XO (XO (XI (XI (XI (XO (XO (XI
    XH)))))))))))), (Npos (XO (XI (XI (XI (XO (XI (XI (XO (XI (XI (XI (XI
    XH)))))))))))))) :: (((Zpos (XI (XO (XO (XO (XO (XI (XI (XI (XO (XO (XI
    XH)))))))))))), (Npos (XI (XO (XO (XI (XI (XI (XI (XO (XI (XI (XI (XI
    XH)))))))))))))) :: (((Zpos (XO (XI (XO (XO (XO (XI (XI (XI (XO (XO (XI
    XH)))))))))))), (Npos (XI (XO (XI (XO (XO (XO (XO (XI (XI (XI (XI (XI
    XH)))))))))))))) :: (((Zpos (XO (XI (XO (XO (XO (XI (XI (XI (XO (XO (XI
    XH)))))))))))), (Npos (XO (XI (XO (XO (XI (XO (XO (XI (XI (XI (XI (XI
    XH)))))))))))))) :: (((Zpos (XI (XI (XO (XO (XO (XI (XI (XI (XO (XO (XI
    XH)))))))))))), (Npos (XO (XO (XO (XO (XO (XI (XO (XI (XI (XI (XI (XI
    XH)))))))))))))) :: (((Zpos (XI (XI (XO (XO (XO (XI (XI (XI (XO (XO (XI
    XH)))))))))))), (Npos (XI (XO (XI (XI (XO (XI (XO (XI (XI (XI (XI (XI
    XH)))))))))))))) :: (((Zpos (XO (XO (XI (XO (XO (XI (XI (XI (XO (XO (XI
    XH)))))))))))), (Npos (XI (XI (XO (XI (XI (XI (XO (XI (XI (XI (XI (XI
    XH)))))))))))))) :: (((Zpos (XI (XO (XI (XO (XO (XI (XI (XI (XO (XO (XI
    XH)))))))))))), (Npos (XI (XO (XI (XO (XO (XO (XI (XI (XI (XI (XI (XI
    XH)))))))))))))) :: (((Zpos (XO (XI (XI (XO (XO (XI (XI (XI (XO (XO (XI
    XH)))))))))))), (Npos (XO (XO (XO (XO (XI (XO (XI (XI (XI (XI (XI (XI
    XH)))))))))))))) :: (((Zpos (XO (XI (XI (XO (XO (XI (XI (XI (XO (XO (XI
    XH)))))))))))), (Npos (XO (XO (XI (XI (XI (XO (XI (XI (XI (XI (XI (XI
    XH)))))))))))))) :: (((Zpos (XI (XI (XI (XO (XO (XI (XI (XI (XO (XO (XI
    XH)))))))))))), (Npos (XI (XO (XO (XI (XO (XI (XI (XI (XI (XI (XI (XI
    XH)))))))))))))) :: (((Zpos (XI (XI (XI (XO (XO (XI (XI (XI (XO (XO (XI
    XH)))))))))))), (Npos (XI (XO (XI (XO (XI (XI (XI (XI (XI (XI (XI (XI
    XH)))))))))))))) :: (((Zpos (XO (XO (XO (XI (XO (XI (XI (XI (XO (XO (XI
    XH)))))))))))), (Npos (XO (XO (XO (XO (XO (XO (XO (XO (XO (XO (XO (XO (XO
    XH))))))))))))))) :: (((Zpos (XO (XO (XO (XI (XO (XI (XI (XI (XO (XO (XI
    XH)))))))))))), (Npos (XI (XI (XO (XI (XO (XO (XO (XO (XO (XO (XO (XO (XO
    XH))))))))))))))) :: (((Zpos (XI (XO (XO (XI (XO (XI (XI (XI (XO (XO (XI
    XH)))))))))))), (Npos (XI (XI (XI (XO (XI (XO (XO (XO (XO (XO (XO (XO (XO
    XH))))))))))))))) :: (((Zpos (XO (XI (XO (XI (XO (XI (XI (XI (XO (XO (XI
    XH)))))))))))), (Npos (XO (XI (XO (XO (XO (XI (XO (XO (XO (XO (XO (XO (XO
    XH))))))))))))))) :: (((Zpos (XI (XI (XO (XI (XO (XI (XI (XI (XO (XO (XI
    XH)))))))))))), (Npos (XI (XI (XO (XO (XI (XI (XO (XO (XO (XO (XO (XO (XO
    XH))))))))))))))) :: (((Zpos (XO (XO (XI (XI (XO (XI (XI (XI (XO (XO (XI
    XH)))))))))))), (Npos (XI (XI (XI (XI (XI (XI (XO (XO (XO (XO (XO (XO (XO
    XH))))))))))))))) :: (((Zpos (XI (XO (XI (XI (XO (XI (XI (XI (XO (XO (XI
    XH)))))))))))), (Npos (XO (XO (XI (XI (XO (XO (XI (XO (XO (XO (XO (XO (XO
    XH))))))))))))))) :: (((Zpos (XO (XI (XI (XI (XO (XI (XI (XI (XO (XO (XI
    XH)))))))))))), (Npos (XO (XO (XI (XI (XI (XO (XI (XO (XO (XO (XO (XO (XO
    XH))))))))))))))) :: (((Zpos (XI (XI (XI (XI (XO (XI (XI (XI (XO (XO (XI
    XH)))))))))))), (Npos (XI (XI (XI (XO (XO (XI (XI (XO (XO (XO (XO (XO (XO
    XH))))))))))))))) :: (((Zpos (XO (XO (XO (XO (XI (XI (XI (XI (XO (XO (XI
    XH)))))))))))), (Npos (XI (XI (XI (XO (XI (XI (XI (XO (XO (XO (XO (XO (XO
    XH))))))))))))))) :: (((Zpos (XI (XO (XO (XO (XI (XI (XI (XI (XO (XO (XI
    XH)))))))))))), (Npos (XO (XI (XO (XO (XO (XO (XO (XI (XO (XO (XO (XO (XO
    XH))))))))))))))) :: (((Zpos (XI (XO (XO (XO (XI (XI (XI (XI (XO (XO (XI
    XH)))))))))))), (Npos (XO (XO (XO (XO (XI (XO (XO (XI (XO (XO (XO (XO (XO
    XH))))))))))))))) :: (((Zpos (XO (XI (XO (XO (XI (XI (XI (XI (XO (XO (XI
    XH)))))))))))), (Npos (XO (XI (XI (XI (XI (XO (XO (XI (XO (XO (XO (XO (XO
    XH))))))))))))))) :: (((Zpos (XI (XI (XO (XO (XI (XI (XI (XI (XO (XO (XI
    XH)))))))))))), (Npos (XO (XI (XO (XI (XO (XI (XO (XI (XO (XO (XO (XO (XO
    XH))))))))))))))) :: (((Zpos (XO (XO (XI (XO (XI (XI (XI (XI (XO (XO (XI
    XH)))))))))))), (Npos (XI (XO (XO (XI (XI (XI (XO (XI (XO (XO (XO (XO (XO
    XH))))))))))))))) :: (((Zpos (XI (XO (XI (XO (XI (XI (XI (XI (XO (XO (XI
    XH)))))))))))), (Npos (XI (XI (XO (XO (XO (XO (XI (XI (XO (XO (XO (XO (XO
    XH))))))))))))))) :: (((Zpos (XI (XO (XI (XO (XI (XI (XI (XI (XO (XO (XI
    XH)))))))))))), (Npos (XO (XO (XI (XO (XI (XO (XI (XI (XO (XO (XO (XO (XO
    XH))))))))))))))) :: (((Zpos (XO (XI (XI (XO (XI (XI (XI (XI (XO (XO (XI
    XH)))))))))))), (Npos (XI (XO (XI (XO (XO (XI (XI (XI (XO (XO (XO (XO (XO
    XH))))))))))))))) :: (((Zpos (XO (XI (XI (XO (XI (XI (XI (XI (XO (XO (XI
    XH)))))))))))), (Npos (XI (XO (XO (XO (XI (XI (XI (XI (XO (XO (XO (XO (XO
    XH))))))))))))))) :: (((Zpos (XI (XI (XI (XO (XI (XI (XI (XI (XO (XO (XI
    XH)))))))))))), (Npos (XI (XO (XI (XI (XI (XI (XI (XI (XO (XO (XO (XO (XO
    XH))))))))))))))) :: (((Zpos (XI (XI (XI (XO (XI (XI (XI (XI (XO (XO (XI
    XH)))))))))))), (Npos (XO (XO (XO (XI (XO (XO (XO (XO (XI (XO (XO (XO (XO
    XH))))))))))))))) :: (((Zpos (XO (XO (XO (XI (XI (XI (XI (XI (XO (XO (XI
    XH)))))))))))), (Npos (XO (XO (XI (XO (XI (XO (XO (XO (XI (XO (XO (XO (XO
    XH))))))))))))))) :: (((Zpos (XI (XO (XO (XI (XI (XI (XI (XI (XO (XO (XI
    XH)))))))))))), (Npos (XO (XO (XO (XO (XO (XI (XO (XO (XI (XO (XO (XO (XO
    XH))))))))))))))) :: (((Zpos (XO (XI (XO (XI (XI (XI (XI (XI (XO (XO (XI
    XH)))))))))))), (Npos (XO (XO (XI (XI (XO (XI (XO (XO (XI (XO (XO (XO (XO
    XH))))))))))))))) :: (((Zpos (XO (XI (XO (XI (XI (XI (XI (XI (XO (XO (XI
    XH)))))))))))), (Npos (XI (XI (XI (XO (XI (XI (XO (XO (XI (XO (XO (XO (XO
    XH))))))))))))))) :: (((Zpos (XI (XO (XO (XO (XO (XI (XO (XI (XI (XO (XI
    XH)))))))))))), (Npos (XO (XI (XO (XO (XO (XO (XI (XO (XI (XO (XO (XO (XO
    XH))))))))))))))) :: (((Zpos (XO (XI (XO (XO (XO (XI (XO (XI (XI (XO (XI
    XH)))))))))))), (Npos (XI (XO (XI (XI (XO (XO (XI (XO (XI (XO (XO (XO (XO
    XH))))))))))))))) :: (((Zpos (XI (XI (XO (XO (XO (XI (XO (XI (XI (XO (XI
    XH)))))))))))), (Npos (XO (XI (XO (XI (XI (XO (XI (XO (XI (XO (XO (XO (XO
    XH))))))))))))))) :: (((Zpos (XO (XO (XI (XO (XO (XI (XO (XI (XI (XO (XI
    XH)))))))))))), (Npos (XO (XO (XO (XI (XO (XI (XI (XO (XI (XO (XO (XO (XO
    XH))))))))))))))) :: (((Zpos (XI (XO (XI (XO (XO (XI (XO (XI (XI (XO (XI
    XH)))))))))))), (Npos (XO (XI (XI (XO (XI (XI (XI (XO (XI (XO (XO (XO (XO
    XH))))))))))))))) :: (((Zpos (XO (XI (XI (XO (XO (XI (XO (XI (XI (XO (XI
    XH)))))))))))), (Npos (XI (XI (XO (XO (XO (XO (XO (XI (XI (XO (XO (XO (XO
    XH))))))))))))))) :: (((Zpos (XI (XI (XI (XO (XO (XI (XO (XI (XI (XO (XI
    XH)))))))))))), (Npos (XI (XI (XO (XO (XI (XO (XO (XI (XI (XO (XO (XO (XO
    XH))))))))))))))) :: (((Zpos (XO (XO (XO (XI (XO (XI (XO (XI (XI (XO (XI
    XH)))))))))))), (Npos (XI (XI (XI (XI (XI (XO (XO (XI (XI (XO (XO (XO (XO
    XH))))))))))))))) :: (((Zpos (XI (XO (XO (XI (XO (XI (XO (XI (XI (XO (XI
    XH)))))))))))), (Npos (XO (XO (XI (XI (XO (XI (XO (XI (XI (XO (XO (XO (XO
    XH))))))))))))))) :: (((Zpos (XO (XI (XO (XI (XO (XI (XO (XI (XI (XO (XI
    XH)))))))))))), (Npos (XO (XI (XO (XI (XI (XI (XO (XI (XI (XO (XO (XO (XO
    XH))))))))))))))) :: (((Zpos (XI (XI (XO (XI (XO (XI (XO (XI (XI (XO (XI
    XH)))))))))))), (Npos (XO (XO (XO (XI (XO (XO (XI (XI (XI (XO (XO (XO (XO
    XH))))))))))))))) :: (((Zpos (XO (XO (XI (XI (XO (XI (XO (XI (XI (XO (XI
    XH)))))))))))), (Npos (XO (XI (XO (XO (XI (XO (XI (XI (XI (XO (XO (XO (XO
    XH))))))))))))))) :: (((Zpos (XI (XO (XI (XI (XO (XI (XO (XI (XI (XO (XI
    XH)))))))))))), (Npos (XI (XI (XI (XI (XI (XO (XI (XI (XI (XO (XO (XO (XO
    XH))))))))))))))) :: (((Zpos (XO (XI (XI (XI (XO (XI (XO (XI (XI (XO (XI
    XH)))))))))))), (Npos (XI (XI (XO (XI (XO (XI (XI (XI (XI (XO (XO (XO (XO
    XH))))))))))))))) :: (((Zpos (XI (XI (XI (XI (XO (XI (XO (XI (XI (XO (XI
    XH)))))))))))), (Npos (XO (XO (XO (XI (XI (XI (XI (XI (XI (XO (XO (XO (XO
    XH))))))))))))))) :: (((Zpos (XO (XO (XO (XO (XI (XI (XO (XI (XI (XO (XI
    XH)))))))))))), (Npos (XI (XO (XI (XO (XO (XO (XO (XO (XO (XI (XO (XO (XO
    XH))))))))))))))) :: (((Zpos (XI (XO (XO (XO (XI (XI (XO (XI (XI (XO (XI
    XH)))))))))))), (Npos (XO (XI (XO (XO (XI (XO (XO (XO (XO (XI (XO (XO (XO
    XH))))))))))))))) :: (((Zpos (XO (XI (XO (XO (XI (XI (XO (XI (XI (XO (XI
    XH)))))))))))), (Npos (XI (XO (XI (XO (XO (XI (XO (XO (XO (XI (XO (XO (XO
    XH))))))))))))))) :: (((Zpos (XI (XI (XO (XO (XI (XI (XO (XI (XI (XO (XI
    XH)))))))))))), (Npos (XI (XO (XI (XO (XI (XI (XO (XO (XO (XI (XO (XO (XO
    XH))))))))))))))) :: (((Zpos (XO (XO (XI (XO (XI (XI (XO (XI (XI (XO (XI
    XH)))))))))))), (Npos (XO (XO (XO (XO (XO (XO (XI (XO (XO (XI (XO (XO (XO
    XH))))))))))))))) :: (((Zpos (XI (XO (XI (XO (XI (XI (XO (XI (XI (XO (XI
    XH)))))))))))), (Npos (XI (XI (XO (XI (XO (XO (XI (XO (XO (XI (XO (XO (XO
    XH))))))))))))))) :: (((Zpos (XO (XI (XI (XO (XI (XI (XO (XI (XI (XO (XI
    XH)))))))))))), (Npos (XO (XI (XI (XO (XI (XO (XI (XO (XO (XI (XO (XO (XO
    XH))))))))))))))) :: (((Zpos (XI (XI (XI (XO (XI (XI (XO (XI (XI (XO (XI
    XH)))))))))))), (Npos (XO (XO (XI (XO (XO (XI (XI (XO (XO (XI (XO (XO (XO
    XH))))))))))))))) :: (((Zpos (XO (XO (XO (XI (XI (XI (XO (XI (XI (XO (XI
    XH)))))))))))), (Npos (XI (XI (XO (XO (XI (XI (XI (XO (XO (XI (XO (XO (XO
    XH))))))))))))))) :: (((Zpos (XI (XO (XO (XI (XI (XI (XO (XI (XI (XO (XI
    XH)))))))))))), (Npos (XI (XO (XO (XO (XO (XO (XO (XI (XO (XI (XO (XO (XO
    XH))))))))))))))) :: (((Zpos (XO (XI (XO (XI (XI (XI (XO (XI (XI (XO (XI
    XH)))))))))))), (Npos (XI (XI (XO (XI (XO (XO (XO (XI (XO (XI (XO (XO (XO
    XH))))))))))))))) :: (((Zpos (XI (XI (XO (XI (XI (XI (XO (XI (XI (XO (XI
    XH)))))))))))), (Npos (XI (XO (XO (XI (XI (XO (XO (XI (XO (XI (XO (XO (XO
    XH))))))))))))))) :: (((Zpos (XO (XO (XI (XI (XI (XI (XO (XI (XI (XO (XI
    XH)))))))))))), (Npos (XO (XO (XI (XO (XO (XI (XO (XI (XO (XI (XO (XO (XO
    XH))))))))))))))) :: (((Zpos (XI (XO (XI (XI (XI (XI (XO (XI (XI (XO (XI
    XH)))))))))))), (Npos (XO (XI (XO (XO (XI (XI (XO (XI (XO (XI (XO (XO (XO
    XH))))))))))))))) :: (((Zpos (XO (XI (XI (XI (XI (XI (XO (XI (XI (XO (XI
    XH)))))))))))), (Npos (XO (XO (XI (XI (XI (XI (XO (XI (XO (XI (XO (XO (XO
    XH))))))))))))))) :: (((Zpos (XI (XI (XI (XI (XI (XI (XO (XI (XI (XO (XI
    XH)))))))))))), (Npos (XI (XO (XO (XI (XO (XO (XI (XI (XO (XI (XO (XO (XO
    XH))))))))))))))) :: (((Zpos (XO (XO (XO (XO (XO (XO (XI (XI (XI (XO (XI
    XH)))))))))))), (Npos (XO (XO (XI (XO (XI (XO (XI (XI (XO (XI (XO (XO (XO
    XH))))))))))))))) :: (((Zpos (XI (XO (XO (XO (XO (XO (XI (XI (XI (XO (XI
    XH)))))))))))), (Npos (XO (XO (XI (XO (XO (XI (XI (XI (XO (XI (XO (XO (XO
    XH))))))))))))))) :: (((Zpos (XO (XI (XO (XO (XO (XO (XI (XI (XI (XO (XI
    XH)))))))))))), (Npos (XO (XI (XI (XI (XO (XI (XI (XI (XO (XI (XO (XO (XO
    XH))))))))))))))) :: (((Zpos (XI (XI (XO (XO (XO (XO (XI (XI (XI (XO (XI
    XH)))))))))))), (Npos (XI (XO (XO (XI (XI (XI (XI (XI (XO (XI (XO (XO (XO
    XH))))))))))))))) :: (((Zpos (XO (XO (XI (XO (XO (XO (XI (XI (XI (XO (XI
    XH)))))))))))), (Npos (XO (XO (XI (XO (XO (XO (XO (XO (XI (XI (XO (XO (XO
    XH))))))))))))))) :: (((Zpos (XI (XO (XI (XO (XO (XO (XI (XI (XI (XO (XI
    XH)))))))))))), (Npos (XO (XO (XI (XI (XO (XO (XO (XO (XI (XI (XO (XO (XO
    XH))))))))))))))) :: (((Zpos (XO (XI (XI (XO (XO (XO (XI (XI (XI (XO (XI
    XH)))))))))))), (Npos (XO (XO (XO (XI (XI (XO (XO (XO (XI (XI (XO (XO (XO
    XH))))))))))))))) :: (((Zpos (XI (XI (XI (XO (XO (XO (XI (XI (XI (XO (XI
    XH)))))))))))), (Npos (XO (XO (XO (XO (XO (XI (XO (XO (XI (XI (XO (XO (XO
    XH))))))))))))))) :: (((Zpos (XO (XO (XO (XI (XO (XO (XI (XI (XI (XO (XI
    XH)))))))))))), (Npos (XO (XO (XI (XI (XO (XI (XO (XO (XI (XI (XO (XO (XO
    XH))))))))))))))) :: (((Zpos (XI (XO (XO (XI (XO (XO (XI (XI (XI (XO (XI
    XH)))))))))))), (Npos (XO (XO (XO (XI (XI (XI (XO (XO (XI (XI (XO (XO (XO
    XH))))))))))))))) :: (((Zpos (XO (XI (XO (XI (XO (XO (XI (XI (XI (XO (XI
    XH)))))))))))), (Npos (XO (XO (XI (XO (XO (XO (XI (XO (XI (XI (XO (XO (XO
    XH))))))))))))))) :: (((Zpos (XI (XI (XO (XI (XO (XO (XI (XI (XI (XO (XI
    XH)))))))))))), (Npos (XI (XI (XI (XI (XO (XO (XI (XO (XI (XI (XO (XO (XO
    XH))))))))))))))) :: (((Zpos (XO (XO (XI (XI (XO (XO (XI (XI (XI (XO (XI
    XH)))))))))))), (Npos (XO (XI (XO (XI (XI (XO (XI (XO (XI (XI (XO (XO (XO
    XH))))))))))))))) :: (((Zpos (XI (XO (XI (XI (XO (XO (XI (XI (XI (XO (XI
    XH)))))))))))), (Npos (XI (XI (XI (XO (XO (XI (XI (XO (XI (XI (XO (XO (XO
    XH))))))))))))))) :: (((Zpos (XO (XI (XI (XI (XO (XO (XI (XI (XI (XO (XI
    XH)))))))))))), (Npos (XI (XO (XO (XO (XI (XI (XI (XO (XI (XI (XO (XO (XO
    XH))))))))))))))) :: (((Zpos (XI (XI (XI (XI (XO (XO (XI (XI (XI (XO (XI
    XH)))))))))))), (Npos (XI (XI (XI (XI (XI (XI (XI (XO (XI (XI (XO (XO (XO
    XH))))))))))))))) :: (((Zpos (XO (XO (XO (XO (XI (XO (XI (XI (XI (XO (XI
    XH)))))))))))), (Npos (XO (XI (XI (XI (XO (XO (XO (XI (XI (XI (XO (XO (XO
    XH))))))))))))))) :: (((Zpos (XI (XO (XO (XO (XI (XO (XI (XI (XI (XO (XI
    XH)))))))))))), (Npos (XI (XO (XO (XI (XI (XO (XO (XI (XI (XI (XO (XO (XO
    XH))))))))))))))) :: (((Zpos (XO (XI (XO (XO (XI (XO (XI (XI (XI (XO (XI
    XH)))))))))))), (Npos (XI (XO (XO (XI (XO (XI (XO (XI (XI (XI (XO (XO (XO
    XH))))))))))))))) :: (((Zpos (XI (XI (XO (XO (XI (XO (XI (XI (XI (XO (XI
    XH)))))))))))), (Npos (XI (XO (XI (XO (XI (XI (XO (XI (XI (XI (XO (XO (XO
    XH))))))))))))))) :: (((Zpos (XO (XO (XI (XO (XI (XO (XI (XI (XI (XO (XI
    XH)))))))))))), (Npos (XI (XO (XO (XO (XO (XO (XI (XI (XI (XI (XO (XO (XO
    XH))))))))))))))) :: (((Zpos (XI (XO (XI (XO (XI (XO (XI (XI (XI (XO (XI
    XH)))))))))))), (Npos (XO (XO (XI (XI (XO (XO (XI (XI (XI (XI (XO (XO (XO
    XH))))))))))))))) :: (((Zpos (XO (XI (XI (XO (XI (XO (XI (XI (XI (XO (XI
    XH)))))))))))), (Npos (XO (XO (XO (XI (XI (XO (XI (XI (XI (XI (XO (XO (XO
    XH))))))))))))))) :: (((Zpos (XI (XI (XI (XO (XI (XO (XI (XI (XI (XO (XI
    XH)))))))))))), (Npos (XO (XO (XI (XO (XO (XI (XI (XI (XI (XI (XO (XO (XO
    XH))))))))))))))) :: (((Zpos (XO (XO (XO (XI (XI (XO (XI (XI (XI (XO (XI
    XH)))))))))))), (Npos (XI (XO (XO (XO (XI (XI (XI (XI (XI (XI (XO (XO (XO
    XH))))))))))))))) :: (((Zpos (XI (XO (XO (XI (XI (XO (XI (XI (XI (XO (XI
    XH)))))))))))), (Npos (XO (XO (XI (XI (XI (XI (XI (XI (XI (XI (XO (XO (XO
    XH))))))))))))))) :: (((Zpos (XO (XI (XO (XI (XI (XO (XI (XI (XI (XO (XI
    XH)))))))))))), (Npos (XO (XO (XO (XI (XO (XO (XO (XO (XO (XO (XI (XO (XO
    XH))))))))))))))) :: (((Zpos (XO (XI (XI (XI (XI (XO (XI (XI (XI (XO (XI
    XH)))))))))))), (Npos (XI (XO (XI (XO (XI (XO (XO (XO (XO (XO (XI (XO (XO
    XH))))))))))))))) :: (((Zpos (XI (XI (XI (XI (XI (XO (XI (XI (XI (XO (XI
    XH)))))))))))), (Npos (XO (XO (XI (XI (XO (XI (XO (XO (XO (XO (XI (XO (XO
    XH))))))))))))))) :: (((Zpos (XO (XO (XO (XO (XO (XI (XI (XI (XI (XO (XI
    XH)))))))))))), (Npos (XO (XI (XI (XO (XI (XI (XO (XO (XO (XO (XI (XO (XO
    XH))))))))))))))) :: (((Zpos (XI (XO (XO (XO (XO (XI (XI (XI (XI (XO (XI
    XH)))))))))))), (Npos (XI (XO (XO (XO (XO (XO (XI (XO (XO (XO (XI (XO (XO
    XH))))))))))))))) :: (((Zpos (XO (XI (XO (XO (XO (XI (XI (XI (XI (XO (XI
    XH)))))))))))), (Npos (XI (XO (XI (XI (XO (XO (XI (XO (XO (XO (XI (XO (XO
    XH))))))))))))))) :: (((Zpos (XI (XI (XO (XO (XO (XI (XI (XI (XI (XO (XI
    XH)))))))))))), (Npos (XO (XO (XO (XI (XI (XO (XI (XO (XO (XO (XI (XO (XO
    XH))))))))))))))) :: (((Zpos (XO (XO (XI (XO (XO (XI (XI (XI (XI (XO (XI
    XH)))))))))))), (Npos (XI (XI (XO (XI (XO (XI (XI (XO (XO (XO (XI (XO (XO
    XH))))))))))))))) :: (((Zpos (XI (XO (XI (XO (XO (XI (XI (XI (XI (XO (XI
    XH)))))))))))), (Npos (XI (XI (XI (XI (XI (XI (XI (XO (XO (XO (XI (XO (XO
    XH))))))))))))))) :: (((Zpos (XO (XI (XI (XO (XO (XI (XI (XI (XI (XO (XI
    XH)))))))))))), (Npos (XO (XO (XO (XO (XI (XO (XO (XI (XO (XO (XI (XO (XO
    XH))))))))))))))) :: (((Zpos (XI (XI (XI (XO (XO (XI (XI (XI (XI (XO (XI
    XH)))))))))))), (Npos (XO (XI (XI (XI (XI (XO (XO (XI (XO (XO (XI (XO (XO
    XH))))))))))))))) :: (((Zpos (XO (XO (XO (XI (XO (XI (XI (XI (XI (XO (XI
    XH)))))))))))), (Npos (XI (XO (XI (XI (XO (XI (XO (XI (XO (XO (XI (XO (XO
    XH))))))))))))))) :: (((Zpos (XI (XO (XO (XI (XO (XI (XI (XI (XI (XO (XI
    XH)))))))))))), (Npos (XO (XO (XO (XI (XI (XI (XO (XI (XO (XO (XI (XO (XO
    XH))))))))))))))) :: (((Zpos (XO (XI (XO (XI (XO (XI (XI (XI (XI (XO (XI
    XH)))))))))))), (Npos (XO (XO (XI (XO (XO (XO (XI (XI (XO (XO (XI (XO (XO
    XH))))))))))))))) :: (((Zpos (XI (XI (XO (XI (XO (XI (XI (XI (XI (XO (XI
    XH)))))))))))), (Npos (XO (XO (XO (XO (XI (XO (XI (XI (XO (XO (XI (XO (XO
    XH))))))))))))))) :: (((Zpos (XO (XO (XI (XI (XO (XI (XI (XI (XI (XO (XI
    XH)))))))))))), (Npos (XI (XO (XO (XO (XO (XI (XI (XI (XO (XO (XI (XO (XO
    XH))))))))))))))) :: (((Zpos (XI (XO (XI (XI (XO (XI (XI (XI (XI (XO (XI
    XH)))))))))))), (Npos (XO (XI (XO (XO (XI (XI (XI (XI (XO (XO (XI (XO (XO
    XH))))))))))))))) :: (((Zpos (XO (XO (XO (XO (XI (XI (XI (XI (XI (XO (XI
    XH)))))))))))), (Npos (XO (XO (XO (XO (XO (XO (XO (XO (XI (XO (XI (XO (XO
    XH))))))))))))))) :: (((Zpos (XI (XO (XO (XO (XI (XI (XI (XI (XI (XO (XI
    XH)))))))))))), (Npos (XO (XO (XI (XI (XO (XO (XO (XO (XI (XO (XI (XO (XO
    XH))))))))))))))) :: (((Zpos (XO (XI (XO (XO (XI (XI (XI (XI (XI (XO (XI
    XH)))))))))))), (Npos (XI (XO (XO (XI (XI (XO (XO (XO (XI (XO (XI (XO (XO
    XH))))))))))))))) :: (((Zpos (XI (XI (XO (XO (XI (XI (XI (XI (XI (XO (XI
    XH)))))))))))), (Npos (XO (XI (XI (XO (XO (XI (XO (XO (XI (XO (XI (XO (XO
    XH))))))))))))))) :: (((Zpos (XO (XO (XI (XO (XI (XI (XI (XI (XI (XO (XI
    XH)))))))))))), (Npos (XO (XI (XO (XO (XI (XI (XO (XO (XI (XO (XI (XO (XO
    XH))))))))))))))) :: (((Zpos (XI (XO (XI (XO (XI (XI (XI (XI (XI (XO (XI
    XH)))))))))))), (Npos (XI (XO (XI (XI (XI (XI (XO (XO (XI (XO (XI (XO (XO
    XH))))))))))))))) :: (((Zpos (XO (XI (XI (XO (XI (XI (XI (XI (XI (XO (XI
    XH)))))))))))), (Npos (XO (XO (XO (XI (XO (XO (XI (XO (XI (XO (XI (XO (XO
    XH))))))))))))))) :: (((Zpos (XI (XI (XI (XO (XI (XI (XI (XI (XI (XO (XI
    XH)))))))))))), (Npos (XO (XO (XI (XO (XI (XO (XI (XO (XI (XO (XI (XO (XO
    XH))))))))))))))) :: (((Zpos (XO (XO (XO (XI (XI (XI (XI (XI (XI (XO (XI
    XH)))))))))))), (Npos (XI (XO (XO (XO (XO (XI (XI (XO (XI (XO (XI (XO (XO
    XH))))))))))))))) :: (((Zpos (XI (XO (XO (XI (XI (XI (XI (XI (XI (XO (XI
    XH)))))))))))), (Npos (XO (XI (XI (XI (XO (XI (XI (XO (XI (XO (XI (XO (XO
    XH))))))))))))))) :: (((Zpos (XI (XO (XO (XO (XO (XI (XO (XI (XO (XI (XI
    XH)))))))))))), (Npos (XO (XI (XO (XI (XI (XI (XI (XO (XI (XO (XI (XO (XO
    XH))))))))))))))) :: (((Zpos (XO (XI (XO (XO (XO (XI (XO (XI (XO (XI (XI
    XH)))))))))))), (Npos (XO (XO (XO (XI (XO (XO (XO (XI (XI (XO (XI (XO (XO
    XH))))))))))))))) :: (((Zpos (XI (XI (XO (XO (XO (XI (XO (XI (XO (XI (XI
    XH)))))))))))), (Npos (XI (XI (XO (XI (XI (XO (XO (XI (XI (XO (XI (XO (XO
    XH))))))))))))))) :: (((Zpos (XO (XO (XI (XO (XO (XI (XO (XI (XO (XI (XI
    XH)))))))))))), (Npos (XI (XO (XI (XI (XO (XI (XO (XI (XI (XO (XI (XO (XO
    XH))))))))))))))) :: (((Zpos (XI (XO (XI (XO (XO (XI (XO (XI (XO (XI (XI
    XH)))))))))))), (Npos (XO (XI (XO (XI (XI (XI (XO (XI (XI (XO (XI (XO (XO
    XH))))))))))))))) :: (((Zpos (XO (XI (XI (XO (XO (XI (XO (XI (XO (XI (XI
    XH)))))))))))), (Npos (XO (XO (XI (XI (XO (XO (XI (XI (XI (XO (XI (XO (XO
    XH))))))))))))))) :: (((Zpos (XI (XI (XI (XO (XO (XI (XO (XI (XO (XI (XI
    XH)))))))))))), (Npos (XO (XI (XI (XI (XI (XO (XI (XI (XI (XO (XI (XO (XO
    XH))))))))))))))) :: (((Zpos (XO (XO (XO (XI (XO (XI (XO (XI (XO (XI (XI
    XH)))))))))))), (Npos (XO (XO (XI (XI (XO (XI (XI (XI (XI (XO (XI (XO (XO
    XH))))))))))))))) :: (((Zpos (XI (XO (XO (XI (XO (XI (XO (XI (XO (XI (XI
    XH)))))))))))), (Npos (XI (XI (XI (XI (XI (XI (XI (XI (XI (XO (XI (XO (XO
    XH))))))))))))))) :: (((Zpos (XO (XI (XO (XI (XO (XI (XO (XI (XO (XI (XI
    XH)))))))))))), (Npos (XO (XO (XI (XI (XO (XO (XO (XO (XO (XI (XI (XO (XO
    XH))))))))))))))) :: (((Zpos (XI (XI (XO (XI (XO (XI (XO (XI (XO (XI (XI
    XH)))))))))))), (Npos (XI (XI (XI (XI (XI (XO (XO (XO (XO (XI (XI (XO (XO
    XH))))))))))))))) :: (((Zpos (XO (XO (XI (XI (XO (XI (XO (XI (XO (XI (XI
    XH)))))))))))), (Npos (XI (XO (XO (XO (XI (XI (XO (XO (XO (XI (XI (XO (XO
    XH))))))))))))))) :: (((Zpos (XI (XO (XI (XI (XO (XI (XO (XI (XO (XI (XI
    XH)))))))))))), (Npos (XI (XI (XO (XO (XO (XO (XI (XO (XO (XI (XI (XO (XO
    XH))))))))))))))) :: (((Zpos (XO (XI (XI (XI (XO (XI (XO (XI (XO (XI (XI
    XH)))))))))))), (Npos (XO (XO (XI (XO (XI (XO (XI (XO (XO (XI (XI (XO (XO
    XH))))))))))))))) :: (((Zpos (XI (XI (XI (XI (XO (XI (XO (XI (XO (XI (XI
    XH)))))))))))), (Npos (XO (XI (XI (XO (XO (XI (XI (XO (XO (XI (XI (XO (XO
    XH))))))))))))))) :: (((Zpos (XO (XO (XO (XO (XI (XI (XO (XI (XO (XI (XI
    XH)))))))))))), (Npos (XI (XO (XO (XI (XI (XI (XI (XO (XO (XI (XI (XO (XO
    XH))))))))))))))) :: (((Zpos (XI (XO (XO (XO (XI (XI (XO (XI (XO (XI (XI
    XH)))))))))))), (Npos (XI (XI (XO (XI (XO (XO (XO (XI (XO (XI (XI (XO (XO
    XH))))))))))))))) :: (((Zpos (XO (XI (XO (XO (XI (XI (XO (XI (XO (XI (XI
    XH)))))))))))), (Npos (XO (XO (XO (XI (XI (XO (XO (XI (XO (XI (XI (XO (XO
    XH))))))))))))))) :: (((Zpos (XI (XI (XO (XO (XI (XI (XO (XI (XO (XI (XI
    XH)))))))))))), (Npos (XI (XO (XI (XO (XO (XI (XO (XI (XO (XI (XI (XO (XO
    XH))))))))))))))) :: (((Zpos (XO (XO (XI (XO (XI (XI (XO (XI (XO (XI (XI
    XH)))))))))))), (Npos (XI (XI (XI (XO (XI (XI (XO (XI (XO (XI (XI (XO (XO
    XH))))))))))))))) :: (((Zpos (XI (XO (XI (XO (XI (XI (XO (XI (XO (XI (XI
    XH)))))))))))), (Npos (XO (XO (XO (XI (XO (XO (XI (XI (XO (XI (XI (XO (XO
    XH))))))))))))))) :: (((Zpos (XO (XI (XI (XO (XI (XI (XO (XI (XO (XI (XI
    XH)))))))))))), (Npos (XO (XO (XI (XO (XI (XO (XI (XI (XO (XI (XI (XO (XO
    XH))))))))))))))) :: (((Zpos (XI (XI (XI (XO (XI (XI (XO (XI (XO (XI (XI
    XH)))))))))))), (Npos (XI (XO (XI (XO (XO (XI (XI (XI (XO (XI (XI (XO (XO
    XH))))))))))))))) :: (((Zpos (XO (XO (XO (XI (XI (XI (XO (XI (XO (XI (XI
    XH)))))))))))), (Npos (XO (XI (XO (XO (XI (XI (XI (XI (XO (XI (XI (XO (XO
    XH))))))))))))))) :: (((Zpos (XI (XO (XO (XI (XI (XI (XO (XI (XO (XI (XI
    XH)))))))))))), (Npos (XI (XI (XI (XI (XI (XI (XI (XI (XO (XI (XI (XO (XO
    XH))))))))))))))) :: (((Zpos (XO (XI (XO (XI (XI (XI (XO (XI (XO (XI (XI
    XH)))))))))))), (Npos (XI (XO (XO (XO (XI (XO (XO (XO (XI (XI (XI (XO (XO
    XH))))))))))))))) :: (((Zpos (XI (XI (XO (XI (XI (XI (XO (XI (XO (XI (XI
    XH)))))))))))), (Npos (XO (XI (XI (XI (XI (XO (XO (XO (XI (XI (XI (XO (XO
    XH))))))))))))))) :: (((Zpos (XO (XO (XI (XI (XI (XI (XO (XI (XO (XI (XI
    XH)))))))))))), (Npos (XO (XO (XI (XI (XO (XI (XO (XO (XI (XI (XI (XO (XO
    XH))))))))))))))) :: (((Zpos (XI (XO (XI (XI (XI (XI (XO (XI (XO (XI (XI
    XH)))))))))))), (Npos (XI (XO (XO (XI (XI (XI (XO (XO (XI (XI (XI (XO (XO
    XH))))))))))))))) :: (((Zpos (XO (XI (XI (XI (XI (XI (XO (XI (XO (XI (XI
    XH)))))))))))), (Npos (XI (XI (XI (XO (XO (XO (XI (XO (XI (XI (XI (XO (XO
    XH))))))))))))))) :: (((Zpos (XI (XI (XI (XI (XI (XI (XO (XI (XO (XI (XI
    XH)))))))))))), (Npos (XO (XO (XI (XO (XI (XO (XI (XO (XI (XI (XI (XO (XO
    XH))))))))))))))) :: (((Zpos (XO (XO (XO (XO (XO (XO (XI (XI (XO (XI (XI
    XH)))))))))))), (Npos (XI (XO (XI (XI (XI (XO (XI (XO (XI (XI (XI (XO (XO
    XH))))))))))))))) :: (((Zpos (XI (XO (XO (XO (XO (XO (XI (XI (XO (XI (XI
    XH)))))))))))), (Npos (XI (XI (XI (XO (XO (XI (XI (XO (XI (XI (XI (XO (XO
    XH))))))))))))))) :: (((Zpos (XO (XI (XO (XO (XO (XO (XI (XI (XO (XI (XI
    XH)))))))))))), (Npos (XI (XO (XO (XO (XI (XI (XI (XO (XI (XI (XI (XO (XO
    XH))))))))))))))) :: (((Zpos (XI (XI (XO (XO (XO (XO (XI (XI (XO (XI (XI
    XH)))))))))))), (Npos (XO (XO (XI (XI (XI (XI (XI (XO (XI (XI (XI (XO (XO
    XH))))))))))))))) :: (((Zpos (XO (XO (XI (XO (XO (XO (XI (XI (XO (XI (XI
    XH)))))))))))), (Npos (XO (XI (XI (XO (XO (XO (XO (XI (XI (XI (XI (XO (XO
    XH))))))))))))))) :: (((Zpos (XI (XO (XI (XO (XO (XO (XI (XI (XO (XI (XI
    XH)))))))))))), (Npos (XI (XI (XI (XI (XO (XO (XO (XI (XI (XI (XI (XO (XO
    XH))))))))))))))) :: (((Zpos (XO (XI (XI (XO (XO (XO (XI (XI (XO (XI (XI
    XH)))))))))))), (Npos (XO (XI (XO (XI (XI (XO (XO (XI (XI (XI (XI (XO (XO
    XH))))))))))))))) :: (((Zpos (XI (XI (XI (XO (XO (XO (XI (XI (XO (XI (XI
    XH)))))))))))), (Npos (XO (XO (XI (XO (XO (XI (XO (XI (XI (XI (XI (XO (XO
    XH))))))))))))))) :: (((Zpos (XO (XO (XO (XI (XO (XO (XI (XI (XO (XI (XI
    XH)))))))))))), (Npos (XI (XO (XI (XI (XO (XI (XO (XI (XI (XI (XI (XO (XO
    XH))))))))))))))) :: (((Zpos (XI (XO (XO (XI (XO (XO (XI (XI (XO (XI (XI
    XH)))))))))))), (Npos (XI (XI (XI (XO (XI (XI (XO (XI (XI (XI (XI (XO (XO
    XH))))))))))))))) :: (((Zpos (XO (XI (XO (XI (XO (XO (XI (XI (XO (XI (XI
    XH)))))))))))), (Npos (XO (XI (XO (XO (XO (XO (XI (XI (XI (XI (XI (XO (XO
    XH))))))))))))))) :: (((Zpos (XI (XI (XO (XI (XO (XO (XI (XI (XO (XI (XI
    XH)))))))))))), (Npos (XO (XO (XI (XI (XO (XO (XI (XI (XI (XI (XI (XO (XO
    XH))))))))))))))) :: (((Zpos (XO (XO (XI (XI (XO (XO (XI (XI (XO (XI (XI
    XH)))))))))))), (Npos (XO (XI (XI (XO (XI (XO (XI (XI (XI (XI (XI (XO (XO
    XH))))))))))))))) :: (((Zpos (XI (XO (XI (XI (XO (XO (XI (XI (XO (XI (XI
    XH)))))))))))), (Npos (XI (XI (XI (XI (XI (XO (XI (XI (XI (XI (XI (XO (XO
    XH))))))))))))))) :: (((Zpos (XO (XI (XI (XI (XO (XO (XI (XI (XO (XI (XI
    XH)))))))))))), (Npos (XO (XI (XO (XI (XO (XI (XI (XI (XI (XI (XI (XO (XO
    XH))))))))))))))) :: (((Zpos (XI (XI (XI (XI (XO (XO (XI (XI (XO (XI (XI
    XH)))))))))))), (Npos (XO (XO (XI (XO (XI (XI (XI (XI (XI (XI (XI (XO (XO
    XH))))))))))))))) :: (((Zpos (XO (XO (XO (XO (XI (XO (XI (XI (XO (XI (XI
    XH)))))))))))), (Npos (XO (XI (XI (XI (XI (XI (XI (XI (XI (XI (XI (XO (XO
    XH))))))))))))))) :: (((Zpos (XI (XO (XO (XO (XI (XO (XI (XI (XO (XI (XI
    XH)))))))))))), (Npos (XO (XO (XO (XI (XO (XO (XO (XO (XO (XO (XO (XI (XO
    XH))))))))))))))) :: (((Zpos (XO (XI (XO (XO (XI (XO (XI (XI (XO (XI (XI
    XH)))))))))))), (Npos (XO (XI (XO (XO (XI (XO (XO (XO (XO (XO (XO (XI (XO
    XH))))))))))))))) :: (((Zpos (XI (XI (XO (XO (XI (XO (XI (XI (XO (XI (XI
    XH)))))))))))), (Npos (XO (XO (XI (XI (XI (XO (XO (XO (XO (XO (XO (XI (XO
    XH))))))))))))))) :: (((Zpos (XO (XO (XI (XO (XI (XO (XI (XI (XO (XI (XI
    XH)))))))))))), (Npos (XI (XO (XI (XO (XO (XI (XO (XO (XO (XO (XO (XI (XO
    XH))))))))))))))) :: (((Zpos (XI (XO (XI (XO (XI (XO (XI (XI (XO (XI (XI
    XH)))))))))))), (Npos (XI (XO (XI (XO (XI (XI (XO (XO (XO (XO (XO (XI (XO
    XH))))))))))))))) :: (((Zpos (XO (XI (XI (XO (XI (XO (XI (XI (XO (XI (XI
    XH)))))))))))), (Npos (XO (XI (XO (XI (XO (XO (XI (XO (XO (XO (XO (XI (XO
    XH))))))))))))))) :: (((Zpos (XI (XI (XI (XO (XI (XO (XI (XI (XO (XI (XI
    XH)))))))))))), (Npos (XO (XI (XI (XI (XI (XO (XI (XO (XO (XO (XO (XI (XO
    XH))))))))))))))) :: (((Zpos (XO (XO (XO (XI (XI (XO (XI (XI (XO (XI (XI
    XH)))))))))))), (Npos (XI (XO (XI (XI (XO (XI (XI (XO (XO (XO (XO (XI (XO
    XH))))))))))))))) :: (((Zpos (XI (XO (XO (XI (XI (XO (XI (XI (XO (XI (XI
    XH)))))))))))), (Npos (XI (XO (XO (XO (XO (XO (XO (XI (XO (XO (XO (XI (XO
    XH))))))))))))))) :: (((Zpos (XO (XI (XO (XI (XI (XO (XI (XI (XO (XI (XI
    XH)))))))))))), (Npos (XI (XO (XI (XO (XI (XO (XO (XI (XO (XO (XO (XI (XO
    XH))))))))))))))) :: (((Zpos (XI (XI (XO (XI (XI (XO (XI (XI (XO (XI (XI
    XH)))))))))))), (Npos (XI (XO (XI (XO (XO (XI (XO (XI (XO (XO (XO (XI (XO
    XH))))))))))))))) :: (((Zpos (XO (XO (XI (XI (XI (XO (XI (XI (XO (XI (XI
    XH)))))))))))), (Npos (XO (XO (XI (XO (XI (XI (XO (XI (XO (XO (XO (XI (XO
    XH))))))))))))))) :: (((Zpos (XI (XO (XI (XI (XI (XO (XI (XI (XO (XI (XI
    XH)))))))))))), (Npos (XI (XO (XO (XI (XO (XO (XI (XI (XO (XO (XO (XI (XO
    XH))))))))))))))) :: (((Zpos (XO (XI (XI (XI (XI (XO (XI (XI (XO (XI (XI
    XH)))))))))))), (Npos (XI (XO (XI (XI (XI (XO (XI (XI (XO (XO (XO (XI (XO
    XH))))))))))))))) :: (((Zpos (XI (XI (XI (XI (XI (XO (XI (XI (XO (XI (XI
    XH)))))))))))), (Npos (XI (XO (XO (XO (XI (XI (XI (XI (XO (XO (XO (XI (XO
    XH))))))))))))))) :: (((Zpos (XO (XO (XO (XO (XO (XI (XI (XI (XO (XI (XI
    XH)))))))))))), (Npos (XO (XO (XI (XO (XO (XO (XO (XO (XI (XO (XO (XI (XO
    XH))))))))))))))) :: (((Zpos (XI (XO (XO (XO (XO (XI (XI (XI (XO (XI (XI
    XH)))))))))))), (Npos (XO (XO (XO (XI (XI (XO (XO (XO (XI (XO (XO (XI (XO
    XH))))))))))))))) :: (((Zpos (XO (XI (XO (XO (XO (XI (XI (XI (XO (XI (XI
    XH)))))))))))), (Npos (XI (XO (XI (XI (XO (XI (XO (XO (XI (XO (XO (XI (XO
    XH))))))))))))))) :: (((Zpos (XI (XI (XO (XO (XO (XI (XI (XI (XO (XI (XI
    XH)))))))))))), (Npos (XI (XO (XO (XO (XO (XO (XI (XO (XI (XO (XO (XI (XO
    XH))))))))))))))) :: (((Zpos (XO (XO (XI (XO (XO (XI (XI (XI (XO (XI (XI
    XH)))))))))))), (Npos (XO (XO (XO (XO (XI (XO (XI (XO (XI (XO (XO (XI (XO
    XH))))))))))))))) :: (((Zpos (XI (XO (XI (XO (XO (XI (XI (XI (XO (XI (XI
    XH)))))))))))), (Npos (XI (XI (XI (XI (XI (XO (XI (XO (XI (XO (XO (XI (XO
    XH))))))))))))))) :: (((Zpos (XO (XI (XI (XO (XO (XI (XI (XI (XO (XI (XI
    XH)))))))))))), (Npos (XO (XI (XO (XO (XI (XI (XI (XO (XI (XO (XO (XI (XO
    XH))))))))))))))) :: (((Zpos (XI (XI (XI (XO (XO (XI (XI (XI (XO (XI (XI
    XH)))))))))))), (Npos (XO (XO (XO (XO (XO (XO (XO (XI (XI (XO (XO (XI (XO
    XH))))))))))))))) :: (((Zpos (XO (XO (XO (XI (XO (XI (XI (XI (XO (XI (XI
    XH)))))))))))), (Npos (XI (XI (XO (XO (XI (XO (XO (XI (XI (XO (XO (XI (XO
    XH))))))))))))))) :: (((Zpos (XI (XO (XO (XI (XO (XI (XI (XI (XO (XI (XI
    XH)))))))))))), (Npos (XO (XI (XO (XO (XO (XI (XO (XI (XI (XO (XO (XI (XO
    XH))))))))))))))) :: (((Zpos (XO (XI (XO (XI (XO (XI (XI (XI (XO (XI (XI
    XH)))))))))))), (Npos (XI (XO (XO (XO (XI (XI (XO (XI (XI (XO (XO (XI (XO
    XH))))))))))))))) :: (((Zpos (XI (XI (XO (XI (XO (XI (XI (XI (XO (XI (XI
    XH)))))))))))), (Npos (XO (XO (XO (XO (XO (XO (XI (XI (XI (XO (XO (XI (XO
    XH))))))))))))))) :: (((Zpos (XO (XO (XI (XI (XO (XI (XI (XI (XO (XI (XI
    XH)))))))))))), (Npos (XO (XO (XO (XO (XI (XO (XI (XI (XI (XO (XO (XI (XO
    XH))))))))))))))) :: (((Zpos (XI (XO (XI (XI (XO (XI (XI (XI (XO (XI (XI
    XH)))))))))))), (Npos (XI (XI (XI (XI (XI (XO (XI (XI (XI (XO (XO (XI (XO
    XH))))))))))))))) :: (((Zpos (XO (XI (XI (XI (XO (XI (XI (XI (XO (XI (XI
    XH)))))))))))), (Npos (XI (XI (XI (XI (XO (XI (XI (XI (XI (XO (XO (XI (XO
    XH))))))))))))))) :: (((Zpos (XI (XI (XI (XI (XO (XI (XI (XI (XO (XI (XI
    XH)))))))))))), (Npos (XO (XI (XI (XI (XI (XI (XI (XI (XI (XO (XO (XI (XO
    XH))))))))))))))) :: (((Zpos (XO (XO (XO (XO (XI (XI (XI (XI (XO (XI (XI
    XH)))))))))))), (Npos (XO (XI (XI (XO (XI (XO (XO (XO (XO (XI (XO (XI (XO
    XH))))))))))))))) :: (((Zpos (XI (XO (XO (XO (XI (XI (XI (XI (XO (XI (XI
    XH)))))))))))), (Npos (XI (XI (XI (XI (XO (XI (XO (XO (XO (XI (XO (XI (XO
    XH))))))))))))))) :: (((Zpos (XO (XI (XO (XO (XI (XI (XI (XI (XO (XI (XI
    XH)))))))))))), (Npos (XO (XO (XO (XI (XO (XO (XI (XO (XO (XI (XO (XI (XO
    XH))))))))))))))) :: (((Zpos (XI (XI (XO (XO (XI (XI (XI (XI (XO (XI (XI
    XH)))))))))))), (Npos (XI (XI (XI (XO (XI (XO (XI (XO (XO (XI (XO (XI (XO
    XH))))))))))))))) :: (((Zpos (XO (XO (XI (XO (XI (XI (XI (XI (XO (XI (XI
    XH)))))))))))), (Npos (XO (XO (XO (XO (XI (XI (XI (XO (XO (XI (XO (XI (XO
    XH))))))))))))))) :: (((Zpos (XI (XO (XI (XO (XI (XI (XI (XI (XO (XI (XI
    XH)))))))))))), (Npos (XO (XI (XO (XI (XO (XO (XO (XI (XO (XI (XO (XI (XO
    XH))))))))))))))) :: (((Zpos (XO (XI (XI (XO (XI (XI (XI (XI (XO (XI (XI
    XH)))))))))))), (Npos (XI (XO (XI (XI (XI (XO (XO (XI (XO (XI (XO (XI (XO
    XH))))))))))))))) :: (((Zpos (XI (XI (XI (XO (XI (XI (XI (XI (XO (XI (XI
    XH)))))))))))), (Npos (XO (XI (XO (XI (XO (XI (XO (XI (XO (XI (XO (XI (XO
    XH))))))))))))))) :: (((Zpos (XO (XO (XO (XI (XI (XI (XI (XI (XO (XI (XI
    XH)))))))))))), (Npos (XO (XO (XO (XI (XI (XI (XO (XI (XO (XI (XO (XI (XO
    XH))))))))))))))) :: (((Zpos (XI (XO (XO (XI (XI (XI (XI (XI (XO (XI (XI
    XH)))))))))))), (Npos (XI (XO (XO (XI (XO (XO (XI (XI (XO (XI (XO (XI (XO
    XH))))))))))))))) :: (((Zpos (XO (XI (XO (XI (XI (XI (XI (XI (XO (XI (XI
    XH)))))))))))), (Npos (XO (XO (XI (XO (XO (XI (XI (XI (XO (XI (XO (XI (XO
    XH))))))))))))))) :: (((Zpos (XI (XI (XI (XI (XI (XI (XI (XI (XO (XI (XI
    XH)))))))))))), (Npos (XI (XO (XO (XI (XI (XI (XI (XI (XO (XI (XO (XI (XO
    XH))))))))))))))) :: (((Zpos (XO (XO (XI (XI (XI (XI (XO (XI (XI (XI (XO
    (XO XH))))))))))))), (Npos (XO (XO (XI (XO (XO (XO (XO (XO (XI (XI (XO
    (XI (XO XH))))))))))))))) :: (((Zpos (XI (XO (XI (XI (XI (XI (XO (XI (XI
    (XI (XO (XO XH))))))))))))), (Npos (XI (XI (XI (XO (XO (XO (XO (XO (XI
    (XI (XO (XI (XO XH))))))))))))))) :: (((Zpos (XO (XI (XI (XI (XI (XI (XO
    (XI (XI (XI (XO (XO XH))))))))))))), (Npos (XO (XI (XO (XI (XO (XO (XO
    (XO (XI (XI (XO (XI (XO XH))))))))))))))) :: (((Zpos (XO (XO (XO (XO (XO
    (XI (XO (XI (XO (XO (XO (XO (XO XH)))))))))))))), (Npos (XI (XO (XI (XO
    (XI (XO (XO (XO (XI (XI (XO (XI (XO XH))))))))))))))) :: (((Zpos (XI (XO
    (XO (XO (XO (XI (XO (XI (XO (XO (XO (XO (XO XH)))))))))))))), (Npos (XI
    (XO (XI (XI (XI (XO (XO (XO (XI (XI (XO (XI (XO
    XH))))))))))))))) :: (((Zpos (XO (XI (XO (XO (XO (XI (XO (XI (XO (XO (XO
    (XO (XO XH)))))))))))))), (Npos (XI (XI (XI (XO (XO (XI (XO (XO (XI (XI
    (XO (XI (XO XH))))))))))))))) :: (((Zpos (XI (XI (XO (XO (XO (XI (XO (XI
    (XO (XO (XO (XO (XO XH)))))))))))))), (Npos (XO (XO (XI (XO (XI (XI (XO
    (XO (XI (XI (XO (XI (XO XH))))))))))))))) :: (((Zpos (XO (XO (XI (XO (XO
    (XI (XO (XI (XO (XO (XO (XO (XO XH)))))))))))))), (Npos (XI (XI (XI (XI
    (XI (XI (XO (XO (XI (XI (XO (XI (XO XH))))))))))))))) :: (((Zpos (XI (XO
    (XI (XO (XO (XI (XO (XI (XO (XO (XO (XO (XO XH)))))))))))))), (Npos (XO
    (XO (XO (XI (XO (XO (XI (XO (XI (XI (XO (XI (XO
    XH))))))))))))))) :: (((Zpos (XO (XI (XI (XO (XO (XI (XO (XI (XO (XO (XO
    (XO (XO XH)))))))))))))), (Npos (XI (XO (XO (XO (XI (XO (XI (XO (XI (XI
    (XO (XI (XO XH))))))))))))))) :: (((Zpos (XI (XI (XI (XO (XO (XI (XO (XI
    (XO (XO (XO (XO (XO XH)))))))))))))), (Npos (XI (XI (XO (XI (XI (XO (XI
    (XO (XI (XI (XO (XI (XO XH))))))))))))))) :: (((Zpos (XO (XO (XO (XI (XO
    (XI (XO (XI (XO (XO (XO (XO (XO XH)))))))))))))), (Npos (XO (XI (XI (XO
    (XO (XI (XI (XO (XI (XI (XO (XI (XO XH))))))))))))))) :: (((Zpos (XI (XO
    (XO (XI (XO (XI (XO (XI (XO (XO (XO (XO (XO XH)))))))))))))), (Npos (XO
    (XO (XO (XO (XI (XI (XI (XO (XI (XI (XO (XI (XO
    XH))))))))))))))) :: (((Zpos (XO (XI (XO (XI (XO (XI (XO (XI (XO (XO (XO
    (XO (XO XH)))))))))))))), (Npos (XO (XO (XO (XI (XI (XI (XI (XO (XI (XI
    (XO (XI (XO XH))))))))))))))) :: (((Zpos (XI (XI (XO (XI (XO (XI (XO (XI
    (XO (XO (XO (XO (XO XH)))))))))))))), (Npos (XO (XI (XI (XO (XO (XO (XO
    (XI (XI (XI (XO (XI (XO XH))))))))))))))) :: (((Zpos (XO (XO (XI (XI (XO
    (XI (XO (XI (XO (XO (XO (XO (XO XH)))))))))))))), (Npos (XI (XI (XI (XI
    (XO (XO (XO (XI (XI (XI (XO (XI (XO XH))))))))))))))) :: (((Zpos (XI (XO
    (XO (XO (XO (XO (XO (XO (XI (XO (XI (XI (XI (XI (XI XH)))))))))))))))),
    (Npos (XO (XO (XO (XI (XI (XO (XO (XI (XI (XI (XO (XI (XO
    XH))))))))))))))) :: (((Zpos (XO (XI (XO (XO (XO (XO (XO (XO (XI (XO (XI
    (XI (XI (XI (XI XH)))))))))))))))), (Npos (XI (XI (XI (XO (XO (XI (XO (XI
    (XI (XI (XO (XI (XO XH))))))))))))))) :: (((Zpos (XI (XI (XO (XO (XO (XO
    (XO (XO (XI (XO (XI (XI (XI (XI (XI XH)))))))))))))))), (Npos (XO (XI (XI
    (XO (XI (XI (XO (XI (XI (XI (XO (XI (XO XH))))))))))))))) :: (((Zpos (XO
    (XO (XI (XO (XO (XO (XO (XO (XI (XO (XI (XI (XI (XI (XI
    XH)))))))))))))))), (Npos (XO (XI (XO (XO (XO (XO (XI (XI (XI (XI (XO (XI
    (XO XH))))))))))))))) :: (((Zpos (XI (XO (XI (XO (XO (XO (XO (XO (XI (XO
    (XI (XI (XI (XI (XI XH)))))))))))))))), (Npos (XI (XO (XI (XI (XO (XO (XI
    (XI (XI (XI (XO (XI (XO XH))))))))))))))) :: (((Zpos (XO (XI (XI (XO (XO
    (XO (XO (XO (XI (XO (XI (XI (XI (XI (XI XH)))))))))))))))), (Npos (XO (XI
    (XO (XI (XI (XO (XI (XI (XI (XI (XO (XI (XO XH))))))))))))))) :: (((Zpos
    (XI (XI (XI (XO (XO (XO (XO (XO (XI (XO (XI (XI (XI (XI (XI
    XH)))))))))))))))), (Npos (XO (XO (XO (XI (XO (XI (XI (XI (XI (XI (XO (XI
    (XO XH))))))))))))))) :: (((Zpos (XO (XO (XO (XI (XO (XO (XO (XO (XI (XO
    (XI (XI (XI (XI (XI XH)))))))))))))))), (Npos (XO (XO (XO (XI (XI (XI (XI
    (XI (XI (XI (XO (XI (XO XH))))))))))))))) :: (((Zpos (XI (XO (XO (XI (XO
    (XO (XO (XO (XI (XO (XI (XI (XI (XI (XI XH)))))))))))))))), (Npos (XI (XI
    (XO (XO (XO (XO (XO (XO (XO (XO (XI (XI (XO XH))))))))))))))) :: (((Zpos
    (XO (XI (XO (XI (XO (XO (XO (XO (XI (XO (XI (XI (XI (XI (XI
    XH)))))))))))))))), (Npos (XI (XO (XI (XI (XO (XO (XO (XO (XO (XO (XI (XI
    (XO XH))))))))))))))) :: (((Zpos (XI (XI (XO (XI (XO (XO (XO (XO (XI (XO
    (XI (XI (XI (XI (XI XH)))))))))))))))), (Npos (XO (XI (XI (XO (XI (XO (XO
    (XO (XO (XO (XI (XI (XO XH))))))))))))))) :: (((Zpos (XO (XO (XI (XI (XO
    (XO (XO (XO (XI (XO (XI (XI (XI (XI (XI XH)))))))))))))))), (Npos (XI (XI
    (XI (XI (XI (XO (XO (XO (XO (XO (XI (XI (XO XH))))))))))))))) :: (((Zpos
    (XI (XO (XI (XI (XO (XO (XO (XO (XI (XO (XI (XI (XI (XI (XI
    XH)))))))))))))))), (Npos (XO (XO (XO (XI (XO (XI (XO (XO (XO (XO (XI (XI
    (XO XH))))))))))))))) :: (((Zpos (XO (XI (XI (XI (XO (XO (XO (XO (XI (XO
    (XI (XI (XI (XI (XI XH)))))))))))))))), (Npos (XO (XI (XO (XO (XI (XI (XO
    (XO (XO (XO (XI (XI (XO XH))))))))))))))) :: (((Zpos (XI (XI (XI (XI (XO
    (XO (XO (XO (XI (XO (XI (XI (XI (XI (XI XH)))))))))))))))), (Npos (XO (XO
    (XI (XI (XI (XI (XO (XO (XO (XO (XI (XI (XO XH))))))))))))))) :: (((Zpos
    (XO (XO (XO (XO (XI (XO (XO (XO (XI (XO (XI (XI (XI (XI (XI
    XH)))))))))))))))), (Npos (XI (XO (XI (XI (XO (XO (XI (XO (XO (XO (XI (XI
    (XO XH))))))))))))))) :: (((Zpos (XI (XO (XO (XO (XI (XO (XO (XO (XI (XO
    (XI (XI (XI (XI (XI XH)))))))))))))))), (Npos (XO (XO (XI (XI (XI (XO (XI
    (XO (XO (XO (XI (XI (XO XH))))))))))))))) :: (((Zpos (XO (XI (XO (XO (XI
    (XO (XO (XO (XI (XO (XI (XI (XI (XI (XI XH)))))))))))))))), (Npos (XO (XI
    (XO (XI (XO (XI (XI (XO (XO (XO (XI (XI (XO XH))))))))))))))) :: (((Zpos
    (XI (XI (XO (XO (XI (XO (XO (XO (XI (XO (XI (XI (XI (XI (XI
    XH)))))))))))))))), (Npos (XO (XO (XI (XO (XI (XI (XI (XO (XO (XO (XI (XI
    (XO XH))))))))))))))) :: (((Zpos (XO (XO (XI (XO (XI (XO (XO (XO (XI (XO
    (XI (XI (XI (XI (XI XH)))))))))))))))), (Npos (XI (XI (XI (XI (XI (XI (XI
    (XO (XO (XO (XI (XI (XO XH))))))))))))))) :: (((Zpos (XI (XO (XI (XO (XI
    (XO (XO (XO (XI (XO (XI (XI (XI (XI (XI XH)))))))))))))))), (Npos (XI (XO
    (XO (XI (XO (XO (XO (XI (XO (XO (XI (XI (XO XH))))))))))))))) :: (((Zpos
    (XO (XI (XI (XO (XI (XO (XO (XO (XI (XO (XI (XI (XI (XI (XI
    XH)))))))))))))))), (Npos (XI (XI (XO (XO (XI (XO (XO (XI (XO (XO (XI (XI
    (XO XH))))))))))))))) :: (((Zpos (XI (XI (XI (XO (XI (XO (XO (XO (XI (XO
    (XI (XI (XI (XI (XI XH)))))))))))))))), (Npos (XI (XO (XI (XI (XI (XO (XO
    (XI (XO (XO (XI (XI (XO XH))))))))))))))) :: (((Zpos (XO (XO (XO (XI (XI
    (XO (XO (XO (XI (XO (XI (XI (XI (XI (XI XH)))))))))))))))), (Npos (XO (XO
    (XO (XI (XO (XI (XO (XI (XO (XO (XI (XI (XO XH))))))))))))))) :: (((Zpos
    (XI (XO (XO (XI (XI (XO (XO (XO (XI (XO (XI (XI (XI (XI (XI
    XH)))))))))))))))), (Npos (XO (XO (XI (XO (XI (XI (XO (XI (XO (XO (XI (XI
    (XO XH))))))))))))))) :: (((Zpos (XO (XI (XO (XI (XI (XO (XO (XO (XI (XO
    (XI (XI (XI (XI (XI XH)))))))))))))))), (Npos (XO (XI (XI (XO (XO (XO (XI
    (XI (XO (XO (XI (XI (XO XH))))))))))))))) :: (((Zpos (XI (XI (XO (XI (XI
    (XO (XO (XO (XI (XO (XI (XI (XI (XI (XI XH)))))))))))))))), (Npos (XO (XI
    (XI (XO (XI (XO (XI (XI (XO (XO (XI (XI (XO XH))))))))))))))) :: (((Zpos
    (XO (XO (XI (XI (XI (XO (XO (XO (XI (XO (XI (XI (XI (XI (XI
    XH)))))))))))))))), (Npos (XO (XO (XI (XO (XO (XI (XI (XI (XO (XO (XI (XI
    (XO XH))))))))))))))) :: (((Zpos (XI (XO (XI (XI (XI (XO (XO (XO (XI (XO
    (XI (XI (XI (XI (XI XH)))))))))))))))), (Npos (XO (XI (XI (XO (XI (XI (XI
    (XI (XO (XO (XI (XI (XO XH))))))))))))))) :: (((Zpos (XO (XI (XI (XI (XI
    (XO (XO (XO (XI (XO (XI (XI (XI (XI (XI XH)))))))))))))))), (Npos (XI (XI
    (XI (XO (XO (XO (XO (XO (XI (XO (XI (XI (XO XH))))))))))))))) :: (((Zpos
    (XI (XO (XO (XO (XO (XO (XO (XO (XO (XI (XI (XI (XI (XI (XI
    XH)))))))))))))))), (Npos (XO (XI (XO (XO (XI (XO (XO (XO (XI (XO (XI (XI
    (XO XH))))))))))))))) :: (((Zpos (XO (XI (XO (XO (XO (XO (XO (XO (XO (XI
    (XI (XI (XI (XI (XI XH)))))))))))))))), (Npos (XI (XI (XO (XI (XI (XO (XO
    (XO (XI (XO (XI (XI (XO XH))))))))))))))) :: (((Zpos (XI (XI (XO (XO (XO
    (XO (XO (XO (XO (XI (XI (XI (XI (XI (XI XH)))))))))))))))), (Npos (XO (XO
    (XI (XI (XO (XI (XO (XO (XI (XO (XI (XI (XO XH))))))))))))))) :: (((Zpos
    (XO (XO (XI (XO (XO (XO (XO (XO (XO (XI (XI (XI (XI (XI (XI
    XH)))))))))))))))), (Npos (XI (XO (XI (XI (XI (XI (XO (XO (XI (XO (XI (XI
    (XO XH))))))))))))))) :: (((Zpos (XI (XO (XI (XO (XO (XO (XO (XO (XO (XI
    (XI (XI (XI (XI (XI XH)))))))))))))))), (Npos (XO (XI (XI (XI (XO (XO (XI
    (XO (XI (XO (XI (XI (XO XH))))))))))))))) :: (((Zpos (XO (XI (XI (XO (XO
    (XO (XO (XO (XO (XI (XI (XI (XI (XI (XI XH)))))))))))))))), (Npos (XO (XI
    (XI (XI (XI (XO (XI (XO (XI (XO (XI (XI (XO XH))))))))))))))) :: (((Zpos
    (XI (XI (XI (XO (XO (XO (XO (XO (XO (XI (XI (XI (XI (XI (XI
    XH)))))))))))))))), (Npos (XO (XI (XI (XI (XO (XI (XI (XO (XI (XO (XI (XI
    (XO XH))))))))))))))) :: (((Zpos (XO (XO (XO (XI (XO (XO (XO (XO (XO (XI
    (XI (XI (XI (XI (XI XH)))))))))))))))), (Npos (XI (XO (XI (XI (XI (XI (XI
    (XO (XI (XO (XI (XI (XO XH))))))))))))))) :: (((Zpos (XI (XO (XO (XI (XO
    (XO (XO (XO (XO (XI (XI (XI (XI (XI (XI XH)))))))))))))))), (Npos (XO (XO
    (XI (XI (XO (XO (XO (XI (XI (XO (XI (XI (XO XH))))))))))))))) :: (((Zpos
    (XO (XI (XO (XI (XO (XO (XO (XO (XO (XI (XI (XI (XI (XI (XI
    XH)))))))))))))))), (Npos (XO (XO (XO (XO (XO (XI (XO (XI (XI (XO (XI (XI
    (XO XH))))))))))))))) :: (((Zpos (XI (XI (XO (XI (XO (XO (XO (XO (XO (XI
    (XI (XI (XI (XI (XI XH)))))))))))))))), (Npos (XI (XI (XI (XI (XO (XI (XO
    (XI (XI (XO (XI (XI (XO XH))))))))))))))) :: (((Zpos (XO (XO (XI (XI (XO
    (XO (XO (XO (XO (XI (XI (XI (XI (XI (XI XH)))))))))))))))), (Npos (XI (XI
    (XO (XO (XO (XO (XI (XI (XI (XO (XI (XI (XO XH))))))))))))))) :: (((Zpos
    (XI (XO (XI (XI (XO (XO (XO (XO (XO (XI (XI (XI (XI (XI (XI
    XH)))))))))))))))), (Npos (XI (XI (XO (XO (XI (XO (XI (XI (XI (XO (XI (XI
    (XO XH))))))))))))))) :: (((Zpos (XO (XI (XI (XI (XO (XO (XO (XO (XO (XI
    (XI (XI (XI (XI (XI XH)))))))))))))))), (Npos (XO (XO (XO (XI (XO (XI (XI
    (XI (XI (XO (XI (XI (XO XH))))))))))))))) :: (((Zpos (XI (XI (XI (XI (XO
    (XO (XO (XO (XO (XI (XI (XI (XI (XI (XI XH)))))))))))))))), (Npos (XI (XI
    (XI (XO (XI (XI (XI (XI (XI (XO (XI (XI (XO XH))))))))))))))) :: (((Zpos
    (XO (XO (XO (XO (XO (XI (XO (XO (XO (XI (XI (XI (XI (XI (XI
    XH)))))))))))))))), (Npos (XI (XI (XO (XI (XO (XO (XO (XO (XO (XI (XI (XI
    (XO XH))))))))))))))) :: (((Zpos (XI (XO (XO (XO (XO (XI (XO (XO (XO (XI
    (XI (XI (XI (XI (XI XH)))))))))))))))), (Npos (XO (XO (XO (XI (XI (XO (XO
    (XO (XO (XI (XI (XI (XO XH))))))))))))))) :: (((Zpos (XO (XI (XO (XO (XO
    (XI (XO (XO (XO (XI (XI (XI (XI (XI (XI XH)))))))))))))))), (Npos (XI (XO
    (XO (XI (XO (XI (XO (XO (XO (XI (XI (XI (XO XH))))))))))))))) :: (((Zpos
    (XI (XI (XO (XO (XO (XI (XO (XO (XO (XI (XI (XI (XI (XI (XI
    XH)))))))))))))))), (Npos (XO (XO (XI (XI (XI (XI (XO (XO (XO (XI (XI (XI
    (XO XH))))))))))))))) :: (((Zpos (XO (XO (XI (XO (XO (XI (XO (XO (XO (XI
    (XI (XI (XI (XI (XI XH)))))))))))))))), (Npos (XO (XO (XO (XO (XI (XO (XI
    (XO (XO (XI (XI (XI (XO XH))))))))))))))) :: (((Zpos (XI (XO (XI (XO (XO
    (XI (XO (XO (XO (XI (XI (XI (XI (XI (XI XH)))))))))))))))), (Npos (XO (XI
    (XI (XO (XO (XI (XI (XO (XO (XI (XI (XI (XO XH))))))))))))))) :: (((Zpos
    (XO (XI (XI (XO (XO (XI (XO (XO (XO (XI (XI (XI (XI (XI (XI
    XH)))))))))))))))), (Npos (XI (XO (XI (XI (XI (XI (XI (XO (XO (XI (XI (XI
    (XO XH))))))))))))))) :: (((Zpos (XI (XI (XI (XO (XO (XI (XO (XO (XO (XI
    (XI (XI (XI (XI (XI XH)))))))))))))))), (Npos (XI (XO (XI (XO (XI (XO (XO
    (XI (XO (XI (XI (XI (XO XH))))))))))))))) :: (((Zpos (XO (XO (XO (XI (XO
    (XI (XO (XO (XO (XI (XI (XI (XI (XI (XI XH)))))))))))))))), (Npos (XI (XO
    (XO (XI (XO (XI (XO (XI (XO (XI (XI (XI (XO XH))))))))))))))) :: (((Zpos
    (XI (XO (XO (XI (XO (XI (XO (XO (XO (XI (XI (XI (XI (XI (XI
    XH)))))))))))))))), (Npos (XO (XI (XI (XI (XI (XI (XO (XI (XO (XI (XI (XI
    (XO XH))))))))))))))) :: (((Zpos (XO (XI (XO (XI (XO (XI (XO (XO (XO (XI
    (XI (XI (XI (XI (XI XH)))))))))))))))), (Npos (XO (XI (XI (XO (XI (XO (XI
    (XI (XO (XI (XI (XI (XO XH))))))))))))))) :: (((Zpos (XI (XI (XO (XI (XO
    (XI (XO (XO (XO (XI (XI (XI (XI (XI (XI XH)))))))))))))))), (Npos (XI (XI
    (XI (XI (XO (XI (XI (XI (XO (XI (XI (XI (XO XH))))))))))))))) :: (((Zpos
    (XO (XO (XI (XI (XO (XI (XO (XO (XO (XI (XI (XI (XI (XI (XI
    XH)))))))))))))))), (Npos (XO (XO (XO (XI (XO (XO (XO (XO (XI (XI (XI (XI
    (XO XH))))))))))))))) :: (((Zpos (XI (XO (XI (XI (XO (XI (XO (XO (XO (XI
    (XI (XI (XI (XI (XI XH)))))))))))))))), (Npos (XI (XO (XI (XI (XI (XO (XO
    (XO (XI (XI (XI (XI (XO XH))))))))))))))) :: (((Zpos (XO (XI (XI (XI (XO
    (XI (XO (XO (XO (XI (XI (XI (XI (XI (XI XH)))))))))))))))), (Npos (XI (XI
    (XO (XO (XI (XI (XO (XO (XI (XI (XI (XI (XO XH))))))))))))))) :: (((Zpos
    (XI (XI (XI (XI (XO (XI (XO (XO (XO (XI (XI (XI (XI (XI (XI
    XH)))))))))))))))), (Npos (XO (XI (XI (XO (XO (XO (XI (XO (XI (XI (XI (XI
    (XO XH))))))))))))))) :: (((Zpos (XO (XO (XO (XO (XI (XI (XO (XO (XO (XI
    (XI (XI (XI (XI (XI XH)))))))))))))))), (Npos (XI (XI (XO (XI (XI (XO (XI
    (XO (XI (XI (XI (XI (XO XH))))))))))))))) :: (((Zpos (XI (XO (XO (XO (XI
    (XI (XO (XO (XO (XI (XI (XI (XI (XI (XI XH)))))))))))))))), (Npos (XO (XO
    (XI (XO (XI (XI (XI (XO (XI (XI (XI (XI (XO XH))))))))))))))) :: (((Zpos
    (XO (XI (XO (XO (XI (XI (XO (XO (XO (XI (XI (XI (XI (XI (XI
    XH)))))))))))))))), (Npos (XO (XO (XO (XO (XI (XO (XO (XI (XI (XI (XI (XI
    (XO XH))))))))))))))) :: (((Zpos (XI (XI (XO (XO (XI (XI (XO (XO (XO (XI
    (XI (XI (XI (XI (XI XH)))))))))))))))), (Npos (XO (XI (XI (XI (XI (XO (XO
    (XI (XI (XI (XI (XI (XO XH))))))))))))))) :: (((Zpos (XO (XO (XI (XO (XI
    (XI (XO (XO (XO (XI (XI (XI (XI (XI (XI XH)))))))))))))))), (Npos (XO (XO
    (XO (XO (XI (XI (XO (XI (XI (XI (XI (XI (XO XH))))))))))))))) :: (((Zpos
    (XO (XO (XO (XO (XI (XO (XI (XO (XO (XI (XI (XI (XI (XI (XI
    XH)))))))))))))))), (Npos (XO (XI (XO (XI (XI (XI (XO (XI (XI (XI (XI (XI
    (XO XH))))))))))))))) :: (((Zpos (XI (XO (XO (XO (XI (XO (XI (XO (XO (XI
    (XI (XI (XI (XI (XI XH)))))))))))))))), (Npos (XI (XO (XI (XO (XO (XO (XI
    (XI (XI (XI (XI (XI (XO XH))))))))))))))) :: (((Zpos (XO (XI (XO (XO (XI
    (XO (XI (XO (XO (XI (XI (XI (XI (XI (XI XH)))))))))))))))), (Npos (XO (XO
    (XO (XO (XI (XO (XI (XI (XI (XI (XI (XI (XO XH))))))))))))))) :: (((Zpos
    (XI (XI (XO (XO (XI (XO (XI (XO (XO (XI (XI (XI (XI (XI (XI
    XH)))))))))))))))), (Npos (XO (XO (XO (XO (XO (XI (XI (XI (XI (XI (XI (XI
    (XO XH))))))))))))))) :: (((Zpos (XO (XO (XI (XO (XI (XO (XI (XO (XO (XI
    (XI (XI (XI (XI (XI XH)))))))))))))))), (Npos (XI (XI (XO (XI (XO (XI (XI
    (XI (XI (XI (XI (XI (XO XH))))))))))))))) :: (((Zpos (XI (XO (XI (XO (XI
    (XO (XI (XO (XO (XI (XI (XI (XI (XI (XI XH)))))))))))))))), (Npos (XI (XI
    (XI (XO (XI (XI (XI (XI (XI (XI (XI (XI (XO XH))))))))))))))) :: (((Zpos
    (XO (XI (XI (XO (XI (XO (XI (XO (XO (XI (XI (XI (XI (XI (XI
    XH)))))))))))))))), (Npos (XO (XI (XO (XO (XO (XO (XO (XO (XO (XO (XO (XO
    (XI XH))))))))))))))) :: (((Zpos (XI (XI (XI (XO (XI (XO (XI (XO (XO (XI
    (XI (XI (XI (XI (XI XH)))))))))))))))), (Npos (XO (XO (XO (XO (XI (XO (XO
    (XO (XO (XO (XO (XO (XI XH))))))))))))))) :: (((Zpos (XO (XO (XO (XI (XI
    (XO (XI (XO (XO (XI (XI (XI (XI (XI (XI XH)))))))))))))))), (Npos (XI (XI
    (XI (XI (XI (XO (XO (XO (XO (XO (XO (XO (XI XH))))))))))))))) :: (((Zpos
    (XI (XO (XO (XI (XI (XO (XI (XO (XO (XI (XI (XI (XI (XI (XI
    XH)))))))))))))))), (Npos (XO (XI (XI (XI (XO (XI (XO (XO (XO (XO (XO (XO
    (XI XH))))))))))))))) :: (((Zpos (XO (XI (XO (XI (XI (XO (XI (XO (XO (XI
    (XI (XI (XI (XI (XI XH)))))))))))))))), (Npos (XI (XI (XI (XI (XI (XI (XO
    (XO (XO (XO (XO (XO (XI XH))))))))))))))) :: (((Zpos (XI (XI (XO (XI (XI
    (XO (XI (XO (XO (XI (XI (XI (XI (XI (XI XH)))))))))))))))), (Npos (XO (XI
    (XO (XI (XO (XO (XI (XO (XO (XO (XO (XO (XI XH))))))))))))))) :: (((Zpos
    (XO (XO (XI (XI (XI (XO (XI (XO (XO (XI (XI (XI (XI (XI (XI
    XH)))))))))))))))), (Npos (XI (XI (XI (XO (XI (XO (XI (XO (XO (XO (XO (XO
    (XI XH))))))))))))))) :: (((Zpos (XI (XO (XI (XI (XI (XO (XI (XO (XO (XI
    (XI (XI (XI (XI (XI XH)))))))))))))))), (Npos (XI (XI (XO (XO (XO (XI (XI
    (XO (XO (XO (XO (XO (XI XH))))))))))))))) :: (((Zpos (XO (XI (XI (XI (XI
    (XO (XI (XO (XO (XI (XI (XI (XI (XI (XI XH)))))))))))))))), (Npos (XI (XO
    (XI (XI (XO (XI (XI (XO (XO (XO (XO (XO (XI XH))))))))))))))) :: (((Zpos
    (XI (XI (XI (XI (XI (XO (XI (XO (XO (XI (XI (XI (XI (XI (XI
    XH)))))))))))))))), (Npos (XI (XI (XI (XI (XI (XI (XI (XO (XO (XO (XO (XO
    (XI XH))))))))))))))) :: (((Zpos (XO (XO (XO (XO (XO (XI (XI (XO (XO (XI
    (XI (XI (XI (XI (XI XH)))))))))))))))), (Npos (XI (XO (XI (XO (XI (XO (XO
    (XI (XO (XO (XO (XO (XI XH))))))))))))))) :: (((Zpos (XI (XO (XO (XO (XO
    (XI (XI (XO (XO (XI (XI (XI (XI (XI (XI XH)))))))))))))))), (Npos (XI (XI
    (XO (XO (XO (XI (XO (XI (XO (XO (XO (XO (XI XH))))))))))))))) :: (((Zpos
    (XO (XI (XO (XO (XO (XI (XI (XO (XO (XI (XI (XI (XI (XI (XI
    XH)))))))))))))))), (Npos (XI (XO (XI (XI (XO (XI (XO (XI (XO (XO (XO (XO
    (XI XH))))))))))))))) :: (((Zpos (XO (XO (XO (XO (XI (XI (XI (XO (XO (XI
    (XI (XI (XI (XI (XI XH)))))))))))))))), (Npos (XI (XI (XI (XO (XI (XI (XO
    (XI (XO (XO (XO (XO (XI XH))))))))))))))) :: (((Zpos (XI (XO (XO (XO (XI
    (XI (XI (XO (XO (XI (XI (XI (XI (XI (XI XH)))))))))))))))), (Npos (XO (XI
    (XI (XO (XO (XO (XI (XI (XO (XO (XO (XO (XI XH))))))))))))))) :: (((Zpos
    (XO (XI (XO (XO (XI (XI (XI (XO (XO (XI (XI (XI (XI (XI (XI
    XH)))))))))))))))), (Npos (XO (XI (XI (XI (XI (XO (XI (XI (XO (XO (XO (XO
    (XI XH))))))))))))))) :: (((Zpos (XI (XI (XO (XO (XI (XI (XI (XO (XO (XI
    (XI (XI (XI (XI (XI XH)))))))))))))))), (Npos (XO (XO (XO (XO (XI (XI (XI
    (XI (XO (XO (XO (XO (XI XH))))))))))))))) :: (((Zpos (XO (XO (XI (XO (XI
    (XI (XI (XO (XO (XI (XI (XI (XI (XI (XI XH)))))))))))))))), (Npos (XO (XO
    (XO (XO (XO (XO (XO (XO (XI (XO (XO (XO (XI XH))))))))))))))) :: (((Zpos
    (XI (XO (XI (XO (XI (XI (XI (XO (XO (XI (XI (XI (XI (XI (XI
    XH)))))))))))))))), (Npos (XO (XI (XO (XO (XI (XO (XO (XO (XI (XO (XO (XO
    (XI XH))))))))))))))) :: (((Zpos (XO (XI (XI (XO (XI (XI (XI (XO (XO (XI
    (XI (XI (XI (XI (XI XH)))))))))))))))), (Npos (XO (XO (XI (XO (XO (XI (XO
    (XO (XI (XO (XO (XO (XI XH))))))))))))))) :: (((Zpos (XI (XI (XI (XO (XI
    (XI (XI (XO (XO (XI (XI (XI (XI (XI (XI XH)))))))))))))))), (Npos (XI (XO
    (XI (XO (XI (XI (XO (XO (XI (XO (XO (XO (XI XH))))))))))))))) :: (((Zpos
    (XO (XO (XO (XI (XI (XI (XI (XO (XO (XI (XI (XI (XI (XI (XI
    XH)))))))))))))))), (Npos (XO (XO (XI (XI (XO (XO (XI (XO (XI (XO (XO (XO
    (XI XH))))))))))))))) :: (((Zpos (XI (XO (XO (XI (XI (XI (XI (XO (XO (XI
    (XI (XI (XI (XI (XI XH)))))))))))))))), (Npos (XO (XO (XI (XI (XI (XO (XI
    (XO (XI (XO (XO (XO (XI XH))))))))))))))) :: (((Zpos (XO (XI (XO (XI (XI
    (XI (XI (XO (XO (XI (XI (XI (XI (XI (XI XH)))))))))))))))), (Npos (XO (XO
    (XI (XI (XO (XI (XI (XO (XI (XO (XO (XO (XI XH))))))))))))))) :: (((Zpos
    (XO (XO (XO (XO (XI (XO (XI (XI (XO (XI (XI (XI (XI (XI (XI
    XH)))))))))))))))), (Npos (XI (XI (XI (XI (XI (XI (XI (XO (XI (XO (XO (XO
    (XI XH))))))))))))))) :: (((Zpos (XI (XO (XO (XO (XI (XO (XI (XI (XO (XI
    (XI (XI (XI (XI (XI XH)))))))))))))))), (Npos (XO (XO (XI (XO (XI (XO (XO
    (XI (XI (XO (XO (XO (XI XH))))))))))))))) :: (((Zpos (XO (XI (XO (XO (XI
    (XO (XI (XI (XO (XI (XI (XI (XI (XI (XI XH)))))))))))))))), (Npos (XO (XO
    (XO (XI (XO (XI (XO (XI (XI (XO (XO (XO (XI XH))))))))))))))) :: (((Zpos
    (XO (XO (XI (XO (XI (XO (XI (XI (XO (XI (XI (XI (XI (XI (XI
    XH)))))))))))))))), (Npos (XO (XO (XI (XI (XI (XI (XO (XI (XI (XO (XO (XO
    (XI XH))))))))))))))) :: (((Zpos (XI (XO (XI (XO (XI (XO (XI (XI (XO (XI
    (XI (XI (XI (XI (XI XH)))))))))))))))), (Npos (XO (XO (XO (XO (XI (XO (XI
    (XI (XI (XO (XO (XO (XI XH))))))))))))))) :: (((Zpos (XO (XO (XO (XO (XO
    (XI (XI (XI (XO (XI (XI (XI (XI (XI (XI XH)))))))))))))))), (Npos (XI (XO
    (XO (XO (XO (XI (XI (XI (XI (XO (XO (XO (XI XH))))))))))))))) :: (((Zpos
    (XI (XO (XO (XO (XO (XI (XI (XI (XO (XI (XI (XI (XI (XI (XI
    XH)))))))))))))))), (Npos (XO (XI (XI (XI (XO (XI (XI (XI (XI (XO (XO (XO
    (XI XH))))))))))))))) :: (((Zpos (XO (XI (XO (XO (XO (XI (XI (XI (XO (XI
    (XI (XI (XI (XI (XI XH)))))))))))))))), (Npos (XO (XO (XI (XI (XI (XI (XI
    (XI (XI (XO (XO (XO (XI XH))))))))))))))) :: (((Zpos (XI (XI (XO (XO (XO
    (XI (XI (XI (XO (XI (XI (XI (XI (XI (XI XH)))))))))))))))), (Npos (XI (XI
    (XI (XO (XO (XO (XO (XO (XO (XI (XO (XO (XI XH))))))))))))))) :: (((Zpos
    (XO (XO (XI (XO (XO (XI (XI (XI (XO (XI (XI (XI (XI (XI (XI
    XH)))))))))))))))), (Npos (XO (XO (XI (XO (XI (XO (XO (XO (XO (XI (XO (XO
    (XI XH))))))))))))))) :: (((Zpos (XI (XO (XI (XO (XO (XI (XI (XI (XO (XI
    (XI (XI (XI (XI (XI XH)))))))))))))))), (Npos (XI (XI (XO (XO (XO (XI (XO
    (XO (XO (XI (XO (XO (XI XH))))))))))))))) :: (((Zpos (XO (XI (XI (XO (XO
    (XI (XI (XI (XO (XI (XI (XI (XI (XI (XI XH)))))))))))))))), (Npos (XI (XI
    (XO (XO (XI (XI (XO (XO (XO (XI (XO (XO (XI XH))))))))))))))) :: (((Zpos
    (XI (XI (XI (XO (XO (XI (XI (XI (XO (XI (XI (XI (XI (XI (XI
    XH)))))))))))))))), (Npos (XO (XO (XI (XO (XO (XO (XI (XO (XO (XI (XO (XO
    (XI XH))))))))))))))) :: (((Zpos (XO (XO (XO (XI (XO (XI (XI (XI (XO (XI
    (XI (XI (XI (XI (XI XH)))))))))))))))), (Npos (XO (XI (XI (XO (XI (XO (XI
    (XO (XO (XI (XO (XO (XI XH))))))))))))))) :: (((Zpos (XI (XO (XO (XI (XO
    (XI (XI (XI (XO (XI (XI (XI (XI (XI (XI XH)))))))))))))))), (Npos (XO (XI
    (XO (XI (XO (XI (XI (XO (XO (XI (XO (XO (XI XH))))))))))))))) :: (((Zpos
    (XO (XI (XO (XI (XO (XI (XI (XI (XO (XI (XI (XI (XI (XI (XI
    XH)))))))))))))))), (Npos (XO (XI (XO (XI (XI (XI (XI (XO (XO (XI (XO (XO
    (XI XH))))))))))))))) :: (((Zpos (XI (XI (XO (XI (XO (XI (XI (XI (XO (XI
    (XI (XI (XI (XI (XI XH)))))))))))))))), (Npos (XO (XI (XO (XI (XO (XO (XO
    (XI (XO (XI (XO (XO (XI XH))))))))))))))) :: (((Zpos (XO (XO (XI (XI (XO
    (XI (XI (XI (XO (XI (XI (XI (XI (XI (XI XH)))))))))))))))), (Npos (XO (XI
    (XO (XI (XI (XO (XO (XI (XO (XI (XO (XO (XI XH))))))))))))))) :: (((Zpos
    (XI (XO (XI (XI (XO (XI (XI (XI (XO (XI (XI (XI (XI (XI (XI
    XH)))))))))))))))), (Npos (XO (XI (XO (XI (XO (XI (XO (XI (XO (XI (XO (XO
    (XI XH))))))))))))))) :: (((Zpos (XO (XI (XI (XI (XO (XI (XI (XI (XO (XI
    (XI (XI (XI (XI (XI XH)))))))))))))))), (Npos (XO (XI (XO (XI (XI (XI (XO
    (XI (XO (XI (XO (XO (XI XH))))))))))))))) :: (((Zpos (XI (XI (XI (XI (XO
    (XI (XI (XI (XO (XI (XI (XI (XI (XI (XI XH)))))))))))))))), (Npos (XO (XO
    (XO (XO (XI (XO (XI (XI (XO (XI (XO (XO (XI XH))))))))))))))) :: (((Zpos
    (XO (XO (XO (XO (XI (XI (XI (XI (XO (XI (XI (XI (XI (XI (XI
    XH)))))))))))))))), (Npos (XO (XI (XO (XO (XO (XI (XI (XI (XO (XI (XO (XO
    (XI XH))))))))))))))) :: (((Zpos (XI (XO (XO (XO (XI (XI (XI (XI (XO (XI
    (XI (XI (XI (XI (XI XH)))))))))))))))), (Npos (XO (XO (XI (XO (XI (XI (XI
    (XI (XO (XI (XO (XO (XI XH))))))))))))))) :: (((Zpos (XO (XI (XO (XO (XI
    (XI (XI (XI (XO (XI (XI (XI (XI (XI (XI XH)))))))))))))))), (Npos (XO (XI
    (XI (XO (XO (XO (XO (XO (XI (XI (XO (XO (XI XH))))))))))))))) :: (((Zpos
    (XI (XI (XO (XO (XI (XI (XI (XI (XO (XI (XI (XI (XI (XI (XI
    XH)))))))))))))))), (Npos (XO (XO (XO (XI (XI (XO (XO (XO (XI (XI (XO (XO
    (XI XH))))))))))))))) :: (((Zpos (XO (XO (XI (XO (XI (XI (XI (XI (XO (XI
    (XI (XI (XI (XI (XI XH)))))))))))))))), (Npos (XO (XI (XO (XI (XO (XI (XO
    (XO (XI (XI (XO (XO (XI XH))))))))))))))) :: (((Zpos (XI (XO (XI (XO (XI
    (XI (XI (XI (XO (XI (XI (XI (XI (XI (XI XH)))))))))))))))), (Npos (XO (XO
    (XI (XI (XI (XI (XO (XO (XI (XI (XO (XO (XI XH))))))))))))))) :: (((Zpos
    (XO (XI (XI (XO (XI (XI (XI (XI (XO (XI (XI (XI (XI (XI (XI
    XH)))))))))))))))), (Npos (XO (XI (XO (XI (XO (XO (XI (XO (XI (XI (XO (XO
    (XI XH))))))))))))))) :: (((Zpos (XI (XI (XI (XO (XI (XI (XI (XI (XO (XI
    (XI (XI (XI (XI (XI XH)))))))))))))))), (Npos (XO (XO (XO (XI (XI (XO (XI
    (XO (XI (XI (XO (XO (XI XH))))))))))))))) :: (((Zpos (XO (XO (XO (XI (XI
    (XI (XI (XI (XO (XI (XI (XI (XI (XI (XI XH)))))))))))))))), (Npos (XO (XI
    (XI (XO (XO (XI (XI (XO (XI (XI (XO (XO (XI XH))))))))))))))) :: (((Zpos
    (XI (XO (XO (XI (XI (XI (XI (XI (XO (XI (XI (XI (XI (XI (XI
    XH)))))))))))))))), (Npos (XO (XO (XI (XO (XI (XI (XI (XO (XI (XI (XO (XO
    (XI XH))))))))))))))) :: (((Zpos (XO (XI (XO (XI (XI (XI (XI (XI (XO (XI
    (XI (XI (XI (XI (XI XH)))))))))))))))), (Npos (XI (XI (XI (XO (XO (XO (XO
    (XI (XI (XI (XO (XO (XI XH))))))))))))))) :: (((Zpos (XI (XI (XO (XI (XI
    (XI (XI (XI (XO (XI (XI (XI (XI (XI (XI XH)))))))))))))))), (Npos (XO (XI
    (XO (XI (XI (XO (XO (XI (XI (XI (XO (XO (XI XH))))))))))))))) :: (((Zpos
    (XO (XO (XI (XI (XI (XI (XI (XI (XO (XI (XI (XI (XI (XI (XI
    XH)))))))))))))))), (Npos (XO (XI (XI (XI (XO (XI (XO (XI (XI (XI (XO (XO
    (XI XH))))))))))))))) :: (((Zpos (XI (XO (XI (XI (XI (XI (XI (XI (XO (XI
    (XI (XI (XI (XI (XI XH)))))))))))))))), (Npos (XO (XI (XO (XO (XO (XO (XI
    (XI (XI (XI (XO (XO (XI XH))))))))))))))) :: (((Zpos (XO (XO (XO (XI (XO
    (XO (XO (XO (XI (XI (XI (XI (XI (XI (XI XH)))))))))))))))), (Npos (XO (XO
    (XO (XO (XI (XO (XI (XI (XI (XI (XO (XO (XI XH))))))))))))))) :: (((Zpos
    (XI (XO (XO (XI (XO (XO (XO (XO (XI (XI (XI (XI (XI (XI (XI
    XH)))))))))))))))), (Npos (XO (XI (XO (XI (XI (XO (XI (XI (XI (XI (XO (XO
    (XI XH))))))))))))))) :: (((Zpos (XO (XI (XO (XI (XO (XO (XO (XO (XI (XI
    (XI (XI (XI (XI (XI XH)))))))))))))))), (Npos (XO (XI (XI (XI (XI (XO (XI
    (XI (XI (XI (XO (XO (XI XH))))))))))))))) :: (((Zpos (XI (XI (XO (XI (XO
    (XO (XO (XO (XI (XI (XI (XI (XI (XI (XI XH)))))))))))))))), (Npos (XI (XI
    (XI (XO (XO (XI (XI (XI (XI (XI (XO (XO (XI XH))))))))))))))) :: (((Zpos
    (XI (XO (XI (XI (XO (XO (XO (XO (XI (XI (XI (XI (XI (XI (XI
    XH)))))))))))))))), (Npos (XI (XO (XI (XI (XO (XI (XI (XI (XI (XI (XO (XO
    (XI XH))))))))))))))) :: (((Zpos (XI (XI (XO (XO (XI (XO (XO (XO (XI (XI
    (XI (XI (XI (XI (XI XH)))))))))))))))), (Npos (XO (XO (XI (XO (XI (XI (XI
    (XI (XI (XI (XO (XO (XI XH))))))))))))))) :: (((Zpos (XO (XO (XI (XO (XI
    (XO (XO (XO (XI (XI (XI (XI (XI (XI (XI XH)))))))))))))))), (Npos (XO (XI
    (XO (XI (XI (XI (XI (XI (XI (XI (XO (XO (XI XH))))))))))))))) :: (((Zpos
    (XI (XO (XI (XO (XI (XO (XO (XO (XI (XI (XI (XI (XI (XI (XI
    XH)))))))))))))))), (Npos (XO (XI (XI (XO (XO (XO (XO (XO (XO (XO (XI (XO
    (XI XH))))))))))))))) :: (((Zpos (XI (XI (XO (XI (XI (XO (XO (XO (XI (XI
    (XI (XI (XI (XI (XI XH)))))))))))))))), (Npos (XO (XI (XI (XI (XO (XO (XO
    (XO (XO (XO (XI (XO (XI XH))))))))))))))) :: (((Zpos (XO (XO (XO (XO (XO
    (XI (XO (XO (XI (XI (XI (XI (XI (XI (XI XH)))))))))))))))), (Npos (XI (XO
    (XI (XO (XI (XO (XO (XO (XO (XO (XI (XO (XI XH))))))))))))))) :: (((Zpos
    (XI (XO (XO (XO (XO (XI (XO (XO (XI (XI (XI (XI (XI (XI (XI
    XH)))))))))))))))), (Npos (XI (XI (XI (XI (XI (XO (XO (XO (XO (XO (XI (XO
    (XI XH))))))))))))))) :: (((Zpos (XO (XI (XO (XO (XO (XI (XO (XO (XI (XI
    (XI (XI (XI (XI (XI XH)))))))))))))))), (Npos (XI (XO (XI (XO (XO (XI (XO
    (XO (XO (XO (XI (XO (XI XH))))))))))))))) :: (((Zpos (XI (XI (XO (XO (XO
    (XI (XO (XO (XI (XI (XI (XI (XI (XI (XI XH)))))))))))))))), (Npos (XO (XI
    (XI (XI (XO (XI (XO (XO (XO (XO (XI (XO (XI XH))))))))))))))) :: (((Zpos
    (XI (XI (XO (XO (XO (XI (XO (XO (XI (XI (XI (XI (XI (XI (XI
    XH)))))))))))))))), (Npos (XI (XO (XI (XO (XI (XI (XO (XO (XO (XO (XI (XO
    (XI XH))))))))))))))) :: (((Zpos (XO (XO (XI (XO (XO (XI (XO (XO (XI (XI
    (XI (XI (XI (XI (XI XH)))))))))))))))), (Npos (XI (XO (XO (XO (XO (XO (XI
    (XO (XO (XO (XI (XO (XI XH))))))))))))))) :: (((Zpos (XI (XO (XI (XO (XO
    (XI (XO (XO (XI (XI (XI (XI (XI (XI (XI XH)))))))))))))))), (Npos (XO (XO
    (XO (XI (XO (XO (XI (XO (XO (XO (XI (XO (XI XH))))))))))))))) :: (((Zpos
    (XO (XI (XI (XO (XO (XI (XO (XO (XI (XI (XI (XI (XI (XI (XI
    XH)))))))))))))))), (Npos (XI (XO (XO (XO (XI (XO (XI (XO (XO (XO (XI (XO
    (XI XH))))))))))))))) :: (((Zpos (XI (XI (XI (XO (XO (XI (XO (XO (XI (XI
    (XI (XI (XI (XI (XI XH)))))))))))))))), (Npos (XO (XI (XO (XI (XI (XO (XI
    (XO (XO (XO (XI (XO (XI XH))))))))))))))) :: (((Zpos (XO (XO (XO (XI (XO
    (XI (XO (XO (XI (XI (XI (XI (XI (XI (XI XH)))))))))))))))), (Npos (XO (XO
    (XI (XI (XO (XI (XI (XO (XO (XO (XI (XO (XI XH))))))))))))))) :: (((Zpos
    (XI (XO (XO (XI (XO (XI (XO (XO (XI (XI (XI (XI (XI (XI (XI
    XH)))))))))))))))), (Npos (XO (XO (XI (XO (XI (XI (XI (XO (XO (XO (XI (XO
    (XI XH))))))))))))))) :: (((Zpos (XO (XI (XO (XI (XO (XI (XO (XO (XI (XI
    (XI (XI (XI (XI (XI XH)))))))))))))))), (Npos (XO (XO (XI (XI (XI (XI (XI
    (XO (XO (XO (XI (XO (XI XH))))))))))))))) :: (((Zpos (XI (XI (XO (XI (XO
    (XI (XO (XO (XI (XI (XI (XI (XI (XI (XI XH)))))))))))))))), (Npos (XO (XO
    (XI (XI (XO (XO (XO (XI (XO (XO (XI (XO (XI XH))))))))))))))) :: (((Zpos
    (XO (XO (XI (XI (XO (XI (XO (XO (XI (XI (XI (XI (XI (XI (XI
    XH)))))))))))))))), (Npos (XO (XO (XI (XO (XI (XO (XO (XI (XO (XO (XI (XO
    (XI XH))))))))))))))) :: (((Zpos (XI (XO (XI (XI (XO (XI (XO (XO (XI (XI
    (XI (XI (XI (XI (XI XH)))))))))))))))), (Npos (XI (XI (XO (XI (XI (XO (XO
    (XI (XO (XO (XI (XO (XI XH))))))))))))))) :: (((Zpos (XO (XI (XI (XI (XO
    (XI (XO (XO (XI (XI (XI (XI (XI (XI (XI XH)))))))))))))))), (Npos (XI (XO
    (XI (XO (XO (XI (XO (XI (XO (XO (XI (XO (XI XH))))))))))))))) :: (((Zpos
    (XI (XI (XI (XI (XO (XI (XO (XO (XI (XI (XI (XI (XI (XI (XI
    XH)))))))))))))))), (Npos (XO (XO (XO (XO (XI (XI (XO (XI (XO (XO (XI (XO
    (XI XH))))))))))))))) :: (((Zpos (XO (XO (XO (XO (XI (XI (XO (XO (XI (XI
    (XI (XI (XI (XI (XI XH)))))))))))))))), (Npos (XI (XI (XO (XI (XI (XI (XO
    (XI (XO (XO (XI (XO (XI XH))))))))))))))) :: (((Zpos (XI (XO (XO (XO (XI
    (XI (XO (XO (XI (XI (XI (XI (XI (XI (XI XH)))))))))))))))), (Npos (XI (XI
    (XI (XO (XO (XO (XI (XI (XO (XO (XI (XO (XI XH))))))))))))))) :: (((Zpos
    (XO (XI (XO (XO (XI (XI (XO (XO (XI (XI (XI (XI (XI (XI (XI
    XH)))))))))))))))), (Npos (XO (XI (XI (XI (XO (XO (XI (XI (XO (XO (XI (XO
    (XI XH))))))))))))))) :: (((Zpos (XI (XI (XO (XO (XI (XI (XO (XO (XI (XI
    (XI (XI (XI (XI (XI XH)))))))))))))))), (Npos (XI (XI (XO (XI (XI (XO (XI
    (XI (XO (XO (XI (XO (XI XH))))))))))))))) :: (((Zpos (XO (XO (XI (XO (XI
    (XI (XO (XO (XI (XI (XI (XI (XI (XI (XI XH)))))))))))))))), (Npos (XO (XI
    (XI (XO (XO (XI (XI (XI (XO (XO (XI (XO (XI XH))))))))))))))) :: (((Zpos
    (XI (XO (XI (XO (XI (XI (XO (XO (XI (XI (XI (XI (XI (XI (XI
    XH)))))))))))))))), (Npos (XI (XI (XO (XO (XI (XI (XI (XI (XO (XO (XI (XO
    (XI XH))))))))))))))) :: (((Zpos (XO (XI (XI (XO (XI (XI (XO (XO (XI (XI
    (XI (XI (XI (XI (XI XH)))))))))))))))), (Npos (XI (XI (XI (XI (XI (XI (XI
    (XI (XO (XO (XI (XO (XI XH))))))))))))))) :: (((Zpos (XI (XI (XI (XO (XI
    (XI (XO (XO (XI (XI (XI (XI (XI (XI (XI XH)))))))))))))))), (Npos (XI (XO
    (XI (XI (XO (XO (XO (XO (XI (XO (XI (XO (XI XH))))))))))))))) :: (((Zpos
    (XO (XO (XO (XI (XI (XI (XO (XO (XI (XI (XI (XI (XI (XI (XI
    XH)))))))))))))))), (Npos (XI (XI (XI (XO (XI (XO (XO (XO (XI (XO (XI (XO
    (XI XH))))))))))))))) :: (((Zpos (XI (XO (XO (XI (XI (XI (XO (XO (XI (XI
    (XI (XI (XI (XI (XI XH)))))))))))))))), (Npos (XI (XO (XI (XO (XO (XI (XO
    (XO (XI (XO (XI (XO (XI XH))))))))))))))) :: (((Zpos (XO (XI (XO (XI (XI
    (XI (XO (XO (XI (XI (XI (XI (XI (XI (XI XH)))))))))))))))), (Npos (XO (XI
    (XO (XO (XI (XI (XO (XO (XI (XO (XI (XO (XI XH))))))))))))))) :: (((Zpos
    (XI (XI (XO (XI (XI (XI (XO (XO (XI (XI (XI (XI (XI (XI (XI
    XH)))))))))))))))), (Npos (XO (XI (XO (XO (XO (XO (XI (XO (XI (XO (XI (XO
    (XI XH))))))))))))))) :: (((Zpos (XO (XO (XI (XI (XI (XI (XO (XO (XI (XI
    (XI (XI (XI (XI (XI XH)))))))))))))))), (Npos (XI (XI (XO (XO (XI (XO (XI
    (XO (XI (XO (XI (XO (XI XH))))))))))))))) :: (((Zpos (XI (XO (XI (XI (XI
    (XI (XO (XO (XI (XI (XI (XI (XI (XI (XI XH)))))))))))))))), (Npos (XI (XI
    (XO (XO (XO (XI (XI (XO (XI (XO (XI (XO (XI XH))))))))))))))) :: (((Zpos
    (XO (XI (XI (XI (XI (XI (XO (XO (XI (XI (XI (XI (XI (XI (XI
    XH)))))))))))))))), (Npos (XI (XO (XI (XO (XI (XI (XI (XO (XI (XO (XI (XO
    (XI XH))))))))))))))) :: (((Zpos (XI (XI (XI (XI (XI (XI (XO (XO (XI (XI
    (XI (XI (XI (XI (XI XH)))))))))))))))), (Npos (XI (XI (XI (XO (XO (XO (XO
    (XI (XI (XO (XI (XO (XI XH))))))))))))))) :: (((Zpos (XO (XO (XO (XO (XI
    (XO (XI (XO (XI (XI (XI (XI (XI (XI (XI XH)))))))))))))))), (Npos (XO (XI
    (XI (XO (XI (XO (XO (XI (XI (XO (XI (XO (XI XH))))))))))))))) :: (((Zpos
    (XI (XO (XO (XO (XI (XO (XI (XO (XI (XI (XI (XI (XI (XI (XI
    XH)))))))))))))))), (Npos (XI (XI (XO (XI (XI (XO (XO (XI (XI (XO (XI (XO
    (XI XH))))))))))))))) :: (((Zpos (XO (XI (XO (XO (XI (XO (XI (XO (XI (XI
    (XI (XI (XI (XI (XI XH)))))))))))))))), (Npos (XO (XO (XO (XO (XO (XI (XO
    (XI (XI (XO (XI (XO (XI XH))))))))))))))) :: (((Zpos (XI (XI (XO (XO (XI
    (XO (XI (XO (XI (XI (XI (XI (XI (XI (XI XH)))))))))))))))), (Npos (XI (XI
    (XO (XO (XO (XI (XO (XI (XI (XO (XI (XO (XI XH))))))))))))))) :: (((Zpos
    (XO (XO (XI (XO (XI (XO (XI (XO (XI (XI (XI (XI (XI (XI (XI
    XH)))))))))))))))), (Npos (XI (XO (XO (XI (XO (XI (XO (XI (XI (XO (XI (XO
    (XI XH))))))))))))))) :: (((Zpos (XI (XO (XI (XO (XI (XO (XI (XO (XI (XI
    (XI (XI (XI (XI (XI XH)))))))))))))))), (Npos (XO (XI (XI (XI (XO (XI (XO
    (XI (XI (XO (XI (XO (XI XH))))))))))))))) :: (((Zpos (XI (XO (XI (XO (XI
    (XO (XI (XO (XI (XI (XI (XI (XI (XI (XI XH)))))))))))))))), (Npos (XO (XI
    (XI (XO (XI (XI (XO (XI (XI (XO (XI (XO (XI XH))))))))))))))) :: (((Zpos
    (XO (XI (XI (XO (XI (XO (XI (XO (XI (XI (XI (XI (XI (XI (XI
    XH)))))))))))))))), (Npos (XO (XO (XI (XI (XI (XI (XO (XI (XI (XO (XI (XO
    (XI XH))))))))))))))) :: (((Zpos (XO (XI (XI (XO (XI (XO (XI (XO (XI (XI
    (XI (XI (XI (XI (XI XH)))))))))))))))), (Npos (XO (XI (XI (XO (XO (XO (XI
    (XI (XI (XO (XI (XO (XI XH))))))))))))))) :: (((Zpos (XI (XI (XI (XO (XI
    (XO (XI (XO (XI (XI (XI (XI (XI (XI (XI XH)))))))))))))))), (Npos (XI (XI
    (XO (XI (XO (XO (XI (XI (XI (XO (XI (XO (XI XH))))))))))))))) :: (((Zpos
    (XO (XO (XO (XI (XI (XO (XI (XO (XI (XI (XI (XI (XI (XI (XI
    XH)))))))))))))))), (Npos (XI (XI (XI (XI (XO (XO (XI (XI (XI (XO (XI (XO
    (XI XH))))))))))))))) :: (((Zpos (XO (XO (XO (XO (XO (XI (XI (XO (XI (XI
    (XI (XI (XI (XI (XI XH)))))))))))))))), (Npos (XI (XO (XI (XO (XI (XO (XI
    (XI (XI (XO (XI (XO (XI XH))))))))))))))) :: (((Zpos (XI (XO (XO (XO (XO
    (XI (XI (XO (XI (XI (XI (XI (XI (XI (XI XH)))))))))))))))), (Npos (XO (XO
    (XI (XI (XI (XO (XI (XI (XI (XO (XI (XO (XI XH))))))))))))))) :: (((Zpos
    (XO (XI (XO (XO (XO (XI (XI (XO (XI (XI (XI (XI (XI (XI (XI
    XH)))))))))))))))), (Npos (XO (XI (XO (XO (XO (XI (XI (XI (XI (XO (XI (XO
    (XI XH))))))))))))))) :: (((Zpos (XI (XI (XO (XO (XO (XI (XI (XO (XI (XI
    (XI (XI (XI (XI (XI XH)))))))))))))))), (Npos (XO (XI (XO (XI (XO (XI (XI
    (XI (XI (XO (XI (XO (XI XH))))))))))))))) :: (((Zpos (XI (XO (XI (XO (XO
    (XI (XI (XO (XI (XI (XI (XI (XI (XI (XI XH)))))))))))))))), (Npos (XI (XO
    (XO (XO (XI (XI (XI (XI (XI (XO (XI (XO (XI XH))))))))))))))) :: (((Zpos
    (XO (XI (XI (XO (XO (XI (XI (XO (XI (XI (XI (XI (XI (XI (XI
    XH)))))))))))))))), (Npos (XO (XI (XI (XO (XI (XI (XI (XI (XI (XO (XI (XO
    (XI XH))))))))))))))) :: (((Zpos (XI (XI (XI (XO (XO (XI (XI (XO (XI (XI
    (XI (XI (XI (XI (XI XH)))))))))))))))), (Npos (XI (XI (XO (XI (XI (XI (XI
    (XI (XI (XO (XI (XO (XI XH))))))))))))))) :: (((Zpos (XO (XO (XO (XI (XO
    (XI (XI (XO (XI (XI (XI (XI (XI (XI (XI XH)))))))))))))))), (Npos (XO (XO
    (XO (XO (XO (XO (XO (XO (XO (XI (XI (XO (XI XH))))))))))))))) :: (((Zpos
    (XI (XO (XO (XI (XO (XI (XI (XO (XI (XI (XI (XI (XI (XI (XI
    XH)))))))))))))))), (Npos (XI (XO (XI (XO (XO (XO (XO (XO (XO (XI (XI (XO
    (XI XH))))))))))))))) :: (((Zpos (XO (XI (XO (XI (XO (XI (XI (XO (XI (XI
    (XI (XI (XI (XI (XI XH)))))))))))))))), (Npos (XO (XO (XI (XI (XO (XO (XO
    (XO (XO (XI (XI (XO (XI XH))))))))))))))) :: (((Zpos (XI (XI (XO (XI (XO
    (XI (XI (XO (XI (XI (XI (XI (XI (XI (XI XH)))))))))))))))), (Npos (XI (XO
    (XO (XO (XI (XO (XO (XO (XO (XI (XI (XO (XI XH))))))))))))))) :: (((Zpos
    (XO (XI (XI (XI (XI (XI (XI (XO (XI (XI (XI (XI (XI (XI (XI
    XH)))))))))))))))), (Npos (XI (XI (XI (XO (XI (XO (XO (XO (XO (XI (XI (XO
    (XI XH))))))))))))))) :: (((Zpos (XO (XI (XI (XI (XI (XI (XI (XO (XI (XI
    (XI (XI (XI (XI (XI XH)))))))))))))))), (Npos (XI (XO (XI (XO (XO (XI (XO
    (XO (XO (XI (XI (XO (XI XH))))))))))))))) :: (((Zpos (XO (XI (XI (XI (XI
    (XI (XI (XO (XI (XI (XI (XI (XI (XI (XI XH)))))))))))))))), (Npos (XO (XI
    (XO (XO (XI (XI (XO (XO (XO (XI (XI (XO (XI XH))))))))))))))) :: (((Zpos
    (XO (XI (XI (XI (XI (XI (XI (XO (XI (XI (XI (XI (XI (XI (XI
    XH)))))))))))))))), (Npos (XO (XO (XO (XO (XO (XO (XI (XO (XO (XI (XI (XO
    (XI XH))))))))))))))) :: (((Zpos (XO (XI (XI (XI (XI (XI (XI (XO (XI (XI
    (XI (XI (XI (XI (XI XH)))))))))))))))), (Npos (XO (XI (XI (XI (XO (XO (XI
    (XO (XO (XI (XI (XO (XI XH))))))))))))))) :: (((Zpos (XO (XI (XI (XI (XI
    (XI (XI (XO (XI (XI (XI (XI (XI (XI (XI XH)))))))))))))))), (Npos (XO (XI
    (XI (XI (XI (XO (XI (XO (XO (XI (XI (XO (XI XH))))))))))))))) :: (((Zpos
    (XO (XI (XI (XI (XI (XI (XI (XO (XI (XI (XI (XI (XI (XI (XI
    XH)))))))))))))))), (Npos (XO (XI (XO (XI (XO (XI (XI (XO (XO (XI (XI (XO
    (XI XH))))))))))))))) :: (((Zpos (XO (XI (XI (XI (XI (XI (XI (XO (XI (XI
    (XI (XI (XI (XI (XI XH)))))))))))))))), (Npos (XO (XI (XI (XO (XI (XI (XI
    (XO (XO (XI (XI (XO (XI XH))))))))))))))) :: (((Zpos (XI (XI (XI (XI (XI
    (XI (XI (XO (XI (XI (XI (XI (XI (XI (XI XH)))))))))))))))), (Npos (XO (XO
    (XI (XO (XO (XO (XO (XI (XO (XI (XI (XO (XI XH))))))))))))))) :: (((Zpos
    (XO (XO (XO (XO (XO (XO (XO (XI (XI (XI (XI (XI (XI (XI (XI
    XH)))))))))))))))), (Npos (XI (XO (XI (XI (XO (XO (XO (XI (XO (XI (XI (XO
    (XI XH))))))))))))))) :: (((Zpos (XI (XO (XO (XI (XO (XO (XO (XI (XI (XI
    (XI (XI (XI (XI (XI XH)))))))))))))))), (Npos (XO (XI (XI (XO (XI (XO (XO
    (XI (XO (XI (XI (XO (XI XH))))))))))))))) :: (((Zpos (XI (XO (XI (XI (XO
    (XO (XO (XI (XI (XI (XI (XI (XI (XI (XI XH)))))))))))))))), (Npos (XI (XO
    (XI (XI (XI (XO (XO (XI (XO (XI (XI (XO (XI XH))))))))))))))) :: (((Zpos
    (XI (XO (XO (XO (XI (XO (XO (XI (XI (XI (XI (XI (XI (XI (XI
    XH)))))))))))))))), (Npos (XO (XI (XI (XO (XO (XI (XO (XI (XO (XI (XI (XO
    (XI XH))))))))))))))) :: (((Zpos (XO (XI (XO (XO (XI (XO (XO (XI (XI (XI
    (XI (XI (XI (XI (XI XH)))))))))))))))), (Npos (XO (XO (XI (XI (XO (XI (XO
    (XI (XO (XI (XI (XO (XI XH))))))))))))))) :: (((Zpos (XI (XI (XO (XO (XI
    (XO (XO (XI (XI (XI (XI (XI (XI (XI (XI XH)))))))))))))))), (Npos (XO (XI
    (XO (XO (XI (XI (XO (XI (XO (XI (XI (XO (XI XH))))))))))))))) :: (((Zpos
    (XO (XO (XI (XO (XI (XO (XO (XI (XI (XI (XI (XI (XI (XI (XI
    XH)))))))))))))))), (Npos (XO (XO (XO (XI (XI (XI (XO (XI (XO (XI (XI (XO
    (XI XH))))))))))))))) :: (((Zpos (XI (XO (XI (XO (XI (XO (XO (XI (XI (XI
    (XI (XI (XI (XI (XI XH)))))))))))))))), (Npos (XO (XI (XI (XI (XI (XI (XO
    (XI (XO (XI (XI (XO (XI XH))))))))))))))) :: (((Zpos (XO (XI (XI (XO (XI
    (XO (XO (XI (XI (XI (XI (XI (XI (XI (XI XH)))))))))))))))), (Npos (XO (XI
    (XI (XO (XO (XO (XI (XI (XO (XI (XI (XO (XI XH))))))))))))))) :: (((Zpos
    (XI (XI (XI (XO (XI (XO (XO (XI (XI (XI (XI (XI (XI (XI (XI
    XH)))))))))))))))), (Npos (XO (XI (XI (XI (XO (XO (XI (XI (XO (XI (XI (XO
    (XI XH))))))))))))))) :: (((Zpos (XO (XO (XO (XI (XI (XO (XO (XI (XI (XI
    (XI (XI (XI (XI (XI XH)))))))))))))))), (Npos (XO (XO (XI (XO (XI (XO (XI
    (XI (XO (XI (XI (XO (XI XH))))))))))))))) :: (((Zpos (XI (XO (XO (XI (XI
    (XO (XO (XI (XI (XI (XI (XI (XI (XI (XI XH)))))))))))))))), (Npos (XI (XO
    (XI (XI (XI (XO (XI (XI (XO (XI (XI (XO (XI XH))))))))))))))) :: (((Zpos
    (XO (XI (XO (XI (XI (XO (XO (XI (XI (XI (XI (XI (XI (XI (XI
    XH)))))))))))))))), (Npos (XI (XO (XI (XO (XO (XI (XI (XI (XO (XI (XI (XO
    (XI XH))))))))))))))) :: (((Zpos (XO (XI (XO (XI (XI (XO (XO (XI (XI (XI
    (XI (XI (XI (XI (XI XH)))))))))))))))), (Npos (XO (XO (XO (XO (XI (XI (XI
    (XI (XO (XI (XI (XO (XI XH))))))))))))))) :: (((Zpos (XI (XI (XO (XI (XI
    (XO (XO (XI (XI (XI (XI (XI (XI (XI (XI XH)))))))))))))))), (Npos (XI (XO
    (XO (XI (XI (XI (XI (XI (XO (XI (XI (XO (XI XH))))))))))))))) :: (((Zpos
    (XI (XI (XO (XI (XI (XO (XO (XI (XI (XI (XI (XI (XI (XI (XI
    XH)))))))))))))))), (Npos (XO (XI (XI (XO (XO (XO (XO (XO (XI (XI (XI (XO
    (XI XH))))))))))))))) :: (((Zpos (XO (XO (XI (XI (XI (XO (XO (XI (XI (XI
    (XI (XI (XI (XI (XI XH)))))))))))))))), (Npos (XO (XI (XI (XI (XO (XO (XO
    (XO (XI (XI (XI (XO (XI XH))))))))))))))) :: (((Zpos (XI (XO (XI (XI (XI
    (XO (XO (XI (XI (XI (XI (XI (XI (XI (XI XH)))))))))))))))), (Npos (XI (XO
    (XI (XO (XI (XO (XO (XO (XI (XI (XI (XO (XI XH))))))))))))))) :: (((Zpos
    (XO (XI (XI (XI (XI (XO (XO (XI (XI (XI (XI (XI (XI (XI (XI
    XH)))))))))))))))), (Npos (XO (XI (XI (XI (XI (XO (XO (XO (XI (XI (XI (XO
    (XI XH))))))))))))))) :: (((Zpos (XI (XI (XI (XI (XI (XO (XO (XI (XI (XI
    (XI (XI (XI (XI (XI XH)))))))))))))))), (Npos (XO (XO (XO (XI (XO (XI (XO
    (XO (XI (XI (XI (XO (XI XH))))))))))))))) :: (((Zpos (XO (XI (XO (XI (XO
    (XI (XO (XI (XI (XI (XI (XI (XI (XI (XI XH)))))))))))))))), (Npos (XO (XI
    (XO (XO (XI (XI (XO (XO (XI (XI (XI (XO (XI XH))))))))))))))) :: (((Zpos
    (XI (XI (XO (XI (XO (XI (XO (XI (XI (XI (XI (XI (XI (XI (XI
    XH)))))))))))))))), (Npos (XO (XI (XI (XI (XI (XI (XO (XO (XI (XI (XI (XO
    (XI XH))))))))))))))) :: (((Zpos (XO (XO (XI (XI (XO (XI (XO (XI (XI (XI
    (XI (XI (XI (XI (XI XH)))))))))))))))), (Npos (XI (XO (XI (XO (XO (XO (XI
    (XO (XI (XI (XI (XO (XI XH))))))))))))))) :: (((Zpos (XI (XO (XI (XI (XO
    (XI (XO (XI (XI (XI (XI (XI (XI (XI (XI XH)))))))))))))))), (Npos (XO (XI
    (XO (XO (XI (XO (XI (XO (XI (XI (XI (XO (XI XH))))))))))))))) :: (((Zpos
    (XO (XI (XI (XI (XO (XI (XO (XI (XI (XI (XI (XI (XI (XI (XI
    XH)))))))))))))))), (Npos (XO (XI (XI (XI (XI (XO (XI (XO (XI (XI (XI (XO
    (XI XH))))))))))))))) :: (((Zpos (XI (XI (XI (XI (XO (XI (XO (XI (XI (XI
    (XI (XI (XI (XI (XI XH)))))))))))))))), (Npos (XI (XO (XO (XI (XO (XI (XI
    (XO (XI (XI (XI (XO (XI XH))))))))))))))) :: (((Zpos (XO (XO (XO (XO (XI
    (XI (XO (XI (XI (XI (XI (XI (XI (XI (XI XH)))))))))))))))), (Npos (XI (XI
    (XO (XO (XI (XI (XI (XO (XI (XI (XI (XO (XI XH))))))))))))))) :: (((Zpos
    (XI (XO (XO (XO (XI (XI (XO (XI (XI (XI (XI (XI (XI (XI (XI
    XH)))))))))))))))), (Npos (XO (XO (XO (XI (XI (XI (XI (XO (XI (XI (XI (XO
    (XI XH))))))))))))))) :: (((Zpos (XO (XI (XO (XO (XI (XI (XO (XI (XI (XI
    (XI (XI (XI (XI (XI XH)))))))))))))))), (Npos (XI (XO (XI (XI (XI (XI (XI
    (XO (XI (XI (XI (XO (XI XH))))))))))))))) :: (((Zpos (XI (XI (XO (XO (XI
    (XI (XO (XI (XI (XI (XI (XI (XI (XI (XI XH)))))))))))))))), (Npos (XO (XI
    (XO (XO (XO (XO (XO (XI (XI (XI (XI (XO (XI XH))))))))))))))) :: (((Zpos
    (XO (XO (XI (XO (XI (XI (XO (XI (XI (XI (XI (XI (XI (XI (XI
    XH)))))))))))))))), (Npos (XI (XI (XI (XO (XO (XO (XO (XI (XI (XI (XI (XO
    (XI XH))))))))))))))) :: (((Zpos (XI (XO (XI (XO (XI (XI (XO (XI (XI (XI
    (XI (XI (XI (XI (XI XH)))))))))))))))), (Npos (XO (XO (XI (XI (XO (XO (XO
    (XI (XI (XI (XI (XO (XI XH))))))))))))))) :: (((Zpos (XO (XI (XI (XO (XI
    (XI (XO (XI (XI (XI (XI (XI (XI (XI (XI XH)))))))))))))))), (Npos (XI (XO
    (XO (XO (XI (XO (XO (XI (XI (XI (XI (XO (XI XH))))))))))))))) :: (((Zpos
    (XI (XI (XI (XO (XI (XI (XO (XI (XI (XI (XI (XI (XI (XI (XI
    XH)))))))))))))))), (Npos (XO (XI (XI (XO (XI (XO (XO (XI (XI (XI (XI (XO
    (XI XH))))))))))))))) :: (((Zpos (XO (XO (XO (XI (XI (XI (XO (XI (XI (XI
    (XI (XI (XI (XI (XI XH)))))))))))))))), (Npos (XI (XI (XO (XI (XI (XO (XO
    (XI (XI (XI (XI (XO (XI XH))))))))))))))) :: (((Zpos (XI (XO (XO (XI (XI
    (XI (XO (XI (XI (XI (XI (XI (XI (XI (XI XH)))))))))))))))), (Npos (XO (XO
    (XO (XO (XO (XI (XO (XI (XI (XI (XI (XO (XI XH))))))))))))))) :: (((Zpos
    (XI (XO (XI (XI (XI (XI (XO (XI (XI (XI (XI (XI (XI (XI (XI
    XH)))))))))))))))), (Npos (XI (XO (XI (XO (XO (XI (XO (XI (XI (XI (XI (XO
    (XI XH))))))))))))))) :: (((Zpos (XO (XI (XI (XI (XI (XI (XO (XI (XI (XI
    (XI (XI (XI (XI (XI XH)))))))))))))))), (Npos (XO (XI (XI (XI (XO (XI (XO
    (XI (XI (XI (XI (XO (XI XH))))))))))))))) :: (((Zpos (XI (XI (XI (XI (XI
    (XI (XO (XI (XI (XI (XI (XI (XI (XI (XI XH)))))))))))))))), (Npos (XI (XO
    (XO (XO (XI (XI (XO (XI (XI (XI (XI (XO (XI XH))))))))))))))) :: (((Zpos
    (XO (XO (XO (XO (XO (XO (XI (XI (XI (XI (XI (XI (XI (XI (XI
    XH)))))))))))))))), (Npos (XO (XO (XI (XO (XI (XI (XO (XI (XI (XI (XI (XO
    (XI XH))))))))))))))) :: (((Zpos (XI (XO (XO (XO (XO (XO (XI (XI (XI (XI
    (XI (XI (XI (XI (XI XH)))))))))))))))), (Npos (XI (XI (XI (XO (XI (XI (XO
    (XI (XI (XI (XI (XO (XI XH))))))))))))))) :: (((Zpos (XO (XI (XO (XO (XO
    (XO (XI (XI (XI (XI (XI (XI (XI (XI (XI XH)))))))))))))))), (Npos (XO (XI
    (XO (XI (XI (XI (XO (XI (XI (XI (XI (XO (XI XH))))))))))))))) :: (((Zpos
    (XI (XI (XO (XO (XO (XO (XI (XI (XI (XI (XI (XI (XI (XI (XI
    XH)))))))))))))))), (Npos (XI (XO (XI (XI (XI (XI (XO (XI (XI (XI (XI (XO
    (XI XH))))))))))))))) :: (((Zpos (XO (XO (XI (XO (XO (XO (XI (XI (XI (XI
    (XI (XI (XI (XI (XI XH)))))))))))))))), (Npos (XO (XO (XO (XO (XO (XO (XI
    (XI (XI (XI (XI (XO (XI XH))))))))))))))) :: (((Zpos (XI (XO (XI (XO (XO
    (XO (XI (XI (XI (XI (XI (XI (XI (XI (XI XH)))))))))))))))), (Npos (XI (XI
    (XO (XO (XO (XO (XI (XI (XI (XI (XI (XO (XI XH))))))))))))))) :: (((Zpos
    (XO (XI (XI (XO (XO (XO (XI (XI (XI (XI (XI (XI (XI (XI (XI
    XH)))))))))))))))), (Npos (XO (XI (XI (XO (XO (XO (XI (XI (XI (XI (XI (XO
    (XI XH))))))))))))))) :: (((Zpos (XI (XI (XI (XO (XO (XO (XI (XI (XI (XI
    (XI (XI (XI (XI (XI XH)))))))))))))))), (Npos (XI (XO (XO (XI (XO (XO (XI
    (XI (XI (XI (XI (XO (XI XH))))))))))))))) :: (((Zpos (XO (XO (XO (XI (XO
    (XO (XI (XI (XI (XI (XI (XI (XI (XI (XI XH)))))))))))))))), (Npos (XI (XO
    (XI (XI (XO (XO (XI (XI (XI (XI (XI (XO (XI XH))))))))))))))) :: (((Zpos
    (XI (XO (XO (XI (XO (XO (XI (XI (XI (XI (XI (XI (XI (XI (XI
    XH)))))))))))))))), (Npos (XI (XO (XO (XO (XI (XO (XI (XI (XI (XI (XI (XO
    (XI XH))))))))))))))) :: (((Zpos (XO (XI (XO (XI (XO (XO (XI (XI (XI (XI
    (XI (XI (XI (XI (XI XH)))))))))))))))), (Npos (XI (XO (XI (XO (XI (XO (XI
    (XI (XI (XI (XI (XO (XI XH))))))))))))))) :: (((Zpos (XI (XI (XO (XI (XO
    (XO (XI (XI (XI (XI (XI (XI (XI (XI (XI XH)))))))))))))))), (Npos (XI (XO
    (XO (XI (XI (XO (XI (XI (XI (XI (XI (XO (XI XH))))))))))))))) :: (((Zpos
    (XO (XO (XI (XI (XO (XO (XI (XI (XI (XI (XI (XI (XI (XI (XI
    XH)))))))))))))))), (Npos (XI (XO (XI (XI (XI (XO (XI (XI (XI (XI (XI (XO
    (XI XH))))))))))))))) :: (((Zpos (XI (XO (XI (XI (XO (XO (XI (XI (XI (XI
    (XI (XI (XI (XI (XI XH)))))))))))))))), (Npos (XI (XO (XO (XO (XO (XI (XI
    (XI (XI (XI (XI (XO (XI XH))))))))))))))) :: (((Zpos (XO (XI (XI (XI (XO
    (XO (XI (XI (XI (XI (XI (XI (XI (XI (XI XH)))))))))))))))), (Npos (XI (XO
    (XI (XO (XO (XI (XI (XI (XI (XI (XI (XO (XI XH))))))))))))))) :: (((Zpos
    (XI (XI (XI (XI (XO (XO (XI (XI (XI (XI (XI (XI (XI (XI (XI
    XH)))))))))))))))), (Npos (XI (XO (XO (XI (XO (XI (XI (XI (XI (XI (XI (XO
    (XI XH))))))))))))))) :: (((Zpos (XO (XO (XO (XO (XI (XO (XI (XI (XI (XI
    (XI (XI (XI (XI (XI XH)))))))))))))))), (Npos (XI (XO (XI (XI (XO (XI (XI
    (XI (XI (XI (XI (XO (XI XH))))))))))))))) :: (((Zpos (XI (XO (XO (XO (XI
    (XO (XI (XI (XI (XI (XI (XI (XI (XI (XI XH)))))))))))))))), (Npos (XI (XO
    (XO (XO (XI (XI (XI (XI (XI (XI (XI (XO (XI XH))))))))))))))) :: (((Zpos
    (XO (XI (XO (XO (XI (XO (XI (XI (XI (XI (XI (XI (XI (XI (XI
    XH)))))))))))))))), (Npos (XI (XO (XI (XO (XI (XI (XI (XI (XI (XI (XI (XO
    (XI XH))))))))))))))) :: (((Zpos (XI (XI (XO (XO (XI (XO (XI (XI (XI (XI
    (XI (XI (XI (XI (XI XH)))))))))))))))), (Npos (XI (XO (XO (XI (XI (XI (XI
    (XI (XI (XI (XI (XO (XI XH))))))))))))))) :: (((Zpos (XO (XO (XI (XO (XI
    (XO (XI (XI (XI (XI (XI (XI (XI (XI (XI XH)))))))))))))))), (Npos (XI (XO
    (XI (XI (XI (XI (XI (XI (XI (XI (XI (XO (XI XH))))))))))))))) :: (((Zpos
    (XI (XO (XI (XO (XI (XO (XI (XI (XI (XI (XI (XI (XI (XI (XI
    XH)))))))))))))))), (Npos (XI (XO (XO (XO (XO (XO (XO (XO (XO (XO (XO (XI
    (XI XH))))))))))))))) :: (((Zpos (XO (XI (XI (XO (XI (XO (XI (XI (XI (XI
    (XI (XI (XI (XI (XI XH)))))))))))))))), (Npos (XI (XO (XI (XO (XO (XO (XO
    (XO (XO (XO (XO (XI (XI XH))))))))))))))) :: (((Zpos (XI (XI (XI (XO (XI
    (XO (XI (XI (XI (XI (XI (XI (XI (XI (XI XH)))))))))))))))), (Npos (XI (XO
    (XO (XI (XO (XO (XO (XO (XO (XO (XO (XI (XI XH))))))))))))))) :: (((Zpos
    (XO (XO (XO (XI (XI (XO (XI (XI (XI (XI (XI (XI (XI (XI (XI
    XH)))))))))))))))), (Npos (XI (XO (XI (XI (XO (XO (XO (XO (XO (XO (XO (XI
    (XI XH))))))))))))))) :: (((Zpos (XI (XO (XO (XI (XI (XO (XI (XI (XI (XI
    (XI (XI (XI (XI (XI XH)))))))))))))))), (Npos (XI (XO (XO (XO (XI (XO (XO
    (XO (XO (XO (XO (XI (XI XH))))))))))))))) :: (((Zpos (XO (XI (XO (XI (XI
    (XO (XI (XI (XI (XI (XI (XI (XI (XI (XI XH)))))))))))))))), (Npos (XI (XO
    (XI (XO (XI (XO (XO (XO (XO (XO (XO (XI (XI XH))))))))))))))) :: (((Zpos
    (XI (XI (XO (XI (XI (XO (XI (XI (XI (XI (XI (XI (XI (XI (XI
    XH)))))))))))))))), (Npos (XI (XO (XO (XI (XI (XO (XO (XO (XO (XO (XO (XI
    (XI XH))))))))))))))) :: (((Zpos (XO (XO (XI (XI (XI (XO (XI (XI (XI (XI
    (XI (XI (XI (XI (XI XH)))))))))))))))), (Npos (XI (XO (XI (XI (XI (XO (XO
    (XO (XO (XO (XO (XI (XI XH))))))))))))))) :: (((Zpos (XI (XO (XI (XI (XI
    (XO (XI (XI (XI (XI (XI (XI (XI (XI (XI XH)))))))))))))))), (Npos (XI (XO
    (XO (XO (XO (XI (XO (XO (XO (XO (XO (XI (XI XH))))))))))))))) :: (((Zpos
    (XO (XI (XI (XI (XI (XO (XI (XI (XI (XI (XI (XI (XI (XI (XI
    XH)))))))))))))))), (Npos (XI (XO (XI (XO (XO (XI (XO (XO (XO (XO (XO (XI
    (XI XH))))))))))))))) :: (((Zpos (XI (XI (XI (XI (XI (XO (XI (XI (XI (XI
    (XI (XI (XI (XI (XI XH)))))))))))))))), (Npos (XI (XO (XO (XI (XO (XI (XO
    (XO (XO (XO (XO (XI (XI XH))))))))))))))) :: (((Zpos (XO (XO (XO (XO (XO
    (XI (XI (XI (XI (XI (XI (XI (XI (XI (XI XH)))))))))))))))), (Npos (XI (XO
    (XI (XI (XO (XI (XO (XO (XO (XO (XO (XI (XI XH))))))))))))))) :: (((Zpos
    (XI (XO (XO (XO (XO (XI (XI (XI (XI (XI (XI (XI (XI (XI (XI
    XH)))))))))))))))), (Npos (XI (XO (XO (XO (XI (XI (XO (XO (XO (XO (XO (XI
    (XI XH))))))))))))))) :: (((Zpos (XO (XI (XO (XO (XO (XI (XI (XI (XI (XI
    (XI (XI (XI (XI (XI XH)))))))))))))))), (Npos (XI (XO (XO (XI (XI (XI (XO
    (XO (XO (XO (XO (XI (XI XH))))))))))))))) :: (((Zpos (XI (XI (XO (XO (XO
    (XI (XI (XI (XI (XI (XI (XI (XI (XI (XI XH)))))))))))))))), (Npos (XI (XO
    (XO (XO (XO (XO (XI (XO (XO (XO (XO (XI (XI XH))))))))))))))) :: (((Zpos
    (XO (XO (XI (XO (XO (XI (XI (XI (XI (XI (XI (XI (XI (XI (XI
    XH)))))))))))))))), (Npos (XI (XI (XO (XI (XO (XO (XI (XO (XO (XO (XO (XI
    (XI XH))))))))))))))) :: (((Zpos (XI (XO (XI (XO (XO (XI (XI (XI (XI (XI
    (XI (XI (XI (XI (XI XH)))))))))))))))), (Npos (XI (XO (XI (XO (XI (XO (XI
    (XO (XO (XO (XO (XI (XI XH))))))))))))))) :: (((Zpos (XO (XI (XI (XO (XO
    (XI (XI (XI (XI (XI (XI (XI (XI (XI (XI XH)))))))))))))))), (Npos (XI (XI
    (XI (XI (XI (XO (XI (XO (XO (XO (XO (XI (XI XH))))))))))))))) :: (((Zpos
    (XI (XI (XI (XO (XO (XI (XI (XI (XI (XI (XI (XI (XI (XI (XI
    XH)))))))))))))))), (Npos (XO (XI (XO (XI (XO (XI (XI (XO (XO (XO (XO (XI
    (XI XH))))))))))))))) :: (((Zpos (XO (XO (XO (XI (XO (XI (XI (XI (XI (XI
    (XI (XI (XI (XI (XI XH)))))))))))))))), (Npos (XI (XO (XO (XO (XI (XI (XI
    (XO (XO (XO (XO (XI (XI XH))))))))))))))) :: (((Zpos (XI (XO (XO (XI (XO
    (XI (XI (XI (XI (XI (XI (XI (XI (XI (XI XH)))))))))))))))), (Npos (XO (XO
    (XO (XI (XI (XI (XI (XO (XO (XO (XO (XI (XI XH))))))))))))))) :: (((Zpos
    (XO (XI (XO (XI (XO (XI (XI (XI (XI (XI (XI (XI (XI (XI (XI
    XH)))))))))))))))), (Npos (XO (XI (XI (XI (XI (XI (XI (XO (XO (XO (XO (XI
    (XI XH))))))))))))))) :: (((Zpos (XI (XI (XO (XI (XO (XI (XI (XI (XI (XI
    (XI (XI (XI (XI (XI XH)))))))))))))))), (Npos (XO (XO (XI (XO (XO (XO (XO
    (XI (XO (XO (XO (XI (XI XH))))))))))))))) :: (((Zpos (XO (XO (XI (XI (XO
    (XI (XI (XI (XI (XI (XI (XI (XI (XI (XI XH)))))))))))))))), (Npos (XO (XO
    (XI (XI (XO (XO (XO (XI (XO (XO (XO (XI (XI XH))))))))))))))) :: (((Zpos
    (XI (XO (XI (XI (XO (XI (XI (XI (XI (XI (XI (XI (XI (XI (XI
    XH)))))))))))))))), (Npos (XO (XO (XI (XO (XI (XO (XO (XI (XO (XO (XO (XI
    (XI XH))))))))))))))) :: (((Zpos (XO (XI (XI (XI (XO (XI (XI (XI (XI (XI
    (XI (XI (XI (XI (XI XH)))))))))))))))), (Npos (XO (XO (XI (XI (XI (XO (XO
    (XI (XO (XO (XO (XI (XI XH))))))))))))))) :: (((Zpos (XI (XI (XI (XI (XI
    (XI (XI (XI (XI (XI (XI (XI (XI (XI (XI XH)))))))))))))))), (Npos (XO (XO
    (XI (XO (XO (XI (XO (XI (XO (XO (XO (XI (XI XH))))))))))))))) :: (((Zpos
    (XI (XI (XI (XI (XI (XI (XI (XI (XI (XI (XI (XI (XI (XI (XI (XI (XI (XI
    (XI (XI (XI (XI (XI XH)))))))))))))))))))))))), (Npos (XI (XI (XO (XI (XO
    (XI (XO (XI (XO (XO (XO (XI (XI
    XH))))))))))))))) :: [])))))))))))))))))))))))))))))))))))))))))))))))))))))))))))))))))))))))))))))))))))))))))))))))))))))))))))))))))))))))))))))))))))))))))))))))))))))))))))))))))))))))))))))))))))))))))))))))))))))))))))))))))))))))))))))))))))))))))))))))))))))))))))))))))))))))))))))))))))))))))))))))))))))))))))))))))))))))))))))))))))))))))))))))))))))))))))))))))))))))))))))))))))))))))))))))))))))))))))))))))))))))))))))))))))))))))))))))))))))))))))))))))))))))))))))))))))))))))))))))))))))))))))))))))))))))))))))))))))))))))))))))))))))))))))))))))))))))))))))))))))))))))))))))))))))))))))))))))))))))))))))))))))))))))))))))))))))))))))))))))))))))))))))))))))))))))))))))))))))))))))))))))))))))))))))))))))))))))))))))))))))))))))))))))))))))))))))))))))))))))))))))))))))))))))))))))))))))))))))))))))))))))))))))))))))))))))))))))))))))))))))))))))))))))))))))))))))))))))))))))))))))))))))))))))))))))))))))))))))))))))))))))))))))))))))))))))))))))))))))))))))))))))))))))))))))))))))))))))))))))))))))))))))))))))))))))))))))))))))))))))))))))))))))))))))))))))))))))))))))))))))))))))))))))))))))))))))))))))))))))))))))))))))))))))))))))))))))))))))))))))))))))))))))))))))))))))))))))))))))))))))))))))))))))))))))))))))))))))))))))))))))))))))))))))))))))))))))))))))))))))))))))))))))))))))))))

(** val keys_by_name : (z * n) list **)

let keys_by_name =
  ((Zpos (XO (XO (XO (XO (XI XH)))))), (Npos (XO (XO (XI (XI (XO (XO (XO
    XH))))))))) :: (((Zpos (XI (XO (XO (XO (XI XH)))))), (Npos (XO (XI (XI
    (XI (XO (XO (XO XH))))))))) :: (((Zpos (XO (XI (XO (XO (XI XH)))))),
    (Npos (XO (XO (XO (XO (XI (XO (XO XH))))))))) :: (((Zpos (XI (XI (XO (XO
    (XI XH)))))), (Npos (XO (XI (XO (XO (XI (XO (XO XH))))))))) :: (((Zpos
    (XO (XO (XO (XO (XI (XO (XO (XO (XI (XO (XI (XI (XI (XI (XI
    XH)))))))))))))))), (Npos (XI (XO (XI (XI (XO (XO (XI (XO (XO (XO (XI (XI
    (XO XH))))))))))))))) :: (((Zpos (XO (XI (XI (XI (XO (XO (XO (XO (XI (XO
    (XI (XI (XI (XI (XI XH)))))))))))))))), (Npos (XO (XI (XO (XO (XI (XI (XO
    (XO (XO (XO (XI (XI (XO XH))))))))))))))) :: (((Zpos (XI (XO (XI (XO (XO
    (XO (XO (XO (XI (XO (XI (XI (XI (XI (XI XH)))))))))))))))), (Npos (XI (XO
    (XI (XI (XO (XO (XI (XI (XI (XI (XO (XI (XO XH))))))))))))))) :: (((Zpos
    (XI (XO (XO (XI (XI (XO (XO (XO (XI (XO (XI (XI (XI (XI (XI
    XH)))))))))))))))), (Npos (XO (XO (XI (XO (XI (XI (XO (XI (XO (XO (XI (XI
    (XO XH))))))))))))))) :: (((Zpos (XI (XO (XI (XO (XI (XO (XO (XO (XI (XO
    (XI (XI (XI (XI (XI XH)))))))))))))))), (Npos (XI (XO (XO (XI (XO (XO (XO
    (XI (XO (XO (XI (XI (XO XH))))))))))))))) :: (((Zpos (XI (XI (XI (XI (XO
    (XO (XO (XO (XI (XO (XI (XI (XI (XI (XI XH)))))))))))))))), (Npos (XO (XO
    (XI (XI (XI (XI (XO (XO (XO (XO (XI (XI (XO XH))))))))))))))) :: (((Zpos
    (XO (XO (XI (XI (XI (XO (XO (XO (XI (XO (XI (XI (XI (XI (XI
    XH)))))))))))))))), (Npos (XO (XO (XI (XO (XO (XI (XI (XI (XO (XO (XI (XI
    (XO XH))))))))))))))) :: (((Zpos (XO (XI (XO (XI (XI (XO (XO (XO (XI (XO
    (XI (XI (XI (XI (XI XH)))))))))))))))), (Npos (XO (XI (XI (XO (XO (XO (XI
    (XI (XO (XO (XI (XI (XO XH))))))))))))))) :: (((Zpos (XI (XO (XO (XO (XO
    (XO (XO (XO (XI (XO (XI (XI (XI (XI (XI XH)))))))))))))))), (Npos (XO (XO
    (XO (XI (XI (XO (XO (XI (XI (XI (XO (XI (XO XH))))))))))))))) :: (((Zpos
    (XO (XI (XI (XI (XI (XO (XO (XO (XI (XO (XI (XI (XI (XI (XI
    XH)))))))))))))))), (Npos (XI (XI (XI (XO (XO (XO (XO (XO (XI (XO (XI (XI
    (XO XH))))))))))))))) :: (((Zpos (XO (XI (XI (XO (XO (XO (XO (XO (XI (XO
    (XI (XI (XI (XI (XI XH)))))))))))))))), (Npos (XO (XI (XO (XI (XI (XO (XI
    (XI (XI (XI (XO (XI (XO XH))))))))))))))) :: (((Zpos (XI (XI (XI (XO (XO
    (XO (XO (XO (XI (XO (XI (XI (XI (XI (XI XH)))))))))))))))), (Npos (XO (XO
    (XO (XI (XO (XI (XI (XI (XI (XI (XO (XI (XO XH))))))))))))))) :: (((Zpos
    (XI (XI (XO (XI (XI (XO (XO (XO (XI (XO (XI (XI (XI (XI (XI
    XH)))))))))))))))), (Npos (XO (XI (XI (XO (XI (XO (XI (XI (XO (XO (XI (XI
    (XO XH))))))))))))))) :: (((Zpos (XO (XI (XO (XO (XO (XO (XO (XO (XI (XO
    (XI (XI (XI (XI (XI XH)))))))))))))))), (Npos (XI (XI (XI (XO (XO (XI (XO
    (XI (XI (XI (XO (XI (XO XH))))))))))))))) :: (((Zpos (XI (XI (XO (XO (XI
    (XO (XO (XO (XI (XO (XI (XI (XI (XI (XI XH)))))))))))))))), (Npos (XO (XO
    (XI (XO (XI (XI (XI (XO (XO (XO (XI (XI (XO XH))))))))))))))) :: (((Zpos
    (XO (XI (XO (XO (XI (XO (XO (XO (XI (XO (XI (XI (XI (XI (XI
    XH)))))))))))))))), (Npos (XO (XI (XO (XI (XO (XI (XI (XO (XO (XO (XI (XI
    (XO XH))))))))))))))) :: (((Zpos (XI (XO (XO (XO (XI (XO (XO (XO (XI (XO
    (XI (XI (XI (XI (XI XH)))))))))))))))), (Npos (XO (XO (XI (XI (XI (XO (XI
    (XO (XO (XO (XI (XI (XO XH))))))))))))))) :: (((Zpos (XO (XO (XI (XO (XO
    (XO (XO (XO (XI (XO (XI (XI (XI (XI (XI XH)))))))))))))))), (Npos (XO (XI
    (XO (XO (XO (XO (XI (XI (XI (XI (XO (XI (XO XH))))))))))))))) :: (((Zpos
    (XO (XI (XO (XI (XO (XO (XO (XO (XI (XO (XI (XI (XI (XI (XI
    XH)))))))))))))))), (Npos (XI (XO (XI (XI (XO (XO (XO (XO (XO (XO (XI (XI
    (XO XH))))))))))))))) :: (((Zpos (XI (XI (XO (XI (XO (XO (XO (XO (XI (XO
    (XI (XI (XI (XI (XI XH)))))))))))))))), (Npos (XO (XI (XI (XO (XI (XO (XO
    (XO (XO (XO (XI (XI (XO XH))))))))))))))) :: (((Zpos (XO (XO (XI (XI (XO
    (XO (XO (XO (XI (XO (XI (XI (XI (XI (XI XH)))))))))))))))), (Npos (XI (XI
    (XI (XI (XI (XO (XO (XO (XO (XO (XI (XI (XO XH))))))))))))))) :: (((Zpos
    (XO (XI (XI (XO (XI (XO (XO (XO (XI (XO (XI (XI (XI (XI (XI
    XH)))))))))))))))), (Npos (XI (XI (XO (XO (XI (XO (XO (XI (XO (XO (XI (XI
    (XO XH))))))))))))))) :: (((Zpos (XI (XO (XI (XI (XI (XO (XO (XO (XI (XO
    (XI (XI (XI (XI (XI XH)))))))))))))))), (Npos (XO (XI (XI (XO (XI (XI (XI
    (XI (XO (XO (XI (XI (XO XH))))))))))))))) :: (((Zpos (XI (XO (XO (XI (XO
    (XO (XO (XO (XI (XO (XI (XI (XI (XI (XI XH)))))))))))))))), (Npos (XI (XI
    (XO (XO (XO (XO (XO (XO (XO (XO (XI (XI (XO XH))))))))))))))) :: (((Zpos
    (XO (XO (XO (XI (XI (XO (XO (XO (XI (XO (XI (XI (XI (XI (XI
    XH)))))))))))))))), (Npos (XO (XO (XO (XI (XO (XI (XO (XI (XO (XO (XI (XI
    (XO XH))))))))))))))) :: (((Zpos (XO (XO (XO (XI (XO (XO (XO (XO (XI (XO
    (XI (XI (XI (XI (XI XH)))))))))))))))), (Npos (XO (XO (XO (XI (XI (XI (XI
    (XI (XI (XI (XO (XI (XO XH))))))))))))))) :: (((Zpos (XI (XI (XO (XO (XO
    (XO (XO (XO (XI (XO (XI (XI (XI (XI (XI XH)))))))))))))))), (Npos (XO (XI
    (XI (XO (XI (XI (XO (XI (XI (XI (XO (XI (XO XH))))))))))))))) :: (((Zpos
    (XO (XO (XI (XO (XI (XO (XO (XO (XI (XO (XI (XI (XI (XI (XI
    XH)))))))))))))))), (Npos (XI (XI (XI (XI (XI (XI (XI (XO (XO (XO (XI (XI
    (XO XH))))))))))))))) :: (((Zpos (XI (XI (XI (XO (XI (XO (XO (XO (XI (XO
    (XI (XI (XI (XI (XI XH)))))))))))))))), (Npos (XI (XO (XI (XI (XI (XO (XO
    (XI (XO (XO (XI (XI (XO XH))))))))))))))) :: (((Zpos (XI (XO (XI (XI (XO
    (XO (XO (XO (XI (XO (XI (XI (XI (XI (XI XH)))))))))))))))), (Npos (XO (XO
    (XO (XI (XO (XI (XO (XO (XO (XO (XI (XI (XO XH))))))))))))))) :: (((Zpos
    (XO (XO (XI (XO (XI XH)))))), (Npos (XO (XO (XI (XO (XI (XO (XO
    XH))))))))) :: (((Zpos (XI (XO (XI (XO (XI XH)))))), (Npos (XO (XI (XI
    (XO (XI (XO (XO XH))))))))) :: (((Zpos (XO (XI (XI (XO (XI XH)))))),
    (Npos (XO (XO (XO (XI (XI (XO (XO XH))))))))) :: (((Zpos (XI (XI (XI (XO
    (XI XH)))))), (Npos (XO (XI (XO (XI (XI (XO (XO XH))))))))) :: (((Zpos
    (XO (XO (XO (XI (XI XH)))))), (Npos (XO (XO (XI (XI (XI (XO (XO
    XH))))))))) :: (((Zpos (XI (XO (XO (XI (XI XH)))))), (Npos (XO (XI (XI
    (XI (XI (XO (XO XH))))))))) :: (((Zpos (XI (XO (XO (XO (XO (XO XH))))))),
    (Npos (XI (XI (XI (XI (XO (XO (XI XH))))))))) :: (((Zpos (XO (XI (XI (XO
    (XO (XO (XI XH)))))))), (Npos (XI (XI (XO (XO (XI (XO (XO (XO (XI
    XH))))))))))) :: (((Zpos (XI (XO (XO (XO (XO (XO (XI XH)))))))), (Npos
    (XO (XO (XO (XI (XO (XI (XI (XI (XO XH))))))))))) :: (((Zpos (XI (XI (XO
    (XO (XO (XO (XI (XI XH))))))))), (Npos (XI (XO (XO (XO (XO (XO (XI (XI
    (XI (XO XH)))))))))))) :: (((Zpos (XO (XO (XO (XO (XI (XI (XI (XO (XO (XI
    (XI (XI (XI (XI (XI XH)))))))))))))))), (Npos (XI (XI (XI (XO (XI (XI (XO
    (XI (XO (XO (XO (XO (XI XH))))))))))))))) :: (((Zpos (XI (XO (XO (XO (XI
    (XI (XI (XO (XO (XI (XI (XI (XI (XI (XI XH)))))))))))))))), (Npos (XO (XI
    (XI (XO (XO (XO (XI (XI (XO (XO (XO (XO (XI XH))))))))))))))) :: (((Zpos
    (XO (XI (XO (XO (XO (XO (XI XH)))))))), (Npos (XI (XI (XI (XI (XO (XI (XI
    (XI (XO XH))))))))))) :: (((Zpos (XO (XO (XI (XO (XO (XO (XI XH)))))))),
    (Npos (XO (XI (XO (XO (XO (XO (XO (XO (XI XH))))))))))) :: (((Zpos (XO
    (XO (XO (XO (XO (XO (XI XH)))))))), (Npos (XI (XO (XO (XO (XO (XI (XI (XI
    (XO XH))))))))))) :: (((Zpos (XI (XO (XO (XI (XO (XI (XI (XI (XI (XI (XI
    (XI (XI (XI (XI XH)))))))))))))))), (Npos (XO (XO (XO (XI (XI (XI (XI (XO
    (XO (XO (XO (XI (XI XH))))))))))))))) :: (((Zpos (XO (XI (XO (XI (XO (XI
    (XI (XI (XI (XI (XI (XI (XI (XI (XI XH)))))))))))))))), (Npos (XO (XI (XI
    (XI (XI (XI (XI (XO (XO (XO (XO (XI (XI XH))))))))))))))) :: (((Zpos (XO
    (XO (XO (XO (XO (XO (XI (XI (XI XH)))))))))), (Npos (XO (XO (XI (XO (XI
    (XO (XO (XO (XO (XO (XO XH))))))))))))) :: (((Zpos (XI (XO (XO (XO (XO
    (XI (XO (XI XH))))))))), (Npos (XI (XO (XO (XO (XO (XO (XO (XO (XI (XO
    XH)))))))))))) :: (((Zpos (XI (XO (XO (XI (XI (XO (XI (XI (XI (XO
    XH))))))))))), (Npos (XI (XO (XI (XO (XI (XO (XO (XI (XO (XO (XI
    XH))))))))))))) :: (((Zpos (XI (XI (XI (XO (XO (XO (XI (XI (XI (XO
    XH))))))))))), (Npos (XO (XO (XO (XO (XO (XO (XI (XI (XI (XI (XO
    XH))))))))))))) :: (((Zpos (XI (XO (XO (XI (XO (XI (XI (XI (XI (XO
    XH))))))))))), (Npos (XO (XO (XO (XO (XO (XI (XO (XO (XI (XO (XI
    XH))))))))))))) :: (((Zpos (XO (XO (XO (XI (XO (XO (XI (XI (XI (XO
    XH))))))))))), (Npos (XO (XO (XI (XI (XO (XO (XI (XI (XI (XI (XO
    XH))))))))))))) :: (((Zpos (XO (XO (XI (XI (XO (XI (XO (XI (XI (XO
    XH))))))))))), (Npos (XO (XO (XO (XO (XO (XI (XO (XO (XI (XI (XO
    XH))))))))))))) :: (((Zpos (XO (XI (XI (XO (XI (XO (XI (XI (XI (XO
    XH))))))))))), (Npos (XO (XO (XI (XO (XI (XI (XI (XO (XO (XO (XI
    XH))))))))))))) :: (((Zpos (XI (XI (XI (XI (XO (XO (XI (XI (XI (XO
    XH))))))))))), (Npos (XI (XI (XO (XO (XO (XI (XO (XO (XO (XO (XI
    XH))))))))))))) :: (((Zpos (XI (XI (XI (XI (XO (XI (XI (XI (XI (XO
    XH))))))))))), (Npos (XI (XI (XO (XI (XI (XI (XI (XO (XI (XO (XI
    XH))))))))))))) :: (((Zpos (XO (XO (XI (XI (XO (XI (XI (XI (XI (XO
    XH))))))))))), (Npos (XO (XI (XI (XI (XO (XO (XI (XO (XI (XO (XI
    XH))))))))))))) :: (((Zpos (XO (XI (XI (XI (XO (XI (XI (XI (XI (XO
    XH))))))))))), (Npos (XO (XI (XI (XI (XO (XI (XI (XO (XI (XO (XI
    XH))))))))))))) :: (((Zpos (XI (XI (XO (XI (XO (XI (XI (XI (XI (XO
    XH))))))))))), (Npos (XO (XI (XI (XI (XI (XI (XO (XO (XI (XO (XI
    XH))))))))))))) :: (((Zpos (XI (XO (XO (XO (XO (XI (XI (XI (XI (XO
    XH))))))))))), (Npos (XO (XO (XI (XI (XI (XI (XO (XI (XO (XO (XI
    XH))))))))))))) :: (((Zpos (XO (XI (XO (XI (XI (XO (XI (XI (XI (XO
    XH))))))))))), (Npos (XO (XO (XO (XO (XO (XI (XO (XI (XO (XO (XI
    XH))))))))))))) :: (((Zpos (XI (XI (XI (XO (XO (XI (XI (XI (XI (XO
    XH))))))))))), (Npos (XO (XO (XO (XO (XO (XO (XO (XO (XI (XO (XI
    XH))))))))))))) :: (((Zpos (XI (XO (XI (XI (XO (XO (XI (XI (XI (XO
    XH))))))))))), (Npos (XO (XO (XI (XI (XO (XO (XO (XO (XO (XO (XI
    XH))))))))))))) :: (((Zpos (XI (XO (XO (XO (XO (XO (XI (XI (XI (XO
    XH))))))))))), (Npos (XI (XI (XO (XO (XI (XO (XI (XO (XI (XI (XO
    XH))))))))))))) :: (((Zpos (XI (XI (XO (XO (XO (XO (XI (XI (XI (XO
    XH))))))))))), (Npos (XI (XI (XO (XO (XI (XI (XI (XO (XI (XI (XO
    XH))))))))))))) :: (((Zpos (XO (XO (XI (XO (XO (XO (XI (XI (XI (XO
    XH))))))))))), (Npos (XO (XI (XI (XO (XO (XO (XO (XI (XI (XI (XO
    XH))))))))))))) :: (((Zpos (XO (XI (XI (XO (XO (XO (XI (XI (XI (XO
    XH))))))))))), (Npos (XO (XI (XI (XI (XO (XI (XO (XI (XI (XI (XO
    XH))))))))))))) :: (((Zpos (XI (XO (XI (XO (XO (XO (XI (XI (XI (XO
    XH))))))))))), (Npos (XO (XO (XO (XI (XI (XO (XO (XI (XI (XI (XO
    XH))))))))))))) :: (((Zpos (XI (XI (XI (XO (XO (XI (XI (XI (XI (XO
    XH))))))))))), (Npos (XO (XI (XO (XI (XO (XO (XO (XO (XI (XO (XI
    XH))))))))))))) :: (((Zpos (XO (XO (XI (XI (XO (XO (XI (XI (XI (XO
    XH))))))))))), (Npos (XO (XO (XO (XO (XO (XO (XO (XO (XO (XO (XI
    XH))))))))))))) :: (((Zpos (XI (XI (XO (XO (XO (XI (XI (XI (XI (XO
    XH))))))))))), (Npos (XO (XI (XO (XO (XI (XO (XI (XI (XO (XO (XI
    XH))))))))))))) :: (((Zpos (XO (XO (XO (XO (XI (XI (XI (XI (XI (XO
    XH))))))))))), (Npos (XO (XO (XO (XI (XO (XO (XO (XI (XI (XO (XI
    XH))))))))))))) :: (((Zpos (XI (XO (XI (XI (XO (XI (XI (XI (XI (XO
    XH))))))))))), (Npos (XO (XI (XI (XI (XI (XO (XI (XO (XI (XO (XI
    XH))))))))))))) :: (((Zpos (XO (XI (XI (XI (XO (XO (XI (XI (XI (XO
    XH))))))))))), (Npos (XI (XI (XI (XO (XI (XO (XO (XO (XO (XO (XI
    XH))))))))))))) :: (((Zpos (XO (XO (XI (XO (XO (XI (XI (XI (XI (XO
    XH))))))))))), (Npos (XI (XO (XI (XI (XI (XO (XI (XI (XO (XO (XI
    XH))))))))))))) :: (((Zpos (XO (XI (XO (XO (XO (XO (XI (XI (XI (XO
    XH))))))))))), (Npos (XO (XO (XO (XO (XO (XI (XI (XO (XI (XI (XO
    XH))))))))))))) :: (((Zpos (XI (XO (XI (XO (XO (XI (XI (XI (XI (XO
    XH))))))))))), (Npos (XO (XO (XO (XI (XO (XI (XI (XI (XO (XO (XI
    XH))))))))))))) :: (((Zpos (XO (XI (XI (XO (XO (XI (XI (XI (XI (XO
    XH))))))))))), (Npos (XO (XO (XI (XO (XI (XI (XI (XI (XO (XO (XI
    XH))))))))))))) :: (((Zpos (XO (XI (XO (XO (XO (XI (XI (XI (XI (XO
    XH))))))))))), (Npos (XI (XI (XI (XO (XO (XO (XI (XI (XO (XO (XI
    XH))))))))))))) :: (((Zpos (XI (XI (XI (XI (XI (XI (XO (XI (XI (XO
    XH))))))))))), (Npos (XO (XI (XI (XI (XI (XI (XO (XO (XI (XI (XO
    XH))))))))))))) :: (((Zpos (XI (XO (XO (XO (XI (XO (XI (XI (XI (XO
    XH))))))))))), (Npos (XO (XI (XO (XI (XI (XI (XO (XO (XO (XO (XI
    XH))))))))))))) :: (((Zpos (XI (XO (XI (XO (XI (XO (XI (XI (XI (XO
    XH))))))))))), (Npos (XI (XO (XO (XI (XO (XI (XI (XO (XO (XO (XI
    XH))))))))))))) :: (((Zpos (XI (XI (XO (XO (XI (XO (XI (XI (XI (XO
    XH))))))))))), (Npos (XO (XO (XO (XO (XI (XO (XI (XO (XO (XO (XI
    XH))))))))))))) :: (((Zpos (XI (XI (XO (XI (XI (XI (XO (XI (XI (XO
    XH))))))))))), (Npos (XI (XO (XI (XI (XO (XI (XO (XO (XI (XI (XO
    XH))))))))))))) :: (((Zpos (XI (XO (XO (XO (XI (XI (XI (XI (XI (XO
    XH))))))))))), (Npos (XI (XO (XI (XO (XI (XO (XO (XI (XI (XO (XI
    XH))))))))))))) :: (((Zpos (XO (XO (XI (XO (XI (XO (XI (XI (XI (XO
    XH))))))))))), (Npos (XO (XO (XI (XI (XI (XO (XI (XO (XO (XO (XI
    XH))))))))))))) :: (((Zpos (XO (XI (XO (XO (XI (XI (XI (XI (XI (XO
    XH))))))))))), (Npos (XI (XI (XO (XO (XO (XI (XO (XI (XI (XO (XI
    XH))))))))))))) :: (((Zpos (XO (XI (XI (XI (XI (XI (XI (XO (XI (XI (XI
    (XI (XI (XI (XI XH)))))))))))))))), (Npos (XI (XI (XI (XO (XI (XO (XO (XO
    (XO (XI (XI (XO (XI XH))))))))))))))) :: (((Zpos (XI (XI (XI (XO (XI (XO
    (XI (XI (XI (XO XH))))))))))), (Npos (XI (XI (XI (XI (XI (XI (XI (XO (XO
    (XO (XI XH))))))))))))) :: (((Zpos (XO (XO (XO (XO (XO (XI (XI (XI (XI
    (XO XH))))))))))), (Npos (XI (XO (XI (XI (XO (XI (XO (XI (XO (XO (XI
    XH))))))))))))) :: (((Zpos (XO (XI (XO (XI (XO (XO (XI (XI (XI (XO
    XH))))))))))), (Npos (XI (XO (XO (XI (XO (XI (XI (XI (XI (XI (XO
    XH))))))))))))) :: (((Zpos (XI (XO (XO (XI (XO (XO (XI (XI (XI (XO
    XH))))))))))), (Npos (XI (XI (XI (XO (XI (XO (XI (XI (XI (XI (XO
    XH))))))))))))) :: (((Zpos (XO (XO (XO (XO (XI (XO (XI (XI (XI (XO
    XH))))))))))), (Npos (XO (XI (XI (XI (XO (XI (XO (XO (XO (XO (XI
    XH))))))))))))) :: (((Zpos (XI (XI (XO (XI (XO (XO (XI (XI (XI (XO
    XH))))))))))), (Npos (XO (XO (XI (XO (XI (XI (XI (XI (XI (XI (XO
    XH))))))))))))) :: (((Zpos (XO (XO (XO (XI (XO (XI (XI (XI (XI (XO
    XH))))))))))), (Npos (XI (XO (XI (XO (XI (XO (XO (XO (XI (XO (XI
    XH))))))))))))) :: (((Zpos (XO (XI (XO (XI (XO (XI (XI (XI (XI (XO
    XH))))))))))), (Npos (XI (XI (XO (XO (XI (XI (XO (XO (XI (XO (XI
    XH))))))))))))) :: (((Zpos (XO (XO (XO (XI (XI (XO (XI (XI (XI (XO
    XH))))))))))), (Npos (XO (XI (XO (XI (XO (XO (XO (XI (XO (XO (XI
    XH))))))))))))) :: (((Zpos (XO (XI (XO (XO (XI (XO (XI (XI (XI (XO
    XH))))))))))), (Npos (XO (XO (XI (XO (XO (XO (XI (XO (XO (XO (XI
    XH))))))))))))) :: (((Zpos (XI (XO (XI (XO (XO (XO (XI XH)))))))), (Npos
    (XI (XO (XI (XI (XO (XO (XO (XO (XI XH))))))))))) :: (((Zpos (XI (XI (XO
    (XO (XO (XO (XI XH)))))))), (Npos (XI (XI (XO (XI (XI (XI (XI (XI (XO
    XH))))))))))) :: (((Zpos (XO (XI (XO (XI (XI (XI (XI (XO (XO (XI (XI (XI
    (XI (XI (XI XH)))))))))))))))), (Npos (XO (XO (XI (XI (XO (XI (XI (XO (XI
    (XO (XO (XO (XI XH))))))))))))))) :: (((Zpos (XO (XI (XO (XO (XO (XO
    XH))))))), (Npos (XI (XO (XO (XO (XI (XO (XI XH))))))))) :: (((Zpos (XO
    (XO (XO (XI (XO (XO (XO (XO (XI (XI (XI (XI (XI (XI (XI
    XH)))))))))))))))), (Npos (XO (XO (XO (XO (XI (XO (XI (XI (XI (XI (XO (XO
    (XI XH))))))))))))))) :: (((Zpos (XO (XO (XO (XI (XI (XO (XI (XO (XI (XI
    (XI (XI (XI (XI (XI XH)))))))))))))))), (Npos (XI (XI (XI (XI (XO (XO (XI
    (XI (XI (XO (XI (XO (XI XH))))))))))))))) :: (((Zpos (XO (XO (XI (XO (XI
    (XI (XI (XO (XO (XI (XI (XI (XI (XI (XI XH)))))))))))))))), (Npos (XO (XO
    (XO (XO (XO (XO (XO (XO (XI (XO (XO (XO (XI XH))))))))))))))) :: (((Zpos
    (XI (XI (XO (XI (XO (XI (XI (XO (XI (XI (XI (XI (XI (XI (XI
    XH)))))))))))))))), (Npos (XI (XO (XO (XO (XI (XO (XO (XO (XO (XI (XI (XO
    (XI XH))))))))))))))) :: (((Zpos (XO (XI (XI (XI (XI (XI (XO (XI (XO (XI
    XH))))))))))), (Npos (XI (XI (XO (XI (XO (XI (XO (XI (XI (XI (XI
    XH))))))))))))) :: (((Zpos (XO (XI (XI (XI (XO (XI (XO (XI (XO (XI
    XH))))))))))), (Npos (XI (XO (XO (XO (XI (XO (XO (XI (XO (XI (XI
    XH))))))))))))) :: (((Zpos (XI (XI (XO (XO (XO (XO XH))))))), (Npos (XI
    (XI (XO (XO (XI (XO (XI XH))))))))) :: (((Zpos (XI (XO (XI (XO (XO (XO
    (XI (XI (XO XH)))))))))), (Npos (XO (XI (XO (XO (XO (XI (XO (XO (XI (XI
    XH)))))))))))) :: (((Zpos (XO (XI (XI (XO (XO (XO (XI (XI XH))))))))),
    (Npos (XI (XI (XI (XI (XO (XO (XI (XI (XI (XO XH)))))))))))) :: (((Zpos
    (XI (XO (XO (XI (XO (XI (XI (XO (XI (XI (XI (XI (XI (XI (XI
    XH)))))))))))))))), (Npos (XI (XO (XI (XO (XO (XO (XO (XO (XO (XI (XI (XO
    (XI XH))))))))))))))) :: (((Zpos (XI (XO (XI (XO (XO (XI (XI (XI (XI (XI
    (XI (XI (XI (XI (XI XH)))))))))))))))), (Npos (XI (XO (XI (XO (XI (XO (XI
    (XO (XO (XO (XO (XI (XI XH))))))))))))))) :: (((Zpos (XO (XO (XO (XI (XO
    (XO (XI (XI XH))))))))), (Npos (XO (XI (XI (XO (XI (XO (XI (XI (XI (XO
    XH)))))))))))) :: (((Zpos (XI (XI (XI (XO (XO (XO (XI XH)))))))), (Npos
    (XO (XI (XI (XO (XI (XO (XO (XO (XI XH))))))))))) :: (((Zpos (XO (XI (XI
    (XO (XO (XO (XI (XI (XO XH)))))))))), (Npos (XO (XO (XI (XI (XO (XI (XO
    (XO (XI (XI XH)))))))))))) :: (((Zpos (XI (XI (XO (XI (XO (XO (XO (XO (XI
    (XI (XI (XI (XI (XI (XI XH)))))))))))))))), (Npos (XI (XI (XI (XO (XO (XI
    (XI (XI (XI (XI (XO (XO (XI XH))))))))))))))) :: (((Zpos (XI (XI (XI (XO
    (XI (XI (XO (XO (XI (XI (XI (XI (XI (XI (XI XH)))))))))))))))), (Npos (XI
    (XO (XI (XI (XO (XO (XO (XO (XI (XO (XI (XO (XI
    XH))))))))))))))) :: (((Zpos (XI (XO (XO (XO (XO (XI (XO (XI (XO (XO (XO
    (XO (XO XH)))))))))))))), (Npos (XI (XO (XI (XI (XI (XO (XO (XO (XI (XI
    (XO (XI (XO XH))))))))))))))) :: (((Zpos (XI (XI (XO (XO (XO (XI (XI (XI
    (XI (XI (XI (XI (XI (XI (XI XH)))))))))))))))), (Npos (XI (XO (XO (XO (XO
    (XO (XI (XO (XO (XO (XO (XI (XI XH))))))))))))))) :: (((Zpos (XO (XO (XI
    (XO (XO (XI (XI (XI (XI (XI (XI (XI (XI (XI (XI XH)))))))))))))))), (Npos
    (XI (XI (XO (XI (XO (XO (XI (XO (XO (XO (XO (XI (XI
    XH))))))))))))))) :: (((Zpos (XO (XI (XO (XO (XO (XI (XO (XI (XO (XO (XO
    (XO (XO XH)))))))))))))), (Npos (XI (XI (XI (XO (XO (XI (XO (XO (XI (XI
    (XO (XI (XO XH))))))))))))))) :: (((Zpos (XI (XO (XO (XO (XO (XI (XI (XI
    (XO (XI XH))))))))))), (Npos (XO (XI (XO (XI (XI (XI (XI (XO (XI (XO (XO
    (XO XH)))))))))))))) :: (((Zpos (XO (XI (XO (XO (XO (XI (XI (XI (XO (XI
    XH))))))))))), (Npos (XI (XO (XI (XO (XO (XO (XO (XI (XI (XO (XO (XO
    XH)))))))))))))) :: (((Zpos (XO (XI (XI (XI (XI (XI (XI (XI (XO (XI
    XH))))))))))), (Npos (XO (XO (XI (XO (XO (XI (XI (XI (XO (XI (XO (XO
    XH)))))))))))))) :: (((Zpos (XO (XO (XI (XO (XO (XI (XI (XI (XO (XI
    XH))))))))))), (Npos (XO (XI (XI (XI (XI (XO (XO (XI (XI (XO (XO (XO
    XH)))))))))))))) :: (((Zpos (XI (XI (XI (XI (XI (XI (XO (XI (XO (XI
    XH))))))))))), (Npos (XI (XI (XI (XI (XI (XI (XO (XI (XI (XI (XI
    XH))))))))))))) :: (((Zpos (XO (XO (XI (XI (XI (XI (XI (XI (XO (XI
    XH))))))))))), (Npos (XO (XI (XO (XI (XO (XO (XI (XI (XO (XI (XO (XO
    XH)))))))))))))) :: (((Zpos (XO (XI (XI (XO (XO (XI (XI (XI (XO (XI
    XH))))))))))), (Npos (XO (XI (XI (XO (XI (XI (XO (XI (XI (XO (XO (XO
    XH)))))))))))))) :: (((Zpos (XO (XO (XI (XI (XO (XI (XI (XI (XO (XI
    XH))))))))))), (Npos (XO (XI (XO (XO (XO (XO (XO (XO (XO (XI (XO (XO
    XH)))))))))))))) :: (((Zpos (XI (XO (XI (XI (XO (XI (XI (XI (XO (XI
    XH))))))))))), (Npos (XO (XI (XI (XI (XO (XO (XO (XO (XO (XI (XO (XO
    XH)))))))))))))) :: (((Zpos (XO (XI (XI (XI (XO (XI (XI (XI (XO (XI
    XH))))))))))), (Npos (XO (XI (XO (XI (XI (XO (XO (XO (XO (XI (XO (XO
    XH)))))))))))))) :: (((Zpos (XO (XI (XO (XO (XI (XI (XI (XI (XO (XI
    XH))))))))))), (Npos (XI (XO (XO (XI (XO (XO (XI (XO (XO (XI (XO (XO
    XH)))))))))))))) :: (((Zpos (XI (XI (XO (XO (XI (XI (XI (XI (XO (XI
    XH))))))))))), (Npos (XI (XO (XI (XO (XI (XO (XI (XO (XO (XI (XO (XO
    XH)))))))))))))) :: (((Zpos (XI (XI (XI (XO (XO (XI (XI (XI (XO (XI
    XH))))))))))), (Npos (XO (XI (XO (XO (XO (XO (XI (XI (XI (XO (XO (XO
    XH)))))))))))))) :: (((Zpos (XO (XO (XO (XI (XO (XI (XI (XI (XO (XI
    XH))))))))))), (Npos (XI (XI (XI (XI (XO (XO (XI (XI (XI (XO (XO (XO
    XH)))))))))))))) :: (((Zpos (XI (XI (XI (XI (XI (XI (XI (XI (XO (XI
    XH))))))))))), (Npos (XI (XO (XO (XO (XI (XI (XI (XI (XO (XI (XO (XO
    XH)))))))))))))) :: (((Zpos (XI (XO (XO (XI (XO (XI (XI (XI (XO (XI
    XH))))))))))), (Npos (XI (XI (XO (XI (XI (XO (XI (XI (XI (XO (XO (XO
    XH)))))))))))))) :: (((Zpos (XI (XO (XI (XO (XO (XI (XI (XI (XO (XI
    XH))))))))))), (Npos (XO (XI (XO (XI (XO (XI (XO (XI (XI (XO (XO (XO
    XH)))))))))))))) :: (((Zpos (XI (XI (XO (XO (XI (XI (XO (XI (XO (XI
    XH))))))))))), (Npos (XO (XO (XI (XO (XO (XI (XI (XI (XO (XI (XI
    XH))))))))))))) :: (((Zpos (XO (XO (XO (XI (XI (XI (XO (XI (XO (XI
    XH))))))))))), (Npos (XI (XI (XI (XO (XO (XO (XI (XO (XI (XI (XI
    XH))))))))))))) :: (((Zpos (XI (XI (XO (XI (XO (XI (XI (XI (XO (XI
    XH))))))))))), (Npos (XO (XI (XI (XO (XI (XI (XI (XI (XI (XO (XO (XO
    XH)))))))))))))) :: (((Zpos (XI (XO (XO (XI (XI (XI (XO (XI (XO (XI
    XH))))))))))), (Npos (XO (XI (XI (XI (XI (XO (XI (XO (XI (XI (XI
    XH))))))))))))) :: (((Zpos (XO (XI (XO (XI (XI (XI (XO (XI (XO (XI
    XH))))))))))), (Npos (XI (XI (XI (XO (XI (XI (XI (XO (XI (XI (XI
    XH))))))))))))) :: (((Zpos (XI (XI (XI (XI (XO (XI (XI (XI (XO (XI
    XH))))))))))), (Npos (XO (XI (XI (XO (XO (XI (XO (XO (XO (XI (XO (XO
    XH)))))))))))))) :: (((Zpos (XO (XO (XO (XO (XI (XI (XI (XI (XO (XI
    XH))))))))))), (Npos (XI (XO (XO (XO (XI (XI (XO (XO (XO (XI (XO (XO
    XH)))))))))))))) :: (((Zpos (XI (XI (XO (XI (XI (XI (XI (XI (XO (XI
    XH))))))))))), (Npos (XI (XO (XI (XI (XI (XI (XO (XI (XO (XI (XO (XO
    XH)))))))))))))) :: (((Zpos (XI (XO (XI (XI (XI (XI (XI (XI (XO (XI
    XH))))))))))), (Npos (XI (XO (XI (XO (XI (XO (XI (XI (XO (XI (XO (XO
    XH)))))))))))))) :: (((Zpos (XO (XI (XO (XI (XO (XI (XI (XI (XO (XI
    XH))))))))))), (Npos (XO (XI (XI (XO (XO (XI (XI (XI (XI (XO (XO (XO
    XH)))))))))))))) :: (((Zpos (XO (XO (XO (XI (XI (XI (XI (XI (XO (XI
    XH))))))))))), (Npos (XI (XO (XO (XO (XI (XO (XO (XI (XO (XI (XO (XO
    XH)))))))))))))) :: (((Zpos (XO (XO (XI (XO (XI (XI (XI (XI (XO (XI
    XH))))))))))), (Npos (XI (XO (XO (XO (XO (XI (XI (XO (XO (XI (XO (XO
    XH)))))))))))))) :: (((Zpos (XI (XI (XO (XO (XO (XI (XI (XI (XO (XI
    XH))))))))))), (Npos (XI (XO (XO (XO (XI (XO (XO (XI (XI (XO (XO (XO
    XH)))))))))))))) :: (((Zpos (XI (XO (XI (XO (XI (XI (XI (XI (XO (XI
    XH))))))))))), (Npos (XI (XO (XI (XI (XO (XI (XI (XO (XO (XI (XO (XO
    XH)))))))))))))) :: (((Zpos (XI (XI (XI (XO (XI (XI (XI (XI (XO (XI
    XH))))))))))), (Npos (XI (XO (XI (XO (XO (XO (XO (XI (XO (XI (XO (XO
    XH)))))))))))))) :: (((Zpos (XI (XO (XO (XO (XI (XI (XI (XI (XO (XI
    XH))))))))))), (Npos (XI (XO (XI (XI (XI (XI (XO (XO (XO (XI (XO (XO
    XH)))))))))))))) :: (((Zpos (XI (XO (XO (XI (XI (XI (XI (XI (XO (XI
    XH))))))))))), (Npos (XI (XI (XO (XO (XO (XI (XO (XI (XO (XI (XO (XO
    XH)))))))))))))) :: (((Zpos (XO (XO (XO (XO (XO (XI (XI (XI (XO (XI
    XH))))))))))), (Npos (XO (XI (XI (XI (XO (XI (XI (XO (XI (XO (XO (XO
    XH)))))))))))))) :: (((Zpos (XO (XI (XO (XI (XI (XI (XI (XI (XO (XI
    XH))))))))))), (Npos (XI (XO (XO (XO (XI (XI (XO (XI (XO (XI (XO (XO
    XH)))))))))))))) :: (((Zpos (XO (XI (XI (XO (XI (XI (XI (XI (XO (XI
    XH))))))))))), (Npos (XO (XO (XO (XI (XI (XI (XI (XO (XO (XI (XO (XO
    XH)))))))))))))) :: (((Zpos (XI (XO (XO (XO (XO (XO (XI (XI (XO (XI
    XH))))))))))), (Npos (XI (XO (XI (XO (XO (XI (XI (XI (XI (XI (XI
    XH))))))))))))) :: (((Zpos (XO (XI (XO (XO (XO (XO (XI (XI (XO (XI
    XH))))))))))), (Npos (XO (XO (XO (XO (XI (XI (XI (XI (XI (XI (XI
    XH))))))))))))) :: (((Zpos (XO (XI (XI (XI (XI (XO (XI (XI (XO (XI
    XH))))))))))), (Npos (XI (XI (XI (XI (XO (XO (XI (XO (XI (XO (XO (XO
    XH)))))))))))))) :: (((Zpos (XO (XO (XI (XO (XO (XO (XI (XI (XO (XI
    XH))))))))))), (Npos (XI (XO (XO (XI (XO (XO (XO (XO (XO (XO (XO (XO
    XH)))))))))))))) :: (((Zpos (XI (XI (XI (XI (XO (XI (XO (XI (XO (XI
    XH))))))))))), (Npos (XI (XO (XI (XO (XO (XI (XO (XI (XO (XI (XI
    XH))))))))))))) :: (((Zpos (XO (XO (XI (XI (XI (XO (XI (XI (XO (XI
    XH))))))))))), (Npos (XI (XO (XI (XO (XI (XI (XO (XO (XI (XO (XO (XO
    XH)))))))))))))) :: (((Zpos (XO (XI (XI (XO (XO (XO (XI (XI (XO (XI
    XH))))))))))), (Npos (XI (XO (XO (XO (XO (XI (XO (XO (XO (XO (XO (XO
    XH)))))))))))))) :: (((Zpos (XO (XO (XI (XI (XO (XO (XI (XI (XO (XI
    XH))))))))))), (Npos (XI (XO (XI (XI (XO (XI (XI (XO (XO (XO (XO (XO
    XH)))))))))))))) :: (((Zpos (XI (XO (XI (XI (XO (XO (XI (XI (XO (XI
    XH))))))))))), (Npos (XI (XO (XO (XI (XI (XI (XI (XO (XO (XO (XO (XO
    XH)))))))))))))) :: (((Zpos (XO (XI (XI (XI (XO (XO (XI (XI (XO (XI
    XH))))))))))), (Npos (XI (XO (XI (XO (XO (XO (XO (XI (XO (XO (XO (XO
    XH)))))))))))))) :: (((Zpos (XO (XI (XO (XO (XI (XO (XI (XI (XO (XI
    XH))))))))))), (Npos (XO (XO (XI (XO (XI (XI (XO (XI (XO (XO (XO (XO
    XH)))))))))))))) :: (((Zpos (XI (XI (XO (XO (XI (XO (XI (XI (XO (XI
    XH))))))))))), (Npos (XO (XO (XO (XO (XO (XO (XI (XI (XO (XO (XO (XO
    XH)))))))))))))) :: (((Zpos (XI (XI (XI (XO (XO (XO (XI (XI (XO (XI
    XH))))))))))), (Npos (XI (XO (XI (XI (XO (XI (XO (XO (XO (XO (XO (XO
    XH)))))))))))))) :: (((Zpos (XO (XO (XO (XI (XO (XO (XI (XI (XO (XI
    XH))))))))))), (Npos (XO (XI (XO (XI (XI (XI (XO (XO (XO (XO (XO (XO
    XH)))))))))))))) :: (((Zpos (XI (XI (XI (XI (XI (XO (XI (XI (XO (XI
    XH))))))))))), (Npos (XO (XO (XI (XI (XI (XO (XI (XO (XI (XO (XO (XO
    XH)))))))))))))) :: (((Zpos (XI (XO (XO (XI (XO (XO (XI (XI (XO (XI
    XH))))))))))), (Npos (XO (XI (XI (XO (XO (XO (XI (XO (XO (XO (XO (XO
    XH)))))))))))))) :: (((Zpos (XI (XO (XI (XO (XO (XO (XI (XI (XO (XI
    XH))))))))))), (Npos (XI (XO (XI (XO (XI (XO (XO (XO (XO (XO (XO (XO
    XH)))))))))))))) :: (((Zpos (XI (XI (XO (XO (XO (XI (XO (XI (XO (XI
    XH))))))))))), (Npos (XO (XI (XO (XI (XO (XO (XI (XI (XI (XO (XI
    XH))))))))))))) :: (((Zpos (XO (XO (XO (XI (XO (XI (XO (XI (XO (XI
    XH))))))))))), (Npos (XI (XO (XI (XI (XO (XI (XO (XO (XO (XI (XI
    XH))))))))))))) :: (((Zpos (XI (XI (XO (XI (XO (XO (XI (XI (XO (XI
    XH))))))))))), (Npos (XI (XO (XO (XO (XO (XI (XI (XO (XO (XO (XO (XO
    XH)))))))))))))) :: (((Zpos (XI (XO (XO (XI (XO (XI (XO (XI (XO (XI
    XH))))))))))), (Npos (XO (XO (XI (XO (XO (XO (XI (XO (XO (XI (XI
    XH))))))))))))) :: (((Zpos (XO (XI (XO (XI (XO (XI (XO (XI (XO (XI
    XH))))))))))), (Npos (XI (XO (XI (XI (XI (XO (XI (XO (XO (XI (XI
    XH))))))))))))) :: (((Zpos (XI (XI (XI (XI (XO (XO (XI (XI (XO (XI
    XH))))))))))), (Npos (XI (XO (XO (XO (XI (XO (XO (XI (XO (XO (XO (XO
    XH)))))))))))))) :: (((Zpos (XO (XO (XO (XO (XI (XO (XI (XI (XO (XI
    XH))))))))))), (Npos (XO (XO (XI (XI (XI (XO (XO (XI (XO (XO (XO (XO
    XH)))))))))))))) :: (((Zpos (XI (XI (XO (XI (XI (XO (XI (XI (XO (XI
    XH))))))))))), (Npos (XO (XO (XO (XI (XO (XI (XO (XO (XI (XO (XO (XO
    XH)))))))))))))) :: (((Zpos (XI (XO (XI (XI (XI (XO (XI (XI (XO (XI
    XH))))))))))), (Npos (XO (XO (XO (XO (XO (XO (XI (XO (XI (XO (XO (XO
    XH)))))))))))))) :: (((Zpos (XO (XI (XO (XI (XO (XO (XI (XI (XO (XI
    XH))))))))))), (Npos (XI (XO (XO (XO (XI (XO (XI (XO (XO (XO (XO (XO
    XH)))))))))))))) :: (((Zpos (XO (XO (XO (XI (XI (XO (XI (XI (XO (XI
    XH))))))))))), (Npos (XO (XO (XI (XI (XI (XI (XI (XI (XO (XO (XO (XO
    XH)))))))))))))) :: (((Zpos (XO (XO (XI (XO (XI (XO (XI (XI (XO (XI
    XH))))))))))), (Npos (XO (XO (XI (XI (XO (XO (XI (XI (XO (XO (XO (XO
    XH)))))))))))))) :: (((Zpos (XI (XI (XO (XO (XO (XO (XI (XI (XO (XI
    XH))))))))))), (Npos (XO (XO (XI (XI (XI (XI (XI (XI (XI (XI (XI
    XH))))))))))))) :: (((Zpos (XI (XO (XI (XO (XI (XO (XI (XI (XO (XI
    XH))))))))))), (Npos (XO (XO (XO (XI (XI (XO (XI (XI (XO (XO (XO (XO
    XH)))))))))))))) :: (((Zpos (XI (XI (XI (XO (XI (XO (XI (XI (XO (XI
    XH))))))))))), (Npos (XO (XO (XO (XO (XI (XI (XI (XI (XO (XO (XO (XO
    XH)))))))))))))) :: (((Zpos (XI (XO (XO (XO (XI (XO (XI (XI (XO (XI
    XH))))))))))), (Npos (XO (XO (XO (XI (XO (XI (XO (XI (XO (XO (XO (XO
    XH)))))))))))))) :: (((Zpos (XI (XO (XO (XI (XI (XO (XI (XI (XO (XI
    XH))))))))))), (Npos (XO (XI (XI (XI (XO (XO (XO (XO (XI (XO (XO (XO
    XH)))))))))))))) :: (((Zpos (XO (XO (XO (XO (XO (XO (XI (XI (XO (XI
    XH))))))))))), (Npos (XI (XO (XO (XI (XI (XO (XI (XI (XI (XI (XI
    XH))))))))))))) :: (((Zpos (XO (XI (XO (XI (XI (XO (XI (XI (XO (XI
    XH))))))))))), (Npos (XO (XO (XI (XI (XI (XO (XO (XO (XI (XO (XO (XO
    XH)))))))))))))) :: (((Zpos (XO (XI (XI (XO (XI (XO (XI (XI (XO (XI
    XH))))))))))), (Npos (XI (XI (XO (XO (XO (XI (XI (XI (XO (XO (XO (XO
    XH)))))))))))))) :: (((Zpos (XO (XO (XI (XO (XO (XO XH))))))), (Npos (XI
    (XO (XI (XO (XI (XO (XI XH))))))))) :: (((Zpos (XI (XI (XI (XI (XO (XO
    (XI (XI XH))))))))), (Npos (XO (XO (XI (XI (XO (XI (XI (XI (XI (XO
    XH)))))))))))) :: (((Zpos (XI (XI (XI (XI (XI (XI (XI (XI (XI (XI (XI (XI
    (XI (XI (XI XH)))))))))))))))), (Npos (XO (XO (XI (XO (XO (XI (XO (XI (XO
    (XO (XO (XI (XI XH))))))))))))))) :: (((Zpos (XI (XI (XO (XI (XO (XI (XO
    (XI (XO (XO (XO (XO (XO XH)))))))))))))), (Npos (XO (XI (XI (XO (XO (XO
    (XO (XI (XI (XI (XO (XI (XO XH))))))))))))))) :: (((Zpos (XO (XO (XI (XO
    (XI (XO (XI (XO (XI (XI (XI (XI (XI (XI (XI XH)))))))))))))))), (Npos (XI
    (XO (XO (XI (XO (XI (XO (XI (XI (XO (XI (XO (XI
    XH))))))))))))))) :: (((Zpos (XO (XO (XO (XO (XI (XO (XI (XI XH))))))))),
    (Npos (XI (XI (XO (XO (XI (XI (XI (XI (XI (XO XH)))))))))))) :: (((Zpos
    (XI (XO (XI (XO (XO (XO XH))))))), (Npos (XI (XI (XI (XO (XI (XO (XI
    XH))))))))) :: (((Zpos (XI (XO (XI (XI (XI (XI (XO (XI (XI XH)))))))))),
    (Npos (XO (XO (XI (XI (XO (XO (XO (XO (XO (XO (XO
    XH))))))))))))) :: (((Zpos (XO (XO (XO (XO (XI (XO (XI XH)))))))), (Npos
    (XI (XO (XO (XI (XO (XI (XI (XO (XI XH))))))))))) :: (((Zpos (XO (XO (XI
    (XI (XO (XO (XI (XI (XI XH)))))))))), (Npos (XO (XO (XI (XO (XO (XI (XO
    (XO (XO (XO (XO XH))))))))))))) :: (((Zpos (XI (XO (XO (XI (XO (XO (XI
    XH)))))))), (Npos (XO (XI (XI (XO (XO (XI (XO (XO (XI
    XH))))))))))) :: (((Zpos (XO (XO (XI (XI (XO (XO (XI (XI XH))))))))),
    (Npos (XI (XO (XI (XO (XO (XI (XI (XI (XI (XO XH)))))))))))) :: (((Zpos
    (XO (XI (XO (XI (XO (XO (XI XH)))))))), (Npos (XI (XO (XI (XI (XO (XI (XO
    (XO (XI XH))))))))))) :: (((Zpos (XO (XO (XO (XO (XO (XI (XO (XI (XO (XO
    (XO (XO (XO XH)))))))))))))), (Npos (XI (XO (XI (XO (XI (XO (XO (XO (XI
    (XI (XO (XI (XO XH))))))))))))))) :: (((Zpos (XI (XI (XO (XI (XO (XO (XI
    XH)))))))), (Npos (XI (XO (XO (XI (XI (XI (XO (XO (XI
    XH))))))))))) :: (((Zpos (XO (XO (XO (XI (XO (XO (XI XH)))))))), (Npos
    (XI (XI (XI (XI (XI (XO (XO (XO (XI XH))))))))))) :: (((Zpos (XI (XI (XI
    (XI (XO (XI (XO (XO (XI (XI (XI (XI (XI (XI (XI XH)))))))))))))))), (Npos
    (XO (XO (XO (XO (XI (XI (XO (XI (XO (XO (XI (XO (XI
    XH))))))))))))))) :: (((Zpos (XO (XO (XO (XO (XI (XI (XO (XO (XI (XI (XI
    (XI (XI (XI (XI XH)))))))))))))))), (Npos (XI (XI (XO (XI (XI (XI (XO (XI
    (XO (XO (XI (XO (XI XH))))))))))))))) :: (((Zpos (XO (XI (XO (XI (XO (XI
    (XO (XI (XI XH)))))))))), (Npos (XI (XI (XO (XO (XO (XO (XI (XI (XI (XI
    XH)))))))))))) :: (((Zpos (XI (XI (XI (XO (XI (XO (XI (XO (XI (XI (XI (XI
    (XI (XI (XI XH)))))))))))))))), (Npos (XI (XI (XO (XI (XO (XO (XI (XI (XI
    (XO (XI (XO (XI XH))))))))))))))) :: (((Zpos (XO (XI (XO (XI (XO (XO (XI
    (XI XH))))))))), (Npos (XI (XO (XI (XI (XI (XO (XI (XI (XI (XO
    XH)))))))))))) :: (((Zpos (XI (XI (XO (XI (XI (XO (XO (XO (XI (XI (XI (XI
    (XI (XI (XI XH)))))))))))))))), (Npos (XO (XI (XI (XI (XO (XO (XO (XO (XO
    (XO (XI (XO (XI XH))))))))))))))) :: (((Zpos (XO (XO (XO (XO (XI (XO (XI
    XH)))))))), (Npos (XI (XO (XI (XI (XO (XI (XI (XO (XI
    XH))))))))))) :: (((Zpos (XO (XO (XI (XI (XO (XI (XO (XI (XO (XO (XO (XO
    (XO XH)))))))))))))), (Npos (XI (XI (XI (XI (XO (XO (XO (XI (XI (XI (XO
    (XI (XO XH))))))))))))))) :: (((Zpos (XO (XI (XO (XO (XO (XI (XI (XO (XI
    (XI (XI (XI (XI (XI (XI XH)))))))))))))))), (Npos (XO (XI (XO (XO (XO (XI
    (XI (XI (XI (XO (XI (XO (XI XH))))))))))))))) :: (((Zpos (XO (XI (XI (XO
    (XO (XO XH))))))), (Npos (XI (XO (XO (XI (XI (XO (XI
    XH))))))))) :: (((Zpos (XO (XI (XI (XI (XI (XI (XO (XI (XI (XI (XI (XI
    (XI (XI (XI XH)))))))))))))))), (Npos (XO (XI (XI (XI (XO (XI (XO (XI (XI
    (XI (XI (XO (XI XH))))))))))))))) :: (((Zpos (XI (XI (XI (XO (XO (XO (XI
    (XI (XI (XI (XI (XI (XI (XI (XI XH)))))))))))))))), (Npos (XI (XO (XO (XI
    (XO (XO (XI (XI (XI (XI (XI (XO (XI XH))))))))))))))) :: (((Zpos (XO (XO
    (XO (XI (XO (XO (XI (XI (XI (XI (XI (XI (XI (XI (XI XH)))))))))))))))),
    (Npos (XI (XO (XI (XI (XO (XO (XI (XI (XI (XI (XI (XO (XI
    XH))))))))))))))) :: (((Zpos (XI (XO (XO (XI (XO (XO (XI (XI (XI (XI (XI
    (XI (XI (XI (XI XH)))))))))))))))), (Npos (XI (XO (XO (XO (XI (XO (XI (XI
    (XI (XI (XI (XO (XI XH))))))))))))))) :: (((Zpos (XO (XI (XO (XI (XO (XO
    (XI (XI (XI (XI (XI (XI (XI (XI (XI XH)))))))))))))))), (Npos (XI (XO (XI
    (XO (XI (XO (XI (XI (XI (XI (XI (XO (XI XH))))))))))))))) :: (((Zpos (XI
    (XI (XO (XI (XO (XO (XI (XI (XI (XI (XI (XI (XI (XI (XI
    XH)))))))))))))))), (Npos (XI (XO (XO (XI (XI (XO (XI (XI (XI (XI (XI (XO
    (XI XH))))))))))))))) :: (((Zpos (XO (XO (XI (XI (XO (XO (XI (XI (XI (XI
    (XI (XI (XI (XI (XI XH)))))))))))))))), (Npos (XI (XO (XI (XI (XI (XO (XI
    (XI (XI (XI (XI (XO (XI XH))))))))))))))) :: (((Zpos (XI (XO (XI (XI (XO
    (XO (XI (XI (XI (XI (XI (XI (XI (XI (XI XH)))))))))))))))), (Npos (XI (XO
    (XO (XO (XO (XI (XI (XI (XI (XI (XI (XO (XI XH))))))))))))))) :: (((Zpos
    (XO (XI (XI (XI (XO (XO (XI (XI (XI (XI (XI (XI (XI (XI (XI
    XH)))))))))))))))), (Npos (XI (XO (XI (XO (XO (XI (XI (XI (XI (XI (XI (XO
    (XI XH))))))))))))))) :: (((Zpos (XI (XI (XI (XI (XO (XO (XI (XI (XI (XI
    (XI (XI (XI (XI (XI XH)))))))))))))))), (Npos (XI (XO (XO (XI (XO (XI (XI
    (XI (XI (XI (XI (XO (XI XH))))))))))))))) :: (((Zpos (XO (XO (XO (XO (XI
    (XO (XI (XI (XI (XI (XI (XI (XI (XI (XI XH)))))))))))))))), (Npos (XI (XO
    (XI (XI (XO (XI (XI (XI (XI (XI (XI (XO (XI XH))))))))))))))) :: (((Zpos
    (XI (XI (XI (XI (XI (XI (XO (XI (XI (XI (XI (XI (XI (XI (XI
    XH)))))))))))))))), (Npos (XI (XO (XO (XO (XI (XI (XO (XI (XI (XI (XI (XO
    (XI XH))))))))))))))) :: (((Zpos (XI (XO (XO (XO (XI (XO (XI (XI (XI (XI
    (XI (XI (XI (XI (XI XH)))))))))))))))), (Npos (XI (XO (XO (XO (XI (XI (XI
    (XI (XI (XI (XI (XO (XI XH))))))))))))))) :: (((Zpos (XO (XI (XO (XO (XI
    (XO (XI (XI (XI (XI (XI (XI (XI (XI (XI XH)))))))))))))))), (Npos (XI (XO
    (XI (XO (XI (XI (XI (XI (XI (XI (XI (XO (XI XH))))))))))))))) :: (((Zpos
    (XI (XI (XO (XO (XI (XO (XI (XI (XI (XI (XI (XI (XI (XI (XI
    XH)))))))))))))))), (Npos (XI (XO (XO (XI (XI (XI (XI (XI (XI (XI (XI (XO
    (XI XH))))))))))))))) :: (((Zpos (XO (XO (XI (XO (XI (XO (XI (XI (XI (XI
    (XI (XI (XI (XI (XI XH)))))))))))))))), (Npos (XI (XO (XI (XI (XI (XI (XI
    (XI (XI (XI (XI (XO (XI XH))))))))))))))) :: (((Zpos (XI (XO (XI (XO (XI
    (XO (XI (XI (XI (XI (XI (XI (XI (XI (XI XH)))))))))))))))), (Npos (XI (XO
    (XO (XO (XO (XO (XO (XO (XO (XO (XO (XI (XI XH))))))))))))))) :: (((Zpos
    (XO (XI (XI (XO (XI (XO (XI (XI (XI (XI (XI (XI (XI (XI (XI
    XH)))))))))))))))), (Npos (XI (XO (XI (XO (XO (XO (XO (XO (XO (XO (XO (XI
    (XI XH))))))))))))))) :: (((Zpos (XI (XI (XI (XO (XI (XO (XI (XI (XI (XI
    (XI (XI (XI (XI (XI XH)))))))))))))))), (Npos (XI (XO (XO (XI (XO (XO (XO
    (XO (XO (XO (XO (XI (XI XH))))))))))))))) :: (((Zpos (XO (XO (XO (XI (XI
    (XO (XI (XI (XI (XI (XI (XI (XI (XI (XI XH)))))))))))))))), (Npos (XI (XO
    (XI (XI (XO (XO (XO (XO (XO (XO (XO (XI (XI XH))))))))))))))) :: (((Zpos
    (XI (XO (XO (XI (XI (XO (XI (XI (XI (XI (XI (XI (XI (XI (XI
    XH)))))))))))))))), (Npos (XI (XO (XO (XO (XI (XO (XO (XO (XO (XO (XO (XI
    (XI XH))))))))))))))) :: (((Zpos (XO (XI (XO (XI (XI (XO (XI (XI (XI (XI
    (XI (XI (XI (XI (XI XH)))))))))))))))), (Npos (XI (XO (XI (XO (XI (XO (XO
    (XO (XO (XO (XO (XI (XI XH))))))))))))))) :: (((Zpos (XO (XO (XO (XO (XO
    (XO (XI (XI (XI (XI (XI (XI (XI (XI (XI XH)))))))))))))))), (Npos (XO (XO
    (XI (XO (XI (XI (XO (XI (XI (XI (XI (XO (XI XH))))))))))))))) :: (((Zpos
    (XI (XI (XO (XI (XI (XO (XI (XI (XI (XI (XI (XI (XI (XI (XI
    XH)))))))))))))))), (Npos (XI (XO (XO (XI (XI (XO (XO (XO (XO (XO (XO (XI
    (XI XH))))))))))))))) :: (((Zpos (XO (XO (XI (XI (XI (XO (XI (XI (XI (XI
    (XI (XI (XI (XI (XI XH)))))))))))))))), (Npos (XI (XO (XI (XI (XI (XO (XO
    (XO (XO (XO (XO (XI (XI XH))))))))))))))) :: (((Zpos (XI (XO (XI (XI (XI
    (XO (XI (XI (XI (XI (XI (XI (XI (XI (XI XH)))))))))))))))), (Npos (XI (XO
    (XO (XO (XO (XI (XO (XO (XO (XO (XO (XI (XI XH))))))))))))))) :: (((Zpos
    (XO (XI (XI (XI (XI (XO (XI (XI (XI (XI (XI (XI (XI (XI (XI
    XH)))))))))))))))), (Npos (XI (XO (XI (XO (XO (XI (XO (XO (XO (XO (XO (XI
    (XI XH))))))))))))))) :: (((Zpos (XI (XI (XI (XI (XI (XO (XI (XI (XI (XI
    (XI (XI (XI (XI (XI XH)))))))))))))))), (Npos (XI (XO (XO (XI (XO (XI (XO
    (XO (XO (XO (XO (XI (XI XH))))))))))))))) :: (((Zpos (XO (XO (XO (XO (XO
    (XI (XI (XI (XI (XI (XI (XI (XI (XI (XI XH)))))))))))))))), (Npos (XI (XO
    (XI (XI (XO (XI (XO (XO (XO (XO (XO (XI (XI XH))))))))))))))) :: (((Zpos
    (XI (XO (XO (XO (XO (XO (XI (XI (XI (XI (XI (XI (XI (XI (XI
    XH)))))))))))))))), (Npos (XI (XI (XI (XO (XI (XI (XO (XI (XI (XI (XI (XO
    (XI XH))))))))))))))) :: (((Zpos (XO (XI (XO (XO (XO (XO (XI (XI (XI (XI
    (XI (XI (XI (XI (XI XH)))))))))))))))), (Npos (XO (XI (XO (XI (XI (XI (XO
    (XI (XI (XI (XI (XO (XI XH))))))))))))))) :: (((Zpos (XI (XI (XO (XO (XO
    (XO (XI (XI (XI (XI (XI (XI (XI (XI (XI XH)))))))))))))))), (Npos (XI (XO
    (XI (XI (XI (XI (XO (XI (XI (XI (XI (XO (XI XH))))))))))))))) :: (((Zpos
    (XO (XO (XI (XO (XO (XO (XI (XI (XI (XI (XI (XI (XI (XI (XI
    XH)))))))))))))))), (Npos (XO (XO (XO (XO (XO (XO (XI (XI (XI (XI (XI (XO
    (XI XH))))))))))))))) :: (((Zpos (XI (XO (XI (XO (XO (XO (XI (XI (XI (XI
    (XI (XI (XI (XI (XI XH)))))))))))))))), (Npos (XI (XI (XO (XO (XO (XO (XI
    (XI (XI (XI (XI (XO (XI XH))))))))))))))) :: (((Zpos (XO (XI (XI (XO (XO
    (XO (XI (XI (XI (XI (XI (XI (XI (XI (XI XH)))))))))))))))), (Npos (XO (XI
    (XI (XO (XO (XO (XI (XI (XI (XI (XI (XO (XI XH))))))))))))))) :: (((Zpos
    (XI (XI (XO (XO (XO (XI (XO (XI (XO (XO (XO (XO (XO XH)))))))))))))),
    (Npos (XO (XO (XI (XO (XI (XI (XO (XO (XI (XI (XO (XI (XO
    XH))))))))))))))) :: (((Zpos (XO (XO (XO (XI (XO (XI (XI (XO (XI (XI (XI
    (XI (XI (XI (XI XH)))))))))))))))), (Npos (XO (XO (XO (XO (XO (XO (XO (XO
    (XO (XI (XI (XO (XI XH))))))))))))))) :: (((Zpos (XO (XO (XO (XO (XI (XO
    (XI (XI (XO (XI (XI (XI (XI (XI (XI XH)))))))))))))))), (Npos (XI (XI (XI
    (XI (XI (XI (XI (XO (XI (XO (XO (XO (XI XH))))))))))))))) :: (((Zpos (XI
    (XI (XI (XO (XO (XO XH))))))), (Npos (XI (XI (XO (XI (XI (XO (XI
    XH))))))))) :: (((Zpos (XI (XO (XI (XO (XI (XO (XI (XI (XO XH)))))))))),
    (Npos (XO (XO (XO (XI (XI (XI (XO (XO (XI (XI XH)))))))))))) :: (((Zpos
    (XI (XI (XO (XI (XO (XI (XO (XI (XO XH)))))))))), (Npos (XI (XI (XI (XI
    (XI (XO (XI (XI (XO (XI XH)))))))))))) :: (((Zpos (XI (XI (XO (XI (XO (XI
    (XO (XI (XI XH)))))))))), (Npos (XI (XI (XO (XI (XO (XO (XI (XI (XI (XI
    XH)))))))))))) :: (((Zpos (XO (XO (XO (XI (XI (XO (XI (XI (XO
    XH)))))))))), (Npos (XO (XI (XO (XO (XO (XO (XI (XO (XI (XI
    XH)))))))))))) :: (((Zpos (XI (XO (XO (XO (XO (XO (XI (XI (XI (XI
    XH))))))))))), (Npos (XO (XO (XI (XO (XO (XO (XI (XI (XO (XO (XI (XO
    XH)))))))))))))) :: (((Zpos (XI (XO (XO (XO (XO (XI (XO (XI (XI (XI
    XH))))))))))), (Npos (XI (XI (XO (XO (XO (XO (XO (XO (XI (XI (XO (XO
    XH)))))))))))))) :: (((Zpos (XO (XI (XO (XO (XO (XO (XI (XI (XI (XI
    XH))))))))))), (Npos (XO (XO (XO (XO (XI (XO (XI (XI (XO (XO (XI (XO
    XH)))))))))))))) :: (((Zpos (XI (XI (XI (XO (XI (XO (XI (XI (XI (XI
    XH))))))))))), (Npos (XO (XO (XI (XI (XI (XI (XO (XI (XI (XO (XI (XO
    XH)))))))))))))) :: (((Zpos (XO (XO (XI (XO (XO (XO (XI (XI (XI (XI
    XH))))))))))), (Npos (XI (XI (XI (XO (XO (XI (XI (XI (XO (XO (XI (XO
    XH)))))))))))))) :: (((Zpos (XI (XO (XI (XO (XO (XO (XI (XI (XI (XI
    XH))))))))))), (Npos (XI (XI (XO (XO (XI (XI (XI (XI (XO (XO (XI (XO
    XH)))))))))))))) :: (((Zpos (XO (XI (XO (XO (XO (XI (XO (XI (XI (XI
    XH))))))))))), (Npos (XI (XO (XI (XO (XI (XO (XO (XO (XI (XI (XO (XO
    XH)))))))))))))) :: (((Zpos (XI (XI (XI (XO (XO (XO (XI (XI (XI (XI
    XH))))))))))), (Npos (XO (XO (XI (XI (XO (XO (XO (XO (XI (XO (XI (XO
    XH)))))))))))))) :: (((Zpos (XI (XI (XO (XO (XO (XI (XO (XI (XI (XI
    XH))))))))))), (Npos (XI (XO (XO (XI (XO (XI (XO (XO (XI (XI (XO (XO
    XH)))))))))))))) :: (((Zpos (XI (XI (XO (XO (XO (XO (XI (XI (XI (XI
    XH))))))))))), (Npos (XI (XI (XO (XI (XI (XO (XI (XI (XO (XO (XI (XO
    XH)))))))))))))) :: (((Zpos (XI (XO (XO (XI (XO (XO (XI (XI (XI (XI
    XH))))))))))), (Npos (XO (XI (XO (XO (XO (XI (XO (XO (XI (XO (XI (XO
    XH)))))))))))))) :: (((Zpos (XO (XO (XI (XO (XO (XI (XO (XI (XI (XI
    XH))))))))))), (Npos (XI (XO (XO (XI (XI (XI (XO (XO (XI (XI (XO (XO
    XH)))))))))))))) :: (((Zpos (XI (XO (XI (XO (XO (XI (XO (XI (XI (XI
    XH))))))))))), (Npos (XI (XO (XI (XI (XI (XO (XI (XO (XI (XI (XO (XO
    XH)))))))))))))) :: (((Zpos (XI (XO (XI (XO (XO (XI (XO (XI (XI (XI
    XH))))))))))), (Npos (XO (XI (XO (XI (XO (XO (XI (XO (XI (XI (XO (XO
    XH)))))))))))))) :: (((Zpos (XO (XI (XO (XI (XO (XO (XI (XI (XI (XI
    XH))))))))))), (Npos (XI (XO (XI (XI (XO (XI (XO (XO (XI (XO (XI (XO
    XH)))))))))))))) :: (((Zpos (XI (XI (XO (XI (XO (XO (XI (XI (XI (XI
    XH))))))))))), (Npos (XI (XO (XO (XI (XI (XI (XO (XO (XI (XO (XI (XO
    XH)))))))))))))) :: (((Zpos (XI (XI (XO (XI (XO (XO (XI (XI (XI (XI
    XH))))))))))), (Npos (XO (XI (XI (XO (XO (XO (XI (XO (XI (XO (XI (XO
    XH)))))))))))))) :: (((Zpos (XO (XO (XI (XI (XO (XO (XI (XI (XI (XI
    XH))))))))))), (Npos (XO (XI (XO (XO (XI (XO (XI (XO (XI (XO (XI (XO
    XH)))))))))))))) :: (((Zpos (XI (XO (XI (XI (XO (XO (XI (XI (XI (XI
    XH))))))))))), (Npos (XI (XI (XO (XI (XI (XO (XI (XO (XI (XO (XI (XO
    XH)))))))))))))) :: (((Zpos (XI (XO (XO (XI (XI (XO (XI (XI (XI (XI
    XH))))))))))), (Npos (XO (XO (XO (XO (XI (XO (XI (XI (XI (XO (XI (XO
    XH)))))))))))))) :: (((Zpos (XI (XI (XO (XI (XO (XI (XO (XI (XI (XI
    XH))))))))))), (Npos (XI (XI (XI (XI (XO (XI (XO (XI (XI (XI (XO (XO
    XH)))))))))))))) :: (((Zpos (XI (XI (XI (XI (XO (XO (XI (XI (XI (XI
    XH))))))))))), (Npos (XI (XO (XI (XI (XO (XI (XI (XO (XI (XO (XI (XO
    XH)))))))))))))) :: (((Zpos (XI (XI (XI (XO (XO (XI (XO (XI (XI (XI
    XH))))))))))), (Npos (XI (XO (XO (XO (XI (XI (XI (XO (XI (XI (XO (XO
    XH)))))))))))))) :: (((Zpos (XO (XI (XI (XO (XI (XO (XI (XI (XI (XI
    XH))))))))))), (Npos (XO (XI (XO (XO (XI (XI (XO (XI (XI (XO (XI (XO
    XH)))))))))))))) :: (((Zpos (XO (XO (XO (XO (XI (XO (XI (XI (XI (XI
    XH))))))))))), (Npos (XI (XI (XO (XI (XI (XI (XI (XO (XI (XO (XI (XO
    XH)))))))))))))) :: (((Zpos (XO (XO (XO (XI (XI (XO (XI (XI (XI (XI
    XH))))))))))), (Npos (XO (XI (XI (XO (XO (XO (XI (XI (XI (XO (XI (XO
    XH)))))))))))))) :: (((Zpos (XI (XO (XO (XO (XI (XO (XI (XI (XI (XI
    XH))))))))))), (Npos (XO (XO (XI (XO (XO (XO (XO (XI (XI (XO (XI (XO
    XH)))))))))))))) :: (((Zpos (XO (XI (XO (XO (XI (XO (XI (XI (XI (XI
    XH))))))))))), (Npos (XO (XI (XI (XI (XO (XO (XO (XI (XI (XO (XI (XO
    XH)))))))))))))) :: (((Zpos (XO (XO (XI (XO (XI (XO (XI (XI (XI (XI
    XH))))))))))), (Npos (XO (XI (XO (XI (XI (XO (XO (XI (XI (XO (XI (XO
    XH)))))))))))))) :: (((Zpos (XO (XO (XO (XI (XO (XO (XI (XI (XI (XI
    XH))))))))))), (Npos (XO (XI (XI (XO (XI (XO (XO (XO (XI (XO (XI (XO
    XH)))))))))))))) :: (((Zpos (XI (XO (XI (XO (XI (XO (XI (XI (XI (XI
    XH))))))))))), (Npos (XO (XO (XI (XO (XO (XI (XO (XI (XI (XO (XI (XO
    XH)))))))))))))) :: (((Zpos (XO (XO (XO (XI (XO (XI (XO (XI (XI (XI
    XH))))))))))), (Npos (XI (XO (XI (XO (XO (XO (XO (XI (XI (XI (XO (XO
    XH)))))))))))))) :: (((Zpos (XI (XO (XO (XI (XO (XI (XO (XI (XI (XI
    XH))))))))))), (Npos (XI (XO (XO (XI (XI (XO (XO (XI (XI (XI (XO (XO
    XH)))))))))))))) :: (((Zpos (XO (XI (XI (XI (XO (XO (XI (XI (XI (XI
    XH))))))))))), (Npos (XO (XO (XI (XO (XO (XI (XI (XO (XI (XO (XI (XO
    XH)))))))))))))) :: (((Zpos (XO (XI (XI (XO (XO (XO (XI (XI (XI (XI
    XH))))))))))), (Npos (XI (XO (XO (XO (XO (XO (XO (XO (XI (XO (XI (XO
    XH)))))))))))))) :: (((Zpos (XO (XI (XI (XI (XO (XI (XO (XI (XI (XI
    XH))))))))))), (Npos (XI (XO (XO (XO (XO (XO (XI (XI (XI (XI (XO (XO
    XH)))))))))))))) :: (((Zpos (XI (XO (XO (XO (XO (XI (XI (XI (XI (XI
    XH))))))))))), (Npos (XO (XO (XI (XI (XI (XO (XI (XI (XI (XO (XI (XO
    XH)))))))))))))) :: (((Zpos (XI (XO (XO (XO (XI (XI (XO (XI (XI (XI
    XH))))))))))), (Npos (XI (XO (XI (XO (XO (XI (XI (XI (XI (XI (XO (XO
    XH)))))))))))))) :: (((Zpos (XO (XI (XO (XO (XO (XI (XI (XI (XI (XI
    XH))))))))))), (Npos (XO (XO (XO (XI (XO (XI (XI (XI (XI (XO (XI (XO
    XH)))))))))))))) :: (((Zpos (XI (XI (XI (XO (XI (XI (XI (XI (XI (XI
    XH))))))))))), (Npos (XO (XI (XO (XI (XO (XI (XI (XI (XO (XI (XI (XO
    XH)))))))))))))) :: (((Zpos (XO (XO (XI (XO (XO (XI (XI (XI (XI (XI
    XH))))))))))), (Npos (XI (XI (XI (XI (XI (XI (XI (XI (XI (XO (XI (XO
    XH)))))))))))))) :: (((Zpos (XI (XO (XI (XO (XO (XI (XI (XI (XI (XI
    XH))))))))))), (Npos (XI (XI (XO (XI (XO (XO (XO (XO (XO (XI (XI (XO
    XH)))))))))))))) :: (((Zpos (XO (XI (XO (XO (XI (XI (XO (XI (XI (XI
    XH))))))))))), (Npos (XI (XI (XI (XO (XI (XI (XI (XI (XI (XI (XO (XO
    XH)))))))))))))) :: (((Zpos (XI (XI (XI (XO (XO (XI (XI (XI (XI (XI
    XH))))))))))), (Npos (XO (XO (XI (XO (XO (XI (XO (XO (XO (XI (XI (XO
    XH)))))))))))))) :: (((Zpos (XI (XI (XO (XO (XI (XI (XO (XI (XI (XI
    XH))))))))))), (Npos (XI (XI (XO (XI (XO (XO (XO (XO (XO (XO (XI (XO
    XH)))))))))))))) :: (((Zpos (XI (XI (XO (XO (XI (XI (XI (XI (XI (XI
    XH))))))))))), (Npos (XO (XI (XO (XO (XI (XI (XO (XI (XO (XI (XI (XO
    XH)))))))))))))) :: (((Zpos (XI (XI (XO (XO (XO (XI (XI (XI (XI (XI
    XH))))))))))), (Npos (XI (XI (XO (XO (XI (XI (XI (XI (XI (XO (XI (XO
    XH)))))))))))))) :: (((Zpos (XI (XI (XI (XI (XO (XI (XO (XI (XI (XI
    XH))))))))))), (Npos (XO (XI (XI (XO (XI (XO (XI (XI (XI (XI (XO (XO
    XH)))))))))))))) :: (((Zpos (XI (XO (XO (XI (XO (XI (XI (XI (XI (XI
    XH))))))))))), (Npos (XO (XI (XO (XI (XI (XI (XO (XO (XO (XI (XI (XO
    XH)))))))))))))) :: (((Zpos (XO (XO (XI (XO (XI (XI (XO (XI (XI (XI
    XH))))))))))), (Npos (XI (XI (XO (XI (XI (XO (XO (XO (XO (XO (XI (XO
    XH)))))))))))))) :: (((Zpos (XO (XI (XI (XO (XI (XI (XO (XI (XI (XI
    XH))))))))))), (Npos (XI (XI (XI (XI (XI (XI (XO (XO (XO (XO (XI (XO
    XH)))))))))))))) :: (((Zpos (XI (XO (XI (XO (XI (XI (XO (XI (XI (XI
    XH))))))))))), (Npos (XO (XO (XI (XI (XO (XI (XO (XO (XO (XO (XI (XO
    XH)))))))))))))) :: (((Zpos (XO (XI (XO (XI (XO (XI (XI (XI (XI (XI
    XH))))))))))), (Npos (XI (XO (XI (XO (XO (XO (XI (XO (XO (XI (XI (XO
    XH)))))))))))))) :: (((Zpos (XI (XI (XO (XI (XO (XI (XI (XI (XI (XI
    XH))))))))))), (Npos (XI (XO (XO (XO (XI (XO (XI (XO (XO (XI (XI (XO
    XH)))))))))))))) :: (((Zpos (XI (XI (XO (XI (XO (XI (XI (XI (XI (XI
    XH))))))))))), (Npos (XO (XI (XI (XI (XI (XO (XI (XO (XO (XI (XI (XO
    XH)))))))))))))) :: (((Zpos (XO (XO (XI (XI (XO (XI (XI (XI (XI (XI
    XH))))))))))), (Npos (XO (XI (XO (XI (XO (XI (XI (XO (XO (XI (XI (XO
    XH)))))))))))))) :: (((Zpos (XI (XO (XI (XI (XO (XI (XI (XI (XI (XI
    XH))))))))))), (Npos (XI (XI (XO (XO (XI (XI (XI (XO (XO (XI (XI (XO
    XH)))))))))))))) :: (((Zpos (XI (XO (XO (XI (XI (XI (XI (XI (XI (XI
    XH))))))))))), (Npos (XO (XI (XI (XI (XI (XI (XI (XI (XO (XI (XI (XO
    XH)))))))))))))) :: (((Zpos (XI (XI (XO (XI (XI (XI (XO (XI (XI (XI
    XH))))))))))), (Npos (XO (XI (XO (XO (XI (XI (XO (XI (XO (XO (XI (XO
    XH)))))))))))))) :: (((Zpos (XI (XI (XI (XI (XO (XI (XI (XI (XI (XI
    XH))))))))))), (Npos (XI (XO (XI (XO (XO (XO (XO (XI (XO (XI (XI (XO
    XH)))))))))))))) :: (((Zpos (XI (XI (XI (XO (XI (XI (XO (XI (XI (XI
    XH))))))))))), (Npos (XO (XO (XO (XI (XI (XO (XI (XO (XO (XO (XI (XO
    XH)))))))))))))) :: (((Zpos (XO (XI (XI (XO (XI (XI (XI (XI (XI (XI
    XH))))))))))), (Npos (XO (XO (XO (XO (XO (XI (XI (XI (XO (XI (XI (XO
    XH)))))))))))))) :: (((Zpos (XO (XO (XO (XO (XI (XI (XI (XI (XI (XI
    XH))))))))))), (Npos (XI (XI (XO (XO (XI (XO (XO (XI (XO (XI (XI (XO
    XH)))))))))))))) :: (((Zpos (XO (XO (XO (XI (XI (XI (XI (XI (XI (XI
    XH))))))))))), (Npos (XO (XO (XI (XO (XI (XI (XI (XI (XO (XI (XI (XO
    XH)))))))))))))) :: (((Zpos (XI (XO (XO (XO (XI (XI (XI (XI (XI (XI
    XH))))))))))), (Npos (XO (XO (XI (XI (XI (XO (XO (XI (XO (XI (XI (XO
    XH)))))))))))))) :: (((Zpos (XO (XI (XO (XO (XI (XI (XI (XI (XI (XI
    XH))))))))))), (Npos (XO (XI (XI (XO (XO (XI (XO (XI (XO (XI (XI (XO
    XH)))))))))))))) :: (((Zpos (XO (XI (XI (XI (XI (XI (XI (XO (XI (XI (XI
    (XI (XI (XI (XI XH)))))))))))))))), (Npos (XI (XO (XI (XO (XO (XI (XO (XO
    (XO (XI (XI (XO (XI XH))))))))))))))) :: (((Zpos (XO (XO (XI (XO (XI (XI
    (XI (XI (XI (XI XH))))))))))), (Npos (XO (XO (XO (XI (XO (XO (XI (XI (XO
    (XI (XI (XO XH)))))))))))))) :: (((Zpos (XO (XO (XO (XI (XO (XI (XI (XI
    (XI (XI XH))))))))))), (Npos (XO (XI (XI (XI (XO (XI (XO (XO (XO (XI (XI
    (XO XH)))))))))))))) :: (((Zpos (XI (XO (XI (XO (XI (XI (XI (XI (XI (XI
    XH))))))))))), (Npos (XO (XI (XO (XO (XI (XO (XI (XI (XO (XI (XI (XO
    XH)))))))))))))) :: (((Zpos (XO (XO (XO (XI (XI (XI (XO (XI (XI (XI
    XH))))))))))), (Npos (XO (XO (XI (XI (XO (XI (XI (XO (XO (XO (XI (XO
    XH)))))))))))))) :: (((Zpos (XO (XI (XO (XI (XI (XI (XO (XI (XI (XI
    XH))))))))))), (Npos (XO (XI (XI (XO (XI (XO (XO (XI (XO (XO (XI (XO
    XH)))))))))))))) :: (((Zpos (XI (XO (XO (XI (XI (XI (XO (XI (XI (XI
    XH))))))))))), (Npos (XO (XO (XO (XO (XO (XO (XO (XI (XO (XO (XI (XO
    XH)))))))))))))) :: (((Zpos (XO (XI (XI (XI (XO (XI (XI (XI (XI (XI
    XH))))))))))), (Npos (XO (XO (XI (XI (XI (XI (XI (XO (XO (XI (XI (XO
    XH)))))))))))))) :: (((Zpos (XO (XI (XI (XO (XO (XI (XI (XI (XI (XI
    XH))))))))))), (Npos (XI (XO (XO (XI (XI (XO (XO (XO (XO (XI (XI (XO
    XH)))))))))))))) :: (((Zpos (XO (XO (XO (XI (XO (XO XH))))))), (Npos (XI
    (XO (XI (XI (XI (XO (XI XH))))))))) :: (((Zpos (XI (XO (XO (XO (XI (XI
    (XO (XO (XI (XI (XI (XI (XI (XI (XI XH)))))))))))))))), (Npos (XI (XI (XI
    (XO (XO (XO (XI (XI (XO (XO (XI (XO (XI XH))))))))))))))) :: (((Zpos (XI
    (XI (XI (XI (XI (XI (XO (XI (XO (XI (XI XH)))))))))))), (Npos (XO (XO (XI
    (XO (XI (XO (XI (XO (XI (XI (XI (XO (XO XH))))))))))))))) :: (((Zpos (XO
    (XO (XO (XO (XO (XO (XI (XI (XO (XI (XI XH)))))))))))), (Npos (XI (XO (XI
    (XI (XI (XO (XI (XO (XI (XI (XI (XO (XO XH))))))))))))))) :: (((Zpos (XO
    (XI (XI (XO (XI (XI (XI (XI (XO (XI (XI XH)))))))))))), (Npos (XI (XO (XI
    (XI (XI (XO (XO (XI (XO (XI (XO (XI (XO XH))))))))))))))) :: (((Zpos (XI
    (XI (XI (XO (XI (XI (XI (XI (XO (XI (XI XH)))))))))))), (Npos (XO (XI (XO
    (XI (XO (XI (XO (XI (XO (XI (XO (XI (XO XH))))))))))))))) :: (((Zpos (XI
    (XO (XO (XI (XI (XI (XO (XO (XI (XI (XI (XI (XI (XI (XI
    XH)))))))))))))))), (Npos (XI (XO (XI (XO (XO (XI (XO (XO (XI (XO (XI (XO
    (XI XH))))))))))))))) :: (((Zpos (XO (XI (XO (XI (XI (XI (XO (XI (XO (XI
    (XI XH)))))))))))), (Npos (XI (XO (XO (XO (XI (XO (XO (XO (XI (XI (XI (XO
    (XO XH))))))))))))))) :: (((Zpos (XI (XI (XI (XO (XO (XI (XO (XI (XO (XI
    (XI XH)))))))))))), (Npos (XO (XI (XI (XI (XI (XO (XI (XI (XI (XO (XI (XO
    (XO XH))))))))))))))) :: (((Zpos (XO (XO (XI (XO (XO (XO (XI (XI (XO (XI
    (XI XH)))))))))))), (Npos (XO (XI (XI (XO (XO (XO (XO (XI (XI (XI (XI (XO
    (XO XH))))))))))))))) :: (((Zpos (XI (XI (XO (XO (XO (XO (XI (XI (XO (XI
    (XI XH)))))))))))), (Npos (XO (XO (XI (XI (XI (XI (XI (XO (XI (XI (XI (XO
    (XO XH))))))))))))))) :: (((Zpos (XI (XO (XO (XO (XI (XO (XI (XI (XO (XI
    (XI XH)))))))))))), (Npos (XO (XO (XO (XI (XO (XO (XO (XO (XO (XO (XO (XI
    (XO XH))))))))))))))) :: (((Zpos (XI (XI (XO (XO (XI (XI (XO (XO (XI (XI
    (XI (XI (XI (XI (XI XH)))))))))))))))), (Npos (XI (XI (XO (XI (XI (XO (XI
    (XI (XO (XO (XI (XO (XI XH))))))))))))))) :: (((Zpos (XO (XO (XI (XO (XI
    (XI (XO (XO (XI (XI (XI (XI (XI (XI (XI XH)))))))))))))))), (Npos (XO (XI
    (XI (XO (XO (XI (XI (XI (XO (XO (XI (XO (XI XH))))))))))))))) :: (((Zpos
    (XO (XI (XI (XI (XI (XI (XO (XI (XO (XI (XI XH)))))))))))), (Npos (XI (XI
    (XI (XO (XO (XO (XI (XO (XI (XI (XI (XO (XO XH))))))))))))))) :: (((Zpos
    (XI (XI (XO (XO (XI (XO (XI (XI (XO (XI (XI XH)))))))))))), (Npos (XO (XO
    (XI (XI (XI (XO (XO (XO (XO (XO (XO (XI (XO XH))))))))))))))) :: (((Zpos
    (XI (XI (XI (XO (XI (XI (XO (XI (XO (XI (XI XH)))))))))))), (Npos (XI (XO
    (XI (XO (XO (XI (XI (XI (XO (XI (XI (XO (XO XH))))))))))))))) :: (((Zpos
    (XO (XI (XO (XI (XO (XI (XI (XI (XO (XI (XI XH)))))))))))), (Npos (XI (XO
    (XO (XO (XI (XI (XO (XI (XI (XO (XO (XI (XO XH))))))))))))))) :: (((Zpos
    (XO (XI (XO (XI (XI (XO (XI (XI (XO (XI (XI XH)))))))))))), (Npos (XI (XO
    (XI (XO (XI (XO (XO (XI (XO (XO (XO (XI (XO XH))))))))))))))) :: (((Zpos
    (XO (XI (XI (XI (XO (XI (XI (XI (XO (XI (XI XH)))))))))))), (Npos (XI (XI
    (XI (XI (XO (XI (XI (XI (XI (XO (XO (XI (XO XH))))))))))))))) :: (((Zpos
    (XO (XO (XO (XI (XO (XI (XI (XI (XO (XI (XI XH)))))))))))), (Npos (XI (XI
    (XO (XO (XI (XO (XO (XI (XI (XO (XO (XI (XO XH))))))))))))))) :: (((Zpos
    (XI (XO (XO (XI (XO (XI (XI (XI (XO (XI (XI XH)))))))))))), (Npos (XO (XI
    (XO (XO (XO (XI (XO (XI (XI (XO (XO (XI (XO XH))))))))))))))) :: (((Zpos
    (XI (XI (XO (XI (XO (XI (XI (XI (XO (XI (XI XH)))))))))))), (Npos (XO (XO
    (XO (XO (XO (XO (XI (XI (XI (XO (XO (XI (XO XH))))))))))))))) :: (((Zpos
    (XO (XO (XI (XO (XI (XO (XI (XI (XO (XI (XI XH)))))))))))), (Npos (XI (XO
    (XI (XO (XO (XI (XO (XO (XO (XO (XO (XI (XO XH))))))))))))))) :: (((Zpos
    (XO (XI (XI (XO (XI (XO (XI (XI (XO (XI (XI XH)))))))))))), (Npos (XO (XI
    (XO (XI (XO (XO (XI (XO (XO (XO (XO (XI (XO XH))))))))))))))) :: (((Zpos
    (XI (XO (XO (XI (XI (XI (XI (XI (XO (XI (XI XH)))))))))))), (Npos (XI (XO
    (XO (XI (XO (XO (XI (XI (XO (XI (XO (XI (XO XH))))))))))))))) :: (((Zpos
    (XI (XI (XO (XO (XO (XI (XI (XI (XO (XI (XI XH)))))))))))), (Npos (XI (XO
    (XO (XO (XO (XO (XI (XO (XI (XO (XO (XI (XO XH))))))))))))))) :: (((Zpos
    (XI (XI (XI (XO (XI (XO (XI (XI (XO (XI (XI XH)))))))))))), (Npos (XO (XI
    (XI (XI (XI (XO (XI (XO (XO (XO (XO (XI (XO XH))))))))))))))) :: (((Zpos
    (XI (XO (XO (XI (XI (XO (XI (XI (XO (XI (XI XH)))))))))))), (Npos (XI (XO
    (XO (XO (XO (XO (XO (XI (XO (XO (XO (XI (XO XH))))))))))))))) :: (((Zpos
    (XO (XO (XO (XI (XI (XO (XI (XI (XO (XI (XI XH)))))))))))), (Npos (XI (XO
    (XI (XI (XO (XI (XI (XO (XO (XO (XO (XI (XO XH))))))))))))))) :: (((Zpos
    (XO (XO (XO (XI (XI (XI (XI (XI (XO (XI (XI XH)))))))))))), (Npos (XO (XO
    (XO (XI (XI (XI (XO (XI (XO (XI (XO (XI (XO XH))))))))))))))) :: (((Zpos
    (XI (XO (XI (XI (XO (XI (XI (XI (XO (XI (XI XH)))))))))))), (Npos (XI (XI
    (XI (XI (XI (XO (XI (XI (XI (XO (XO (XI (XO XH))))))))))))))) :: (((Zpos
    (XO (XO (XI (XO (XO (XI (XI (XI (XO (XI (XI XH)))))))))))), (Npos (XO (XO
    (XO (XO (XI (XO (XI (XO (XI (XO (XO (XI (XO XH))))))))))))))) :: (((Zpos
    (XI (XO (XI (XO (XO (XI (XI (XI (XO (XI (XI XH)))))))))))), (Npos (XI (XI
    (XI (XI (XI (XO (XI (XO (XI (XO (XO (XI (XO XH))))))))))))))) :: (((Zpos
    (XI (XI (XO (XI (XI (XO (XI (XI (XO (XI (XI XH)))))))))))), (Npos (XI (XO
    (XI (XO (XO (XI (XO (XI (XO (XO (XO (XI (XO XH))))))))))))))) :: (((Zpos
    (XO (XI (XO (XO (XO (XI (XI (XI (XO (XI (XI XH)))))))))))), (Npos (XI (XO
    (XI (XI (XO (XI (XO (XO (XI (XO (XO (XI (XO XH))))))))))))))) :: (((Zpos
    (XO (XO (XI (XI (XI (XO (XI (XI (XO (XI (XI XH)))))))))))), (Npos (XO (XO
    (XI (XO (XI (XI (XO (XI (XO (XO (XO (XI (XO XH))))))))))))))) :: (((Zpos
    (XI (XO (XI (XI (XI (XO (XI (XI (XO (XI (XI XH)))))))))))), (Npos (XI (XO
    (XO (XI (XO (XO (XI (XI (XO (XO (XO (XI (XO XH))))))))))))))) :: (((Zpos
    (XI (XO (XO (XO (XO (XI (XI (XI (XO (XI (XI XH)))))))))))), (Npos (XO (XO
    (XO (XI (XI (XO (XO (XO (XI (XO (XO (XI (XO XH))))))))))))))) :: (((Zpos
    (XO (XI (XI (XI (XI (XO (XI (XI (XO (XI (XI XH)))))))))))), (Npos (XI (XO
    (XI (XI (XI (XO (XI (XI (XO (XO (XO (XI (XO XH))))))))))))))) :: (((Zpos
    (XI (XI (XI (XI (XI (XO (XI (XI (XO (XI (XI XH)))))))))))), (Npos (XI (XO
    (XO (XO (XI (XI (XI (XI (XO (XO (XO (XI (XO XH))))))))))))))) :: (((Zpos
    (XO (XO (XO (XO (XO (XI (XI (XI (XO (XI (XI XH)))))))))))), (Npos (XO (XO
    (XI (XO (XO (XO (XO (XO (XI (XO (XO (XI (XO XH))))))))))))))) :: (((Zpos
    (XO (XI (XI (XO (XO (XI (XI (XI (XO (XI (XI XH)))))))))))), (Npos (XO (XI
    (XO (XO (XI (XI (XI (XO (XI (XO (XO (XI (XO XH))))))))))))))) :: (((Zpos
    (XI (XO (XI (XO (XI (XO (XI (XI (XO (XI (XI XH)))))))))))), (Npos (XI (XO
    (XI (XO (XI (XI (XO (XO (XO (XO (XO (XI (XO XH))))))))))))))) :: (((Zpos
    (XI (XI (XI (XO (XO (XI (XI (XI (XO (XI (XI XH)))))))))))), (Npos (XO (XO
    (XO (XO (XO (XO (XO (XI (XI (XO (XO (XI (XO XH))))))))))))))) :: (((Zpos
    (XO (XO (XI (XI (XO (XI (XI (XI (XO (XI (XI XH)))))))))))), (Npos (XO (XO
    (XO (XO (XI (XO (XI (XI (XI (XO (XO (XI (XO XH))))))))))))))) :: (((Zpos
    (XO (XI (XO (XI (XI (XI (XI (XI (XO (XI (XI XH)))))))))))), (Npos (XO (XO
    (XI (XO (XO (XI (XI (XI (XO (XI (XO (XI (XO XH))))))))))))))) :: (((Zpos
    (XI (XO (XI (XO (XI (XI (XO (XO (XI (XI (XI (XI (XI (XI (XI
    XH)))))))))))))))), (Npos (XI (XI (XO (XO (XI (XI (XI (XI (XO (XO (XI (XO
    (XI XH))))))))))))))) :: (((Zpos (XO (XO (XO (XI (XI (XI (XO (XO (XI (XI
    (XI (XI (XI (XI (XI XH)))))))))))))))), (Npos (XI (XI (XI (XO (XI (XO (XO
    (XO (XI (XO (XI (XO (XI XH))))))))))))))) :: (((Zpos (XO (XO (XO (XI (XI
    (XI (XO (XI (XO (XI (XI XH)))))))))))), (Npos (XO (XI (XO (XO (XI (XI (XI
    (XI (XO (XI (XI (XO (XO XH))))))))))))))) :: (((Zpos (XI (XI (XO (XI (XI
    (XI (XO (XI (XO (XI (XI XH)))))))))))), (Npos (XO (XI (XI (XI (XI (XO (XO
    (XO (XI (XI (XI (XO (XO XH))))))))))))))) :: (((Zpos (XI (XO (XO (XO (XO
    (XI (XO (XI (XO (XI (XI XH)))))))))))), (Npos (XO (XI (XO (XI (XI (XI (XI
    (XO (XI (XO (XI (XO (XO XH))))))))))))))) :: (((Zpos (XI (XI (XO (XO (XO
    (XI (XO (XI (XO (XI (XI XH)))))))))))), (Npos (XI (XI (XO (XI (XI (XO (XO
    (XI (XI (XO (XI (XO (XO XH))))))))))))))) :: (((Zpos (XI (XI (XO (XO (XI
    (XI (XI (XI (XO (XI (XI XH)))))))))))), (Npos (XI (XI (XI (XO (XI (XO (XI
    (XO (XO (XI (XO (XI (XO XH))))))))))))))) :: (((Zpos (XI (XO (XO (XO (XI
    (XI (XO (XI (XO (XI (XI XH)))))))))))), (Npos (XI (XI (XO (XI (XO (XO (XO
    (XI (XO (XI (XI (XO (XO XH))))))))))))))) :: (((Zpos (XO (XO (XI (XO (XO
    (XI (XO (XI (XO (XI (XI XH)))))))))))), (Npos (XI (XO (XI (XI (XO (XI (XO
    (XI (XI (XO (XI (XO (XO XH))))))))))))))) :: (((Zpos (XO (XI (XI (XO (XO
    (XI (XO (XI (XO (XI (XI XH)))))))))))), (Npos (XO (XO (XI (XI (XO (XO (XI
    (XI (XI (XO (XI (XO (XO XH))))))))))))))) :: (((Zpos (XI (XO (XI (XO (XO
    (XI (XO (XI (XO (XI (XI XH)))))))))))), (Npos (XO (XI (XO (XI (XI (XI (XO
    (XI (XI (XO (XI (XO (XO XH))))))))))))))) :: (((Zpos (XI (XI (XI (XO (XO
    (XO (XI (XI (XO (XI (XI XH)))))))))))), (Npos (XO (XO (XI (XO (XO (XI (XO
    (XI (XI (XI (XI (XO (XO XH))))))))))))))) :: (((Zpos (XO (XI (XO (XI (XO
    (XO (XI (XI (XO (XI (XI XH)))))))))))), (Npos (XO (XI (XO (XO (XO (XO (XI
    (XI (XI (XI (XI (XO (XO XH))))))))))))))) :: (((Zpos (XO (XI (XO (XO (XI
    (XI (XI (XI (XO (XI (XI XH)))))))))))), (Npos (XO (XO (XO (XI (XO (XO (XI
    (XO (XO (XI (XO (XI (XO XH))))))))))))))) :: (((Zpos (XI (XO (XI (XI (XI
    (XI (XO (XI (XO (XI (XI XH)))))))))))), (Npos (XI (XO (XO (XI (XI (XI (XO
    (XO (XI (XI (XI (XO (XO XH))))))))))))))) :: (((Zpos (XO (XI (XO (XO (XI
    (XI (XO (XI (XO (XI (XI XH)))))))))))), (Npos (XO (XO (XO (XI (XI (XO (XO
    (XI (XO (XI (XI (XO (XO XH))))))))))))))) :: (((Zpos (XO (XO (XI (XO (XI
    (XI (XO (XI (XO (XI (XI XH)))))))))))), (Npos (XI (XI (XI (XO (XI (XI (XO
    (XI (XO (XI (XI (XO (XO XH))))))))))))))) :: (((Zpos (XI (XI (XO (XI (XI
    (XI (XO (XO (XI (XI (XI (XI (XI (XI (XI XH)))))))))))))))), (Npos (XO (XI
    (XO (XO (XO (XO (XI (XO (XI (XO (XI (XO (XI XH))))))))))))))) :: (((Zpos
    (XO (XI (XO (XI (XI (XI (XO (XO (XI (XI (XI (XI (XI (XI (XI
    XH)))))))))))))))), (Npos (XO (XI (XO (XO (XI (XI (XO (XO (XI (XO (XI (XO
    (XI XH))))))))))))))) :: (((Zpos (XI (XO (XO (XI (XO (XI (XO (XI (XO (XI
    (XI XH)))))))))))), (Npos (XI (XI (XI (XI (XI (XI (XI (XI (XI (XO (XI (XO
    (XO XH))))))))))))))) :: (((Zpos (XO (XO (XO (XO (XI (XI (XO (XI (XO (XI
    (XI XH)))))))))))), (Npos (XI (XO (XO (XI (XI (XI (XI (XO (XO (XI (XI (XO
    (XO XH))))))))))))))) :: (((Zpos (XO (XI (XO (XI (XO (XI (XO (XI (XO (XI
    (XI XH)))))))))))), (Npos (XO (XO (XI (XI (XO (XO (XO (XO (XO (XI (XI (XO
    (XO XH))))))))))))))) :: (((Zpos (XI (XI (XO (XI (XO (XI (XO (XI (XO (XI
    (XI XH)))))))))))), (Npos (XI (XI (XI (XI (XI (XO (XO (XO (XO (XI (XI (XO
    (XO XH))))))))))))))) :: (((Zpos (XI (XI (XI (XI (XO (XI (XO (XI (XO (XI
    (XI XH)))))))))))), (Npos (XO (XI (XI (XO (XO (XI (XI (XO (XO (XI (XI (XO
    (XO XH))))))))))))))) :: (((Zpos (XO (XO (XI (XI (XO (XI (XO (XI (XO (XI
    (XI XH)))))))))))), (Npos (XI (XO (XO (XO (XI (XI (XO (XO (XO (XI (XI (XO
    (XO XH))))))))))))))) :: (((Zpos (XI (XO (XI (XI (XO (XI (XO (XI (XO (XI
    (XI XH)))))))))))), (Npos (XI (XI (XO (XO (XO (XO (XI (XO (XO (XI (XI (XO
    (XO XH))))))))))))))) :: (((Zpos (XO (XI (XI (XI (XO (XI (XO (XI (XO (XI
    (XI XH)))))))))))), (Npos (XO (XO (XI (XO (XI (XO (XI (XO (XO (XI (XI (XO
    (XO XH))))))))))))))) :: (((Zpos (XI (XI (XI (XI (XO (XI (XI (XI (XO (XI
    (XI XH)))))))))))), (Npos (XO (XI (XI (XI (XI (XI (XI (XI (XI (XO (XO (XI
    (XO XH))))))))))))))) :: (((Zpos (XO (XI (XI (XO (XI (XI (XO (XO (XI (XI
    (XI (XI (XI (XI (XI XH)))))))))))))))), (Npos (XI (XI (XI (XI (XI (XI (XI
    (XI (XO (XO (XI (XO (XI XH))))))))))))))) :: (((Zpos (XI (XO (XI (XO (XI
    (XI (XO (XI (XO (XI (XI XH)))))))))))), (Npos (XO (XO (XO (XI (XO (XO (XI
    (XI (XO (XI (XI (XO (XO XH))))))))))))))) :: (((Zpos (XI (XI (XI (XI (XI
    (XI (XO (XO (XI (XI (XI (XI (XI (XI (XI XH)))))))))))))))), (Npos (XI (XI
    (XI (XO (XO (XO (XO (XI (XI (XO (XI (XO (XI XH))))))))))))))) :: (((Zpos
    (XO (XO (XO (XI (XO (XI (XO (XI (XO (XI (XI XH)))))))))))), (Npos (XO (XO
    (XI (XI (XO (XI (XI (XI (XI (XO (XI (XO (XO XH))))))))))))))) :: (((Zpos
    (XI (XO (XO (XI (XI (XI (XO (XI (XO (XI (XI XH)))))))))))), (Npos (XI (XI
    (XI (XI (XI (XI (XI (XI (XO (XI (XI (XO (XO XH))))))))))))))) :: (((Zpos
    (XO (XI (XO (XO (XO (XI (XO (XI (XO (XI (XI XH)))))))))))), (Npos (XO (XO
    (XO (XI (XO (XO (XO (XI (XI (XO (XI (XO (XO XH))))))))))))))) :: (((Zpos
    (XI (XI (XO (XO (XI (XI (XO (XI (XO (XI (XI XH)))))))))))), (Npos (XI (XO
    (XI (XO (XO (XI (XO (XI (XO (XI (XI (XO (XO XH))))))))))))))) :: (((Zpos
    (XO (XI (XI (XO (XI (XI (XO (XI (XO (XI (XI XH)))))))))))), (Npos (XO (XO
    (XI (XO (XI (XO (XI (XI (XO (XI (XI (XO (XO XH))))))))))))))) :: (((Zpos
    (XO (XI (XO (XO (XI (XI (XO (XO (XI (XI (XI (XI (XI (XI (XI
    XH)))))))))))))))), (Npos (XO (XI (XI (XI (XO (XO (XI (XI (XO (XO (XI (XO
    (XI XH))))))))))))))) :: (((Zpos (XO (XO (XO (XO (XI (XI (XI (XI (XO (XI
    (XI XH)))))))))))), (Npos (XO (XI (XI (XO (XI (XO (XO (XO (XO (XI (XO (XI
    (XO XH))))))))))))))) :: (((Zpos (XO (XO (XI (XO (XI (XI (XI (XI (XO (XI
    (XI XH)))))))))))), (Npos (XO (XO (XO (XO (XI (XI (XI (XO (XO (XI (XO (XI
    (XO XH))))))))))))))) :: (((Zpos (XI (XO (XO (XO (XI (XI (XI (XI (XO (XI
    (XI XH)))))))))))), (Npos (XI (XI (XI (XI (XO (XI (XO (XO (XO (XI (XO (XI
    (XO XH))))))))))))))) :: (((Zpos (XO (XO (XI (XI (XI (XI (XO (XI (XO (XI
    (XI XH)))))))))))), (Npos (XO (XO (XI (XI (XO (XI (XO (XO (XI (XI (XI (XO
    (XO XH))))))))))))))) :: (((Zpos (XO (XO (XI (XI (XO (XO (XI (XI (XO (XI
    (XI XH)))))))))))), (Npos (XO (XI (XI (XO (XI (XO (XI (XI (XI (XI (XI (XO
    (XO XH))))))))))))))) :: (((Zpos (XO (XO (XO (XI (XO (XO (XI (XI (XO (XI
    (XI XH)))))))))))), (Npos (XI (XO (XI (XI (XO (XI (XO (XI (XI (XI (XI (XO
    (XO XH))))))))))))))) :: (((Zpos (XI (XO (XO (XI (XO (XO (XI (XI (XO (XI
    (XI XH)))))))))))), (Npos (XI (XI (XI (XO (XI (XI (XO (XI (XI (XI (XI (XO
    (XO XH))))))))))))))) :: (((Zpos (XO (XI (XI (XI (XO (XO (XI (XI (XO (XI
    (XI XH)))))))))))), (Npos (XO (XI (XO (XI (XO (XI (XI (XI (XI (XI (XI (XO
    (XO XH))))))))))))))) :: (((Zpos (XI (XO (XI (XI (XO (XO (XI (XI (XO (XI
    (XI XH)))))))))))), (Npos (XI (XI (XI (XI (XI (XO (XI (XI (XI (XI (XI (XO
    (XO XH))))))))))))))) :: (((Zpos (XI (XI (XI (XI (XO (XO (XI (XI (XO (XI
    (XI XH)))))))))))), (Npos (XO (XO (XI (XO (XI (XI (XI (XI (XI (XI (XI (XO
    (XO XH))))))))))))))) :: (((Zpos (XI (XO (XO (XO (XO (XO (XI (XI (XO (XI
    (XI XH)))))))))))), (Npos (XI (XI (XI (XO (XO (XI (XI (XO (XI (XI (XI (XO
    (XO XH))))))))))))))) :: (((Zpos (XO (XI (XO (XO (XO (XO (XI (XI (XO (XI
    (XI XH)))))))))))), (Npos (XI (XO (XO (XO (XI (XI (XI (XO (XI (XI (XI (XO
    (XO XH))))))))))))))) :: (((Zpos (XO (XI (XI (XO (XO (XO (XI (XI (XO (XI
    (XI XH)))))))))))), (Npos (XO (XI (XO (XI (XI (XO (XO (XI (XI (XI (XI (XO
    (XO XH))))))))))))))) :: (((Zpos (XI (XO (XI (XO (XO (XO (XI (XI (XO (XI
    (XI XH)))))))))))), (Npos (XI (XI (XI (XI (XO (XO (XO (XI (XI (XI (XI (XO
    (XO XH))))))))))))))) :: (((Zpos (XO (XI (XO (XO (XI (XO (XI (XI (XO (XI
    (XI XH)))))))))))), (Npos (XO (XI (XO (XO (XI (XO (XO (XO (XO (XO (XO (XI
    (XO XH))))))))))))))) :: (((Zpos (XI (XI (XO (XI (XO (XO (XI (XI (XO (XI
    (XI XH)))))))))))), (Npos (XO (XO (XI (XI (XO (XO (XI (XI (XI (XI (XI (XO
    (XO XH))))))))))))))) :: (((Zpos (XO (XO (XO (XO (XI (XO (XI (XI (XO (XI
    (XI XH)))))))))))), (Npos (XO (XI (XI (XI (XI (XI (XI (XI (XI (XI (XI (XO
    (XO XH))))))))))))))) :: (((Zpos (XI (XO (XI (XO (XI (XI (XI (XI (XO (XI
    (XI XH)))))))))))), (Npos (XO (XI (XO (XI (XO (XO (XO (XI (XO (XI (XO (XI
    (XO XH))))))))))))))) :: (((Zpos (XO (XI (XI (XI (XI (XI (XI (XO (XI (XI
    (XI (XI (XI (XI (XI XH)))))))))))))))), (Npos (XO (XI (XO (XO (XI (XI (XO
    (XO (XO (XI (XI (XO (XI XH))))))))))))))) :: (((Zpos (XI (XO (XO (XI (XO
    (XI (XO (XO (XI (XI (XI (XI (XI (XI (XI XH)))))))))))))))), (Npos (XO (XO
    (XI (XO (XI (XI (XI (XO (XO (XO (XI (XO (XI XH))))))))))))))) :: (((Zpos
    (XO (XI (XI (XO (XO (XI (XO (XI (XO XH)))))))))), (Npos (XI (XO (XO (XI
    (XO (XO (XI (XI (XO (XI XH)))))))))))) :: (((Zpos (XO (XI (XI (XI (XI (XI
    (XI (XO (XI (XI (XI (XI (XI (XI (XI XH)))))))))))))))), (Npos (XO (XO (XO
    (XO (XO (XO (XI (XO (XO (XI (XI (XO (XI XH))))))))))))))) :: (((Zpos (XO
    (XI (XO (XI (XO (XI (XI (XO (XI (XI (XI (XI (XI (XI (XI
    XH)))))))))))))))), (Npos (XO (XO (XI (XI (XO (XO (XO (XO (XO (XI (XI (XO
    (XI XH))))))))))))))) :: (((Zpos (XI (XI (XO (XO (XO (XI (XO (XO (XI (XI
    (XI (XI (XI (XI (XI XH)))))))))))))))), (Npos (XO (XI (XI (XI (XO (XI (XO
    (XO (XO (XO (XI (XO (XI XH))))))))))))))) :: (((Zpos (XI (XI (XO (XO (XO
    (XI (XO (XO (XI (XI (XI (XI (XI (XI (XI XH)))))))))))))))), (Npos (XI (XO
    (XI (XO (XI (XI (XO (XO (XO (XO (XI (XO (XI XH))))))))))))))) :: (((Zpos
    (XI (XO (XI (XO (XO (XI (XO (XO (XI (XI (XI (XI (XI (XI (XI
    XH)))))))))))))))), (Npos (XO (XO (XO (XI (XO (XO (XI (XO (XO (XO (XI (XO
    (XI XH))))))))))))))) :: (((Zpos (XI (XI (XI (XO (XO (XI (XO (XO (XI (XI
    (XI (XI (XI (XI (XI XH)))))))))))))))), (Npos (XO (XI (XO (XI (XI (XO (XI
    (XO (XO (XO (XI (XO (XI XH))))))))))))))) :: (((Zpos (XO (XO (XO (XO (XI
    (XO (XI (XO (XI (XI (XI (XI (XI (XI (XI XH)))))))))))))))), (Npos (XO (XI
    (XI (XO (XI (XO (XO (XI (XI (XO (XI (XO (XI XH))))))))))))))) :: (((Zpos
    (XI (XO (XO (XO (XO (XI (XO (XI (XO XH)))))))))), (Npos (XI (XO (XO (XO
    (XO (XO (XI (XI (XO (XI XH)))))))))))) :: (((Zpos (XI (XO (XI (XI (XO (XI
    (XI (XI (XI (XI (XI (XI (XI (XI (XI XH)))))))))))))))), (Npos (XO (XO (XI
    (XO (XI (XO (XO (XI (XO (XO (XO (XI (XI XH))))))))))))))) :: (((Zpos (XO
    (XI (XI (XI (XO (XI (XI (XI (XI (XI (XI (XI (XI (XI (XI
    XH)))))))))))))))), (Npos (XO (XO (XI (XI (XI (XO (XO (XI (XO (XO (XO (XI
    (XI XH))))))))))))))) :: (((Zpos (XI (XO (XO (XI (XO (XO XH))))))), (Npos
    (XI (XI (XI (XI (XI (XO (XI XH))))))))) :: (((Zpos (XI (XI (XO (XO (XI
    (XI (XO (XO (XO (XI (XI (XI (XI (XI (XI XH)))))))))))))))), (Npos (XO (XI
    (XI (XI (XI (XO (XO (XI (XI (XI (XI (XI (XO XH))))))))))))))) :: (((Zpos
    (XO (XO (XO (XO (XI (XI (XO (XO (XO (XI (XI (XI (XI (XI (XI
    XH)))))))))))))))), (Npos (XI (XI (XO (XI (XI (XO (XI (XO (XI (XI (XI (XI
    (XO XH))))))))))))))) :: (((Zpos (XI (XO (XO (XO (XI (XI (XO (XO (XO (XI
    (XI (XI (XI (XI (XI XH)))))))))))))))), (Npos (XO (XO (XI (XO (XI (XI (XI
    (XO (XI (XI (XI (XI (XO XH))))))))))))))) :: (((Zpos (XO (XI (XO (XO (XI
    (XI (XO (XO (XO (XI (XI (XI (XI (XI (XI XH)))))))))))))))), (Npos (XO (XO
    (XO (XO (XI (XO (XO (XI (XI (XI (XI (XI (XO XH))))))))))))))) :: (((Zpos
    (XO (XO (XI (XO (XI (XI (XO (XO (XO (XI (XI (XI (XI (XI (XI
    XH)))))))))))))))), (Npos (XO (XO (XO (XO (XI (XI (XO (XI (XI (XI (XI (XI
    (XO XH))))))))))))))) :: (((Zpos (XI (XI (XI (XI (XO (XI (XO (XO (XO (XI
    (XI (XI (XI (XI (XI XH)))))))))))))))), (Npos (XO (XI (XI (XO (XO (XO (XI
    (XO (XI (XI (XI (XI (XO XH))))))))))))))) :: (((Zpos (XO (XO (XI (XI (XO
    (XI (XO (XO (XO (XI (XI (XI (XI (XI (XI XH)))))))))))))))), (Npos (XO (XO
    (XO (XI (XO (XO (XO (XO (XI (XI (XI (XI (XO XH))))))))))))))) :: (((Zpos
    (XI (XO (XI (XI (XO (XI (XO (XO (XO (XI (XI (XI (XI (XI (XI
    XH)))))))))))))))), (Npos (XI (XO (XI (XI (XI (XO (XO (XO (XI (XI (XI (XI
    (XO XH))))))))))))))) :: (((Zpos (XO (XI (XI (XI (XO (XI (XO (XO (XO (XI
    (XI (XI (XI (XI (XI XH)))))))))))))))), (Npos (XI (XI (XO (XO (XI (XI (XO
    (XO (XI (XI (XI (XI (XO XH))))))))))))))) :: (((Zpos (XO (XO (XI (XI (XO
    (XO (XO (XO (XO (XI (XI (XI (XI (XI (XI XH)))))))))))))))), (Npos (XI (XI
    (XO (XO (XO (XO (XI (XI (XI (XO (XI (XI (XO XH))))))))))))))) :: (((Zpos
    (XI (XO (XI (XI (XO (XO (XO (XO (XO (XI (XI (XI (XI (XI (XI
    XH)))))))))))))))), (Npos (XI (XI (XO (XO (XI (XO (XI (XI (XI (XO (XI (XI
    (XO XH))))))))))))))) :: (((Zpos (XO (XI (XI (XO (XO (XO (XO (XO (XO (XI
    (XI (XI (XI (XI (XI XH)))))))))))))))), (Npos (XO (XI (XI (XI (XI (XO (XI
    (XO (XI (XO (XI (XI (XO XH))))))))))))))) :: (((Zpos (XI (XI (XI (XO (XO
    (XO (XO (XO (XO (XI (XI (XI (XI (XI (XI XH)))))))))))))))), (Npos (XO (XI
    (XI (XI (XO (XI (XI (XO (XI (XO (XI (XI (XO XH))))))))))))))) :: (((Zpos
    (XO (XI (XI (XI (XI (XI (XI (XO (XI (XI (XI (XI (XI (XI (XI
    XH)))))))))))))))), (Npos (XO (XI (XI (XI (XO (XO (XI (XO (XO (XI (XI (XO
    (XI XH))))))))))))))) :: (((Zpos (XO (XI (XI (XI (XO (XO (XO (XO (XO (XI
    (XI (XI (XI (XI (XI XH)))))))))))))))), (Npos (XO (XO (XO (XI (XO (XI (XI
    (XI (XI (XO (XI (XI (XO XH))))))))))))))) :: (((Zpos (XI (XI (XI (XI (XO
    (XO (XO (XO (XO (XI (XI (XI (XI (XI (XI XH)))))))))))))))), (Npos (XI (XI
    (XI (XO (XI (XI (XI (XI (XI (XO (XI (XI (XO XH))))))))))))))) :: (((Zpos
    (XO (XO (XO (XO (XO (XI (XO (XO (XO (XI (XI (XI (XI (XI (XI
    XH)))))))))))))))), (Npos (XI (XI (XO (XI (XO (XO (XO (XO (XO (XI (XI (XI
    (XO XH))))))))))))))) :: (((Zpos (XO (XI (XO (XO (XO (XO (XO (XO (XO (XI
    (XI (XI (XI (XI (XI XH)))))))))))))))), (Npos (XI (XI (XO (XI (XI (XO (XO
    (XO (XI (XO (XI (XI (XO XH))))))))))))))) :: (((Zpos (XO (XO (XI (XO (XO
    (XO (XO (XO (XO (XI (XI (XI (XI (XI (XI XH)))))))))))))))), (Npos (XI (XO
    (XI (XI (XI (XI (XO (XO (XI (XO (XI (XI (XO XH))))))))))))))) :: (((Zpos
    (XI (XO (XI (XO (XO (XO (XO (XO (XO (XI (XI (XI (XI (XI (XI
    XH)))))))))))))))), (Npos (XO (XI (XI (XI (XO (XO (XI (XO (XI (XO (XI (XI
    (XO XH))))))))))))))) :: (((Zpos (XI (XI (XO (XO (XO (XO (XO (XO (XO (XI
    (XI (XI (XI (XI (XI XH)))))))))))))))), (Npos (XO (XO (XI (XI (XO (XI (XO
    (XO (XI (XO (XI (XI (XO XH))))))))))))))) :: (((Zpos (XI (XO (XO (XO (XO
    (XO (XO (XO (XO (XI (XI (XI (XI (XI (XI XH)))))))))))))))), (Npos (XO (XI
    (XO (XO (XI (XO (XO (XO (XI (XO (XI (XI (XO XH))))))))))))))) :: (((Zpos
    (XO (XI (XO (XO (XO (XI (XO (XO (XO (XI (XI (XI (XI (XI (XI
    XH)))))))))))))))), (Npos (XI (XO (XO (XI (XO (XI (XO (XO (XO (XI (XI (XI
    (XO XH))))))))))))))) :: (((Zpos (XI (XO (XO (XO (XO (XI (XO (XO (XO (XI
    (XI (XI (XI (XI (XI XH)))))))))))))))), (Npos (XO (XO (XO (XI (XI (XO (XO
    (XO (XO (XI (XI (XI (XO XH))))))))))))))) :: (((Zpos (XO (XO (XO (XI (XO
    (XO (XO (XO (XO (XI (XI (XI (XI (XI (XI XH)))))))))))))))), (Npos (XI (XO
    (XI (XI (XI (XI (XI (XO (XI (XO (XI (XI (XO XH))))))))))))))) :: (((Zpos
    (XI (XO (XO (XI (XO (XO (XO (XO (XO (XI (XI (XI (XI (XI (XI
    XH)))))))))))))))), (Npos (XO (XO (XI (XI (XO (XO (XO (XI (XI (XO (XI (XI
    (XO XH))))))))))))))) :: (((Zpos (XO (XO (XI (XO (XO (XI (XO (XO (XO (XI
    (XI (XI (XI (XI (XI XH)))))))))))))))), (Npos (XO (XO (XO (XO (XI (XO (XI
    (XO (XO (XI (XI (XI (XO XH))))))))))))))) :: (((Zpos (XI (XI (XO (XO (XO
    (XI (XO (XO (XO (XI (XI (XI (XI (XI (XI XH)))))))))))))))), (Npos (XO (XO
    (XI (XI (XI (XI (XO (XO (XO (XI (XI (XI (XO XH))))))))))))))) :: (((Zpos
    (XI (XO (XI (XO (XO (XI (XO (XO (XO (XI (XI (XI (XI (XI (XI
    XH)))))))))))))))), (Npos (XO (XI (XI (XO (XO (XI (XI (XO (XO (XI (XI (XI
    (XO XH))))))))))))))) :: (((Zpos (XO (XI (XI (XO (XO (XI (XO (XO (XO (XI
    (XI (XI (XI (XI (XI XH)))))))))))))))), (Npos (XI (XO (XI (XI (XI (XI (XI
    (XO (XO (XI (XI (XI (XO XH))))))))))))))) :: (((Zpos (XO (XI (XO (XI (XO
    (XO (XO (XO (XO (XI (XI (XI (XI (XI (XI XH)))))))))))))))), (Npos (XO (XO
    (XO (XO (XO (XI (XO (XI (XI (XO (XI (XI (XO XH))))))))))))))) :: (((Zpos
    (XI (XI (XO (XI (XO (XO (XO (XO (XO (XI (XI (XI (XI (XI (XI
    XH)))))))))))))))), (Npos (XI (XI (XI (XI (XO (XI (XO (XI (XI (XO (XI (XI
    (XO XH))))))))))))))) :: (((Zpos (XI (XI (XO (XI (XO (XI (XO (XO (XO (XI
    (XI (XI (XI (XI (XI XH)))))))))))))))), (Npos (XI (XI (XI (XI (XO (XI (XI
    (XI (XO (XI (XI (XI (XO XH))))))))))))))) :: (((Zpos (XI (XO (XO (XI (XO
    (XI (XO (XO (XO (XI (XI (XI (XI (XI (XI XH)))))))))))))))), (Npos (XO (XI
    (XI (XI (XI (XI (XO (XI (XO (XI (XI (XI (XO XH))))))))))))))) :: (((Zpos
    (XO (XI (XO (XI (XO (XI (XO (XO (XO (XI (XI (XI (XI (XI (XI
    XH)))))))))))))))), (Npos (XO (XI (XI (XO (XI (XO (XI (XI (XO (XI (XI (XI
    (XO XH))))))))))))))) :: (((Zpos (XI (XI (XI (XO (XO (XI (XO (XO (XO (XI
    (XI (XI (XI (XI (XI XH)))))))))))))))), (Npos (XI (XO (XI (XO (XI (XO (XO
    (XI (XO (XI (XI (XI (XO XH))))))))))))))) :: (((Zpos (XO (XO (XO (XI (XO
    (XI (XO (XO (XO (XI (XI (XI (XI (XI (XI XH)))))))))))))))), (Npos (XI (XO
    (XO (XI (XO (XI (XO (XI (XO (XI (XI (XI (XO XH))))))))))))))) :: (((Zpos
    (XI (XO (XO (XI (XO (XI (XO (XI (XO XH)))))))))), (Npos (XI (XO (XI (XO
    (XI (XO (XI (XI (XO (XI XH)))))))))))) :: (((Zpos (XI (XO (XI (XI (XO (XO
    (XI XH)))))))), (Npos (XI (XI (XO (XI (XO (XO (XI (XO (XI
    XH))))))))))) :: (((Zpos (XO (XI (XI (XI (XO (XO (XI XH)))))))), (Npos
    (XO (XI (XO (XO (XI (XO (XI (XO (XI XH))))))))))) :: (((Zpos (XI (XI (XI
    (XI (XO (XO (XI XH)))))))), (Npos (XO (XI (XI (XI (XI (XO (XI (XO (XI
    XH))))))))))) :: (((Zpos (XO (XO (XI (XI (XO (XO (XI XH)))))))), (Npos
    (XO (XO (XI (XO (XO (XO (XI (XO (XI XH))))))))))) :: (((Zpos (XI (XI (XI
    (XI (XO (XO (XI (XI (XI XH)))))))))), (Npos (XO (XI (XI (XI (XO (XI (XO
    (XO (XO (XO (XO XH))))))))))))) :: (((Zpos (XI (XI (XO (XO (XO (XI (XI
    (XO (XI (XI (XI (XI (XI (XI (XI XH)))))))))))))))), (Npos (XO (XI (XO (XI
    (XO (XI (XI (XI (XI (XO (XI (XO (XI XH))))))))))))))) :: (((Zpos (XI (XI
    (XI (XO (XO (XO (XI (XI (XI XH)))))))))), (Npos (XO (XO (XI (XI (XI (XO
    (XO (XO (XO (XO (XO XH))))))))))))) :: (((Zpos (XI (XO (XI (XO (XO (XI
    (XO (XI (XI XH)))))))))), (Npos (XI (XI (XO (XO (XI (XI (XO (XI (XI (XI
    XH)))))))))))) :: (((Zpos (XO (XI (XO (XI (XO (XO XH))))))), (Npos (XI
    (XO (XO (XO (XO (XI (XI XH))))))))) :: (((Zpos (XO (XO (XI (XI (XO (XI
    (XO (XI (XO XH)))))))))), (Npos (XO (XI (XI (XO (XO (XI (XI (XI (XO (XI
    XH)))))))))))) :: (((Zpos (XI (XI (XO (XI (XO (XO XH))))))), (Npos (XI
    (XI (XO (XO (XO (XI (XI XH))))))))) :: (((Zpos (XO (XO (XO (XO (XI (XI
    (XO (XI (XI (XI (XI (XI (XI (XI (XI XH)))))))))))))))), (Npos (XI (XI (XO
    (XO (XI (XI (XI (XO (XI (XI (XI (XO (XI XH))))))))))))))) :: (((Zpos (XI
    (XO (XO (XO (XI (XI (XO (XI (XI (XI (XI (XI (XI (XI (XI
    XH)))))))))))))))), (Npos (XO (XO (XO (XI (XI (XI (XI (XO (XI (XI (XI (XO
    (XI XH))))))))))))))) :: (((Zpos (XO (XI (XO (XO (XI (XI (XO (XI (XI (XI
    (XI (XI (XI (XI (XI XH)))))))))))))))), (Npos (XI (XO (XI (XI (XI (XI (XI
    (XO (XI (XI (XI (XO (XI XH))))))))))))))) :: (((Zpos (XI (XI (XO (XO (XI
    (XI (XO (XI (XI (XI (XI (XI (XI (XI (XI XH)))))))))))))))), (Npos (XO (XI
    (XO (XO (XO (XO (XO (XI (XI (XI (XI (XO (XI XH))))))))))))))) :: (((Zpos
    (XO (XO (XI (XO (XI (XI (XO (XI (XI (XI (XI (XI (XI (XI (XI
    XH)))))))))))))))), (Npos (XI (XI (XI (XO (XO (XO (XO (XI (XI (XI (XI (XO
    (XI XH))))))))))))))) :: (((Zpos (XI (XO (XI (XO (XI (XI (XO (XI (XI (XI
    (XI (XI (XI (XI (XI XH)))))))))))))))), (Npos (XO (XO (XI (XI (XO (XO (XO
    (XI (XI (XI (XI (XO (XI XH))))))))))))))) :: (((Zpos (XO (XI (XI (XO (XI
    (XI (XO (XI (XI (XI (XI (XI (XI (XI (XI XH)))))))))))))))), (Npos (XI (XO
    (XO (XO (XI (XO (XO (XI (XI (XI (XI (XO (XI XH))))))))))))))) :: (((Zpos
    (XI (XI (XI (XO (XI (XI (XO (XI (XI (XI (XI (XI (XI (XI (XI
    XH)))))))))))))))), (Npos (XO (XI (XI (XO (XI (XO (XO (XI (XI (XI (XI (XO
    (XI XH))))))))))))))) :: (((Zpos (XO (XO (XO (XI (XI (XI (XO (XI (XI (XI
    (XI (XI (XI (XI (XI XH)))))))))))))))), (Npos (XI (XI (XO (XI (XI (XO (XO
    (XI (XI (XI (XI (XO (XI XH))))))))))))))) :: (((Zpos (XI (XO (XO (XI (XI
    (XI (XO (XI (XI (XI (XI (XI (XI (XI (XI XH)))))))))))))))), (Npos (XO (XO
    (XO (XO (XO (XI (XO (XI (XI (XI (XI (XO (XI XH))))))))))))))) :: (((Zpos
    (XI (XI (XO (XI (XO (XI (XO (XI (XI (XI (XI (XI (XI (XI (XI
    XH)))))))))))))))), (Npos (XO (XI (XI (XI (XI (XI (XO (XO (XI (XI (XI (XO
    (XI XH))))))))))))))) :: (((Zpos (XI (XO (XI (XI (XI (XO (XO (XI (XI (XI
    (XI (XI (XI (XI (XI XH)))))))))))))))), (Npos (XI (XO (XI (XO (XI (XO (XO
    (XO (XI (XI (XI (XO (XI XH))))))))))))))) :: (((Zpos (XO (XI (XI (XI (XO
    (XI (XO (XI (XI (XI (XI (XI (XI (XI (XI XH)))))))))))))))), (Npos (XO (XI
    (XI (XI (XI (XO (XI (XO (XI (XI (XI (XO (XI XH))))))))))))))) :: (((Zpos
    (XI (XI (XI (XI (XI (XO (XO (XI (XI (XI (XI (XI (XI (XI (XI
    XH)))))))))))))))), (Npos (XO (XO (XO (XI (XO (XI (XO (XO (XI (XI (XI (XO
    (XI XH))))))))))))))) :: (((Zpos (XI (XI (XI (XI (XO (XI (XO (XI (XI (XI
    (XI (XI (XI (XI (XI XH)))))))))))))))), (Npos (XI (XO (XO (XI (XO (XI (XI
    (XO (XI (XI (XI (XO (XI XH))))))))))))))) :: (((Zpos (XI (XO (XO (XI (XI
    (XO (XO (XI (XI (XI (XI (XI (XI (XI (XI XH)))))))))))))))), (Npos (XI (XO
    (XI (XI (XI (XO (XI (XI (XO (XI (XI (XO (XI XH))))))))))))))) :: (((Zpos
    (XO (XO (XI (XI (XI (XO (XO (XI (XI (XI (XI (XI (XI (XI (XI
    XH)))))))))))))))), (Npos (XO (XI (XI (XI (XO (XO (XO (XO (XI (XI (XI (XO
    (XI XH))))))))))))))) :: (((Zpos (XI (XO (XI (XI (XO (XO (XO (XI (XI (XI
    (XI (XI (XI (XI (XI XH)))))))))))))))), (Npos (XI (XO (XI (XI (XI (XO (XO
    (XI (XO (XI (XI (XO (XI XH))))))))))))))) :: (((Zpos (XI (XO (XI (XI (XI
    (XI (XO (XI (XI (XI (XI (XI (XI (XI (XI XH)))))))))))))))), (Npos (XI (XO
    (XI (XO (XO (XI (XO (XI (XI (XI (XI (XO (XI XH))))))))))))))) :: (((Zpos
    (XI (XO (XO (XO (XI (XO (XO (XI (XI (XI (XI (XI (XI (XI (XI
    XH)))))))))))))))), (Npos (XO (XI (XI (XO (XO (XI (XO (XI (XO (XI (XI (XO
    (XI XH))))))))))))))) :: (((Zpos (XO (XI (XO (XO (XI (XO (XO (XI (XI (XI
    (XI (XI (XI (XI (XI XH)))))))))))))))), (Npos (XO (XO (XI (XI (XO (XI (XO
    (XI (XO (XI (XI (XO (XI XH))))))))))))))) :: (((Zpos (XI (XI (XO (XO (XI
    (XO (XO (XI (XI (XI (XI (XI (XI (XI (XI XH)))))))))))))))), (Npos (XO (XI
    (XO (XO (XI (XI (XO (XI (XO (XI (XI (XO (XI XH))))))))))))))) :: (((Zpos
    (XO (XO (XI (XO (XI (XO (XO (XI (XI (XI (XI (XI (XI (XI (XI
    XH)))))))))))))))), (Npos (XO (XO (XO (XI (XI (XI (XO (XI (XO (XI (XI (XO
    (XI XH))))))))))))))) :: (((Zpos (XI (XO (XI (XO (XI (XO (XO (XI (XI (XI
    (XI (XI (XI (XI (XI XH)))))))))))))))), (Npos (XO (XI (XI (XI (XI (XI (XO
    (XI (XO (XI (XI (XO (XI XH))))))))))))))) :: (((Zpos (XO (XI (XI (XI (XI
    (XO (XO (XI (XI (XI (XI (XI (XI (XI (XI XH)))))))))))))))), (Npos (XO (XI
    (XI (XI (XI (XO (XO (XO (XI (XI (XI (XO (XI XH))))))))))))))) :: (((Zpos
    (XO (XI (XI (XO (XI (XO (XO (XI (XI (XI (XI (XI (XI (XI (XI
    XH)))))))))))))))), (Npos (XO (XI (XI (XO (XO (XO (XI (XI (XO (XI (XI (XO
    (XI XH))))))))))))))) :: (((Zpos (XO (XI (XO (XI (XO (XI (XO (XI (XI (XI
    (XI (XI (XI (XI (XI XH)))))))))))))))), (Npos (XO (XI (XO (XO (XI (XI (XO
    (XO (XI (XI (XI (XO (XI XH))))))))))))))) :: (((Zpos (XI (XI (XO (XI (XI
    (XO (XO (XI (XI (XI (XI (XI (XI (XI (XI XH)))))))))))))))), (Npos (XO (XI
    (XI (XO (XO (XO (XO (XO (XI (XI (XI (XO (XI XH))))))))))))))) :: (((Zpos
    (XI (XI (XO (XI (XI (XO (XO (XI (XI (XI (XI (XI (XI (XI (XI
    XH)))))))))))))))), (Npos (XI (XO (XO (XI (XI (XI (XI (XI (XO (XI (XI (XO
    (XI XH))))))))))))))) :: (((Zpos (XO (XI (XO (XI (XI (XO (XO (XI (XI (XI
    (XI (XI (XI (XI (XI XH)))))))))))))))), (Npos (XI (XO (XI (XO (XO (XI (XI
    (XI (XO (XI (XI (XO (XI XH))))))))))))))) :: (((Zpos (XO (XI (XO (XI (XI
    (XO (XO (XI (XI (XI (XI (XI (XI (XI (XI XH)))))))))))))))), (Npos (XO (XO
    (XO (XO (XI (XI (XI (XI (XO (XI (XI (XO (XI XH))))))))))))))) :: (((Zpos
    (XO (XO (XO (XI (XI (XO (XO (XI (XI (XI (XI (XI (XI (XI (XI
    XH)))))))))))))))), (Npos (XO (XO (XI (XO (XI (XO (XI (XI (XO (XI (XI (XO
    (XI XH))))))))))))))) :: (((Zpos (XO (XO (XI (XI (XO (XI (XO (XI (XI (XI
    (XI (XI (XI (XI (XI XH)))))))))))))))), (Npos (XI (XO (XI (XO (XO (XO (XI
    (XO (XI (XI (XI (XO (XI XH))))))))))))))) :: (((Zpos (XO (XO (XO (XO (XO
    (XO (XO (XI (XI (XI (XI (XI (XI (XI (XI XH)))))))))))))))), (Npos (XI (XO
    (XI (XI (XO (XO (XO (XI (XO (XI (XI (XO (XI XH))))))))))))))) :: (((Zpos
    (XI (XO (XI (XI (XO (XI (XO (XI (XI (XI (XI (XI (XI (XI (XI
    XH)))))))))))))))), (Npos (XO (XI (XO (XO (XI (XO (XI (XO (XI (XI (XI (XO
    (XI XH))))))))))))))) :: (((Zpos (XI (XO (XO (XI (XO (XO (XO (XI (XI (XI
    (XI (XI (XI (XI (XI XH)))))))))))))))), (Npos (XO (XI (XI (XO (XI (XO (XO
    (XI (XO (XI (XI (XO (XI XH))))))))))))))) :: (((Zpos (XI (XI (XI (XO (XI
    (XO (XO (XI (XI (XI (XI (XI (XI (XI (XI XH)))))))))))))))), (Npos (XO (XI
    (XI (XI (XO (XO (XI (XI (XO (XI (XI (XO (XI XH))))))))))))))) :: (((Zpos
    (XI (XO (XI (XI (XO (XI (XO (XO (XI (XI (XI (XI (XI (XI (XI
    XH)))))))))))))))), (Npos (XI (XI (XO (XI (XI (XO (XO (XI (XO (XO (XI (XO
    (XI XH))))))))))))))) :: (((Zpos (XO (XI (XI (XI (XO (XI (XO (XO (XI (XI
    (XI (XI (XI (XI (XI XH)))))))))))))))), (Npos (XI (XO (XI (XO (XO (XI (XO
    (XI (XO (XO (XI (XO (XI XH))))))))))))))) :: (((Zpos (XI (XO (XO (XO (XO
    (XI (XO (XO (XI (XI (XI (XI (XI (XI (XI XH)))))))))))))))), (Npos (XI (XI
    (XI (XI (XI (XO (XO (XO (XO (XO (XI (XO (XI XH))))))))))))))) :: (((Zpos
    (XO (XI (XI (XO (XO (XI (XO (XO (XI (XI (XI (XI (XI (XI (XI
    XH)))))))))))))))), (Npos (XI (XO (XO (XO (XI (XO (XI (XO (XO (XO (XI (XO
    (XI XH))))))))))))))) :: (((Zpos (XI (XI (XO (XO (XI (XO (XI (XI (XI
    XH)))))))))), (Npos (XI (XI (XI (XO (XO (XO (XI (XO (XO (XO (XO
    XH))))))))))))) :: (((Zpos (XI (XI (XI (XI (XI (XI (XI (XI (XO (XI (XI
    XH)))))))))))), (Npos (XI (XO (XO (XI (XI (XI (XI (XI (XO (XI (XO (XI (XO
    XH))))))))))))))) :: (((Zpos (XO (XO (XI (XI (XO (XO XH))))))), (Npos (XI
    (XO (XI (XO (XO (XI (XI XH))))))))) :: (((Zpos (XI (XO (XI (XO (XO (XO
    (XI (XI XH))))))))), (Npos (XO (XO (XO (XI (XO (XO (XI (XI (XI (XO
    XH)))))))))))) :: (((Zpos (XO (XO (XI (XO (XI (XO (XI (XI (XO (XI (XI (XI
    (XI (XI (XI XH)))))))))))))))), (Npos (XO (XO (XI (XI (XI (XI (XO (XI (XI
    (XO (XO (XO (XI XH))))))))))))))) :: (((Zpos (XI (XO (XI (XO (XO (XI (XO
    (XI XH))))))))), (Npos (XI (XI (XI (XO (XI (XO (XO (XO (XI (XO
    XH)))))))))))) :: (((Zpos (XO (XI (XI (XO (XO (XI (XO (XI (XI
    XH)))))))))), (Npos (XO (XI (XO (XI (XI (XI (XO (XI (XI (XI
    XH)))))))))))) :: (((Zpos (XI (XO (XO (XO (XI (XO (XI (XO (XI (XI (XI (XI
    (XI (XI (XI XH)))))))))))))))), (Npos (XI (XI (XO (XI (XI (XO (XO (XI (XI
    (XO (XI (XO (XI XH))))))))))))))) :: (((Zpos (XO (XI (XO (XI (XO (XO (XO
    (XO (XI (XI (XI (XI (XI (XI (XI XH)))))))))))))))), (Npos (XO (XI (XI (XI
    (XI (XO (XI (XI (XI (XI (XO (XO (XI XH))))))))))))))) :: (((Zpos (XO (XO
    (XI (XO (XO (XI (XO (XI (XO (XO (XO (XO (XO XH)))))))))))))), (Npos (XI
    (XI (XI (XI (XI (XI (XO (XO (XI (XI (XO (XI (XO
    XH))))))))))))))) :: (((Zpos (XI (XI (XO (XO (XO (XI (XO (XI XH))))))))),
    (Npos (XI (XI (XI (XI (XO (XO (XO (XO (XI (XO XH)))))))))))) :: (((Zpos
    (XI (XO (XI (XI (XO (XO XH))))))), (Npos (XI (XI (XI (XO (XO (XI (XI
    XH))))))))) :: (((Zpos (XI (XO (XI (XO (XI (XI (XO (XI (XO (XI
    XH))))))))))), (Npos (XI (XO (XO (XI (XO (XO (XO (XO (XI (XI (XI
    XH))))))))))))) :: (((Zpos (XO (XI (XO (XO (XI (XI (XO (XI (XO (XI
    XH))))))))))), (Npos (XO (XI (XI (XO (XI (XO (XI (XI (XO (XI (XI
    XH))))))))))))) :: (((Zpos (XO (XO (XI (XI (XI (XI (XO (XI (XO (XI
    XH))))))))))), (Npos (XI (XO (XI (XI (XI (XO (XO (XI (XI (XI (XI
    XH))))))))))))) :: (((Zpos (XI (XO (XI (XO (XO (XI (XO (XI (XO (XI
    XH))))))))))), (Npos (XI (XI (XI (XI (XO (XI (XI (XI (XI (XO (XI
    XH))))))))))))) :: (((Zpos (XO (XI (XO (XO (XO (XI (XO (XI (XO (XI
    XH))))))))))), (Npos (XO (XO (XI (XI (XI (XI (XO (XI (XI (XO (XI
    XH))))))))))))) :: (((Zpos (XO (XO (XI (XI (XO (XI (XO (XI (XO (XI
    XH))))))))))), (Npos (XI (XI (XO (XO (XO (XO (XO (XI (XO (XI (XI
    XH))))))))))))) :: (((Zpos (XO (XO (XI (XI (XO (XI (XO (XO (XI (XI (XI
    (XI (XI (XI (XI XH)))))))))))))))), (Npos (XO (XO (XI (XO (XI (XO (XO (XI
    (XO (XO (XI (XO (XI XH))))))))))))))) :: (((Zpos (XI (XI (XI (XO (XO (XI
    (XI (XO (XI (XI (XI (XI (XI (XI (XI XH)))))))))))))))), (Npos (XI (XI (XO
    (XI (XI (XI (XI (XI (XI (XO (XI (XO (XI XH))))))))))))))) :: (((Zpos (XI
    (XI (XI (XO (XO (XI (XI (XI (XI (XI (XI (XI (XI (XI (XI
    XH)))))))))))))))), (Npos (XO (XI (XO (XI (XO (XI (XI (XO (XO (XO (XO (XI
    (XI XH))))))))))))))) :: (((Zpos (XO (XO (XO (XI (XO (XI (XI (XI (XI (XI
    (XI (XI (XI (XI (XI XH)))))))))))))))), (Npos (XI (XO (XO (XO (XI (XI (XI
    (XO (XO (XO (XO (XI (XI XH))))))))))))))) :: (((Zpos (XI (XO (XI (XO (XO
    (XI (XO (XI (XO (XO (XO (XO (XO XH)))))))))))))), (Npos (XO (XO (XO (XI
    (XO (XO (XI (XO (XI (XI (XO (XI (XO XH))))))))))))))) :: (((Zpos (XO (XI
    (XI (XI (XI (XI (XI (XO (XI (XI (XI (XI (XI (XI (XI XH)))))))))))))))),
    (Npos (XO (XI (XI (XI (XI (XO (XI (XO (XO (XI (XI (XO (XI
    XH))))))))))))))) :: (((Zpos (XI (XI (XI (XO (XI (XI (XI (XO (XO (XI (XI
    (XI (XI (XI (XI XH)))))))))))))))), (Npos (XI (XO (XI (XO (XI (XI (XO (XO
    (XI (XO (XO (XO (XI XH))))))))))))))) :: (((Zpos (XO (XI (XI (XO (XI (XI
    (XI (XO (XO (XI (XI (XI (XI (XI (XI XH)))))))))))))))), (Npos (XO (XO (XI
    (XO (XO (XI (XO (XO (XI (XO (XO (XO (XI XH))))))))))))))) :: (((Zpos (XO
    (XI (XO (XO (XO (XI (XO (XO (XI (XI (XI (XI (XI (XI (XI
    XH)))))))))))))))), (Npos (XI (XO (XI (XO (XO (XI (XO (XO (XO (XO (XI (XO
    (XI XH))))))))))))))) :: (((Zpos (XO (XO (XO (XO (XO (XI (XO (XO (XI (XI
    (XI (XI (XI (XI (XI XH)))))))))))))))), (Npos (XI (XO (XI (XO (XI (XO (XO
    (XO (XO (XO (XI (XO (XI XH))))))))))))))) :: (((Zpos (XI (XO (XI (XI (XI
    (XI (XO (XO (XI (XI (XI (XI (XI (XI (XI XH)))))))))))))))), (Npos (XI (XI
    (XO (XO (XO (XI (XI (XO (XI (XO (XI (XO (XI XH))))))))))))))) :: (((Zpos
    (XO (XI (XI (XI (XO (XO XH))))))), (Npos (XI (XO (XO (XI (XO (XI (XI
    XH))))))))) :: (((Zpos (XI (XO (XO (XO (XI (XO (XI (XI XH))))))))), (Npos
    (XI (XI (XO (XI (XI (XI (XI (XI (XI (XO XH)))))))))))) :: (((Zpos (XO (XI
    (XI (XO (XO (XI (XO (XI (XO (XO (XO (XO (XO XH)))))))))))))), (Npos (XI
    (XO (XO (XO (XI (XO (XI (XO (XI (XI (XO (XI (XO
    XH))))))))))))))) :: (((Zpos (XO (XI (XO (XO (XI (XO (XI (XI XH))))))))),
    (Npos (XO (XI (XO (XO (XO (XO (XO (XO (XO (XI XH)))))))))))) :: (((Zpos
    (XI (XO (XO (XO (XI (XO (XI (XI (XI XH)))))))))), (Npos (XO (XI (XI (XO
    (XI (XI (XO (XO (XO (XO (XO XH))))))))))))) :: (((Zpos (XO (XI (XO (XI
    (XO (XI (XO (XI (XO (XO (XO (XO (XO XH)))))))))))))), (Npos (XO (XO (XO
    (XI (XI (XI (XI (XO (XI (XI (XO (XI (XO XH))))))))))))))) :: (((Zpos (XO
    (XI (XI (XO (XI (XO (XI (XO (XI (XI (XI (XI (XI (XI (XI
    XH)))))))))))))))), (Npos (XO (XI (XI (XO (XO (XO (XI (XI (XI (XO (XI (XO
    (XI XH))))))))))))))) :: (((Zpos (XO (XI (XO (XO (XI (XO (XI (XI (XO (XI
    (XI (XI (XI (XI (XI XH)))))))))))))))), (Npos (XO (XO (XO (XI (XO (XI (XO
    (XI (XI (XO (XO (XO (XI XH))))))))))))))) :: (((Zpos (XI (XO (XO (XO (XI
    (XO (XI XH)))))))), (Npos (XI (XO (XO (XO (XI (XI (XI (XO (XI
    XH))))))))))) :: (((Zpos (XI (XI (XI (XI (XI (XI (XI (XO (XI (XI (XI (XI
    (XI (XI (XI XH)))))))))))))))), (Npos (XO (XO (XI (XO (XO (XO (XO (XI (XO
    (XI (XI (XO (XI XH))))))))))))))) :: (((Zpos (XI (XI (XI (XI (XO (XO
    XH))))))), (Npos (XI (XI (XO (XI (XO (XI (XI XH))))))))) :: (((Zpos (XO
    (XO (XI (XI (XI (XI (XO (XI (XI (XI (XO (XO XH))))))))))))), (Npos (XO
    (XO (XI (XO (XO (XO (XO (XO (XI (XI (XO (XI (XO
    XH))))))))))))))) :: (((Zpos (XI (XI (XO (XO (XI (XO (XI XH)))))))),
    (Npos (XI (XI (XI (XI (XI (XI (XI (XO (XI XH))))))))))) :: (((Zpos (XO
    (XO (XI (XO (XI (XO (XI XH)))))))), (Npos (XO (XI (XI (XO (XO (XO (XO (XI
    (XI XH))))))))))) :: (((Zpos (XO (XI (XI (XO (XI (XO (XI XH)))))))),
    (Npos (XI (XO (XO (XI (XI (XO (XO (XI (XI XH))))))))))) :: (((Zpos (XI
    (XO (XI (XO (XI (XO (XI (XI XH))))))))), (Npos (XI (XO (XO (XI (XO (XO
    (XO (XO (XO (XI XH)))))))))))) :: (((Zpos (XO (XI (XO (XO (XI (XO (XI
    XH)))))))), (Npos (XO (XO (XO (XI (XI (XI (XI (XO (XI
    XH))))))))))) :: (((Zpos (XO (XI (XO (XO (XI (XO (XI (XI (XI
    XH)))))))))), (Npos (XI (XI (XI (XI (XI (XI (XO (XO (XO (XO (XO
    XH))))))))))))) :: (((Zpos (XO (XO (XO (XI (XI (XO (XI XH)))))))), (Npos
    (XI (XO (XI (XI (XO (XI (XO (XI (XI XH))))))))))) :: (((Zpos (XI (XO (XI
    (XO (XI (XO (XI XH)))))))), (Npos (XO (XI (XO (XO (XI (XO (XO (XI (XI
    XH))))))))))) :: (((Zpos (XO (XO (XO (XI (XI (XI (XI (XO (XO (XI (XI (XI
    (XI (XI (XI XH)))))))))))))))), (Npos (XO (XO (XI (XI (XO (XO (XI (XO (XI
    (XO (XO (XO (XI XH))))))))))))))) :: (((Zpos (XI (XO (XO (XI (XI (XI (XI
    (XO (XO (XI (XI (XI (XI (XI (XI XH)))))))))))))))), (Npos (XO (XO (XI (XI
    (XI (XO (XI (XO (XI (XO (XO (XO (XI XH))))))))))))))) :: (((Zpos (XO (XO
    (XO (XO (XI (XO XH))))))), (Npos (XI (XO (XI (XI (XO (XI (XI
    XH))))))))) :: (((Zpos (XO (XI (XI (XO (XI (XO (XI (XO (XI (XI (XI (XI
    (XI (XI (XI XH)))))))))))))))), (Npos (XO (XO (XI (XI (XI (XI (XO (XI (XI
    (XO (XI (XO (XI XH))))))))))))))) :: (((Zpos (XI (XO (XI (XO (XI (XO (XI
    (XO (XI (XI (XI (XI (XI (XI (XI XH)))))))))))))))), (Npos (XO (XI (XI (XI
    (XO (XI (XO (XI (XI (XO (XI (XO (XI XH))))))))))))))) :: (((Zpos (XI (XI
    (XO (XO (XI (XO (XO (XO (XI (XI (XI (XI (XI (XI (XI XH)))))))))))))))),
    (Npos (XO (XO (XI (XO (XI (XI (XI (XI (XI (XI (XO (XO (XI
    XH))))))))))))))) :: (((Zpos (XI (XI (XI (XO (XO (XI (XO (XI (XO (XO (XO
    (XO (XO XH)))))))))))))), (Npos (XI (XI (XO (XI (XI (XO (XI (XO (XI (XI
    (XO (XI (XO XH))))))))))))))) :: (((Zpos (XO (XI (XO (XI (XI (XI (XI (XI
    (XO (XI (XI (XI (XI (XI (XI XH)))))))))))))))), (Npos (XI (XI (XI (XO (XO
    (XO (XO (XI (XI (XI (XO (XO (XI XH))))))))))))))) :: (((Zpos (XI (XO (XO
    (XI (XO (XI (XI (XI (XO (XI (XI (XI (XI (XI (XI XH)))))))))))))))), (Npos
    (XO (XI (XO (XI (XO (XI (XI (XO (XO (XI (XO (XO (XI
    XH))))))))))))))) :: (((Zpos (XO (XI (XO (XI (XO (XI (XI (XI (XO (XI (XI
    (XI (XI (XI (XI XH)))))))))))))))), (Npos (XO (XI (XO (XI (XI (XI (XI (XO
    (XO (XI (XO (XO (XI XH))))))))))))))) :: (((Zpos (XI (XI (XO (XI (XO (XI
    (XI (XI (XO (XI (XI (XI (XI (XI (XI XH)))))))))))))))), (Npos (XO (XI (XO
    (XI (XO (XO (XO (XI (XO (XI (XO (XO (XI XH))))))))))))))) :: (((Zpos (XO
    (XO (XI (XI (XO (XI (XI (XI (XO (XI (XI (XI (XI (XI (XI
    XH)))))))))))))))), (Npos (XO (XI (XO (XI (XI (XO (XO (XI (XO (XI (XO (XO
    (XI XH))))))))))))))) :: (((Zpos (XI (XO (XI (XI (XO (XI (XI (XI (XO (XI
    (XI (XI (XI (XI (XI XH)))))))))))))))), (Npos (XO (XI (XO (XI (XO (XI (XO
    (XI (XO (XI (XO (XO (XI XH))))))))))))))) :: (((Zpos (XO (XO (XO (XI (XO
    (XI (XI (XI (XO (XI (XI (XI (XI (XI (XI XH)))))))))))))))), (Npos (XO (XI
    (XI (XO (XI (XO (XI (XO (XO (XI (XO (XO (XI XH))))))))))))))) :: (((Zpos
    (XI (XI (XI (XI (XO (XI (XI (XI (XO (XI (XI (XI (XI (XI (XI
    XH)))))))))))))))), (Npos (XO (XO (XO (XO (XI (XO (XI (XI (XO (XI (XO (XO
    (XI XH))))))))))))))) :: (((Zpos (XO (XO (XO (XO (XI (XI (XI (XI (XO (XI
    (XI (XI (XI (XI (XI XH)))))))))))))))), (Npos (XO (XI (XO (XO (XO (XI (XI
    (XI (XO (XI (XO (XO (XI XH))))))))))))))) :: (((Zpos (XI (XO (XO (XO (XI
    (XI (XI (XI (XO (XI (XI (XI (XI (XI (XI XH)))))))))))))))), (Npos (XO (XO
    (XI (XO (XI (XI (XI (XI (XO (XI (XO (XO (XI XH))))))))))))))) :: (((Zpos
    (XO (XI (XO (XO (XI (XI (XI (XI (XO (XI (XI (XI (XI (XI (XI
    XH)))))))))))))))), (Npos (XO (XI (XI (XO (XO (XO (XO (XO (XI (XI (XO (XO
    (XI XH))))))))))))))) :: (((Zpos (XI (XI (XO (XO (XI (XI (XI (XI (XO (XI
    (XI (XI (XI (XI (XI XH)))))))))))))))), (Npos (XO (XO (XO (XI (XI (XO (XO
    (XO (XI (XI (XO (XO (XI XH))))))))))))))) :: (((Zpos (XO (XI (XI (XI (XO
    (XI (XI (XI (XO (XI (XI (XI (XI (XI (XI XH)))))))))))))))), (Npos (XO (XI
    (XO (XI (XI (XI (XO (XI (XO (XI (XO (XO (XI XH))))))))))))))) :: (((Zpos
    (XI (XI (XO (XI (XI (XI (XI (XI (XO (XI (XI (XI (XI (XI (XI
    XH)))))))))))))))), (Npos (XO (XI (XO (XI (XI (XO (XO (XI (XI (XI (XO (XO
    (XI XH))))))))))))))) :: (((Zpos (XO (XO (XI (XI (XI (XI (XI (XI (XO (XI
    (XI (XI (XI (XI (XI XH)))))))))))))))), (Npos (XO (XI (XI (XI (XO (XI (XO
    (XI (XI (XI (XO (XO (XI XH))))))))))))))) :: (((Zpos (XI (XI (XO (XO (XO
    (XI (XI (XI (XO (XI (XI (XI (XI (XI (XI XH)))))))))))))))), (Npos (XI (XI
    (XI (XO (XO (XO (XO (XO (XO (XI (XO (XO (XI XH))))))))))))))) :: (((Zpos
    (XO (XI (XI (XO (XO (XI (XI (XI (XO (XI (XI (XI (XI (XI (XI
    XH)))))))))))))))), (Npos (XI (XI (XO (XO (XI (XI (XO (XO (XO (XI (XO (XO
    (XI XH))))))))))))))) :: (((Zpos (XI (XI (XI (XO (XO (XI (XI (XI (XO (XI
    (XI (XI (XI (XI (XI XH)))))))))))))))), (Npos (XO (XO (XI (XO (XO (XO (XI
    (XO (XO (XI (XO (XO (XI XH))))))))))))))) :: (((Zpos (XI (XO (XI (XO (XI
    (XI (XI (XI (XO (XI (XI (XI (XI (XI (XI XH)))))))))))))))), (Npos (XO (XO
    (XI (XI (XI (XI (XO (XO (XI (XI (XO (XO (XI XH))))))))))))))) :: (((Zpos
    (XO (XI (XI (XO (XI (XI (XI (XI (XO (XI (XI (XI (XI (XI (XI
    XH)))))))))))))))), (Npos (XO (XI (XO (XI (XO (XO (XI (XO (XI (XI (XO (XO
    (XI XH))))))))))))))) :: (((Zpos (XI (XI (XI (XO (XI (XI (XI (XI (XO (XI
    (XI (XI (XI (XI (XI XH)))))))))))))))), (Npos (XO (XO (XO (XI (XI (XO (XI
    (XO (XI (XI (XO (XO (XI XH))))))))))))))) :: (((Zpos (XO (XO (XO (XI (XI
    (XI (XI (XI (XO (XI (XI (XI (XI (XI (XI XH)))))))))))))))), (Npos (XO (XI
    (XI (XO (XO (XI (XI (XO (XI (XI (XO (XO (XI XH))))))))))))))) :: (((Zpos
    (XI (XO (XI (XI (XI (XI (XI (XI (XO (XI (XI (XI (XI (XI (XI
    XH)))))))))))))))), (Npos (XO (XI (XO (XO (XO (XO (XI (XI (XI (XI (XO (XO
    (XI XH))))))))))))))) :: (((Zpos (XO (XO (XI (XO (XI (XI (XI (XI (XO (XI
    (XI (XI (XI (XI (XI XH)))))))))))))))), (Npos (XO (XI (XO (XI (XO (XI (XO
    (XO (XI (XI (XO (XO (XI XH))))))))))))))) :: (((Zpos (XI (XO (XO (XI (XI
    (XI (XI (XI (XO (XI (XI (XI (XI (XI (XI XH)))))))))))))))), (Npos (XO (XO
    (XI (XO (XI (XI (XI (XO (XI (XI (XO (XO (XI XH))))))))))))))) :: (((Zpos
    (XO (XO (XO (XO (XO (XI (XI (XI (XO (XI (XI (XI (XI (XI (XI
    XH)))))))))))))))), (Npos (XI (XO (XO (XO (XO (XI (XI (XI (XI (XO (XO (XO
    (XI XH))))))))))))))) :: (((Zpos (XI (XO (XO (XO (XO (XI (XI (XI (XO (XI
    (XI (XI (XI (XI (XI XH)))))))))))))))), (Npos (XO (XI (XI (XI (XO (XI (XI
    (XI (XI (XO (XO (XO (XI XH))))))))))))))) :: (((Zpos (XO (XI (XO (XO (XO
    (XI (XI (XI (XO (XI (XI (XI (XI (XI (XI XH)))))))))))))))), (Npos (XO (XO
    (XI (XI (XI (XI (XI (XI (XI (XO (XO (XO (XI XH))))))))))))))) :: (((Zpos
    (XO (XO (XI (XO (XO (XI (XI (XI (XO (XI (XI (XI (XI (XI (XI
    XH)))))))))))))))), (Npos (XO (XO (XI (XO (XI (XO (XO (XO (XO (XI (XO (XO
    (XI XH))))))))))))))) :: (((Zpos (XI (XO (XI (XO (XO (XI (XI (XI (XO (XI
    (XI (XI (XI (XI (XI XH)))))))))))))))), (Npos (XI (XI (XO (XO (XO (XI (XO
    (XO (XO (XI (XO (XO (XI XH))))))))))))))) :: (((Zpos (XI (XO (XO (XO (XI
    (XO (XI (XI (XO (XI (XI (XI (XI (XI (XI XH)))))))))))))))), (Npos (XO (XO
    (XI (XO (XI (XO (XO (XI (XI (XO (XO (XO (XI XH))))))))))))))) :: (((Zpos
    (XO (XI (XI (XI (XI (XI (XO (XO (XI (XI (XI (XI (XI (XI (XI
    XH)))))))))))))))), (Npos (XI (XO (XI (XO (XI (XI (XI (XO (XI (XO (XI (XO
    (XI XH))))))))))))))) :: (((Zpos (XI (XO (XO (XO (XO (XI (XI (XO (XI (XI
    (XI (XI (XI (XI (XI XH)))))))))))))))), (Npos (XO (XO (XI (XI (XI (XO (XI
    (XI (XI (XO (XI (XO (XI XH))))))))))))))) :: (((Zpos (XI (XO (XI (XO (XI
    (XO (XI (XO (XI (XI (XI (XI (XI (XI (XI XH)))))))))))))))), (Npos (XO (XI
    (XI (XO (XI (XI (XO (XI (XI (XO (XI (XO (XI XH))))))))))))))) :: (((Zpos
    (XI (XO (XO (XO (XI (XO XH))))))), (Npos (XI (XI (XI (XI (XO (XI (XI
    XH))))))))) :: (((Zpos (XO (XI (XO (XO (XI (XO XH))))))), (Npos (XI (XO
    (XO (XO (XI (XI (XI XH))))))))) :: (((Zpos (XO (XO (XO (XO (XO (XO (XI
    (XI XH))))))))), (Npos (XO (XI (XO (XI (XI (XI (XO (XI (XI (XO
    XH)))))))))))) :: (((Zpos (XO (XO (XO (XI (XI (XO (XI (XI XH))))))))),
    (Npos (XO (XI (XI (XO (XI (XO (XO (XO (XO (XI XH)))))))))))) :: (((Zpos
    (XI (XI (XO (XO (XO (XI (XO (XI (XI XH)))))))))), (Npos (XO (XI (XO (XI
    (XO (XI (XO (XI (XI (XI XH)))))))))))) :: (((Zpos (XO (XI (XI (XO (XO (XI
    (XI (XO (XI (XI (XI (XI (XI (XI (XI XH)))))))))))))))), (Npos (XO (XI (XI
    (XO (XI (XI (XI (XI (XI (XO (XI (XO (XI XH))))))))))))))) :: (((Zpos (XO
    (XI (XO (XO (XI (XI (XI (XO (XO (XI (XI (XI (XI (XI (XI
    XH)))))))))))))))), (Npos (XO (XI (XI (XI (XI (XO (XI (XI (XO (XO (XO (XO
    (XI XH))))))))))))))) :: (((Zpos (XI (XO (XI (XI (XO (XO (XO (XO (XI (XI
    (XI (XI (XI (XI (XI XH)))))))))))))))), (Npos (XI (XO (XI (XI (XO (XI (XI
    (XI (XI (XI (XO (XO (XI XH))))))))))))))) :: (((Zpos (XI (XI (XO (XO (XI
    (XO (XI (XO (XI (XI (XI (XI (XI (XI (XI XH)))))))))))))))), (Npos (XI (XI
    (XO (XO (XO (XI (XO (XI (XI (XO (XI (XO (XI XH))))))))))))))) :: (((Zpos
    (XO (XO (XI (XO (XO (XI (XO (XO (XI (XI (XI (XI (XI (XI (XI
    XH)))))))))))))))), (Npos (XI (XO (XO (XO (XO (XO (XI (XO (XO (XO (XI (XO
    (XI XH))))))))))))))) :: (((Zpos (XO (XO (XO (XI (XO (XI (XO (XI (XO (XO
    (XO (XO (XO XH)))))))))))))), (Npos (XO (XI (XI (XO (XO (XI (XI (XO (XI
    (XI (XO (XI (XO XH))))))))))))))) :: (((Zpos (XI (XI (XO (XO (XI (XO
    XH))))))), (Npos (XI (XI (XO (XO (XI (XI (XI XH))))))))) :: (((Zpos (XO
    (XI (XI (XO (XO (XI (XO (XI XH))))))))), (Npos (XO (XI (XI (XI (XI (XO
    (XO (XO (XI (XO XH)))))))))))) :: (((Zpos (XI (XO (XO (XI (XO (XI (XO (XI
    XH))))))))), (Npos (XI (XO (XI (XO (XO (XI (XO (XO (XI (XO
    XH)))))))))))) :: (((Zpos (XO (XI (XO (XI (XO (XI (XO (XI XH))))))))),
    (Npos (XO (XO (XI (XI (XO (XI (XO (XO (XI (XO XH)))))))))))) :: (((Zpos
    (XO (XI (XI (XI (XI (XO (XI (XI (XO XH)))))))))), (Npos (XI (XO (XI (XO
    (XI (XO (XI (XO (XI (XI XH)))))))))))) :: (((Zpos (XO (XO (XI (XO (XI (XO
    (XO (XO (XI (XI (XI (XI (XI (XI (XI XH)))))))))))))))), (Npos (XO (XI (XO
    (XI (XI (XI (XI (XI (XI (XI (XO (XO (XI XH))))))))))))))) :: (((Zpos (XO
    (XO (XO (XO (XO (XI (XI (XO (XI (XI (XI (XI (XI (XI (XI
    XH)))))))))))))))), (Npos (XI (XO (XI (XO (XI (XO (XI (XI (XI (XO (XI (XO
    (XI XH))))))))))))))) :: (((Zpos (XI (XO (XO (XO (XI (XI (XO (XI (XO (XI
    XH))))))))))), (Npos (XO (XI (XO (XI (XO (XO (XI (XI (XO (XI (XI
    XH))))))))))))) :: (((Zpos (XI (XI (XI (XI (XI (XI (XO (XI (XO (XI
    XH))))))))))), (Npos (XI (XO (XI (XI (XO (XO (XI (XI (XI (XI (XI
    XH))))))))))))) :: (((Zpos (XO (XO (XO (XI (XI (XI (XO (XI (XO (XI
    XH))))))))))), (Npos (XI (XI (XO (XO (XI (XO (XI (XO (XI (XI (XI
    XH))))))))))))) :: (((Zpos (XI (XO (XO (XI (XI (XI (XO (XI (XO (XI
    XH))))))))))), (Npos (XI (XI (XO (XI (XO (XI (XI (XO (XI (XI (XI
    XH))))))))))))) :: (((Zpos (XO (XI (XO (XI (XI (XI (XO (XI (XO (XI
    XH))))))))))), (Npos (XO (XO (XI (XO (XO (XO (XO (XI (XI (XI (XI
    XH))))))))))))) :: (((Zpos (XI (XI (XO (XI (XI (XI (XO (XI (XO (XI
    XH))))))))))), (Npos (XO (XO (XO (XO (XI (XO (XO (XI (XI (XI (XI
    XH))))))))))))) :: (((Zpos (XI (XO (XO (XO (XO (XI (XO (XI (XO (XI
    XH))))))))))), (Npos (XO (XO (XO (XO (XI (XI (XO (XI (XI (XO (XI
    XH))))))))))))) :: (((Zpos (XI (XI (XI (XI (XO (XI (XO (XI (XO (XI
    XH))))))))))), (Npos (XI (XI (XO (XO (XI (XI (XO (XI (XO (XI (XI
    XH))))))))))))) :: (((Zpos (XO (XO (XO (XI (XO (XI (XO (XI (XO (XI
    XH))))))))))), (Npos (XI (XO (XO (XI (XI (XI (XO (XO (XO (XI (XI
    XH))))))))))))) :: (((Zpos (XI (XO (XO (XI (XO (XI (XO (XI (XO (XI
    XH))))))))))), (Npos (XI (XO (XO (XO (XI (XO (XI (XO (XO (XI (XI
    XH))))))))))))) :: (((Zpos (XO (XI (XO (XI (XO (XI (XO (XI (XO (XI
    XH))))))))))), (Npos (XO (XI (XO (XI (XO (XI (XI (XO (XO (XI (XI
    XH))))))))))))) :: (((Zpos (XI (XI (XO (XI (XO (XI (XO (XI (XO (XI
    XH))))))))))), (Npos (XO (XI (XI (XO (XI (XI (XI (XO (XO (XI (XI
    XH))))))))))))) :: (((Zpos (XI (XO (XO (XO (XO (XI (XI (XI (XI (XI (XI
    (XI (XI (XI (XI XH)))))))))))))))), (Npos (XI (XO (XO (XO (XI (XI (XO (XO
    (XO (XO (XO (XI (XI XH))))))))))))))) :: (((Zpos (XO (XI (XI (XO (XO (XI
    (XI (XI (XI (XI (XI (XI (XI (XI (XI XH)))))))))))))))), (Npos (XI (XI (XI
    (XI (XI (XO (XI (XO (XO (XO (XO (XI (XI XH))))))))))))))) :: (((Zpos (XO
    (XI (XO (XO (XO (XI (XI (XI (XI (XI (XI (XI (XI (XI (XI
    XH)))))))))))))))), (Npos (XI (XO (XO (XI (XI (XI (XO (XO (XO (XO (XO (XI
    (XI XH))))))))))))))) :: (((Zpos (XO (XO (XI (XI (XI (XI (XO (XO (XI (XI
    (XI (XI (XI (XI (XI XH)))))))))))))))), (Npos (XI (XI (XO (XO (XI (XO (XI
    (XO (XI (XO (XI (XO (XI XH))))))))))))))) :: (((Zpos (XI (XI (XO (XO (XI
    (XI (XI (XO (XO (XI (XI (XI (XI (XI (XI XH)))))))))))))))), (Npos (XO (XO
    (XO (XO (XI (XI (XI (XI (XO (XO (XO (XO (XI XH))))))))))))))) :: (((Zpos
    (XI (XO (XI (XO (XI (XI (XI (XO (XO (XI (XI (XI (XI (XI (XI
    XH)))))))))))))))), (Npos (XO (XI (XO (XO (XI (XO (XO (XO (XI (XO (XO (XO
    (XI XH))))))))))))))) :: (((Zpos (XI (XI (XO (XI (XO (XI (XI (XI (XI (XI
    (XI (XI (XI (XI (XI XH)))))))))))))))), (Npos (XO (XO (XI (XO (XO (XO (XO
    (XI (XO (XO (XO (XI (XI XH))))))))))))))) :: (((Zpos (XO (XO (XI (XI (XO
    (XI (XI (XI (XI (XI (XI (XI (XI (XI (XI XH)))))))))))))))), (Npos (XO (XO
    (XI (XI (XO (XO (XO (XI (XO (XO (XO (XI (XI XH))))))))))))))) :: (((Zpos
    (XI (XO (XI (XO (XI (XO (XO (XO (XI (XI (XI (XI (XI (XI (XI
    XH)))))))))))))))), (Npos (XO (XI (XI (XO (XO (XO (XO (XO (XO (XO (XI (XO
    (XI XH))))))))))))))) :: (((Zpos (XO (XO (XI (XO (XI (XO XH))))))), (Npos
    (XI (XO (XI (XO (XI (XI (XI XH))))))))) :: (((Zpos (XO (XI (XI (XI (XI
    (XO (XI XH)))))))), (Npos (XO (XI (XO (XO (XO (XI (XI (XI (XI
    XH))))))))))) :: (((Zpos (XI (XO (XO (XI (XO (XO (XO (XO (XI (XI (XI (XI
    (XI (XI (XI XH)))))))))))))))), (Npos (XO (XI (XO (XI (XI (XO (XI (XI (XI
    (XI (XO (XO (XI XH))))))))))))))) :: (((Zpos (XI (XI (XO (XI (XO (XI (XO
    (XI XH))))))))), (Npos (XI (XO (XI (XO (XI (XI (XO (XO (XI (XO
    XH)))))))))))) :: (((Zpos (XO (XI (XI (XI (XI (XO (XI (XI XH))))))))),
    (Npos (XO (XO (XO (XO (XI (XI (XO (XO (XO (XI XH)))))))))))) :: (((Zpos
    (XI (XO (XI (XO (XI (XO (XI (XI (XO (XI (XI (XI (XI (XI (XI
    XH)))))))))))))))), (Npos (XO (XO (XO (XO (XI (XO (XI (XI (XI (XO (XO (XO
    (XI XH))))))))))))))) :: (((Zpos (XI (XI (XI (XI (XI (XO (XI (XI (XI (XO
    (XI XH)))))))))))), (Npos (XO (XO (XI (XI (XO (XI (XO (XO (XO (XO (XI (XO
    (XO XH))))))))))))))) :: (((Zpos (XO (XI (XO (XI (XI (XI (XO (XI (XI (XO
    (XI XH)))))))))))), (Npos (XI (XI (XO (XI (XO (XO (XO (XI (XO (XI (XO (XO
    (XO XH))))))))))))))) :: (((Zpos (XO (XO (XO (XI (XO (XI (XO (XI (XI (XO
    (XI XH)))))))))))), (Npos (XI (XI (XI (XI (XI (XO (XO (XI (XI (XO (XO (XO
    (XO XH))))))))))))))) :: (((Zpos (XO (XI (XO (XI (XO (XI (XO (XI (XI (XO
    (XI XH)))))))))))), (Npos (XO (XI (XO (XI (XI (XI (XO (XI (XI (XO (XO (XO
    (XO XH))))))))))))))) :: (((Zpos (XI (XO (XO (XI (XO (XI (XO (XI (XI (XO
    (XI XH)))))))))))), (Npos (XO (XO (XI (XI (XO (XI (XO (XI (XI (XO (XO (XO
    (XO XH))))))))))))))) :: (((Zpos (XO (XO (XI (XI (XO (XI (XO (XI (XI (XO
    (XI XH)))))))))))), (Npos (XO (XI (XO (XO (XI (XO (XI (XI (XI (XO (XO (XO
    (XO XH))))))))))))))) :: (((Zpos (XO (XI (XI (XI (XO (XI (XO (XI (XI (XO
    (XI XH)))))))))))), (Npos (XI (XI (XO (XI (XO (XI (XI (XI (XI (XO (XO (XO
    (XO XH))))))))))))))) :: (((Zpos (XO (XO (XI (XO (XI (XI (XO (XI (XI (XO
    (XI XH)))))))))))), (Npos (XO (XO (XO (XO (XO (XO (XI (XO (XO (XI (XO (XO
    (XO XH))))))))))))))) :: (((Zpos (XI (XO (XI (XI (XI (XI (XO (XI (XI (XO
    (XI XH)))))))))))), (Npos (XO (XI (XO (XO (XI (XI (XO (XI (XO (XI (XO (XO
    (XO XH))))))))))))))) :: (((Zpos (XI (XI (XI (XI (XI (XI (XO (XI (XI (XO
    (XI XH)))))))))))), (Npos (XI (XO (XO (XI (XO (XO (XI (XI (XO (XI (XO (XO
    (XO XH))))))))))))))) :: (((Zpos (XI (XI (XO (XI (XO (XO (XI (XI (XI (XO
    (XI XH)))))))))))), (Npos (XI (XI (XI (XI (XO (XO (XI (XO (XI (XI (XO (XO
    (XO XH))))))))))))))) :: (((Zpos (XO (XI (XI (XI (XO (XO (XI (XI (XI (XO
    (XI XH)))))))))))), (Npos (XI (XO (XO (XO (XI (XI (XI (XO (XI (XI (XO (XO
    (XO XH))))))))))))))) :: (((Zpos (XO (XI (XO (XO (XO (XI (XO (XI (XI (XO
    (XI XH)))))))))))), (Npos (XI (XO (XI (XI (XO (XO (XI (XO (XI (XO (XO (XO
    (XO XH))))))))))))))) :: (((Zpos (XI (XO (XI (XO (XO (XI (XO (XI (XI (XO
    (XI XH)))))))))))), (Npos (XO (XI (XI (XO (XI (XI (XI (XO (XI (XO (XO (XO
    (XO XH))))))))))))))) :: (((Zpos (XI (XI (XO (XO (XO (XI (XO (XI (XI (XO
    (XI XH)))))))))))), (Npos (XO (XI (XO (XI (XI (XO (XI (XO (XI (XO (XO (XO
    (XO XH))))))))))))))) :: (((Zpos (XO (XO (XI (XO (XO (XI (XO (XI (XI (XO
    (XI XH)))))))))))), (Npos (XO (XO (XO (XI (XO (XI (XI (XO (XI (XO (XO (XO
    (XO XH))))))))))))))) :: (((Zpos (XO (XI (XI (XO (XO (XI (XO (XI (XI (XO
    (XI XH)))))))))))), (Npos (XI (XI (XO (XO (XO (XO (XO (XI (XI (XO (XO (XO
    (XO XH))))))))))))))) :: (((Zpos (XI (XO (XO (XO (XO (XI (XO (XI (XI (XO
    (XI XH)))))))))))), (Npos (XO (XI (XO (XO (XO (XO (XI (XO (XI (XO (XO (XO
    (XO XH))))))))))))))) :: (((Zpos (XI (XO (XI (XO (XO (XI (XI (XI (XI (XO
    (XI XH)))))))))))), (Npos (XI (XI (XI (XI (XI (XI (XI (XO (XO (XO (XI (XO
    (XO XH))))))))))))))) :: (((Zpos (XI (XI (XI (XO (XI (XI (XI (XI (XI (XO
    (XI XH)))))))))))), (Npos (XO (XO (XI (XO (XI (XO (XI (XO (XI (XO (XI (XO
    (XO XH))))))))))))))) :: (((Zpos (XI (XO (XI (XO (XI (XI (XI (XI (XI (XO
    (XI XH)))))))))))), (Npos (XI (XO (XI (XI (XI (XI (XO (XO (XI (XO (XI (XO
    (XO XH))))))))))))))) :: (((Zpos (XO (XI (XI (XO (XI (XI (XI (XI (XI (XO
    (XI XH)))))))))))), (Npos (XO (XO (XO (XI (XO (XO (XI (XO (XI (XO (XI (XO
    (XO XH))))))))))))))) :: (((Zpos (XI (XO (XO (XI (XI (XI (XI (XI (XI (XO
    (XI XH)))))))))))), (Npos (XO (XI (XI (XI (XO (XI (XI (XO (XI (XO (XI (XO
    (XO XH))))))))))))))) :: (((Zpos (XI (XO (XO (XO (XI (XI (XI (XI (XI (XO
    (XI XH)))))))))))), (Npos (XO (XO (XI (XI (XO (XO (XO (XO (XI (XO (XI (XO
    (XO XH))))))))))))))) :: (((Zpos (XO (XO (XO (XI (XI (XI (XI (XI (XI (XO
    (XI XH)))))))))))), (Npos (XI (XO (XO (XO (XO (XI (XI (XO (XI (XO (XI (XO
    (XO XH))))))))))))))) :: (((Zpos (XI (XI (XO (XO (XI (XI (XI (XI (XI (XO
    (XI XH)))))))))))), (Npos (XO (XI (XI (XO (XO (XI (XO (XO (XI (XO (XI (XO
    (XO XH))))))))))))))) :: (((Zpos (XO (XO (XI (XO (XI (XI (XI (XI (XI (XO
    (XI XH)))))))))))), (Npos (XO (XI (XO (XO (XI (XI (XO (XO (XI (XO (XI (XO
    (XO XH))))))))))))))) :: (((Zpos (XO (XI (XO (XO (XI (XI (XI (XI (XI (XO
    (XI XH)))))))))))), (Npos (XI (XO (XO (XI (XI (XO (XO (XO (XI (XO (XI (XO
    (XO XH))))))))))))))) :: (((Zpos (XO (XO (XO (XO (XI (XI (XI (XI (XI (XO
    (XI XH)))))))))))), (Npos (XO (XO (XO (XO (XO (XO (XO (XO (XI (XO (XI (XO
    (XO XH))))))))))))))) :: (((Zpos (XO (XO (XI (XI (XO (XO (XI (XI (XI (XO
    (XI XH)))))))))))), (Npos (XO (XI (XO (XI (XI (XO (XI (XO (XI (XI (XO (XO
    (XO XH))))))))))))))) :: (((Zpos (XI (XO (XI (XO (XO (XO (XI (XI (XI (XO
    (XI XH)))))))))))), (Npos (XO (XO (XI (XI (XO (XO (XO (XO (XI (XI (XO (XO
    (XO XH))))))))))))))) :: (((Zpos (XO (XI (XI (XO (XO (XO (XI (XI (XI (XO
    (XI XH)))))))))))), (Npos (XO (XO (XO (XI (XI (XO (XO (XO (XI (XI (XO (XO
    (XO XH))))))))))))))) :: (((Zpos (XI (XI (XO (XI (XO (XI (XI (XI (XI (XO
    (XI XH)))))))))))), (Npos (XO (XO (XO (XO (XI (XO (XI (XI (XO (XO (XI (XO
    (XO XH))))))))))))))) :: (((Zpos (XO (XO (XO (XI (XO (XI (XI (XI (XI (XO
    (XI XH)))))))))))), (Npos (XI (XO (XI (XI (XO (XI (XO (XI (XO (XO (XI (XO
    (XO XH))))))))))))))) :: (((Zpos (XI (XO (XO (XO (XI (XO (XI (XI (XI (XO
    (XI XH)))))))))))), (Npos (XI (XO (XO (XI (XI (XO (XO (XI (XI (XI (XO (XO
    (XO XH))))))))))))))) :: (((Zpos (XO (XI (XI (XI (XI (XO (XI (XI (XI (XO
    (XI XH)))))))))))), (Npos (XI (XO (XI (XO (XI (XO (XO (XO (XO (XO (XI (XO
    (XO XH))))))))))))))) :: (((Zpos (XI (XI (XI (XO (XO (XI (XI (XI (XI (XO
    (XI XH)))))))))))), (Npos (XO (XI (XI (XI (XI (XO (XO (XI (XO (XO (XI (XO
    (XO XH))))))))))))))) :: (((Zpos (XI (XO (XO (XI (XO (XI (XI (XI (XI (XO
    (XI XH)))))))))))), (Npos (XO (XO (XO (XI (XI (XI (XO (XI (XO (XO (XI (XO
    (XO XH))))))))))))))) :: (((Zpos (XO (XI (XO (XI (XO (XI (XI (XI (XI (XO
    (XI XH)))))))))))), (Npos (XO (XO (XI (XO (XO (XO (XI (XI (XO (XO (XI (XO
    (XO XH))))))))))))))) :: (((Zpos (XO (XI (XI (XO (XO (XI (XI (XI (XI (XO
    (XI XH)))))))))))), (Npos (XO (XO (XO (XO (XI (XO (XO (XI (XO (XO (XI (XO
    (XO XH))))))))))))))) :: (((Zpos (XI (XO (XO (XO (XO (XO (XI (XI (XI (XO
    (XI XH)))))))))))), (Npos (XO (XO (XI (XO (XO (XI (XI (XI (XO (XI (XO (XO
    (XO XH))))))))))))))) :: (((Zpos (XI (XI (XI (XO (XO (XI (XO (XI (XI (XO
    (XI XH)))))))))))), (Npos (XI (XI (XO (XO (XI (XO (XO (XI (XI (XO (XO (XO
    (XO XH))))))))))))))) :: (((Zpos (XI (XO (XI (XI (XO (XI (XI (XI (XI (XO
    (XI XH)))))))))))), (Npos (XO (XI (XO (XO (XI (XI (XI (XI (XO (XO (XI (XO
    (XO XH))))))))))))))) :: (((Zpos (XI (XI (XO (XO (XI (XI (XO (XI (XI (XO
    (XI XH)))))))))))), (Npos (XI (XO (XI (XO (XI (XI (XO (XO (XO (XI (XO (XO
    (XO XH))))))))))))))) :: (((Zpos (XI (XO (XO (XI (XI (XI (XO (XI (XI (XO
    (XI XH)))))))))))), (Npos (XI (XO (XO (XO (XO (XO (XO (XI (XO (XI (XO (XO
    (XO XH))))))))))))))) :: (((Zpos (XI (XO (XI (XI (XO (XO (XI (XI (XI (XO
    (XI XH)))))))))))), (Npos (XI (XI (XI (XO (XO (XI (XI (XO (XI (XI (XO (XO
    (XO XH))))))))))))))) :: (((Zpos (XI (XI (XI (XI (XO (XO (XI (XI (XI (XO
    (XI XH)))))))))))), (Npos (XI (XI (XI (XI (XI (XI (XI (XO (XI (XI (XO (XO
    (XO XH))))))))))))))) :: (((Zpos (XO (XI (XO (XI (XI (XO (XI (XI (XI (XO
    (XI XH)))))))))))), (Npos (XO (XO (XO (XI (XO (XO (XO (XO (XO (XO (XI (XO
    (XO XH))))))))))))))) :: (((Zpos (XO (XI (XI (XI (XI (XI (XO (XI (XI (XO
    (XI XH)))))))))))), (Npos (XO (XO (XI (XI (XI (XI (XO (XI (XO (XI (XO (XO
    (XO XH))))))))))))))) :: (((Zpos (XO (XO (XI (XI (XI (XI (XO (XI (XI (XO
    (XI XH)))))))))))), (Npos (XO (XO (XI (XO (XO (XI (XO (XI (XO (XI (XO (XO
    (XO XH))))))))))))))) :: (((Zpos (XO (XO (XO (XO (XO (XO (XI (XI (XI (XO
    (XI XH)))))))))))), (Npos (XO (XO (XI (XO (XI (XO (XI (XI (XO (XI (XO (XO
    (XO XH))))))))))))))) :: (((Zpos (XI (XI (XO (XI (XI (XI (XO (XI (XI (XO
    (XI XH)))))))))))), (Npos (XI (XO (XO (XI (XI (XO (XO (XI (XO (XI (XO (XO
    (XO XH))))))))))))))) :: (((Zpos (XI (XI (XO (XO (XO (XO (XI (XI (XI (XO
    (XI XH)))))))))))), (Npos (XI (XO (XO (XI (XI (XI (XI (XI (XO (XI (XO (XO
    (XO XH))))))))))))))) :: (((Zpos (XO (XO (XI (XO (XO (XO (XI (XI (XI (XO
    (XI XH)))))))))))), (Npos (XO (XO (XI (XO (XO (XO (XO (XO (XI (XI (XO (XO
    (XO XH))))))))))))))) :: (((Zpos (XO (XO (XO (XO (XI (XO (XI (XI (XI (XO
    (XI XH)))))))))))), (Npos (XO (XI (XI (XI (XO (XO (XO (XI (XI (XI (XO (XO
    (XO XH))))))))))))))) :: (((Zpos (XO (XI (XO (XO (XI (XO (XI (XI (XI (XO
    (XI XH)))))))))))), (Npos (XI (XO (XO (XI (XO (XI (XO (XI (XI (XI (XO (XO
    (XO XH))))))))))))))) :: (((Zpos (XI (XO (XO (XO (XO (XI (XI (XI (XI (XO
    (XI XH)))))))))))), (Npos (XI (XO (XO (XO (XO (XO (XI (XO (XO (XO (XI (XO
    (XO XH))))))))))))))) :: (((Zpos (XO (XO (XI (XO (XO (XI (XI (XI (XI (XO
    (XI XH)))))))))))), (Npos (XI (XI (XO (XI (XO (XI (XI (XO (XO (XO (XI (XO
    (XO XH))))))))))))))) :: (((Zpos (XI (XI (XO (XO (XO (XI (XI (XI (XI (XO
    (XI XH)))))))))))), (Npos (XO (XO (XO (XI (XI (XO (XI (XO (XO (XO (XI (XO
    (XO XH))))))))))))))) :: (((Zpos (XI (XI (XO (XO (XI (XO (XI (XI (XI (XO
    (XI XH)))))))))))), (Npos (XI (XO (XI (XO (XI (XI (XO (XI (XI (XI (XO (XO
    (XO XH))))))))))))))) :: (((Zpos (XO (XO (XO (XO (XO (XI (XI (XI (XI (XO
    (XI XH)))))))))))), (Npos (XO (XI (XI (XO (XI (XI (XO (XO (XO (XO (XI (XO
    (XO XH))))))))))))))) :: (((Zpos (XO (XO (XI (XO (XI (XO (XI (XI (XI (XO
    (XI XH)))))))))))), (Npos (XI (XO (XO (XO (XO (XO (XI (XI (XI (XI (XO (XO
    (XO XH))))))))))))))) :: (((Zpos (XI (XO (XI (XO (XI (XO (XI (XI (XI (XO
    (XI XH)))))))))))), (Npos (XO (XO (XI (XI (XO (XO (XI (XI (XI (XI (XO (XO
    (XO XH))))))))))))))) :: (((Zpos (XO (XI (XO (XO (XO (XI (XI (XI (XI (XO
    (XI XH)))))))))))), (Npos (XI (XO (XI (XI (XO (XO (XI (XO (XO (XO (XI (XO
    (XO XH))))))))))))))) :: (((Zpos (XO (XO (XO (XI (XI (XO (XI (XI (XI (XO
    (XI XH)))))))))))), (Npos (XI (XO (XO (XO (XI (XI (XI (XI (XI (XI (XO (XO
    (XO XH))))))))))))))) :: (((Zpos (XO (XI (XI (XO (XI (XO (XI (XI (XI (XO
    (XI XH)))))))))))), (Npos (XO (XO (XO (XI (XI (XO (XI (XI (XI (XI (XO (XO
    (XO XH))))))))))))))) :: (((Zpos (XI (XI (XI (XO (XI (XO (XI (XI (XI (XO
    (XI XH)))))))))))), (Npos (XO (XO (XI (XO (XO (XI (XI (XI (XI (XI (XO (XO
    (XO XH))))))))))))))) :: (((Zpos (XI (XO (XO (XI (XI (XO (XI (XI (XI (XO
    (XI XH)))))))))))), (Npos (XO (XO (XI (XI (XI (XI (XI (XI (XI (XI (XO (XO
    (XO XH))))))))))))))) :: (((Zpos (XI (XO (XO (XI (XO (XO (XI (XI (XI (XO
    (XI XH)))))))))))), (Npos (XO (XO (XO (XI (XI (XI (XO (XO (XI (XI (XO (XO
    (XO XH))))))))))))))) :: (((Zpos (XO (XO (XO (XI (XO (XO (XI (XI (XI (XO
    (XI XH)))))))))))), (Npos (XO (XO (XI (XI (XO (XI (XO (XO (XI (XI (XO (XO
    (XO XH))))))))))))))) :: (((Zpos (XI (XI (XO (XI (XO (XI (XO (XI (XI (XO
    (XI XH)))))))))))), (Npos (XO (XO (XO (XI (XO (XO (XI (XI (XI (XO (XO (XO
    (XO XH))))))))))))))) :: (((Zpos (XO (XI (XO (XI (XO (XO (XI (XI (XI (XO
    (XI XH)))))))))))), (Npos (XO (XO (XI (XO (XO (XO (XI (XO (XI (XI (XO (XO
    (XO XH))))))))))))))) :: (((Zpos (XO (XO (XI (XI (XO (XI (XI (XI (XI (XO
    (XI XH)))))))))))), (Npos (XI (XO (XO (XO (XO (XI (XI (XI (XO (XO (XI (XO
    (XO XH))))))))))))))) :: (((Zpos (XI (XO (XO (XO (XI (XI (XO (XI (XI (XO
    (XI XH)))))))))))), (Npos (XO (XI (XO (XO (XI (XO (XO (XO (XO (XI (XO (XO
    (XO XH))))))))))))))) :: (((Zpos (XO (XI (XO (XO (XI (XI (XO (XI (XI (XO
    (XI XH)))))))))))), (Npos (XI (XO (XI (XO (XO (XI (XO (XO (XO (XI (XO (XO
    (XO XH))))))))))))))) :: (((Zpos (XI (XI (XI (XO (XI (XI (XO (XI (XI (XO
    (XI XH)))))))))))), (Npos (XO (XO (XI (XO (XO (XI (XI (XO (XO (XI (XO (XO
    (XO XH))))))))))))))) :: (((Zpos (XO (XO (XO (XO (XI (XI (XO (XI (XI (XO
    (XI XH)))))))))))), (Npos (XI (XO (XI (XO (XO (XO (XO (XO (XO (XI (XO (XO
    (XO XH))))))))))))))) :: (((Zpos (XO (XO (XO (XI (XI (XI (XO (XI (XI (XO
    (XI XH)))))))))))), (Npos (XI (XI (XO (XO (XI (XI (XI (XO (XO (XI (XO (XO
    (XO XH))))))))))))))) :: (((Zpos (XO (XI (XI (XO (XI (XI (XO (XI (XI (XO
    (XI XH)))))))))))), (Npos (XO (XI (XI (XO (XI (XO (XI (XO (XO (XI (XO (XO
    (XO XH))))))))))))))) :: (((Zpos (XI (XI (XI (XI (XO (XI (XO (XI (XI (XO
    (XI XH)))))))))))), (Npos (XO (XO (XO (XI (XI (XI (XI (XI (XI (XO (XO (XO
    (XO XH))))))))))))))) :: (((Zpos (XI (XO (XI (XO (XI (XI (XO (XI (XI (XO
    (XI XH)))))))))))), (Npos (XI (XI (XO (XI (XO (XO (XI (XO (XO (XI (XO (XO
    (XO XH))))))))))))))) :: (((Zpos (XI (XI (XI (XO (XO (XO (XI (XI (XI (XO
    (XI XH)))))))))))), (Npos (XO (XO (XO (XO (XO (XI (XO (XO (XI (XI (XO (XO
    (XO XH))))))))))))))) :: (((Zpos (XO (XI (XO (XO (XO (XO (XI (XI (XI (XO
    (XI XH)))))))))))), (Npos (XO (XI (XI (XI (XO (XI (XI (XI (XO (XI (XO (XO
    (XO XH))))))))))))))) :: (((Zpos (XI (XO (XI (XI (XO (XI (XO (XI (XI (XO
    (XI XH)))))))))))), (Npos (XI (XI (XI (XI (XI (XO (XI (XI (XI (XO (XO (XO
    (XO XH))))))))))))))) :: (((Zpos (XO (XI (XI (XI (XI (XO (XI XH)))))))),
    (Npos (XO (XO (XO (XI (XO (XI (XI (XI (XI XH))))))))))) :: (((Zpos (XI
    (XI (XO (XI (XO (XI (XO (XO (XI (XI (XI (XI (XI (XI (XI
    XH)))))))))))))))), (Npos (XO (XO (XI (XI (XO (XO (XO (XI (XO (XO (XI (XO
    (XI XH))))))))))))))) :: (((Zpos (XO (XO (XI (XI (XO (XI (XO (XI (XI
    XH)))))))))), (Npos (XO (XO (XI (XO (XI (XO (XI (XI (XI (XI
    XH)))))))))))) :: (((Zpos (XI (XO (XI (XO (XI (XO XH))))))), (Npos (XI
    (XI (XI (XO (XI (XI (XI XH))))))))) :: (((Zpos (XO (XI (XO (XI (XI (XO
    (XI XH)))))))), (Npos (XI (XO (XI (XI (XI (XI (XO (XI (XI
    XH))))))))))) :: (((Zpos (XI (XO (XI (XI (XI (XO (XI (XI (XO
    XH)))))))))), (Npos (XO (XI (XI (XI (XO (XO (XI (XO (XI (XI
    XH)))))))))))) :: (((Zpos (XI (XI (XO (XI (XI (XO (XI XH)))))))), (Npos
    (XO (XO (XI (XO (XO (XO (XI (XI (XI XH))))))))))) :: (((Zpos (XO (XO (XI
    (XI (XI (XO (XI XH)))))))), (Npos (XO (XO (XO (XO (XI (XO (XI (XI (XI
    XH))))))))))) :: (((Zpos (XI (XI (XO (XI (XI (XO (XI (XI XH))))))))),
    (Npos (XI (XI (XO (XO (XO (XI (XO (XO (XO (XI XH)))))))))))) :: (((Zpos
    (XI (XO (XO (XI (XI (XO (XI XH)))))))), (Npos (XO (XI (XI (XO (XI (XI (XO
    (XI (XI XH))))))))))) :: (((Zpos (XO (XI (XI (XO (XI (XI (XO (XI (XO (XI
    XH))))))))))), (Npos (XI (XI (XI (XO (XI (XO (XO (XO (XI (XI (XI
    XH))))))))))))) :: (((Zpos (XO (XO (XI (XO (XI (XI (XO (XI (XO (XI
    XH))))))))))), (Npos (XO (XO (XO (XO (XI (XI (XI (XI (XO (XI (XI
    XH))))))))))))) :: (((Zpos (XI (XI (XI (XO (XI (XI (XO (XI (XO (XI
    XH))))))))))), (Npos (XO (XI (XI (XI (XO (XI (XO (XO (XI (XI (XI
    XH))))))))))))) :: (((Zpos (XO (XI (XI (XO (XO (XI (XO (XI (XO (XI
    XH))))))))))), (Npos (XI (XO (XI (XI (XI (XI (XI (XI (XI (XO (XI
    XH))))))))))))) :: (((Zpos (XO (XO (XI (XO (XO (XI (XO (XI (XO (XI
    XH))))))))))), (Npos (XO (XI (XI (XO (XI (XO (XI (XI (XI (XO (XI
    XH))))))))))))) :: (((Zpos (XI (XI (XI (XO (XO (XI (XO (XI (XO (XI
    XH))))))))))), (Npos (XO (XO (XI (XO (XI (XO (XO (XO (XO (XI (XI
    XH))))))))))))) :: (((Zpos (XO (XI (XI (XO (XI (XI (XO (XI (XO (XI
    XH))))))))))), (Npos (XI (XI (XO (XO (XO (XI (XO (XO (XI (XI (XI
    XH))))))))))))) :: (((Zpos (XO (XO (XI (XO (XI (XI (XO (XI (XO (XI
    XH))))))))))), (Npos (XI (XO (XI (XI (XI (XI (XI (XI (XO (XI (XI
    XH))))))))))))) :: (((Zpos (XI (XI (XI (XO (XI (XI (XO (XI (XO (XI
    XH))))))))))), (Npos (XI (XI (XO (XI (XI (XI (XO (XO (XI (XI (XI
    XH))))))))))))) :: (((Zpos (XO (XI (XI (XO (XO (XI (XO (XI (XO (XI
    XH))))))))))), (Npos (XI (XO (XO (XI (XO (XO (XO (XO (XO (XI (XI
    XH))))))))))))) :: (((Zpos (XO (XO (XI (XO (XO (XI (XO (XI (XO (XI
    XH))))))))))), (Npos (XI (XI (XO (XO (XO (XI (XI (XI (XI (XO (XI
    XH))))))))))))) :: (((Zpos (XI (XI (XI (XO (XO (XI (XO (XI (XO (XI
    XH))))))))))), (Npos (XI (XO (XO (XO (XO (XI (XO (XO (XO (XI (XI
    XH))))))))))))) :: (((Zpos (XO (XI (XI (XI (XI (XO (XI (XI (XI
    XH)))))))))), (Npos (XI (XI (XI (XI (XI (XO (XI (XO (XO (XO (XO
    XH))))))))))))) :: (((Zpos (XI (XO (XI (XO (XO (XI (XI (XO (XI (XI (XI
    (XI (XI (XI (XI XH)))))))))))))))), (Npos (XI (XO (XO (XO (XI (XI (XI (XI
    (XI (XO (XI (XO (XI XH))))))))))))))) :: (((Zpos (XI (XO (XO (XI (XI (XO
    (XI (XI (XI XH)))))))))), (Npos (XO (XO (XO (XO (XI (XO (XI (XO (XO (XO
    (XO XH))))))))))))) :: (((Zpos (XO (XI (XO (XO (XI (XO (XI (XO (XI (XI
    (XI (XI (XI (XI (XI XH)))))))))))))))), (Npos (XO (XO (XO (XO (XO (XI (XO
    (XI (XI (XO (XI (XO (XI XH))))))))))))))) :: (((Zpos (XI (XO (XO (XI (XI
    (XO (XI (XI XH))))))))), (Npos (XI (XO (XI (XI (XI (XO (XO (XO (XO (XI
    XH)))))))))))) :: (((Zpos (XI (XO (XI (XI (XI (XO (XI (XI (XI
    XH)))))))))), (Npos (XO (XO (XO (XI (XI (XO (XI (XO (XO (XO (XO
    XH))))))))))))) :: (((Zpos (XO (XI (XI (XO (XI (XO XH))))))), (Npos (XI
    (XO (XO (XI (XI (XI (XI XH))))))))) :: (((Zpos (XI (XI (XI (XI (XI (XI
    (XI (XI (XI (XI (XI (XI (XI (XI (XI (XI (XI (XI (XI (XI (XI (XI (XI
    XH)))))))))))))))))))))))), (Npos (XI (XI (XO (XI (XO (XI (XO (XI (XO (XO
    (XO (XI (XI XH))))))))))))))) :: (((Zpos (XI (XI (XI (XO (XI (XO
    XH))))))), (Npos (XI (XI (XO (XI (XI (XI (XI XH))))))))) :: (((Zpos (XI
    (XO (XO (XI (XO (XI (XO (XI (XO (XO (XO (XO (XO XH)))))))))))))), (Npos
    (XO (XO (XO (XO (XI (XI (XI (XO (XI (XI (XO (XI (XO
    XH))))))))))))))) :: (((Zpos (XO (XO (XO (XI (XI (XO XH))))))), (Npos (XI
    (XO (XI (XI (XI (XI (XI XH))))))))) :: (((Zpos (XI (XO (XO (XI (XI (XO
    XH))))))), (Npos (XI (XI (XI (XI (XI (XI (XI XH))))))))) :: (((Zpos (XI
    (XO (XI (XI (XI (XO (XI XH)))))))), (Npos (XI (XI (XO (XI (XI (XO (XI (XI
    (XI XH))))))))))) :: (((Zpos (XO (XI (XI (XI (XI (XI (XO (XI (XI (XI (XO
    (XO XH))))))))))))), (Npos (XO (XI (XO (XI (XO (XO (XO (XO (XI (XI (XO
    (XI (XO XH))))))))))))))) :: (((Zpos (XO (XI (XO (XI (XI (XO XH))))))),
    (Npos (XI (XO (XO (XO (XO (XO (XO (XO XH)))))))))) :: (((Zpos (XI (XI (XI
    (XI (XO (XI (XO (XI XH))))))))), (Npos (XO (XI (XO (XI (XO (XO (XI (XO
    (XI (XO XH)))))))))))) :: (((Zpos (XO (XO (XI (XI (XO (XI (XO (XI
    XH))))))))), (Npos (XO (XO (XI (XI (XI (XI (XO (XO (XI (XO
    XH)))))))))))) :: (((Zpos (XO (XI (XI (XI (XO (XI (XO (XI XH))))))))),
    (Npos (XI (XI (XO (XO (XO (XO (XI (XO (XI (XO XH)))))))))))) :: (((Zpos
    (XO (XO (XO (XI (XO (XI (XO (XO (XI (XI (XI (XI (XI (XI (XI
    XH)))))))))))))))), (Npos (XO (XO (XI (XI (XO (XI (XI (XO (XO (XO (XI (XO
    (XI XH))))))))))))))) :: (((Zpos (XO (XI (XO (XI (XO (XI (XO (XO (XI (XI
    (XI (XI (XI (XI (XI XH)))))))))))))))), (Npos (XO (XO (XI (XI (XI (XI (XI
    (XO (XO (XO (XI (XO (XI XH))))))))))))))) :: (((Zpos (XI (XO (XO (XO (XO
    (XI XH))))))), (Npos (XI (XO (XI (XI (XO (XO (XI (XO
    XH)))))))))) :: (((Zpos (XI (XO (XO (XO (XO (XI (XI XH)))))))), (Npos (XO
    (XO (XI (XI (XI (XI (XI (XI (XI XH))))))))))) :: (((Zpos (XI (XI (XI (XI
    (XI (XI (XI (XI XH))))))))), (Npos (XO (XO (XO (XI (XI (XI (XO (XI (XO
    (XI XH)))))))))))) :: (((Zpos (XI (XI (XO (XO (XO (XI (XI (XI
    XH))))))))), (Npos (XO (XO (XO (XO (XO (XO (XI (XO (XO (XI
    XH)))))))))))) :: (((Zpos (XO (XI (XO (XO (XO (XI (XI XH)))))))), (Npos
    (XI (XI (XO (XO (XO (XO (XO (XO (XO (XO XH)))))))))))) :: (((Zpos (XO (XO
    (XI (XO (XI (XI (XO XH)))))))), (Npos (XO (XO (XI (XO (XO (XI (XI (XO (XO
    XH))))))))))) :: (((Zpos (XO (XO (XI (XO (XO (XI (XI XH)))))))), (Npos
    (XO (XI (XI (XO (XI (XO (XO (XO (XO (XO XH)))))))))))) :: (((Zpos (XO (XI
    (XI (XO (XO (XI (XI XH)))))))), (Npos (XI (XI (XI (XO (XO (XI (XO (XO (XO
    (XO XH)))))))))))) :: (((Zpos (XO (XO (XO (XO (XO (XI (XI XH)))))))),
    (Npos (XI (XO (XI (XO (XI (XI (XI (XI (XI XH))))))))))) :: (((Zpos (XO
    (XO (XO (XO (XO (XI (XI (XI (XI XH)))))))))), (Npos (XI (XI (XI (XO (XO
    (XI (XI (XO (XO (XO (XO XH))))))))))))) :: (((Zpos (XO (XI (XI (XO (XO
    XH)))))), (Npos (XO (XO (XO (XO (XI XH))))))) :: (((Zpos (XI (XO (XO (XO
    (XI (XI (XO (XI XH))))))))), (Npos (XO (XO (XI (XO (XI (XO (XI (XO (XI
    (XO XH)))))))))))) :: (((Zpos (XI (XI (XI (XO (XO XH)))))), (Npos (XO (XI
    (XO (XI (XI XH))))))) :: (((Zpos (XO (XO (XO (XI (XO (XO (XI (XI (XO (XO
    (XO XH)))))))))))), (Npos (XO (XO (XO (XI (XO (XI (XI (XI (XO (XO (XO (XI
    XH)))))))))))))) :: (((Zpos (XI (XO (XI (XO (XO (XI (XI XH)))))))), (Npos
    (XI (XO (XO (XO (XO (XI (XO (XO (XO (XO XH)))))))))))) :: (((Zpos (XO (XI
    (XI (XI (XI (XO XH))))))), (Npos (XO (XI (XI (XO (XO (XI (XO (XO
    XH)))))))))) :: (((Zpos (XO (XI (XI (XI (XI (XI XH))))))), (Npos (XO (XI
    (XO (XI (XI (XO (XO (XI XH)))))))))) :: (((Zpos (XO (XI (XO (XI (XO
    XH)))))), (Npos (XI (XO (XI (XO (XO (XI XH)))))))) :: (((Zpos (XO (XO (XO
    (XO (XO (XO XH))))))), (Npos (XO (XO (XI (XI (XO (XO (XI
    XH))))))))) :: (((Zpos (XI (XI (XO (XO (XO (XI (XI XH)))))))), (Npos (XI
    (XI (XI (XI (XO (XO (XO (XO (XO (XO XH)))))))))))) :: (((Zpos (XO (XI (XO
    (XO (XO (XI XH))))))), (Npos (XI (XI (XI (XI (XO (XO (XI (XO
    XH)))))))))) :: (((Zpos (XO (XO (XI (XI (XI (XO XH))))))), (Npos (XI (XI
    (XI (XI (XO (XO (XO (XO XH)))))))))) :: (((Zpos (XO (XO (XI (XO (XI (XI
    (XI (XI (XO (XI (XO XH)))))))))))), (Npos (XO (XO (XI (XI (XO (XO (XO (XO
    (XO (XI (XI (XI XH)))))))))))))) :: (((Zpos (XO (XO (XI (XI (XI (XI
    XH))))))), (Npos (XI (XI (XO (XI (XO (XO (XO (XI XH)))))))))) :: (((Zpos
    (XI (XI (XI (XI (XI (XO (XI (XI (XI (XO (XO XH)))))))))))), (Npos (XO (XI
    (XO (XO (XO (XI (XO (XI (XI (XO (XO (XI XH)))))))))))))) :: (((Zpos (XI
    (XO (XI (XO (XO (XI (XO (XI (XO (XO (XO XH)))))))))))), (Npos (XO (XO (XO
    (XO (XO (XO (XI (XO (XI (XI (XI (XO XH)))))))))))))) :: (((Zpos (XO (XO
    (XI (XI (XO (XI (XO (XI (XO (XO (XO XH)))))))))))), (Npos (XO (XI (XI (XI
    (XO (XI (XO (XI (XI (XI (XI (XO XH)))))))))))))) :: (((Zpos (XO (XO (XO
    (XI (XO (XI (XO (XI (XO (XO (XO XH)))))))))))), (Npos (XI (XI (XO (XI (XO
    (XI (XI (XO (XI (XI (XI (XO XH)))))))))))))) :: (((Zpos (XO (XI (XO (XO
    (XI (XI (XO (XI (XO (XO (XO XH)))))))))))), (Npos (XO (XI (XI (XO (XI (XO
    (XO (XO (XO (XO (XO (XI XH)))))))))))))) :: (((Zpos (XO (XI (XI (XI (XO
    (XI (XO (XI (XO (XO (XO XH)))))))))))), (Npos (XI (XI (XO (XI (XO (XO (XI
    (XI (XI (XI (XI (XO XH)))))))))))))) :: (((Zpos (XO (XI (XO (XI (XO (XI
    (XO (XI (XO (XO (XO XH)))))))))))), (Npos (XO (XI (XI (XI (XO (XO (XO (XI
    (XI (XI (XI (XO XH)))))))))))))) :: (((Zpos (XO (XI (XI (XO (XI (XI (XO
    (XI (XO (XO (XO XH)))))))))))), (Npos (XI (XO (XI (XI (XO (XI (XI (XO (XO
    (XO (XO (XI XH)))))))))))))) :: (((Zpos (XO (XI (XI (XO (XI (XI (XI (XI
    (XI (XO (XO XH)))))))))))), (Npos (XO (XI (XO (XO (XI (XI (XI (XO (XO (XI
    (XO (XI XH)))))))))))))) :: (((Zpos (XO (XO (XI (XO (XI (XI (XO (XI (XO
    (XO (XO XH)))))))))))), (Npos (XI (XO (XO (XO (XO (XO (XI (XO (XO (XO (XO
    (XI XH)))))))))))))) :: (((Zpos (XI (XI (XO (XI (XI (XI XH))))))), (Npos
    (XI (XO (XO (XO (XO (XO (XO (XI XH)))))))))) :: (((Zpos (XI (XO (XI (XI
    (XI (XI XH))))))), (Npos (XI (XI (XI (XI (XO (XO (XO (XI
    XH)))))))))) :: (((Zpos (XI (XI (XO (XI (XI (XO XH))))))), (Npos (XI (XI
    (XO (XO (XO (XO (XO (XO XH)))))))))) :: (((Zpos (XI (XO (XI (XI (XI (XO
    XH))))))), (Npos (XI (XO (XO (XI (XI (XO (XO (XO XH)))))))))) :: (((Zpos
    (XO (XI (XO (XO (XO (XI (XO (XI XH))))))))), (Npos (XI (XO (XO (XI (XO
    (XO (XO (XO (XI (XO XH)))))))))))) :: (((Zpos (XO (XI (XI (XO (XO (XI (XO
    XH)))))))), (Npos (XO (XO (XO (XI (XI (XO (XI (XI XH)))))))))) :: (((Zpos
    (XI (XI (XO (XO (XO (XI XH))))))), (Npos (XI (XO (XO (XO (XI (XO (XI (XO
    XH)))))))))) :: (((Zpos (XI (XO (XI (XO (XO (XI (XI (XI (XO XH)))))))))),
    (Npos (XI (XO (XO (XO (XO (XI (XI (XO (XI (XI XH)))))))))))) :: (((Zpos
    (XO (XI (XI (XO (XO (XI (XI (XI XH))))))))), (Npos (XO (XI (XI (XI (XO
    (XO (XI (XO (XO (XI XH)))))))))))) :: (((Zpos (XO (XO (XO (XI (XI (XI (XO
    (XI (XO (XI (XO XH)))))))))))), (Npos (XO (XO (XI (XO (XI (XO (XI (XO (XI
    (XI (XO (XI XH)))))))))))))) :: (((Zpos (XO (XO (XI (XI (XI (XI (XI (XI
    (XO (XI (XO XH)))))))))))), (Npos (XI (XO (XO (XI (XI (XI (XI (XO (XO (XI
    (XI (XI XH)))))))))))))) :: (((Zpos (XI (XI (XI (XO (XI (XI (XO (XI
    XH))))))))), (Npos (XI (XO (XO (XI (XI (XI (XI (XO (XI (XO
    XH)))))))))))) :: (((Zpos (XO (XO (XO (XI (XO (XI (XI (XI XH))))))))),
    (Npos (XI (XO (XI (XO (XI (XO (XI (XO (XO (XI XH)))))))))))) :: (((Zpos
    (XI (XI (XI (XO (XO (XI (XI XH)))))))), (Npos (XO (XI (XO (XI (XO (XI (XO
    (XO (XO (XO XH)))))))))))) :: (((Zpos (XO (XI (XI (XO (XO (XI (XI (XI (XO
    XH)))))))))), (Npos (XI (XI (XO (XI (XO (XI (XI (XO (XI (XI
    XH)))))))))))) :: (((Zpos (XO (XO (XO (XI (XI (XI (XO XH)))))))), (Npos
    (XO (XI (XI (XO (XO (XO (XO (XI (XO XH))))))))))) :: (((Zpos (XO (XI (XO
    (XO (XO (XI (XO XH)))))))), (Npos (XI (XO (XI (XI (XI (XI (XO (XI
    XH)))))))))) :: (((Zpos (XI (XO (XO (XO (XO (XI (XI (XI (XI (XO (XO
    XH)))))))))))), (Npos (XI (XO (XI (XO (XI (XI (XO (XI (XI (XO (XO (XI
    XH)))))))))))))) :: (((Zpos (XI (XI (XO (XO (XI (XI (XI (XI (XO (XI (XO
    XH)))))))))))), (Npos (XO (XI (XO (XO (XO (XO (XO (XO (XO (XI (XI (XI
    XH)))))))))))))) :: (((Zpos (XI (XI (XI (XI (XO (XO (XI (XI (XI (XI (XO
    XH)))))))))))), (Npos (XO (XI (XI (XI (XO (XO (XO (XO (XI (XI (XI (XI
    XH)))))))))))))) :: (((Zpos (XO (XO (XI (XI (XO (XI (XI (XI (XO (XI (XO
    XH)))))))))))), (Npos (XO (XI (XI (XI (XO (XO (XI (XI (XI (XO (XI (XI
    XH)))))))))))))) :: (((Zpos (XO (XI (XO (XI (XI XH)))))), (Npos (XO (XO
    (XO (XO (XO (XI (XO XH))))))))) :: (((Zpos (XO (XO (XI (XI (XO XH)))))),
    (Npos (XI (XI (XO (XO (XI (XI XH)))))))) :: (((Zpos (XI (XO (XO (XI (XO
    (XI (XO XH)))))))), (Npos (XO (XO (XI (XO (XI (XI (XI (XI
    XH)))))))))) :: (((Zpos (XO (XO (XI (XO (XO (XI (XI (XI (XI (XO (XO
    XH)))))))))))), (Npos (XO (XO (XO (XI (XO (XO (XI (XI (XI (XO (XO (XI
    XH)))))))))))))) :: (((Zpos (XO (XI (XI (XI (XO (XI (XI (XI (XI (XO (XO
    XH)))))))))))), (Npos (XO (XO (XI (XI (XO (XO (XO (XO (XO (XI (XO (XI
    XH)))))))))))))) :: (((Zpos (XO (XO (XI (XO (XO (XI (XO XH)))))))), (Npos
    (XI (XI (XO (XI (XO (XO (XI (XI XH)))))))))) :: (((Zpos (XI (XI (XI (XI
    (XI (XI (XI (XI (XO (XI (XO XH)))))))))))), (Npos (XI (XO (XI (XO (XO (XI
    (XO (XI (XO (XI (XI (XI XH)))))))))))))) :: (((Zpos (XO (XO (XI (XO (XO
    (XI XH))))))), (Npos (XI (XI (XO (XO (XI (XO (XI (XO
    XH)))))))))) :: (((Zpos (XI (XO (XO (XO (XI (XI (XI (XI (XO (XI (XO
    XH)))))))))))), (Npos (XO (XI (XI (XI (XO (XI (XI (XI (XI (XO (XI (XI
    XH)))))))))))))) :: (((Zpos (XI (XI (XI (XI (XO (XI (XI (XI XH))))))))),
    (Npos (XI (XI (XO (XI (XO (XI (XI (XO (XO (XI XH)))))))))))) :: (((Zpos
    (XO (XI (XI (XO (XI (XO (XI (XO (XO (XI (XI (XI (XI (XI (XI
    XH)))))))))))))))), (Npos (XO (XI (XO (XO (XO (XO (XO (XO (XO (XO (XO (XO
    (XI XH))))))))))))))) :: (((Zpos (XO (XO (XO (XI (XI (XO (XI (XO (XO (XI
    (XI (XI (XI (XI (XI XH)))))))))))))))), (Npos (XI (XI (XI (XI (XI (XO (XO
    (XO (XO (XO (XO (XO (XI XH))))))))))))))) :: (((Zpos (XI (XO (XO (XO (XI
    (XO (XI (XO (XO (XI (XI (XI (XI (XI (XI XH)))))))))))))))), (Npos (XI (XO
    (XI (XO (XO (XO (XI (XI (XI (XI (XI (XI (XO XH))))))))))))))) :: (((Zpos
    (XO (XO (XO (XO (XO (XI (XI (XO (XO (XI (XI (XI (XI (XI (XI
    XH)))))))))))))))), (Npos (XI (XO (XI (XO (XI (XO (XO (XI (XO (XO (XO (XO
    (XI XH))))))))))))))) :: (((Zpos (XI (XO (XI (XO (XI (XO (XI (XO (XO (XI
    (XI (XI (XI (XI (XI XH)))))))))))))))), (Npos (XI (XI (XI (XO (XI (XI (XI
    (XI (XI (XI (XI (XI (XO XH))))))))))))))) :: (((Zpos (XO (XI (XO (XI (XI
    (XO (XI (XO (XO (XI (XI (XI (XI (XI (XI XH)))))))))))))))), (Npos (XI (XI
    (XI (XI (XI (XI (XO (XO (XO (XO (XO (XO (XI XH))))))))))))))) :: (((Zpos
    (XI (XI (XO (XI (XI (XO (XI (XO (XO (XI (XI (XI (XI (XI (XI
    XH)))))))))))))))), (Npos (XO (XI (XO (XI (XO (XO (XI (XO (XO (XO (XO (XO
    (XI XH))))))))))))))) :: (((Zpos (XO (XI (XO (XO (XI (XO (XI (XO (XO (XI
    (XI (XI (XI (XI (XI XH)))))))))))))))), (Npos (XO (XO (XO (XO (XI (XO (XI
    (XI (XI (XI (XI (XI (XO XH))))))))))))))) :: (((Zpos (XI (XI (XI (XO (XI
    (XO (XI (XO (XO (XI (XI (XI (XI (XI (XI XH)))))))))))))))), (Npos (XO (XO
    (XO (XO (XI (XO (XO (XO (XO (XO (XO (XO (XI XH))))))))))))))) :: (((Zpos
    (XI (XO (XO (XI (XI (XO (XI (XO (XO (XI (XI (XI (XI (XI (XI
    XH)))))))))))))))), (Npos (XO (XI (XI (XI (XO (XI (XO (XO (XO (XO (XO (XO
    (XI XH))))))))))))))) :: (((Zpos (XO (XO (XO (XO (XI (XO (XI (XO (XO (XI
    (XI (XI (XI (XI (XI XH)))))))))))))))), (Npos (XO (XI (XO (XI (XI (XI (XO
    (XI (XI (XI (XI (XI (XO XH))))))))))))))) :: (((Zpos (XI (XO (XO (XO (XO
    (XI (XI (XO (XO (XI (XI (XI (XI (XI (XI XH)))))))))))))))), (Npos (XI (XI
    (XO (XO (XO (XI (XO (XI (XO (XO (XO (XO (XI XH))))))))))))))) :: (((Zpos
    (XO (XI (XO (XO (XO (XI (XI (XO (XO (XI (XI (XI (XI (XI (XI
    XH)))))))))))))))), (Npos (XI (XO (XI (XI (XO (XI (XO (XI (XO (XO (XO (XO
    (XI XH))))))))))))))) :: (((Zpos (XI (XO (XI (XI (XI (XO (XI (XO (XO (XI
    (XI (XI (XI (XI (XI XH)))))))))))))))), (Npos (XI (XI (XO (XO (XO (XI (XI
    (XO (XO (XO (XO (XO (XI XH))))))))))))))) :: (((Zpos (XO (XO (XI (XO (XI
    (XO (XI (XO (XO (XI (XI (XI (XI (XI (XI XH)))))))))))))))), (Npos (XI (XI
    (XO (XI (XO (XI (XI (XI (XI (XI (XI (XI (XO XH))))))))))))))) :: (((Zpos
    (XO (XO (XI (XI (XI (XO (XI (XO (XO (XI (XI (XI (XI (XI (XI
    XH)))))))))))))))), (Npos (XI (XI (XI (XO (XI (XO (XI (XO (XO (XO (XO (XO
    (XI XH))))))))))))))) :: (((Zpos (XI (XI (XI (XI (XI (XO (XI (XO (XO (XI
    (XI (XI (XI (XI (XI XH)))))))))))))))), (Npos (XI (XI (XI (XI (XI (XI (XI
    (XO (XO (XO (XO (XO (XI XH))))))))))))))) :: (((Zpos (XI (XI (XO (XO (XI
    (XO (XI (XO (XO (XI (XI (XI (XI (XI (XI XH)))))))))))))))), (Npos (XO (XO
    (XO (XO (XO (XI (XI (XI (XI (XI (XI (XI (XO XH))))))))))))))) :: (((Zpos
    (XO (XI (XI (XI (XI (XO (XI (XO (XO (XI (XI (XI (XI (XI (XI
    XH)))))))))))))))), (Npos (XI (XO (XI (XI (XO (XI (XI (XO (XO (XO (XO (XO
    (XI XH))))))))))))))) :: (((Zpos (XI (XO (XI (XI (XI (XI (XO (XI (XO (XI
    (XO XH)))))))))))), (Npos (XO (XO (XI (XO (XI (XI (XI (XO (XI (XI (XO (XI
    XH)))))))))))))) :: (((Zpos (XO (XO (XO (XO (XI (XI (XO XH)))))))), (Npos
    (XI (XO (XO (XI (XI (XI (XO (XO (XO XH))))))))))) :: (((Zpos (XO (XO (XO
    (XI (XO (XI (XO XH)))))))), (Npos (XO (XI (XO (XI (XO (XI (XI (XI
    XH)))))))))) :: (((Zpos (XI (XO (XI (XI (XO (XI (XI (XI (XO (XI (XO
    XH)))))))))))), (Npos (XI (XI (XO (XO (XI (XO (XI (XI (XI (XO (XI (XI
    XH)))))))))))))) :: (((Zpos (XI (XO (XI (XO (XO (XI (XO (XI (XO (XI (XO
    XH)))))))))))), (Npos (XO (XI (XI (XO (XO (XI (XO (XI (XO (XI (XO (XI
    XH)))))))))))))) :: (((Zpos (XI (XI (XI (XO (XI (XI (XI XH)))))))), (Npos
    (XO (XO (XI (XO (XI (XI (XO (XI (XO (XO XH)))))))))))) :: (((Zpos (XO (XO
    (XI (XO (XO XH)))))), (Npos (XI (XO (XO (XO (XO XH))))))) :: (((Zpos (XI
    (XI (XI (XI (XO (XI (XO (XI (XO (XI (XO XH)))))))))))), (Npos (XI (XI (XO
    (XO (XI (XI (XI (XI (XO (XI (XO (XI XH)))))))))))))) :: (((Zpos (XI (XO
    (XI (XI (XI (XI (XO (XI XH))))))))), (Npos (XI (XO (XI (XI (XI (XO (XO
    (XI (XI (XO XH)))))))))))) :: (((Zpos (XO (XI (XO (XO (XI (XI (XI (XI (XO
    (XI (XO XH)))))))))))), (Npos (XI (XO (XI (XO (XI (XI (XI (XI (XI (XO (XI
    (XI XH)))))))))))))) :: (((Zpos (XO (XI (XI (XI (XI (XI (XI (XI (XO (XI
    (XO XH)))))))))))), (Npos (XO (XI (XO (XO (XI (XO (XO (XI (XO (XI (XI (XI
    XH)))))))))))))) :: (((Zpos (XO (XI (XI (XI (XI (XI (XI (XI (XO (XO (XO
    XH)))))))))))), (Npos (XO (XO (XO (XI (XI (XO (XO (XI (XI (XO (XO (XI
    XH)))))))))))))) :: (((Zpos (XO (XO (XO (XI (XO (XI (XO (XI (XI (XI (XO
    XH)))))))))))), (Npos (XI (XO (XO (XO (XO (XO (XI (XI (XO (XI (XI (XI
    XH)))))))))))))) :: (((Zpos (XO (XI (XI (XO (XI (XO (XI (XI (XI (XI (XO
    XH)))))))))))), (Npos (XI (XO (XI (XI (XI (XO (XO (XO (XI (XI (XI (XI
    XH)))))))))))))) :: (((Zpos (XO (XO (XI (XO (XO (XO (XI (XI (XI (XI (XO
    XH)))))))))))), (Npos (XI (XI (XO (XI (XO (XI (XI (XI (XO (XI (XI (XI
    XH)))))))))))))) :: (((Zpos (XO (XI (XO (XO (XO (XO (XI (XI (XI (XI (XO
    XH)))))))))))), (Npos (XI (XI (XO (XI (XI (XO (XI (XI (XO (XI (XI (XI
    XH)))))))))))))) :: (((Zpos (XO (XO (XO (XO (XI (XI (XI (XI XH))))))))),
    (Npos (XO (XI (XO (XO (XI (XI (XI (XO (XO (XI XH)))))))))))) :: (((Zpos
    (XI (XO (XI (XO (XO (XI XH))))))), (Npos (XI (XO (XI (XO (XI (XO (XI (XO
    XH)))))))))) :: (((Zpos (XO (XO (XI (XI (XO (XI (XI (XI (XI XH)))))))))),
    (Npos (XI (XI (XI (XO (XI (XI (XI (XO (XO (XO (XO
    XH))))))))))))) :: (((Zpos (XI (XO (XO (XI (XO (XI (XI XH)))))))), (Npos
    (XO (XI (XO (XI (XI (XI (XO (XO (XO (XO XH)))))))))))) :: (((Zpos (XO (XO
    (XI (XI (XO (XI (XI (XI XH))))))))), (Npos (XO (XO (XI (XO (XO (XI (XI
    (XO (XO (XI XH)))))))))))) :: (((Zpos (XO (XI (XO (XI (XO (XI (XI
    XH)))))))), (Npos (XI (XO (XO (XO (XO (XO (XI (XO (XO (XO
    XH)))))))))))) :: (((Zpos (XI (XI (XO (XI (XO (XI (XI XH)))))))), (Npos
    (XI (XO (XI (XI (XO (XO (XI (XO (XO (XO XH)))))))))))) :: (((Zpos (XO (XO
    (XO (XI (XO (XI (XI XH)))))))), (Npos (XI (XI (XO (XO (XI (XI (XO (XO (XO
    (XO XH)))))))))))) :: (((Zpos (XO (XI (XI (XI (XO (XI (XO (XI (XO (XI (XO
    XH)))))))))))), (Npos (XO (XI (XO (XI (XO (XI (XI (XI (XO (XI (XO (XI
    XH)))))))))))))) :: (((Zpos (XI (XI (XO (XO (XO (XI (XO (XI (XO (XI (XO
    XH)))))))))))), (Npos (XO (XO (XI (XO (XI (XO (XO (XI (XO (XI (XO (XI
    XH)))))))))))))) :: (((Zpos (XO (XO (XI (XO (XO (XI (XO (XI (XO (XI (XO
    XH)))))))))))), (Npos (XI (XO (XI (XI (XI (XO (XO (XI (XO (XI (XO (XI
    XH)))))))))))))) :: (((Zpos (XO (XI (XO (XI (XI (XI (XO (XI (XI
    XH)))))))))), (Npos (XO (XO (XI (XO (XI (XI (XI (XI (XI (XI
    XH)))))))))))) :: (((Zpos (XI (XO (XO (XI (XO (XI (XO (XI (XO (XI (XO
    XH)))))))))))), (Npos (XO (XO (XO (XO (XI (XO (XI (XI (XO (XI (XO (XI
    XH)))))))))))))) :: (((Zpos (XO (XI (XI (XI (XI (XO (XI (XI (XO (XI (XO
    XH)))))))))))), (Npos (XI (XO (XO (XO (XI (XI (XI (XI (XO (XO (XI (XI
    XH)))))))))))))) :: (((Zpos (XI (XI (XI (XI (XI (XO (XI (XI (XO (XI (XO
    XH)))))))))))), (Npos (XO (XO (XO (XO (XO (XO (XO (XO (XI (XO (XI (XI
    XH)))))))))))))) :: (((Zpos (XO (XI (XI (XI (XO (XO (XI (XI (XO (XI (XO
    XH)))))))))))), (Npos (XI (XI (XI (XO (XI (XO (XO (XO (XO (XO (XI (XI
    XH)))))))))))))) :: (((Zpos (XI (XI (XI (XI (XO (XO (XI (XI (XO (XI (XO
    XH)))))))))))), (Npos (XO (XO (XI (XO (XO (XI (XO (XO (XO (XO (XI (XI
    XH)))))))))))))) :: (((Zpos (XI (XO (XO (XO (XO (XI (XO (XI (XO (XI (XO
    XH)))))))))))), (Npos (XO (XO (XI (XO (XO (XO (XO (XI (XO (XI (XO (XI
    XH)))))))))))))) :: (((Zpos (XO (XI (XO (XI (XO (XI (XO (XI (XO (XI (XO
    XH)))))))))))), (Npos (XI (XI (XI (XO (XI (XO (XI (XI (XO (XI (XO (XI
    XH)))))))))))))) :: (((Zpos (XO (XI (XI (XO (XO (XI (XI (XI (XO (XI (XO
    XH)))))))))))), (Npos (XI (XI (XO (XI (XO (XI (XI (XO (XI (XO (XI (XI
    XH)))))))))))))) :: (((Zpos (XI (XI (XI (XO (XO (XI (XI (XI (XO (XI (XO
    XH)))))))))))), (Npos (XO (XI (XI (XI (XI (XI (XI (XO (XI (XO (XI (XI
    XH)))))))))))))) :: (((Zpos (XI (XI (XI (XI (XI (XI (XO (XI (XI
    XH)))))))))), (Npos (XO (XO (XO (XO (XI (XO (XO (XO (XO (XO (XO
    XH))))))))))))) :: (((Zpos (XO (XO (XO (XO (XO (XI (XI (XI (XO (XI (XO
    XH)))))))))))), (Npos (XI (XO (XI (XI (XO (XO (XO (XO (XI (XO (XI (XI
    XH)))))))))))))) :: (((Zpos (XI (XO (XO (XO (XO (XI (XI (XI (XO (XI (XO
    XH)))))))))))), (Npos (XO (XI (XI (XI (XI (XO (XO (XO (XI (XO (XI (XI
    XH)))))))))))))) :: (((Zpos (XO (XI (XO (XO (XO (XI (XO (XI (XO (XI (XO
    XH)))))))))))), (Npos (XO (XO (XI (XI (XO (XO (XO (XI (XO (XI (XO (XI
    XH)))))))))))))) :: (((Zpos (XO (XI (XO (XI (XO (XI (XI (XI XH))))))))),
    (Npos (XO (XO (XI (XI (XI (XO (XI (XO (XO (XI XH)))))))))))) :: (((Zpos
    (XI (XO (XI (XI (XI XH)))))), (Npos (XI (XO (XI (XO (XI (XI (XO
    XH))))))))) :: (((Zpos (XO (XO (XO (XO (XI (XI (XI XH)))))))), (Npos (XI
    (XO (XI (XI (XI (XI (XI (XO (XO (XO XH)))))))))))) :: (((Zpos (XI (XO (XO
    (XO (XO XH)))))), (Npos (XO (XI XH)))) :: (((Zpos (XI (XO (XO (XO (XO (XI
    (XO XH)))))))), (Npos (XO (XI (XO (XO (XI (XI (XO (XI
    XH)))))))))) :: (((Zpos (XO (XI (XI (XO (XO (XI XH))))))), (Npos (XI (XI
    (XI (XO (XI (XO (XI (XO XH)))))))))) :: (((Zpos (XO (XO (XO (XI (XI (XI
    (XI (XI (XO (XI (XO XH)))))))))))), (Npos (XO (XO (XI (XI (XI (XI (XO (XO
    (XO (XI (XI (XI XH)))))))))))))) :: (((Zpos (XI (XI (XO (XO (XO (XI (XI
    (XI (XI (XO (XO XH)))))))))))), (Npos (XI (XO (XI (XO (XO (XO (XI (XI (XI
    (XO (XO (XI XH)))))))))))))) :: (((Zpos (XI (XI (XO (XI (XI (XI (XO (XI
    (XO (XI (XO XH)))))))))))), (Npos (XI (XI (XO (XI (XI (XO (XI (XO (XI (XI
    (XO (XI XH)))))))))))))) :: (((Zpos (XO (XO (XI (XI (XI (XO (XI (XI (XO
    (XI (XO XH)))))))))))), (Npos (XO (XO (XO (XI (XO (XO (XI (XI (XO (XO (XI
    (XI XH)))))))))))))) :: (((Zpos (XI (XI (XO (XI (XI (XO (XI (XI (XO (XI
    (XO XH)))))))))))), (Npos (XI (XI (XI (XO (XI (XI (XO (XI (XO (XO (XI (XI
    XH)))))))))))))) :: (((Zpos (XI (XO (XI (XI (XI (XO (XI (XI (XO (XI (XO
    XH)))))))))))), (Npos (XO (XO (XI (XI (XI (XO (XI (XI (XO (XO (XI (XI
    XH)))))))))))))) :: (((Zpos (XI (XO (XO (XI (XO (XI (XI (XI (XO (XI (XO
    XH)))))))))))), (Npos (XI (XO (XO (XO (XO (XI (XO (XI (XI (XO (XI (XI
    XH)))))))))))))) :: (((Zpos (XO (XO (XO (XI (XO (XI (XI (XI (XO (XI (XO
    XH)))))))))))), (Npos (XI (XI (XI (XI (XO (XO (XO (XI (XI (XO (XI (XI
    XH)))))))))))))) :: (((Zpos (XI (XO (XI (XO (XO (XO (XI (XI (XO (XI (XO
    XH)))))))))))), (Npos (XI (XO (XO (XO (XI (XI (XO (XI (XI (XI (XO (XI
    XH)))))))))))))) :: (((Zpos (XI (XI (XI (XO (XI (XI (XO (XI (XO (XI (XO
    XH)))))))))))), (Npos (XI (XO (XO (XI (XO (XO (XI (XO (XI (XI (XO (XI
    XH)))))))))))))) :: (((Zpos (XI (XO (XI (XO (XI (XI (XO (XI (XO (XI (XO
    XH)))))))))))), (Npos (XI (XO (XI (XO (XI (XI (XO (XO (XI (XI (XO (XI
    XH)))))))))))))) :: (((Zpos (XO (XI (XI (XO (XI (XI (XI (XI (XO (XO (XO
    XH)))))))))))), (Npos (XO (XI (XO (XO (XI (XI (XI (XO (XI (XO (XO (XI
    XH)))))))))))))) :: (((Zpos (XI (XI (XI (XO (XO (XI XH))))))), (Npos (XI
    (XO (XO (XI (XI (XO (XI (XO XH)))))))))) :: (((Zpos (XI (XO (XI (XO (XI
    (XI (XI (XI (XO XH)))))))))), (Npos (XI (XI (XI (XO (XI (XI (XI (XO (XI
    (XI XH)))))))))))) :: (((Zpos (XI (XI (XO (XI (XI (XI (XO (XI (XO
    XH)))))))))), (Npos (XI (XI (XI (XI (XO (XO (XO (XO (XI (XI
    XH)))))))))))) :: (((Zpos (XI (XI (XO (XI (XI (XI (XO (XI (XI
    XH)))))))))), (Npos (XO (XO (XI (XI (XI (XI (XI (XI (XI (XI
    XH)))))))))))) :: (((Zpos (XO (XO (XO (XI (XI (XI (XI (XI (XO
    XH)))))))))), (Npos (XI (XO (XO (XO (XO (XO (XO (XI (XI (XI
    XH)))))))))))) :: (((Zpos (XO (XO (XO (XO (XO (XI XH))))))), (Npos (XI
    (XO (XI (XI (XI (XI (XO (XO XH)))))))))) :: (((Zpos (XO (XI (XI (XI (XI
    XH)))))), (Npos (XI (XI (XO (XI (XI (XI (XO XH))))))))) :: (((Zpos (XO
    (XI (XI (XI (XI (XI (XO (XI (XO (XO (XO XH)))))))))))), (Npos (XI (XI (XO
    (XI (XO (XI (XO (XI (XO (XO (XO (XI XH)))))))))))))) :: (((Zpos (XI (XI
    (XO (XI (XO (XI (XO XH)))))))), (Npos (XO (XI (XO (XI (XO (XO (XO (XO (XO
    XH))))))))))) :: (((Zpos (XI (XI (XO (XI (XI (XI (XO XH)))))))), (Npos
    (XO (XO (XI (XO (XO (XI (XO (XI (XO XH))))))))))) :: (((Zpos (XO (XO (XO
    (XI (XO (XI XH))))))), (Npos (XI (XI (XO (XI (XI (XO (XI (XO
    XH)))))))))) :: (((Zpos (XO (XO (XO (XI (XO (XI (XO (XI (XO (XI (XO
    XH)))))))))))), (Npos (XO (XI (XI (XO (XO (XO (XI (XI (XO (XI (XO (XI
    XH)))))))))))))) :: (((Zpos (XO (XI (XI (XO (XI (XI (XO (XI (XO
    XH)))))))))), (Npos (XO (XI (XO (XI (XI (XI (XI (XI (XO (XI
    XH)))))))))))) :: (((Zpos (XO (XI (XI (XI (XO (XI (XI (XI (XO (XI (XO
    XH)))))))))))), (Npos (XI (XI (XO (XI (XI (XO (XI (XI (XI (XO (XI (XI
    XH)))))))))))))) :: (((Zpos (XO (XO (XO (XO (XO (XI (XI (XI (XO (XO (XI
    XH)))))))))))), (Npos (XI (XO (XO (XO (XO (XI (XI (XO (XI (XI (XI (XI
    XH)))))))))))))) :: (((Zpos (XO (XI (XO (XO (XI (XI (XI (XI (XO (XO (XI
    XH)))))))))))), (Npos (XO (XI (XI (XI (XI (XO (XO (XI (XO (XO (XO (XO (XO
    XH))))))))))))))) :: (((Zpos (XI (XO (XO (XO (XO (XI (XI (XI (XO (XO (XI
    XH)))))))))))), (Npos (XO (XI (XI (XI (XO (XI (XI (XO (XI (XI (XI (XI
    XH)))))))))))))) :: (((Zpos (XI (XO (XO (XO (XO (XI (XI (XI (XO (XO (XI
    XH)))))))))))), (Npos (XI (XO (XO (XI (XI (XI (XI (XO (XI (XI (XI (XI
    XH)))))))))))))) :: (((Zpos (XI (XI (XI (XO (XO (XI (XI (XI (XO (XO (XI
    XH)))))))))))), (Npos (XI (XO (XO (XI (XO (XI (XI (XI (XI (XI (XI (XI
    XH)))))))))))))) :: (((Zpos (XI (XI (XO (XO (XO (XI (XI (XI (XO (XO (XI
    XH)))))))))))), (Npos (XO (XO (XO (XO (XO (XI (XO (XI (XI (XI (XI (XI
    XH)))))))))))))) :: (((Zpos (XI (XI (XO (XO (XO (XI (XI (XI (XO (XO (XI
    XH)))))))))))), (Npos (XI (XO (XI (XI (XO (XI (XO (XI (XI (XI (XI (XI
    XH)))))))))))))) :: (((Zpos (XI (XI (XI (XI (XI (XO (XI (XI (XO (XO (XI
    XH)))))))))))), (Npos (XO (XO (XI (XI (XO (XO (XI (XO (XI (XI (XI (XI
    XH)))))))))))))) :: (((Zpos (XO (XI (XO (XI (XO (XI (XI (XI (XO (XO (XI
    XH)))))))))))), (Npos (XO (XI (XO (XO (XO (XI (XO (XO (XO (XO (XO (XO (XO
    XH))))))))))))))) :: (((Zpos (XI (XO (XI (XI (XO (XI (XI (XI (XO (XO (XI
    XH)))))))))))), (Npos (XO (XO (XI (XI (XO (XO (XI (XO (XO (XO (XO (XO (XO
    XH))))))))))))))) :: (((Zpos (XI (XI (XI (XI (XO (XI (XI (XI (XO (XO (XI
    XH)))))))))))), (Npos (XI (XI (XI (XO (XO (XI (XI (XO (XO (XO (XO (XO (XO
    XH))))))))))))))) :: (((Zpos (XI (XI (XO (XO (XI (XI (XI (XI (XO (XO (XI
    XH)))))))))))), (Npos (XO (XI (XO (XI (XO (XI (XO (XI (XO (XO (XO (XO (XO
    XH))))))))))))))) :: (((Zpos (XI (XO (XI (XO (XI (XI (XI (XI (XO (XO (XI
    XH)))))))))))), (Npos (XI (XI (XO (XO (XO (XO (XI (XI (XO (XO (XO (XO (XO
    XH))))))))))))))) :: (((Zpos (XI (XO (XI (XO (XI (XI (XI (XI (XO (XO (XI
    XH)))))))))))), (Npos (XO (XO (XI (XO (XI (XO (XI (XI (XO (XO (XO (XO (XO
    XH))))))))))))))) :: (((Zpos (XO (XI (XO (XO (XO (XI (XI (XI (XO (XO (XI
    XH)))))))))))), (Npos (XI (XO (XI (XO (XO (XO (XO (XI (XI (XI (XI (XI
    XH)))))))))))))) :: (((Zpos (XO (XI (XO (XO (XO (XI (XI (XI (XO (XO (XI
    XH)))))))))))), (Npos (XO (XI (XO (XO (XI (XO (XO (XI (XI (XI (XI (XI
    XH)))))))))))))) :: (((Zpos (XO (XO (XI (XO (XO (XI (XI (XI (XO (XO (XI
    XH)))))))))))), (Npos (XI (XI (XO (XI (XI (XI (XO (XI (XI (XI (XI (XI
    XH)))))))))))))) :: (((Zpos (XI (XI (XI (XO (XO (XI (XI (XI (XO (XO (XI
    XH)))))))))))), (Npos (XI (XO (XI (XO (XI (XI (XI (XI (XI (XI (XI (XI
    XH)))))))))))))) :: (((Zpos (XI (XI (XO (XI (XO (XI (XI (XI (XO (XO (XI
    XH)))))))))))), (Npos (XI (XI (XO (XO (XI (XI (XO (XO (XO (XO (XO (XO (XO
    XH))))))))))))))) :: (((Zpos (XI (XI (XI (XO (XI (XI (XI (XI (XO (XO (XI
    XH)))))))))))), (Npos (XI (XO (XI (XI (XI (XI (XI (XI (XO (XO (XO (XO (XO
    XH))))))))))))))) :: (((Zpos (XO (XO (XI (XI (XO (XI (XI (XI (XO (XO (XI
    XH)))))))))))), (Npos (XI (XI (XI (XI (XI (XI (XO (XO (XO (XO (XO (XO (XO
    XH))))))))))))))) :: (((Zpos (XO (XI (XI (XI (XO (XI (XI (XI (XO (XO (XI
    XH)))))))))))), (Npos (XO (XO (XI (XI (XI (XO (XI (XO (XO (XO (XO (XO (XO
    XH))))))))))))))) :: (((Zpos (XO (XO (XO (XO (XI (XI (XI (XI (XO (XO (XI
    XH)))))))))))), (Npos (XI (XI (XI (XO (XI (XI (XI (XO (XO (XO (XO (XO (XO
    XH))))))))))))))) :: (((Zpos (XO (XO (XI (XO (XI (XI (XI (XI (XO (XO (XI
    XH)))))))))))), (Npos (XI (XO (XO (XI (XI (XI (XO (XI (XO (XO (XO (XO (XO
    XH))))))))))))))) :: (((Zpos (XI (XI (XI (XO (XI (XI (XI (XI (XO (XO (XI
    XH)))))))))))), (Npos (XO (XO (XO (XI (XO (XO (XO (XO (XI (XO (XO (XO (XO
    XH))))))))))))))) :: (((Zpos (XO (XO (XO (XI (XI (XI (XI (XI (XO (XO (XI
    XH)))))))))))), (Npos (XO (XO (XI (XO (XI (XO (XO (XO (XI (XO (XO (XO (XO
    XH))))))))))))))) :: (((Zpos (XI (XO (XO (XO (XI (XI (XI (XI (XO (XO (XI
    XH)))))))))))), (Npos (XO (XI (XO (XO (XO (XO (XO (XI (XO (XO (XO (XO (XO
    XH))))))))))))))) :: (((Zpos (XI (XO (XO (XO (XI (XI (XI (XI (XO (XO (XI
    XH)))))))))))), (Npos (XO (XO (XO (XO (XI (XO (XO (XI (XO (XO (XO (XO (XO
    XH))))))))))))))) :: (((Zpos (XI (XO (XO (XI (XI (XI (XI (XI (XO (XO (XI
    XH)))))))))))), (Npos (XO (XO (XO (XO (XO (XI (XO (XO (XI (XO (XO (XO (XO
    XH))))))))))))))) :: (((Zpos (XO (XI (XO (XI (XI (XI (XI (XI (XO (XO (XI
    XH)))))))))))), (Npos (XO (XO (XI (XI (XO (XI (XO (XO (XI (XO (XO (XO (XO
    XH))))))))))))))) :: (((Zpos (XO (XI (XO (XI (XI (XI (XI (XI (XO (XO (XI
    XH)))))))))))), (Npos (XI (XI (XI (XO (XI (XI (XO (XO (XI (XO (XO (XO (XO
    XH))))))))))))))) :: (((Zpos (XO (XO (XO (XI (XO (XI (XI (XI (XO (XO (XI
    XH)))))))))))), (Npos (XO (XO (XO (XO (XO (XO (XO (XO (XO (XO (XO (XO (XO
    XH))))))))))))))) :: (((Zpos (XO (XO (XO (XI (XO (XI (XI (XI (XO (XO (XI
    XH)))))))))))), (Npos (XI (XI (XO (XI (XO (XO (XO (XO (XO (XO (XO (XO (XO
    XH))))))))))))))) :: (((Zpos (XI (XO (XI (XO (XO (XI (XI (XI (XO (XO (XI
    XH)))))))))))), (Npos (XI (XO (XI (XO (XO (XO (XI (XI (XI (XI (XI (XI
    XH)))))))))))))) :: (((Zpos (XI (XO (XO (XI (XO (XI (XI (XI (XO (XO (XI
    XH)))))))))))), (Npos (XI (XI (XI (XO (XI (XO (XO (XO (XO (XO (XO (XO (XO
    XH))))))))))))))) :: (((Zpos (XO (XI (XI (XO (XI (XI (XI (XI (XO (XO (XI
    XH)))))))))))), (Npos (XI (XO (XI (XO (XO (XI (XI (XI (XO (XO (XO (XO (XO
    XH))))))))))))))) :: (((Zpos (XO (XI (XI (XO (XI (XI (XI (XI (XO (XO (XI
    XH)))))))))))), (Npos (XI (XO (XO (XO (XI (XI (XI (XI (XO (XO (XO (XO (XO
    XH))))))))))))))) :: (((Zpos (XO (XI (XI (XO (XO (XI (XI (XI (XO (XO (XI
    XH)))))))))))), (Npos (XO (XO (XO (XO (XI (XO (XI (XI (XI (XI (XI (XI
    XH)))))))))))))) :: (((Zpos (XO (XI (XI (XO (XO (XI (XI (XI (XO (XO (XI
    XH)))))))))))), (Npos (XO (XO (XI (XI (XI (XO (XI (XI (XI (XI (XI (XI
    XH)))))))))))))) :: (((Zpos (XO (XI (XO (XI (XI (XO (XI (XI (XO (XI (XO
    XH)))))))))))), (Npos (XO (XI (XI (XI (XO (XI (XO (XI (XO (XO (XI (XI
    XH)))))))))))))) :: (((Zpos (XI (XI (XO (XO (XO (XI (XO (XI (XO (XO (XO
    XH)))))))))))), (Npos (XI (XO (XI (XO (XO (XI (XO (XO (XI (XI (XI (XO
    XH)))))))))))))) :: (((Zpos (XI (XI (XI (XI (XO (XI (XI (XI (XI (XO (XO
    XH)))))))))))), (Npos (XO (XI (XO (XI (XI (XO (XO (XO (XO (XI (XO (XI
    XH)))))))))))))) :: (((Zpos (XO (XO (XO (XO (XI (XI (XI (XI (XI (XO (XO
    XH)))))))))))), (Npos (XI (XO (XO (XI (XO (XI (XO (XO (XO (XI (XO (XI
    XH)))))))))))))) :: (((Zpos (XI (XO (XO (XO (XI (XI (XI (XI (XI (XO (XO
    XH)))))))))))), (Npos (XO (XO (XO (XI (XI (XI (XO (XO (XO (XI (XO (XI
    XH)))))))))))))) :: (((Zpos (XO (XI (XO (XO (XI (XI (XI (XI (XI (XO (XO
    XH)))))))))))), (Npos (XI (XI (XI (XO (XO (XO (XI (XO (XO (XI (XO (XI
    XH)))))))))))))) :: (((Zpos (XI (XI (XO (XO (XI (XI (XI (XI (XI (XO (XO
    XH)))))))))))), (Npos (XO (XI (XI (XO (XI (XO (XI (XO (XO (XI (XO (XI
    XH)))))))))))))) :: (((Zpos (XI (XO (XO (XO (XI (XI (XO (XI (XO
    XH)))))))))), (Npos (XO (XI (XO (XO (XI (XI (XI (XI (XO (XI
    XH)))))))))))) :: (((Zpos (XO (XI (XO (XO (XO (XI (XI (XI (XI (XO (XO
    XH)))))))))))), (Npos (XO (XI (XO (XO (XO (XO (XI (XI (XI (XO (XO (XI
    XH)))))))))))))) :: (((Zpos (XI (XO (XI (XI (XO (XI (XO XH)))))))), (Npos
    (XO (XO (XO (XO (XO (XI (XO (XO (XO XH))))))))))) :: (((Zpos (XI (XO (XO
    (XI (XO (XI XH))))))), (Npos (XI (XO (XI (XI (XI (XO (XI (XO
    XH)))))))))) :: (((Zpos (XI (XO (XI (XI (XO (XI (XI XH)))))))), (Npos (XI
    (XI (XI (XI (XI (XO (XI (XO (XO (XO XH)))))))))))) :: (((Zpos (XO (XI (XI
    (XI (XO (XI (XI XH)))))))), (Npos (XO (XI (XI (XO (XO (XI (XI (XO (XO (XO
    XH)))))))))))) :: (((Zpos (XI (XI (XI (XI (XO (XO (XI (XI (XO (XO (XO
    XH)))))))))))), (Npos (XO (XI (XO (XO (XI (XO (XO (XO (XI (XO (XO (XI
    XH)))))))))))))) :: (((Zpos (XI (XI (XI (XI (XO (XI (XI XH)))))))), (Npos
    (XO (XI (XO (XO (XI (XI (XI (XO (XO (XO XH)))))))))))) :: (((Zpos (XI (XO
    (XO (XI (XI (XI (XO (XI (XO XH)))))))))), (Npos (XO (XI (XI (XO (XO (XO
    (XO (XO (XI (XI XH)))))))))))) :: (((Zpos (XI (XO (XI (XI (XO (XO (XI (XI
    (XO (XO (XO XH)))))))))))), (Npos (XI (XO (XO (XO (XO (XO (XO (XO (XI (XO
    (XO (XI XH)))))))))))))) :: (((Zpos (XO (XO (XI (XI (XO (XI (XI
    XH)))))))), (Npos (XO (XO (XO (XI (XI (XO (XI (XO (XO (XO
    XH)))))))))))) :: (((Zpos (XI (XI (XI (XI (XO (XI (XI (XI (XI
    XH)))))))))), (Npos (XI (XO (XO (XO (XO (XO (XO (XI (XO (XO (XO
    XH))))))))))))) :: (((Zpos (XO (XI (XI (XI (XO (XO (XI (XI (XO (XO (XO
    XH)))))))))))), (Npos (XO (XI (XO (XI (XO (XO (XO (XO (XI (XO (XO (XI
    XH)))))))))))))) :: (((Zpos (XO (XI (XO (XI (XI (XO (XI (XI (XO (XO (XO
    XH)))))))))))), (Npos (XO (XO (XI (XO (XO (XI (XO (XO (XI (XO (XO (XI
    XH)))))))))))))) :: (((Zpos (XI (XI (XO (XI (XI (XO (XI (XI (XO (XO (XO
    XH)))))))))))), (Npos (XI (XI (XI (XI (XO (XI (XO (XO (XI (XO (XO (XI
    XH)))))))))))))) :: (((Zpos (XO (XI (XO (XO (XO (XO (XI (XI (XO (XO (XO
    XH)))))))))))), (Npos (XI (XO (XO (XI (XI (XO (XI (XI (XO (XO (XO (XI
    XH)))))))))))))) :: (((Zpos (XI (XI (XI (XI (XI (XI (XO (XI (XO (XO (XO
    XH)))))))))))), (Npos (XO (XO (XI (XI (XI (XI (XO (XI (XO (XO (XO (XI
    XH)))))))))))))) :: (((Zpos (XO (XO (XI (XI (XI (XO (XI (XI (XO (XO (XO
    XH)))))))))))), (Npos (XO (XO (XO (XI (XI (XI (XO (XO (XI (XO (XO (XI
    XH)))))))))))))) :: (((Zpos (XI (XI (XI (XO (XO (XI (XI (XI (XI
    XH)))))))))), (Npos (XI (XI (XI (XI (XO (XI (XI (XO (XO (XO (XO
    XH))))))))))))) :: (((Zpos (XI (XO (XI (XO (XI (XI (XO (XI (XI
    XH)))))))))), (Npos (XO (XO (XI (XO (XO (XI (XI (XI (XI (XI
    XH)))))))))))) :: (((Zpos (XO (XI (XO (XI (XO (XI XH))))))), (Npos (XI
    (XI (XI (XI (XI (XO (XI (XO XH)))))))))) :: (((Zpos (XO (XO (XI (XI (XI
    (XI (XO (XI (XO XH)))))))))), (Npos (XO (XI (XI (XO (XI (XO (XO (XO (XI
    (XI XH)))))))))))) :: (((Zpos (XO (XI (XO (XI (XO (XO (XI (XI (XI (XI (XO
    XH)))))))))))), (Npos (XO (XI (XI (XI (XI (XI (XI (XI (XO (XI (XI (XI
    XH)))))))))))))) :: (((Zpos (XI (XI (XO (XI (XO (XI XH))))))), (Npos (XI
    (XO (XO (XO (XO (XI (XI (XO XH)))))))))) :: (((Zpos (XI (XO (XO (XO (XI
    (XI (XO (XI (XO (XO XH))))))))))), (Npos (XI (XI (XI (XO (XO (XO (XO (XI
    (XI (XO (XO XH))))))))))))) :: (((Zpos (XI (XO (XO (XO (XO (XO (XI (XI
    (XO (XO XH))))))))))), (Npos (XI (XI (XO (XO (XO (XO (XO (XO (XO (XI (XO
    XH))))))))))))) :: (((Zpos (XO (XO (XI (XO (XI (XI (XO (XI (XO (XO
    XH))))))))))), (Npos (XO (XO (XI (XI (XI (XO (XO (XI (XI (XO (XO
    XH))))))))))))) :: (((Zpos (XO (XO (XI (XI (XO (XO (XI (XI (XO (XO
    XH))))))))))), (Npos (XI (XO (XI (XI (XO (XI (XI (XO (XO (XI (XO
    XH))))))))))))) :: (((Zpos (XO (XI (XO (XI (XO (XO (XI (XI (XO (XO
    XH))))))))))), (Npos (XI (XO (XI (XI (XI (XO (XI (XO (XO (XI (XO
    XH))))))))))))) :: (((Zpos (XI (XO (XI (XI (XO (XO (XI (XI (XO (XO
    XH))))))))))), (Npos (XI (XO (XI (XI (XI (XI (XI (XO (XO (XI (XO
    XH))))))))))))) :: (((Zpos (XI (XI (XO (XI (XO (XO (XI (XI (XO (XO
    XH))))))))))), (Npos (XI (XO (XI (XO (XO (XI (XI (XO (XO (XI (XO
    XH))))))))))))) :: (((Zpos (XO (XI (XI (XI (XO (XO (XI (XI (XO (XO
    XH))))))))))), (Npos (XI (XO (XI (XO (XO (XO (XO (XI (XO (XI (XO
    XH))))))))))))) :: (((Zpos (XO (XO (XI (XI (XO (XO (XI (XI (XO (XO
    XH))))))))))), (Npos (XI (XO (XI (XO (XI (XI (XI (XO (XO (XI (XO
    XH))))))))))))) :: (((Zpos (XO (XI (XO (XO (XI (XI (XO (XI (XO (XO
    XH))))))))))), (Npos (XO (XI (XI (XI (XO (XO (XO (XI (XI (XO (XO
    XH))))))))))))) :: (((Zpos (XO (XI (XI (XO (XI (XI (XO (XI (XO (XO
    XH))))))))))), (Npos (XO (XI (XO (XI (XO (XI (XO (XI (XI (XO (XO
    XH))))))))))))) :: (((Zpos (XI (XO (XO (XI (XI (XI (XO (XI (XO (XO
    XH))))))))))), (Npos (XO (XI (XO (XO (XO (XO (XI (XI (XI (XO (XO
    XH))))))))))))) :: (((Zpos (XI (XI (XI (XO (XI (XI (XO (XI (XO (XO
    XH))))))))))), (Npos (XO (XI (XO (XO (XI (XI (XO (XI (XI (XO (XO
    XH))))))))))))) :: (((Zpos (XO (XI (XO (XI (XI (XI (XO (XI (XO (XO
    XH))))))))))), (Npos (XO (XI (XO (XI (XO (XO (XI (XI (XI (XO (XO
    XH))))))))))))) :: (((Zpos (XO (XO (XO (XI (XI (XI (XO (XI (XO (XO
    XH))))))))))), (Npos (XO (XI (XO (XI (XI (XI (XO (XI (XI (XO (XO
    XH))))))))))))) :: (((Zpos (XI (XI (XI (XI (XO (XO (XI (XI (XO (XO
    XH))))))))))), (Npos (XI (XO (XI (XI (XO (XO (XO (XI (XO (XI (XO
    XH))))))))))))) :: (((Zpos (XO (XI (XO (XO (XI (XO (XI (XI (XO (XO
    XH))))))))))), (Npos (XI (XO (XI (XO (XO (XI (XO (XI (XO (XI (XO
    XH))))))))))))) :: (((Zpos (XO (XO (XO (XO (XI (XO (XI (XI (XO (XO
    XH))))))))))), (Npos (XI (XO (XI (XO (XI (XO (XO (XI (XO (XI (XO
    XH))))))))))))) :: (((Zpos (XI (XI (XO (XO (XI (XO (XI (XI (XO (XO
    XH))))))))))), (Npos (XI (XO (XI (XI (XO (XI (XO (XI (XO (XI (XO
    XH))))))))))))) :: (((Zpos (XI (XO (XO (XO (XI (XO (XI (XI (XO (XO
    XH))))))))))), (Npos (XI (XO (XI (XI (XI (XO (XO (XI (XO (XI (XO
    XH))))))))))))) :: (((Zpos (XI (XO (XI (XI (XI (XO (XI (XI (XO (XO
    XH))))))))))), (Npos (XI (XO (XI (XI (XI (XI (XI (XI (XO (XI (XO
    XH))))))))))))) :: (((Zpos (XI (XO (XI (XO (XO (XO (XI (XI (XO (XO
    XH))))))))))), (Npos (XI (XO (XI (XO (XI (XI (XO (XO (XO (XI (XO
    XH))))))))))))) :: (((Zpos (XO (XO (XO (XI (XO (XO (XI (XI (XO (XO
    XH))))))))))), (Npos (XI (XO (XI (XI (XO (XO (XI (XO (XO (XI (XO
    XH))))))))))))) :: (((Zpos (XO (XI (XI (XO (XO (XO (XI (XI (XO (XO
    XH))))))))))), (Npos (XI (XO (XI (XI (XI (XI (XO (XO (XO (XI (XO
    XH))))))))))))) :: (((Zpos (XI (XO (XO (XI (XO (XO (XI (XI (XO (XO
    XH))))))))))), (Npos (XI (XO (XI (XO (XI (XO (XI (XO (XO (XI (XO
    XH))))))))))))) :: (((Zpos (XI (XI (XI (XO (XO (XO (XI (XI (XO (XO
    XH))))))))))), (Npos (XI (XO (XI (XO (XO (XO (XI (XO (XO (XI (XO
    XH))))))))))))) :: (((Zpos (XI (XO (XI (XO (XI (XI (XO (XI (XO (XO
    XH))))))))))), (Npos (XI (XI (XO (XO (XO (XI (XO (XI (XI (XO (XO
    XH))))))))))))) :: (((Zpos (XI (XI (XI (XO (XI (XO (XI (XI (XO (XO
    XH))))))))))), (Npos (XI (XO (XI (XI (XO (XO (XI (XI (XO (XI (XO
    XH))))))))))))) :: (((Zpos (XO (XI (XO (XI (XI (XO (XI (XI (XO (XO
    XH))))))))))), (Npos (XI (XO (XI (XO (XO (XI (XI (XI (XO (XI (XO
    XH))))))))))))) :: (((Zpos (XO (XO (XO (XI (XI (XO (XI (XI (XO (XO
    XH))))))))))), (Npos (XI (XO (XI (XO (XI (XO (XI (XI (XO (XI (XO
    XH))))))))))))) :: (((Zpos (XI (XI (XO (XI (XI (XO (XI (XI (XO (XO
    XH))))))))))), (Npos (XI (XO (XI (XI (XO (XI (XI (XI (XO (XI (XO
    XH))))))))))))) :: (((Zpos (XI (XO (XO (XI (XI (XO (XI (XI (XO (XO
    XH))))))))))), (Npos (XI (XO (XI (XI (XI (XO (XI (XI (XO (XI (XO
    XH))))))))))))) :: (((Zpos (XI (XI (XO (XI (XI (XI (XO (XI (XO (XO
    XH))))))))))), (Npos (XO (XI (XO (XO (XI (XO (XI (XI (XI (XO (XO
    XH))))))))))))) :: (((Zpos (XO (XI (XI (XI (XI (XI (XO (XI (XO (XO
    XH))))))))))), (Npos (XI (XI (XO (XI (XO (XI (XI (XI (XI (XO (XO
    XH))))))))))))) :: (((Zpos (XO (XO (XI (XI (XI (XI (XO (XI (XO (XO
    XH))))))))))), (Npos (XO (XI (XO (XI (XI (XO (XI (XI (XI (XO (XO
    XH))))))))))))) :: (((Zpos (XI (XI (XI (XI (XI (XI (XO (XI (XO (XO
    XH))))))))))), (Npos (XI (XI (XO (XO (XI (XI (XI (XI (XI (XO (XO
    XH))))))))))))) :: (((Zpos (XI (XO (XI (XI (XI (XI (XO (XI (XO (XO
    XH))))))))))), (Npos (XI (XI (XO (XO (XO (XI (XI (XI (XI (XO (XO
    XH))))))))))))) :: (((Zpos (XO (XO (XO (XO (XO (XO (XI (XI (XO (XO
    XH))))))))))), (Npos (XI (XI (XO (XI (XI (XI (XI (XI (XI (XO (XO
    XH))))))))))))) :: (((Zpos (XI (XI (XO (XO (XO (XO (XI (XI (XO (XO
    XH))))))))))), (Npos (XI (XO (XI (XO (XO (XI (XO (XO (XO (XI (XO
    XH))))))))))))) :: (((Zpos (XI (XO (XO (XO (XO (XO (XI (XI (XO (XO
    XH))))))))))), (Npos (XO (XO (XI (XI (XO (XO (XO (XO (XO (XI (XO
    XH))))))))))))) :: (((Zpos (XO (XO (XI (XO (XO (XO (XI (XI (XO (XO
    XH))))))))))), (Npos (XI (XO (XI (XI (XO (XI (XO (XO (XO (XI (XO
    XH))))))))))))) :: (((Zpos (XO (XI (XO (XO (XO (XO (XI (XI (XO (XO
    XH))))))))))), (Npos (XO (XO (XI (XO (XI (XO (XO (XO (XO (XI (XO
    XH))))))))))))) :: (((Zpos (XO (XI (XO (XO (XO (XO (XI (XI (XO (XO
    XH))))))))))), (Npos (XI (XO (XI (XI (XI (XO (XO (XO (XO (XI (XO
    XH))))))))))))) :: (((Zpos (XI (XI (XO (XO (XI (XI (XO (XI (XO (XO
    XH))))))))))), (Npos (XI (XO (XI (XO (XI (XO (XO (XI (XI (XO (XO
    XH))))))))))))) :: (((Zpos (XO (XO (XI (XI (XI (XO (XI (XI (XO (XO
    XH))))))))))), (Npos (XI (XO (XI (XO (XI (XI (XI (XI (XO (XI (XO
    XH))))))))))))) :: (((Zpos (XO (XI (XI (XO (XO (XI (XO (XI (XO (XO
    XH))))))))))), (Npos (XO (XO (XI (XO (XO (XI (XO (XO (XI (XO (XO
    XH))))))))))))) :: (((Zpos (XO (XO (XI (XO (XI (XO (XI (XI (XO (XO
    XH))))))))))), (Npos (XI (XO (XI (XO (XI (XI (XO (XI (XO (XI (XO
    XH))))))))))))) :: (((Zpos (XO (XI (XI (XO (XI (XO (XI (XI (XO (XO
    XH))))))))))), (Npos (XI (XO (XI (XO (XO (XO (XI (XI (XO (XI (XO
    XH))))))))))))) :: (((Zpos (XI (XO (XI (XO (XI (XO (XI (XI (XO (XO
    XH))))))))))), (Npos (XI (XO (XI (XI (XI (XI (XO (XI (XO (XI (XO
    XH))))))))))))) :: (((Zpos (XI (XI (XI (XO (XO (XI (XO (XI (XO (XO
    XH))))))))))), (Npos (XO (XO (XI (XI (XO (XI (XO (XO (XI (XO (XO
    XH))))))))))))) :: (((Zpos (XI (XI (XO (XO (XO (XI (XO (XI (XO (XO
    XH))))))))))), (Npos (XI (XO (XI (XO (XO (XI (XI (XI (XO (XO (XO
    XH))))))))))))) :: (((Zpos (XO (XO (XI (XO (XO (XI (XO (XI (XO (XO
    XH))))))))))), (Npos (XI (XO (XO (XI (XI (XI (XI (XI (XO (XO (XO
    XH))))))))))))) :: (((Zpos (XI (XO (XI (XO (XO (XI (XO (XI (XO (XO
    XH))))))))))), (Npos (XO (XO (XI (XO (XO (XO (XO (XO (XI (XO (XO
    XH))))))))))))) :: (((Zpos (XO (XI (XO (XI (XO (XI (XO (XI (XO (XO
    XH))))))))))), (Npos (XI (XO (XO (XO (XO (XO (XI (XO (XI (XO (XO
    XH))))))))))))) :: (((Zpos (XI (XO (XO (XO (XO (XI (XO (XI (XO (XO
    XH))))))))))), (Npos (XI (XI (XO (XO (XO (XO (XI (XI (XO (XO (XO
    XH))))))))))))) :: (((Zpos (XO (XO (XO (XI (XO (XI (XO (XI (XO (XO
    XH))))))))))), (Npos (XI (XI (XO (XO (XI (XI (XO (XO (XI (XO (XO
    XH))))))))))))) :: (((Zpos (XI (XO (XI (XO (XO (XI (XO (XI (XO (XO
    XH))))))))))), (Npos (XI (XO (XI (XO (XI (XO (XO (XO (XI (XO (XO
    XH))))))))))))) :: (((Zpos (XI (XI (XO (XI (XO (XI (XO (XI (XO (XO
    XH))))))))))), (Npos (XO (XO (XO (XI (XO (XO (XI (XO (XI (XO (XO
    XH))))))))))))) :: (((Zpos (XO (XI (XO (XO (XO (XI (XO (XI (XO (XO
    XH))))))))))), (Npos (XI (XO (XO (XO (XI (XO (XI (XI (XO (XO (XO
    XH))))))))))))) :: (((Zpos (XO (XI (XI (XI (XI (XI (XI (XO (XI (XI (XI
    (XI (XI (XI (XI XH)))))))))))))))), (Npos (XO (XI (XO (XI (XO (XI (XI (XO
    (XO (XI (XI (XO (XI XH))))))))))))))) :: (((Zpos (XI (XI (XI (XI (XO (XI
    (XO (XI (XO (XO XH))))))))))), (Npos (XI (XI (XI (XO (XO (XI (XI (XO (XI
    (XO (XO XH))))))))))))) :: (((Zpos (XI (XI (XI (XI (XO (XI (XO (XI (XO
    (XO XH))))))))))), (Npos (XO (XO (XO (XO (XI (XI (XI (XO (XI (XO (XO
    XH))))))))))))) :: (((Zpos (XI (XO (XO (XI (XO (XI (XO (XI (XO (XO
    XH))))))))))), (Npos (XO (XI (XO (XI (XI (XI (XO (XO (XI (XO (XO
    XH))))))))))))) :: (((Zpos (XO (XO (XI (XI (XO (XI (XO (XI (XO (XO
    XH))))))))))), (Npos (XI (XI (XI (XI (XO (XO (XI (XO (XI (XO (XO
    XH))))))))))))) :: (((Zpos (XO (XI (XI (XI (XO (XI (XO (XI (XO (XO
    XH))))))))))), (Npos (XI (XI (XI (XI (XI (XO (XI (XO (XI (XO (XO
    XH))))))))))))) :: (((Zpos (XI (XO (XI (XI (XO (XI (XO (XI (XO (XO
    XH))))))))))), (Npos (XI (XI (XI (XO (XI (XO (XI (XO (XI (XO (XO
    XH))))))))))))) :: (((Zpos (XO (XI (XO (XO (XO (XI (XO (XI (XI
    XH)))))))))), (Npos (XO (XO (XO (XO (XO (XI (XO (XI (XI (XI
    XH)))))))))))) :: (((Zpos (XI (XI (XO (XO (XI (XI (XI (XI (XI
    XH)))))))))), (Npos (XO (XI (XO (XI (XI (XO (XO (XI (XO (XO (XO
    XH))))))))))))) :: (((Zpos (XO (XI (XO (XO (XO (XI (XO (XI (XI
    XH)))))))))), (Npos (XO (XI (XI (XO (XO (XI (XO (XI (XI (XI
    XH)))))))))))) :: (((Zpos (XO (XO (XI (XI (XO (XI XH))))))), (Npos (XI
    (XI (XO (XO (XO (XI (XI (XO XH)))))))))) :: (((Zpos (XI (XO (XI (XO (XO
    (XI (XI (XI XH))))))))), (Npos (XI (XI (XI (XO (XO (XO (XI (XO (XO (XI
    XH)))))))))))) :: (((Zpos (XI (XO (XO (XI (XI (XO (XI (XI (XO (XI (XO
    XH)))))))))))), (Npos (XI (XI (XO (XO (XO (XI (XO (XI (XO (XO (XI (XI
    XH)))))))))))))) :: (((Zpos (XI (XO (XI (XO (XI (XI (XO (XI XH))))))))),
    (Npos (XI (XI (XO (XI (XO (XI (XI (XO (XI (XO XH)))))))))))) :: (((Zpos
    (XO (XI (XI (XO (XI (XI (XO (XI (XI XH)))))))))), (Npos (XI (XI (XO (XI
    (XO (XI (XI (XI (XI (XI XH)))))))))))) :: (((Zpos (XO (XO (XI (XI (XI (XI
    (XO (XI (XO (XI (XO XH)))))))))))), (Npos (XI (XI (XO (XO (XO (XI (XI (XO
    (XI (XI (XO (XI XH)))))))))))))) :: (((Zpos (XI (XI (XO (XI (XI (XI (XI
    (XI (XO (XO (XO XH)))))))))))), (Npos (XI (XI (XO (XI (XI (XI (XI (XO (XI
    (XO (XO (XI XH)))))))))))))) :: (((Zpos (XI (XI (XO (XO (XO (XI (XO (XI
    (XI (XI (XO XH)))))))))))), (Npos (XO (XO (XI (XI (XO (XI (XO (XI (XO (XI
    (XI (XI XH)))))))))))))) :: (((Zpos (XO (XI (XO (XO (XI (XO (XI (XI (XO
    (XI (XO XH)))))))))))), (Npos (XI (XO (XI (XI (XI (XO (XI (XO (XO (XO (XI
    (XI XH)))))))))))))) :: (((Zpos (XI (XI (XI (XI (XO (XI (XO (XI (XO (XO
    (XO XH)))))))))))), (Npos (XO (XI (XO (XI (XI (XO (XI (XI (XI (XI (XI (XO
    XH)))))))))))))) :: (((Zpos (XO (XO (XI (XI (XO (XO (XI (XI (XO (XI (XO
    XH)))))))))))), (Npos (XO (XO (XI (XO (XI (XI (XI (XI (XI (XI (XO (XI
    XH)))))))))))))) :: (((Zpos (XO (XI (XO (XI (XO (XI (XI (XI (XO (XI (XO
    XH)))))))))))), (Npos (XI (XO (XI (XO (XI (XI (XO (XI (XI (XO (XI (XI
    XH)))))))))))))) :: (((Zpos (XI (XO (XO (XO (XO (XI (XO (XI (XO (XO (XO
    XH)))))))))))), (Npos (XO (XI (XO (XI (XO (XO (XO (XO (XI (XI (XI (XO
    XH)))))))))))))) :: (((Zpos (XO (XI (XO (XI (XI (XO (XI (XI (XI (XI (XO
    XH)))))))))))), (Npos (XO (XO (XO (XO (XI (XI (XO (XO (XI (XI (XI (XI
    XH)))))))))))))) :: (((Zpos (XO (XO (XO (XO (XI (XO (XI (XI (XO (XI (XO
    XH)))))))))))), (Npos (XO (XO (XI (XO (XI (XI (XO (XO (XO (XO (XI (XI
    XH)))))))))))))) :: (((Zpos (XO (XO (XI (XO (XI (XI (XI (XI (XI (XO (XO
    XH)))))))))))), (Npos (XI (XO (XI (XO (XO (XI (XI (XO (XO (XI (XO (XI
    XH)))))))))))))) :: (((Zpos (XO (XO (XI (XI (XI (XO (XI (XI (XI (XI (XO
    XH)))))))))))), (Npos (XI (XO (XO (XI (XI (XI (XO (XO (XI (XI (XI (XI
    XH)))))))))))))) :: (((Zpos (XO (XO (XI (XI (XI XH)))))), (Npos (XO (XO
    (XO (XO (XI (XI (XO XH))))))))) :: (((Zpos (XO (XO (XI (XI (XI (XI (XO
    (XI (XO (XO (XO XH)))))))))))), (Npos (XO (XO (XI (XO (XI (XO (XO (XI (XO
    (XO (XO (XI XH)))))))))))))) :: (((Zpos (XI (XO (XI (XO (XO (XI (XI (XI
    (XI (XO (XO XH)))))))))))), (Npos (XI (XI (XO (XI (XO (XO (XI (XI (XI (XO
    (XO (XI XH)))))))))))))) :: (((Zpos (XO (XI (XI (XI (XI (XO (XI (XI (XO
    (XO (XO XH)))))))))))), (Npos (XI (XI (XO (XI (XO (XO (XI (XO (XI (XO (XO
    (XI XH)))))))))))))) :: (((Zpos (XI (XI (XI (XI (XI (XO (XI (XI (XO (XO
    (XO XH)))))))))))), (Npos (XO (XI (XI (XO (XI (XO (XI (XO (XI (XO (XO (XI
    XH)))))))))))))) :: (((Zpos (XI (XO (XI (XI (XO (XI (XI (XI (XI (XO (XO
    XH)))))))))))), (Npos (XO (XI (XI (XI (XI (XI (XI (XI (XI (XO (XO (XI
    XH)))))))))))))) :: (((Zpos (XO (XI (XO (XI (XO (XI (XI (XI (XI (XO (XO
    XH)))))))))))), (Npos (XO (XO (XI (XO (XI (XO (XI (XI (XI (XO (XO (XI
    XH)))))))))))))) :: (((Zpos (XI (XI (XO (XO (XI (XI (XO (XI XH))))))))),
    (Npos (XI (XI (XO (XO (XO (XI (XI (XO (XI (XO XH)))))))))))) :: (((Zpos
    (XI (XO (XI (XI (XO (XI XH))))))), (Npos (XI (XO (XI (XO (XO (XI (XI (XO
    XH)))))))))) :: (((Zpos (XI (XI (XI (XI (XO (XI (XO XH)))))))), (Npos (XO
    (XI (XO (XO (XI (XI (XO (XO (XO XH))))))))))) :: (((Zpos (XI (XI (XI (XO
    (XI (XI (XI (XI (XO (XI (XO XH)))))))))))), (Npos (XI (XO (XO (XO (XI (XI
    (XO (XO (XO (XI (XI (XI XH)))))))))))))) :: (((Zpos (XO (XO (XO (XO (XI
    (XI (XI (XI (XO (XI (XO XH)))))))))))), (Npos (XI (XO (XO (XO (XO (XI (XI
    (XI (XI (XO (XI (XI XH)))))))))))))) :: (((Zpos (XI (XI (XI (XI (XI (XI
    (XO (XI (XO (XI (XO XH)))))))))))), (Npos (XI (XI (XO (XO (XI (XO (XO (XI
    (XI (XI (XO (XI XH)))))))))))))) :: (((Zpos (XO (XI (XO (XI (XI (XI (XO
    XH)))))))), (Npos (XO (XI (XO (XI (XI (XO (XO (XI (XO
    XH))))))))))) :: (((Zpos (XI (XO (XI (XI (XO XH)))))), (Npos (XI (XO (XO
    (XI (XI (XI XH)))))))) :: (((Zpos (XO (XI (XI (XO (XI (XO (XI (XI (XO (XI
    (XO XH)))))))))))), (Npos (XI (XI (XO (XO (XI (XO (XO (XI (XO (XO (XI (XI
    XH)))))))))))))) :: (((Zpos (XI (XO (XI (XO (XI (XI (XO XH)))))))), (Npos
    (XO (XI (XO (XI (XO (XI (XI (XO (XO XH))))))))))) :: (((Zpos (XI (XI (XI
    (XO (XI (XO (XI XH)))))))), (Npos (XO (XO (XI (XO (XO (XI (XO (XI (XI
    XH))))))))))) :: (((Zpos (XO (XI (XI (XO (XI (XI (XI (XI (XO (XI (XO
    XH)))))))))))), (Npos (XI (XO (XI (XO (XO (XI (XO (XO (XO (XI (XI (XI
    XH)))))))))))))) :: (((Zpos (XI (XO (XI (XO (XI (XI (XI (XI (XO (XI (XO
    XH)))))))))))), (Npos (XO (XO (XO (XI (XI (XO (XO (XO (XO (XI (XI (XI
    XH)))))))))))))) :: (((Zpos (XO (XI (XI (XI (XO (XI XH))))))), (Npos (XI
    (XI (XI (XO (XO (XI (XI (XO XH)))))))))) :: (((Zpos (XI (XO (XI (XO (XO
    (XO (XI (XI (XO (XO (XO XH)))))))))))), (Npos (XO (XI (XO (XO (XO (XI (XI
    (XI (XO (XO (XO (XI XH)))))))))))))) :: (((Zpos (XI (XO (XO (XO (XI (XI
    (XI (XI XH))))))))), (Npos (XO (XI (XO (XI (XI (XI (XI (XO (XO (XI
    XH)))))))))))) :: (((Zpos (XO (XI (XO (XO (XI (XI (XI (XI XH))))))))),
    (Npos (XI (XO (XO (XO (XO (XO (XO (XI (XO (XI XH)))))))))))) :: (((Zpos
    (XI (XO (XO (XO (XI (XI (XI (XI (XI XH)))))))))), (Npos (XI (XO (XO (XI
    (XO (XO (XO (XI (XO (XO (XO XH))))))))))))) :: (((Zpos (XO (XO (XO (XI
    (XO (XI (XI (XI (XI (XO (XO XH)))))))))))), (Npos (XO (XI (XI (XI (XO (XO
    (XI (XI (XI (XO (XO (XI XH)))))))))))))) :: (((Zpos (XO (XO (XO (XO (XO
    (XI (XO XH)))))))), (Npos (XI (XO (XI (XO (XO (XI (XO (XI
    XH)))))))))) :: (((Zpos (XI (XO (XI (XI (XI (XI (XO (XI (XO (XO (XO
    XH)))))))))))), (Npos (XO (XI (XO (XO (XO (XI (XO (XI (XO (XO (XO (XI
    XH)))))))))))))) :: (((Zpos (XO (XO (XI (XI (XO (XI (XO XH)))))))), (Npos
    (XO (XO (XO (XI (XI (XO (XO (XO (XO XH))))))))))) :: (((Zpos (XI (XO (XO
    (XO (XI (XI (XI XH)))))))), (Npos (XI (XO (XO (XO (XO (XO (XO (XI (XO (XO
    XH)))))))))))) :: (((Zpos (XI (XI (XO (XO (XO XH)))))), (Npos (XO (XI (XI
    (XO XH)))))) :: (((Zpos (XO (XO (XO (XO (XI (XI (XO (XI (XO (XI
    XH))))))))))), (Npos (XI (XI (XI (XI (XI (XI (XO (XI (XO (XI (XI
    XH))))))))))))) :: (((Zpos (XI (XI (XI (XI (XO (XI XH))))))), (Npos (XI
    (XO (XO (XI (XO (XI (XI (XO XH)))))))))) :: (((Zpos (XI (XI (XO (XO (XI
    (XI (XI XH)))))))), (Npos (XI (XI (XI (XI (XO (XO (XO (XI (XO (XO
    XH)))))))))))) :: (((Zpos (XO (XO (XI (XO (XI (XI (XI XH)))))))), (Npos
    (XO (XI (XI (XO (XI (XO (XO (XI (XO (XO XH)))))))))))) :: (((Zpos (XO (XI
    (XI (XO (XI (XI (XI XH)))))))), (Npos (XI (XO (XO (XI (XO (XI (XO (XI (XO
    (XO XH)))))))))))) :: (((Zpos (XI (XO (XI (XO (XI (XI (XI (XI
    XH))))))))), (Npos (XO (XO (XO (XI (XO (XO (XO (XI (XO (XI
    XH)))))))))))) :: (((Zpos (XI (XO (XI (XI (XI (XI (XO (XI (XI (XI (XO (XO
    XH))))))))))))), (Npos (XI (XI (XI (XO (XO (XO (XO (XO (XI (XI (XO (XI
    (XO XH))))))))))))))) :: (((Zpos (XO (XI (XO (XO (XI (XI (XO (XI
    XH))))))))), (Npos (XO (XO (XI (XI (XI (XO (XI (XO (XI (XO
    XH)))))))))))) :: (((Zpos (XO (XI (XO (XO (XI (XI (XI XH)))))))), (Npos
    (XO (XO (XO (XI (XO (XO (XO (XI (XO (XO XH)))))))))))) :: (((Zpos (XO (XI
    (XO (XO (XI (XI (XI (XI (XI XH)))))))))), (Npos (XO (XI (XO (XO (XI (XO
    (XO (XI (XO (XO (XO XH))))))))))))) :: (((Zpos (XI (XI (XO (XO (XO (XO
    (XI (XI (XO (XI (XO XH)))))))))))), (Npos (XO (XI (XO (XI (XI (XO (XO (XI
    (XI (XI (XO (XI XH)))))))))))))) :: (((Zpos (XO (XI (XO (XO (XI (XI (XO
    (XI (XO (XI (XO XH)))))))))))), (Npos (XO (XI (XI (XO (XI (XO (XO (XO (XI
    (XI (XO (XI XH)))))))))))))) :: (((Zpos (XI (XO (XI (XI (XI (XI (XO
    XH)))))))), (Npos (XO (XI (XI (XI (XI (XI (XO (XI (XO
    XH))))))))))) :: (((Zpos (XO (XO (XI (XI (XI (XI (XO XH)))))))), (Npos
    (XI (XI (XO (XO (XI (XI (XO (XI (XO XH))))))))))) :: (((Zpos (XO (XI (XI
    (XO (XI (XI (XO (XI (XO (XI (XO XH)))))))))))), (Npos (XO (XO (XO (XO (XO
    (XO (XI (XO (XI (XI (XO (XI XH)))))))))))))) :: (((Zpos (XI (XO (XO (XI
    (XI (XI (XO XH)))))))), (Npos (XO (XI (XI (XI (XO (XO (XO (XI (XO
    XH))))))))))) :: (((Zpos (XO (XO (XO (XO (XI (XI (XO (XI (XO (XI (XO
    XH)))))))))))), (Npos (XI (XI (XO (XO (XO (XO (XO (XO (XI (XI (XO (XI
    XH)))))))))))))) :: (((Zpos (XO (XI (XO (XO (XO (XI (XI (XI (XO (XI (XO
    XH)))))))))))), (Npos (XI (XO (XO (XO (XI (XI (XO (XO (XI (XO (XI (XI
    XH)))))))))))))) :: (((Zpos (XI (XO (XI (XO (XO (XI (XI (XI (XO (XI (XO
    XH)))))))))))), (Npos (XO (XI (XO (XO (XO (XI (XI (XO (XI (XO (XI (XI
    XH)))))))))))))) :: (((Zpos (XO (XO (XI (XO (XO (XI (XI (XI (XO (XI (XO
    XH)))))))))))), (Npos (XO (XO (XO (XO (XI (XO (XI (XO (XI (XO (XI (XI
    XH)))))))))))))) :: (((Zpos (XI (XI (XO (XO (XO (XI (XI (XI (XO (XI (XO
    XH)))))))))))), (Npos (XO (XO (XO (XO (XO (XO (XI (XO (XI (XO (XI (XI
    XH)))))))))))))) :: (((Zpos (XO (XI (XO (XI (XO (XI (XO XH)))))))), (Npos
    (XO (XI (XI (XI (XI (XI (XI (XI XH)))))))))) :: (((Zpos (XO (XO (XO (XI
    (XI (XI (XI XH)))))))), (Npos (XI (XO (XI (XI (XI (XI (XO (XI (XO (XO
    XH)))))))))))) :: (((Zpos (XI (XO (XI (XO (XI (XI (XI XH)))))))), (Npos
    (XO (XI (XO (XO (XO (XI (XO (XI (XO (XO XH)))))))))))) :: (((Zpos (XO (XO
    (XO (XO (XO (XO (XI (XI (XI (XI (XO XH)))))))))))), (Npos (XI (XI (XO (XO
    (XI (XO (XI (XI (XO (XI (XI (XI XH)))))))))))))) :: (((Zpos (XO (XI (XI
    (XI (XI (XI (XI (XO (XO (XO XH))))))))))), (Npos (XO (XI (XO (XI (XI (XI
    (XO (XI (XO (XO (XO XH))))))))))))) :: (((Zpos (XO (XO (XO (XO (XI (XI
    XH))))))), (Npos (XI (XI (XO (XI (XO (XI (XI (XO XH)))))))))) :: (((Zpos
    (XO (XI (XI (XO (XI (XI (XO XH)))))))), (Npos (XI (XO (XI (XI (XO (XI (XI
    (XO (XO XH))))))))))) :: (((Zpos (XO (XO (XO (XI (XO XH)))))), (Npos (XO
    (XO (XO (XO (XI (XO XH)))))))) :: (((Zpos (XI (XO (XO (XI (XO XH)))))),
    (Npos (XO (XI (XO (XI (XI (XO XH)))))))) :: (((Zpos (XI (XI (XI (XI (XO
    (XI (XI (XI (XO (XO (XO XH)))))))))))), (Npos (XO (XO (XO (XO (XO (XI (XI
    (XO (XI (XO (XO (XI XH)))))))))))))) :: (((Zpos (XI (XO (XI (XO (XO
    XH)))))), (Npos (XO (XO (XO (XI (XO XH))))))) :: (((Zpos (XO (XI (XI (XI
    (XO XH)))))), (Npos (XI (XI (XI (XI (XI (XI XH)))))))) :: (((Zpos (XI (XI
    (XI (XO (XI (XI (XO XH)))))))), (Npos (XI (XI (XI (XO (XI (XI (XI (XO (XO
    XH))))))))))) :: (((Zpos (XI (XI (XO (XI (XI (XI (XI (XI (XO (XI (XO
    XH)))))))))))), (Npos (XI (XO (XI (XO (XO (XI (XI (XO (XO (XI (XI (XI
    XH)))))))))))))) :: (((Zpos (XI (XI (XO (XI (XO XH)))))), (Npos (XO (XI
    (XI (XI (XO (XI XH)))))))) :: (((Zpos (XI (XO (XO (XO (XI (XI (XO
    XH)))))))), (Npos (XO (XO (XO (XO (XO (XO (XI (XO (XO
    XH))))))))))) :: (((Zpos (XO (XO (XI (XO (XI (XO (XI (XI (XO (XI (XO
    XH)))))))))))), (Npos (XO (XI (XI (XO (XO (XO (XO (XI (XO (XO (XI (XI
    XH)))))))))))))) :: (((Zpos (XO (XO (XO (XO (XI (XI (XO (XI (XO (XO
    XH))))))))))), (Npos (XO (XO (XO (XI (XI (XI (XI (XO (XI (XO (XO
    XH))))))))))))) :: (((Zpos (XO (XI (XI (XO (XO (XI (XO (XI (XO (XI (XO
    XH)))))))))))), (Npos (XI (XO (XO (XO (XI (XI (XO (XI (XO (XI (XO (XI
    XH)))))))))))))) :: (((Zpos (XI (XO (XO (XO (XI (XI XH))))))), (Npos (XI
    (XO (XI (XI (XO (XI (XI (XO XH)))))))))) :: (((Zpos (XO (XO (XI (XI (XO
    (XO (XI (XI (XI (XI (XO XH)))))))))))), (Npos (XO (XI (XO (XO (XO (XO (XO
    (XO (XI (XI (XI (XI XH)))))))))))))) :: (((Zpos (XI (XI (XI (XI (XI
    XH)))))), (Npos (XI (XI (XO (XO (XO (XO (XI XH))))))))) :: (((Zpos (XI
    (XI (XI (XI (XI (XI (XO XH)))))))), (Npos (XO (XO (XI (XO (XI (XO (XI (XI
    (XO XH))))))))))) :: (((Zpos (XO (XI (XO (XO (XO XH)))))), (Npos (XI (XO
    (XI XH))))) :: (((Zpos (XO (XO (XO (XO (XO (XI XH))))))), (Npos (XI (XI
    (XO (XO (XO (XO (XI (XO XH)))))))))) :: (((Zpos (XI (XI (XI (XO (XO
    XH)))))), (Npos (XI (XO (XI (XO (XO (XO XH)))))))) :: (((Zpos (XO (XI (XO
    (XO (XI (XI XH))))))), (Npos (XI (XI (XI (XI (XO (XI (XI (XO
    XH)))))))))) :: (((Zpos (XO (XO (XO (XO (XO (XI (XI (XI XH))))))))),
    (Npos (XI (XO (XO (XI (XI (XI (XO (XO (XO (XI XH)))))))))))) :: (((Zpos
    (XO (XI (XI (XO (XI (XO (XI (XI (XO (XO (XO XH)))))))))))), (Npos (XO (XO
    (XI (XI (XI (XO (XO (XO (XI (XO (XO (XI XH)))))))))))))) :: (((Zpos (XO
    (XO (XO (XI (XI (XI (XI (XI XH))))))))), (Npos (XI (XO (XI (XO (XI (XO
    (XO (XI (XO (XI XH)))))))))))) :: (((Zpos (XI (XI (XO (XO (XI (XI (XO (XI
    (XI XH)))))))))), (Npos (XI (XI (XO (XI (XI (XO (XI (XI (XI (XI
    XH)))))))))))) :: (((Zpos (XO (XI (XI (XI (XO (XI (XO XH)))))))), (Npos
    (XI (XI (XI (XO (XO (XI (XO (XO (XO XH))))))))))) :: (((Zpos (XO (XI (XI
    (XI (XI (XI (XO (XI (XO (XI (XO XH)))))))))))), (Npos (XI (XO (XO (XO (XO
    (XO (XO (XI (XI (XI (XO (XI XH)))))))))))))) :: (((Zpos (XI (XO (XI (XI
    (XI (XI (XI (XI (XO (XO (XO XH)))))))))))), (Npos (XI (XO (XI (XI (XO (XO
    (XO (XI (XI (XO (XO (XI XH)))))))))))))) :: (((Zpos (XO (XI (XI (XO (XO
    (XI (XO (XI (XI (XI (XO XH)))))))))))), (Npos (XO (XI (XI (XO (XI (XI (XO
    (XI (XO (XI (XI (XI XH)))))))))))))) :: (((Zpos (XI (XI (XO (XO (XI (XO
    (XI (XI (XO (XI (XO XH)))))))))))), (Npos (XI (XO (XO (XO (XI (XI (XI (XO
    (XO (XO (XI (XI XH)))))))))))))) :: (((Zpos (XO (XO (XO (XO (XI (XI (XO
    (XI (XO (XO (XO XH)))))))))))), (Npos (XI (XI (XI (XI (XO (XI (XI (XI (XI
    (XI (XI (XO XH)))))))))))))) :: (((Zpos (XI (XI (XI (XO (XI (XI (XO (XI
    (XO (XO (XO XH)))))))))))), (Npos (XI (XI (XI (XI (XI (XI (XI (XO (XO (XO
    (XO (XI XH)))))))))))))) :: (((Zpos (XI (XO (XI (XI (XO (XO (XI (XI (XO
    (XI (XO XH)))))))))))), (Npos (XI (XO (XI (XO (XO (XO (XO (XO (XO (XO (XI
    (XI XH)))))))))))))) :: (((Zpos (XI (XI (XO (XI (XO (XI (XI (XI (XO (XI
    (XO XH)))))))))))), (Npos (XI (XO (XO (XO (XO (XO (XI (XI (XI (XO (XI (XI
    XH)))))))))))))) :: (((Zpos (XO (XO (XO (XI (XI (XO (XI (XI (XI (XI (XO
    XH)))))))))))), (Npos (XO (XI (XI (XO (XO (XI (XO (XO (XI (XI (XI (XI
    XH)))))))))))))) :: (((Zpos (XI (XO (XO (XO (XI (XO (XI (XI (XO (XI (XO
    XH)))))))))))), (Npos (XO (XO (XO (XI (XO (XO (XI (XO (XO (XO (XI (XI
    XH)))))))))))))) :: (((Zpos (XI (XO (XI (XO (XI (XI (XI (XI (XI (XO (XO
    XH)))))))))))), (Npos (XI (XI (XO (XI (XO (XI (XI (XO (XO (XI (XO (XI
    XH)))))))))))))) :: (((Zpos (XO (XO (XI (XI (XI (XI (XI (XI (XI (XI (XO
    XH)))))))))))), (Npos (XO (XI (XO (XO (XO (XO (XI (XO (XI (XI (XI (XI
    XH)))))))))))))) :: (((Zpos (XI (XI (XO (XO (XI (XI XH))))))), (Npos (XI
    (XO (XO (XO (XI (XI (XI (XO XH)))))))))) :: (((Zpos (XO (XI (XI (XO (XI
    (XI (XO (XI XH))))))))), (Npos (XO (XI (XO (XO (XI (XI (XI (XO (XI (XO
    XH)))))))))))) :: (((Zpos (XI (XO (XO (XI (XI (XI (XO (XI XH))))))))),
    (Npos (XI (XI (XI (XI (XI (XI (XI (XO (XI (XO XH)))))))))))) :: (((Zpos
    (XO (XI (XO (XI (XI (XI (XO (XI XH))))))))), (Npos (XO (XI (XI (XO (XO
    (XO (XO (XI (XI (XO XH)))))))))))) :: (((Zpos (XO (XI (XI (XI (XI (XI (XI
    (XI (XO XH)))))))))), (Npos (XO (XO (XI (XO (XI (XO (XO (XI (XI (XI
    XH)))))))))))) :: (((Zpos (XO (XI (XI (XI (XI (XI (XI (XO (XI (XI (XI (XI
    (XI (XI (XI XH)))))))))))))))), (Npos (XO (XI (XI (XO (XI (XI (XI (XO (XO
    (XI (XI (XO (XI XH))))))))))))))) :: (((Zpos (XI (XI (XI (XO (XI (XO (XI
    (XI (XO (XI (XO XH)))))))))))), (Npos (XI (XI (XO (XI (XI (XO (XO (XI (XO
    (XO (XI (XI XH)))))))))))))) :: (((Zpos (XI (XI (XI (XO (XO (XI (XO
    XH)))))))), (Npos (XO (XI (XO (XO (XO (XI (XI (XI XH)))))))))) :: (((Zpos
    (XI (XI (XO (XI (XI XH)))))), (Npos (XO (XI (XI (XO (XO (XI (XO
    XH))))))))) :: (((Zpos (XI (XI (XI (XI (XI (XO (XI (XI (XO (XO
    XH))))))))))), (Npos (XO (XO (XO (XO (XI (XO (XO (XO (XI (XI (XO
    XH))))))))))))) :: (((Zpos (XO (XI (XI (XO (XO (XO (XI (XI (XO (XI (XO
    XH)))))))))))), (Npos (XI (XO (XI (XI (XI (XI (XO (XI (XI (XI (XO (XI
    XH)))))))))))))) :: (((Zpos (XO (XI (XO (XI (XO (XO (XI (XI (XO (XI (XO
    XH)))))))))))), (Npos (XO (XO (XI (XO (XI (XO (XI (XI (XI (XI (XO (XI
    XH)))))))))))))) :: (((Zpos (XO (XO (XI (XI (XO (XI (XO (XI (XO (XI (XO
    XH)))))))))))), (Npos (XO (XI (XI (XI (XI (XO (XI (XI (XO (XI (XO (XI
    XH)))))))))))))) :: (((Zpos (XI (XO (XO (XI (XO (XO (XI (XI (XO (XO (XO
    XH)))))))))))), (Npos (XO (XO (XI (XO (XI (XI (XI (XI (XO (XO (XO (XI
    XH)))))))))))))) :: (((Zpos (XI (XO (XI (XI (XI (XI (XI (XI (XO (XI (XO
    XH)))))))))))), (Npos (XI (XI (XI (XI (XI (XI (XI (XO (XO (XI (XI (XI
    XH)))))))))))))) :: (((Zpos (XI (XI (XI (XI (XO XH)))))), (Npos (XO (XI
    (XI (XO (XO (XO (XO XH))))))))) :: (((Zpos (XO (XO (XO (XO (XO (XI (XI
    (XI (XI (XO (XO XH)))))))))))), (Npos (XO (XO (XO (XI (XO (XI (XO (XI (XI
    (XO (XO (XI XH)))))))))))))) :: (((Zpos (XO (XO (XO (XO (XO XH)))))),
    N0) :: (((Zpos (XI (XI (XI (XI (XI (XO (XI XH)))))))), (Npos (XO (XI (XI
    (XI (XO (XI (XI (XI (XI XH))))))))))) :: (((Zpos (XI (XI (XO (XO (XO (XI
    (XO XH)))))))), (Npos (XO (XI (XO (XO (XO (XO (XI (XI
    XH)))))))))) :: (((Zpos (XO (XO (XI (XO (XI (XI XH))))))), (Npos (XI (XI
    (XO (XO (XI (XI (XI (XO XH)))))))))) :: (((Zpos (XI (XI (XO (XI (XI (XI
    (XO (XI XH))))))))), (Npos (XI (XI (XI (XI (XO (XO (XO (XI (XI (XO
    XH)))))))))))) :: (((Zpos (XO (XI (XI (XI (XI (XI (XI (XI XH))))))))),
    (Npos (XI (XI (XI (XI (XO (XI (XO (XI (XO (XI XH)))))))))))) :: (((Zpos
    (XI (XO (XO (XI (XI (XI (XI (XI (XO (XI (XO XH)))))))))))), (Npos (XI (XO
    (XO (XI (XO (XO (XI (XO (XO (XI (XI (XI XH)))))))))))))) :: (((Zpos (XO
    (XI (XO (XI (XI (XI (XI (XI (XO (XI (XO XH)))))))))))), (Npos (XI (XI (XO
    (XO (XI (XO (XI (XO (XO (XI (XI (XI XH)))))))))))))) :: (((Zpos (XO (XO
    (XO (XO (XO (XO (XI (XI (XO (XO (XO XH)))))))))))), (Npos (XI (XO (XI (XO
    (XO (XO (XI (XI (XO (XO (XO (XI XH)))))))))))))) :: (((Zpos (XI (XI (XI
    (XO (XO (XI (XO (XI (XO (XI (XO XH)))))))))))), (Npos (XO (XO (XI (XI (XI
    (XI (XO (XI (XO (XI (XO (XI XH)))))))))))))) :: (((Zpos (XO (XI (XI (XI
    (XI (XI (XI XH)))))))), (Npos (XO (XO (XO (XO (XI (XI (XI (XI (XO (XO
    XH)))))))))))) :: (((Zpos (XO (XO (XI (XO (XO (XO (XI (XI (XO (XI (XO
    XH)))))))))))), (Npos (XO (XO (XI (XO (XO (XI (XO (XI (XI (XI (XO (XI
    XH)))))))))))))) :: (((Zpos (XO (XO (XI (XO (XI (XI (XO (XI (XO (XI (XO
    XH)))))))))))), (Npos (XI (XO (XO (XI (XO (XI (XO (XO (XI (XI (XO (XI
    XH)))))))))))))) :: (((Zpos (XO (XI (XI (XI (XI (XI (XO XH)))))))), (Npos
    (XO (XI (XI (XO (XO (XO (XI (XI (XO XH))))))))))) :: (((Zpos (XI (XI (XO
    (XO (XI (XI (XO XH)))))))), (Npos (XO (XI (XI (XO (XI (XO (XI (XO (XO
    XH))))))))))) :: (((Zpos (XO (XO (XI (XO (XO (XI (XO (XI (XO (XO (XO
    XH)))))))))))), (Npos (XO (XO (XI (XO (XI (XI (XO (XO (XI (XI (XI (XO
    XH)))))))))))))) :: (((Zpos (XI (XI (XO (XI (XO (XI (XO (XI (XO (XO (XO
    XH)))))))))))), (Npos (XO (XO (XO (XO (XO (XI (XO (XI (XI (XI (XI (XO
    XH)))))))))))))) :: (((Zpos (XO (XI (XO (XO (XO (XI (XO (XI (XO (XO (XO
    XH)))))))))))), (Npos (XO (XI (XI (XO (XI (XO (XO (XO (XI (XI (XI (XO
    XH)))))))))))))) :: (((Zpos (XI (XI (XI (XO (XO (XI (XO (XI (XO (XO (XO
    XH)))))))))))), (Npos (XO (XI (XO (XI (XI (XO (XI (XO (XI (XI (XI (XO
    XH)))))))))))))) :: (((Zpos (XI (XO (XO (XO (XI (XI (XO (XI (XO (XO (XO
    XH)))))))))))), (Npos (XI (XO (XI (XO (XO (XO (XO (XO (XO (XO (XO (XI
    XH)))))))))))))) :: (((Zpos (XI (XO (XI (XI (XO (XI (XO (XI (XO (XO (XO
    XH)))))))))))), (Npos (XO (XO (XI (XI (XI (XI (XO (XI (XI (XI (XI (XO
    XH)))))))))))))) :: (((Zpos (XI (XO (XO (XI (XO (XI (XO (XI (XO (XO (XO
    XH)))))))))))), (Npos (XO (XO (XI (XI (XI (XI (XI (XO (XI (XI (XI (XO
    XH)))))))))))))) :: (((Zpos (XI (XO (XI (XO (XI (XI (XO (XI (XO (XO (XO
    XH)))))))))))), (Npos (XI (XI (XO (XI (XI (XO (XI (XO (XO (XO (XO (XI
    XH)))))))))))))) :: (((Zpos (XI (XI (XI (XO (XI (XI (XI (XI (XI (XO (XO
    XH)))))))))))), (Npos (XI (XI (XI (XO (XI (XI (XI (XO (XO (XI (XO (XI
    XH)))))))))))))) :: (((Zpos (XI (XI (XO (XO (XI (XI (XO (XI (XO (XO (XO
    XH)))))))))))), (Npos (XI (XI (XI (XO (XO (XI (XO (XO (XO (XO (XO (XI
    XH)))))))))))))) :: (((Zpos (XI (XO (XO (XI (XO (XO (XI (XI (XO (XI (XO
    XH)))))))))))), (Npos (XO (XI (XO (XI (XO (XO (XI (XI (XI (XI (XO (XI
    XH)))))))))))))) :: (((Zpos (XI (XI (XO (XI (XO (XO (XI (XI (XO (XI (XO
    XH)))))))))))), (Npos (XO (XI (XO (XO (XO (XI (XI (XI (XI (XI (XO (XI
    XH)))))))))))))) :: (((Zpos (XO (XO (XI (XI (XI (XI (XO (XI (XI
    XH)))))))))), (Npos (XI (XO (XI (XO (XO (XO (XO (XO (XO (XO (XO
    XH))))))))))))) :: (((Zpos (XI (XI (XO (XO (XI (XI (XO (XI (XO (XI (XO
    XH)))))))))))), (Npos (XI (XI (XI (XI (XI (XO (XO (XO (XI (XI (XO (XI
    XH)))))))))))))) :: (((Zpos (XO (XI (XO (XO (XI (XI (XO XH)))))))), (Npos
    (XO (XI (XO (XI (XO (XO (XI (XO (XO XH))))))))))) :: (((Zpos (XI (XO (XO
    (XO (XI (XI (XO (XI (XO (XI (XO XH)))))))))))), (Npos (XO (XO (XI (XI (XO
    (XO (XO (XO (XI (XI (XO (XI XH)))))))))))))) :: (((Zpos (XI (XO (XI (XO
    (XI (XI XH))))))), (Npos (XI (XO (XI (XO (XI (XI (XI (XO
    XH)))))))))) :: (((Zpos (XO (XI (XO (XI (XI (XI (XI XH)))))))), (Npos (XI
    (XI (XO (XI (XO (XO (XI (XI (XO (XO XH)))))))))))) :: (((Zpos (XI (XO (XI
    (XI (XI (XI (XI (XI (XO XH)))))))))), (Npos (XI (XO (XI (XI (XO (XO (XO
    (XI (XI (XI XH)))))))))))) :: (((Zpos (XI (XI (XO (XI (XI (XI (XI
    XH)))))))), (Npos (XO (XI (XO (XO (XI (XO (XI (XI (XO (XO
    XH)))))))))))) :: (((Zpos (XO (XO (XI (XI (XI (XI (XI XH)))))))), (Npos
    (XO (XI (XI (XI (XI (XO (XI (XI (XO (XO XH)))))))))))) :: (((Zpos (XI (XI
    (XO (XI (XI (XI (XI (XI XH))))))))), (Npos (XO (XI (XO (XO (XO (XI (XO
    (XI (XO (XI XH)))))))))))) :: (((Zpos (XI (XO (XO (XI (XI (XI (XI
    XH)))))))), (Npos (XO (XO (XI (XO (XO (XO (XI (XI (XO (XO
    XH)))))))))))) :: (((Zpos (XO (XI (XI (XI (XI (XI (XI (XI (XI
    XH)))))))))), (Npos (XO (XI (XO (XO (XI (XI (XO (XI (XO (XO (XO
    XH))))))))))))) :: (((Zpos (XO (XI (XI (XO (XO (XO (XI (XI (XI (XI (XO
    XH)))))))))))), (Npos (XI (XO (XI (XO (XI (XI (XI (XI (XO (XI (XI (XI
    XH)))))))))))))) :: (((Zpos (XI (XI (XI (XI (XI (XO XH))))))), (Npos (XO
    (XI (XO (XO (XI (XI (XO (XO XH)))))))))) :: (((Zpos (XI (XO (XI (XI (XI
    (XO (XI (XI (XO (XO (XO XH)))))))))))), (Npos (XI (XO (XI (XO (XO (XO (XI
    (XO (XI (XO (XO (XI XH)))))))))))))) :: (((Zpos (XI (XO (XO (XI (XI (XI
    (XI (XI (XI XH)))))))))), (Npos (XI (XI (XO (XO (XO (XI (XO (XI (XO (XO
    (XO XH))))))))))))) :: (((Zpos (XO (XO (XI (XI (XI (XI (XI (XI (XO (XO
    (XO XH)))))))))))), (Npos (XI (XO (XI (XO (XO (XO (XO (XI (XI (XO (XO (XI
    XH)))))))))))))) :: (((Zpos (XI (XO (XO (XI (XO (XI (XO (XI (XI (XI (XO
    XH)))))))))))), (Npos (XI (XI (XO (XI (XO (XO (XI (XI (XO (XI (XI (XI
    XH)))))))))))))) :: (((Zpos (XO (XO (XI (XI (XO (XI (XI (XI (XI (XO (XO
    XH)))))))))))), (Npos (XI (XO (XO (XO (XI (XI (XI (XI (XI (XO (XO (XI
    XH)))))))))))))) :: (((Zpos (XI (XI (XO (XI (XO (XI (XI (XI (XI (XO (XO
    XH)))))))))))), (Npos (XI (XI (XO (XO (XO (XI (XI (XI (XI (XO (XO (XI
    XH)))))))))))))) :: (((Zpos (XI (XI (XO (XO (XO (XO (XI (XI (XI (XI (XO
    XH)))))))))))), (Npos (XO (XO (XI (XO (XO (XI (XI (XI (XO (XI (XI (XI
    XH)))))))))))))) :: (((Zpos (XI (XI (XO (XO (XI (XO (XI (XI (XI (XI (XO
    XH)))))))))))), (Npos (XI (XO (XI (XO (XI (XO (XO (XO (XI (XI (XI (XI
    XH)))))))))))))) :: (((Zpos (XO (XI (XI (XI (XO (XO (XI (XI (XI (XI (XO
    XH)))))))))))), (Npos (XI (XI (XI (XO (XO (XO (XO (XO (XI (XI (XI (XI
    XH)))))))))))))) :: (((Zpos (XI (XO (XO (XI (XI (XI (XI (XI XH))))))))),
    (Npos (XO (XO (XI (XI (XI (XO (XO (XI (XO (XI XH)))))))))))) :: (((Zpos
    (XI (XO (XI (XI (XI (XI (XI (XI (XI XH)))))))))), (Npos (XI (XI (XO (XI
    (XO (XI (XO (XI (XO (XO (XO XH))))))))))))) :: (((Zpos (XO (XI (XI (XO
    (XI (XI XH))))))), (Npos (XI (XI (XI (XO (XI (XI (XI (XO
    XH)))))))))) :: (((Zpos (XI (XO (XO (XO (XO (XO (XI (XI (XO (XO (XO
    XH)))))))))))), (Npos (XI (XI (XI (XI (XO (XO (XI (XI (XO (XO (XO (XI
    XH)))))))))))))) :: (((Zpos (XO (XO (XO (XI (XI (XI (XI (XI (XI (XO (XO
    XH)))))))))))), (Npos (XO (XO (XI (XI (XI (XI (XI (XO (XO (XI (XO (XI
    XH)))))))))))))) :: (((Zpos (XO (XI (XI (XO (XO (XI (XO (XI (XO (XO (XO
    XH)))))))))))), (Npos (XO (XO (XI (XI (XO (XO (XI (XO (XI (XI (XI (XO
    XH)))))))))))))) :: (((Zpos (XO (XI (XI (XI (XI (XO (XI (XI (XO (XO
    XH))))))))))), (Npos (XO (XO (XI (XO (XO (XO (XO (XO (XI (XI (XO
    XH))))))))))))) :: (((Zpos (XI (XO (XO (XI (XO (XI (XI (XI (XI (XO (XO
    XH)))))))))))), (Npos (XI (XO (XO (XO (XI (XO (XI (XI (XI (XO (XO (XI
    XH)))))))))))))) :: (((Zpos (XI (XI (XI (XO (XI (XI XH))))))), (Npos (XI
    (XO (XO (XI (XI (XI (XI (XO XH)))))))))) :: (((Zpos (XO (XO (XO (XI (XI
    (XI XH))))))), (Npos (XI (XI (XO (XI (XI (XI (XI (XO
    XH)))))))))) :: (((Zpos (XI (XO (XO (XI (XI (XI XH))))))), (Npos (XI (XO
    (XI (XI (XI (XI (XI (XO XH)))))))))) :: (((Zpos (XI (XO (XI (XI (XI (XI
    (XI XH)))))))), (Npos (XI (XO (XO (XI (XO (XI (XI (XI (XO (XO
    XH)))))))))))) :: (((Zpos (XI (XI (XI (XI (XI (XI (XI XH)))))))), (Npos
    (XO (XI (XI (XO (XI (XI (XI (XI (XO (XO XH)))))))))))) :: (((Zpos (XI (XO
    (XI (XO (XO (XI (XO XH)))))))), (Npos (XO (XO (XI (XO (XI (XO (XI (XI
    XH)))))))))) :: (((Zpos (XO (XI (XO (XI (XI (XI XH))))))), (Npos (XI (XI
    (XI (XI (XI (XI (XI (XO XH)))))))))) :: (((Zpos (XI (XI (XI (XI (XI (XI
    (XO (XI XH))))))))), (Npos (XO (XO (XO (XO (XI (XI (XO (XI (XI (XO
    XH)))))))))))) :: (((Zpos (XO (XO (XI (XI (XI (XI (XO (XI XH))))))))),
    (Npos (XO (XI (XI (XO (XI (XO (XO (XI (XI (XO XH)))))))))))) :: (((Zpos
    (XO (XI (XI (XI (XI (XI (XO (XI XH))))))))), (Npos (XI (XO (XO (XI (XO
    (XI (XO (XI (XI (XO
    XH)))))))))))) :: [])))))))))))))))))))))))))))))))))))))))))))))))))))))))))))))))))))))))))))))))))))))))))))))))))))))))))))))))))))))))))))))))))))))))))))))))))))))))))))))))))))))))))))))))))))))))))))))))))))))))))))))))))))))))))))))))))))))))))))))))))))))))))))))))))))))))))))))))))))))))))))))))))))))))))))))))))))))))))))))))))))))))))))))))))))))))))))))))))))))))))))))))))))))))))))))))))))))))))))))))))))))))))))))))))))))))))))))))))))))))))))))))))))))))))))))))))))))))))))))))))))))))))))))))))))))))))))))))))))))))))))))))))))))))))))))))))))))))))))))))))))))))))))))))))))))))))))))))))))))))))))))))))))))))))))))))))))))))))))))))))))))))))))))))))))))))))))))))))))))))))))))))))))))))))))))))))))))))))))))))))))))))))))))))))))))))))))))))))))))))))))))))))))))))))))))))))))))))))))))))))))))))))))))))))))))))))))))))))))))))))))))))))))))))))))))))))))))))))))))))))))))))))))))))))))))))))))))))))))))))))))))))))))))))))))))))))))))))))))))))))))))))))))))))))))))))))))))))))))))))))))))))))))))))))))))))))))))))))))))))))))))))))))))))))))))))))))))))))))))))))))))))))))))))))))))))))))))))))))))))))))))))))))))))))))))))))))))))))))))))))))))))))))))))))))))))))))))))))))))))))))))))))))))))))))))))))))))))))))))))))))))))))))))))))))))))))))))))))))))))))))))))))))))))))))))))))

(** val kModifierMask : z **)

let kModifierMask =
  Zpos (XI (XI (XI (XI (XI (XI (XI (XI (XI (XI (XI (XI (XI (XO (XO (XO (XO
    (XO (XO (XO (XO (XO (XO (XO (XI (XI (XI (XI (XI (XO
    XH))))))))))))))))))))))))))))))

(** val xK_VoidSymbol : z **)

let xK_VoidSymbol =
  Zpos (XI (XI (XI (XI (XI (XI (XI (XI (XI (XI (XI (XI (XI (XI (XI (XI (XI
    (XI (XI (XI (XI (XI (XI XH)))))))))))))))))))))))

(** val bytes_eqb : bytes -> bytes -> bool **)

let rec bytes_eqb a b =
  match a with
  | [] -> (match b with
           | [] -> true
           | _ :: _ -> false)
  | x :: a' ->
    (match b with
     | [] -> false
     | y :: b' -> if eqb0 x y then bytes_eqb a' b' else false)

(** val cstr : bytes -> bytes **)

let rec cstr = function
| [] -> []
| c :: r -> if eqb0 c X00 then [] else c :: (cstr r)

(** val cstr_at : bytes -> n -> bytes **)

let cstr_at blob off =
  cstr (skipn (N.to_nat off) blob)

(** val modifier_by_name_loop : bytes option list -> nat -> bytes -> z **)

let rec modifier_by_name_loop names i name =
  match names with
  | [] -> Z0
  | o :: rest ->
    (match o with
     | Some n0 ->
       if bytes_eqb name (cstr n0)
       then Z.shiftl (Zpos XH) (Z.of_nat i)
       else modifier_by_name_loop rest (S i) name
     | None -> modifier_by_name_loop rest (S i) name)

(** val rimeGetModifierByName : bytes -> z **)

let rimeGetModifierByName name =
  modifier_by_name_loop modifier_name O (cstr name)

(** val modifier_name_loop : bytes option list -> z -> bytes option **)

let rec modifier_name_loop names modifier =
  match names with
  | [] -> None
  | nm :: rest ->
    if Z.eqb modifier Z0
    then None
    else if Z.odd modifier
         then option_map cstr nm
         else modifier_name_loop rest (Z.shiftr modifier (Zpos XH))

(** val rimeGetModifierName : z -> bytes option **)

let rimeGetModifierName modifier =
  modifier_name_loop modifier_name modifier

(** val resolve : (z * n) list -> (z * bytes) list **)

let resolve tbl =
  map (fun e -> ((fst e), (cstr_at key_names (snd e)))) tbl

(** val resolved_by_keyval : (z * bytes) list **)

let resolved_by_keyval =
  resolve keys_by_keyval

(** val resolved_by_name : (z * bytes) list **)

let resolved_by_name =
  resolve keys_by_name

(** val keycode_by_name_in : (z * bytes) list -> bytes -> z **)

let rec keycode_by_name_in tbl name =
  match tbl with
  | [] -> xK_VoidSymbol
  | p :: rest ->
    let (kv, nm) = p in
    if Z.eqb kv xK_VoidSymbol
    then xK_VoidSymbol
    else if bytes_eqb name nm then kv else keycode_by_name_in rest name

(** val rimeGetKeycodeByName : bytes -> z **)

let rimeGetKeycodeByName name =
  keycode_by_name_in resolved_by_keyval (cstr name)

(** val key_name_in : (z * bytes) list -> z -> bytes option **)

let rec key_name_in tbl keycode =
  match tbl with
  | [] -> None
  | p :: rest ->
    let (kv, nm) = p in
    if Z.eqb keycode kv then Some nm else key_name_in rest keycode

(** val rimeGetKeyName : z -> bytes option **)

let rimeGetKeyName keycode =
  key_name_in resolved_by_name keycode

(** val ch_plus : byte **)

let ch_plus =
  X2b

(** val ch_lbrace : byte **)

let ch_lbrace =
  X7b

(** val ch_rbrace : byte **)

let ch_rbrace =
  X7d

type event = z * z

(** val repr_mods_loop : nat -> nat -> z -> bytes **)

let rec repr_mods_loop fuel i k =
  match fuel with
  | O -> []
  | S f ->
    if Z.eqb k Z0
    then []
    else app
           (if Z.odd k
            then (match rimeGetModifierName (Z.shiftl k (Z.of_nat i)) with
                  | Some nm -> app nm (ch_plus :: [])
                  | None -> [])
            else []) (repr_mods_loop f (S i) (Z.shiftr k (Zpos XH)))

(** val repr_mods : z -> bytes **)

let repr_mods modifier =
  if Z.eqb modifier Z0
  then []
  else repr_mods_loop (S (S (S (S (S (S (S (S (S (S (S (S (S (S (S (S (S (S
         (S (S (S (S (S (S (S (S (S (S (S (S (S (S
         O)))))))))))))))))))))))))))))))) O
         (Z.coq_land modifier kModifierMask)

(** val hex_digit : z -> byte **)

let hex_digit d =
  byte_of_N
    (Z.to_N
      (if Z.ltb d (Zpos (XO (XI (XO XH))))
       then Z.add (Zpos (XO (XO (XO (XO (XI XH)))))) d
       else Z.add (Zpos (XI (XI (XI (XO (XI (XO XH))))))) d))

(** val hex_digits : nat -> z -> bytes **)

let rec hex_digits n0 v =
  match n0 with
  | O -> []
  | S n' ->
    app (hex_digits n' (Z.shiftr v (Zpos (XO (XO XH)))))
      ((hex_digit (Z.coq_land v (Zpos (XI (XI (XI XH)))))) :: [])

(** val repr_keyname : z -> bytes option **)

let repr_keyname keycode =
  match rimeGetKeyName keycode with
  | Some nm -> Some nm
  | None ->
    if Z.ltb keycode Z0
    then Some
           (app (X30 :: (X78 :: []))
             (hex_digits (S (S (S (S (S (S (S (S O))))))))
               (Z.add keycode (Zpos (XO (XO (XO (XO (XO (XO (XO (XO (XO (XO
                 (XO (XO (XO (XO (XO (XO (XO (XO (XO (XO (XO (XO (XO (XO (XO
                 (XO (XO (XO (XO (XO (XO (XO
                 XH))))))))))))))))))))))))))))))))))))
    else if Z.leb keycode (Zpos (XI (XI (XI (XI (XI (XI (XI (XI (XI (XI (XI
              (XI (XI (XI (XI XH))))))))))))))))
         then Some
                (app (X30 :: (X78 :: []))
                  (hex_digits (S (S (S (S O)))) keycode))
         else if Z.leb keycode (Zpos (XI (XI (XI (XI (XI (XI (XI (XI (XI (XI
                   (XI (XI (XI (XI (XI (XI (XI (XI (XI (XI (XI (XI (XI
                   XH))))))))))))))))))))))))
              then Some
                     (app (X30 :: (X78 :: []))
                       (hex_digits (S (S (S (S (S (S O)))))) keycode))
              else None

(** val unknown_text : bytes **)

let unknown_text =
  X28 :: (X75 :: (X6e :: (X6b :: (X6e :: (X6f :: (X77 :: (X6e :: (X29 :: []))))))))

(** val repr_key : event -> bytes **)

let repr_key e =
  match repr_keyname (fst e) with
  | Some nm -> app (repr_mods (snd e)) nm
  | None -> unknown_text

(** val schar : byte -> z **)

let schar c =
  let v = Z.of_N (n_of_byte c) in
  if Z.ltb v (Zpos (XO (XO (XO (XO (XO (XO (XO XH))))))))
  then v
  else Z.sub v (Zpos (XO (XO (XO (XO (XO (XO (XO (XO XH)))))))))

(** val parse_from : bytes -> bytes -> z -> (bool * z) * z **)

let rec parse_from s tok_rev modifier =
  match s with
  | [] ->
    let k = rimeGetKeycodeByName (rev tok_rev) in
    if Z.eqb k xK_VoidSymbol
    then ((false, k), modifier)
    else ((true, k), modifier)
  | c :: r ->
    if eqb0 c ch_plus
    then let mask = rimeGetModifierByName (rev tok_rev) in
         if Z.eqb mask Z0
         then ((false, Z0), modifier)
         else parse_from r [] (Z.coq_lor modifier mask)
    else parse_from r (c :: tok_rev) modifier

(** val parse_key : bytes -> (bool * z) * z **)

let parse_key s = match s with
| [] -> ((false, Z0), Z0)
| c :: l ->
  (match l with
   | [] -> ((true, (schar c)), Z0)
   | _ :: _ -> parse_from s [] Z0)

(** val is_unescaped_character : event -> bool **)

let is_unescaped_character e =
  (&&)
    ((&&)
      ((&&)
        ((&&) (Z.eqb (snd e) Z0)
          (Z.leb (Zpos (XO (XO (XO (XO (XO XH)))))) (fst e)))
        (Z.leb (fst e) (Zpos (XO (XI (XI (XI (XI (XI XH)))))))))
      (negb (Z.eqb (fst e) (Zpos (XI (XI (XO (XI (XI (XI XH))))))))))
    (negb (Z.eqb (fst e) (Zpos (XI (XO (XI (XI (XI (XI XH)))))))))

(** val repr_piece : event -> bytes **)

let repr_piece e =
  let k = repr_key e in
  if Nat.eqb (length k) (S O)
  then k
  else if is_unescaped_character e
       then (byte_of_N (Z.to_N (fst e))) :: []
       else app (ch_lbrace :: []) (app k (ch_rbrace :: []))

(** val repr_seq : event list -> bytes **)

let repr_seq ks =
  flat_map repr_piece ks

(** val parse_seq_from :
    bytes -> bytes option -> event list -> bool * event list **)

let rec parse_seq_from s inb out_rev =
  match s with
  | [] ->
    (match inb with
     | Some _ -> (false, (rev out_rev))
     | None -> (true, (rev out_rev)))
  | c :: r ->
    (match inb with
     | Some body_rev ->
       if eqb0 c ch_rbrace
       then let (p, m) = parse_key (rev body_rev) in
            let (b, k) = p in
            if b
            then parse_seq_from r None ((k, m) :: out_rev)
            else (false, (rev out_rev))
       else parse_seq_from r (Some (c :: body_rev)) out_rev
     | None ->
       if (&&) (eqb0 c ch_lbrace)
            (negb (match r with
                   | [] -> true
                   | _ :: _ -> false))
       then parse_seq_from r (Some []) out_rev
       else let (p, m) = parse_key (c :: []) in
            let (b, k) = p in
            if b
            then parse_seq_from r None ((k, m) :: out_rev)
            else (false, (rev out_rev)))

(** val parse_seq : bytes -> bool * event list **)

let parse_seq s =
  parse_seq_from s None []

(** val key_named : z -> bool **)

let key_named k =
  match rimeGetKeyName k with
  | Some _ -> true
  | None -> false

(** val named_bits_of : bytes option list -> z **)

let rec named_bits_of = function
| [] -> Z0
| nm :: rest ->
  Z.add (match nm with
         | Some _ -> Zpos XH
         | None -> Z0) (Z.mul (Zpos (XO XH)) (named_bits_of rest))

(** val named_bits : z **)

let named_bits =
  named_bits_of modifier_name

(** val named_mask : z -> bool **)

let named_mask m =
  (&&) (Z.leb Z0 m) (Z.eqb (Z.coq_land m named_bits) m)

(** val representable : event -> bool **)

let representable e =
  (&&) ((&&) (key_named (fst e)) (negb (Z.eqb (fst e) xK_VoidSymbol)))
    (named_mask (snd e))

(** val seq_representable : event -> bool **)

let seq_representable e =
  (||) (representable e) (is_unescaped_character e)
