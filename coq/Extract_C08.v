(** Extraction of the C08 model (ExtrOcamlBasic only). *)
From Coq Require Extraction.
From Coq Require ExtrOcamlBasic.
From RimeV Require Import Dict.Syll.
Extraction "c08_model.ml" build_syllable_graph.
