
(** val negb : bool -> bool **)

let negb = function
| true -> false
| false -> true

type nat =
| O
| S of nat

(** val fst : ('a1 * 'a2) -> 'a1 **)

let fst = function
| (x, _) -> x

(** val snd : ('a1 * 'a2) -> 'a2 **)

let snd = function
| (_, y) -> y

(** val length : 'a1 list -> nat **)

let rec length = function
| [] -> O
| _ :: l' -> S (length l')

(** val app : 'a1 list -> 'a1 list -> 'a1 list **)

let rec app l m =
  match l with
  | [] -> m
  | a :: l1 -> a :: (app l1 m)

type comparison =
| Eq
| Lt
| Gt

(** val compOpp : comparison -> comparison **)

let compOpp = function
| Eq -> Eq
| Lt -> Gt
| Gt -> Lt

type byte =
| X00
| X01
| X02
| X03
| X04
| X05
| X06
| X07
| X08
| X09
| X0a
| X0b
| X0c
| X0d
| X0e
| X0f
| X10
| X11
| X12
| X13
| X14
| X15
| X16
| X17
| X18
| X19
| X1a
| X1b
| X1c
| X1d
| X1e
| X1f
| X20
| X21
| X22
| X23
| X24
| X25
| X26
| X27
| X28
| X29
| X2a
| X2b
| X2c
| X2d
| X2e
| X2f
| X30
| X31
| X32
| X33
| X34
| X35
| X36
| X37
| X38
| X39
| X3a
| X3b
| X3c
| X3d
| X3e
| X3f
| X40
| X41
| X42
| X43
| X44
| X45
| X46
| X47
| X48
| X49
| X4a
| X4b
| X4c
| X4d
| X4e
| X4f
| X50
| X51
| X52
| X53
| X54
| X55
| X56
| X57
| X58
| X59
| X5a
| X5b
| X5c
| X5d
| X5e
| X5f
| X60
| X61
| X62
| X63
| X64
| X65
| X66
| X67
| X68
| X69
| X6a
| X6b
| X6c
| X6d
| X6e
| X6f
| X70
| X71
| X72
| X73
| X74
| X75
| X76
| X77
| X78
| X79
| X7a
| X7b
| X7c
| X7d
| X7e
| X7f
| X80
| X81
| X82
| X83
| X84
| X85
| X86
| X87
| X88
| X89
| X8a
| X8b
| X8c
| X8d
| X8e
| X8f
| X90
| X91
| X92
| X93
| X94
| X95
| X96
| X97
| X98
| X99
| X9a
| X9b
| X9c
| X9d
| X9e
| X9f
| Xa0
| Xa1
| Xa2
| Xa3
| Xa4
| Xa5
| Xa6
| Xa7
| Xa8
| Xa9
| Xaa
| Xab
| Xac
| Xad
| Xae
| Xaf
| Xb0
| Xb1
| Xb2
| Xb3
| Xb4
| Xb5
| Xb6
| Xb7
| Xb8
| Xb9
| Xba
| Xbb
| Xbc
| Xbd
| Xbe
| Xbf
| Xc0
| Xc1
| Xc2
| Xc3
| Xc4
| Xc5
| Xc6
| Xc7
| Xc8
| Xc9
| Xca
| Xcb
| Xcc
| Xcd
| Xce
| Xcf
| Xd0
| Xd1
| Xd2
| Xd3
| Xd4
| Xd5
| Xd6
| Xd7
| Xd8
| Xd9
| Xda
| Xdb
| Xdc
| Xdd
| Xde
| Xdf
| Xe0
| Xe1
| Xe2
| Xe3
| Xe4
| Xe5
| Xe6
| Xe7
| Xe8
| Xe9
| Xea
| Xeb
| Xec
| Xed
| Xee
| Xef
| Xf0
| Xf1
| Xf2
| Xf3
| Xf4
| Xf5
| Xf6
| Xf7
| Xf8
| Xf9
| Xfa
| Xfb
| Xfc
| Xfd
| Xfe
| Xff

module Nat =
 struct
  (** val eqb : nat -> nat -> bool **)

  let rec eqb n0 m =
    match n0 with
    | O -> (match m with
            | O -> true
            | S _ -> false)
    | S n' -> (match m with
               | O -> false
               | S m' -> eqb n' m')

  (** val leb : nat -> nat -> bool **)

  let rec leb n0 m =
    match n0 with
    | O -> true
    | S n' -> (match m with
               | O -> false
               | S m' -> leb n' m')

  (** val ltb : nat -> nat -> bool **)

  let ltb n0 m =
    leb (S n0) m
 end

(** val rev : 'a1 list -> 'a1 list **)

let rec rev = function
| [] -> []
| x :: l' -> app (rev l') (x :: [])

(** val map : ('a1 -> 'a2) -> 'a1 list -> 'a2 list **)

let rec map f = function
| [] -> []
| a :: t -> (f a) :: (map f t)

(** val fold_left : ('a1 -> 'a2 -> 'a1) -> 'a2 list -> 'a1 -> 'a1 **)

let rec fold_left f l a0 =
  match l with
  | [] -> a0
  | b :: t -> fold_left f t (f a0 b)

(** val existsb : ('a1 -> bool) -> 'a1 list -> bool **)

let rec existsb f = function
| [] -> false
| a :: l0 -> (||) (f a) (existsb f l0)

(** val skipn : nat -> 'a1 list -> 'a1 list **)

let rec skipn n0 l =
  match n0 with
  | O -> l
  | S n1 -> (match l with
             | [] -> []
             | _ :: l0 -> skipn n1 l0)

type positive =
| XI of positive
| XO of positive
| XH

type n =
| N0
| Npos of positive

type z =
| Z0
| Zpos of positive
| Zneg of positive

module Pos =
 struct
  (** val succ : positive -> positive **)

  let rec succ = function
  | XI p -> XO (succ p)
  | XO p -> XI p
  | XH -> XO XH

  (** val add : positive -> positive -> positive **)

  let rec add x y =
    match x with
    | XI p ->
      (match y with
       | XI q -> XO (add_carry p q)
       | XO q -> XI (add p q)
       | XH -> XO (succ p))
    | XO p ->
      (match y with
       | XI q -> XI (add p q)
       | XO q -> XO (add p q)
       | XH -> XI p)
    | XH -> (match y with
             | XI q -> XO (succ q)
             | XO q -> XI q
             | XH -> XO XH)

  (** val add_carry : positive -> positive -> positive **)

  and add_carry x y =
    match x with
    | XI p ->
      (match y with
       | XI q -> XI (add_carry p q)
       | XO q -> XO (add_carry p q)
       | XH -> XI (succ p))
    | XO p ->
      (match y with
       | XI q -> XO (add_carry p q)
       | XO q -> XI (add p q)
       | XH -> XO (succ p))
    | XH ->
      (match y with
       | XI q -> XI (succ q)
       | XO q -> XO (succ q)
       | XH -> XI XH)

  (** val pred_double : positive -> positive **)

  let rec pred_double = function
  | XI p -> XI (XO p)
  | XO p -> XI (pred_double p)
  | XH -> XH

  (** val compare_cont : comparison -> positive -> positive -> comparison **)

  let rec compare_cont r x y =
    match x with
    | XI p ->
      (match y with
       | XI q -> compare_cont r p q
       | XO q -> compare_cont Gt p q
       | XH -> Gt)
    | XO p ->
      (match y with
       | XI q -> compare_cont Lt p q
       | XO q -> compare_cont r p q
       | XH -> Gt)
    | XH -> (match y with
             | XH -> r
             | _ -> Lt)

  (** val compare : positive -> positive -> comparison **)

  let compare =
    compare_cont Eq

  (** val eqb : positive -> positive -> bool **)

  let rec eqb p q =
    match p with
    | XI p0 -> (match q with
                | XI q0 -> eqb p0 q0
                | _ -> false)
    | XO p0 -> (match q with
                | XO q0 -> eqb p0 q0
                | _ -> false)
    | XH -> (match q with
             | XH -> true
             | _ -> false)
 end

module N =
 struct
  (** val add : n -> n -> n **)

  let add n0 m =
    match n0 with
    | N0 -> m
    | Npos p -> (match m with
                 | N0 -> n0
                 | Npos q -> Npos (Pos.add p q))

  (** val compare : n -> n -> comparison **)

  let compare n0 m =
    match n0 with
    | N0 -> (match m with
             | N0 -> Eq
             | Npos _ -> Lt)
    | Npos n' -> (match m with
                  | N0 -> Gt
                  | Npos m' -> Pos.compare n' m')
 end

(** val to_N : byte -> n **)

let to_N = function
| X00 -> N0
| X01 -> Npos XH
| X02 -> Npos (XO XH)
| X03 -> Npos (XI XH)
| X04 -> Npos (XO (XO XH))
| X05 -> Npos (XI (XO XH))
| X06 -> Npos (XO (XI XH))
| X07 -> Npos (XI (XI XH))
| X08 -> Npos (XO (XO (XO XH)))
| X09 -> Npos (XI (XO (XO XH)))
| X0a -> Npos (XO (XI (XO XH)))
| X0b -> Npos (XI (XI (XO XH)))
| X0c -> Npos (XO (XO (XI XH)))
| X0d -> Npos (XI (XO (XI XH)))
| X0e -> Npos (XO (XI (XI XH)))
| X0f -> Npos (XI (XI (XI XH)))
| X10 -> Npos (XO (XO (XO (XO XH))))
| X11 -> Npos (XI (XO (XO (XO XH))))
| X12 -> Npos (XO (XI (XO (XO XH))))
| X13 -> Npos (XI (XI (XO (XO XH))))
| X14 -> Npos (XO (XO (XI (XO XH))))
| X15 -> Npos (XI (XO (XI (XO XH))))
| X16 -> Npos (XO (XI (XI (XO XH))))
| X17 -> Npos (XI (XI (XI (XO XH))))
| X18 -> Npos (XO (XO (XO (XI XH))))
| X19 -> Npos (XI (XO (XO (XI XH))))
| X1a -> Npos (XO (XI (XO (XI XH))))
| X1b -> Npos (XI (XI (XO (XI XH))))
| X1c -> Npos (XO (XO (XI (XI XH))))
| X1d -> Npos (XI (XO (XI (XI XH))))
| X1e -> Npos (XO (XI (XI (XI XH))))
| X1f -> Npos (XI (XI (XI (XI XH))))
| X20 -> Npos (XO (XO (XO (XO (XO XH)))))
| X21 -> Npos (XI (XO (XO (XO (XO XH)))))
| X22 -> Npos (XO (XI (XO (XO (XO XH)))))
| X23 -> Npos (XI (XI (XO (XO (XO XH)))))
| X24 -> Npos (XO (XO (XI (XO (XO XH)))))
| X25 -> Npos (XI (XO (XI (XO (XO XH)))))
| X26 -> Npos (XO (XI (XI (XO (XO XH)))))
| X27 -> Npos (XI (XI (XI (XO (XO XH)))))
| X28 -> Npos (XO (XO (XO (XI (XO XH)))))
| X29 -> Npos (XI (XO (XO (XI (XO XH)))))
| X2a -> Npos (XO (XI (XO (XI (XO XH)))))
| X2b -> Npos (XI (XI (XO (XI (XO XH)))))
| X2c -> Npos (XO (XO (XI (XI (XO XH)))))
| X2d -> Npos (XI (XO (XI (XI (XO XH)))))
| X2e -> Npos (XO (XI (XI (XI (XO XH)))))
| X2f -> Npos (XI (XI (XI (XI (XO XH)))))
| X30 -> Npos (XO (XO (XO (XO (XI XH)))))
| X31 -> Npos (XI (XO (XO (XO (XI XH)))))
| X32 -> Npos (XO (XI (XO (XO (XI XH)))))
| X33 -> Npos (XI (XI (XO (XO (XI XH)))))
| X34 -> Npos (XO (XO (XI (XO (XI XH)))))
| X35 -> Npos (XI (XO (XI (XO (XI XH)))))
| X36 -> Npos (XO (XI (XI (XO (XI XH)))))
| X37 -> Npos (XI (XI (XI (XO (XI XH)))))
| X38 -> Npos (XO (XO (XO (XI (XI XH)))))
| X39 -> Npos (XI (XO (XO (XI (XI XH)))))
| X3a -> Npos (XO (XI (XO (XI (XI XH)))))
| X3b -> Npos (XI (XI (XO (XI (XI XH)))))
| X3c -> Npos (XO (XO (XI (XI (XI XH)))))
| X3d -> Npos (XI (XO (XI (XI (XI XH)))))
| X3e -> Npos (XO (XI (XI (XI (XI XH)))))
| X3f -> Npos (XI (XI (XI (XI (XI XH)))))
| X40 -> Npos (XO (XO (XO (XO (XO (XO XH))))))
| X41 -> Npos (XI (XO (XO (XO (XO (XO XH))))))
| X42 -> Npos (XO (XI (XO (XO (XO (XO XH))))))
| X43 -> Npos (XI (XI (XO (XO (XO (XO XH))))))
| X44 -> Npos (XO (XO (XI (XO (XO (XO XH))))))
| X45 -> Npos (XI (XO (XI (XO (XO (XO XH))))))
| X46 -> Npos (XO (XI (XI (XO (XO (XO XH))))))
| X47 -> Npos (XI (XI (XI (XO (XO (XO XH))))))
| X48 -> Npos (XO (XO (XO (XI (XO (XO XH))))))
| X49 -> Npos (XI (XO (XO (XI (XO (XO XH))))))
| X4a -> Npos (XO (XI (XO (XI (XO (XO XH))))))
| X4b -> Npos (XI (XI (XO (XI (XO (XO XH))))))
| X4c -> Npos (XO (XO (XI (XI (XO (XO XH))))))
| X4d -> Npos (XI (XO (XI (XI (XO (XO XH))))))
| X4e -> Npos (XO (XI (XI (XI (XO (XO XH))))))
| X4f -> Npos (XI (XI (XI (XI (XO (XO XH))))))
| X50 -> Npos (XO (XO (XO (XO (XI (XO XH))))))
| X51 -> Npos (XI (XO (XO (XO (XI (XO XH))))))
| X52 -> Npos (XO (XI (XO (XO (XI (XO XH))))))
| X53 -> Npos (XI (XI (XO (XO (XI (XO XH))))))
| X54 -> Npos (XO (XO (XI (XO (XI (XO XH))))))
| X55 -> Npos (XI (XO (XI (XO (XI (XO XH))))))
| X56 -> Npos (XO (XI (XI (XO (XI (XO XH))))))
| X57 -> Npos (XI (XI (XI (XO (XI (XO XH))))))
| X58 -> Npos (XO (XO (XO (XI (XI (XO XH))))))
| X59 -> Npos (XI (XO (XO (XI (XI (XO XH))))))
| X5a -> Npos (XO (XI (XO (XI (XI (XO XH))))))
| X5b -> Npos (XI (XI (XO (XI (XI (XO XH))))))
| X5c -> Npos (XO (XO (XI (XI (XI (XO XH))))))
| X5d -> Npos (XI (XO (XI (XI (XI (XO XH))))))
| X5e -> Npos (XO (XI (XI (XI (XI (XO XH))))))
| X5f -> Npos (XI (XI (XI (XI (XI (XO XH))))))
| X60 -> Npos (XO (XO (XO (XO (XO (XI XH))))))
| X61 -> Npos (XI (XO (XO (XO (XO (XI XH))))))
| X62 -> Npos (XO (XI (XO (XO (XO (XI XH))))))
| X63 -> Npos (XI (XI (XO (XO (XO (XI XH))))))
| X64 -> Npos (XO (XO (XI (XO (XO (XI XH))))))
| X65 -> Npos (XI (XO (XI (XO (XO (XI XH))))))
| X66 -> Npos (XO (XI (XI (XO (XO (XI XH))))))
| X67 -> Npos (XI (XI (XI (XO (XO (XI XH))))))
| X68 -> Npos (XO (XO (XO (XI (XO (XI XH))))))
| X69 -> Npos (XI (XO (XO (XI (XO (XI XH))))))
| X6a -> Npos (XO (XI (XO (XI (XO (XI XH))))))
| X6b -> Npos (XI (XI (XO (XI (XO (XI XH))))))
| X6c -> Npos (XO (XO (XI (XI (XO (XI XH))))))
| X6d -> Npos (XI (XO (XI (XI (XO (XI XH))))))
| X6e -> Npos (XO (XI (XI (XI (XO (XI XH))))))
| X6f -> Npos (XI (XI (XI (XI (XO (XI XH))))))
| X70 -> Npos (XO (XO (XO (XO (XI (XI XH))))))
| X71 -> Npos (XI (XO (XO (XO (XI (XI XH))))))
| X72 -> Npos (XO (XI (XO (XO (XI (XI XH))))))
| X73 -> Npos (XI (XI (XO (XO (XI (XI XH))))))
| X74 -> Npos (XO (XO (XI (XO (XI (XI XH))))))
| X75 -> Npos (XI (XO (XI (XO (XI (XI XH))))))
| X76 -> Npos (XO (XI (XI (XO (XI (XI XH))))))
| X77 -> Npos (XI (XI (XI (XO (XI (XI XH))))))
| X78 -> Npos (XO (XO (XO (XI (XI (XI XH))))))
| X79 -> Npos (XI (XO (XO (XI (XI (XI XH))))))
| X7a -> Npos (XO (XI (XO (XI (XI (XI XH))))))
| X7b -> Npos (XI (XI (XO (XI (XI (XI XH))))))
| X7c -> Npos (XO (XO (XI (XI (XI (XI XH))))))
| X7d -> Npos (XI (XO (XI (XI (XI (XI XH))))))
| X7e -> Npos (XO (XI (XI (XI (XI (XI XH))))))
| X7f -> Npos (XI (XI (XI (XI (XI (XI XH))))))
| X80 -> Npos (XO (XO (XO (XO (XO (XO (XO XH)))))))
| X81 -> Npos (XI (XO (XO (XO (XO (XO (XO XH)))))))
| X82 -> Npos (XO (XI (XO (XO (XO (XO (XO XH)))))))
| X83 -> Npos (XI (XI (XO (XO (XO (XO (XO XH)))))))
| X84 -> Npos (XO (XO (XI (XO (XO (XO (XO XH)))))))
| X85 -> Npos (XI (XO (XI (XO (XO (XO (XO XH)))))))
| X86 -> Npos (XO (XI (XI (XO (XO (XO (XO XH)))))))
| X87 -> Npos (XI (XI (XI (XO (XO (XO (XO XH)))))))
| X88 -> Npos (XO (XO (XO (XI (XO (XO (XO XH)))))))
| X89 -> Npos (XI (XO (XO (XI (XO (XO (XO XH)))))))
| X8a -> Npos (XO (XI (XO (XI (XO (XO (XO XH)))))))
| X8b -> Npos (XI (XI (XO (XI (XO (XO (XO XH)))))))
| X8c -> Npos (XO (XO (XI (XI (XO (XO (XO XH)))))))
| X8d -> Npos (XI (XO (XI (XI (XO (XO (XO XH)))))))
| X8e -> Npos (XO (XI (XI (XI (XO (XO (XO XH)))))))
| X8f -> Npos (XI (XI (XI (XI (XO (XO (XO XH)))))))
| X90 -> Npos (XO (XO (XO (XO (XI (XO (XO XH)))))))
| X91 -> Npos (XI (XO (XO (XO (XI (XO (XO XH)))))))
| X92 -> Npos (XO (XI (XO (XO (XI (XO (XO XH)))))))
| X93 -> Npos (XI (XI (XO (XO (XI (XO (XO XH)))))))
| X94 -> Npos (XO (XO (XI (XO (XI (XO (XO XH)))))))
| X95 -> Npos (XI (XO (XI (XO (XI (XO (XO XH)))))))
| X96 -> Npos (XO (XI (XI (XO (XI (XO (XO XH)))))))
| X97 -> Npos (XI (XI (XI (XO (XI (XO (XO XH)))))))
| X98 -> Npos (XO (XO (XO (XI (XI (XO (XO XH)))))))
| X99 -> Npos (XI (XO (XO (XI (XI (XO (XO XH)))))))
| X9a -> Npos (XO (XI (XO (XI (XI (XO (XO XH)))))))
| X9b -> Npos (XI (XI (XO (XI (XI (XO (XO XH)))))))
| X9c -> Npos (XO (XO (XI (XI (XI (XO (XO XH)))))))
| X9d -> Npos (XI (XO (XI (XI (XI (XO (XO XH)))))))
| X9e -> Npos (XO (XI (XI (XI (XI (XO (XO XH)))))))
| X9f -> Npos (XI (XI (XI (XI (XI (XO (XO XH)))))))
| Xa0 -> Npos (XO (XO (XO (XO (XO (XI (XO XH)))))))
| Xa1 -> Npos (XI (XO (XO (XO (XO (XI (XO XH)))))))
| Xa2 -> Npos (XO (XI (XO (XO (XO (XI (XO XH)))))))
| Xa3 -> Npos (XI (XI (XO (XO (XO (XI (XO XH)))))))
| Xa4 -> Npos (XO (XO (XI (XO (XO (XI (XO XH)))))))
| Xa5 -> Npos (XI (XO (XI (XO (XO (XI (XO XH)))))))
| Xa6 -> Npos (XO (XI (XI (XO (XO (XI (XO XH)))))))
| Xa7 -> Npos (XI (XI (XI (XO (XO (XI (XO XH)))))))
| Xa8 -> Npos (XO (XO (XO (XI (XO (XI (XO XH)))))))
| Xa9 -> Npos (XI (XO (XO (XI (XO (XI (XO XH)))))))
| Xaa -> Npos (XO (XI (XO (XI (XO (XI (XO XH)))))))
| Xab -> Npos (XI (XI (XO (XI (XO (XI (XO XH)))))))
| Xac -> Npos (XO (XO (XI (XI (XO (XI (XO XH)))))))
| Xad -> Npos (XI (XO (XI (XI (XO (XI (XO XH)))))))
| Xae -> Npos (XO (XI (XI (XI (XO (XI (XO XH)))))))
| Xaf -> Npos (XI (XI (XI (XI (XO (XI (XO XH)))))))
| Xb0 -> Npos (XO (XO (XO (XO (XI (XI (XO XH)))))))
| Xb1 -> Npos (XI (XO (XO (XO (XI (XI (XO XH)))))))
| Xb2 -> Npos (XO (XI (XO (XO (XI (XI (XO XH)))))))
| Xb3 -> Npos (XI (XI (XO (XO (XI (XI (XO XH)))))))
| Xb4 -> Npos (XO (XO (XI (XO (XI (XI (XO XH)))))))
| Xb5 -> Npos (XI (XO (XI (XO (XI (XI (XO XH)))))))
| Xb6 -> Npos (XO (XI (XI (XO (XI (XI (XO XH)))))))
| Xb7 -> Npos (XI (XI (XI (XO (XI (XI (XO XH)))))))
| Xb8 -> Npos (XO (XO (XO (XI (XI (XI (XO XH)))))))
| Xb9 -> Npos (XI (XO (XO (XI (XI (XI (XO XH)))))))
| Xba -> Npos (XO (XI (XO (XI (XI (XI (XO XH)))))))
| Xbb -> Npos (XI (XI (XO (XI (XI (XI (XO XH)))))))
| Xbc -> Npos (XO (XO (XI (XI (XI (XI (XO XH)))))))
| Xbd -> Npos (XI (XO (XI (XI (XI (XI (XO XH)))))))
| Xbe -> Npos (XO (XI (XI (XI (XI (XI (XO XH)))))))
| Xbf -> Npos (XI (XI (XI (XI (XI (XI (XO XH)))))))
| Xc0 -> Npos (XO (XO (XO (XO (XO (XO (XI XH)))))))
| Xc1 -> Npos (XI (XO (XO (XO (XO (XO (XI XH)))))))
| Xc2 -> Npos (XO (XI (XO (XO (XO (XO (XI XH)))))))
| Xc3 -> Npos (XI (XI (XO (XO (XO (XO (XI XH)))))))
| Xc4 -> Npos (XO (XO (XI (XO (XO (XO (XI XH)))))))
| Xc5 -> Npos (XI (XO (XI (XO (XO (XO (XI XH)))))))
| Xc6 -> Npos (XO (XI (XI (XO (XO (XO (XI XH)))))))
| Xc7 -> Npos (XI (XI (XI (XO (XO (XO (XI XH)))))))
| Xc8 -> Npos (XO (XO (XO (XI (XO (XO (XI XH)))))))
| Xc9 -> Npos (XI (XO (XO (XI (XO (XO (XI XH)))))))
| Xca -> Npos (XO (XI (XO (XI (XO (XO (XI XH)))))))
| Xcb -> Npos (XI (XI (XO (XI (XO (XO (XI XH)))))))
| Xcc -> Npos (XO (XO (XI (XI (XO (XO (XI XH)))))))
| Xcd -> Npos (XI (XO (XI (XI (XO (XO (XI XH)))))))
| Xce -> Npos (XO (XI (XI (XI (XO (XO (XI XH)))))))
| Xcf -> Npos (XI (XI (XI (XI (XO (XO (XI XH)))))))
| Xd0 -> Npos (XO (XO (XO (XO (XI (XO (XI XH)))))))
| Xd1 -> Npos (XI (XO (XO (XO (XI (XO (XI XH)))))))
| Xd2 -> Npos (XO (XI (XO (XO (XI (XO (XI XH)))))))
| Xd3 -> Npos (XI (XI (XO (XO (XI (XO (XI XH)))))))
| Xd4 -> Npos (XO (XO (XI (XO (XI (XO (XI XH)))))))
| Xd5 -> Npos (XI (XO (XI (XO (XI (XO (XI XH)))))))
| Xd6 -> Npos (XO (XI (XI (XO (XI (XO (XI XH)))))))
| Xd7 -> Npos (XI (XI (XI (XO (XI (XO (XI XH)))))))
| Xd8 -> Npos (XO (XO (XO (XI (XI (XO (XI XH)))))))
| Xd9 -> Npos (XI (XO (XO (XI (XI (XO (XI XH)))))))
| Xda -> Npos (XO (XI (XO (XI (XI (XO (XI XH)))))))
| Xdb -> Npos (XI (XI (XO (XI (XI (XO (XI XH)))))))
| Xdc -> Npos (XO (XO (XI (XI (XI (XO (XI XH)))))))
| Xdd -> Npos (XI (XO (XI (XI (XI (XO (XI XH)))))))
| Xde -> Npos (XO (XI (XI (XI (XI (XO (XI XH)))))))
| Xdf -> Npos (XI (XI (XI (XI (XI (XO (XI XH)))))))
| Xe0 -> Npos (XO (XO (XO (XO (XO (XI (XI XH)))))))
| Xe1 -> Npos (XI (XO (XO (XO (XO (XI (XI XH)))))))
| Xe2 -> Npos (XO (XI (XO (XO (XO (XI (XI XH)))))))
| Xe3 -> Npos (XI (XI (XO (XO (XO (XI (XI XH)))))))
| Xe4 -> Npos (XO (XO (XI (XO (XO (XI (XI XH)))))))
| Xe5 -> Npos (XI (XO (XI (XO (XO (XI (XI XH)))))))
| Xe6 -> Npos (XO (XI (XI (XO (XO (XI (XI XH)))))))
| Xe7 -> Npos (XI (XI (XI (XO (XO (XI (XI XH)))))))
| Xe8 -> Npos (XO (XO (XO (XI (XO (XI (XI XH)))))))
| Xe9 -> Npos (XI (XO (XO (XI (XO (XI (XI XH)))))))
| Xea -> Npos (XO (XI (XO (XI (XO (XI (XI XH)))))))
| Xeb -> Npos (XI (XI (XO (XI (XO (XI (XI XH)))))))
| Xec -> Npos (XO (XO (XI (XI (XO (XI (XI XH)))))))
| Xed -> Npos (XI (XO (XI (XI (XO (XI (XI XH)))))))
| Xee -> Npos (XO (XI (XI (XI (XO (XI (XI XH)))))))
| Xef -> Npos (XI (XI (XI (XI (XO (XI (XI XH)))))))
| Xf0 -> Npos (XO (XO (XO (XO (XI (XI (XI XH)))))))
| Xf1 -> Npos (XI (XO (XO (XO (XI (XI (XI XH)))))))
| Xf2 -> Npos (XO (XI (XO (XO (XI (XI (XI XH)))))))
| Xf3 -> Npos (XI (XI (XO (XO (XI (XI (XI XH)))))))
| Xf4 -> Npos (XO (XO (XI (XO (XI (XI (XI XH)))))))
| Xf5 -> Npos (XI (XO (XI (XO (XI (XI (XI XH)))))))
| Xf6 -> Npos (XO (XI (XI (XO (XI (XI (XI XH)))))))
| Xf7 -> Npos (XI (XI (XI (XO (XI (XI (XI XH)))))))
| Xf8 -> Npos (XO (XO (XO (XI (XI (XI (XI XH)))))))
| Xf9 -> Npos (XI (XO (XO (XI (XI (XI (XI XH)))))))
| Xfa -> Npos (XO (XI (XO (XI (XI (XI (XI XH)))))))
| Xfb -> Npos (XI (XI (XO (XI (XI (XI (XI XH)))))))
| Xfc -> Npos (XO (XO (XI (XI (XI (XI (XI XH)))))))
| Xfd -> Npos (XI (XO (XI (XI (XI (XI (XI XH)))))))
| Xfe -> Npos (XO (XI (XI (XI (XI (XI (XI XH)))))))
| Xff -> Npos (XI (XI (XI (XI (XI (XI (XI XH)))))))

(** val of_N : n -> byte option **)

let of_N = function
| N0 -> Some X00
| Npos p ->
  (match p with
   | XI p0 ->
     (match p0 with
      | XI p1 ->
        (match p1 with
         | XI p2 ->
           (match p2 with
            | XI p3 ->
              (match p3 with
               | XI p4 ->
                 (match p4 with
                  | XI p5 ->
                    (match p5 with
                     | XI p6 -> (match p6 with
                                 | XH -> Some Xff
                                 | _ -> None)
                     | XO p6 -> (match p6 with
                                 | XH -> Some Xbf
                                 | _ -> None)
                     | XH -> Some X7f)
                  | XO p5 ->
                    (match p5 with
                     | XI p6 -> (match p6 with
                                 | XH -> Some Xdf
                                 | _ -> None)
                     | XO p6 -> (match p6 with
                                 | XH -> Some X9f
                                 | _ -> None)
                     | XH -> Some X5f)
                  | XH -> Some X3f)
               | XO p4 ->
                 (match p4 with
                  | XI p5 ->
                    (match p5 with
                     | XI p6 -> (match p6 with
                                 | XH -> Some Xef
                                 | _ -> None)
                     | XO p6 -> (match p6 with
                                 | XH -> Some Xaf
                                 | _ -> None)
                     | XH -> Some X6f)
                  | XO p5 ->
                    (match p5 with
                     | XI p6 -> (match p6 with
                                 | XH -> Some Xcf
                                 | _ -> None)
                     | XO p6 -> (match p6 with
                                 | XH -> Some X8f
                                 | _ -> None)
                     | XH -> Some X4f)
                  | XH -> Some X2f)
               | XH -> Some X1f)
            | XO p3 ->
              (match p3 with
               | XI p4 ->
                 (match p4 with
                  | XI p5 ->
                    (match p5 with
                     | XI p6 -> (match p6 with
                                 | XH -> Some Xf7
                                 | _ -> None)
                     | XO p6 -> (match p6 with
                                 | XH -> Some Xb7
                                 | _ -> None)
                     | XH -> Some X77)
                  | XO p5 ->
                    (match p5 with
                     | XI p6 -> (match p6 with
                                 | XH -> Some Xd7
                                 | _ -> None)
                     | XO p6 -> (match p6 with
                                 | XH -> Some X97
                                 | _ -> None)
                     | XH -> Some X57)
                  | XH -> Some X37)
               | XO p4 ->
                 (match p4 with
                  | XI p5 ->
                    (match p5 with
                     | XI p6 -> (match p6 with
                                 | XH -> Some Xe7
                                 | _ -> None)
                     | XO p6 -> (match p6 with
                                 | XH -> Some Xa7
                                 | _ -> None)
                     | XH -> Some X67)
                  | XO p5 ->
                    (match p5 with
                     | XI p6 -> (match p6 with
                                 | XH -> Some Xc7
                                 | _ -> None)
                     | XO p6 -> (match p6 with
                                 | XH -> Some X87
                                 | _ -> None)
                     | XH -> Some X47)
                  | XH -> Some X27)
               | XH -> Some X17)
            | XH -> Some X0f)
         | XO p2 ->
           (match p2 with
            | XI p3 ->
              (match p3 with
               | XI p4 ->
                 (match p4 with
                  | XI p5 ->
                    (match p5 with
                     | XI p6 -> (match p6 with
                                 | XH -> Some Xfb
                                 | _ -> None)
                     | XO p6 -> (match p6 with
                                 | XH -> Some Xbb
                                 | _ -> None)
                     | XH -> Some X7b)
                  | XO p5 ->
                    (match p5 with
                     | XI p6 -> (match p6 with
                                 | XH -> Some Xdb
                                 | _ -> None)
                     | XO p6 -> (match p6 with
                                 | XH -> Some X9b
                                 | _ -> None)
                     | XH -> Some X5b)
                  | XH -> Some X3b)
               | XO p4 ->
                 (match p4 with
                  | XI p5 ->
                    (match p5 with
                     | XI p6 -> (match p6 with
                                 | XH -> Some Xeb
                                 | _ -> None)
                     | XO p6 -> (match p6 with
                                 | XH -> Some Xab
                                 | _ -> None)
                     | XH -> Some X6b)
                  | XO p5 ->
                    (match p5 with
                     | XI p6 -> (match p6 with
                                 | XH -> Some Xcb
                                 | _ -> None)
                     | XO p6 -> (match p6 with
                                 | XH -> Some X8b
                                 | _ -> None)
                     | XH -> Some X4b)
                  | XH -> Some X2b)
               | XH -> Some X1b)
            | XO p3 ->
              (match p3 with
               | XI p4 ->
                 (match p4 with
                  | XI p5 ->
                    (match p5 with
                     | XI p6 -> (match p6 with
                                 | XH -> Some Xf3
                                 | _ -> None)
                     | XO p6 -> (match p6 with
                                 | XH -> Some Xb3
                                 | _ -> None)
                     | XH -> Some X73)
                  | XO p5 ->
                    (match p5 with
                     | XI p6 -> (match p6 with
                                 | XH -> Some Xd3
                                 | _ -> None)
                     | XO p6 -> (match p6 with
                                 | XH -> Some X93
                                 | _ -> None)
                     | XH -> Some X53)
                  | XH -> Some X33)
               | XO p4 ->
                 (match p4 with
                  | XI p5 ->
                    (match p5 with
                     | XI p6 -> (match p6 with
                                 | XH -> Some Xe3
                                 | _ -> None)
                     | XO p6 -> (match p6 with
                                 | XH -> Some Xa3
                                 | _ -> None)
                     | XH -> Some X63)
                  | XO p5 ->
                    (match p5 with
                     | XI p6 -> (match p6 with
                                 | XH -> Some Xc3
                                 | _ -> None)
                     | XO p6 -> (match p6 with
                                 | XH -> Some X83
                                 | _ -> None)
                     | XH -> Some X43)
                  | XH -> Some X23)
               | XH -> Some X13)
            | XH -> Some X0b)
         | XH -> Some X07)
      | XO p1 ->
        (match p1 with
         | XI p2 ->
           (match p2 with
            | XI p3 ->
              (match p3 with
               | XI p4 ->
                 (match p4 with
                  | XI p5 ->
                    (match p5 with
                     | XI p6 -> (match p6 with
                                 | XH -> Some Xfd
                                 | _ -> None)
                     | XO p6 -> (match p6 with
                                 | XH -> Some Xbd
                                 | _ -> None)
                     | XH -> Some X7d)
                  | XO p5 ->
                    (match p5 with
                     | XI p6 -> (match p6 with
                                 | XH -> Some Xdd
                                 | _ -> None)
                     | XO p6 -> (match p6 with
                                 | XH -> Some X9d
                                 | _ -> None)
                     | XH -> Some X5d)
                  | XH -> Some X3d)
               | XO p4 ->
                 (match p4 with
                  | XI p5 ->
                    (match p5 with
                     | XI p6 -> (match p6 with
                                 | XH -> Some Xed
                                 | _ -> None)
                     | XO p6 -> (match p6 with
                                 | XH -> Some Xad
                                 | _ -> None)
                     | XH -> Some X6d)
                  | XO p5 ->
                    (match p5 with
                     | XI p6 -> (match p6 with
                                 | XH -> Some Xcd
                                 | _ -> None)
                     | XO p6 -> (match p6 with
                                 | XH -> Some X8d
                                 | _ -> None)
                     | XH -> Some X4d)
                  | XH -> Some X2d)
               | XH -> Some X1d)
            | XO p3 ->
              (match p3 with
               | XI p4 ->
                 (match p4 with
                  | XI p5 ->
                    (match p5 with
                     | XI p6 -> (match p6 with
                                 | XH -> Some Xf5
                                 | _ -> None)
                     | XO p6 -> (match p6 with
                                 | XH -> Some Xb5
                                 | _ -> None)
                     | XH -> Some X75)
                  | XO p5 ->
                    (match p5 with
                     | XI p6 -> (match p6 with
                                 | XH -> Some Xd5
                                 | _ -> None)
                     | XO p6 -> (match p6 with
                                 | XH -> Some X95
                                 | _ -> None)
                     | XH -> Some X55)
                  | XH -> Some X35)
               | XO p4 ->
                 (match p4 with
                  | XI p5 ->
                    (match p5 with
                     | XI p6 -> (match p6 with
                                 | XH -> Some Xe5
                                 | _ -> None)
                     | XO p6 -> (match p6 with
                                 | XH -> Some Xa5
                                 | _ -> None)
                     | XH -> Some X65)
                  | XO p5 ->
                    (match p5 with
                     | XI p6 -> (match p6 with
                                 | XH -> Some Xc5
                                 | _ -> None)
                     | XO p6 -> (match p6 with
                                 | XH -> Some X85
                                 | _ -> None)
                     | XH -> Some X45)
                  | XH -> Some X25)
               | XH -> Some X15)
            | XH -> Some X0d)
         | XO p2 ->
           (match p2 with
            | XI p3 ->
              (match p3 with
               | XI p4 ->
                 (match p4 with
                  | XI p5 ->
                    (match p5 with
                     | XI p6 -> (match p6 with
                                 | XH -> Some Xf9
                                 | _ -> None)
                     | XO p6 -> (match p6 with
                                 | XH -> Some Xb9
                                 | _ -> None)
                     | XH -> Some X79)
                  | XO p5 ->
                    (match p5 with
                     | XI p6 -> (match p6 with
                                 | XH -> Some Xd9
                                 | _ -> None)
                     | XO p6 -> (match p6 with
                                 | XH -> Some X99
                                 | _ -> None)
                     | XH -> Some X59)
                  | XH -> Some X39)
               | XO p4 ->
                 (match p4 with
                  | XI p5 ->
                    (match p5 with
                     | XI p6 -> (match p6 with
                                 | XH -> Some Xe9
                                 | _ -> None)
                     | XO p6 -> (match p6 with
                                 | XH -> Some Xa9
                                 | _ -> None)
                     | XH -> Some X69)
                  | XO p5 ->
                    (match p5 with
                     | XI p6 -> (match p6 with
                                 | XH -> Some Xc9
                                 | _ -> None)
                     | XO p6 -> (match p6 with
                                 | XH -> Some X89
                                 | _ -> None)
                     | XH -> Some X49)
                  | XH -> Some X29)
               | XH -> Some X19)
            | XO p3 ->
              (match p3 with
               | XI p4 ->
                 (match p4 with
                  | XI p5 ->
                    (match p5 with
                     | XI p6 -> (match p6 with
                                 | XH -> Some Xf1
                                 | _ -> None)
                     | XO p6 -> (match p6 with
                                 | XH -> Some Xb1
                                 | _ -> None)
                     | XH -> Some X71)
                  | XO p5 ->
                    (match p5 with
                     | XI p6 -> (match p6 with
                                 | XH -> Some Xd1
                                 | _ -> None)
                     | XO p6 -> (match p6 with
                                 | XH -> Some X91
                                 | _ -> None)
                     | XH -> Some X51)
                  | XH -> Some X31)
               | XO p4 ->
                 (match p4 with
                  | XI p5 ->
                    (match p5 with
                     | XI p6 -> (match p6 with
                                 | XH -> Some Xe1
                                 | _ -> None)
                     | XO p6 -> (match p6 with
                                 | XH -> Some Xa1
                                 | _ -> None)
                     | XH -> Some X61)
                  | XO p5 ->
                    (match p5 with
                     | XI p6 -> (match p6 with
                                 | XH -> Some Xc1
                                 | _ -> None)
                     | XO p6 -> (match p6 with
                                 | XH -> Some X81
                                 | _ -> None)
                     | XH -> Some X41)
                  | XH -> Some X21)
               | XH -> Some X11)
            | XH -> Some X09)
         | XH -> Some X05)
      | XH -> Some X03)
   | XO p0 ->
     (match p0 with
      | XI p1 ->
        (match p1 with
         | XI p2 ->
           (match p2 with
            | XI p3 ->
              (match p3 with
               | XI p4 ->
                 (match p4 with
                  | XI p5 ->
                    (match p5 with
                     | XI p6 -> (match p6 with
                                 | XH -> Some Xfe
                                 | _ -> None)
                     | XO p6 -> (match p6 with
                                 | XH -> Some Xbe
                                 | _ -> None)
                     | XH -> Some X7e)
                  | XO p5 ->
                    (match p5 with
                     | XI p6 -> (match p6 with
                                 | XH -> Some Xde
                                 | _ -> None)
                     | XO p6 -> (match p6 with
                                 | XH -> Some X9e
                                 | _ -> None)
                     | XH -> Some X5e)
                  | XH -> Some X3e)
               | XO p4 ->
                 (match p4 with
                  | XI p5 ->
                    (match p5 with
                     | XI p6 -> (match p6 with
                                 | XH -> Some Xee
                                 | _ -> None)
                     | XO p6 -> (match p6 with
                                 | XH -> Some Xae
                                 | _ -> None)
                     | XH -> Some X6e)
                  | XO p5 ->
                    (match p5 with
                     | XI p6 -> (match p6 with
                                 | XH -> Some Xce
                                 | _ -> None)
                     | XO p6 -> (match p6 with
                                 | XH -> Some X8e
                                 | _ -> None)
                     | XH -> Some X4e)
                  | XH -> Some X2e)
               | XH -> Some X1e)
            | XO p3 ->
              (match p3 with
               | XI p4 ->
                 (match p4 with
                  | XI p5 ->
                    (match p5 with
                     | XI p6 -> (match p6 with
                                 | XH -> Some Xf6
                                 | _ -> None)
                     | XO p6 -> (match p6 with
                                 | XH -> Some Xb6
                                 | _ -> None)
                     | XH -> Some X76)
                  | XO p5 ->
                    (match p5 with
                     | XI p6 -> (match p6 with
                                 | XH -> Some Xd6
                                 | _ -> None)
                     | XO p6 -> (match p6 with
                                 | XH -> Some X96
                                 | _ -> None)
                     | XH -> Some X56)
                  | XH -> Some X36)
               | XO p4 ->
                 (match p4 with
                  | XI p5 ->
                    (match p5 with
                     | XI p6 -> (match p6 with
                                 | XH -> Some Xe6
                                 | _ -> None)
                     | XO p6 -> (match p6 with
                                 | XH -> Some Xa6
                                 | _ -> None)
                     | XH -> Some X66)
                  | XO p5 ->
                    (match p5 with
                     | XI p6 -> (match p6 with
                                 | XH -> Some Xc6
                                 | _ -> None)
                     | XO p6 -> (match p6 with
                                 | XH -> Some X86
                                 | _ -> None)
                     | XH -> Some X46)
                  | XH -> Some X26)
               | XH -> Some X16)
            | XH -> Some X0e)
         | XO p2 ->
           (match p2 with
            | XI p3 ->
              (match p3 with
               | XI p4 ->
                 (match p4 with
                  | XI p5 ->
                    (match p5 with
                     | XI p6 -> (match p6 with
                                 | XH -> Some Xfa
                                 | _ -> None)
                     | XO p6 -> (match p6 with
                                 | XH -> Some Xba
                                 | _ -> None)
                     | XH -> Some X7a)
                  | XO p5 ->
                    (match p5 with
                     | XI p6 -> (match p6 with
                                 | XH -> Some Xda
                                 | _ -> None)
                     | XO p6 -> (match p6 with
                                 | XH -> Some X9a
                                 | _ -> None)
                     | XH -> Some X5a)
                  | XH -> Some X3a)
               | XO p4 ->
                 (match p4 with
                  | XI p5 ->
                    (match p5 with
                     | XI p6 -> (match p6 with
                                 | XH -> Some Xea
                                 | _ -> None)
                     | XO p6 -> (match p6 with
                                 | XH -> Some Xaa
                                 | _ -> None)
                     | XH -> Some X6a)
                  | XO p5 ->
                    (match p5 with
                     | XI p6 -> (match p6 with
                                 | XH -> Some Xca
                                 | _ -> None)
                     | XO p6 -> (match p6 with
                                 | XH -> Some X8a
                                 | _ -> None)
                     | XH -> Some X4a)
                  | XH -> Some X2a)
               | XH -> Some X1a)
            | XO p3 ->
              (match p3 with
               | XI p4 ->
                 (match p4 with
                  | XI p5 ->
                    (match p5 with
                     | XI p6 -> (match p6 with
                                 | XH -> Some Xf2
                                 | _ -> None)
                     | XO p6 -> (match p6 with
                                 | XH -> Some Xb2
                                 | _ -> None)
                     | XH -> Some X72)
                  | XO p5 ->
                    (match p5 with
                     | XI p6 -> (match p6 with
                                 | XH -> Some Xd2
                                 | _ -> None)
                     | XO p6 -> (match p6 with
                                 | XH -> Some X92
                                 | _ -> None)
                     | XH -> Some X52)
                  | XH -> Some X32)
               | XO p4 ->
                 (match p4 with
                  | XI p5 ->
                    (match p5 with
                     | XI p6 -> (match p6 with
                                 | XH -> Some Xe2
                                 | _ -> None)
                     | XO p6 -> (match p6 with
                                 | XH -> Some Xa2
                                 | _ -> None)
                     | XH -> Some X62)
                  | XO p5 ->
                    (match p5 with
                     | XI p6 -> (match p6 with
                                 | XH -> Some Xc2
                                 | _ -> None)
                     | XO p6 -> (match p6 with
                                 | XH -> Some X82
                                 | _ -> None)
                     | XH -> Some X42)
                  | XH -> Some X22)
               | XH -> Some X12)
            | XH -> Some X0a)
         | XH -> Some X06)
      | XO p1 ->
        (match p1 with
         | XI p2 ->
           (match p2 with
            | XI p3 ->
              (match p3 with
               | XI p4 ->
                 (match p4 with
                  | XI p5 ->
                    (match p5 with
                     | XI p6 -> (match p6 with
                                 | XH -> Some Xfc
                                 | _ -> None)
                     | XO p6 -> (match p6 with
                                 | XH -> Some Xbc
                                 | _ -> None)
                     | XH -> Some X7c)
                  | XO p5 ->
                    (match p5 with
                     | XI p6 -> (match p6 with
                                 | XH -> Some Xdc
                                 | _ -> None)
                     | XO p6 -> (match p6 with
                                 | XH -> Some X9c
                                 | _ -> None)
                     | XH -> Some X5c)
                  | XH -> Some X3c)
               | XO p4 ->
                 (match p4 with
                  | XI p5 ->
                    (match p5 with
                     | XI p6 -> (match p6 with
                                 | XH -> Some Xec
                                 | _ -> None)
                     | XO p6 -> (match p6 with
                                 | XH -> Some Xac
                                 | _ -> None)
                     | XH -> Some X6c)
                  | XO p5 ->
                    (match p5 with
                     | XI p6 -> (match p6 with
                                 | XH -> Some Xcc
                                 | _ -> None)
                     | XO p6 -> (match p6 with
                                 | XH -> Some X8c
                                 | _ -> None)
                     | XH -> Some X4c)
                  | XH -> Some X2c)
               | XH -> Some X1c)
            | XO p3 ->
              (match p3 with
               | XI p4 ->
                 (match p4 with
                  | XI p5 ->
                    (match p5 with
                     | XI p6 -> (match p6 with
                                 | XH -> Some Xf4
                                 | _ -> None)
                     | XO p6 -> (match p6 with
                                 | XH -> Some Xb4
                                 | _ -> None)
                     | XH -> Some X74)
                  | XO p5 ->
                    (match p5 with
                     | XI p6 -> (match p6 with
                                 | XH -> Some Xd4
                                 | _ -> None)
                     | XO p6 -> (match p6 with
                                 | XH -> Some X94
                                 | _ -> None)
                     | XH -> Some X54)
                  | XH -> Some X34)
               | XO p4 ->
                 (match p4 with
                  | XI p5 ->
                    (match p5 with
                     | XI p6 -> (match p6 with
                                 | XH -> Some Xe4
                                 | _ -> None)
                     | XO p6 -> (match p6 with
                                 | XH -> Some Xa4
                                 | _ -> None)
                     | XH -> Some X64)
                  | XO p5 ->
                    (match p5 with
                     | XI p6 -> (match p6 with
                                 | XH -> Some Xc4
                                 | _ -> None)
                     | XO p6 -> (match p6 with
                                 | XH -> Some X84
                                 | _ -> None)
                     | XH -> Some X44)
                  | XH -> Some X24)
               | XH -> Some X14)
            | XH -> Some X0c)
         | XO p2 ->
           (match p2 with
            | XI p3 ->
              (match p3 with
               | XI p4 ->
                 (match p4 with
                  | XI p5 ->
                    (match p5 with
                     | XI p6 -> (match p6 with
                                 | XH -> Some Xf8
                                 | _ -> None)
                     | XO p6 -> (match p6 with
                                 | XH -> Some Xb8
                                 | _ -> None)
                     | XH -> Some X78)
                  | XO p5 ->
                    (match p5 with
                     | XI p6 -> (match p6 with
                                 | XH -> Some Xd8
                                 | _ -> None)
                     | XO p6 -> (match p6 with
                                 | XH -> Some X98
                                 | _ -> None)
                     | XH -> Some X58)
                  | XH -> Some X38)
               | XO p4 ->
                 (match p4 with
                  | XI p5 ->
                    (match p5 with
                     | XI p6 -> (match p6 with
                                 | XH -> Some Xe8
                                 | _ -> None)
                     | XO p6 -> (match p6 with
                                 | XH -> Some Xa8
                                 | _ -> None)
                     | XH -> Some X68)
                  | XO p5 ->
                    (match p5 with
                     | XI p6 -> (match p6 with
                                 | XH -> Some Xc8
                                 | _ -> None)
                     | XO p6 -> (match p6 with
                                 | XH -> Some X88
                                 | _ -> None)
                     | XH -> Some X48)
                  | XH -> Some X28)
               | XH -> Some X18)
            | XO p3 ->
              (match p3 with
               | XI p4 ->
                 (match p4 with
                  | XI p5 ->
                    (match p5 with
                     | XI p6 -> (match p6 with
                                 | XH -> Some Xf0
                                 | _ -> None)
                     | XO p6 -> (match p6 with
                                 | XH -> Some Xb0
                                 | _ -> None)
                     | XH -> Some X70)
                  | XO p5 ->
                    (match p5 with
                     | XI p6 -> (match p6 with
                                 | XH -> Some Xd0
                                 | _ -> None)
                     | XO p6 -> (match p6 with
                                 | XH -> Some X90
                                 | _ -> None)
                     | XH -> Some X50)
                  | XH -> Some X30)
               | XO p4 ->
                 (match p4 with
                  | XI p5 ->
                    (match p5 with
                     | XI p6 -> (match p6 with
                                 | XH -> Some Xe0
                                 | _ -> None)
                     | XO p6 -> (match p6 with
                                 | XH -> Some Xa0
                                 | _ -> None)
                     | XH -> Some X60)
                  | XO p5 ->
                    (match p5 with
                     | XI p6 -> (match p6 with
                                 | XH -> Some Xc0
                                 | _ -> None)
                     | XO p6 -> (match p6 with
                                 | XH -> Some X80
                                 | _ -> None)
                     | XH -> Some X40)
                  | XH -> Some X20)
               | XH -> Some X10)
            | XH -> Some X08)
         | XH -> Some X04)
      | XH -> Some X02)
   | XH -> Some X01)

module Z =
 struct
  (** val double : z -> z **)

  let double = function
  | Z0 -> Z0
  | Zpos p -> Zpos (XO p)
  | Zneg p -> Zneg (XO p)

  (** val succ_double : z -> z **)

  let succ_double = function
  | Z0 -> Zpos XH
  | Zpos p -> Zpos (XI p)
  | Zneg p -> Zneg (Pos.pred_double p)

  (** val pred_double : z -> z **)

  let pred_double = function
  | Z0 -> Zneg XH
  | Zpos p -> Zpos (Pos.pred_double p)
  | Zneg p -> Zneg (XI p)

  (** val pos_sub : positive -> positive -> z **)

  let rec pos_sub x y =
    match x with
    | XI p ->
      (match y with
       | XI q -> double (pos_sub p q)
       | XO q -> succ_double (pos_sub p q)
       | XH -> Zpos (XO p))
    | XO p ->
      (match y with
       | XI q -> pred_double (pos_sub p q)
       | XO q -> double (pos_sub p q)
       | XH -> Zpos (Pos.pred_double p))
    | XH ->
      (match y with
       | XI q -> Zneg (XO q)
       | XO q -> Zneg (Pos.pred_double q)
       | XH -> Z0)

  (** val add : z -> z -> z **)

  let add x y =
    match x with
    | Z0 -> y
    | Zpos x' ->
      (match y with
       | Z0 -> x
       | Zpos y' -> Zpos (Pos.add x' y')
       | Zneg y' -> pos_sub x' y')
    | Zneg x' ->
      (match y with
       | Z0 -> x
       | Zpos y' -> pos_sub y' x'
       | Zneg y' -> Zneg (Pos.add x' y'))

  (** val opp : z -> z **)

  let opp = function
  | Z0 -> Z0
  | Zpos x0 -> Zneg x0
  | Zneg x0 -> Zpos x0

  (** val sub : z -> z -> z **)

  let sub m n0 =
    add m (opp n0)

  (** val compare : z -> z -> comparison **)

  let compare x y =
    match x with
    | Z0 -> (match y with
             | Z0 -> Eq
             | Zpos _ -> Lt
             | Zneg _ -> Gt)
    | Zpos x' -> (match y with
                  | Zpos y' -> Pos.compare x' y'
                  | _ -> Gt)
    | Zneg x' ->
      (match y with
       | Zneg y' -> compOpp (Pos.compare x' y')
       | _ -> Lt)

  (** val ltb : z -> z -> bool **)

  let ltb x y =
    match compare x y with
    | Lt -> true
    | _ -> false

  (** val eqb : z -> z -> bool **)

  let eqb x y =
    match x with
    | Z0 -> (match y with
             | Z0 -> true
             | _ -> false)
    | Zpos p -> (match y with
                 | Zpos q -> Pos.eqb p q
                 | _ -> false)
    | Zneg p -> (match y with
                 | Zneg q -> Pos.eqb p q
                 | _ -> false)

  (** val min : z -> z -> z **)

  let min n0 m =
    match compare n0 m with
    | Gt -> m
    | _ -> n0
 end

type bytes = byte list

(** val byte_of_N : n -> byte **)

let byte_of_N n0 =
  match of_N n0 with
  | Some b -> b
  | None -> X00

(** val n_of_byte : byte -> n **)

let n_of_byte =
  to_N

type key = bytes

(** val bytes_cmp : bytes -> bytes -> comparison **)

let rec bytes_cmp a b =
  match a with
  | [] -> (match b with
           | [] -> Eq
           | _ :: _ -> Lt)
  | x :: a' ->
    (match b with
     | [] -> Gt
     | y :: b' ->
       (match N.compare (n_of_byte x) (n_of_byte y) with
        | Eq -> bytes_cmp a' b'
        | x0 -> x0))

(** val bytes_eqb : bytes -> bytes -> bool **)

let bytes_eqb a b =
  match bytes_cmp a b with
  | Eq -> true
  | _ -> false

type dval =
| VEnt of z * n
| VNum of n
| VStr

type dict = (key * dval) list

(** val get : dict -> key -> dval option **)

let rec get d k =
  match d with
  | [] -> None
  | p :: r -> let (k', v) = p in if bytes_eqb k k' then Some v else get r k

(** val put : key -> dval -> dict -> dict **)

let rec put k v = function
| [] -> (k, v) :: []
| p :: r ->
  let (k', v') = p in
  (match bytes_cmp k k' with
   | Eq -> (k, v) :: r
   | Lt -> (k, v) :: ((k', v') :: r)
   | Gt -> (k', v') :: (put k v r))

(** val del : key -> dict -> dict **)

let rec del k = function
| [] -> []
| p :: r ->
  let (k', v') = p in
  if bytes_eqb k k' then del k r else (k', v') :: (del k r)

type wop =
| WPut of key * dval
| WDel of key

(** val apply_w : dict -> wop -> dict **)

let apply_w d = function
| WPut (k, v) -> put k v d
| WDel k -> del k d

(** val apply_batch : wop list -> dict -> dict **)

let apply_batch ws d =
  fold_left apply_w ws d

type db = { durable : dict; batch : wop list; in_txn : bool; loaded : bool }

type dbop =
| OOpen
| OClose
| OUpdate of key * dval
| OErase of key
| OBegin
| OCommit
| OAbort

(** val db_write : db -> wop -> db **)

let db_write s w =
  if negb s.loaded
  then s
  else if s.in_txn
       then { durable = s.durable; batch = (app s.batch (w :: [])); in_txn =
              true; loaded = true }
       else { durable = (apply_w s.durable w); batch = s.batch; in_txn =
              false; loaded = true }

(** val db_step : db -> dbop -> db **)

let db_step s = function
| OOpen ->
  if s.loaded
  then s
  else { durable = s.durable; batch = []; in_txn = s.in_txn; loaded = true }
| OClose ->
  if s.loaded
  then { durable = s.durable; batch = s.batch; in_txn = false; loaded =
         false }
  else s
| OUpdate (k, v) -> db_write s (WPut (k, v))
| OErase k -> db_write s (WDel k)
| OBegin ->
  if s.loaded
  then { durable = s.durable; batch = []; in_txn = true; loaded = true }
  else s
| OCommit ->
  if (&&) s.loaded s.in_txn
  then { durable = (apply_batch s.batch s.durable); batch = []; in_txn =
         false; loaded = true }
  else s
| OAbort ->
  if (&&) s.loaded s.in_txn
  then { durable = s.durable; batch = []; in_txn = false; loaded = true }
  else s

(** val db_run : db -> dbop list -> db **)

let db_run s ops =
  fold_left db_step ops s

(** val db0 : dict -> db **)

let db0 d =
  { durable = d; batch = []; in_txn = false; loaded = false }

(** val recover : db -> dict **)

let recover s =
  s.durable

(** val effective : db -> dbop -> bool **)

let effective s o =
  (&&) s.loaded
    (match o with
     | OUpdate (_, _) -> negb s.in_txn
     | OErase _ -> negb s.in_txn
     | OCommit -> s.in_txn
     | _ -> false)

(** val unit_of : db -> dbop -> wop list **)

let unit_of s = function
| OUpdate (k, v) -> (WPut (k, v)) :: []
| OErase k -> (WDel k) :: []
| OCommit -> s.batch
| _ -> []

(** val units_of : db -> dbop list -> wop list list **)

let rec units_of s = function
| [] -> []
| o :: r ->
  app (if effective s o then (unit_of s o) :: [] else [])
    (units_of (db_step s o) r)

(** val closed_count : db -> dbop list -> nat **)

let closed_count s ops =
  length (units_of s ops)

(** val abs_units : dict -> wop list list -> dict **)

let abs_units d us =
  fold_left (fun d0 u -> apply_batch u d0) us d

type dentry = { de_text : bytes; de_custom : bytes; de_code : bytes list }

(** val tab : byte **)

let tab =
  X09

(** val space : byte **)

let space =
  X20

(** val meta_char : byte **)

let meta_char =
  X01

(** val str : n list -> bytes **)

let str l =
  map byte_of_N l

(** val tick_key : key **)

let tick_key =
  meta_char :: (str ((Npos (XI (XI (XI (XI (XO XH)))))) :: ((Npos (XO (XO (XI
                 (XO (XI (XI XH))))))) :: ((Npos (XI (XO (XO (XI (XO (XI
                 XH))))))) :: ((Npos (XI (XI (XO (XO (XO (XI
                 XH))))))) :: ((Npos (XI (XI (XO (XI (XO (XI
                 XH))))))) :: []))))))

(** val db_name_key : key **)

let db_name_key =
  meta_char :: (str ((Npos (XI (XI (XI (XI (XO XH)))))) :: ((Npos (XO (XO (XI
                 (XO (XO (XI XH))))))) :: ((Npos (XO (XI (XO (XO (XO (XI
                 XH))))))) :: ((Npos (XI (XI (XI (XI (XI (XO
                 XH))))))) :: ((Npos (XO (XI (XI (XI (XO (XI
                 XH))))))) :: ((Npos (XI (XO (XO (XO (XO (XI
                 XH))))))) :: ((Npos (XI (XO (XI (XI (XO (XI
                 XH))))))) :: ((Npos (XI (XO (XI (XO (XO (XI
                 XH))))))) :: [])))))))))

(** val rime_version_key : key **)

let rime_version_key =
  meta_char :: (str ((Npos (XI (XI (XI (XI (XO XH)))))) :: ((Npos (XO (XI (XO
                 (XO (XI (XI XH))))))) :: ((Npos (XI (XO (XO (XI (XO (XI
                 XH))))))) :: ((Npos (XI (XO (XI (XI (XO (XI
                 XH))))))) :: ((Npos (XI (XO (XI (XO (XO (XI
                 XH))))))) :: ((Npos (XI (XI (XI (XI (XI (XO
                 XH))))))) :: ((Npos (XO (XI (XI (XO (XI (XI
                 XH))))))) :: ((Npos (XI (XO (XI (XO (XO (XI
                 XH))))))) :: ((Npos (XO (XI (XO (XO (XI (XI
                 XH))))))) :: ((Npos (XI (XI (XO (XO (XI (XI
                 XH))))))) :: ((Npos (XI (XO (XO (XI (XO (XI
                 XH))))))) :: ((Npos (XI (XI (XI (XI (XO (XI
                 XH))))))) :: ((Npos (XO (XI (XI (XI (XO (XI
                 XH))))))) :: []))))))))))))))

(** val db_type_key : key **)

let db_type_key =
  meta_char :: (str ((Npos (XI (XI (XI (XI (XO XH)))))) :: ((Npos (XO (XO (XI
                 (XO (XO (XI XH))))))) :: ((Npos (XO (XI (XO (XO (XO (XI
                 XH))))))) :: ((Npos (XI (XI (XI (XI (XI (XO
                 XH))))))) :: ((Npos (XO (XO (XI (XO (XI (XI
                 XH))))))) :: ((Npos (XI (XO (XO (XI (XI (XI
                 XH))))))) :: ((Npos (XO (XO (XO (XO (XI (XI
                 XH))))))) :: ((Npos (XI (XO (XI (XO (XO (XI
                 XH))))))) :: [])))))))))

(** val user_id_key : key **)

let user_id_key =
  meta_char :: (str ((Npos (XI (XI (XI (XI (XO XH)))))) :: ((Npos (XI (XO (XI
                 (XO (XI (XI XH))))))) :: ((Npos (XI (XI (XO (XO (XI (XI
                 XH))))))) :: ((Npos (XI (XO (XI (XO (XO (XI
                 XH))))))) :: ((Npos (XO (XI (XO (XO (XI (XI
                 XH))))))) :: ((Npos (XI (XI (XI (XI (XI (XO
                 XH))))))) :: ((Npos (XI (XO (XO (XI (XO (XI
                 XH))))))) :: ((Npos (XO (XO (XI (XO (XO (XI
                 XH))))))) :: [])))))))))

(** val translate_code : bytes list -> bytes option **)

let rec translate_code = function
| [] -> Some []
| s :: r ->
  (match s with
   | [] -> None
   | _ :: _ ->
     (match translate_code r with
      | Some t -> Some (app s (space :: t))
      | None -> None))

(** val entry_key : dentry -> key option **)

let entry_key e =
  match match e.de_custom with
        | [] -> translate_code e.de_code
        | b :: l -> Some (b :: l) with
  | Some code_str -> Some (app code_str (tab :: e.de_text))
  | None -> None

(** val old_commits : dval option -> z **)

let old_commits = function
| Some d -> (match d with
             | VEnt (c, _) -> c
             | _ -> Z0)
| None -> Z0

(** val upd_writes : dict -> n -> dentry -> z -> wop list * n **)

let upd_writes d tick e commits =
  match entry_key e with
  | Some k ->
    let c = old_commits (get d k) in
    if Z.ltb Z0 commits
    then let c1 = Z.add (if Z.ltb c Z0 then Z.opp c else c) commits in
         let tick' = N.add tick (Npos XH) in
         (((WPut (tick_key, (VNum tick'))) :: ((WPut (k, (VEnt (c1,
         tick')))) :: [])), tick')
    else if Z.eqb commits Z0
         then (((WPut (k, (VEnt (c, tick)))) :: []), tick)
         else (((WPut (k, (VEnt ((Z.min (Zneg XH) (Z.opp c)),
                tick)))) :: []), tick)
  | None -> ([], tick)

type seg = { sg_rec : bool; sg_conf : bool; sg_entry : dentry;
             sg_elems : dentry list }

type centry = { ce_text : bytes; ce_code : bytes list; ce_elems : dentry list }

(** val ce_empty : centry **)

let ce_empty =
  { ce_text = []; ce_code = []; ce_elems = [] }

(** val ce_append : centry -> seg -> centry **)

let ce_append ce sg =
  { ce_text = (app ce.ce_text sg.sg_entry.de_text); ce_code =
    (app ce.ce_code sg.sg_entry.de_code); ce_elems =
    (app ce.ce_elems sg.sg_elems) }

(** val ce_entry : centry -> dentry **)

let ce_entry ce =
  { de_text = ce.ce_text; de_custom = []; de_code = ce.ce_code }

type tkind =
| KScript
| KTable

(** val enc_prefix : bytes **)

let enc_prefix =
  str ((Npos (XI (XI (XI (XI (XI (XI XH))))))) :: ((Npos (XI (XO (XI (XO (XO
    (XI XH))))))) :: ((Npos (XO (XI (XI (XI (XO (XI XH))))))) :: ((Npos (XI
    (XI (XO (XO (XO (XI XH))))))) :: ((Npos (XI (XI (XI (XI XH))))) :: [])))))

(** val has_prefix : bytes -> bytes -> bool **)

let rec has_prefix p s =
  match p with
  | [] -> true
  | x :: p' ->
    (match s with
     | [] -> false
     | y :: s' -> (&&) (bytes_eqb (x :: []) (y :: [])) (has_prefix p' s'))

(** val bless : dentry -> dentry **)

let bless e =
  if has_prefix enc_prefix e.de_custom
  then { de_text = e.de_text; de_custom =
         (skipn (length enc_prefix) e.de_custom); de_code = e.de_code }
  else e

(** val memorize_calls : tkind -> centry -> (dentry * z) list **)

let memorize_calls kind ce =
  match kind with
  | KScript ->
    app
      (if (&&) (Nat.ltb (S O) (length ce.ce_elems))
            (existsb (fun e -> Nat.ltb (S O) (length e.de_code)) ce.ce_elems)
       then map (fun e -> (e, Z0)) ce.ce_elems
       else []) (((ce_entry ce), (Zpos XH)) :: [])
  | KTable -> map (fun e -> ((bless e), (Zpos XH))) ce.ce_elems

(** val commit_calls : tkind -> seg list -> centry -> (dentry * z) list **)

let rec commit_calls kind segs ce =
  match segs with
  | [] -> []
  | sg :: r ->
    let ce1 = if sg.sg_rec then ce_append ce sg else ce in
    if (||) (negb sg.sg_rec) sg.sg_conf
    then app
           (match ce1.ce_text with
            | [] -> []
            | _ :: _ -> memorize_calls kind ce1)
           (commit_calls kind r ce_empty)
    else commit_calls kind r ce1

(** val calls_writes : dict -> n -> (dentry * z) list -> wop list * n **)

let rec calls_writes d tick = function
| [] -> ([], tick)
| p :: r ->
  let (e, c) = p in
  let (w1, t1) = upd_writes d tick e c in
  let (w2, t2) = calls_writes d t1 r in ((app w1 w2), t2)

(** val commit_writes : dict -> n -> tkind -> seg list -> wop list * n **)

let commit_writes d tick kind segs =
  calls_writes d tick (commit_calls kind segs ce_empty)

type ud = { ud_tick : n; ud_time : z }

type pst = { pdb : db; puds : (nat * ud) list; plog : dbop list }

(** val find_ud : (nat * ud) list -> nat -> ud option **)

let rec find_ud l u =
  match l with
  | [] -> None
  | p :: r -> let (u', x) = p in if Nat.eqb u u' then Some x else find_ud r u

(** val get_ud : (nat * ud) list -> nat -> ud **)

let get_ud l u =
  match find_ud l u with
  | Some x -> x
  | None -> { ud_tick = N0; ud_time = Z0 }

(** val set_ud : (nat * ud) list -> nat -> ud -> (nat * ud) list **)

let rec set_ud l u x =
  match l with
  | [] -> (u, x) :: []
  | p :: r ->
    let (u', x') = p in
    if Nat.eqb u u' then (u, x) :: r else (u', x') :: (set_ud r u x)

(** val remove_ud : (nat * ud) list -> nat -> (nat * ud) list **)

let rec remove_ud l u =
  match l with
  | [] -> []
  | p :: r ->
    let (u', x') = p in
    if Nat.eqb u u' then remove_ud r u else (u', x') :: (remove_ud r u)

(** val set_tick : (nat * ud) list -> nat -> n -> (nat * ud) list **)

let set_tick l u t =
  set_ud l u { ud_tick = t; ud_time = (get_ud l u).ud_time }

(** val set_time : (nat * ud) list -> nat -> z -> (nat * ud) list **)

let set_time l u now =
  set_ud l u { ud_tick = (get_ud l u).ud_tick; ud_time = now }

(** val op_of_wop : wop -> dbop **)

let op_of_wop = function
| WPut (k, v) -> OUpdate (k, v)
| WDel k -> OErase k

(** val issue : pst -> dbop -> pst **)

let issue s o =
  { pdb = (db_step s.pdb o); puds = s.puds; plog = (o :: s.plog) }

(** val issue_w : pst -> wop -> pst **)

let issue_w s w =
  issue s (op_of_wop w)

(** val with_uds : pst -> (nat * ud) list -> pst **)

let with_uds s l =
  { pdb = s.pdb; puds = l; plog = s.plog }

(** val view : db -> dict **)

let view b =
  if b.loaded then b.durable else []

(** val update_entry : pst -> nat -> (dentry * z) -> pst **)

let update_entry s u ec =
  let (ws, tick') =
    upd_writes (view s.pdb) (get_ud s.puds u).ud_tick (fst ec) (snd ec)
  in
  fold_left issue_w ws (with_uds s (set_tick s.puds u tick'))

(** val commit_pending : pst -> pst **)

let commit_pending s =
  if s.pdb.in_txn then issue s OCommit else s

(** val new_transaction : pst -> nat -> z -> pst **)

let new_transaction s u now =
  let s1 = commit_pending s in
  issue (with_uds s1 (set_time s1.puds u now)) OBegin

(** val revert_recent : pst -> nat -> z -> pst * bool **)

let revert_recent s u now =
  if negb s.pdb.in_txn
  then (s, false)
  else if Z.ltb (Zpos (XI XH)) (Z.sub now (get_ud s.puds u).ud_time)
       then (s, false)
       else ((issue s OAbort), ((&&) s.pdb.loaded s.pdb.in_txn))

(** val fetch_tick_val : dict -> n option **)

let fetch_tick_val d =
  match match get d tick_key with
        | Some v -> Some v
        | None -> get d [] with
  | Some d0 -> (match d0 with
                | VNum n0 -> Some n0
                | _ -> None)
  | None -> None

(** val fetch_tick : pst -> nat -> pst * bool **)

let fetch_tick s u =
  match fetch_tick_val (view s.pdb) with
  | Some n0 -> ((with_uds s (set_tick s.puds u n0)), true)
  | None -> (s, false)

(** val metadata_writes : wop list **)

let metadata_writes =
  (WPut (db_name_key, VStr)) :: ((WPut (rime_version_key, VStr)) :: ((WPut
    (db_type_key, VStr)) :: ((WPut (user_id_key, VStr)) :: [])))

(** val db_open : pst -> pst **)

let db_open s =
  let s1 = issue s OOpen in
  (match get (view s1.pdb) db_name_key with
   | Some _ -> s1
   | None -> fold_left issue_w metadata_writes s1)

(** val load : pst -> nat -> pst **)

let load s u =
  let s0 = with_uds s (set_ud s.puds u { ud_tick = N0; ud_time = Z0 }) in
  let s1 = if s0.pdb.loaded then s0 else db_open s0 in
  let (s2, ok) = fetch_tick s1 u in
  if ok then s2 else issue_w s2 (WPut (tick_key, (VNum N0)))

(** val on_commit : pst -> nat -> tkind -> z -> seg list -> pst **)

let on_commit s u kind now segs =
  let s1 = new_transaction s u now in
  fold_left (fun s0 ec -> update_entry s0 u ec)
    (commit_calls kind segs ce_empty) s1

(** val on_key : pst -> nat -> bool -> bool -> z -> pst **)

let on_key s u plain bs now =
  if plain
  then if bs
       then let (s1, ok) = revert_recent s u now in
            if ok then s1 else commit_pending s1
       else commit_pending s
  else s

(** val destroy : pst -> nat -> pst **)

let destroy s u =
  let s1 = if s.pdb.loaded then commit_pending s else s in
  let s2 = with_uds s1 (remove_ud s1.puds u) in
  (match s2.puds with
   | [] -> if s2.pdb.loaded then issue s2 OClose else s2
   | _ :: _ -> s2)

type event =
| ELoad of nat
| EFetchTick of nat
| ECommit of nat * tkind * z * seg list
| EDelete of nat * dentry
| EKey of nat * bool * bool * z
| EFinish of nat
| EDestroy of nat

(** val ev_step : pst -> event -> pst **)

let ev_step s = function
| ELoad u -> load s u
| EFetchTick u -> fst (fetch_tick s u)
| ECommit (u, kind, now, segs) -> on_commit s u kind now segs
| EDelete (u, e0) -> update_entry s u (e0, (Zneg XH))
| EKey (u, plain, bs, now) -> on_key s u plain bs now
| EFinish _ -> commit_pending s
| EDestroy u -> destroy s u

(** val pst0 : dict -> pst **)

let pst0 d =
  { pdb = (db0 d); puds = []; plog = [] }

(** val run_events : dict -> event list -> pst **)

let run_events d h =
  fold_left ev_step h (pst0 d)

(** val ops_of : dict -> event list -> dbop list **)

let ops_of d h =
  rev (run_events d h).plog

type sst = { s_dict : dict; s_pend : wop list option; s_loaded : bool;
             s_uds : (nat * ud) list }

(** val s_view : sst -> dict **)

let s_view st =
  if st.s_loaded then st.s_dict else []

(** val spec_writes : sst -> wop list -> sst * wop list list **)

let spec_writes st ws =
  if negb st.s_loaded
  then (st, [])
  else (match st.s_pend with
        | Some b ->
          ({ s_dict = st.s_dict; s_pend = (Some (app b ws)); s_loaded = true;
            s_uds = st.s_uds }, [])
        | None ->
          ({ s_dict = (apply_batch ws st.s_dict); s_pend = None; s_loaded =
            true; s_uds = st.s_uds }, (map (fun w -> w :: []) ws)))

(** val spec_flush : sst -> sst * wop list list **)

let spec_flush st =
  match st.s_pend with
  | Some b ->
    ({ s_dict = (apply_batch b st.s_dict); s_pend = None; s_loaded =
      st.s_loaded; s_uds = st.s_uds }, (b :: []))
  | None -> (st, [])

(** val spec_with_uds : sst -> (nat * ud) list -> sst **)

let spec_with_uds st l =
  { s_dict = st.s_dict; s_pend = st.s_pend; s_loaded = st.s_loaded; s_uds =
    l }

(** val spec_fetch_tick : sst -> nat -> sst * bool **)

let spec_fetch_tick st u =
  match fetch_tick_val (s_view st) with
  | Some n0 -> ((spec_with_uds st (set_tick st.s_uds u n0)), true)
  | None -> (st, false)

(** val spec_step : sst -> event -> sst * wop list list **)

let spec_step st = function
| ELoad u ->
  let st0 =
    spec_with_uds st (set_ud st.s_uds u { ud_tick = N0; ud_time = Z0 })
  in
  let (st1, us1) =
    if st0.s_loaded
    then (st0, [])
    else let o = { s_dict = st0.s_dict; s_pend = st0.s_pend; s_loaded = true;
           s_uds = st0.s_uds }
         in
         (match get st0.s_dict db_name_key with
          | Some _ -> (o, [])
          | None -> spec_writes o metadata_writes)
  in
  let (st2, ok) = spec_fetch_tick st1 u in
  if ok
  then (st2, us1)
  else let (st3, us3) = spec_writes st2 ((WPut (tick_key, (VNum N0))) :: [])
       in
       (st3, (app us1 us3))
| EFetchTick u -> ((fst (spec_fetch_tick st u)), [])
| ECommit (u, kind, now, segs) ->
  let (st1, us) = spec_flush st in
  let (ws, tick') =
    commit_writes (s_view st1) (get_ud st1.s_uds u).ud_tick kind segs
  in
  let uds' = set_tick (set_time st1.s_uds u now) u tick' in
  ({ s_dict = st1.s_dict; s_pend = (if st1.s_loaded then Some ws else None);
  s_loaded = st1.s_loaded; s_uds = uds' }, us)
| EDelete (u, e0) ->
  let (ws, tick') =
    upd_writes (s_view st) (get_ud st.s_uds u).ud_tick e0 (Zneg XH)
  in
  spec_writes (spec_with_uds st (set_tick st.s_uds u tick')) ws
| EKey (u, plain, bs, now) ->
  if plain
  then if (&&)
            ((&&) bs (match st.s_pend with
                      | Some _ -> true
                      | None -> false))
            (negb
              (Z.ltb (Zpos (XI XH)) (Z.sub now (get_ud st.s_uds u).ud_time)))
       then ({ s_dict = st.s_dict; s_pend = None; s_loaded = st.s_loaded;
              s_uds = st.s_uds }, [])
       else spec_flush st
  else (st, [])
| EFinish _ -> spec_flush st
| EDestroy u ->
  let (st1, us) = spec_flush st in
  let uds' = remove_ud st1.s_uds u in
  ({ s_dict = st1.s_dict; s_pend = st1.s_pend; s_loaded =
  (match uds' with
   | [] -> false
   | _ :: _ -> st1.s_loaded); s_uds = uds' }, us)

(** val spec_run : sst -> event list -> sst * wop list list **)

let rec spec_run st = function
| [] -> (st, [])
| e :: r ->
  let (st1, us1) = spec_step st e in
  let (st2, us2) = spec_run st1 r in (st2, (app us1 us2))

(** val sst0 : dict -> sst **)

let sst0 d =
  { s_dict = d; s_pend = None; s_loaded = false; s_uds = [] }

(** val spec_units : dict -> event list -> wop list list **)

let spec_units d h =
  snd (spec_run (sst0 d) h)

(** val reopen : dict -> dict **)

let reopen d =
  (load (pst0 d) O).pdb.durable
