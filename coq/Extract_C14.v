(** Extraction of the C14 models (ExtrOcamlBasic only). *)
From Coq Require Extraction.
From Coq Require ExtrOcamlBasic.
From RimeV Require Import Base.Bytes CfgC.Str CfgC.Tree CfgC.Spec CfgC.Impl CfgC.TermProofs.
Extraction "c14_model.ml" byte_of_N N_of_byte spec_link compile_spec compile_impl resource_tree loaded_ids relink to_resource_id fuel_bound.
