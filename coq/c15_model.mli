
val negb : bool -> bool

type nat =
| O
| S of nat

val fst : ('a1 * 'a2) -> 'a1

val snd : ('a1 * 'a2) -> 'a2

val app : 'a1 list -> 'a1 list -> 'a1 list

val sub : nat -> nat -> nat

type positive =
| XI of positive
| XO of positive
| XH

type n =
| N0
| Npos of positive

val eqb : bool -> bool -> bool

module Nat :
 sig
  val eqb : nat -> nat -> bool

  val leb : nat -> nat -> bool
 end

module Pos :
 sig
  val succ : positive -> positive

  val of_succ_nat : nat -> positive
 end

module N :
 sig
  val of_nat : nat -> n
 end

val nth : nat -> 'a1 list -> 'a1 -> 'a1

val nth_error : 'a1 list -> nat -> 'a1 option

val map : ('a1 -> 'a2) -> 'a1 list -> 'a2 list

val existsb : ('a1 -> bool) -> 'a1 list -> bool

val forallb : ('a1 -> bool) -> 'a1 list -> bool

val filter : ('a1 -> bool) -> 'a1 list -> 'a1 list

type ascii =
| Ascii of bool * bool * bool * bool * bool * bool * bool * bool

val eqb0 : ascii -> ascii -> bool

type string =
| EmptyString
| String of ascii * string

val eqb1 : string -> string -> bool

type akind =
| ARead
| AWrite
| ACall
| AUnknown

type acc_row = { a_fn : string; a_var : string; a_kind : akind;
                 a_locks : string list }

val akind_eqb : akind -> akind -> bool

val has_lock : string -> acc_row -> bool

val rows : acc_row list -> string -> acc_row list

val rows_var : acc_row list -> string -> string -> acc_row list

val all_locked : string -> acc_row list -> bool

val dMUTEX : string

val sMUTEX : string

val vQUEUE : string

val vHANDLER : string

val vSINK : string

val vRUNNING : string

val vMM : string

val vWORK : string

type handover =
| HFuture
| HFlag
| HUnrecognised

val handover_eqb : handover -> handover -> bool

type cfg = { lk_sched : bool; lk_next : bool; lk_hasp : bool; lk_set : 
             bool; lk_clear : bool; lk_ntest : bool; lk_ncall : bool;
             ho : handover }

val nw : cfg -> bool

val nth_locked : acc_row list -> nat -> string -> bool

val shape : acc_row list -> string -> (string * akind) list

val pair_eqb : (string * akind) -> (string * akind) -> bool

val list_eqb : ('a1 -> 'a1 -> bool) -> 'a1 list -> 'a1 list -> bool

val expected_shapes : (string * (string * akind) list) list

val expected_shapes_future : (string * (string * akind) list) list

val expected_shapes_flag : (string * (string * akind) list) list

val shapes_match :
  acc_row list -> (string * (string * akind) list) list -> bool

val flag_locked : acc_row list -> bool

val no_flag : acc_row list -> bool

val handover_of_table : acc_row list -> handover

val table_shape_ok : acc_row list -> bool

val cfg_of_table : acc_row list -> cfg

type tid =
| Client
| Worker

val tid_eqb : tid -> tid -> bool

type fut =
| FNone
| FRunning
| FReturned
| FReady

type outcome =
| OOk
| OFail
| OThrow

val outcome_ok : outcome -> bool

type task = nat * outcome

type msg =
| MStart
| MResult

type npc =
| N1
| N2
| N3
| N4

type wpc =
| WEnter
| WN of msg * npc
| WNext
| WBody of nat * outcome
| WHasP
| WRet
| WThrow
| WFin

type call =
| CStartMaint of outcome list
| CSyncUser of outcome list
| CIsMaint
| CJoin
| CCreate
| CProcessKey of nat
| CGetContext of nat
| CFind of nat
| CDestroy of nat
| CSetHandler of bool
| CPlan of outcome

type kont =
| KMaint
| KSync

type sop =
| OpKey
| OpCtx
| OpFind

type cpc =
| CIdle
| CSched of outcome list * kont
| CSW0 of kont
| CSW1 of kont
| CSW2 of kont
| CSW3 of kont
| CSW4 of kont
| CCreate1
| CGet1 of sop * nat

type rname =
| RStartMaint
| RSyncUser
| RIsMaint
| RJoin
| RCreate
| RKey
| RCtx
| RFind
| RDestroy
| RSetHandler
| RPlan

type nmsg =
| NStart
| NSuccess
| NFailure

type event =
| ERet of rname * nat
| ENotify of nmsg
| EHEnter of nat
| EHLeave
| ESched of nat
| EExec of nat
| EAccept
| ESpawn
| EDone
| EBadCall
| EJoinThrow

type state = { queue : task list; mm : bool; running : bool; work : fut;
               wexc : bool; started : bool; sessions : nat list;
               next_sid : nat; created : nat list; handler : bool;
               hgen : nat; hplan : outcome list; smutex : tid option;
               next_task : nat; wfail : bool; wpcs : wpc option; cpcs : 
               cpc; script : call list; log : event list }

val log : state -> event list

val set_queue : task list -> state -> state

val set_mm : bool -> state -> state

val set_running : bool -> state -> state

val set_work : fut -> state -> state

val set_wexc : bool -> state -> state

val set_sessions : nat list -> state -> state

val set_next_sid : nat -> state -> state

val set_created : nat list -> state -> state

val set_handler : bool -> state -> state

val set_hgen : nat -> state -> state

val set_hplan : outcome list -> state -> state

val set_smutex : tid option -> state -> state

val set_next_task : nat -> state -> state

val set_wfail : bool -> state -> state

val set_wpcs : wpc option -> state -> state

val set_cpcs : cpc -> state -> state

val set_script : call list -> state -> state

val set_log : event list -> state -> state

val emit : event -> state -> state

val init : bool -> call list -> state

val working : state -> bool

val is_maint : state -> bool

val disabled : state -> bool

val b2n : bool -> nat

val free_for : state -> bool -> bool

val mem : nat -> nat list -> bool

val remove_nat : nat -> nat list -> nat list

val after_notify : msg -> wpc

val release_w : state -> state

val step_worker : cfg -> state -> state option

val after_sched : outcome list -> kont -> cpc

val finish : kont -> bool -> state -> state

val sid_of : state -> nat -> nat

val ret_of : sop -> rname

val get_session : sop -> nat -> state -> state

val step_call : cfg -> call -> state -> state option

val step_client : cfg -> state -> state option

val step : cfg -> state -> tid -> state option

val w_yield : wpc -> bool

val c_yield : cpc -> bool

val at_yield : state -> tid -> bool

val run_to_yield : cfg -> nat -> state -> tid -> state option

val macro : cfg -> state -> tid -> state option

val run_macro : cfg -> state -> tid list -> state option

val enabled : cfg -> state -> tid -> bool

val enum : cfg -> nat -> nat -> tid -> state -> tid list list

val w_acc : acc_row list -> state -> acc_row list

val disabled_rows : acc_row list -> acc_row list

val call_acc : acc_row list -> call -> acc_row list

val tbl_flag : acc_row list -> bool

val c_acc : acc_row list -> state -> acc_row list

val is_data : acc_row -> bool

val is_write : acc_row -> bool

val share_lock : acc_row -> acc_row -> bool

val conflict : acc_row -> acc_row -> bool

val race_state : acc_row list -> state -> bool

val rep : nat -> 'a1 -> 'a1 list

val witness_window_script : call list

val witness_window_sched : tid list

val witness_window_sm_script : call list

val witness_closed_sched : tid list

val witness_seen_sched : tid list

val witness_badcall_script : call list

val witness_badcall_sched : tid list

val witness_race_sched : tid list

val lock_scopes : acc_row list

val handover_fact : handover
