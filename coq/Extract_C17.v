(** Extraction of the C17 model (ExtrOcamlBasic only). *)
From Coq Require Extraction.
From Coq Require ExtrOcamlBasic.
From RimeV Require Import Base.Bytes Udb.Value Udb.Merge Udb.Tsv Udb.Manager Gen.Inits.
Extraction "c17_model.ml" byte_of_N N_of_byte erased_ops unpack_into value0 pack dump get_tick_count find
  step_ret uid_of dict_name create_metadata sink_put sink_meta_put mk_tick mk_user_id mk_db_name mk_db_type ctor_inits_merged_entries.
