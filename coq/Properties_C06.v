(** C06 - stub, replaced once the proofs are in place. *)
From RimeV Require Import Dict.Vocab Dict.TableIx Dict.MFile Gen.Layout.
Theorem C06_index_depth : index_code_max_length = 3%N.
Proof. reflexivity. Qed.
Print Assumptions C06_index_depth.
