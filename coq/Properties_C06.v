(** C06 - a compiled dictionary contains exactly its source entries.
    Property theorems only; each closed by [exact] of a lemma proved in
    Dict/TableProofs.v / Dict/MFileProofs.v, or by computation over the
    generated Gen/Layout.v (struct sizes, size estimate and remap facts of the
    current source). *)
From Coq Require Import List NArith Bool Arith Permutation Sorted.
From RimeV Require Import Base.Bytes Dict.Vocab Dict.TableIx Dict.MFile Dict.TableProofs Dict.MFileProofs Gen.Layout.
Import ListNotations.

(** ** What was translated from the current source is what the model assumes *)

Theorem C06_index_depth : index_code_max_length = 3%N.
Proof. reflexivity. Qed.
Print Assumptions C06_index_depth.

(* every index allocation is a multiple of 4 bytes, no alignment above 4: no padding *)
Theorem C06_layout_ok : layout_ok current_layout = true.
Proof. vm_compute. reflexivity. Qed.
Print Assumptions C06_layout_ok.

(** ** enumerate_build: for every source (any files, columns, rows), walking the built index as the
    decompiler does yields exactly the collected entries - each under its own full code (index code
    followed by extra code), with its text and its weight after the cast - as a multiset. *)
Theorem C06_enumerate_build :
  forall (F : Type) (cast : dec -> F) (sort_original : bool) (files : list (colspec * list bytes)),
  let c := collect_files files in
  let S := length (co_syll c) in
  Permutation (enumerate S (build_head cast S (compile_vocab sort_original c)))
              (map (conv F cast) (map out_of (filter has_code (entries_of c)))).
Proof. exact @enumerate_build_source. Qed.
Print Assumptions C06_enumerate_build.

(** ** ... and the collected entries are exactly the source rows that carry a code:
    nothing invented, *)
Theorem C06_nothing_invented :
  forall files r, In r (co_entries (collect_files files)) ->
  exists t cs ws, In (LRow t cs ws) (source_rows files) /\ cs <> [] /\ r = raw_of t cs ws.
Proof. exact source_nothing_invented. Qed.
Print Assumptions C06_nothing_invented.

(** nothing lost (a one-syllable row may be represented by an earlier identical definition of the
    same word - EntryCollector's "duplicate word definition"), *)
Theorem C06_nothing_lost :
  forall files t cs ws, In (LRow t cs ws) (source_rows files) -> cs <> [] ->
  exists r, In r (co_entries (collect_files files)) /\ re_text r = t /\ re_code r = split_skip Byte.x20 cs /\
            (is_single r = false -> r = raw_of t cs ws).
Proof. exact source_nothing_lost. Qed.
Print Assumptions C06_nothing_lost.

(** and rows with a code of two or more syllables are collected one for one, in order. *)
Theorem C06_phrases_one_for_one :
  forall files,
  filter (fun r => negb (is_single r)) (rev (co_entries (collect_files files))) =
  filter (fun r => negb (is_single r)) (flat_map coded (source_rows files)).
Proof. exact source_phrases_one_for_one. Qed.
Print Assumptions C06_phrases_one_for_one.

(** ** The key-sorted invariant behind the binary search: for every source, every trunk array of the
    built index (second and third syllable level) has strictly increasing keys - what
    std::lower_bound in find_node relies on, and what makes the model's lookup by key the same search. *)
Theorem C06_index_keys_sorted :
  forall (F : Type) (cast : dec -> F) (sort_original : bool) (files : list (colspec * list bytes)),
  let c := collect_files files in
  ix_sorted_head F (build_head cast (length (co_syll c)) (compile_vocab sort_original c)).
Proof. exact @index_keys_sorted_source. Qed.
Print Assumptions C06_index_keys_sorted.

(** ** same_code_sorted: unless the source asks for the original order, any two enumerated entries
    with the same code appear in non-increasing weight order (for every monotone cast). *)
Theorem C06_same_code_sorted :
  forall (F : Type) (cast : dec -> F) (fle : F -> F -> bool),
  (forall a b, dec_leb a b = true -> fle (cast a) (cast b) = true) ->
  forall (files : list (colspec * list bytes)),
  let c := collect_files files in
  let S := length (co_syll c) in
  StronglySorted (fun x y => fst x = fst y -> fle (ie_w (snd y)) (ie_w (snd x)) = true)
                 (enumerate S (build_head cast S (compile_vocab false c))).
Proof. exact @same_code_sorted_source. Qed.
Print Assumptions C06_same_code_sorted.

(** ** reverse_lookup_exact: the syllables the reverse table records for a text are exactly the
    one-syllable codes of the collected entries with that text. *)
Theorem C06_reverse_lookup_exact :
  forall (sort_original : bool) (files : list (colspec * list bytes)) (text s : bytes),
  let c := collect_files files in
  In s (rev_codes (co_syll c) (compile_vocab sort_original c) text) <->
  exists r, In r (co_entries c) /\ re_text r = text /\ re_code r = [s].
Proof. exact reverse_lookup_source. Qed.
Print Assumptions C06_reverse_lookup_exact.

(** ** build_never_remaps: if the bytes Table::Build allocates fit the capacity the file was created
    with, the build over the growing mapped file never uses a stale pointer, never remaps, and ends
    with exactly bytes_needed bytes used. *)
Theorem C06_build_never_remaps :
  forall (S NE : nat) (v : voc1) (img c : N),
  estimate current_layout (bf_estimate current_facts) S NE v = Some c ->
  (bytes_needed current_layout S v img <= c)%N ->
  exists s', table_build current_layout current_facts S NE v img = Ok s' /\
             epoch s' = 0 /\ used s' = bytes_needed current_layout S v img /\ cap s' = c.
Proof. intros S NE v img c. exact (table_build_within_estimate current_layout current_facts S NE v img c C06_layout_ok). Qed.
Print Assumptions C06_build_never_remaps.

(** The premise is not vacuous ... *)
Theorem C06_build_within_budget_example :
  let v := witness_voc 60 2 40 in
  exists c, estimate current_layout (EstLinear 4096 32 64) 60 40 v = Some c /\
            (bytes_needed current_layout 60 v 1000 <= c)%N /\
            table_build current_layout
              {| bf_estimate := EstLinear 4096 32 64; bf_growth_doubles := true; bf_rederive_after_image := false |}
              60 40 v 1000 <> Err StalePointer.
Proof. vm_compute. eexists. repeat split; discriminate. Qed.
Print Assumptions C06_build_within_budget_example.

(** ... and it is false for well-formed sources under the linear estimate 4096 + 32 S + 64 N of
    table.cc: n rows with 8-syllable codes and pairwise distinct two-syllable prefixes over 60
    syllables need more, even with an empty string image; the model's build then uses a stale pointer. *)
Definition linear_facts : build_facts :=
  {| bf_estimate := EstLinear 4096 32 64; bf_growth_doubles := true; bf_rederive_after_image := false |}.

Theorem C06_linear_estimate_refuted :
  forallb (fun n =>
    let v := witness_voc 60 8 n in
    match estimate current_layout (EstLinear 4096 32 64) 60 n v with
    | Some c => N.ltb c (bytes_needed current_layout 60 v 0)
    | None => false
    end &&
    match table_build current_layout linear_facts 60 n v 0 with
    | Err StalePointer => true
    | _ => false
    end) [450; 500; 1000; 3000] = true.
Proof. vm_compute. reflexivity. Qed.
Print Assumptions C06_linear_estimate_refuted.

(* sixteen such rows over ten syllables are enough once the string image has its usual minimum
   size of about 4 KB (the reserve of 4096 bytes is what a small marisa trie image takes) *)
Theorem C06_linear_estimate_refuted_small :
  let v := witness_voc 10 8 16 in
  table_build current_layout linear_facts 10 16 v 4000 = Err StalePointer.
Proof. vm_compute. reflexivity. Qed.
Print Assumptions C06_linear_estimate_refuted_small.

(** ** The current source: its estimate contains the exact index size and metadata_ is looked up
    again after the string image is allocated - then Table::Build is sound for every vocabulary and
    every image size. *)
Theorem C06_current_build_facts_sound : facts_sound current_facts = true.
Proof. vm_compute. reflexivity. Qed.
Print Assumptions C06_current_build_facts_sound.

Theorem C06_current_build_never_fails :
  forall (S NE : nat) (v : voc1) (img : N),
  exists s', table_build current_layout current_facts S NE v img = Ok s' /\
             used s' = bytes_needed current_layout S v img.
Proof. exact (table_build_sound current_layout current_facts C06_layout_ok C06_current_build_facts_sound). Qed.
Print Assumptions C06_current_build_never_fails.

(** ** Non-vacuity of the enumeration theorems: a concrete three-file-free source with a comment,
    a repeated text, a repeated code and a five-syllable code. *)
Definition example_lines : list bytes :=
  (* "# c" ; "b<TAB>y x<TAB>2" ; "a<TAB>x<TAB>5" ; "c<TAB>x<TAB>7" ; "a<TAB>x y x y x" *)
  [ [Byte.x23; Byte.x20; Byte.x63];
    [Byte.x62; Byte.x09; Byte.x79; Byte.x20; Byte.x78; Byte.x09; Byte.x32];
    [Byte.x61; Byte.x09; Byte.x78; Byte.x09; Byte.x35];
    [Byte.x63; Byte.x09; Byte.x78; Byte.x09; Byte.x37];
    [Byte.x61; Byte.x09; Byte.x78; Byte.x20; Byte.x79; Byte.x20; Byte.x78; Byte.x20; Byte.x79; Byte.x20; Byte.x78] ].

Theorem C06_enumerate_example :
  let files := [({| col_text := Some 0; col_code := Some 1; col_weight := Some 2 |}, example_lines)] in
  let c := collect_files files in
  map (fun o => (fst o, ie_text (snd o)))
      (enumerate (length (co_syll c)) (build_head (fun w => w) (length (co_syll c)) (compile_vocab false c))) =
  [ ([0], [Byte.x63]); ([0], [Byte.x61]); ([0; 1; 0; 1; 0], [Byte.x61]); ([1; 0], [Byte.x62]) ] /\
  rev_codes (co_syll c) (compile_vocab false c) [Byte.x61] = [[Byte.x78]].
Proof. vm_compute. split; reflexivity. Qed.
Print Assumptions C06_enumerate_example.
