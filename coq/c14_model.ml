
(** val negb : bool -> bool **)

let negb = function
| true -> false
| false -> true

type nat =
| O
| S of nat

(** val option_map : ('a1 -> 'a2) -> 'a1 option -> 'a2 option **)

let option_map f = function
| Some a -> Some (f a)
| None -> None

(** val fst : ('a1 * 'a2) -> 'a1 **)

let fst = function
| (x, _) -> x

(** val snd : ('a1 * 'a2) -> 'a2 **)

let snd = function
| (_, y) -> y

(** val length : 'a1 list -> nat **)

let rec length = function
| [] -> O
| _ :: l' -> S (length l')

(** val app : 'a1 list -> 'a1 list -> 'a1 list **)

let rec app l m =
  match l with
  | [] -> m
  | a :: l1 -> a :: (app l1 m)

type comparison =
| Eq
| Lt
| Gt

(** val add : nat -> nat -> nat **)

let rec add n0 m =
  match n0 with
  | O -> m
  | S p -> S (add p m)

(** val mul : nat -> nat -> nat **)

let rec mul n0 m =
  match n0 with
  | O -> O
  | S p -> add m (mul p m)

(** val sub : nat -> nat -> nat **)

let rec sub n0 m =
  match n0 with
  | O -> n0
  | S k -> (match m with
            | O -> n0
            | S l -> sub k l)

(** val max : nat -> nat -> nat **)

let rec max n0 m =
  match n0 with
  | O -> m
  | S n' -> (match m with
             | O -> n0
             | S m' -> S (max n' m'))

type byte =
| X00
| X01
| X02
| X03
| X04
| X05
| X06
| X07
| X08
| X09
| X0a
| X0b
| X0c
| X0d
| X0e
| X0f
| X10
| X11
| X12
| X13
| X14
| X15
| X16
| X17
| X18
| X19
| X1a
| X1b
| X1c
| X1d
| X1e
| X1f
| X20
| X21
| X22
| X23
| X24
| X25
| X26
| X27
| X28
| X29
| X2a
| X2b
| X2c
| X2d
| X2e
| X2f
| X30
| X31
| X32
| X33
| X34
| X35
| X36
| X37
| X38
| X39
| X3a
| X3b
| X3c
| X3d
| X3e
| X3f
| X40
| X41
| X42
| X43
| X44
| X45
| X46
| X47
| X48
| X49
| X4a
| X4b
| X4c
| X4d
| X4e
| X4f
| X50
| X51
| X52
| X53
| X54
| X55
| X56
| X57
| X58
| X59
| X5a
| X5b
| X5c
| X5d
| X5e
| X5f
| X60
| X61
| X62
| X63
| X64
| X65
| X66
| X67
| X68
| X69
| X6a
| X6b
| X6c
| X6d
| X6e
| X6f
| X70
| X71
| X72
| X73
| X74
| X75
| X76
| X77
| X78
| X79
| X7a
| X7b
| X7c
| X7d
| X7e
| X7f
| X80
| X81
| X82
| X83
| X84
| X85
| X86
| X87
| X88
| X89
| X8a
| X8b
| X8c
| X8d
| X8e
| X8f
| X90
| X91
| X92
| X93
| X94
| X95
| X96
| X97
| X98
| X99
| X9a
| X9b
| X9c
| X9d
| X9e
| X9f
| Xa0
| Xa1
| Xa2
| Xa3
| Xa4
| Xa5
| Xa6
| Xa7
| Xa8
| Xa9
| Xaa
| Xab
| Xac
| Xad
| Xae
| Xaf
| Xb0
| Xb1
| Xb2
| Xb3
| Xb4
| Xb5
| Xb6
| Xb7
| Xb8
| Xb9
| Xba
| Xbb
| Xbc
| Xbd
| Xbe
| Xbf
| Xc0
| Xc1
| Xc2
| Xc3
| Xc4
| Xc5
| Xc6
| Xc7
| Xc8
| Xc9
| Xca
| Xcb
| Xcc
| Xcd
| Xce
| Xcf
| Xd0
| Xd1
| Xd2
| Xd3
| Xd4
| Xd5
| Xd6
| Xd7
| Xd8
| Xd9
| Xda
| Xdb
| Xdc
| Xdd
| Xde
| Xdf
| Xe0
| Xe1
| Xe2
| Xe3
| Xe4
| Xe5
| Xe6
| Xe7
| Xe8
| Xe9
| Xea
| Xeb
| Xec
| Xed
| Xee
| Xef
| Xf0
| Xf1
| Xf2
| Xf3
| Xf4
| Xf5
| Xf6
| Xf7
| Xf8
| Xf9
| Xfa
| Xfb
| Xfc
| Xfd
| Xfe
| Xff

(** val to_bits :
    byte -> bool * (bool * (bool * (bool * (bool * (bool * (bool * bool)))))) **)

let to_bits = function
| X00 -> (false, (false, (false, (false, (false, (false, (false, false)))))))
| X01 -> (true, (false, (false, (false, (false, (false, (false, false)))))))
| X02 -> (false, (true, (false, (false, (false, (false, (false, false)))))))
| X03 -> (true, (true, (false, (false, (false, (false, (false, false)))))))
| X04 -> (false, (false, (true, (false, (false, (false, (false, false)))))))
| X05 -> (true, (false, (true, (false, (false, (false, (false, false)))))))
| X06 -> (false, (true, (true, (false, (false, (false, (false, false)))))))
| X07 -> (true, (true, (true, (false, (false, (false, (false, false)))))))
| X08 -> (false, (false, (false, (true, (false, (false, (false, false)))))))
| X09 -> (true, (false, (false, (true, (false, (false, (false, false)))))))
| X0a -> (false, (true, (false, (true, (false, (false, (false, false)))))))
| X0b -> (true, (true, (false, (true, (false, (false, (false, false)))))))
| X0c -> (false, (false, (true, (true, (false, (false, (false, false)))))))
| X0d -> (true, (false, (true, (true, (false, (false, (false, false)))))))
| X0e -> (false, (true, (true, (true, (false, (false, (false, false)))))))
| X0f -> (true, (true, (true, (true, (false, (false, (false, false)))))))
| X10 -> (false, (false, (false, (false, (true, (false, (false, false)))))))
| X11 -> (true, (false, (false, (false, (true, (false, (false, false)))))))
| X12 -> (false, (true, (false, (false, (true, (false, (false, false)))))))
| X13 -> (true, (true, (false, (false, (true, (false, (false, false)))))))
| X14 -> (false, (false, (true, (false, (true, (false, (false, false)))))))
| X15 -> (true, (false, (true, (false, (true, (false, (false, false)))))))
| X16 -> (false, (true, (true, (false, (true, (false, (false, false)))))))
| X17 -> (true, (true, (true, (false, (true, (false, (false, false)))))))
| X18 -> (false, (false, (false, (true, (true, (false, (false, false)))))))
| X19 -> (true, (false, (false, (true, (true, (false, (false, false)))))))
| X1a -> (false, (true, (false, (true, (true, (false, (false, false)))))))
| X1b -> (true, (true, (false, (true, (true, (false, (false, false)))))))
| X1c -> (false, (false, (true, (true, (true, (false, (false, false)))))))
| X1d -> (true, (false, (true, (true, (true, (false, (false, false)))))))
| X1e -> (false, (true, (true, (true, (true, (false, (false, false)))))))
| X1f -> (true, (true, (true, (true, (true, (false, (false, false)))))))
| X20 -> (false, (false, (false, (false, (false, (true, (false, false)))))))
| X21 -> (true, (false, (false, (false, (false, (true, (false, false)))))))
| X22 -> (false, (true, (false, (false, (false, (true, (false, false)))))))
| X23 -> (true, (true, (false, (false, (false, (true, (false, false)))))))
| X24 -> (false, (false, (true, (false, (false, (true, (false, false)))))))
| X25 -> (true, (false, (true, (false, (false, (true, (false, false)))))))
| X26 -> (false, (true, (true, (false, (false, (true, (false, false)))))))
| X27 -> (true, (true, (true, (false, (false, (true, (false, false)))))))
| X28 -> (false, (false, (false, (true, (false, (true, (false, false)))))))
| X29 -> (true, (false, (false, (true, (false, (true, (false, false)))))))
| X2a -> (false, (true, (false, (true, (false, (true, (false, false)))))))
| X2b -> (true, (true, (false, (true, (false, (true, (false, false)))))))
| X2c -> (false, (false, (true, (true, (false, (true, (false, false)))))))
| X2d -> (true, (false, (true, (true, (false, (true, (false, false)))))))
| X2e -> (false, (true, (true, (true, (false, (true, (false, false)))))))
| X2f -> (true, (true, (true, (true, (false, (true, (false, false)))))))
| X30 -> (false, (false, (false, (false, (true, (true, (false, false)))))))
| X31 -> (true, (false, (false, (false, (true, (true, (false, false)))))))
| X32 -> (false, (true, (false, (false, (true, (true, (false, false)))))))
| X33 -> (true, (true, (false, (false, (true, (true, (false, false)))))))
| X34 -> (false, (false, (true, (false, (true, (true, (false, false)))))))
| X35 -> (true, (false, (true, (false, (true, (true, (false, false)))))))
| X36 -> (false, (true, (true, (false, (true, (true, (false, false)))))))
| X37 -> (true, (true, (true, (false, (true, (true, (false, false)))))))
| X38 -> (false, (false, (false, (true, (true, (true, (false, false)))))))
| X39 -> (true, (false, (false, (true, (true, (true, (false, false)))))))
| X3a -> (false, (true, (false, (true, (true, (true, (false, false)))))))
| X3b -> (true, (true, (false, (true, (true, (true, (false, false)))))))
| X3c -> (false, (false, (true, (true, (true, (true, (false, false)))))))
| X3d -> (true, (false, (true, (true, (true, (true, (false, false)))))))
| X3e -> (false, (true, (true, (true, (true, (true, (false, false)))))))
| X3f -> (true, (true, (true, (true, (true, (true, (false, false)))))))
| X40 -> (false, (false, (false, (false, (false, (false, (true, false)))))))
| X41 -> (true, (false, (false, (false, (false, (false, (true, false)))))))
| X42 -> (false, (true, (false, (false, (false, (false, (true, false)))))))
| X43 -> (true, (true, (false, (false, (false, (false, (true, false)))))))
| X44 -> (false, (false, (true, (false, (false, (false, (true, false)))))))
| X45 -> (true, (false, (true, (false, (false, (false, (true, false)))))))
| X46 -> (false, (true, (true, (false, (false, (false, (true, false)))))))
| X47 -> (true, (true, (true, (false, (false, (false, (true, false)))))))
| X48 -> (false, (false, (false, (true, (false, (false, (true, false)))))))
| X49 -> (true, (false, (false, (true, (false, (false, (true, false)))))))
| X4a -> (false, (true, (false, (true, (false, (false, (true, false)))))))
| X4b -> (true, (true, (false, (true, (false, (false, (true, false)))))))
| X4c -> (false, (false, (true, (true, (false, (false, (true, false)))))))
| X4d -> (true, (false, (true, (true, (false, (false, (true, false)))))))
| X4e -> (false, (true, (true, (true, (false, (false, (true, false)))))))
| X4f -> (true, (true, (true, (true, (false, (false, (true, false)))))))
| X50 -> (false, (false, (false, (false, (true, (false, (true, false)))))))
| X51 -> (true, (false, (false, (false, (true, (false, (true, false)))))))
| X52 -> (false, (true, (false, (false, (true, (false, (true, false)))))))
| X53 -> (true, (true, (false, (false, (true, (false, (true, false)))))))
| X54 -> (false, (false, (true, (false, (true, (false, (true, false)))))))
| X55 -> (true, (false, (true, (false, (true, (false, (true, false)))))))
| X56 -> (false, (true, (true, (false, (true, (false, (true, false)))))))
| X57 -> (true, (true, (true, (false, (true, (false, (true, false)))))))
| X58 -> (false, (false, (false, (true, (true, (false, (true, false)))))))
| X59 -> (true, (false, (false, (true, (true, (false, (true, false)))))))
| X5a -> (false, (true, (false, (true, (true, (false, (true, false)))))))
| X5b -> (true, (true, (false, (true, (true, (false, (true, false)))))))
| X5c -> (false, (false, (true, (true, (true, (false, (true, false)))))))
| X5d -> (true, (false, (true, (true, (true, (false, (true, false)))))))
| X5e -> (false, (true, (true, (true, (true, (false, (true, false)))))))
| X5f -> (true, (true, (true, (true, (true, (false, (true, false)))))))
| X60 -> (false, (false, (false, (false, (false, (true, (true, false)))))))
| X61 -> (true, (false, (false, (false, (false, (true, (true, false)))))))
| X62 -> (false, (true, (false, (false, (false, (true, (true, false)))))))
| X63 -> (true, (true, (false, (false, (false, (true, (true, false)))))))
| X64 -> (false, (false, (true, (false, (false, (true, (true, false)))))))
| X65 -> (true, (false, (true, (false, (false, (true, (true, false)))))))
| X66 -> (false, (true, (true, (false, (false, (true, (true, false)))))))
| X67 -> (true, (true, (true, (false, (false, (true, (true, false)))))))
| X68 -> (false, (false, (false, (true, (false, (true, (true, false)))))))
| X69 -> (true, (false, (false, (true, (false, (true, (true, false)))))))
| X6a -> (false, (true, (false, (true, (false, (true, (true, false)))))))
| X6b -> (true, (true, (false, (true, (false, (true, (true, false)))))))
| X6c -> (false, (false, (true, (true, (false, (true, (true, false)))))))
| X6d -> (true, (false, (true, (true, (false, (true, (true, false)))))))
| X6e -> (false, (true, (true, (true, (false, (true, (true, false)))))))
| X6f -> (true, (true, (true, (true, (false, (true, (true, false)))))))
| X70 -> (false, (false, (false, (false, (true, (true, (true, false)))))))
| X71 -> (true, (false, (false, (false, (true, (true, (true, false)))))))
| X72 -> (false, (true, (false, (false, (true, (true, (true, false)))))))
| X73 -> (true, (true, (false, (false, (true, (true, (true, false)))))))
| X74 -> (false, (false, (true, (false, (true, (true, (true, false)))))))
| X75 -> (true, (false, (true, (false, (true, (true, (true, false)))))))
| X76 -> (false, (true, (true, (false, (true, (true, (true, false)))))))
| X77 -> (true, (true, (true, (false, (true, (true, (true, false)))))))
| X78 -> (false, (false, (false, (true, (true, (true, (true, false)))))))
| X79 -> (true, (false, (false, (true, (true, (true, (true, false)))))))
| X7a -> (false, (true, (false, (true, (true, (true, (true, false)))))))
| X7b -> (true, (true, (false, (true, (true, (true, (true, false)))))))
| X7c -> (false, (false, (true, (true, (true, (true, (true, false)))))))
| X7d -> (true, (false, (true, (true, (true, (true, (true, false)))))))
| X7e -> (false, (true, (true, (true, (true, (true, (true, false)))))))
| X7f -> (true, (true, (true, (true, (true, (true, (true, false)))))))
| X80 -> (false, (false, (false, (false, (false, (false, (false, true)))))))
| X81 -> (true, (false, (false, (false, (false, (false, (false, true)))))))
| X82 -> (false, (true, (false, (false, (false, (false, (false, true)))))))
| X83 -> (true, (true, (false, (false, (false, (false, (false, true)))))))
| X84 -> (false, (false, (true, (false, (false, (false, (false, true)))))))
| X85 -> (true, (false, (true, (false, (false, (false, (false, true)))))))
| X86 -> (false, (true, (true, (false, (false, (false, (false, true)))))))
| X87 -> (true, (true, (true, (false, (false, (false, (false, true)))))))
| X88 -> (false, (false, (false, (true, (false, (false, (false, true)))))))
| X89 -> (true, (false, (false, (true, (false, (false, (false, true)))))))
| X8a -> (false, (true, (false, (true, (false, (false, (false, true)))))))
| X8b -> (true, (true, (false, (true, (false, (false, (false, true)))))))
| X8c -> (false, (false, (true, (true, (false, (false, (false, true)))))))
| X8d -> (true, (false, (true, (true, (false, (false, (false, true)))))))
| X8e -> (false, (true, (true, (true, (false, (false, (false, true)))))))
| X8f -> (true, (true, (true, (true, (false, (false, (false, true)))))))
| X90 -> (false, (false, (false, (false, (true, (false, (false, true)))))))
| X91 -> (true, (false, (false, (false, (true, (false, (false, true)))))))
| X92 -> (false, (true, (false, (false, (true, (false, (false, true)))))))
| X93 -> (true, (true, (false, (false, (true, (false, (false, true)))))))
| X94 -> (false, (false, (true, (false, (true, (false, (false, true)))))))
| X95 -> (true, (false, (true, (false, (true, (false, (false, true)))))))
| X96 -> (false, (true, (true, (false, (true, (false, (false, true)))))))
| X97 -> (true, (true, (true, (false, (true, (false, (false, true)))))))
| X98 -> (false, (false, (false, (true, (true, (false, (false, true)))))))
| X99 -> (true, (false, (false, (true, (true, (false, (false, true)))))))
| X9a -> (false, (true, (false, (true, (true, (false, (false, true)))))))
| X9b -> (true, (true, (false, (true, (true, (false, (false, true)))))))
| X9c -> (false, (false, (true, (true, (true, (false, (false, true)))))))
| X9d -> (true, (false, (true, (true, (true, (false, (false, true)))))))
| X9e -> (false, (true, (true, (true, (true, (false, (false, true)))))))
| X9f -> (true, (true, (true, (true, (true, (false, (false, true)))))))
| Xa0 -> (false, (false, (false, (false, (false, (true, (false, true)))))))
| Xa1 -> (true, (false, (false, (false, (false, (true, (false, true)))))))
| Xa2 -> (false, (true, (false, (false, (false, (true, (false, true)))))))
| Xa3 -> (true, (true, (false, (false, (false, (true, (false, true)))))))
| Xa4 -> (false, (false, (true, (false, (false, (true, (false, true)))))))
| Xa5 -> (true, (false, (true, (false, (false, (true, (false, true)))))))
| Xa6 -> (false, (true, (true, (false, (false, (true, (false, true)))))))
| Xa7 -> (true, (true, (true, (false, (false, (true, (false, true)))))))
| Xa8 -> (false, (false, (false, (true, (false, (true, (false, true)))))))
| Xa9 -> (true, (false, (false, (true, (false, (true, (false, true)))))))
| Xaa -> (false, (true, (false, (true, (false, (true, (false, true)))))))
| Xab -> (true, (true, (false, (true, (false, (true, (false, true)))))))
| Xac -> (false, (false, (true, (true, (false, (true, (false, true)))))))
| Xad -> (true, (false, (true, (true, (false, (true, (false, true)))))))
| Xae -> (false, (true, (true, (true, (false, (true, (false, true)))))))
| Xaf -> (true, (true, (true, (true, (false, (true, (false, true)))))))
| Xb0 -> (false, (false, (false, (false, (true, (true, (false, true)))))))
| Xb1 -> (true, (false, (false, (false, (true, (true, (false, true)))))))
| Xb2 -> (false, (true, (false, (false, (true, (true, (false, true)))))))
| Xb3 -> (true, (true, (false, (false, (true, (true, (false, true)))))))
| Xb4 -> (false, (false, (true, (false, (true, (true, (false, true)))))))
| Xb5 -> (true, (false, (true, (false, (true, (true, (false, true)))))))
| Xb6 -> (false, (true, (true, (false, (true, (true, (false, true)))))))
| Xb7 -> (true, (true, (true, (false, (true, (true, (false, true)))))))
| Xb8 -> (false, (false, (false, (true, (true, (true, (false, true)))))))
| Xb9 -> (true, (false, (false, (true, (true, (true, (false, true)))))))
| Xba -> (false, (true, (false, (true, (true, (true, (false, true)))))))
| Xbb -> (true, (true, (false, (true, (true, (true, (false, true)))))))
| Xbc -> (false, (false, (true, (true, (true, (true, (false, true)))))))
| Xbd -> (true, (false, (true, (true, (true, (true, (false, true)))))))
| Xbe -> (false, (true, (true, (true, (true, (true, (false, true)))))))
| Xbf -> (true, (true, (true, (true, (true, (true, (false, true)))))))
| Xc0 -> (false, (false, (false, (false, (false, (false, (true, true)))))))
| Xc1 -> (true, (false, (false, (false, (false, (false, (true, true)))))))
| Xc2 -> (false, (true, (false, (false, (false, (false, (true, true)))))))
| Xc3 -> (true, (true, (false, (false, (false, (false, (true, true)))))))
| Xc4 -> (false, (false, (true, (false, (false, (false, (true, true)))))))
| Xc5 -> (true, (false, (true, (false, (false, (false, (true, true)))))))
| Xc6 -> (false, (true, (true, (false, (false, (false, (true, true)))))))
| Xc7 -> (true, (true, (true, (false, (false, (false, (true, true)))))))
| Xc8 -> (false, (false, (false, (true, (false, (false, (true, true)))))))
| Xc9 -> (true, (false, (false, (true, (false, (false, (true, true)))))))
| Xca -> (false, (true, (false, (true, (false, (false, (true, true)))))))
| Xcb -> (true, (true, (false, (true, (false, (false, (true, true)))))))
| Xcc -> (false, (false, (true, (true, (false, (false, (true, true)))))))
| Xcd -> (true, (false, (true, (true, (false, (false, (true, true)))))))
| Xce -> (false, (true, (true, (true, (false, (false, (true, true)))))))
| Xcf -> (true, (true, (true, (true, (false, (false, (true, true)))))))
| Xd0 -> (false, (false, (false, (false, (true, (false, (true, true)))))))
| Xd1 -> (true, (false, (false, (false, (true, (false, (true, true)))))))
| Xd2 -> (false, (true, (false, (false, (true, (false, (true, true)))))))
| Xd3 -> (true, (true, (false, (false, (true, (false, (true, true)))))))
| Xd4 -> (false, (false, (true, (false, (true, (false, (true, true)))))))
| Xd5 -> (true, (false, (true, (false, (true, (false, (true, true)))))))
| Xd6 -> (false, (true, (true, (false, (true, (false, (true, true)))))))
| Xd7 -> (true, (true, (true, (false, (true, (false, (true, true)))))))
| Xd8 -> (false, (false, (false, (true, (true, (false, (true, true)))))))
| Xd9 -> (true, (false, (false, (true, (true, (false, (true, true)))))))
| Xda -> (false, (true, (false, (true, (true, (false, (true, true)))))))
| Xdb -> (true, (true, (false, (true, (true, (false, (true, true)))))))
| Xdc -> (false, (false, (true, (true, (true, (false, (true, true)))))))
| Xdd -> (true, (false, (true, (true, (true, (false, (true, true)))))))
| Xde -> (false, (true, (true, (true, (true, (false, (true, true)))))))
| Xdf -> (true, (true, (true, (true, (true, (false, (true, true)))))))
| Xe0 -> (false, (false, (false, (false, (false, (true, (true, true)))))))
| Xe1 -> (true, (false, (false, (false, (false, (true, (true, true)))))))
| Xe2 -> (false, (true, (false, (false, (false, (true, (true, true)))))))
| Xe3 -> (true, (true, (false, (false, (false, (true, (true, true)))))))
| Xe4 -> (false, (false, (true, (false, (false, (true, (true, true)))))))
| Xe5 -> (true, (false, (true, (false, (false, (true, (true, true)))))))
| Xe6 -> (false, (true, (true, (false, (false, (true, (true, true)))))))
| Xe7 -> (true, (true, (true, (false, (false, (true, (true, true)))))))
| Xe8 -> (false, (false, (false, (true, (false, (true, (true, true)))))))
| Xe9 -> (true, (false, (false, (true, (false, (true, (true, true)))))))
| Xea -> (false, (true, (false, (true, (false, (true, (true, true)))))))
| Xeb -> (true, (true, (false, (true, (false, (true, (true, true)))))))
| Xec -> (false, (false, (true, (true, (false, (true, (true, true)))))))
| Xed -> (true, (false, (true, (true, (false, (true, (true, true)))))))
| Xee -> (false, (true, (true, (true, (false, (true, (true, true)))))))
| Xef -> (true, (true, (true, (true, (false, (true, (true, true)))))))
| Xf0 -> (false, (false, (false, (false, (true, (true, (true, true)))))))
| Xf1 -> (true, (false, (false, (false, (true, (true, (true, true)))))))
| Xf2 -> (false, (true, (false, (false, (true, (true, (true, true)))))))
| Xf3 -> (true, (true, (false, (false, (true, (true, (true, true)))))))
| Xf4 -> (false, (false, (true, (false, (true, (true, (true, true)))))))
| Xf5 -> (true, (false, (true, (false, (true, (true, (true, true)))))))
| Xf6 -> (false, (true, (true, (false, (true, (true, (true, true)))))))
| Xf7 -> (true, (true, (true, (false, (true, (true, (true, true)))))))
| Xf8 -> (false, (false, (false, (true, (true, (true, (true, true)))))))
| Xf9 -> (true, (false, (false, (true, (true, (true, (true, true)))))))
| Xfa -> (false, (true, (false, (true, (true, (true, (true, true)))))))
| Xfb -> (true, (true, (false, (true, (true, (true, (true, true)))))))
| Xfc -> (false, (false, (true, (true, (true, (true, (true, true)))))))
| Xfd -> (true, (false, (true, (true, (true, (true, (true, true)))))))
| Xfe -> (false, (true, (true, (true, (true, (true, (true, true)))))))
| Xff -> (true, (true, (true, (true, (true, (true, (true, true)))))))

(** val eqb : bool -> bool -> bool **)

let eqb b1 b2 =
  if b1 then b2 else if b2 then false else true

module Nat =
 struct
  (** val sub : nat -> nat -> nat **)

  let rec sub n0 m =
    match n0 with
    | O -> n0
    | S k -> (match m with
              | O -> n0
              | S l -> sub k l)

  (** val eqb : nat -> nat -> bool **)

  let rec eqb n0 m =
    match n0 with
    | O -> (match m with
            | O -> true
            | S _ -> false)
    | S n' -> (match m with
               | O -> false
               | S m' -> eqb n' m')

  (** val leb : nat -> nat -> bool **)

  let rec leb n0 m =
    match n0 with
    | O -> true
    | S n' -> (match m with
               | O -> false
               | S m' -> leb n' m')

  (** val ltb : nat -> nat -> bool **)

  let ltb n0 m =
    leb (S n0) m

  (** val divmod : nat -> nat -> nat -> nat -> nat * nat **)

  let rec divmod x y q u =
    match x with
    | O -> (q, u)
    | S x' ->
      (match u with
       | O -> divmod x' y (S q) y
       | S u' -> divmod x' y q u')

  (** val div : nat -> nat -> nat **)

  let div x y = match y with
  | O -> y
  | S y' -> fst (divmod x y' O y')

  (** val modulo : nat -> nat -> nat **)

  let modulo x = function
  | O -> x
  | S y' -> sub y' (snd (divmod x y' O y'))
 end

(** val tl : 'a1 list -> 'a1 list **)

let tl = function
| [] -> []
| _ :: m -> m

(** val nth : nat -> 'a1 list -> 'a1 -> 'a1 **)

let rec nth n0 l default =
  match n0 with
  | O -> (match l with
          | [] -> default
          | x :: _ -> x)
  | S m -> (match l with
            | [] -> default
            | _ :: t -> nth m t default)

(** val nth_error : 'a1 list -> nat -> 'a1 option **)

let rec nth_error l = function
| O -> (match l with
        | [] -> None
        | x :: _ -> Some x)
| S n1 -> (match l with
           | [] -> None
           | _ :: l0 -> nth_error l0 n1)

(** val last : 'a1 list -> 'a1 -> 'a1 **)

let rec last l d =
  match l with
  | [] -> d
  | a :: l0 -> (match l0 with
                | [] -> a
                | _ :: _ -> last l0 d)

(** val removelast : 'a1 list -> 'a1 list **)

let rec removelast = function
| [] -> []
| a :: l0 -> (match l0 with
              | [] -> []
              | _ :: _ -> a :: (removelast l0))

(** val rev : 'a1 list -> 'a1 list **)

let rec rev = function
| [] -> []
| x :: l' -> app (rev l') (x :: [])

(** val map : ('a1 -> 'a2) -> 'a1 list -> 'a2 list **)

let rec map f = function
| [] -> []
| a :: t -> (f a) :: (map f t)

(** val fold_right : ('a2 -> 'a1 -> 'a1) -> 'a1 -> 'a2 list -> 'a1 **)

let rec fold_right f a0 = function
| [] -> a0
| b :: t -> f b (fold_right f a0 t)

(** val existsb : ('a1 -> bool) -> 'a1 list -> bool **)

let rec existsb f = function
| [] -> false
| a :: l0 -> (||) (f a) (existsb f l0)

(** val forallb : ('a1 -> bool) -> 'a1 list -> bool **)

let rec forallb f = function
| [] -> true
| a :: l0 -> (&&) (f a) (forallb f l0)

(** val filter : ('a1 -> bool) -> 'a1 list -> 'a1 list **)

let rec filter f = function
| [] -> []
| x :: l0 -> if f x then x :: (filter f l0) else filter f l0

(** val firstn : nat -> 'a1 list -> 'a1 list **)

let rec firstn n0 l =
  match n0 with
  | O -> []
  | S n1 -> (match l with
             | [] -> []
             | a :: l0 -> a :: (firstn n1 l0))

(** val skipn : nat -> 'a1 list -> 'a1 list **)

let rec skipn n0 l =
  match n0 with
  | O -> l
  | S n1 -> (match l with
             | [] -> []
             | _ :: l0 -> skipn n1 l0)

(** val repeat : 'a1 -> nat -> 'a1 list **)

let rec repeat x = function
| O -> []
| S k -> x :: (repeat x k)

(** val list_sum : nat list -> nat **)

let list_sum l =
  fold_right add O l

(** val list_max : nat list -> nat **)

let list_max l =
  fold_right max O l

type positive =
| XI of positive
| XO of positive
| XH

type n =
| N0
| Npos of positive

module Pos =
 struct
  (** val succ : positive -> positive **)

  let rec succ = function
  | XI p -> XO (succ p)
  | XO p -> XI p
  | XH -> XO XH

  (** val compare_cont : comparison -> positive -> positive -> comparison **)

  let rec compare_cont r x y =
    match x with
    | XI p ->
      (match y with
       | XI q -> compare_cont r p q
       | XO q -> compare_cont Gt p q
       | XH -> Gt)
    | XO p ->
      (match y with
       | XI q -> compare_cont Lt p q
       | XO q -> compare_cont r p q
       | XH -> Gt)
    | XH -> (match y with
             | XH -> r
             | _ -> Lt)

  (** val compare : positive -> positive -> comparison **)

  let compare =
    compare_cont Eq

  (** val eqb : positive -> positive -> bool **)

  let rec eqb p q =
    match p with
    | XI p0 -> (match q with
                | XI q0 -> eqb p0 q0
                | _ -> false)
    | XO p0 -> (match q with
                | XO q0 -> eqb p0 q0
                | _ -> false)
    | XH -> (match q with
             | XH -> true
             | _ -> false)

  (** val iter_op : ('a1 -> 'a1 -> 'a1) -> positive -> 'a1 -> 'a1 **)

  let rec iter_op op p a =
    match p with
    | XI p0 -> op a (iter_op op p0 (op a a))
    | XO p0 -> iter_op op p0 (op a a)
    | XH -> a

  (** val to_nat : positive -> nat **)

  let to_nat x =
    iter_op add x (S O)

  (** val of_succ_nat : nat -> positive **)

  let rec of_succ_nat = function
  | O -> XH
  | S x -> succ (of_succ_nat x)
 end

module N =
 struct
  (** val compare : n -> n -> comparison **)

  let compare n0 m =
    match n0 with
    | N0 -> (match m with
             | N0 -> Eq
             | Npos _ -> Lt)
    | Npos n' -> (match m with
                  | N0 -> Gt
                  | Npos m' -> Pos.compare n' m')

  (** val eqb : n -> n -> bool **)

  let eqb n0 m =
    match n0 with
    | N0 -> (match m with
             | N0 -> true
             | Npos _ -> false)
    | Npos p -> (match m with
                 | N0 -> false
                 | Npos q -> Pos.eqb p q)

  (** val leb : n -> n -> bool **)

  let leb x y =
    match compare x y with
    | Gt -> false
    | _ -> true

  (** val ltb : n -> n -> bool **)

  let ltb x y =
    match compare x y with
    | Lt -> true
    | _ -> false

  (** val to_nat : n -> nat **)

  let to_nat = function
  | N0 -> O
  | Npos p -> Pos.to_nat p

  (** val of_nat : nat -> n **)

  let of_nat = function
  | O -> N0
  | S n' -> Npos (Pos.of_succ_nat n')
 end

(** val eqb0 : byte -> byte -> bool **)

let eqb0 a b =
  let (a0, p) = to_bits a in
  let (a1, p0) = p in
  let (a2, p1) = p0 in
  let (a3, p2) = p1 in
  let (a4, p3) = p2 in
  let (a5, p4) = p3 in
  let (a6, a7) = p4 in
  let (b0, p5) = to_bits b in
  let (b1, p6) = p5 in
  let (b2, p7) = p6 in
  let (b3, p8) = p7 in
  let (b4, p9) = p8 in
  let (b5, p10) = p9 in
  let (b6, b7) = p10 in
  (&&)
    ((&&)
      ((&&)
        ((&&)
          ((&&) ((&&) ((&&) (eqb a0 b0) (eqb a1 b1)) (eqb a2 b2)) (eqb a3 b3))
          (eqb a4 b4)) (eqb a5 b5)) (eqb a6 b6)) (eqb a7 b7)

(** val to_N : byte -> n **)

let to_N = function
| X00 -> N0
| X01 -> Npos XH
| X02 -> Npos (XO XH)
| X03 -> Npos (XI XH)
| X04 -> Npos (XO (XO XH))
| X05 -> Npos (XI (XO XH))
| X06 -> Npos (XO (XI XH))
| X07 -> Npos (XI (XI XH))
| X08 -> Npos (XO (XO (XO XH)))
| X09 -> Npos (XI (XO (XO XH)))
| X0a -> Npos (XO (XI (XO XH)))
| X0b -> Npos (XI (XI (XO XH)))
| X0c -> Npos (XO (XO (XI XH)))
| X0d -> Npos (XI (XO (XI XH)))
| X0e -> Npos (XO (XI (XI XH)))
| X0f -> Npos (XI (XI (XI XH)))
| X10 -> Npos (XO (XO (XO (XO XH))))
| X11 -> Npos (XI (XO (XO (XO XH))))
| X12 -> Npos (XO (XI (XO (XO XH))))
| X13 -> Npos (XI (XI (XO (XO XH))))
| X14 -> Npos (XO (XO (XI (XO XH))))
| X15 -> Npos (XI (XO (XI (XO XH))))
| X16 -> Npos (XO (XI (XI (XO XH))))
| X17 -> Npos (XI (XI (XI (XO XH))))
| X18 -> Npos (XO (XO (XO (XI XH))))
| X19 -> Npos (XI (XO (XO (XI XH))))
| X1a -> Npos (XO (XI (XO (XI XH))))
| X1b -> Npos (XI (XI (XO (XI XH))))
| X1c -> Npos (XO (XO (XI (XI XH))))
| X1d -> Npos (XI (XO (XI (XI XH))))
| X1e -> Npos (XO (XI (XI (XI XH))))
| X1f -> Npos (XI (XI (XI (XI XH))))
| X20 -> Npos (XO (XO (XO (XO (XO XH)))))
| X21 -> Npos (XI (XO (XO (XO (XO XH)))))
| X22 -> Npos (XO (XI (XO (XO (XO XH)))))
| X23 -> Npos (XI (XI (XO (XO (XO XH)))))
| X24 -> Npos (XO (XO (XI (XO (XO XH)))))
| X25 -> Npos (XI (XO (XI (XO (XO XH)))))
| X26 -> Npos (XO (XI (XI (XO (XO XH)))))
| X27 -> Npos (XI (XI (XI (XO (XO XH)))))
| X28 -> Npos (XO (XO (XO (XI (XO XH)))))
| X29 -> Npos (XI (XO (XO (XI (XO XH)))))
| X2a -> Npos (XO (XI (XO (XI (XO XH)))))
| X2b -> Npos (XI (XI (XO (XI (XO XH)))))
| X2c -> Npos (XO (XO (XI (XI (XO XH)))))
| X2d -> Npos (XI (XO (XI (XI (XO XH)))))
| X2e -> Npos (XO (XI (XI (XI (XO XH)))))
| X2f -> Npos (XI (XI (XI (XI (XO XH)))))
| X30 -> Npos (XO (XO (XO (XO (XI XH)))))
| X31 -> Npos (XI (XO (XO (XO (XI XH)))))
| X32 -> Npos (XO (XI (XO (XO (XI XH)))))
| X33 -> Npos (XI (XI (XO (XO (XI XH)))))
| X34 -> Npos (XO (XO (XI (XO (XI XH)))))
| X35 -> Npos (XI (XO (XI (XO (XI XH)))))
| X36 -> Npos (XO (XI (XI (XO (XI XH)))))
| X37 -> Npos (XI (XI (XI (XO (XI XH)))))
| X38 -> Npos (XO (XO (XO (XI (XI XH)))))
| X39 -> Npos (XI (XO (XO (XI (XI XH)))))
| X3a -> Npos (XO (XI (XO (XI (XI XH)))))
| X3b -> Npos (XI (XI (XO (XI (XI XH)))))
| X3c -> Npos (XO (XO (XI (XI (XI XH)))))
| X3d -> Npos (XI (XO (XI (XI (XI XH)))))
| X3e -> Npos (XO (XI (XI (XI (XI XH)))))
| X3f -> Npos (XI (XI (XI (XI (XI XH)))))
| X40 -> Npos (XO (XO (XO (XO (XO (XO XH))))))
| X41 -> Npos (XI (XO (XO (XO (XO (XO XH))))))
| X42 -> Npos (XO (XI (XO (XO (XO (XO XH))))))
| X43 -> Npos (XI (XI (XO (XO (XO (XO XH))))))
| X44 -> Npos (XO (XO (XI (XO (XO (XO XH))))))
| X45 -> Npos (XI (XO (XI (XO (XO (XO XH))))))
| X46 -> Npos (XO (XI (XI (XO (XO (XO XH))))))
| X47 -> Npos (XI (XI (XI (XO (XO (XO XH))))))
| X48 -> Npos (XO (XO (XO (XI (XO (XO XH))))))
| X49 -> Npos (XI (XO (XO (XI (XO (XO XH))))))
| X4a -> Npos (XO (XI (XO (XI (XO (XO XH))))))
| X4b -> Npos (XI (XI (XO (XI (XO (XO XH))))))
| X4c -> Npos (XO (XO (XI (XI (XO (XO XH))))))
| X4d -> Npos (XI (XO (XI (XI (XO (XO XH))))))
| X4e -> Npos (XO (XI (XI (XI (XO (XO XH))))))
| X4f -> Npos (XI (XI (XI (XI (XO (XO XH))))))
| X50 -> Npos (XO (XO (XO (XO (XI (XO XH))))))
| X51 -> Npos (XI (XO (XO (XO (XI (XO XH))))))
| X52 -> Npos (XO (XI (XO (XO (XI (XO XH))))))
| X53 -> Npos (XI (XI (XO (XO (XI (XO XH))))))
| X54 -> Npos (XO (XO (XI (XO (XI (XO XH))))))
| X55 -> Npos (XI (XO (XI (XO (XI (XO XH))))))
| X56 -> Npos (XO (XI (XI (XO (XI (XO XH))))))
| X57 -> Npos (XI (XI (XI (XO (XI (XO XH))))))
| X58 -> Npos (XO (XO (XO (XI (XI (XO XH))))))
| X59 -> Npos (XI (XO (XO (XI (XI (XO XH))))))
| X5a -> Npos (XO (XI (XO (XI (XI (XO XH))))))
| X5b -> Npos (XI (XI (XO (XI (XI (XO XH))))))
| X5c -> Npos (XO (XO (XI (XI (XI (XO XH))))))
| X5d -> Npos (XI (XO (XI (XI (XI (XO XH))))))
| X5e -> Npos (XO (XI (XI (XI (XI (XO XH))))))
| X5f -> Npos (XI (XI (XI (XI (XI (XO XH))))))
| X60 -> Npos (XO (XO (XO (XO (XO (XI XH))))))
| X61 -> Npos (XI (XO (XO (XO (XO (XI XH))))))
| X62 -> Npos (XO (XI (XO (XO (XO (XI XH))))))
| X63 -> Npos (XI (XI (XO (XO (XO (XI XH))))))
| X64 -> Npos (XO (XO (XI (XO (XO (XI XH))))))
| X65 -> Npos (XI (XO (XI (XO (XO (XI XH))))))
| X66 -> Npos (XO (XI (XI (XO (XO (XI XH))))))
| X67 -> Npos (XI (XI (XI (XO (XO (XI XH))))))
| X68 -> Npos (XO (XO (XO (XI (XO (XI XH))))))
| X69 -> Npos (XI (XO (XO (XI (XO (XI XH))))))
| X6a -> Npos (XO (XI (XO (XI (XO (XI XH))))))
| X6b -> Npos (XI (XI (XO (XI (XO (XI XH))))))
| X6c -> Npos (XO (XO (XI (XI (XO (XI XH))))))
| X6d -> Npos (XI (XO (XI (XI (XO (XI XH))))))
| X6e -> Npos (XO (XI (XI (XI (XO (XI XH))))))
| X6f -> Npos (XI (XI (XI (XI (XO (XI XH))))))
| X70 -> Npos (XO (XO (XO (XO (XI (XI XH))))))
| X71 -> Npos (XI (XO (XO (XO (XI (XI XH))))))
| X72 -> Npos (XO (XI (XO (XO (XI (XI XH))))))
| X73 -> Npos (XI (XI (XO (XO (XI (XI XH))))))
| X74 -> Npos (XO (XO (XI (XO (XI (XI XH))))))
| X75 -> Npos (XI (XO (XI (XO (XI (XI XH))))))
| X76 -> Npos (XO (XI (XI (XO (XI (XI XH))))))
| X77 -> Npos (XI (XI (XI (XO (XI (XI XH))))))
| X78 -> Npos (XO (XO (XO (XI (XI (XI XH))))))
| X79 -> Npos (XI (XO (XO (XI (XI (XI XH))))))
| X7a -> Npos (XO (XI (XO (XI (XI (XI XH))))))
| X7b -> Npos (XI (XI (XO (XI (XI (XI XH))))))
| X7c -> Npos (XO (XO (XI (XI (XI (XI XH))))))
| X7d -> Npos (XI (XO (XI (XI (XI (XI XH))))))
| X7e -> Npos (XO (XI (XI (XI (XI (XI XH))))))
| X7f -> Npos (XI (XI (XI (XI (XI (XI XH))))))
| X80 -> Npos (XO (XO (XO (XO (XO (XO (XO XH)))))))
| X81 -> Npos (XI (XO (XO (XO (XO (XO (XO XH)))))))
| X82 -> Npos (XO (XI (XO (XO (XO (XO (XO XH)))))))
| X83 -> Npos (XI (XI (XO (XO (XO (XO (XO XH)))))))
| X84 -> Npos (XO (XO (XI (XO (XO (XO (XO XH)))))))
| X85 -> Npos (XI (XO (XI (XO (XO (XO (XO XH)))))))
| X86 -> Npos (XO (XI (XI (XO (XO (XO (XO XH)))))))
| X87 -> Npos (XI (XI (XI (XO (XO (XO (XO XH)))))))
| X88 -> Npos (XO (XO (XO (XI (XO (XO (XO XH)))))))
| X89 -> Npos (XI (XO (XO (XI (XO (XO (XO XH)))))))
| X8a -> Npos (XO (XI (XO (XI (XO (XO (XO XH)))))))
| X8b -> Npos (XI (XI (XO (XI (XO (XO (XO XH)))))))
| X8c -> Npos (XO (XO (XI (XI (XO (XO (XO XH)))))))
| X8d -> Npos (XI (XO (XI (XI (XO (XO (XO XH)))))))
| X8e -> Npos (XO (XI (XI (XI (XO (XO (XO XH)))))))
| X8f -> Npos (XI (XI (XI (XI (XO (XO (XO XH)))))))
| X90 -> Npos (XO (XO (XO (XO (XI (XO (XO XH)))))))
| X91 -> Npos (XI (XO (XO (XO (XI (XO (XO XH)))))))
| X92 -> Npos (XO (XI (XO (XO (XI (XO (XO XH)))))))
| X93 -> Npos (XI (XI (XO (XO (XI (XO (XO XH)))))))
| X94 -> Npos (XO (XO (XI (XO (XI (XO (XO XH)))))))
| X95 -> Npos (XI (XO (XI (XO (XI (XO (XO XH)))))))
| X96 -> Npos (XO (XI (XI (XO (XI (XO (XO XH)))))))
| X97 -> Npos (XI (XI (XI (XO (XI (XO (XO XH)))))))
| X98 -> Npos (XO (XO (XO (XI (XI (XO (XO XH)))))))
| X99 -> Npos (XI (XO (XO (XI (XI (XO (XO XH)))))))
| X9a -> Npos (XO (XI (XO (XI (XI (XO (XO XH)))))))
| X9b -> Npos (XI (XI (XO (XI (XI (XO (XO XH)))))))
| X9c -> Npos (XO (XO (XI (XI (XI (XO (XO XH)))))))
| X9d -> Npos (XI (XO (XI (XI (XI (XO (XO XH)))))))
| X9e -> Npos (XO (XI (XI (XI (XI (XO (XO XH)))))))
| X9f -> Npos (XI (XI (XI (XI (XI (XO (XO XH)))))))
| Xa0 -> Npos (XO (XO (XO (XO (XO (XI (XO XH)))))))
| Xa1 -> Npos (XI (XO (XO (XO (XO (XI (XO XH)))))))
| Xa2 -> Npos (XO (XI (XO (XO (XO (XI (XO XH)))))))
| Xa3 -> Npos (XI (XI (XO (XO (XO (XI (XO XH)))))))
| Xa4 -> Npos (XO (XO (XI (XO (XO (XI (XO XH)))))))
| Xa5 -> Npos (XI (XO (XI (XO (XO (XI (XO XH)))))))
| Xa6 -> Npos (XO (XI (XI (XO (XO (XI (XO XH)))))))
| Xa7 -> Npos (XI (XI (XI (XO (XO (XI (XO XH)))))))
| Xa8 -> Npos (XO (XO (XO (XI (XO (XI (XO XH)))))))
| Xa9 -> Npos (XI (XO (XO (XI (XO (XI (XO XH)))))))
| Xaa -> Npos (XO (XI (XO (XI (XO (XI (XO XH)))))))
| Xab -> Npos (XI (XI (XO (XI (XO (XI (XO XH)))))))
| Xac -> Npos (XO (XO (XI (XI (XO (XI (XO XH)))))))
| Xad -> Npos (XI (XO (XI (XI (XO (XI (XO XH)))))))
| Xae -> Npos (XO (XI (XI (XI (XO (XI (XO XH)))))))
| Xaf -> Npos (XI (XI (XI (XI (XO (XI (XO XH)))))))
| Xb0 -> Npos (XO (XO (XO (XO (XI (XI (XO XH)))))))
| Xb1 -> Npos (XI (XO (XO (XO (XI (XI (XO XH)))))))
| Xb2 -> Npos (XO (XI (XO (XO (XI (XI (XO XH)))))))
| Xb3 -> Npos (XI (XI (XO (XO (XI (XI (XO XH)))))))
| Xb4 -> Npos (XO (XO (XI (XO (XI (XI (XO XH)))))))
| Xb5 -> Npos (XI (XO (XI (XO (XI (XI (XO XH)))))))
| Xb6 -> Npos (XO (XI (XI (XO (XI (XI (XO XH)))))))
| Xb7 -> Npos (XI (XI (XI (XO (XI (XI (XO XH)))))))
| Xb8 -> Npos (XO (XO (XO (XI (XI (XI (XO XH)))))))
| Xb9 -> Npos (XI (XO (XO (XI (XI (XI (XO XH)))))))
| Xba -> Npos (XO (XI (XO (XI (XI (XI (XO XH)))))))
| Xbb -> Npos (XI (XI (XO (XI (XI (XI (XO XH)))))))
| Xbc -> Npos (XO (XO (XI (XI (XI (XI (XO XH)))))))
| Xbd -> Npos (XI (XO (XI (XI (XI (XI (XO XH)))))))
| Xbe -> Npos (XO (XI (XI (XI (XI (XI (XO XH)))))))
| Xbf -> Npos (XI (XI (XI (XI (XI (XI (XO XH)))))))
| Xc0 -> Npos (XO (XO (XO (XO (XO (XO (XI XH)))))))
| Xc1 -> Npos (XI (XO (XO (XO (XO (XO (XI XH)))))))
| Xc2 -> Npos (XO (XI (XO (XO (XO (XO (XI XH)))))))
| Xc3 -> Npos (XI (XI (XO (XO (XO (XO (XI XH)))))))
| Xc4 -> Npos (XO (XO (XI (XO (XO (XO (XI XH)))))))
| Xc5 -> Npos (XI (XO (XI (XO (XO (XO (XI XH)))))))
| Xc6 -> Npos (XO (XI (XI (XO (XO (XO (XI XH)))))))
| Xc7 -> Npos (XI (XI (XI (XO (XO (XO (XI XH)))))))
| Xc8 -> Npos (XO (XO (XO (XI (XO (XO (XI XH)))))))
| Xc9 -> Npos (XI (XO (XO (XI (XO (XO (XI XH)))))))
| Xca -> Npos (XO (XI (XO (XI (XO (XO (XI XH)))))))
| Xcb -> Npos (XI (XI (XO (XI (XO (XO (XI XH)))))))
| Xcc -> Npos (XO (XO (XI (XI (XO (XO (XI XH)))))))
| Xcd -> Npos (XI (XO (XI (XI (XO (XO (XI XH)))))))
| Xce -> Npos (XO (XI (XI (XI (XO (XO (XI XH)))))))
| Xcf -> Npos (XI (XI (XI (XI (XO (XO (XI XH)))))))
| Xd0 -> Npos (XO (XO (XO (XO (XI (XO (XI XH)))))))
| Xd1 -> Npos (XI (XO (XO (XO (XI (XO (XI XH)))))))
| Xd2 -> Npos (XO (XI (XO (XO (XI (XO (XI XH)))))))
| Xd3 -> Npos (XI (XI (XO (XO (XI (XO (XI XH)))))))
| Xd4 -> Npos (XO (XO (XI (XO (XI (XO (XI XH)))))))
| Xd5 -> Npos (XI (XO (XI (XO (XI (XO (XI XH)))))))
| Xd6 -> Npos (XO (XI (XI (XO (XI (XO (XI XH)))))))
| Xd7 -> Npos (XI (XI (XI (XO (XI (XO (XI XH)))))))
| Xd8 -> Npos (XO (XO (XO (XI (XI (XO (XI XH)))))))
| Xd9 -> Npos (XI (XO (XO (XI (XI (XO (XI XH)))))))
| Xda -> Npos (XO (XI (XO (XI (XI (XO (XI XH)))))))
| Xdb -> Npos (XI (XI (XO (XI (XI (XO (XI XH)))))))
| Xdc -> Npos (XO (XO (XI (XI (XI (XO (XI XH)))))))
| Xdd -> Npos (XI (XO (XI (XI (XI (XO (XI XH)))))))
| Xde -> Npos (XO (XI (XI (XI (XI (XO (XI XH)))))))
| Xdf -> Npos (XI (XI (XI (XI (XI (XO (XI XH)))))))
| Xe0 -> Npos (XO (XO (XO (XO (XO (XI (XI XH)))))))
| Xe1 -> Npos (XI (XO (XO (XO (XO (XI (XI XH)))))))
| Xe2 -> Npos (XO (XI (XO (XO (XO (XI (XI XH)))))))
| Xe3 -> Npos (XI (XI (XO (XO (XO (XI (XI XH)))))))
| Xe4 -> Npos (XO (XO (XI (XO (XO (XI (XI XH)))))))
| Xe5 -> Npos (XI (XO (XI (XO (XO (XI (XI XH)))))))
| Xe6 -> Npos (XO (XI (XI (XO (XO (XI (XI XH)))))))
| Xe7 -> Npos (XI (XI (XI (XO (XO (XI (XI XH)))))))
| Xe8 -> Npos (XO (XO (XO (XI (XO (XI (XI XH)))))))
| Xe9 -> Npos (XI (XO (XO (XI (XO (XI (XI XH)))))))
| Xea -> Npos (XO (XI (XO (XI (XO (XI (XI XH)))))))
| Xeb -> Npos (XI (XI (XO (XI (XO (XI (XI XH)))))))
| Xec -> Npos (XO (XO (XI (XI (XO (XI (XI XH)))))))
| Xed -> Npos (XI (XO (XI (XI (XO (XI (XI XH)))))))
| Xee -> Npos (XO (XI (XI (XI (XO (XI (XI XH)))))))
| Xef -> Npos (XI (XI (XI (XI (XO (XI (XI XH)))))))
| Xf0 -> Npos (XO (XO (XO (XO (XI (XI (XI XH)))))))
| Xf1 -> Npos (XI (XO (XO (XO (XI (XI (XI XH)))))))
| Xf2 -> Npos (XO (XI (XO (XO (XI (XI (XI XH)))))))
| Xf3 -> Npos (XI (XI (XO (XO (XI (XI (XI XH)))))))
| Xf4 -> Npos (XO (XO (XI (XO (XI (XI (XI XH)))))))
| Xf5 -> Npos (XI (XO (XI (XO (XI (XI (XI XH)))))))
| Xf6 -> Npos (XO (XI (XI (XO (XI (XI (XI XH)))))))
| Xf7 -> Npos (XI (XI (XI (XO (XI (XI (XI XH)))))))
| Xf8 -> Npos (XO (XO (XO (XI (XI (XI (XI XH)))))))
| Xf9 -> Npos (XI (XO (XO (XI (XI (XI (XI XH)))))))
| Xfa -> Npos (XO (XI (XO (XI (XI (XI (XI XH)))))))
| Xfb -> Npos (XI (XI (XO (XI (XI (XI (XI XH)))))))
| Xfc -> Npos (XO (XO (XI (XI (XI (XI (XI XH)))))))
| Xfd -> Npos (XI (XO (XI (XI (XI (XI (XI XH)))))))
| Xfe -> Npos (XO (XI (XI (XI (XI (XI (XI XH)))))))
| Xff -> Npos (XI (XI (XI (XI (XI (XI (XI XH)))))))

(** val of_N : n -> byte option **)

let of_N = function
| N0 -> Some X00
| Npos p ->
  (match p with
   | XI p0 ->
     (match p0 with
      | XI p1 ->
        (match p1 with
         | XI p2 ->
           (match p2 with
            | XI p3 ->
              (match p3 with
               | XI p4 ->
                 (match p4 with
                  | XI p5 ->
                    (match p5 with
                     | XI p6 -> (match p6 with
                                 | XH -> Some Xff
                                 | _ -> None)
                     | XO p6 -> (match p6 with
                                 | XH -> Some Xbf
                                 | _ -> None)
                     | XH -> Some X7f)
                  | XO p5 ->
                    (match p5 with
                     | XI p6 -> (match p6 with
                                 | XH -> Some Xdf
                                 | _ -> None)
                     | XO p6 -> (match p6 with
                                 | XH -> Some X9f
                                 | _ -> None)
                     | XH -> Some X5f)
                  | XH -> Some X3f)
               | XO p4 ->
                 (match p4 with
                  | XI p5 ->
                    (match p5 with
                     | XI p6 -> (match p6 with
                                 | XH -> Some Xef
                                 | _ -> None)
                     | XO p6 -> (match p6 with
                                 | XH -> Some Xaf
                                 | _ -> None)
                     | XH -> Some X6f)
                  | XO p5 ->
                    (match p5 with
                     | XI p6 -> (match p6 with
                                 | XH -> Some Xcf
                                 | _ -> None)
                     | XO p6 -> (match p6 with
                                 | XH -> Some X8f
                                 | _ -> None)
                     | XH -> Some X4f)
                  | XH -> Some X2f)
               | XH -> Some X1f)
            | XO p3 ->
              (match p3 with
               | XI p4 ->
                 (match p4 with
                  | XI p5 ->
                    (match p5 with
                     | XI p6 -> (match p6 with
                                 | XH -> Some Xf7
                                 | _ -> None)
                     | XO p6 -> (match p6 with
                                 | XH -> Some Xb7
                                 | _ -> None)
                     | XH -> Some X77)
                  | XO p5 ->
                    (match p5 with
                     | XI p6 -> (match p6 with
                                 | XH -> Some Xd7
                                 | _ -> None)
                     | XO p6 -> (match p6 with
                                 | XH -> Some X97
                                 | _ -> None)
                     | XH -> Some X57)
                  | XH -> Some X37)
               | XO p4 ->
                 (match p4 with
                  | XI p5 ->
                    (match p5 with
                     | XI p6 -> (match p6 with
                                 | XH -> Some Xe7
                                 | _ -> None)
                     | XO p6 -> (match p6 with
                                 | XH -> Some Xa7
                                 | _ -> None)
                     | XH -> Some X67)
                  | XO p5 ->
                    (match p5 with
                     | XI p6 -> (match p6 with
                                 | XH -> Some Xc7
                                 | _ -> None)
                     | XO p6 -> (match p6 with
                                 | XH -> Some X87
                                 | _ -> None)
                     | XH -> Some X47)
                  | XH -> Some X27)
               | XH -> Some X17)
            | XH -> Some X0f)
         | XO p2 ->
           (match p2 with
            | XI p3 ->
              (match p3 with
               | XI p4 ->
                 (match p4 with
                  | XI p5 ->
                    (match p5 with
                     | XI p6 -> (match p6 with
                                 | XH -> Some Xfb
                                 | _ -> None)
                     | XO p6 -> (match p6 with
                                 | XH -> Some Xbb
                                 | _ -> None)
                     | XH -> Some X7b)
                  | XO p5 ->
                    (match p5 with
                     | XI p6 -> (match p6 with
                                 | XH -> Some Xdb
                                 | _ -> None)
                     | XO p6 -> (match p6 with
                                 | XH -> Some X9b
                                 | _ -> None)
                     | XH -> Some X5b)
                  | XH -> Some X3b)
               | XO p4 ->
                 (match p4 with
                  | XI p5 ->
                    (match p5 with
                     | XI p6 -> (match p6 with
                                 | XH -> Some Xeb
                                 | _ -> None)
                     | XO p6 -> (match p6 with
                                 | XH -> Some Xab
                                 | _ -> None)
                     | XH -> Some X6b)
                  | XO p5 ->
                    (match p5 with
                     | XI p6 -> (match p6 with
                                 | XH -> Some Xcb
                                 | _ -> None)
                     | XO p6 -> (match p6 with
                                 | XH -> Some X8b
                                 | _ -> None)
                     | XH -> Some X4b)
                  | XH -> Some X2b)
               | XH -> Some X1b)
            | XO p3 ->
              (match p3 with
               | XI p4 ->
                 (match p4 with
                  | XI p5 ->
                    (match p5 with
                     | XI p6 -> (match p6 with
                                 | XH -> Some Xf3
                                 | _ -> None)
                     | XO p6 -> (match p6 with
                                 | XH -> Some Xb3
                                 | _ -> None)
                     | XH -> Some X73)
                  | XO p5 ->
                    (match p5 with
                     | XI p6 -> (match p6 with
                                 | XH -> Some Xd3
                                 | _ -> None)
                     | XO p6 -> (match p6 with
                                 | XH -> Some X93
                                 | _ -> None)
                     | XH -> Some X53)
                  | XH -> Some X33)
               | XO p4 ->
                 (match p4 with
                  | XI p5 ->
                    (match p5 with
                     | XI p6 -> (match p6 with
                                 | XH -> Some Xe3
                                 | _ -> None)
                     | XO p6 -> (match p6 with
                                 | XH -> Some Xa3
                                 | _ -> None)
                     | XH -> Some X63)
                  | XO p5 ->
                    (match p5 with
                     | XI p6 -> (match p6 with
                                 | XH -> Some Xc3
                                 | _ -> None)
                     | XO p6 -> (match p6 with
                                 | XH -> Some X83
                                 | _ -> None)
                     | XH -> Some X43)
                  | XH -> Some X23)
               | XH -> Some X13)
            | XH -> Some X0b)
         | XH -> Some X07)
      | XO p1 ->
        (match p1 with
         | XI p2 ->
           (match p2 with
            | XI p3 ->
              (match p3 with
               | XI p4 ->
                 (match p4 with
                  | XI p5 ->
                    (match p5 with
                     | XI p6 -> (match p6 with
                                 | XH -> Some Xfd
                                 | _ -> None)
                     | XO p6 -> (match p6 with
                                 | XH -> Some Xbd
                                 | _ -> None)
                     | XH -> Some X7d)
                  | XO p5 ->
                    (match p5 with
                     | XI p6 -> (match p6 with
                                 | XH -> Some Xdd
                                 | _ -> None)
                     | XO p6 -> (match p6 with
                                 | XH -> Some X9d
                                 | _ -> None)
                     | XH -> Some X5d)
                  | XH -> Some X3d)
               | XO p4 ->
                 (match p4 with
                  | XI p5 ->
                    (match p5 with
                     | XI p6 -> (match p6 with
                                 | XH -> Some Xed
                                 | _ -> None)
                     | XO p6 -> (match p6 with
                                 | XH -> Some Xad
                                 | _ -> None)
                     | XH -> Some X6d)
                  | XO p5 ->
                    (match p5 with
                     | XI p6 -> (match p6 with
                                 | XH -> Some Xcd
                                 | _ -> None)
                     | XO p6 -> (match p6 with
                                 | XH -> Some X8d
                                 | _ -> None)
                     | XH -> Some X4d)
                  | XH -> Some X2d)
               | XH -> Some X1d)
            | XO p3 ->
              (match p3 with
               | XI p4 ->
                 (match p4 with
                  | XI p5 ->
                    (match p5 with
                     | XI p6 -> (match p6 with
                                 | XH -> Some Xf5
                                 | _ -> None)
                     | XO p6 -> (match p6 with
                                 | XH -> Some Xb5
                                 | _ -> None)
                     | XH -> Some X75)
                  | XO p5 ->
                    (match p5 with
                     | XI p6 -> (match p6 with
                                 | XH -> Some Xd5
                                 | _ -> None)
                     | XO p6 -> (match p6 with
                                 | XH -> Some X95
                                 | _ -> None)
                     | XH -> Some X55)
                  | XH -> Some X35)
               | XO p4 ->
                 (match p4 with
                  | XI p5 ->
                    (match p5 with
                     | XI p6 -> (match p6 with
                                 | XH -> Some Xe5
                                 | _ -> None)
                     | XO p6 -> (match p6 with
                                 | XH -> Some Xa5
                                 | _ -> None)
                     | XH -> Some X65)
                  | XO p5 ->
                    (match p5 with
                     | XI p6 -> (match p6 with
                                 | XH -> Some Xc5
                                 | _ -> None)
                     | XO p6 -> (match p6 with
                                 | XH -> Some X85
                                 | _ -> None)
                     | XH -> Some X45)
                  | XH -> Some X25)
               | XH -> Some X15)
            | XH -> Some X0d)
         | XO p2 ->
           (match p2 with
            | XI p3 ->
              (match p3 with
               | XI p4 ->
                 (match p4 with
                  | XI p5 ->
                    (match p5 with
                     | XI p6 -> (match p6 with
                                 | XH -> Some Xf9
                                 | _ -> None)
                     | XO p6 -> (match p6 with
                                 | XH -> Some Xb9
                                 | _ -> None)
                     | XH -> Some X79)
                  | XO p5 ->
                    (match p5 with
                     | XI p6 -> (match p6 with
                                 | XH -> Some Xd9
                                 | _ -> None)
                     | XO p6 -> (match p6 with
                                 | XH -> Some X99
                                 | _ -> None)
                     | XH -> Some X59)
                  | XH -> Some X39)
               | XO p4 ->
                 (match p4 with
                  | XI p5 ->
                    (match p5 with
                     | XI p6 -> (match p6 with
                                 | XH -> Some Xe9
                                 | _ -> None)
                     | XO p6 -> (match p6 with
                                 | XH -> Some Xa9
                                 | _ -> None)
                     | XH -> Some X69)
                  | XO p5 ->
                    (match p5 with
                     | XI p6 -> (match p6 with
                                 | XH -> Some Xc9
                                 | _ -> None)
                     | XO p6 -> (match p6 with
                                 | XH -> Some X89
                                 | _ -> None)
                     | XH -> Some X49)
                  | XH -> Some X29)
               | XH -> Some X19)
            | XO p3 ->
              (match p3 with
               | XI p4 ->
                 (match p4 with
                  | XI p5 ->
                    (match p5 with
                     | XI p6 -> (match p6 with
                                 | XH -> Some Xf1
                                 | _ -> None)
                     | XO p6 -> (match p6 with
                                 | XH -> Some Xb1
                                 | _ -> None)
                     | XH -> Some X71)
                  | XO p5 ->
                    (match p5 with
                     | XI p6 -> (match p6 with
                                 | XH -> Some Xd1
                                 | _ -> None)
                     | XO p6 -> (match p6 with
                                 | XH -> Some X91
                                 | _ -> None)
                     | XH -> Some X51)
                  | XH -> Some X31)
               | XO p4 ->
                 (match p4 with
                  | XI p5 ->
                    (match p5 with
                     | XI p6 -> (match p6 with
                                 | XH -> Some Xe1
                                 | _ -> None)
                     | XO p6 -> (match p6 with
                                 | XH -> Some Xa1
                                 | _ -> None)
                     | XH -> Some X61)
                  | XO p5 ->
                    (match p5 with
                     | XI p6 -> (match p6 with
                                 | XH -> Some Xc1
                                 | _ -> None)
                     | XO p6 -> (match p6 with
                                 | XH -> Some X81
                                 | _ -> None)
                     | XH -> Some X41)
                  | XH -> Some X21)
               | XH -> Some X11)
            | XH -> Some X09)
         | XH -> Some X05)
      | XH -> Some X03)
   | XO p0 ->
     (match p0 with
      | XI p1 ->
        (match p1 with
         | XI p2 ->
           (match p2 with
            | XI p3 ->
              (match p3 with
               | XI p4 ->
                 (match p4 with
                  | XI p5 ->
                    (match p5 with
                     | XI p6 -> (match p6 with
                                 | XH -> Some Xfe
                                 | _ -> None)
                     | XO p6 -> (match p6 with
                                 | XH -> Some Xbe
                                 | _ -> None)
                     | XH -> Some X7e)
                  | XO p5 ->
                    (match p5 with
                     | XI p6 -> (match p6 with
                                 | XH -> Some Xde
                                 | _ -> None)
                     | XO p6 -> (match p6 with
                                 | XH -> Some X9e
                                 | _ -> None)
                     | XH -> Some X5e)
                  | XH -> Some X3e)
               | XO p4 ->
                 (match p4 with
                  | XI p5 ->
                    (match p5 with
                     | XI p6 -> (match p6 with
                                 | XH -> Some Xee
                                 | _ -> None)
                     | XO p6 -> (match p6 with
                                 | XH -> Some Xae
                                 | _ -> None)
                     | XH -> Some X6e)
                  | XO p5 ->
                    (match p5 with
                     | XI p6 -> (match p6 with
                                 | XH -> Some Xce
                                 | _ -> None)
                     | XO p6 -> (match p6 with
                                 | XH -> Some X8e
                                 | _ -> None)
                     | XH -> Some X4e)
                  | XH -> Some X2e)
               | XH -> Some X1e)
            | XO p3 ->
              (match p3 with
               | XI p4 ->
                 (match p4 with
                  | XI p5 ->
                    (match p5 with
                     | XI p6 -> (match p6 with
                                 | XH -> Some Xf6
                                 | _ -> None)
                     | XO p6 -> (match p6 with
                                 | XH -> Some Xb6
                                 | _ -> None)
                     | XH -> Some X76)
                  | XO p5 ->
                    (match p5 with
                     | XI p6 -> (match p6 with
                                 | XH -> Some Xd6
                                 | _ -> None)
                     | XO p6 -> (match p6 with
                                 | XH -> Some X96
                                 | _ -> None)
                     | XH -> Some X56)
                  | XH -> Some X36)
               | XO p4 ->
                 (match p4 with
                  | XI p5 ->
                    (match p5 with
                     | XI p6 -> (match p6 with
                                 | XH -> Some Xe6
                                 | _ -> None)
                     | XO p6 -> (match p6 with
                                 | XH -> Some Xa6
                                 | _ -> None)
                     | XH -> Some X66)
                  | XO p5 ->
                    (match p5 with
                     | XI p6 -> (match p6 with
                                 | XH -> Some Xc6
                                 | _ -> None)
                     | XO p6 -> (match p6 with
                                 | XH -> Some X86
                                 | _ -> None)
                     | XH -> Some X46)
                  | XH -> Some X26)
               | XH -> Some X16)
            | XH -> Some X0e)
         | XO p2 ->
           (match p2 with
            | XI p3 ->
              (match p3 with
               | XI p4 ->
                 (match p4 with
                  | XI p5 ->
                    (match p5 with
                     | XI p6 -> (match p6 with
                                 | XH -> Some Xfa
                                 | _ -> None)
                     | XO p6 -> (match p6 with
                                 | XH -> Some Xba
                                 | _ -> None)
                     | XH -> Some X7a)
                  | XO p5 ->
                    (match p5 with
                     | XI p6 -> (match p6 with
                                 | XH -> Some Xda
                                 | _ -> None)
                     | XO p6 -> (match p6 with
                                 | XH -> Some X9a
                                 | _ -> None)
                     | XH -> Some X5a)
                  | XH -> Some X3a)
               | XO p4 ->
                 (match p4 with
                  | XI p5 ->
                    (match p5 with
                     | XI p6 -> (match p6 with
                                 | XH -> Some Xea
                                 | _ -> None)
                     | XO p6 -> (match p6 with
                                 | XH -> Some Xaa
                                 | _ -> None)
                     | XH -> Some X6a)
                  | XO p5 ->
                    (match p5 with
                     | XI p6 -> (match p6 with
                                 | XH -> Some Xca
                                 | _ -> None)
                     | XO p6 -> (match p6 with
                                 | XH -> Some X8a
                                 | _ -> None)
                     | XH -> Some X4a)
                  | XH -> Some X2a)
               | XH -> Some X1a)
            | XO p3 ->
              (match p3 with
               | XI p4 ->
                 (match p4 with
                  | XI p5 ->
                    (match p5 with
                     | XI p6 -> (match p6 with
                                 | XH -> Some Xf2
                                 | _ -> None)
                     | XO p6 -> (match p6 with
                                 | XH -> Some Xb2
                                 | _ -> None)
                     | XH -> Some X72)
                  | XO p5 ->
                    (match p5 with
                     | XI p6 -> (match p6 with
                                 | XH -> Some Xd2
                                 | _ -> None)
                     | XO p6 -> (match p6 with
                                 | XH -> Some X92
                                 | _ -> None)
                     | XH -> Some X52)
                  | XH -> Some X32)
               | XO p4 ->
                 (match p4 with
                  | XI p5 ->
                    (match p5 with
                     | XI p6 -> (match p6 with
                                 | XH -> Some Xe2
                                 | _ -> None)
                     | XO p6 -> (match p6 with
                                 | XH -> Some Xa2
                                 | _ -> None)
                     | XH -> Some X62)
                  | XO p5 ->
                    (match p5 with
                     | XI p6 -> (match p6 with
                                 | XH -> Some Xc2
                                 | _ -> None)
                     | XO p6 -> (match p6 with
                                 | XH -> Some X82
                                 | _ -> None)
                     | XH -> Some X42)
                  | XH -> Some X22)
               | XH -> Some X12)
            | XH -> Some X0a)
         | XH -> Some X06)
      | XO p1 ->
        (match p1 with
         | XI p2 ->
           (match p2 with
            | XI p3 ->
              (match p3 with
               | XI p4 ->
                 (match p4 with
                  | XI p5 ->
                    (match p5 with
                     | XI p6 -> (match p6 with
                                 | XH -> Some Xfc
                                 | _ -> None)
                     | XO p6 -> (match p6 with
                                 | XH -> Some Xbc
                                 | _ -> None)
                     | XH -> Some X7c)
                  | XO p5 ->
                    (match p5 with
                     | XI p6 -> (match p6 with
                                 | XH -> Some Xdc
                                 | _ -> None)
                     | XO p6 -> (match p6 with
                                 | XH -> Some X9c
                                 | _ -> None)
                     | XH -> Some X5c)
                  | XH -> Some X3c)
               | XO p4 ->
                 (match p4 with
                  | XI p5 ->
                    (match p5 with
                     | XI p6 -> (match p6 with
                                 | XH -> Some Xec
                                 | _ -> None)
                     | XO p6 -> (match p6 with
                                 | XH -> Some Xac
                                 | _ -> None)
                     | XH -> Some X6c)
                  | XO p5 ->
                    (match p5 with
                     | XI p6 -> (match p6 with
                                 | XH -> Some Xcc
                                 | _ -> None)
                     | XO p6 -> (match p6 with
                                 | XH -> Some X8c
                                 | _ -> None)
                     | XH -> Some X4c)
                  | XH -> Some X2c)
               | XH -> Some X1c)
            | XO p3 ->
              (match p3 with
               | XI p4 ->
                 (match p4 with
                  | XI p5 ->
                    (match p5 with
                     | XI p6 -> (match p6 with
                                 | XH -> Some Xf4
                                 | _ -> None)
                     | XO p6 -> (match p6 with
                                 | XH -> Some Xb4
                                 | _ -> None)
                     | XH -> Some X74)
                  | XO p5 ->
                    (match p5 with
                     | XI p6 -> (match p6 with
                                 | XH -> Some Xd4
                                 | _ -> None)
                     | XO p6 -> (match p6 with
                                 | XH -> Some X94
                                 | _ -> None)
                     | XH -> Some X54)
                  | XH -> Some X34)
               | XO p4 ->
                 (match p4 with
                  | XI p5 ->
                    (match p5 with
                     | XI p6 -> (match p6 with
                                 | XH -> Some Xe4
                                 | _ -> None)
                     | XO p6 -> (match p6 with
                                 | XH -> Some Xa4
                                 | _ -> None)
                     | XH -> Some X64)
                  | XO p5 ->
                    (match p5 with
                     | XI p6 -> (match p6 with
                                 | XH -> Some Xc4
                                 | _ -> None)
                     | XO p6 -> (match p6 with
                                 | XH -> Some X84
                                 | _ -> None)
                     | XH -> Some X44)
                  | XH -> Some X24)
               | XH -> Some X14)
            | XH -> Some X0c)
         | XO p2 ->
           (match p2 with
            | XI p3 ->
              (match p3 with
               | XI p4 ->
                 (match p4 with
                  | XI p5 ->
                    (match p5 with
                     | XI p6 -> (match p6 with
                                 | XH -> Some Xf8
                                 | _ -> None)
                     | XO p6 -> (match p6 with
                                 | XH -> Some Xb8
                                 | _ -> None)
                     | XH -> Some X78)
                  | XO p5 ->
                    (match p5 with
                     | XI p6 -> (match p6 with
                                 | XH -> Some Xd8
                                 | _ -> None)
                     | XO p6 -> (match p6 with
                                 | XH -> Some X98
                                 | _ -> None)
                     | XH -> Some X58)
                  | XH -> Some X38)
               | XO p4 ->
                 (match p4 with
                  | XI p5 ->
                    (match p5 with
                     | XI p6 -> (match p6 with
                                 | XH -> Some Xe8
                                 | _ -> None)
                     | XO p6 -> (match p6 with
                                 | XH -> Some Xa8
                                 | _ -> None)
                     | XH -> Some X68)
                  | XO p5 ->
                    (match p5 with
                     | XI p6 -> (match p6 with
                                 | XH -> Some Xc8
                                 | _ -> None)
                     | XO p6 -> (match p6 with
                                 | XH -> Some X88
                                 | _ -> None)
                     | XH -> Some X48)
                  | XH -> Some X28)
               | XH -> Some X18)
            | XO p3 ->
              (match p3 with
               | XI p4 ->
                 (match p4 with
                  | XI p5 ->
                    (match p5 with
                     | XI p6 -> (match p6 with
                                 | XH -> Some Xf0
                                 | _ -> None)
                     | XO p6 -> (match p6 with
                                 | XH -> Some Xb0
                                 | _ -> None)
                     | XH -> Some X70)
                  | XO p5 ->
                    (match p5 with
                     | XI p6 -> (match p6 with
                                 | XH -> Some Xd0
                                 | _ -> None)
                     | XO p6 -> (match p6 with
                                 | XH -> Some X90
                                 | _ -> None)
                     | XH -> Some X50)
                  | XH -> Some X30)
               | XO p4 ->
                 (match p4 with
                  | XI p5 ->
                    (match p5 with
                     | XI p6 -> (match p6 with
                                 | XH -> Some Xe0
                                 | _ -> None)
                     | XO p6 -> (match p6 with
                                 | XH -> Some Xa0
                                 | _ -> None)
                     | XH -> Some X60)
                  | XO p5 ->
                    (match p5 with
                     | XI p6 -> (match p6 with
                                 | XH -> Some Xc0
                                 | _ -> None)
                     | XO p6 -> (match p6 with
                                 | XH -> Some X80
                                 | _ -> None)
                     | XH -> Some X40)
                  | XH -> Some X20)
               | XH -> Some X10)
            | XH -> Some X08)
         | XH -> Some X04)
      | XH -> Some X02)
   | XH -> Some X01)

(** val byte_of_N : n -> byte **)

let byte_of_N n0 =
  match of_N n0 with
  | Some b -> b
  | None -> X00

(** val n_of_byte : byte -> n **)

let n_of_byte =
  to_N

type str = byte list

(** val beqb : byte -> byte -> bool **)

let beqb =
  eqb0

(** val str_eqb : str -> str -> bool **)

let rec str_eqb a b =
  match a with
  | [] -> (match b with
           | [] -> true
           | _ :: _ -> false)
  | x :: a' ->
    (match b with
     | [] -> false
     | y :: b' -> (&&) (beqb x y) (str_eqb a' b'))

(** val str_ltb : str -> str -> bool **)

let rec str_ltb a b =
  match a with
  | [] -> (match b with
           | [] -> false
           | _ :: _ -> true)
  | x :: a' ->
    (match b with
     | [] -> false
     | y :: b' ->
       if N.ltb (n_of_byte x) (n_of_byte y)
       then true
       else if N.ltb (n_of_byte y) (n_of_byte x) then false else str_ltb a' b')

(** val starts_with : str -> str -> bool **)

let rec starts_with s = function
| [] -> true
| y :: p' ->
  (match s with
   | [] -> false
   | x :: s' -> (&&) (beqb x y) (starts_with s' p'))

(** val ends_with : str -> str -> bool **)

let ends_with s p =
  starts_with (rev s) (rev p)

(** val erase_first : str -> str -> str **)

let rec erase_first s sub0 =
  match s with
  | [] -> []
  | x :: s' ->
    if starts_with s sub0
    then skipn (length sub0) s
    else x :: (erase_first s' sub0)

(** val erase_last : str -> str -> str **)

let erase_last s sub0 = match sub0 with
| [] -> s
| _ :: _ -> rev (erase_first (rev s) (rev sub0))

(** val remove_suffix : str -> str -> str **)

let remove_suffix s suf =
  if ends_with s suf then firstn (sub (length s) (length suf)) s else s

(** val split_on : byte -> str -> str -> str list **)

let rec split_on c s cur =
  match s with
  | [] -> (rev cur) :: []
  | x :: s' ->
    if beqb x c
    then (rev cur) :: (split_on c s' [])
    else split_on c s' (x :: cur)

(** val trim_left : byte -> str -> str **)

let rec trim_left c s = match s with
| [] -> []
| x :: s' -> if beqb x c then trim_left c s' else s

(** val trim_right : byte -> str -> str **)

let trim_right c s =
  rev (trim_left c (rev s))

(** val join_with : str -> str list -> str **)

let rec join_with sep = function
| [] -> []
| x :: l' ->
  (match l' with
   | [] -> x
   | _ :: _ -> app x (app sep (join_with sep l')))

(** val find_first : byte -> str -> nat option **)

let rec find_first c = function
| [] -> None
| x :: s' ->
  if beqb x c then Some O else option_map (fun x0 -> S x0) (find_first c s')

(** val find_last : byte -> str -> nat option **)

let find_last c s =
  match find_first c (rev s) with
  | Some i -> Some (sub (sub (length s) (S O)) i)
  | None -> None

(** val substr : str -> nat -> nat -> str **)

let substr s pos len =
  firstn len (skipn pos s)

(** val is_digit : byte -> bool **)

let is_digit b =
  let n0 = n_of_byte b in
  (&&) (N.leb (Npos (XO (XO (XO (XO (XI XH)))))) n0)
    (N.leb n0 (Npos (XI (XO (XO (XI (XI XH)))))))

(** val is_alnum : byte -> bool **)

let is_alnum b =
  let n0 = n_of_byte b in
  (||)
    ((||)
      ((&&) (N.leb (Npos (XO (XO (XO (XO (XI XH)))))) n0)
        (N.leb n0 (Npos (XI (XO (XO (XI (XI XH))))))))
      ((&&) (N.leb (Npos (XI (XO (XO (XO (XO (XO XH))))))) n0)
        (N.leb n0 (Npos (XO (XI (XO (XI (XI (XO XH))))))))))
    ((&&) (N.leb (Npos (XI (XO (XO (XO (XO (XI XH))))))) n0)
      (N.leb n0 (Npos (XO (XI (XO (XI (XI (XI XH)))))))))

(** val is_space : byte -> bool **)

let is_space b =
  let n0 = n_of_byte b in
  (||) (N.eqb n0 (Npos (XO (XO (XO (XO (XO XH)))))))
    ((&&) (N.leb (Npos (XI (XO (XO XH)))) n0)
      (N.leb n0 (Npos (XI (XO (XI XH))))))

(** val parse_digits : str -> nat -> nat **)

let rec parse_digits s acc =
  match s with
  | [] -> acc
  | x :: s' ->
    if is_digit x
    then parse_digits s'
           (sub
             (add (mul (S (S (S (S (S (S (S (S (S (S O)))))))))) acc)
               (N.to_nat (n_of_byte x))) (S (S (S (S (S (S (S (S (S (S (S (S
             (S (S (S (S (S (S (S (S (S (S (S (S (S (S (S (S (S (S (S (S (S
             (S (S (S (S (S (S (S (S (S (S (S (S (S (S (S
             O)))))))))))))))))))))))))))))))))))))))))))))))))
    else acc

(** val skip_spaces : str -> str **)

let rec skip_spaces s = match s with
| [] -> []
| x :: s' -> if is_space x then skip_spaces s' else s

(** val strtoul : str -> nat **)

let strtoul s =
  let s1 = skip_spaces s in
  let s2 = match s1 with
           | [] -> []
           | x :: r -> if beqb x X2b then r else s1 in
  parse_digits s2 O

(** val digit_byte : nat -> byte **)

let digit_byte d =
  byte_of_N
    (N.of_nat
      (add (S (S (S (S (S (S (S (S (S (S (S (S (S (S (S (S (S (S (S (S (S (S
        (S (S (S (S (S (S (S (S (S (S (S (S (S (S (S (S (S (S (S (S (S (S (S
        (S (S (S O)))))))))))))))))))))))))))))))))))))))))))))))) d))

(** val fmt_nat_aux : nat -> nat -> str -> str **)

let rec fmt_nat_aux fuel n0 acc =
  match fuel with
  | O -> acc
  | S f ->
    let acc' =
      (digit_byte (Nat.modulo n0 (S (S (S (S (S (S (S (S (S (S O)))))))))))) :: acc
    in
    if Nat.eqb (Nat.div n0 (S (S (S (S (S (S (S (S (S (S O))))))))))) O
    then acc'
    else fmt_nat_aux f (Nat.div n0 (S (S (S (S (S (S (S (S (S (S O)))))))))))
           acc'

(** val fmt_nat : nat -> str **)

let fmt_nat n0 =
  fmt_nat_aux (S n0) n0 []

(** val alookup : str -> (str * 'a1) list -> 'a1 option **)

let rec alookup k = function
| [] -> None
| p :: m' -> let (k', v) = p in if str_eqb k k' then Some v else alookup k m'

(** val aset : str -> 'a1 -> (str * 'a1) list -> (str * 'a1) list **)

let rec aset k v = function
| [] -> (k, v) :: []
| p :: m' ->
  let (k', v') = p in
  if str_eqb k k' then (k, v) :: m' else (k', v') :: (aset k v m')

(** val sset : str -> 'a1 -> (str * 'a1) list -> (str * 'a1) list **)

let rec sset k v = function
| [] -> (k, v) :: []
| p :: m' ->
  let (k', v') = p in
  if str_eqb k k'
  then (k, v) :: m'
  else if str_ltb k k'
       then (k, v) :: ((k', v') :: m')
       else (k', v') :: (sset k v m')

type item =
| Null
| Scalar of str
| Lst of item list
| Map of (str * item) list

type ydoc =
| YNull
| YScalar of str
| YSeq of ydoc list
| YMap of (str * ydoc) list

type docs = (str * ydoc) list

(** val s_include : str **)

let s_include =
  X5f :: (X5f :: (X69 :: (X6e :: (X63 :: (X6c :: (X75 :: (X64 :: (X65 :: []))))))))

(** val s_patch : str **)

let s_patch =
  X5f :: (X5f :: (X70 :: (X61 :: (X74 :: (X63 :: (X68 :: []))))))

(** val s_append : str **)

let s_append =
  X5f :: (X5f :: (X61 :: (X70 :: (X70 :: (X65 :: (X6e :: (X64 :: [])))))))

(** val s_merge : str **)

let s_merge =
  X5f :: (X5f :: (X6d :: (X65 :: (X72 :: (X67 :: (X65 :: []))))))

(** val s_add : str **)

let s_add =
  X2f :: (X2b :: [])

(** val s_equ : str **)

let s_equ =
  X2f :: (X3d :: [])

(** val s_slash : str **)

let s_slash =
  X2f :: []

(** val s_next : str **)

let s_next =
  X6e :: (X65 :: (X78 :: (X74 :: [])))

(** val s_before : str **)

let s_before =
  X62 :: (X65 :: (X66 :: (X6f :: (X72 :: (X65 :: [])))))

(** val s_after : str **)

let s_after =
  X61 :: (X66 :: (X74 :: (X65 :: (X72 :: []))))

(** val s_last : str **)

let s_last =
  X6c :: (X61 :: (X73 :: (X74 :: [])))

(** val s_yaml : str **)

let s_yaml =
  X2e :: (X79 :: (X61 :: (X6d :: (X6c :: []))))

(** val s_custom : str **)

let s_custom =
  X2e :: (X63 :: (X75 :: (X73 :: (X74 :: (X6f :: (X6d :: []))))))

(** val s_schema : str **)

let s_schema =
  X2e :: (X73 :: (X63 :: (X68 :: (X65 :: (X6d :: (X61 :: []))))))

(** val s_patchkey : str **)

let s_patchkey =
  X70 :: (X61 :: (X74 :: (X63 :: (X68 :: []))))

(** val s_default : str **)

let s_default =
  X64 :: (X65 :: (X66 :: (X61 :: (X75 :: (X6c :: (X74 :: []))))))

(** val s_menu : str **)

let s_menu =
  X6d :: (X65 :: (X6e :: (X75 :: [])))

(** val s_key_binder : str **)

let s_key_binder =
  X6b :: (X65 :: (X79 :: (X5f :: (X62 :: (X69 :: (X6e :: (X64 :: (X65 :: (X72 :: [])))))))))

(** val s_punctuator : str **)

let s_punctuator =
  X70 :: (X75 :: (X6e :: (X63 :: (X74 :: (X75 :: (X61 :: (X74 :: (X6f :: (X72 :: [])))))))))

(** val s_recognizer : str **)

let s_recognizer =
  X72 :: (X65 :: (X63 :: (X6f :: (X67 :: (X6e :: (X69 :: (X7a :: (X65 :: (X72 :: [])))))))))

(** val s_import_preset : str **)

let s_import_preset =
  X69 :: (X6d :: (X70 :: (X6f :: (X72 :: (X74 :: (X5f :: (X70 :: (X72 :: (X65 :: (X73 :: (X65 :: (X74 :: []))))))))))))

(** val s_bindings : str **)

let s_bindings =
  X62 :: (X69 :: (X6e :: (X64 :: (X69 :: (X6e :: (X67 :: (X73 :: [])))))))

(** val s_bindings_add : str **)

let s_bindings_add =
  X62 :: (X69 :: (X6e :: (X64 :: (X69 :: (X6e :: (X67 :: (X73 :: (X2f :: (X2b :: [])))))))))

(** val s_build_info : str **)

let s_build_info =
  X5f :: (X5f :: (X62 :: (X75 :: (X69 :: (X6c :: (X64 :: (X5f :: (X69 :: (X6e :: (X66 :: (X6f :: [])))))))))))

(** val c_slash : byte **)

let c_slash =
  X2f

(** val c_at : byte **)

let c_at =
  X40

(** val c_colon : byte **)

let c_colon =
  X3a

(** val c_quest : byte **)

let c_quest =
  X3f

(** val c_space : byte **)

let c_space =
  X20

(** val is_null : item -> bool **)

let is_null = function
| Null -> true
| _ -> false

(** val is_map : item -> bool **)

let is_map = function
| Map _ -> true
| _ -> false

(** val item_empty : item -> bool **)

let item_empty = function
| Null -> true
| Scalar s -> (match s with
               | [] -> true
               | _ :: _ -> false)
| Lst l -> (match l with
            | [] -> true
            | _ :: _ -> false)
| Map m -> (match m with
            | [] -> true
            | _ :: _ -> false)

(** val is_list_ref : str -> bool **)

let is_list_ref = function
| [] -> false
| a :: l ->
  (match l with
   | [] -> false
   | b :: _ -> (&&) (beqb a c_at) (is_alnum b))

(** val resolve_index : nat -> str -> nat * bool **)

let resolve_index size key =
  let rest = tl key in
  if starts_with rest s_next
  then let p = ((skipn (S (S (S (S O)))) rest), size) in
       let ins = false in
       let (rest1, index0) = p in
       let rest2 =
         match rest1 with
         | [] -> []
         | c :: r -> if beqb c c_space then r else rest1
       in
       if starts_with rest2 s_last
       then let i = add index0 size in
            ((if Nat.eqb i O then O else sub i (S O)), ins)
       else ((add index0 (strtoul rest2)), ins)
  else if starts_with rest s_before
       then let p = ((skipn (S (S (S (S (S (S O)))))) rest), O) in
            let ins = true in
            let (rest1, index0) = p in
            let rest2 =
              match rest1 with
              | [] -> []
              | c :: r -> if beqb c c_space then r else rest1
            in
            if starts_with rest2 s_last
            then let i = add index0 size in
                 ((if Nat.eqb i O then O else sub i (S O)), ins)
            else ((add index0 (strtoul rest2)), ins)
       else if starts_with rest s_after
            then let p = ((skipn (S (S (S (S (S O))))) rest), (S O)) in
                 let ins = true in
                 let (rest1, index0) = p in
                 let rest2 =
                   match rest1 with
                   | [] -> []
                   | c :: r -> if beqb c c_space then r else rest1
                 in
                 if starts_with rest2 s_last
                 then let i = add index0 size in
                      ((if Nat.eqb i O then O else sub i (S O)), ins)
                 else ((add index0 (strtoul rest2)), ins)
            else let p = (rest, O) in
                 let ins = false in
                 let (rest1, index0) = p in
                 let rest2 =
                   match rest1 with
                   | [] -> []
                   | c :: r -> if beqb c c_space then r else rest1
                 in
                 if starts_with rest2 s_last
                 then let i = add index0 size in
                      ((if Nat.eqb i O then O else sub i (S O)), ins)
                 else ((add index0 (strtoul rest2)), ins)

(** val list_get : 'a1 -> 'a1 list -> nat -> 'a1 **)

let list_get d l i =
  nth i l d

(** val list_set_at : 'a1 -> 'a1 list -> nat -> 'a1 -> 'a1 list **)

let list_set_at d l i v =
  if Nat.ltb i (length l)
  then app (firstn i l) (v :: (skipn (S i) l))
  else app l (app (repeat d (sub i (length l))) (v :: []))

(** val list_insert : 'a1 -> 'a1 list -> nat -> 'a1 -> 'a1 list **)

let list_insert d l i v =
  if Nat.ltb (length l) i
  then app l (app (repeat d (sub i (length l))) (v :: []))
  else app (firstn i l) (v :: (skipn i l))

(** val read_child : item -> str -> item **)

let read_child cur k =
  if is_list_ref k
  then (match cur with
        | Lst l -> list_get Null l (fst (resolve_index (length l) k))
        | _ -> Null)
  else (match cur with
        | Map m -> (match alookup k m with
                    | Some v -> v
                    | None -> Null)
        | _ -> Null)

(** val write_child : item -> str -> item -> item **)

let write_child cur k v =
  if is_list_ref k
  then let l =
         match cur with
         | Null -> []
         | Scalar _ -> []
         | Lst l -> l
         | Map _ -> []
       in
       let (i, ins) = resolve_index (length l) k in
       let l1 = if ins then list_insert Null l i Null else l in
       Lst (list_set_at Null l1 i v)
  else let m =
         match cur with
         | Null -> []
         | Scalar _ -> []
         | Lst _ -> []
         | Map m -> m
       in
       Map (sset k v m)

(** val read_keys : item -> str list -> item **)

let rec read_keys cur = function
| [] -> cur
| k :: ks' -> read_keys (read_child cur k) ks'

(** val write_keys : item -> str list -> item -> item **)

let rec write_keys cur ks v =
  match ks with
  | [] -> v
  | k :: ks' -> write_child cur k (write_keys (read_child cur k) ks' v)

(** val split_path : str -> str list **)

let split_path p =
  split_on c_slash (trim_left c_slash p) []

(** val type_checked : item -> str list -> str -> str list option **)

let type_checked top path k = match k with
| [] -> Some path
| _ :: _ ->
  let cur = read_keys top path in
  let okk =
    match cur with
    | Null -> true
    | Scalar _ -> false
    | Lst _ -> is_list_ref k
    | Map _ -> negb (is_list_ref k)
  in
  if okk then Some (app path (k :: [])) else None

(** val type_checked_all : item -> str list -> str list -> str list option **)

let rec type_checked_all top path = function
| [] -> Some path
| k :: ks' ->
  (match type_checked top path k with
   | Some p' -> type_checked_all top p' ks'
   | None -> None)

(** val traverse_cow : item -> str list -> str -> str list option **)

let traverse_cow top path p =
  if match p with
     | [] -> true
     | _ :: _ -> str_eqb p s_slash
  then Some path
  else type_checked_all top path (split_path p)

(** val is_appending : str -> bool **)

let is_appending key =
  (||) (str_eqb key s_append) (ends_with key s_add)

(** val is_merging : str -> item -> bool -> bool **)

let is_merging key value mt =
  (||) ((||) (str_eqb key s_merge) (ends_with key s_add))
    ((&&) ((&&) mt ((||) (is_null value) (is_map value)))
      (negb (ends_with key s_equ)))

(** val strip_operator : str -> bool -> str **)

let strip_operator key adding =
  if (||) (str_eqb key s_append) (str_eqb key s_merge)
  then []
  else erase_last key (if adding then s_add else s_equ)

(** val merge_loop :
    (str -> item -> item -> item * bool) -> (str * item) list -> item ->
    item * bool **)

let rec merge_loop ed m top =
  match m with
  | [] -> (top, true)
  | p :: m' ->
    let (k, v) = p in
    let (top', ok) = ed k v top in
    if ok then merge_loop ed m' top' else (top', false)

(** val edit_node : item -> item -> str list -> str -> bool -> item * bool **)

let rec edit_node value top path key mt =
  let appending = is_appending key in
  let merging = is_merging key value mt in
  let p = strip_operator key ((||) appending merging) in
  (match if mt then type_checked top path p else traverse_cow top path p with
   | Some tp ->
     let tv = read_keys top tp in
     if (&&) ((||) appending merging) (negb (is_null tv))
     then (match value with
           | Null -> (top, true)
           | Scalar s ->
             if appending
             then (match tv with
                   | Scalar t ->
                     ((write_keys top tp (Scalar (app t s))), true)
                   | _ -> (top, false))
             else (top, false)
           | Lst vl ->
             if appending
             then (match tv with
                   | Lst tl0 ->
                     ((match vl with
                       | [] -> top
                       | _ :: _ -> write_keys top tp (Lst (app tl0 vl))),
                       true)
                   | _ ->
                     if item_empty tv
                     then ((write_keys top tp (Lst vl)), true)
                     else (top, false))
             else (top, false)
           | Map vm ->
             if merging
             then merge_loop (fun k v top0 -> edit_node v top0 tp k true) vm
                    top
             else (top, false))
     else ((write_keys top tp value), true)
   | None -> (top, false))

(** val merge_tree : (str * item) list -> item -> str list -> item * bool **)

let merge_tree m top path =
  merge_loop (fun k v top0 -> edit_node v top0 path k true) m top

(** val patch_literal : (str * item) list -> item -> item * bool **)

let rec patch_literal m top =
  match m with
  | [] -> (top, true)
  | p :: m' ->
    let (k, v) = p in
    let (top', ok) = edit_node v top [] k false in
    let (top'', ok') = patch_literal m' top' in (top'', ((&&) ok ok'))

(** val include_over : item -> item -> item * bool **)

let include_over included = function
| Map m0 ->
  (match m0 with
   | [] -> (included, true)
   | e :: m -> merge_tree (e :: m) included [])
| _ -> (included, true)

type flags = { f_err : bool; f_cyc : bool; f_oof : bool }

(** val fl0 : flags **)

let fl0 =
  { f_err = false; f_cyc = false; f_oof = false }

(** val fl_err : flags **)

let fl_err =
  { f_err = true; f_cyc = false; f_oof = false }

(** val fl_cyc : flags **)

let fl_cyc =
  { f_err = false; f_cyc = true; f_oof = false }

(** val fl_oof : flags **)

let fl_oof =
  { f_err = false; f_cyc = false; f_oof = true }

(** val fl_or : flags -> flags -> flags **)

let fl_or a b =
  { f_err = ((||) a.f_err b.f_err); f_cyc = ((||) a.f_cyc b.f_cyc); f_oof =
    ((||) a.f_oof b.f_oof) }

(** val fl_of_ok : bool -> flags **)

let fl_of_ok = function
| true -> fl0
| false -> fl_err

type reference = { r_res : str; r_path : str; r_opt : bool }

(** val to_resource_id : str -> str **)

let to_resource_id s =
  remove_suffix s s_yaml

(** val create_reference : str -> str -> reference **)

let create_reference cur q =
  let e = find_last c_quest q in
  let sep = find_first c_colon q in
  let rid =
    match sep with
    | Some s -> (match s with
                 | O -> cur
                 | S _ -> substr q O s)
    | None -> cur
  in
  let lp =
    match sep with
    | Some s ->
      (match e with
       | Some i ->
         if Nat.ltb i s
         then skipn (S s) q
         else substr q (S s) (sub (sub i s) (S O))
       | None -> skipn (S s) q)
    | None -> (match e with
               | Some i -> substr q O i
               | None -> q)
  in
  { r_res = (to_resource_id rid); r_path = lp; r_opt =
  (match e with
   | Some _ -> true
   | None -> false) }

(** val custom_id : str -> str **)

let custom_id res =
  app (remove_suffix res s_schema) s_custom

(** val auto_patch_ref : str -> reference **)

let auto_patch_ref res =
  { r_res = (custom_id res); r_path = s_patchkey; r_opt = true }

(** val idx_key : nat -> str **)

let idx_key i =
  c_at :: (fmt_nat i)

(** val is_prefix : str list -> str list -> bool **)

let rec is_prefix p q =
  match p with
  | [] -> true
  | x :: p' ->
    (match q with
     | [] -> false
     | y :: q' -> (&&) (str_eqb x y) (is_prefix p' q'))

type visiting = (str * str list) list

(** val cyclic_at : visiting -> str -> str list -> bool **)

let cyclic_at vis res path =
  existsb (fun e -> (&&) (str_eqb (fst e) res) (is_prefix path (snd e))) vis

(** val alookup_last : str -> (str * 'a1) list -> 'a1 option **)

let rec alookup_last k = function
| [] -> None
| p :: m' ->
  let (k', v) = p in
  (match alookup_last k m' with
   | Some w -> Some w
   | None -> if str_eqb k k' then Some v else None)

type sdir =
| SInc of reference
| SPatRef of reference
| SPatLit of (str * item) list

(** val parse_patch_item : str -> item -> sdir option **)

let parse_patch_item res = function
| Scalar s -> Some (SPatRef (create_reference res s))
| Map pm -> Some (SPatLit pm)
| _ -> None

(** val parse_patch_list : str -> item list -> sdir list * bool **)

let rec parse_patch_list res = function
| [] -> ([], true)
| v :: r ->
  (match parse_patch_item res v with
   | Some d -> let (ds, ok) = parse_patch_list res r in ((d :: ds), ok)
   | None -> ([], false))

(** val parse_patch : str -> item -> sdir list * bool **)

let parse_patch res v = match v with
| Lst l -> parse_patch_list res l
| _ ->
  (match parse_patch_item res v with
   | Some d -> ((d :: []), true)
   | None -> ([], false))

(** val parse_entry : str -> str -> item -> (sdir list * sdir list) * bool **)

let parse_entry res k v =
  if str_eqb k s_include
  then (match v with
        | Scalar s -> ((((SInc (create_reference res s)) :: []), []), true)
        | _ -> (([], []), false))
  else if str_eqb k s_patch
       then let (ds, ok) = parse_patch res v in (([], ds), ok)
       else (([], []), false)

(** val y_patch_item_ok : ydoc -> bool **)

let y_patch_item_ok = function
| YNull -> false
| YSeq _ -> false
| _ -> true

(** val y_entry_blocking : str -> ydoc -> bool **)

let y_entry_blocking k v =
  if str_eqb k s_include
  then (match v with
        | YScalar _ -> true
        | _ -> false)
  else if str_eqb k s_patch
       then (match v with
             | YSeq l ->
               (match l with
                | [] -> false
                | e :: _ -> y_patch_item_ok e)
             | _ -> y_patch_item_ok v)
       else false

(** val y_entry_consumed : str -> ydoc -> bool **)

let y_entry_consumed k v =
  if str_eqb k s_include
  then (match v with
        | YScalar _ -> true
        | _ -> false)
  else if str_eqb k s_patch
       then (match v with
             | YSeq l -> forallb y_patch_item_ok l
             | _ -> y_patch_item_ok v)
       else false

(** val has_root_patch : ydoc -> bool **)

let has_root_patch = function
| YMap m ->
  existsb (fun e ->
    (&&) (str_eqb (fst e) s_patch) (y_entry_blocking (fst e) (snd e))) m
| _ -> false

(** val auto_patched : str -> ydoc -> bool **)

let auto_patched res y =
  (&&) (negb (ends_with res s_custom)) (negb (has_root_patch y))

(** val y_blocking : docs -> str -> str list -> ydoc -> bool **)

let y_blocking ds res path y =
  (||)
    (match path with
     | [] ->
       (&&) (auto_patched res y)
         (match alookup (custom_id res) ds with
          | Some _ -> true
          | None -> false)
     | _ :: _ -> false)
    (match y with
     | YMap m -> existsb (fun e -> y_entry_blocking (fst e) (snd e)) m
     | _ -> false)

(** val item_lookup : item -> str list -> item **)

let rec item_lookup v = function
| [] -> v
| k :: ks' ->
  (match v with
   | Lst l ->
     if is_list_ref k
     then item_lookup (list_get Null l (fst (resolve_index (length l) k))) ks'
     else Null
   | Map m ->
     item_lookup (match alookup k m with
                  | Some c -> c
                  | None -> Null) ks'
   | _ -> Null)

(** val ref_keys : str -> str list **)

let ref_keys p =
  if match p with
     | [] -> true
     | _ :: _ -> str_eqb p s_slash
  then []
  else split_path p

(** val walk :
    (visiting -> str -> str list -> ydoc -> item * flags) -> docs -> visiting
    -> str -> str list -> ydoc -> str list -> item * flags **)

let rec walk rec0 ds vis res path y ks = match ks with
| [] -> if cyclic_at vis res path then (Null, fl_cyc) else rec0 vis res path y
| k :: ks' ->
  if y_blocking ds res path y
  then if cyclic_at vis res path
       then (Null, fl_cyc)
       else let (v, fl) = rec0 vis res path y in ((item_lookup v ks), fl)
  else (match y with
        | YSeq l ->
          if is_list_ref k
          then let i = fst (resolve_index (length l) k) in
               (match nth_error l i with
                | Some c ->
                  walk rec0 ds vis res (app path ((idx_key i) :: [])) c ks'
                | None -> (Null, fl0))
          else (Null, fl0)
        | YMap m ->
          (match alookup_last k m with
           | Some c ->
             if y_entry_consumed k c
             then (Null, fl0)
             else walk rec0 ds vis res (app path (k :: [])) c ks'
           | None -> (Null, fl0))
        | _ -> (Null, fl0))

(** val lookup_ref :
    (visiting -> str -> str list -> ydoc -> item * flags) -> docs -> visiting
    -> reference -> item * flags **)

let lookup_ref rec0 ds vis r =
  match alookup r.r_res ds with
  | Some y -> walk rec0 ds vis r.r_res [] y (ref_keys r.r_path)
  | None -> (Null, fl0)

(** val apply_dirs :
    (visiting -> str -> str list -> ydoc -> item * flags) -> docs -> visiting
    -> sdir list -> item -> item * flags **)

let rec apply_dirs rec0 ds vis dirs cur =
  match dirs with
  | [] -> (cur, fl0)
  | d :: rest ->
    (match d with
     | SInc r ->
       let (v, f) = lookup_ref rec0 ds vis r in
       (match v with
        | Null ->
          let f1 = fl_or f (fl_of_ok r.r_opt) in
          let (cur2, f2) = apply_dirs rec0 ds vis rest cur in
          (cur2, (fl_or f1 f2))
        | _ ->
          let (c, ok) = include_over v cur in
          let f1 = fl_or f (fl_of_ok ok) in
          let (cur2, f2) = apply_dirs rec0 ds vis rest c in
          (cur2, (fl_or f1 f2)))
     | SPatRef r ->
       let (v, f) = lookup_ref rec0 ds vis r in
       (match v with
        | Null ->
          let f1 = fl_or f (fl_of_ok r.r_opt) in
          let (cur2, f2) = apply_dirs rec0 ds vis rest cur in
          (cur2, (fl_or f1 f2))
        | Map pm ->
          let (c, ok) = patch_literal pm cur in
          let f1 = fl_or f (fl_of_ok ok) in
          let (cur2, f2) = apply_dirs rec0 ds vis rest c in
          (cur2, (fl_or f1 f2))
        | _ ->
          let f1 = fl_or f fl_err in
          let (cur2, f2) = apply_dirs rec0 ds vis rest cur in
          (cur2, (fl_or f1 f2)))
     | SPatLit pm ->
       let (c, ok) = patch_literal pm cur in
       let f1 = fl_of_ok ok in
       let (cur2, f2) = apply_dirs rec0 ds vis rest c in (cur2, (fl_or f1 f2)))

(** val plain_map :
    ((str * item) * bool) list -> (str * item) list -> (str * item) list **)

let rec plain_map es acc =
  match es with
  | [] -> acc
  | p :: r ->
    let (p0, consumed) = p in
    let (k, v) = p0 in plain_map r (if consumed then acc else sset k v acc)

(** val seq_children :
    (str list -> ydoc -> item * flags) -> str list -> ydoc list -> nat ->
    item list * flags **)

let rec seq_children comp path l i =
  match l with
  | [] -> ([], fl0)
  | c :: r ->
    let (v, f1) = comp (app path ((idx_key i) :: [])) c in
    let (vs, f2) = seq_children comp path r (S i) in
    ((v :: vs), (fl_or f1 f2))

(** val map_children :
    (str list -> ydoc -> item * flags) -> str -> str list -> (str * ydoc)
    list -> ((((str * item) * bool) list * sdir list) * sdir list) * flags **)

let rec map_children comp res path = function
| [] -> ((([], []), []), fl0)
| p :: r ->
  let (k, c) = p in
  let (v, f1) = comp (app path (k :: [])) c in
  let (p0, consumed) = parse_entry res k v in
  let (i1, p1) = p0 in
  let bad = (&&) ((&&) (str_eqb k s_patch) (negb consumed)) (negb (is_null v))
  in
  let (p2, f2) = map_children comp res path r in
  let (p3, p4) = p2 in
  let (es, i2) = p3 in
  ((((((k, v), consumed) :: es), (app i1 i2)), (app p1 p4)),
  (fl_or (fl_or f1 f2) (fl_of_ok (negb bad))))

(** val auto_dirs : str -> str list -> ydoc -> sdir list **)

let auto_dirs res path y =
  match path with
  | [] ->
    if auto_patched res y then (SPatRef (auto_patch_ref res)) :: [] else []
  | _ :: _ -> []

(** val spec_node :
    docs -> nat -> visiting -> str -> str list -> ydoc -> item * flags **)

let rec spec_node ds = function
| O -> (fun _ _ _ _ -> (Null, fl_oof))
| S f ->
  let rec go vis res path y = match y with
  | YNull -> (Null, fl0)
  | YScalar s -> ((Scalar s), fl0)
  | YSeq l ->
    let vis' = (res, path) :: vis in
    let (vs, fl) = seq_children (fun p c -> go vis' res p c) path l O in
    ((Lst vs), fl)
  | YMap m ->
    let vis' = (res, path) :: vis in
    let (p, fl1) = map_children (fun p c -> go vis' res p c) res path m in
    let (p0, pats) = p in
    let (es, incs) = p0 in
    let cur = Map (plain_map es []) in
    let (v, fl2) =
      apply_dirs (spec_node ds f) ds vis'
        (app incs (app pats (auto_dirs res path y))) cur
    in
    (v, (fl_or fl1 fl2))
  in go

(** val spec_include_at :
    docs -> nat -> item -> str -> reference -> (item * flags) * bool **)

let spec_include_at ds fuel root key r =
  let (v, f) = lookup_ref (spec_node ds fuel) ds [] r in
  (match v with
   | Null -> ((root, f), r.r_opt)
   | _ ->
     let (c, ok) = include_over v (read_child root key) in
     (((write_child root key c), (fl_or f (fl_of_ok ok))), ok))

(** val traverse : item -> str list -> item **)

let rec traverse v = function
| [] -> v
| k :: ks' ->
  if is_list_ref k
  then (match v with
        | Lst l ->
          traverse (list_get Null l (fst (resolve_index (length l) k))) ks'
        | _ -> Null)
  else (match v with
        | Map m ->
          traverse (match alookup k m with
                    | Some c -> c
                    | None -> Null) ks'
        | _ -> Null)

(** val preset_step :
    docs -> nat -> str -> bool -> ((item * flags) * bool) ->
    (item * flags) * bool **)

let preset_step ds fuel section kb st = match st with
| (p, ok) ->
  let (root, fl) = p in
  if negb ok
  then st
  else (match traverse root (section :: (s_import_preset :: [])) with
        | Null -> st
        | Scalar pid ->
          let root1 =
            if kb
            then (match read_child root section with
                  | Map km ->
                    (match alookup s_bindings km with
                     | Some b ->
                       (match b with
                        | Null -> root
                        | _ ->
                          write_child root section (Map
                            (sset s_bindings Null (sset s_bindings_add b km))))
                     | None -> root)
                  | _ -> root)
            else root
          in
          let (p0, ok2) =
            spec_include_at ds fuel root1 section { r_res = pid; r_path =
              section; r_opt = false }
          in
          let (root2, f) = p0 in
          ((root2, (fl_or fl (fl_or f (fl_of_ok ok2)))), ok2)
        | _ -> ((root, (fl_or fl fl_err)), false))

(** val spec_link : docs -> nat -> str -> ((bool * item) * flags) * bool **)

let spec_link ds fuel name =
  let name0 = to_resource_id name in
  (match alookup name0 ds with
   | Some y ->
     let (root, fl) = spec_node ds fuel [] name0 [] y in
     if (||) ((||) fl.f_err fl.f_cyc) fl.f_oof
     then (((true, root), fl), false)
     else if negb (ends_with name0 s_schema)
          then (((true, root), fl), true)
          else let (p, ok1) =
                 spec_include_at ds fuel root s_menu { r_res = s_default;
                   r_path = s_menu; r_opt = true }
               in
               let (r1, f1) = p in
               let st1 = ((r1, (fl_or fl f1)), ok1) in
               let st2 = preset_step ds fuel s_key_binder true st1 in
               let st3 = preset_step ds fuel s_punctuator false st2 in
               let (p0, ok4) = preset_step ds fuel s_recognizer false st3 in
               let (r4, f4) = p0 in (((true, r4), f4), ok4)
   | None -> (((false, Null), fl0), false))

(** val compile_spec : docs -> nat -> str -> item **)

let compile_spec ds fuel name =
  let (p, _) = spec_link ds fuel name in
  let (p0, _) = p in let (_, v) = p0 in v

type ptr = nat option

type hnode =
| HScalar of str
| HList of ptr list
| HMap of (str * ptr) list

type heap = hnode list

type iref =
| RRes of str
| RMapE of nat * str
| RListE of nat * nat
| RCow of bool * iref * str * nat option

type dep =
| DPending of str
| DInclude of reference * iref
| DPatchRef of reference * iref
| DPatchLit of nat * iref

(** val priority : dep -> nat **)

let priority = function
| DPending _ -> O
| DInclude (_, _) -> S O
| _ -> S (S O)

type resource = { rs_root : ptr; rs_loaded : bool }

type state = { st_heap : heap; st_res : (str * resource) list;
               st_deps : (str * dep list) list; st_chain : str list;
               st_oof : bool; st_woof : bool; st_ub : bool }

(** val st0 : state **)

let st0 =
  { st_heap = []; st_res = []; st_deps = []; st_chain = []; st_oof = false;
    st_woof = false; st_ub = false }

(** val with_heap : state -> heap -> state **)

let with_heap st h =
  { st_heap = h; st_res = st.st_res; st_deps = st.st_deps; st_chain =
    st.st_chain; st_oof = st.st_oof; st_woof = st.st_woof; st_ub = st.st_ub }

(** val with_res : state -> (str * resource) list -> state **)

let with_res st r =
  { st_heap = st.st_heap; st_res = r; st_deps = st.st_deps; st_chain =
    st.st_chain; st_oof = st.st_oof; st_woof = st.st_woof; st_ub = st.st_ub }

(** val with_deps : state -> (str * dep list) list -> state **)

let with_deps st d =
  { st_heap = st.st_heap; st_res = st.st_res; st_deps = d; st_chain =
    st.st_chain; st_oof = st.st_oof; st_woof = st.st_woof; st_ub = st.st_ub }

(** val with_chain : state -> str list -> state **)

let with_chain st c =
  { st_heap = st.st_heap; st_res = st.st_res; st_deps = st.st_deps;
    st_chain = c; st_oof = st.st_oof; st_woof = st.st_woof; st_ub = st.st_ub }

(** val set_oof : state -> state **)

let set_oof st =
  { st_heap = st.st_heap; st_res = st.st_res; st_deps = st.st_deps;
    st_chain = st.st_chain; st_oof = true; st_woof = st.st_woof; st_ub =
    st.st_ub }

(** val set_woof : state -> state **)

let set_woof st =
  { st_heap = st.st_heap; st_res = st.st_res; st_deps = st.st_deps;
    st_chain = st.st_chain; st_oof = st.st_oof; st_woof = true; st_ub =
    st.st_ub }

(** val set_ub : state -> state **)

let set_ub st =
  { st_heap = st.st_heap; st_res = st.st_res; st_deps = st.st_deps;
    st_chain = st.st_chain; st_oof = st.st_oof; st_woof = st.st_woof; st_ub =
    true }

(** val hget : heap -> nat -> hnode option **)

let hget =
  nth_error

(** val hset : heap -> nat -> hnode -> heap **)

let rec hset h a n0 =
  match h with
  | [] -> []
  | x :: r -> (match a with
               | O -> n0 :: r
               | S a' -> x :: (hset r a' n0))

(** val alloc : state -> hnode -> nat * state **)

let alloc st n0 =
  ((length st.st_heap), (with_heap st (app st.st_heap (n0 :: []))))

(** val deref : state -> ptr -> hnode option **)

let deref st = function
| Some a -> hget st.st_heap a
| None -> None

(** val as_map : state -> ptr -> (nat * (str * ptr) list) option **)

let as_map st = function
| Some a ->
  (match hget st.st_heap a with
   | Some h -> (match h with
                | HMap m -> Some (a, m)
                | _ -> None)
   | None -> None)
| None -> None

(** val as_list : state -> ptr -> (nat * ptr list) option **)

let as_list st = function
| Some a ->
  (match hget st.st_heap a with
   | Some h -> (match h with
                | HList l -> Some (a, l)
                | _ -> None)
   | None -> None)
| None -> None

(** val map_get : (str * ptr) list -> str -> ptr **)

let map_get m k =
  match alookup k m with
  | Some p -> p
  | None -> None

(** val res_root : state -> str -> ptr **)

let res_root st id =
  match alookup id st.st_res with
  | Some r -> r.rs_root
  | None -> None

(** val set_root : state -> str -> ptr -> state **)

let set_root st id p =
  match alookup id st.st_res with
  | Some r ->
    with_res st (aset id { rs_root = p; rs_loaded = r.rs_loaded } st.st_res)
  | None -> st

(** val get_item : state -> iref -> ptr **)

let rec get_item st = function
| RRes id -> res_root st id
| RMapE (a, k) ->
  (match hget st.st_heap a with
   | Some h -> (match h with
                | HMap m -> map_get m k
                | _ -> None)
   | None -> None)
| RListE (a, i) ->
  (match hget st.st_heap a with
   | Some h -> (match h with
                | HList l -> nth i l None
                | _ -> None)
   | None -> None)
| RCow (islist, p, k, _) ->
  if islist
  then (match as_list st (get_item st p) with
        | Some p0 ->
          let (_, l) = p0 in nth (fst (resolve_index (length l) k)) l None
        | None -> None)
  else (match as_map st (get_item st p) with
        | Some p0 -> let (_, m) = p0 in map_get m k
        | None -> None)

(** val cow_write : state -> bool -> nat -> str -> ptr -> state **)

let cow_write st _ a k v =
  match hget st.st_heap a with
  | Some h ->
    (match h with
     | HScalar _ -> set_ub st
     | HList l ->
       let (i, ins) = resolve_index (length l) k in
       let l1 = if ins then list_insert None l i None else l in
       with_heap st (hset st.st_heap a (HList (list_set_at None l1 i v)))
     | HMap m -> with_heap st (hset st.st_heap a (HMap (sset k v m))))
  | None -> set_ub st

(** val set_item : state -> iref -> ptr -> state * iref **)

let rec set_item st r v =
  match r with
  | RRes id -> ((set_root st id v), r)
  | RMapE (a, k) ->
    ((match hget st.st_heap a with
      | Some h ->
        (match h with
         | HMap m -> with_heap st (hset st.st_heap a (HMap (sset k v m)))
         | _ -> set_ub st)
      | None -> set_ub st), r)
  | RListE (a, i) ->
    ((match hget st.st_heap a with
      | Some h ->
        (match h with
         | HList l ->
           with_heap st (hset st.st_heap a (HList (list_set_at None l i v)))
         | _ -> set_ub st)
      | None -> set_ub st), r)
  | RCow (islist, p, k, copied) ->
    (match copied with
     | Some a -> ((cow_write st islist a k v), r)
     | None ->
       let cont =
         if islist
         then option_map fst (as_list st (get_item st p))
         else option_map fst (as_map st (get_item st p))
       in
       let node =
         match cont with
         | Some a ->
           (match hget st.st_heap a with
            | Some n0 -> n0
            | None -> HMap [])
         | None -> if islist then HList [] else HMap []
       in
       let (a', st1) = alloc st node in
       let (st2, p') = set_item st1 p (Some a') in
       ((cow_write st2 islist a' k v), (RCow (islist, p', k, (Some a')))))

(** val cow : iref -> str -> iref **)

let cow parent k =
  RCow ((is_list_ref k), parent, k, None)

(** val node_is_list : hnode -> bool **)

let node_is_list = function
| HList _ -> true
| _ -> false

(** val node_is_map : hnode -> bool **)

let node_is_map = function
| HMap _ -> true
| _ -> false

(** val node_empty : hnode -> bool **)

let node_empty = function
| HScalar s -> (match s with
                | [] -> true
                | _ :: _ -> false)
| HList l -> (match l with
              | [] -> true
              | _ :: _ -> false)
| HMap m -> (match m with
             | [] -> true
             | _ :: _ -> false)

(** val type_checked_h : state -> iref -> str -> iref option **)

let type_checked_h st parent k = match k with
| [] -> Some parent
| _ :: _ ->
  (match deref st (get_item st parent) with
   | Some n0 ->
     if if is_list_ref k then node_is_list n0 else node_is_map n0
     then Some (cow parent k)
     else None
   | None -> Some (cow parent k))

(** val type_checked_all_h : state -> iref -> str list -> iref option **)

let rec type_checked_all_h st head = function
| [] -> Some head
| k :: ks' ->
  (match type_checked_h st head k with
   | Some c -> type_checked_all_h st c ks'
   | None -> None)

(** val traverse_cow_h : state -> iref -> str -> iref option **)

let traverse_cow_h st head p =
  if match p with
     | [] -> true
     | _ :: _ -> str_eqb p s_slash
  then Some head
  else type_checked_all_h st head (split_path p)

(** val strip_cows : nat -> iref -> iref **)

let rec strip_cows n0 r =
  match n0 with
  | O -> r
  | S n' -> (match r with
             | RCow (_, p, _, _) -> strip_cows n' p
             | _ -> r)

(** val nonempty_keys : str list -> nat **)

let nonempty_keys ks =
  length (filter (fun k -> match k with
                           | [] -> false
                           | _ :: _ -> true) ks)

(** val ptr_is_map : state -> ptr -> bool **)

let ptr_is_map st p =
  match deref st p with
  | Some h -> (match h with
               | HMap _ -> true
               | _ -> false)
  | None -> false

(** val merge_loop_h :
    (state -> iref -> str -> ptr -> (bool * state) * iref) -> (str * ptr)
    list -> state -> iref -> (bool * state) * iref **)

let rec merge_loop_h ed m st tgt =
  match m with
  | [] -> ((true, st), tgt)
  | p :: m' ->
    let (k, v) = p in
    let (p0, tgt1) = ed st tgt k v in
    let (ok, st1) = p0 in
    if ok then merge_loop_h ed m' st1 tgt1 else ((false, st1), tgt1)

(** val edit_node_h :
    nat -> state -> iref -> str -> ptr -> bool -> (bool * state) * iref **)

let rec edit_node_h wf st head key value mt =
  match wf with
  | O -> ((false, (set_woof st)), head)
  | S wf' ->
    let appending = is_appending key in
    let merging =
      (||) ((||) (str_eqb key s_merge) (ends_with key s_add))
        ((&&)
          ((&&) mt
            (match value with
             | Some _ -> ptr_is_map st value
             | None -> true)) (negb (ends_with key s_equ)))
    in
    let p = strip_operator key ((||) appending merging) in
    let depth =
      if mt
      then nonempty_keys (p :: [])
      else if match p with
              | [] -> true
              | _ :: _ -> str_eqb p s_slash
           then O
           else nonempty_keys (split_path p)
    in
    (match if mt then type_checked_h st head p else traverse_cow_h st head p with
     | Some target ->
       let tv = get_item st target in
       (match tv with
        | Some ta ->
          if (||) appending merging
          then (match value with
                | Some va ->
                  (match hget st.st_heap va with
                   | Some h ->
                     (match h with
                      | HScalar s ->
                        if appending
                        then (match hget st.st_heap ta with
                              | Some h0 ->
                                (match h0 with
                                 | HScalar t ->
                                   let (a', st1) =
                                     alloc st (HScalar (app t s))
                                   in
                                   let (st2, target') =
                                     set_item st1 target (Some a')
                                   in
                                   ((true, st2), (strip_cows depth target'))
                                 | _ -> ((false, st), head))
                              | None -> ((false, st), head))
                        else ((false, st), head)
                      | HList vl ->
                        if appending
                        then (match hget st.st_heap ta with
                              | Some n0 ->
                                (match n0 with
                                 | HList tl0 ->
                                   (match vl with
                                    | [] -> ((true, st), head)
                                    | _ :: _ ->
                                      let (a', st1) =
                                        alloc st (HList (app tl0 vl))
                                      in
                                      let (st2, target') =
                                        set_item st1 target (Some a')
                                      in
                                      ((true, st2),
                                      (strip_cows depth target')))
                                 | _ ->
                                   if node_empty n0
                                   then let (a', st1) = alloc st (HList vl) in
                                        let (st2, target') =
                                          set_item st1 target (Some a')
                                        in
                                        ((true, st2),
                                        (strip_cows depth target'))
                                   else ((false, st), head))
                              | None -> ((false, (set_ub st)), head))
                        else ((false, st), head)
                      | HMap vm ->
                        if merging
                        then let (p0, target') =
                               merge_loop_h (fun s t k v ->
                                 edit_node_h wf' s t k v true) vm st target
                             in
                             (p0, (strip_cows depth target'))
                        else ((false, st), head))
                   | None -> ((false, (set_ub st)), head))
                | None -> ((true, st), head))
          else let (st1, target') = set_item st target value in
               ((true, st1), (strip_cows depth target'))
        | None ->
          let (st1, target') = set_item st target value in
          ((true, st1), (strip_cows depth target')))
     | None -> ((false, st), head))

(** val merge_tree_h :
    nat -> (str * ptr) list -> state -> iref -> (bool * state) * iref **)

let merge_tree_h wf m st tgt =
  merge_loop_h (fun s t k v -> edit_node_h wf s t k v true) m st tgt

(** val patch_literal_h :
    nat -> (str * ptr) list -> state -> iref -> (bool * state) * iref **)

let rec patch_literal_h wf m st tgt =
  match m with
  | [] -> ((true, st), tgt)
  | p :: m' ->
    let (k, v) = p in
    let (p0, tgt1) = edit_node_h wf st tgt k v false in
    let (ok, st1) = p0 in
    let (p1, tgt2) = patch_literal_h wf m' st1 tgt1 in
    let (ok', st2) = p1 in ((((&&) ok ok'), st2), tgt2)

(** val include_h : nat -> state -> iref -> ptr -> (bool * state) * iref **)

let include_h wf st target included =
  let overrides = as_map st (get_item st target) in
  let (st1, target1) = set_item st target included in
  (match overrides with
   | Some p ->
     let (_, l) = p in
     (match l with
      | [] -> ((true, st1), target1)
      | e :: m -> merge_tree_h wf (e :: m) st1 target1)
   | None -> ((true, st1), target1))

(** val deps_at : state -> str -> dep list option **)

let deps_at st path =
  alookup path st.st_deps

(** val insert_by_priority : dep list -> dep -> dep list **)

let rec insert_by_priority l d =
  match l with
  | [] -> d :: []
  | x :: r ->
    if Nat.ltb (priority d) (priority x)
    then d :: (x :: r)
    else x :: (insert_by_priority r d)

(** val add_dep_at : state -> str -> dep -> state **)

let add_dep_at st path d =
  with_deps st
    (aset path
      (insert_by_priority
        (match deps_at st path with
         | Some l -> l
         | None -> []) d) st.st_deps)

(** val pending_at : state -> str -> bool **)

let pending_at st path =
  match deps_at st path with
  | Some l -> (match l with
               | [] -> false
               | _ :: _ -> true)
  | None -> false

(** val join_path : str list -> str **)

let join_path keys =
  join_with s_slash keys

(** val spread_pending : state -> str list -> state **)

let rec spread_pending st = function
| [] -> st
| last_key :: rest ->
  (match rest with
   | [] -> st
   | _ :: _ ->
     let parent_path = join_path (rev rest) in
     let was = pending_at st parent_path in
     let st1 =
       add_dep_at st parent_path (DPending
         (app parent_path (app s_slash last_key)))
     in
     if (||) was (Nat.eqb (length rest) (S O))
     then st1
     else spread_pending st1 rest)

(** val graph_add :
    state -> iref list -> str list -> (iref -> dep) -> state **)

let graph_add st nstack kstack mk =
  match nstack with
  | [] -> st
  | target :: _ ->
    let path = join_path (rev kstack) in
    let was = pending_at st path in
    let st1 = add_dep_at st path (mk target) in
    if (||) was (Nat.eqb (length kstack) (S O))
    then st1
    else spread_pending st1 kstack

(** val current_resource_id : str list -> str **)

let current_resource_id kstack =
  match rev kstack with
  | [] -> []
  | k :: _ -> trim_right c_colon k

(** val parse_patch_h :
    state -> iref list -> str list -> ptr -> bool * state **)

let parse_patch_h st ns ks = function
| Some a ->
  (match hget st.st_heap a with
   | Some h ->
     (match h with
      | HScalar s ->
        (true,
          (graph_add st ns ks (fun x -> DPatchRef
            ((create_reference (current_resource_id ks) s), x))))
      | HList _ -> (false, st)
      | HMap _ -> (true, (graph_add st ns ks (fun x -> DPatchLit (a, x)))))
   | None -> (false, st))
| None -> (false, st)

(** val parse_patch_list_h :
    state -> iref list -> str list -> ptr list -> bool * state **)

let rec parse_patch_list_h st ns ks = function
| [] -> (true, st)
| x :: r ->
  let (ok, st1) = parse_patch_h st ns ks x in
  if ok then parse_patch_list_h st1 ns ks r else (false, st1)

(** val parse_h :
    state -> iref list -> str list -> str -> ptr -> bool * state **)

let parse_h st ns ks key item0 =
  if str_eqb key s_include
  then (match deref st item0 with
        | Some h ->
          (match h with
           | HScalar s ->
             (true,
               (graph_add st ns ks (fun x -> DInclude
                 ((create_reference (current_resource_id ks) s), x))))
           | _ -> (false, st))
        | None -> (false, st))
  else if str_eqb key s_patch
       then (match as_list st item0 with
             | Some p -> let (_, l) = p in parse_patch_list_h st ns ks l
             | None -> parse_patch_h st ns ks item0)
       else (false, st)

(** val heap_map_set : state -> nat -> str -> ptr -> state **)

let heap_map_set st a k v =
  match hget st.st_heap a with
  | Some h ->
    (match h with
     | HMap m -> with_heap st (hset st.st_heap a (HMap (sset k v m)))
     | _ -> set_ub st)
  | None -> set_ub st

(** val heap_list_append : state -> nat -> ptr -> state **)

let heap_list_append st a v =
  match hget st.st_heap a with
  | Some h ->
    (match h with
     | HList l -> with_heap st (hset st.st_heap a (HList (app l (v :: []))))
     | _ -> set_ub st)
  | None -> set_ub st

(** val conv_seq :
    (ydoc -> iref list -> str list -> state -> ptr * state) -> nat -> iref
    list -> str list -> ydoc list -> nat -> state -> state **)

let rec conv_seq conv a ns ks l i st =
  match l with
  | [] -> st
  | c :: r ->
    let (p, st') = conv c ((RListE (a, i)) :: ns) ((idx_key i) :: ks) st in
    conv_seq conv a ns ks r (S i) (heap_list_append st' a p)

(** val conv_map :
    (ydoc -> iref list -> str list -> state -> ptr * state) -> nat -> iref
    list -> str list -> (str * ydoc) list -> state -> state **)

let rec conv_map conv a ns ks m st =
  match m with
  | [] -> st
  | p :: r ->
    let (k, c) = p in
    let (p0, st') = conv c ((RMapE (a, k)) :: ns) (k :: ks) st in
    let (consumed, st'') = parse_h st' ns ks k p0 in
    conv_map conv a ns ks r
      (if consumed then st'' else heap_map_set st'' a k p0)

(** val convert : ydoc -> iref list -> str list -> state -> ptr * state **)

let rec convert y ns ks st =
  match y with
  | YNull -> (None, st)
  | YScalar s -> let (a, st1) = alloc st (HScalar s) in ((Some a), st1)
  | YSeq l ->
    let (a, st1) = alloc st (HList []) in
    ((Some a), (conv_seq convert a ns ks l O st1))
  | YMap m ->
    let (a, st1) = alloc st (HMap []) in
    ((Some a), (conv_map convert a ns ks m st1))

(** val auto_patch_h : state -> str -> state **)

let auto_patch_h st id =
  if ends_with id s_custom
  then st
  else let root_path = app id (c_colon :: []) in
       (match deps_at st root_path with
        | Some l0 ->
          (match l0 with
           | [] ->
             graph_add st ((RRes id) :: []) (root_path :: []) (fun x ->
               DPatchRef ((auto_patch_ref id), x))
           | d :: l ->
             if Nat.leb (S (S O)) (priority (last l d))
             then st
             else graph_add st ((RRes id) :: []) (root_path :: []) (fun x ->
                    DPatchRef ((auto_patch_ref id), x)))
        | None ->
          graph_add st ((RRes id) :: []) (root_path :: []) (fun x ->
            DPatchRef ((auto_patch_ref id), x)))

(** val compile_h : docs -> state -> str -> (str * bool) * state **)

let compile_h ds st file_name =
  let id = to_resource_id file_name in
  let st1 =
    with_res st (aset id { rs_root = None; rs_loaded = false } st.st_res)
  in
  (match alookup id ds with
   | Some y ->
     let (p, st2) =
       convert y ((RRes id) :: []) ((app id (c_colon :: [])) :: []) st1
     in
     let st3 =
       with_res st2 (aset id { rs_root = p; rs_loaded = true } st2.st_res)
     in
     ((id, true), (auto_patch_h st3 id))
   | None -> ((id, false), (auto_patch_h st1 id)))

(** val blocking : state -> str -> bool **)

let blocking st path =
  match deps_at st path with
  | Some l0 ->
    (match l0 with
     | [] -> false
     | d :: l -> Nat.ltb O (priority (last l d)))
  | None -> false

(** val has_circular : state -> str -> bool **)

let has_circular st path =
  existsb (fun x ->
    (&&) (starts_with x path)
      ((||) (Nat.eqb (length x) (length path))
        (match nth_error x (length path) with
         | Some c -> beqb c c_slash
         | None -> false))) st.st_chain

(** val erase_head_dep : state -> str -> state **)

let erase_head_dep st path =
  match deps_at st path with
  | Some l0 ->
    (match l0 with
     | [] -> st
     | _ :: l -> with_deps st (aset path l st.st_deps))
  | None -> st

(** val walk_keys :
    (str -> state -> bool * state) -> str list -> state -> iref -> str ->
    ptr * state **)

let rec walk_keys rec0 keys st node node_path =
  match keys with
  | [] ->
    let (ok, st1) = rec0 node_path st in
    ((if ok then get_item st1 node else None), st1)
  | key :: keys' ->
    let st1 = if blocking st node_path then snd (rec0 node_path st) else st in
    let item0 = get_item st1 node in
    (match item0 with
     | Some a ->
       (match hget st1.st_heap a with
        | Some h ->
          (match h with
           | HScalar _ -> (None, st1)
           | HList l ->
             if is_list_ref key
             then let i = fst (resolve_index (length l) key) in
                  walk_keys rec0 keys' st1 (RListE (a, i))
                    (app node_path (app s_slash (idx_key i)))
             else (None, st1)
           | HMap _ ->
             walk_keys rec0 keys' st1 (RMapE (a, key))
               (app node_path (app s_slash key)))
        | None -> (None, st1))
     | None -> (None, st1))

(** val get_resolved_item :
    (str -> state -> bool * state) -> state -> str -> str -> ptr * state **)

let get_resolved_item rec0 st id path =
  walk_keys rec0 (ref_keys path) st (RRes id) (app id (c_colon :: []))

(** val resolve_reference :
    docs -> (str -> state -> bool * state) -> state -> reference ->
    ptr * state **)

let resolve_reference ds rec0 st r =
  match alookup r.r_res st.st_res with
  | Some rs ->
    if rs.rs_loaded
    then get_resolved_item rec0 st r.r_res r.r_path
    else (None, st)
  | None ->
    let (p, st1) = compile_h ds st r.r_res in
    let (id, loaded) = p in
    if loaded then get_resolved_item rec0 st1 id r.r_path else (None, st1)

(** val resolve_dep :
    docs -> nat -> (str -> state -> bool * state) -> state -> dep ->
    bool * state **)

let resolve_dep ds wf rec0 st = function
| DPending cp -> rec0 cp st
| DInclude (r, t) ->
  let (inc, st1) = resolve_reference ds rec0 st r in
  (match inc with
   | Some _ -> let (p, _) = include_h wf st1 t inc in p
   | None -> (r.r_opt, st1))
| DPatchRef (r, t) ->
  let (p, st1) = resolve_reference ds rec0 st r in
  (match p with
   | Some _ ->
     (match as_map st1 p with
      | Some p0 ->
        let (_, m) = p0 in let (p1, _) = patch_literal_h wf m st1 t in p1
      | None -> (false, st1))
   | None -> (r.r_opt, st1))
| DPatchLit (a, t) ->
  (match as_map st (Some a) with
   | Some p -> let (_, m) = p in let (p0, _) = patch_literal_h wf m st t in p0
   | None -> (false, (set_ub st)))

(** val resolve_loop :
    docs -> nat -> (str -> state -> bool * state) -> dep list -> str -> state
    -> bool * state **)

let rec resolve_loop ds wf rec0 snapshot path st =
  match snapshot with
  | [] -> (true, st)
  | d :: rest ->
    let (ok, st1) = resolve_dep ds wf rec0 st d in
    if ok
    then resolve_loop ds wf rec0 rest path (erase_head_dep st1 path)
    else (false, st1)

(** val resolve_deps_body :
    docs -> nat -> (str -> state -> bool * state) -> str -> state ->
    bool * state **)

let resolve_deps_body ds wf rec0 path st =
  match deps_at st path with
  | Some l ->
    if has_circular st path
    then (false, st)
    else let st1 = with_chain st (app st.st_chain (path :: [])) in
         let (ok, st2) = resolve_loop ds wf rec0 l path st1 in
         if ok
         then (true, (with_chain st2 (removelast st2.st_chain)))
         else (false, st2)
  | None -> (true, st)

(** val resolve_deps : docs -> nat -> nat -> str -> state -> bool * state **)

let rec resolve_deps ds wf fuel path st =
  match fuel with
  | O -> (false, (set_oof st))
  | S f -> resolve_deps_body ds wf (resolve_deps ds wf f) path st

(** val include_plugin :
    docs -> nat -> nat -> state -> iref -> reference -> (bool * state) * iref **)

let include_plugin ds wf fuel st target r =
  let (inc, st1) = resolve_reference ds (resolve_deps ds wf fuel) st r in
  (match inc with
   | Some _ -> include_h wf st1 target inc
   | None -> ((r.r_opt, st1), target))

(** val traverse_h : state -> ptr -> str list -> ptr **)

let rec traverse_h st p = function
| [] -> p
| k :: ks' ->
  if is_list_ref k
  then (match as_list st p with
        | Some p0 ->
          let (_, l) = p0 in
          traverse_h st (nth (fst (resolve_index (length l) k)) l None) ks'
        | None -> None)
  else (match as_map st p with
        | Some p0 -> let (_, m) = p0 in traverse_h st (map_get m k) ks'
        | None -> None)

(** val preset_step_h :
    docs -> nat -> nat -> str -> str -> bool -> (bool * state) -> bool * state **)

let preset_step_h ds wf fuel id section kb acc = match acc with
| (ok, st) ->
  if negb ok
  then acc
  else (match traverse_h st (res_root st id)
                (section :: (s_import_preset :: [])) with
        | Some pa ->
          (match hget st.st_heap pa with
           | Some h ->
             (match h with
              | HScalar pid ->
                let target = cow (RRes id) section in
                let (st1, target1) =
                  if kb
                  then (match as_map st (get_item st target) with
                        | Some p ->
                          let (_, km) = p in
                          (match map_get km s_bindings with
                           | Some b ->
                             let (st', c') =
                               set_item st (cow target s_bindings_add) (Some
                                 b)
                             in
                             let target' =
                               match c' with
                               | RCow (_, p0, _, _) -> p0
                               | _ -> target
                             in
                             ((match as_map st' (get_item st' target') with
                               | Some p0 ->
                                 let (ka, _) = p0 in
                                 heap_map_set st' ka s_bindings None
                               | None -> set_ub st'), target')
                           | None -> (st, target))
                        | None -> (st, target))
                  else (st, target)
                in
                let (p, _) =
                  include_plugin ds wf fuel st1 target1 { r_res = pid;
                    r_path = section; r_opt = false }
                in
                p
              | _ -> (false, st))
           | None -> (false, st))
        | None -> acc)

(** val link_h : docs -> nat -> nat -> state -> str -> bool * state **)

let link_h ds wf fuel st id =
  match alookup id st.st_res with
  | Some _ ->
    let (ok, st1) = resolve_deps ds wf fuel (app id (c_colon :: [])) st in
    if negb ok
    then (false, st1)
    else let (ok2, st2) =
           if ends_with id s_schema
           then let (p, _) =
                  include_plugin ds wf fuel st1 (cow (RRes id) s_menu)
                    { r_res = s_default; r_path = s_menu; r_opt = true }
                in
                preset_step_h ds wf fuel id s_recognizer false
                  (preset_step_h ds wf fuel id s_punctuator false
                    (preset_step_h ds wf fuel id s_key_binder true p))
           else (true, st1)
         in
         if negb ok2
         then (false, st2)
         else let st3 =
                let (b, s') = alloc st2 (HMap []) in
                fst (set_item s' (cow (RRes id) s_build_info) (Some b))
              in
              (true, st3)
  | None -> (false, st)

(** val rb_list : (ptr -> item * bool) -> ptr list -> item list * bool **)

let rec rb_list rb = function
| [] -> ([], true)
| x :: r ->
  let (v, o1) = rb x in
  let (vs, o2) = rb_list rb r in ((v :: vs), ((&&) o1 o2))

(** val rb_map :
    (ptr -> item * bool) -> (str * ptr) list -> (str * item) list * bool **)

let rec rb_map rb = function
| [] -> ([], true)
| p :: r ->
  let (k, x) = p in
  let (v, o1) = rb x in
  let (vs, o2) = rb_map rb r in (((k, v) :: vs), ((&&) o1 o2))

(** val readback : nat -> heap -> ptr -> item * bool **)

let rec readback wf h p =
  match wf with
  | O -> (Null, false)
  | S wf' ->
    (match p with
     | Some a ->
       (match hget h a with
        | Some h0 ->
          (match h0 with
           | HScalar s -> ((Scalar s), true)
           | HList l ->
             let (vs, ok) = rb_list (readback wf' h) l in ((Lst vs), ok)
           | HMap m ->
             let (vs, ok) = rb_map (readback wf' h) m in ((Map vs), ok))
        | None -> (Null, true))
     | None -> (Null, true))

(** val strip_build_info : item -> item **)

let strip_build_info v = match v with
| Map m -> Map (filter (fun e -> negb (str_eqb (fst e) s_build_info)) m)
| _ -> v

type outcome = { o_loaded : bool; o_linked : bool; o_tree : item;
                 o_oof : bool; o_woof : bool; o_ub : bool; o_state : 
                 state }

(** val compile_impl : docs -> nat -> nat -> str -> outcome **)

let compile_impl ds wf fuel name =
  let (p, st1) = compile_h ds st0 name in
  let (id, loaded) = p in
  let (linked, st2) =
    if loaded then link_h ds wf fuel st1 id else (false, st1)
  in
  let (tree, rok) = readback wf st2.st_heap (res_root st2 id) in
  { o_loaded = loaded; o_linked = linked; o_tree = (strip_build_info tree);
  o_oof = st2.st_oof; o_woof = ((||) st2.st_woof (negb rok)); o_ub =
  st2.st_ub; o_state = st2 }

(** val resource_tree : nat -> state -> str -> item **)

let resource_tree wf st id =
  strip_build_info (fst (readback wf st.st_heap (res_root st id)))

(** val loaded_ids : state -> (str * bool) list **)

let loaded_ids st =
  map (fun e -> ((fst e), (snd e).rs_loaded)) st.st_res

(** val relink : docs -> nat -> nat -> state -> str -> bool * state **)

let relink =
  link_h

(** val seq_scalars : (ydoc -> str list) -> ydoc list -> str list **)

let rec seq_scalars sc = function
| [] -> []
| c :: r -> app (sc c) (seq_scalars sc r)

(** val map_scalars : (ydoc -> str list) -> (str * ydoc) list -> str list **)

let rec map_scalars sc = function
| [] -> []
| p :: r -> let (_, c) = p in app (sc c) (map_scalars sc r)

(** val scalars : ydoc -> str list **)

let rec scalars = function
| YNull -> []
| YScalar s -> s :: []
| YSeq l -> seq_scalars scalars l
| YMap m -> map_scalars scalars m

(** val ynodes : ydoc -> nat **)

let rec ynodes y =
  S
    (match y with
     | YSeq l -> list_sum (map ynodes l)
     | YMap m -> list_sum (map (fun e -> ynodes (snd e)) m)
     | _ -> O)

(** val nscalars : docs -> nat **)

let nscalars ds =
  list_sum (map (fun e -> length (scalars (snd e))) ds)

(** val maxnodes : docs -> nat **)

let maxnodes ds =
  list_max (map (fun e -> ynodes (snd e)) ds)

(** val fuel_bound : docs -> nat **)

let fuel_bound ds =
  mul (mul (S (S O)) (add (S (S (S (S (S O))))) (nscalars ds)))
    (add (S O) (maxnodes ds))
