
val negb : bool -> bool

type nat =
| O
| S of nat

val option_map : ('a1 -> 'a2) -> 'a1 option -> 'a2 option

val fst : ('a1 * 'a2) -> 'a1

val snd : ('a1 * 'a2) -> 'a2

val length : 'a1 list -> nat

val app : 'a1 list -> 'a1 list -> 'a1 list

type comparison =
| Eq
| Lt
| Gt

val add : nat -> nat -> nat

val mul : nat -> nat -> nat

val sub : nat -> nat -> nat

val max : nat -> nat -> nat

type byte =
| X00
| X01
| X02
| X03
| X04
| X05
| X06
| X07
| X08
| X09
| X0a
| X0b
| X0c
| X0d
| X0e
| X0f
| X10
| X11
| X12
| X13
| X14
| X15
| X16
| X17
| X18
| X19
| X1a
| X1b
| X1c
| X1d
| X1e
| X1f
| X20
| X21
| X22
| X23
| X24
| X25
| X26
| X27
| X28
| X29
| X2a
| X2b
| X2c
| X2d
| X2e
| X2f
| X30
| X31
| X32
| X33
| X34
| X35
| X36
| X37
| X38
| X39
| X3a
| X3b
| X3c
| X3d
| X3e
| X3f
| X40
| X41
| X42
| X43
| X44
| X45
| X46
| X47
| X48
| X49
| X4a
| X4b
| X4c
| X4d
| X4e
| X4f
| X50
| X51
| X52
| X53
| X54
| X55
| X56
| X57
| X58
| X59
| X5a
| X5b
| X5c
| X5d
| X5e
| X5f
| X60
| X61
| X62
| X63
| X64
| X65
| X66
| X67
| X68
| X69
| X6a
| X6b
| X6c
| X6d
| X6e
| X6f
| X70
| X71
| X72
| X73
| X74
| X75
| X76
| X77
| X78
| X79
| X7a
| X7b
| X7c
| X7d
| X7e
| X7f
| X80
| X81
| X82
| X83
| X84
| X85
| X86
| X87
| X88
| X89
| X8a
| X8b
| X8c
| X8d
| X8e
| X8f
| X90
| X91
| X92
| X93
| X94
| X95
| X96
| X97
| X98
| X99
| X9a
| X9b
| X9c
| X9d
| X9e
| X9f
| Xa0
| Xa1
| Xa2
| Xa3
| Xa4
| Xa5
| Xa6
| Xa7
| Xa8
| Xa9
| Xaa
| Xab
| Xac
| Xad
| Xae
| Xaf
| Xb0
| Xb1
| Xb2
| Xb3
| Xb4
| Xb5
| Xb6
| Xb7
| Xb8
| Xb9
| Xba
| Xbb
| Xbc
| Xbd
| Xbe
| Xbf
| Xc0
| Xc1
| Xc2
| Xc3
| Xc4
| Xc5
| Xc6
| Xc7
| Xc8
| Xc9
| Xca
| Xcb
| Xcc
| Xcd
| Xce
| Xcf
| Xd0
| Xd1
| Xd2
| Xd3
| Xd4
| Xd5
| Xd6
| Xd7
| Xd8
| Xd9
| Xda
| Xdb
| Xdc
| Xdd
| Xde
| Xdf
| Xe0
| Xe1
| Xe2
| Xe3
| Xe4
| Xe5
| Xe6
| Xe7
| Xe8
| Xe9
| Xea
| Xeb
| Xec
| Xed
| Xee
| Xef
| Xf0
| Xf1
| Xf2
| Xf3
| Xf4
| Xf5
| Xf6
| Xf7
| Xf8
| Xf9
| Xfa
| Xfb
| Xfc
| Xfd
| Xfe
| Xff

val to_bits :
  byte -> bool * (bool * (bool * (bool * (bool * (bool * (bool * bool))))))

val eqb : bool -> bool -> bool

module Nat :
 sig
  val sub : nat -> nat -> nat

  val eqb : nat -> nat -> bool

  val leb : nat -> nat -> bool

  val ltb : nat -> nat -> bool

  val divmod : nat -> nat -> nat -> nat -> nat * nat

  val div : nat -> nat -> nat

  val modulo : nat -> nat -> nat
 end

val tl : 'a1 list -> 'a1 list

val nth : nat -> 'a1 list -> 'a1 -> 'a1

val nth_error : 'a1 list -> nat -> 'a1 option

val last : 'a1 list -> 'a1 -> 'a1

val removelast : 'a1 list -> 'a1 list

val rev : 'a1 list -> 'a1 list

val map : ('a1 -> 'a2) -> 'a1 list -> 'a2 list

val fold_right : ('a2 -> 'a1 -> 'a1) -> 'a1 -> 'a2 list -> 'a1

val existsb : ('a1 -> bool) -> 'a1 list -> bool

val forallb : ('a1 -> bool) -> 'a1 list -> bool

val filter : ('a1 -> bool) -> 'a1 list -> 'a1 list

val firstn : nat -> 'a1 list -> 'a1 list

val skipn : nat -> 'a1 list -> 'a1 list

val repeat : 'a1 -> nat -> 'a1 list

val list_sum : nat list -> nat

val list_max : nat list -> nat

type positive =
| XI of positive
| XO of positive
| XH

type n =
| N0
| Npos of positive

module Pos :
 sig
  val succ : positive -> positive

  val compare_cont : comparison -> positive -> positive -> comparison

  val compare : positive -> positive -> comparison

  val eqb : positive -> positive -> bool

  val iter_op : ('a1 -> 'a1 -> 'a1) -> positive -> 'a1 -> 'a1

  val to_nat : positive -> nat

  val of_succ_nat : nat -> positive
 end

module N :
 sig
  val compare : n -> n -> comparison

  val eqb : n -> n -> bool

  val leb : n -> n -> bool

  val ltb : n -> n -> bool

  val to_nat : n -> nat

  val of_nat : nat -> n
 end

val eqb0 : byte -> byte -> bool

val to_N : byte -> n

val of_N : n -> byte option

val byte_of_N : n -> byte

val n_of_byte : byte -> n

type str = byte list

val beqb : byte -> byte -> bool

val str_eqb : str -> str -> bool

val str_ltb : str -> str -> bool

val starts_with : str -> str -> bool

val ends_with : str -> str -> bool

val erase_first : str -> str -> str

val erase_last : str -> str -> str

val remove_suffix : str -> str -> str

val split_on : byte -> str -> str -> str list

val trim_left : byte -> str -> str

val trim_right : byte -> str -> str

val join_with : str -> str list -> str

val find_first : byte -> str -> nat option

val find_last : byte -> str -> nat option

val substr : str -> nat -> nat -> str

val is_digit : byte -> bool

val is_alnum : byte -> bool

val is_space : byte -> bool

val parse_digits : str -> nat -> nat

val skip_spaces : str -> str

val strtoul : str -> nat

val digit_byte : nat -> byte

val fmt_nat_aux : nat -> nat -> str -> str

val fmt_nat : nat -> str

val alookup : str -> (str * 'a1) list -> 'a1 option

val aset : str -> 'a1 -> (str * 'a1) list -> (str * 'a1) list

val sset : str -> 'a1 -> (str * 'a1) list -> (str * 'a1) list

type item =
| Null
| Scalar of str
| Lst of item list
| Map of (str * item) list

type ydoc =
| YNull
| YScalar of str
| YSeq of ydoc list
| YMap of (str * ydoc) list

type docs = (str * ydoc) list

val s_include : str

val s_patch : str

val s_append : str

val s_merge : str

val s_add : str

val s_equ : str

val s_slash : str

val s_next : str

val s_before : str

val s_after : str

val s_last : str

val s_yaml : str

val s_custom : str

val s_schema : str

val s_patchkey : str

val s_default : str

val s_menu : str

val s_key_binder : str

val s_punctuator : str

val s_recognizer : str

val s_import_preset : str

val s_bindings : str

val s_bindings_add : str

val s_build_info : str

val c_slash : byte

val c_at : byte

val c_colon : byte

val c_quest : byte

val c_space : byte

val is_null : item -> bool

val is_map : item -> bool

val item_empty : item -> bool

val is_list_ref : str -> bool

val resolve_index : nat -> str -> nat * bool

val list_get : 'a1 -> 'a1 list -> nat -> 'a1

val list_set_at : 'a1 -> 'a1 list -> nat -> 'a1 -> 'a1 list

val list_insert : 'a1 -> 'a1 list -> nat -> 'a1 -> 'a1 list

val read_child : item -> str -> item

val write_child : item -> str -> item -> item

val read_keys : item -> str list -> item

val write_keys : item -> str list -> item -> item

val split_path : str -> str list

val type_checked : item -> str list -> str -> str list option

val type_checked_all : item -> str list -> str list -> str list option

val traverse_cow : item -> str list -> str -> str list option

val is_appending : str -> bool

val is_merging : str -> item -> bool -> bool

val strip_operator : str -> bool -> str

val merge_loop :
  (str -> item -> item -> item * bool) -> (str * item) list -> item ->
  item * bool

val edit_node : item -> item -> str list -> str -> bool -> item * bool

val merge_tree : (str * item) list -> item -> str list -> item * bool

val patch_literal : (str * item) list -> item -> item * bool

val include_over : item -> item -> item * bool

type flags = { f_err : bool; f_cyc : bool; f_oof : bool }

val fl0 : flags

val fl_err : flags

val fl_cyc : flags

val fl_oof : flags

val fl_or : flags -> flags -> flags

val fl_of_ok : bool -> flags

type reference = { r_res : str; r_path : str; r_opt : bool }

val to_resource_id : str -> str

val create_reference : str -> str -> reference

val custom_id : str -> str

val auto_patch_ref : str -> reference

val idx_key : nat -> str

val is_prefix : str list -> str list -> bool

type visiting = (str * str list) list

val cyclic_at : visiting -> str -> str list -> bool

val alookup_last : str -> (str * 'a1) list -> 'a1 option

type sdir =
| SInc of reference
| SPatRef of reference
| SPatLit of (str * item) list

val parse_patch_item : str -> item -> sdir option

val parse_patch_list : str -> item list -> sdir list * bool

val parse_patch : str -> item -> sdir list * bool

val parse_entry : str -> str -> item -> (sdir list * sdir list) * bool

val y_patch_item_ok : ydoc -> bool

val y_entry_blocking : str -> ydoc -> bool

val y_entry_consumed : str -> ydoc -> bool

val has_root_patch : ydoc -> bool

val auto_patched : str -> ydoc -> bool

val y_blocking : docs -> str -> str list -> ydoc -> bool

val item_lookup : item -> str list -> item

val ref_keys : str -> str list

val walk :
  (visiting -> str -> str list -> ydoc -> item * flags) -> docs -> visiting
  -> str -> str list -> ydoc -> str list -> item * flags

val lookup_ref :
  (visiting -> str -> str list -> ydoc -> item * flags) -> docs -> visiting
  -> reference -> item * flags

val apply_dirs :
  (visiting -> str -> str list -> ydoc -> item * flags) -> docs -> visiting
  -> sdir list -> item -> item * flags

val plain_map :
  ((str * item) * bool) list -> (str * item) list -> (str * item) list

val seq_children :
  (str list -> ydoc -> item * flags) -> str list -> ydoc list -> nat -> item
  list * flags

val map_children :
  (str list -> ydoc -> item * flags) -> str -> str list -> (str * ydoc) list
  -> ((((str * item) * bool) list * sdir list) * sdir list) * flags

val auto_dirs : str -> str list -> ydoc -> sdir list

val spec_node :
  docs -> nat -> visiting -> str -> str list -> ydoc -> item * flags

val spec_include_at :
  docs -> nat -> item -> str -> reference -> (item * flags) * bool

val traverse : item -> str list -> item

val preset_step :
  docs -> nat -> str -> bool -> ((item * flags) * bool) ->
  (item * flags) * bool

val spec_link : docs -> nat -> str -> ((bool * item) * flags) * bool

val compile_spec : docs -> nat -> str -> item

type ptr = nat option

type hnode =
| HScalar of str
| HList of ptr list
| HMap of (str * ptr) list

type heap = hnode list

type iref =
| RRes of str
| RMapE of nat * str
| RListE of nat * nat
| RCow of bool * iref * str * nat option

type dep =
| DPending of str
| DInclude of reference * iref
| DPatchRef of reference * iref
| DPatchLit of nat * iref

val priority : dep -> nat

type resource = { rs_root : ptr; rs_loaded : bool }

type state = { st_heap : heap; st_res : (str * resource) list;
               st_deps : (str * dep list) list; st_chain : str list;
               st_oof : bool; st_woof : bool; st_ub : bool }

val st0 : state

val with_heap : state -> heap -> state

val with_res : state -> (str * resource) list -> state

val with_deps : state -> (str * dep list) list -> state

val with_chain : state -> str list -> state

val set_oof : state -> state

val set_woof : state -> state

val set_ub : state -> state

val hget : heap -> nat -> hnode option

val hset : heap -> nat -> hnode -> heap

val alloc : state -> hnode -> nat * state

val deref : state -> ptr -> hnode option

val as_map : state -> ptr -> (nat * (str * ptr) list) option

val as_list : state -> ptr -> (nat * ptr list) option

val map_get : (str * ptr) list -> str -> ptr

val res_root : state -> str -> ptr

val set_root : state -> str -> ptr -> state

val get_item : state -> iref -> ptr

val cow_write : state -> bool -> nat -> str -> ptr -> state

val set_item : state -> iref -> ptr -> state * iref

val cow : iref -> str -> iref

val node_is_list : hnode -> bool

val node_is_map : hnode -> bool

val node_empty : hnode -> bool

val type_checked_h : state -> iref -> str -> iref option

val type_checked_all_h : state -> iref -> str list -> iref option

val traverse_cow_h : state -> iref -> str -> iref option

val strip_cows : nat -> iref -> iref

val nonempty_keys : str list -> nat

val ptr_is_map : state -> ptr -> bool

val merge_loop_h :
  (state -> iref -> str -> ptr -> (bool * state) * iref) -> (str * ptr) list
  -> state -> iref -> (bool * state) * iref

val edit_node_h :
  nat -> state -> iref -> str -> ptr -> bool -> (bool * state) * iref

val merge_tree_h :
  nat -> (str * ptr) list -> state -> iref -> (bool * state) * iref

val patch_literal_h :
  nat -> (str * ptr) list -> state -> iref -> (bool * state) * iref

val include_h : nat -> state -> iref -> ptr -> (bool * state) * iref

val deps_at : state -> str -> dep list option

val insert_by_priority : dep list -> dep -> dep list

val add_dep_at : state -> str -> dep -> state

val pending_at : state -> str -> bool

val join_path : str list -> str

val spread_pending : state -> str list -> state

val graph_add : state -> iref list -> str list -> (iref -> dep) -> state

val current_resource_id : str list -> str

val parse_patch_h : state -> iref list -> str list -> ptr -> bool * state

val parse_patch_list_h :
  state -> iref list -> str list -> ptr list -> bool * state

val parse_h : state -> iref list -> str list -> str -> ptr -> bool * state

val heap_map_set : state -> nat -> str -> ptr -> state

val heap_list_append : state -> nat -> ptr -> state

val conv_seq :
  (ydoc -> iref list -> str list -> state -> ptr * state) -> nat -> iref list
  -> str list -> ydoc list -> nat -> state -> state

val conv_map :
  (ydoc -> iref list -> str list -> state -> ptr * state) -> nat -> iref list
  -> str list -> (str * ydoc) list -> state -> state

val convert : ydoc -> iref list -> str list -> state -> ptr * state

val auto_patch_h : state -> str -> state

val compile_h : docs -> state -> str -> (str * bool) * state

val blocking : state -> str -> bool

val has_circular : state -> str -> bool

val erase_head_dep : state -> str -> state

val walk_keys :
  (str -> state -> bool * state) -> str list -> state -> iref -> str ->
  ptr * state

val get_resolved_item :
  (str -> state -> bool * state) -> state -> str -> str -> ptr * state

val resolve_reference :
  docs -> (str -> state -> bool * state) -> state -> reference -> ptr * state

val resolve_dep :
  docs -> nat -> (str -> state -> bool * state) -> state -> dep ->
  bool * state

val resolve_loop :
  docs -> nat -> (str -> state -> bool * state) -> dep list -> str -> state
  -> bool * state

val resolve_deps_body :
  docs -> nat -> (str -> state -> bool * state) -> str -> state ->
  bool * state

val resolve_deps : docs -> nat -> nat -> str -> state -> bool * state

val include_plugin :
  docs -> nat -> nat -> state -> iref -> reference -> (bool * state) * iref

val traverse_h : state -> ptr -> str list -> ptr

val preset_step_h :
  docs -> nat -> nat -> str -> str -> bool -> (bool * state) -> bool * state

val link_h : docs -> nat -> nat -> state -> str -> bool * state

val rb_list : (ptr -> item * bool) -> ptr list -> item list * bool

val rb_map :
  (ptr -> item * bool) -> (str * ptr) list -> (str * item) list * bool

val readback : nat -> heap -> ptr -> item * bool

val strip_build_info : item -> item

type outcome = { o_loaded : bool; o_linked : bool; o_tree : item;
                 o_oof : bool; o_woof : bool; o_ub : bool; o_state : 
                 state }

val compile_impl : docs -> nat -> nat -> str -> outcome

val resource_tree : nat -> state -> str -> item

val loaded_ids : state -> (str * bool) list

val relink : docs -> nat -> nat -> state -> str -> bool * state

val seq_scalars : (ydoc -> str list) -> ydoc list -> str list

val map_scalars : (ydoc -> str list) -> (str * ydoc) list -> str list

val scalars : ydoc -> str list

val ynodes : ydoc -> nat

val nscalars : docs -> nat

val maxnodes : docs -> nat

val fuel_bound : docs -> nat
