(** Extraction of the C07 model (ExtrOcamlBasic only). *)
From Coq Require Extraction.
From Coq Require ExtrOcamlBasic.
From RimeV Require Import Lookup.Defs Lookup.Model Lookup.Poet.
Extraction "c07_model.ml" script_query table_query script_wgraph table_wgraph wg_path_ok wg_has_path
           script_translation lookup query
           make_sentence robust chain_weight compare_weight left_associate_compare poet_script poet_table.
