(** C08 - syllable segmentation of an input is sound and complete.

    Model: Dict/Syll.v ([build_syllable_graph], a statement-by-statement port of
    Syllabifier::BuildSyllableGraph with corrector_ == nullptr, over the prism
    as a finite map).  Vocabulary: Dict/SyllSpec.v.  Every theorem is for all
    prisms satisfying [prism_wf] (stored spellings distinct, none ends with a
    delimiter, stored types normal/fuzzy/abbreviation), all delimiter sets, both
    flags and all inputs - no bound.  Property theorems only; each closed by
    [exact] of a lemma of Dict/SyllProofs.v. *)
From Coq Require Import List Arith NArith.
From RimeV Require Import Dict.Syll Dict.SyllSpec Dict.SyllFwdInv Dict.SyllProofs.
Import ListNotations.

(** The queue loop terminates within the fuel the model gives it: the model
    function is total (the out-of-fuel case of [build_with_fuel] is unreachable). *)
Theorem C08_terminates :
  forall P delims comp strict inp, prism_wf P delims ->
  exists g, build_syllable_graph P delims comp strict inp = Some g.
Proof. exact build_total. Qed.
Print Assumptions C08_terminates.

(** Edge soundness.  Every edge (s, e, syllable, properties) of the result ends
    where its properties say, and either spans a substring that, ignoring
    trailing delimiters, is a stored spelling denoting that syllable - with the
    edge type the best type of that denotation and a stored credibility - or is
    the completion edge from the longest tilable prefix to the end of the input. *)
Theorem C08_edge_sound :
  forall P delims comp strict inp g far,
  prism_wf P delims -> build_syllable_graph P delims comp strict inp = Some g ->
  forward_farthest P delims strict inp = Some far ->
  forall s e sid pr, edge_at (g_edges g) s e sid pr ->
    p_end pr = e /\
    (normal_edge P delims strict inp s e sid pr \/
     completion_edge P comp inp far (g_interpreted_length g) s e sid pr).
Proof. exact thm_edge_sound. Qed.
Print Assumptions C08_edge_sound.

(** Edge exactness ("carries exactly the syllables that spelling denotes").
    A retained edge inside the tilable prefix carries every syllable its
    spelling denotes with a type not worse than last_type (= max(type of the
    farthest vertex, fuzzy)) and not disqualified by strict spelling; together
    with C08_edge_sound the carried set is exactly that.  In particular every
    normal and every fuzzy denotation is carried. *)
Theorem C08_edge_exact :
  forall P delims comp strict inp g far,
  prism_wf P delims -> build_syllable_graph P delims comp strict inp = Some g ->
  forward_farthest P delims strict inp = Some far ->
  forall s e, s < far -> has_edge (g_edges g) s e ->
  forall ds d, lookup (strip_delims delims (sub inp s (e - s))) P = Some ds ->
    In d ds -> adm strict inp s e d = true -> d_type d <= last_type_of g far ->
    exists pr, edge_at (g_edges g) s e (d_sid d) pr /\ p_type pr <= d_type d.
Proof. exact thm_edge_exact. Qed.
Print Assumptions C08_edge_exact.

(** Every retained vertex lies on a path from 0 to the interpreted length,
    through retained edges and retained vertices. *)
Theorem C08_vertex_on_path :
  forall P delims comp strict inp g,
  prism_wf P delims -> build_syllable_graph P delims comp strict inp = Some g ->
  forall v t, nm_find v (g_vertices g) = Some t ->
    gpath g 0 v /\ gpath g v (g_interpreted_length g).
Proof. exact thm_vertex_on_path. Qed.
Print Assumptions C08_vertex_on_path.

(** The interpreted length is the longest prefix that can be tiled by spellings
    ([far] is tilable and no longer prefix is), extended to the whole input
    only when completion is enabled and the remainder begins a stored spelling. *)
Theorem C08_interpreted_is_longest_tilable_prefix :
  forall P delims comp strict inp g,
  prism_wf P delims -> build_syllable_graph P delims comp strict inp = Some g ->
  exists far, forward_farthest P delims strict inp = Some far /\
    tilable P delims strict inp far /\
    (forall p, tilable P delims strict inp p -> p <= far) /\
    (g_interpreted_length g = far \/
     (comp = true /\ far < length inp /\ g_interpreted_length g = length inp /\
      exists k ds, lookup k P = Some ds /\ is_prefix (skipn far inp) k = true)).
Proof. exact thm_interpreted_longest. Qed.
Print Assumptions C08_interpreted_is_longest_tilable_prefix.

(** ... and it is so extended whenever completion is enabled and one of the
    first 512 spellings (breadth-first) that begin with the remainder denotes a
    syllable as a normal or fuzzy spelling. *)
Theorem C08_completion_extends :
  forall P delims comp strict inp g far l ds d,
  prism_wf P delims -> build_syllable_graph P delims comp strict inp = Some g ->
  forward_farthest P delims strict inp = Some far ->
  comp = true -> far < length inp ->
  In (l, ds) (expand_search P (skipn far inp) kExpandSearchLimit) -> In d ds -> d_type d < kAbbreviation ->
  g_interpreted_length g = length inp.
Proof. exact thm_completion_extends. Qed.
Print Assumptions C08_completion_extends.

(** Every tiling of the tilable prefix by normal spellings is present as a
    path: each of its tiles is an edge carrying the chosen syllable with type
    kNormalSpelling. *)
Theorem C08_normal_tilings_complete :
  forall P delims comp strict inp g far l,
  prism_wf P delims -> build_syllable_graph P delims comp strict inp = Some g ->
  forward_farthest P delims strict inp = Some far ->
  tiling P delims strict inp 0 far l -> Forall (fun x => d_type (snd x) = kNormalSpelling) l ->
  Forall (fun x => exists pr, edge_at (g_edges g) (fst (fst x)) (snd (fst x)) (d_sid (snd x)) pr /\
                              p_type pr = kNormalSpelling) l.
Proof. exact thm_normal_tilings. Qed.
Print Assumptions C08_normal_tilings_complete.

(** [indices] is exactly the transpose of [edges]: for every start and
    syllable, the list handed to lookups is the properties of that syllable on
    each edge out of the start, by descending end position ... *)
Theorem C08_transpose_exact :
  forall P delims comp strict inp g,
  prism_wf P delims -> build_syllable_graph P delims comp strict inp = Some g ->
  forall s sid, index_at (g_indices g) s sid = transposed (g_edges g) s sid.
Proof. exact thm_transpose_exact. Qed.
Print Assumptions C08_transpose_exact.

(** ... that is, its members are exactly the edges' properties, and there is no
    entry for a syllable that no edge carries. *)
Theorem C08_transpose_members :
  forall P delims comp strict inp g,
  prism_wf P delims -> build_syllable_graph P delims comp strict inp = Some g ->
  forall s sid,
    match index_at (g_indices g) s sid with
    | Some l => l <> [] /\ forall pr, In pr l <-> exists e, edge_at (g_edges g) s e sid pr
    | None => forall e pr, ~ edge_at (g_edges g) s e sid pr
    end.
Proof. exact thm_transpose_members. Qed.
Print Assumptions C08_transpose_members.

(** The maps of the result are in strict key order (std::map iteration order):
    the lists the model prints are the canonical ones. *)
Theorem C08_graph_in_key_order :
  forall P delims comp strict inp g,
  prism_wf P delims -> build_syllable_graph P delims comp strict inp = Some g -> maps_sorted (g_edges g).
Proof. exact thm_graph_sorted. Qed.
Print Assumptions C08_graph_in_key_order.

(** ** Non-vacuity: concrete graphs meeting the hypotheses
    alphabet a = 1, b = 2, c = 3; delimiter ' = 9;
    spellings a -> {0}, ab -> {1}, b -> {2, 1 as abbreviation}, ba -> {3}, ca -> {4 as fuzzy}. *)

Theorem C08_example_prism_wf : prism_wf ex_prism [9].
Proof. exact ex_prism_wf_proof. Qed.
Print Assumptions C08_example_prism_wf.

(** input ab'a: two tilings (a b' a and ab' a), an ambiguous joint at 1 (the
    edge b' is penalised once), the abbreviation reading of b pruned, an edge
    spanning a delimiter. *)
Theorem C08_example_graph :
  build_syllable_graph ex_prism [9] false false [1; 2; 9; 1] =
  Some (mkGraph 4 4 [(0, 0); (1, 4); (3, 0); (4, 0)]
          [(0, [(1, [(0, mkProps 0 1 (mkCred 0 0 0))]); (3, [(1, mkProps 0 3 (mkCred 0 0 0))])]);
           (1, [(3, [(2, mkProps 0 3 (mkCred 0 0 1))])]);
           (3, [(4, [(0, mkProps 0 4 (mkCred 0 0 0))])])]
          [(0, [(0, [mkProps 0 1 (mkCred 0 0 0)]); (1, [mkProps 0 3 (mkCred 0 0 0)])]);
           (1, [(2, [mkProps 0 3 (mkCred 0 0 1)])]);
           (3, [(0, [mkProps 0 4 (mkCred 0 0 0)])])])
  /\ forward_farthest ex_prism [9] false [1; 2; 9; 1] = Some 4.
Proof. split; vm_compute; reflexivity. Qed.
Print Assumptions C08_example_graph.

(** a three-tile normal tiling of that input exists (hypothesis of
    C08_normal_tilings_complete), one tile spanning the delimiter *)
Theorem C08_example_tiling :
  tiling ex_prism [9] false [1; 2; 9; 1] 0 4
         [(0, 1, mkDesc 0 0 0%N); (1, 3, mkDesc 2 0 0%N); (3, 4, mkDesc 0 0 0%N)]
  /\ Forall (fun x => d_type (snd x) = kNormalSpelling)
            [(0, 1, mkDesc 0 0 0%N); (1, 3, mkDesc 2 0 0%N); (3, 4, mkDesc 0 0 0%N)].
Proof. exact ex_tiling_proof. Qed.
Print Assumptions C08_example_tiling.

(** input abc with completion: the longest tilable prefix is ab, the remainder
    c begins the stored spelling ca, so the graph is extended by the completion
    edge 2 -> 3 carrying syllable 4 (hypotheses of C08_completion_extends). *)
Theorem C08_example_completion :
  build_syllable_graph ex_prism [9] true false [1; 2; 3] =
  Some (mkGraph 3 3 [(0, 0); (1, 4); (2, 0)]
          [(0, [(1, [(0, mkProps 0 1 (mkCred 0 0 0))]); (2, [(1, mkProps 0 2 (mkCred 0 0 0))])]);
           (1, [(2, [(2, mkProps 0 2 (mkCred 0 0 1))])]);
           (2, [(3, [(4, mkProps 3 3 (mkCred 5 1 0))])])]
          [(0, [(0, [mkProps 0 1 (mkCred 0 0 0)]); (1, [mkProps 0 2 (mkCred 0 0 0)])]);
           (1, [(2, [mkProps 0 2 (mkCred 0 0 1)])]);
           (2, [(4, [mkProps 3 3 (mkCred 5 1 0)])])])
  /\ forward_farthest ex_prism [9] false [1; 2; 3] = Some 2
  /\ In (2, [mkDesc 4 1 5%N]) (expand_search ex_prism (skipn 2 [1; 2; 3]) kExpandSearchLimit).
Proof. split; [|split]; vm_compute; auto. Qed.
Print Assumptions C08_example_completion.

(** strict spelling: the single-spelling input b keeps the normal reading only *)
Theorem C08_example_strict :
  build_syllable_graph ex_prism [9] false true [2] =
  Some (mkGraph 1 1 [(0, 0); (1, 0)] [(0, [(1, [(2, mkProps 0 1 (mkCred 0 0 0))])])]
          [(0, [(2, [mkProps 0 1 (mkCred 0 0 0)])])]).
Proof. vm_compute. reflexivity. Qed.
Print Assumptions C08_example_strict.
