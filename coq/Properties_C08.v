(** C08 - syllable segmentation of an input is sound and complete. *)
From Coq Require Import List Arith.
From RimeV Require Import Dict.Syll Dict.SyllProofs.
Import ListNotations.

Theorem C08_empty_input : forall P delims c s, build_syllable_graph P delims c s [] = Some empty_graph.
Proof. exact build_empty_input. Qed.
Print Assumptions C08_empty_input.
