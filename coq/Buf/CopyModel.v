(** C20 – model of "copy a string into a caller buffer of stated size".

    The caller's memory around the destination pointer is a [list byte]
    ([buf], at least [n] bytes of which belong to the caller's buffer, the rest
    being guard bytes that must not change).  A copy site of the API is a small
    straight-line program over the destination ([stmt] list) which the
    translator /verif/gen/copy_sites.py regenerates from the clang AST of
    src/rime_api.cc on every run (coq/Gen/CopySites.v).  [exec] gives the C
    semantics of each statement; a store outside [buf] is undefined behaviour
    and yields [None]. *)
From Coq Require Import List Arith Lia Bool.
From Coq.Strings Require Import Byte.
From Coq.Strings Require String.
From RimeV Require Base.Bytes.
Import ListNotations.

Definition bytes := Base.Bytes.bytes.

(** Size expressions that occur at copy sites: [n] is the size argument, [len]
    the length of the source string (its [strlen]). *)
Inductive sz :=
| SzN            (* buffer_size *)
| SzNm1          (* buffer_size - 1   (size_t arithmetic: wraps at 0, modelled by the guard n >= 1 of the property) *)
| SzLen          (* strlen(src) / src.size() *)
| SzLenP1        (* strlen(src) + 1 *)
| SzMinLenNm1    (* std::min(src.size(), buffer_size - 1) *)
| SzMinLenP1N    (* std::min(src.size() + 1, buffer_size) *)
| SzConst (k : nat)
| SzUnknown.

Inductive stmt :=
| Strncpy (count : sz)       (* strncpy(dest, src, count) *)
| Memcpy  (count : sz)       (* memcpy(dest, src, count): src is NUL-terminated, so up to len+1 bytes are readable *)
| PokeNul (idx : sz)         (* dest[idx] = '\0' *)
| Snprintf (size : sz)       (* snprintf(dest, size, "%s", src) *)
| IfPos (body : list stmt)   (* if (buffer_size > 0) { body }  – also `if (buffer_size)` *)
| Unrecognised.              (* the translator did not understand a statement touching dest *)

Definition eval_sz (e : sz) (len n : nat) : option nat :=
  match e with
  | SzN => Some n
  | SzNm1 => if Nat.eqb n 0 then None (* wraps to SIZE_MAX *) else Some (n - 1)
  | SzLen => Some len
  | SzLenP1 => Some (len + 1)
  | SzMinLenNm1 => if Nat.eqb n 0 then None else Some (Nat.min len (n - 1))
  | SzMinLenP1N => Some (Nat.min (len + 1) n)
  | SzConst k => Some k
  | SzUnknown => None
  end.

(** [count] bytes exactly as strncpy writes them: the string, then NUL padding. *)
Definition strncpy_bytes (src : bytes) (count : nat) : bytes :=
  firstn count src ++ repeat x00 (count - length src).

(** overwrite [buf] from offset 0 with [bs]; [None] if it does not fit (UB). *)
Definition write0 (bs buf : bytes) : option bytes :=
  if Nat.leb (length bs) (length buf) then Some (bs ++ skipn (length bs) buf) else None.

Definition poke (i : nat) (b : byte) (buf : bytes) : option bytes :=
  if Nat.ltb i (length buf) then Some (firstn i buf ++ b :: skipn (S i) buf) else None.

Fixpoint exec_stmt (fuel : nat) (s : stmt) (src : bytes) (n : nat) (buf : bytes) {struct fuel} : option bytes :=
  match fuel with
  | O => None
  | S fuel' =>
    let exec_list := fix go (l : list stmt) (buf : bytes) : option bytes :=
      match l with
      | [] => Some buf
      | s :: l' => match exec_stmt fuel' s src n buf with Some b => go l' b | None => None end
      end in
    match s with
    | Strncpy c =>
        match eval_sz c (length src) n with
        | Some k => write0 (strncpy_bytes src k) buf
        | None => None
        end
    | Memcpy c =>
        match eval_sz c (length src) n with
        | Some k => if Nat.leb k (length src + 1) then write0 (firstn k (src ++ [x00])) buf else None
        | None => None
        end
    | PokeNul i =>
        match eval_sz i (length src) n with
        | Some k => poke k x00 buf
        | None => None
        end
    | Snprintf c =>
        match eval_sz c (length src) n with
        | Some 0 => Some buf
        | Some (S k) => write0 (firstn k src ++ [x00]) buf
        | None => None
        end
    | IfPos body => if Nat.eqb n 0 then Some buf else exec_list body buf
    | Unrecognised => None
    end
  end.

Fixpoint exec (fuel : nat) (l : list stmt) (src : bytes) (n : nat) (buf : bytes) : option bytes :=
  match l with
  | [] => Some buf
  | s :: l' => match exec_stmt fuel s src n buf with Some b => exec fuel l' src n b | None => None end
  end.

(** statement nesting never exceeds this in practice; the theorems are stated for the fuel [run] uses *)
Definition run (l : list stmt) (src : bytes) (n : nat) (buf : bytes) : option bytes :=
  exec 4 l src n buf.

(** The property's post-condition on the caller's memory. *)
Definition no_nul (src : bytes) : Prop := ~ In x00 src.

Definition copy_post (src : bytes) (n : nat) (buf b : bytes) : Prop :=
  length b = length buf /\
  skipn n b = skipn n buf /\                       (* at most n bytes written *)
  let k := Nat.min (length src) (n - 1) in
  firstn k b = firstn k src /\ nth k b x01 = x00.  (* C string = src truncated to n-1 bytes *)

(** Boolean version of the post-condition, used by the correspondence check and
    by the failing-input search on implementation buffers. *)
Definition byte_eqb (a b : byte) : bool := Byte.eqb a b.
Fixpoint bytes_eqb (a b : bytes) : bool :=
  match a, b with
  | [], [] => true
  | x :: a', y :: b' => byte_eqb x y && bytes_eqb a' b'
  | _, _ => false
  end.

Definition copy_postb (src : bytes) (n : nat) (buf b : bytes) : bool :=
  Nat.eqb (length b) (length buf) &&
  bytes_eqb (skipn n b) (skipn n buf) &&
  (let k := Nat.min (length src) (n - 1) in
   bytes_eqb (firstn k b) (firstn k src) && byte_eqb (nth k b x01) x00).

(** The shapes that are proved to satisfy the post-condition (CopyProofs.v). *)
Definition idiom_ok (l : list stmt) : bool :=
  match l with
  | [Strncpy SzN; PokeNul SzNm1] => true
  | [Strncpy SzN; IfPos [PokeNul SzNm1]] => true
  | [IfPos [Strncpy SzN; PokeNul SzNm1]] => true
  | [Strncpy SzNm1; PokeNul SzNm1] => true
  | [IfPos [Strncpy SzNm1; PokeNul SzNm1]] => true
  | [Snprintf SzN] => true
  | [Memcpy SzMinLenNm1; PokeNul SzMinLenNm1] => true
  | [IfPos [Memcpy SzMinLenNm1; PokeNul SzMinLenNm1]] => true
  | _ => false
  end.

Record site := { site_name : String.string; site_prog : list stmt }.
