(** C20 – proofs about the copy-site model: every idiom accepted by [idiom_ok]
    meets [copy_post] for all strings, all sizes >= 1 and all caller memories;
    the bare [strncpy(dest, src, n)] idiom does not. *)
From Coq Require Import List Arith Lia Bool.
From Coq.Strings Require Import Byte.
From RimeV Require Import Base.ListX Buf.CopyModel.
Import ListNotations.

Lemma strncpy_bytes_length src k : length (strncpy_bytes src k) = k.
Proof.
  unfold strncpy_bytes. rewrite app_length, firstn_length, repeat_length. lia.
Qed.

Lemma firstn_strncpy_bytes src c k :
  k <= c -> k <= length src -> firstn k (strncpy_bytes src c) = firstn k src.
Proof.
  intros Hc Hs. unfold strncpy_bytes.
  rewrite firstn_app, firstn_firstn, firstn_length.
  replace (Nat.min k c) with k by lia.
  replace (k - Nat.min c (length src)) with 0 by lia.
  cbn [firstn]. apply app_nil_r.
Qed.

Lemma nth_strncpy_bytes_pad src c :
  length src < c -> nth (length src) (strncpy_bytes src c) x01 = x00.
Proof.
  intros H. unfold strncpy_bytes.
  rewrite firstn_all2 by lia.
  rewrite app_nth2 by lia. rewrite Nat.sub_diag.
  destruct (c - length src) eqn:E; [lia|]. reflexivity.
Qed.

Lemma write0_spec bs buf :
  length bs <= length buf -> write0 bs buf = Some (bs ++ skipn (length bs) buf).
Proof. intros H. unfold write0. apply Nat.leb_le in H. now rewrite H. Qed.

Lemma poke_spec i b buf :
  i < length buf -> poke i b buf = Some (firstn i buf ++ b :: skipn (S i) buf).
Proof. intros H. unfold poke. apply Nat.ltb_lt in H. now rewrite H. Qed.

Lemma length_write (bs buf : bytes) :
  length bs <= length buf -> length (bs ++ skipn (length bs) buf) = length buf.
Proof. intros. rewrite app_length, skipn_length. lia. Qed.

Lemma length_poke i (b : byte) buf :
  i < length buf -> length (firstn i buf ++ b :: skipn (S i) buf) = length buf.
Proof. intros. rewrite app_length, firstn_length. cbn [length]. rewrite skipn_length. lia. Qed.

Lemma skipn_write (bs buf : bytes) n :
  length bs <= n -> skipn n (bs ++ skipn (length bs) buf) = skipn n buf.
Proof.
  intros H. rewrite skipn_app.
  rewrite (skipn_all2 bs) by lia. cbn [app].
  rewrite skipn_skipn. f_equal. lia.
Qed.

Lemma skipn_poke i (b : byte) buf n :
  i < n -> i < length buf -> skipn n (firstn i buf ++ b :: skipn (S i) buf) = skipn n buf.
Proof.
  intros H Hl. rewrite skipn_app, firstn_length.
  rewrite (skipn_all2 (firstn i buf)) by (rewrite firstn_length; lia). cbn [app].
  replace (Nat.min i (length buf)) with i by lia.
  destruct (n - i) as [|d] eqn:E; [lia|]. rewrite skipn_cons.
  rewrite skipn_skipn. f_equal. lia.
Qed.

Lemma firstn_poke i (b : byte) buf k :
  k <= i -> i <= length buf -> firstn k (firstn i buf ++ b :: skipn (S i) buf) = firstn k buf.
Proof.
  intros H Hl. rewrite firstn_app, firstn_firstn, firstn_length.
  replace (Nat.min k i) with k by lia.
  replace (k - Nat.min i (length buf)) with 0 by lia. cbn [firstn]. apply app_nil_r.
Qed.

Lemma nth_poke_same i (b : byte) buf d :
  i < length buf -> nth i (firstn i buf ++ b :: skipn (S i) buf) d = b.
Proof.
  intros H. rewrite app_nth2; rewrite firstn_length; [|lia].
  replace (i - Nat.min i (length buf)) with 0 by lia. reflexivity.
Qed.

Lemma nth_poke_before i (b : byte) buf d k :
  k < i -> i < length buf -> nth k (firstn i buf ++ b :: skipn (S i) buf) d = nth k buf d.
Proof.
  intros H Hl. rewrite app_nth1 by (rewrite firstn_length; lia).
  rewrite <- (firstn_skipn i buf) at 2.
  rewrite app_nth1 by (rewrite firstn_length; lia). reflexivity.
Qed.

Lemma firstn_write (bs buf : bytes) k :
  k <= length bs -> firstn k (bs ++ skipn (length bs) buf) = firstn k bs.
Proof.
  intros H. rewrite firstn_app. replace (k - length bs) with 0 by lia.
  cbn [firstn]. apply app_nil_r.
Qed.

Lemma nth_write (bs buf : bytes) k d :
  k < length bs -> nth k (bs ++ skipn (length bs) buf) d = nth k bs d.
Proof. intros H. now rewrite app_nth1. Qed.

(** ** The central facts: each building block's effect *)

(** strncpy(dest, src, c) with c <= n, followed by dest[n-1] = 0 *)
Lemma strncpy_then_poke_post src n buf c :
  1 <= n -> n <= length buf -> (c = n \/ c = n - 1) ->
  exists b1 b,
    write0 (strncpy_bytes src c) buf = Some b1 /\
    poke (n - 1) x00 b1 = Some b /\ copy_post src n buf b.
Proof.
  intros Hn Hb Hc.
  pose proof (strncpy_bytes_length src c) as Hlen.
  assert (Hcn : c <= n) by lia.
  set (b1 := strncpy_bytes src c ++ skipn (length (strncpy_bytes src c)) buf).
  assert (Hb1 : length b1 = length buf) by (apply length_write; lia).
  exists b1, (firstn (n - 1) b1 ++ x00 :: skipn (S (n - 1)) b1).
  split; [apply write0_spec; lia|].
  split; [apply poke_spec; lia|].
  unfold copy_post. split; [rewrite length_poke by lia; exact Hb1|].
  split.
  - rewrite skipn_poke by lia. unfold b1. apply skipn_write. lia.
  - cbv zeta. split.
    + rewrite firstn_poke by lia. unfold b1.
      rewrite firstn_write by lia. apply firstn_strncpy_bytes; lia.
    + destruct (Nat.le_gt_cases (n - 1) (length src)) as [Hge|Hlt].
      * replace (Nat.min (length src) (n - 1)) with (n - 1) by lia.
        apply nth_poke_same. lia.
      * replace (Nat.min (length src) (n - 1)) with (length src) by lia.
        rewrite nth_poke_before by lia. unfold b1.
        rewrite nth_write by lia.
        destruct Hc as [-> | ->].
        -- apply nth_strncpy_bytes_pad. lia.
        -- apply nth_strncpy_bytes_pad. lia.
Qed.

(** snprintf(dest, n, "%s", src) *)
Lemma snprintf_post src n buf :
  1 <= n -> n <= length buf ->
  exists b, write0 (firstn (n - 1) src ++ [x00]) buf = Some b /\ copy_post src n buf b.
Proof.
  intros Hn Hb.
  assert (Hl : length (firstn (n - 1) src ++ [x00]) = Nat.min (n - 1) (length src) + 1)
    by (rewrite app_length, firstn_length; reflexivity).
  eexists. split; [apply write0_spec; lia|].
  unfold copy_post. split; [apply length_write; lia|]. split.
  - apply skipn_write. lia.
  - cbv zeta. split.
    + rewrite firstn_write by lia. rewrite firstn_app, firstn_firstn, firstn_length.
      replace (Nat.min (length src) (n - 1) - Nat.min (n - 1) (length src)) with 0 by lia.
      cbn [firstn]. rewrite app_nil_r. f_equal. lia.
    + rewrite nth_write by lia. rewrite app_nth2; rewrite firstn_length; [|lia].
      replace (Nat.min (length src) (n - 1) - Nat.min (n - 1) (length src)) with 0 by lia.
      reflexivity.
Qed.

(** memcpy(dest, src, k); dest[k] = 0 with k = min(len, n-1) *)
Lemma memcpy_then_poke_post src n buf :
  1 <= n -> n <= length buf ->
  let k := Nat.min (length src) (n - 1) in
  exists b1 b,
    write0 (firstn k (src ++ [x00])) buf = Some b1 /\
    poke k x00 b1 = Some b /\ copy_post src n buf b.
Proof.
  intros Hn Hb k.
  assert (Hk : k <= length src) by (unfold k; lia).
  assert (Hf : firstn k (src ++ [x00]) = firstn k src).
  { rewrite firstn_app. replace (k - length src) with 0 by lia. cbn [firstn]. apply app_nil_r. }
  assert (Hl : length (firstn k (src ++ [x00])) = k) by (rewrite Hf, firstn_length; lia).
  set (b1 := firstn k (src ++ [x00]) ++ skipn (length (firstn k (src ++ [x00]))) buf).
  assert (Hb1 : length b1 = length buf) by (apply length_write; unfold k in *; lia).
  exists b1, (firstn k b1 ++ x00 :: skipn (S k) b1).
  split; [apply write0_spec; unfold k in *; lia|].
  split; [apply poke_spec; unfold k in *; lia|].
  unfold copy_post. split; [rewrite length_poke by (unfold k in *; lia); exact Hb1|]. split.
  - rewrite skipn_poke by (unfold k in *; lia). unfold b1. apply skipn_write. unfold k in *; lia.
  - cbv zeta. fold k. split.
    + rewrite firstn_poke by lia. unfold b1. rewrite firstn_write by lia.
      rewrite Hf. apply firstn_firstn_same.
    + apply nth_poke_same. unfold k in *; lia.
Qed.

(** ** Soundness of the recogniser [idiom_ok] – for all strings, sizes, memories *)

Definition site_spec (l : list stmt) : Prop :=
  forall src n buf, 1 <= n -> n <= length buf -> no_nul src ->
  exists b, run l src n buf = Some b /\ copy_post src n buf b.

Ltac inv_ok H :=
  repeat match type of H with
         | context [match ?x with _ => _ end] => destruct x; try discriminate H
         end.

Lemma n_pos_eqb n : 1 <= n -> Nat.eqb n 0 = false.
Proof. intros. apply Nat.eqb_neq. lia. Qed.

Theorem idiom_ok_sound l : idiom_ok l = true -> site_spec l.
Proof.
  intros H. unfold idiom_ok in H. inv_ok H; clear H;
  intros src n buf Hn Hb _; unfold run; cbn [exec exec_stmt eval_sz];
  rewrite ?(n_pos_eqb n Hn).
  all: try (destruct (strncpy_then_poke_post src n buf n Hn Hb (or_introl eq_refl)) as (b1 & b & -> & Hp & Hpost);
            cbn [exec exec_stmt eval_sz]; rewrite ?(n_pos_eqb n Hn); rewrite Hp; now exists b).
  all: try (destruct (strncpy_then_poke_post src n buf (n - 1) Hn Hb (or_intror eq_refl)) as (b1 & b & -> & Hp & Hpost);
            cbn [exec exec_stmt eval_sz]; rewrite ?(n_pos_eqb n Hn); rewrite Hp; now exists b).
  all: try (destruct (memcpy_then_poke_post src n buf Hn Hb) as (b1 & b & Hw & Hp & Hpost);
            replace (Nat.leb (Nat.min (length src) (n - 1)) (length src + 1)) with true
              by (symmetry; apply Nat.leb_le; lia);
            rewrite Hw; cbn [exec exec_stmt eval_sz]; rewrite ?(n_pos_eqb n Hn); rewrite Hp; now exists b).
  - (* snprintf *)
    destruct n as [|k]; [lia|].
    destruct (snprintf_post src (S k) buf Hn Hb) as (b & Hw & Hpost).
    replace (S k - 1) with k in Hw by lia. rewrite Hw. now exists b.
Qed.

(** reflection of the boolean oracle used on implementation buffers *)
Lemma byte_eqb_eq x y : byte_eqb x y = true <-> x = y.
Proof. unfold byte_eqb. split; [apply Byte.byte_dec_bl | apply Byte.byte_dec_lb]. Qed.

Lemma bytes_eqb_eq a b : bytes_eqb a b = true <-> a = b.
Proof.
  revert b. induction a as [|x a IH]; intros [|y b]; cbn [bytes_eqb]; try (split; congruence).
  rewrite andb_true_iff, IH, byte_eqb_eq.
  split; [intros [-> ->]; reflexivity | intros [= -> ->]; auto].
Qed.

Lemma copy_postb_spec src n buf b : copy_postb src n buf b = true <-> copy_post src n buf b.
Proof.
  unfold copy_postb, copy_post. cbv zeta.
  rewrite !andb_true_iff, Nat.eqb_eq, !bytes_eqb_eq, byte_eqb_eq. tauto.
Qed.

(** ** The bare strncpy idiom violates the property (non-vacuity of the check) *)

Definition refute_src : bytes := [x61; x62; x63].          (* "abc" *)
Definition refute_buf : bytes := [xa5; xa5; xa5; xa5].

Theorem strncpy_only_refuted :
  1 <= 2 /\ 2 <= length refute_buf /\ no_nul refute_src /\
  exists b, run [Strncpy SzN] refute_src 2 refute_buf = Some b /\ ~ copy_post refute_src 2 refute_buf b.
Proof.
  split; [lia|]. split; [cbn; lia|]. split.
  - unfold no_nul, refute_src. cbn. intros [H|[H|[H|[]]]]; discriminate H.
  - eexists. split; [vm_compute; reflexivity|].
    rewrite <- copy_postb_spec. vm_compute. discriminate.
Qed.

(** non-vacuity: the accepted idiom really produces the truncated string on a concrete case *)
Example idiom_ok_example :
  run [Strncpy SzN; PokeNul SzNm1] [x61; x62; x63; x64; x65] 3 [xa5; xa5; xa5; xa5; xa5]
  = Some [x61; x62; x00; xa5; xa5].
Proof. vm_compute. reflexivity. Qed.
