(** C14: ordering of the dependencies kept per path
    (InsertByPriority / ConfigDependencyGraph::Add). *)
From Coq Require Import List Arith Bool Lia.
From RimeV Require Import CfgC.Str CfgC.Tree CfgC.Spec CfgC.Impl.
Import ListNotations.

Definition of_class (p : nat) (d : dep) : bool := priority d =? p.

(** pending children, then includes, then patches; each class in the order
    in which its members were added *)
Definition by_classes (l : list dep) : list dep :=
  filter (of_class 0) l ++ filter (of_class 1) l ++ filter (of_class 2) l.

Lemma priority_range d : priority d = 0 \/ priority d = 1 \/ priority d = 2.
Proof. destruct d; cbn; auto. Qed.

Lemma insert_after_le l r d :
  Forall (fun x => priority x <= priority d) l ->
  insert_by_priority (l ++ r) d = l ++ insert_by_priority r d.
Proof.
  induction l as [|x l IH]; intros H; cbn [app insert_by_priority]; [reflexivity|].
  inversion H as [|? ? Hx Hl]; subst.
  destruct (priority d <? priority x) eqn:E.
  - apply Nat.ltb_lt in E. lia.
  - now rewrite IH.
Qed.

Lemma insert_before_gt r d :
  Forall (fun x => priority d < priority x) r ->
  insert_by_priority r d = d :: r.
Proof.
  destruct r as [|x r]; intros H; cbn [insert_by_priority]; [reflexivity|].
  inversion H as [|? ? Hx Hr]; subst.
  apply (proj2 (Nat.ltb_lt _ _)) in Hx. now rewrite Hx.
Qed.

Lemma insert_at_end l d :
  Forall (fun x => priority x <= priority d) l -> insert_by_priority l d = l ++ [d].
Proof.
  intros H. rewrite <- (app_nil_r l) at 1. now rewrite insert_after_le.
Qed.

Lemma filter_class_forall p l : Forall (fun x => priority x = p) (filter (of_class p) l).
Proof.
  apply Forall_forall. intros x Hx. apply filter_In in Hx. destruct Hx as [_ Hx].
  now apply Nat.eqb_eq in Hx.
Qed.

Lemma Forall_imp_prio (P Q : dep -> Prop) l : (forall x, P x -> Q x) -> Forall P l -> Forall Q l.
Proof. intros H F. eapply Forall_impl; eauto. Qed.

Lemma insert_by_classes l d : insert_by_priority (by_classes l) d = by_classes (l ++ [d]).
Proof.
  unfold by_classes. rewrite !filter_app. cbn [filter].
  pose proof (filter_class_forall 0 l) as F0.
  pose proof (filter_class_forall 1 l) as F1.
  pose proof (filter_class_forall 2 l) as F2.
  change (of_class 0 d) with (priority d =? 0); change (of_class 1 d) with (priority d =? 1);
  change (of_class 2 d) with (priority d =? 2).
  destruct (priority_range d) as [E|[E|E]]; rewrite E; cbn [Nat.eqb app].
  - rewrite insert_after_le by (eapply Forall_imp_prio; [|exact F0]; cbn; intros; lia).
    rewrite insert_before_gt.
    + now rewrite !app_nil_r, <- app_assoc.
    + apply Forall_app. split; (eapply Forall_imp_prio; [|eassumption]); cbn; intros; lia.
  - rewrite insert_after_le by (eapply Forall_imp_prio; [|exact F0]; cbn; intros; lia).
    rewrite insert_after_le by (eapply Forall_imp_prio; [|exact F1]; cbn; intros; lia).
    rewrite insert_before_gt by (eapply Forall_imp_prio; [|exact F2]; cbn; intros; lia).
    now rewrite !app_nil_r, <- !app_assoc.
  - rewrite insert_after_le by (eapply Forall_imp_prio; [|exact F0]; cbn; intros; lia).
    rewrite insert_after_le by (eapply Forall_imp_prio; [|exact F1]; cbn; intros; lia).
    rewrite insert_at_end by (eapply Forall_imp_prio; [|exact F2]; cbn; intros; lia).
    now rewrite !app_nil_r.
Qed.

(** any sequence of insertions yields the three classes in order, stably *)
Lemma inserts_by_classes ds : fold_left insert_by_priority ds [] = by_classes ds.
Proof.
  induction ds as [|d ds IH] using rev_ind; [reflexivity|].
  now rewrite fold_left_app; cbn [fold_left]; rewrite IH, insert_by_classes.
Qed.

Lemma str_eqb_refl s : str_eqb s s = true.
Proof.
  induction s as [|x s IH]; cbn; [reflexivity|].
  rewrite IH. unfold beqb. now rewrite Byte.byte_dec_lb.
Qed.

Lemma alookup_aset_same {A} k (v : A) m : alookup k (aset k v m) = Some v.
Proof.
  induction m as [|[k' v'] m IH]; cbn.
  - now rewrite str_eqb_refl.
  - destruct (str_eqb k k') eqn:E; cbn; rewrite ?str_eqb_refl, ?E; auto.
Qed.

(** the same on the graph: what ResolveDependencies finds at [path] after the
    dependencies [ds] were added there (in that order) to an empty entry *)
Lemma deps_after_adds st path ds :
  deps_at st path = None -> ds <> [] ->
  deps_at (fold_left (fun s d => add_dep_at s path d) ds st) path = Some (by_classes ds).
Proof.
  intros Hnone Hne.
  assert (G : forall ds st l, deps_at st path = Some l ->
              deps_at (fold_left (fun s d => add_dep_at s path d) ds st) path
              = Some (fold_left insert_by_priority ds l)).
  { clear. induction ds as [|d ds IH]; intros st l H; cbn [fold_left]; [exact H|].
    apply IH. unfold add_dep_at, deps_at in *. cbn. rewrite H. apply alookup_aset_same. }
  destruct ds as [|d ds]; [congruence|]. cbn [fold_left].
  rewrite (G ds _ [d]).
  - rewrite <- inserts_by_classes. reflexivity.
  - unfold add_dep_at, deps_at in *. cbn. rewrite Hnone. apply alookup_aset_same.
Qed.

(** the resolve loop takes the dependencies in list order: after the first
    [n] succeeded, the next one it looks at is the n-th of the list *)
Lemma by_classes_sorted ds :
  forall i j, i <= j -> j < length (by_classes ds) ->
  priority (nth i (by_classes ds) (DPending [])) <= priority (nth j (by_classes ds) (DPending [])).
Proof.
  intros i j Hij Hj.
  assert (S : forall l, Forall (fun x => priority x = 0) (filter (of_class 0) l)) by (intro; apply filter_class_forall).
  set (A := filter (of_class 0) ds). set (B := filter (of_class 1) ds). set (C := filter (of_class 2) ds).
  assert (FA : Forall (fun x => priority x = 0) A) by apply filter_class_forall.
  assert (FB : Forall (fun x => priority x = 1) B) by apply filter_class_forall.
  assert (FC : Forall (fun x => priority x = 2) C) by apply filter_class_forall.
  unfold by_classes in *. fold A B C in Hj |- *.
  rewrite !app_length in Hj.
  assert (N : forall k, k < length A + (length B + length C) ->
     (k < length A /\ priority (nth k (A ++ B ++ C) (DPending [])) = 0) \/
     (length A <= k < length A + length B /\ priority (nth k (A ++ B ++ C) (DPending [])) = 1) \/
     (length A + length B <= k /\ priority (nth k (A ++ B ++ C) (DPending [])) = 2)).
  { intros k Hk.
    destruct (Nat.lt_ge_cases k (length A)) as [H1|H1].
    - left. split; [exact H1|]. rewrite app_nth1 by exact H1.
      eapply (proj1 (Forall_forall _ _) FA). now apply nth_In.
    - rewrite app_nth2 by exact H1.
      destruct (Nat.lt_ge_cases (k - length A) (length B)) as [H2|H2].
      + right; left. split; [lia|]. rewrite app_nth1 by exact H2.
        eapply (proj1 (Forall_forall _ _) FB). now apply nth_In.
      + right; right. split; [lia|]. rewrite app_nth2 by exact H2.
        eapply (proj1 (Forall_forall _ _) FC). apply nth_In. lia. }
  destruct (N i ltac:(lia)) as [[? Ei]|[[? Ei]|[? Ei]]];
  destruct (N j ltac:(lia)) as [[? Ej]|[[? Ej]|[? Ej]]]; rewrite Ei, Ej; lia.
Qed.
