(** C14: no write through sharing for the whole of ResolveDependencies.
    During the resolution of any dependencies (nested compilations of
    referenced documents included), a node that existed before changes only
    if it is the container of the target slot of a dependency that was
    pending at the start.  Hence a tree that contains no such container – a
    fully compiled document, an included source – reads back unchanged. *)
From Coq Require Import List Arith Bool Lia.
From Coq.Strings Require Import Byte.
From RimeV Require Import Base.Bytes CfgC.Str CfgC.Tree CfgC.Spec CfgC.Impl CfgC.ImplFacts
  CfgC.DepsProofs CfgC.TermProofs CfgC.ShareProofs.
Import ListNotations.

Definition dep_target (d : dep) : option iref :=
  match d with
  | DInclude _ t | DPatchRef _ t | DPatchLit _ t => Some t
  | DPending _ => None
  end.

Definition is_base (r : iref) : Prop := match r with RCow _ _ _ _ => False | _ => True end.

(* the container (if any) a dependency writes in place *)
Definition dep_base (d : dep) : option nat :=
  match dep_target d with Some t => base_addr t | None => None end.

Section Whole.
  Variable L0 : nat.                 (* heap size at the start *)
  Variable B0 : nat -> Prop.         (* containers of the target slots pending at the start *)

  Definition dep_ok (d : dep) : Prop :=
    match dep_target d with
    | Some t => is_base t /\ match base_addr t with Some a => B0 a \/ L0 <= a | None => True end
    | None => True
    end.

  Definition winv (st : state) : Prop :=
    L0 <= length (st_heap st) /\
    forall p l d, In (p, l) (st_deps st) -> In d l -> dep_ok d.

  (** nodes below [L0] that are not in [B0] are as before; the heap only grows *)
  Definition wframe (st st' : state) : Prop :=
    length (st_heap st) <= length (st_heap st') /\
    forall a, a < L0 -> ~ B0 a -> hget (st_heap st') a = hget (st_heap st) a.

  Lemma wframe_refl st : wframe st st. Proof. split; auto. Qed.
  Lemma wframe_trans a b c : wframe a b -> wframe b c -> wframe a c.
  Proof.
    intros (l1 & f1) (l2 & f2). split; [lia|]. intros x Hx Hb. rewrite f2 by assumption. now apply f1.
  Qed.

  Definition wgood (st st' : state) : Prop := winv st' /\ wframe st st'.
  Lemma wgood_refl st : winv st -> wgood st st. Proof. intros H. split; [exact H|apply wframe_refl]. Qed.
  Lemma wgood_trans a b c : wgood a b -> wgood b c -> wgood a c.
  Proof. intros (_ & f1) (i2 & f2). split; [exact i2|eapply wframe_trans; eauto]. Qed.

  (* an edit through the target of an admissible dependency *)
  Lemma edit_wgood st t r :
    winv st -> is_base t -> (match base_addr t with Some a => B0 a \/ L0 <= a | None => True end) ->
    edit_post (length (st_heap st)) st t r -> sg st (snd (fst r)) ->
    wgood st (snd (fst r)).
  Proof.
    intros (HL & Hd) Hb Ha ((l & f & _) & _) (Sd & _). split.
    - split; [lia|]. rewrite Sd. exact Hd.
    - split; [exact l|]. intros a Hx Hn. apply f; [lia|].
      intros E. rewrite <- E in Ha. destruct Ha as [Ha|Ha]; [contradiction|lia].
  Qed.

  Lemma is_base_owned L t : is_base t -> owned L t.
  Proof. destruct t; cbn; auto. intros []. Qed.

  (** ** parsing: new dependencies target containers allocated by the parse *)
  Definition ns_ok (ns : list iref) : Prop :=
    Forall (fun r => is_base r /\ match base_addr r with Some a => L0 <= a | None => True end) ns.

  Lemma winv_add_dep_at st path d : winv st -> dep_ok d -> winv (add_dep_at st path d).
  Proof.
    intros (HL & Hd) Hk. split; [exact HL|]. unfold add_dep_at. cbn.
    intros p l x Hin Hx. apply In_aset in Hin. destruct Hin as [E|Hin]; [|eauto].
    inversion E; subst. apply In_insert_by_priority in Hx. destruct Hx as [->|Hx]; [exact Hk|].
    destruct (deps_at st path) as [l0|] eqn:E0; [|destruct Hx].
    eapply Hd; [eapply alookup_In; exact E0|exact Hx].
  Qed.

  Lemma heap_add_dep_at st path d : st_heap (add_dep_at st path d) = st_heap st.
  Proof. reflexivity. Qed.

  Lemma spread_pending_w ks : forall st, winv st ->
    winv (spread_pending st ks) /\ st_heap (spread_pending st ks) = st_heap st.
  Proof.
    induction ks as [|k rest IH]; intros st W; cbn [spread_pending]; [auto|].
    destruct rest as [|k2 rest']; [auto|].
    set (pp := join_path (rev (k2 :: rest'))).
    assert (W1 : winv (add_dep_at st pp (DPending (pp ++ s_slash ++ k)))) by (apply winv_add_dep_at; [exact W|exact I]).
    destruct (pending_at st pp || (length (k2 :: rest') =? 1)); [split; [exact W1|reflexivity]|].
    destruct (IH _ W1) as [W2 H2]. split; [exact W2|now rewrite H2].
  Qed.

  Lemma graph_add_w st ns ks mk :
    winv st -> ns_ok ns -> (forall t, dep_target (mk t) = Some t \/ dep_target (mk t) = None) ->
    winv (graph_add st ns ks mk) /\ st_heap (graph_add st ns ks mk) = st_heap st.
  Proof.
    intros W Hns Hmk. unfold graph_add. destruct ns as [|t ns]; [auto|].
    inversion Hns as [|? ? [Hb Ha] _]; subst.
    assert (Hk : dep_ok (mk t)).
    { unfold dep_ok. destruct (Hmk t) as [E|E]; rewrite E; [|exact I]. split; [exact Hb|].
      destruct (base_addr t); [now right|exact I]. }
    assert (W1 : winv (add_dep_at st (join_path (rev ks)) (mk t))) by (now apply winv_add_dep_at).
    destruct (pending_at st (join_path (rev ks)) || (length ks =? 1)); [split; [exact W1|reflexivity]|].
    destruct (spread_pending_w ks _ W1) as [W2 H2]. split; [exact W2|now rewrite H2].
  Qed.

  Lemma parse_patch_h_w st ns ks item : winv st -> ns_ok ns ->
    winv (snd (parse_patch_h st ns ks item)) /\ st_heap (snd (parse_patch_h st ns ks item)) = st_heap st.
  Proof.
    intros W Hns. unfold parse_patch_h. destruct item as [a|]; [|auto].
    destruct (hget (st_heap st) a) as [[s|l|m]|]; cbn [snd]; auto.
    - apply graph_add_w; auto; try (intros t; now left).
    - apply graph_add_w; auto; try (intros t; now left).
  Qed.

  Lemma parse_patch_list_h_w ns ks : forall l st, winv st -> ns_ok ns ->
    winv (snd (parse_patch_list_h st ns ks l)) /\ st_heap (snd (parse_patch_list_h st ns ks l)) = st_heap st.
  Proof.
    induction l as [|x l IH]; intros st W Hns; cbn [parse_patch_list_h]; [auto|].
    destruct (parse_patch_h_w st ns ks x W Hns) as [W1 H1].
    destruct (parse_patch_h st ns ks x) as [ok st1]. cbn [snd] in *.
    destruct ok; [|auto]. destruct (IH st1 W1 Hns) as [W2 H2]. split; [exact W2|congruence].
  Qed.

  Lemma parse_h_w st ns ks key item : winv st -> ns_ok ns ->
    winv (snd (parse_h st ns ks key item)) /\ st_heap (snd (parse_h st ns ks key item)) = st_heap st.
  Proof.
    intros W Hns. unfold parse_h. destruct (str_eqb key s_include).
    - destruct (deref st item) as [[s|l|m]|]; cbn [snd]; auto. apply graph_add_w; auto; try (intros t; now left).
    - destruct (str_eqb key s_patch); [|auto].
      destruct (as_list st item) as [[a l]|]; [now apply parse_patch_list_h_w|now apply parse_patch_h_w].
  Qed.

  (* conversion of a node: older nodes untouched, invariant kept *)
  Definition conv_w (y : ydoc) : Prop :=
    forall ns ks st, winv st -> ns_ok ns ->
      let st' := snd (convert y ns ks st) in
      winv st' /\ length (st_heap st) <= length (st_heap st') /\
      forall x, x < length (st_heap st) -> hget (st_heap st') x = hget (st_heap st) x.

  Lemma winv_heap st h : winv st -> length (st_heap st) <= length h -> winv (with_heap st h).
  Proof. intros (HL & Hd) Hh. split; [cbn; lia|exact Hd]. Qed.

  Lemma heap_map_set_w st a k v : winv st -> winv (heap_map_set st a k v) /\
    length (st_heap (heap_map_set st a k v)) = length (st_heap st) /\
    forall x, x <> a -> hget (st_heap (heap_map_set st a k v)) x = hget (st_heap st) x.
  Proof.
    intros W. unfold heap_map_set. destruct (hget (st_heap st) a) as [[s|l|m]|]; try (split; [exact W|split; [reflexivity|reflexivity]]).
    split; [apply winv_heap; [exact W|rewrite hset_length; lia]|]. cbn. split; [apply hset_length|].
    intros x Hx. apply hget_hset_other. congruence.
  Qed.
  Lemma heap_list_append_w st a v : winv st -> winv (heap_list_append st a v) /\
    length (st_heap (heap_list_append st a v)) = length (st_heap st) /\
    forall x, x <> a -> hget (st_heap (heap_list_append st a v)) x = hget (st_heap st) x.
  Proof.
    intros W. unfold heap_list_append. destruct (hget (st_heap st) a) as [[s|l|m]|]; try (split; [exact W|split; [reflexivity|reflexivity]]).
    split; [apply winv_heap; [exact W|rewrite hset_length; lia]|]. cbn. split; [apply hset_length|].
    intros x Hx. apply hget_hset_other. congruence.
  Qed.

  Lemma conv_map_w a ns ks : forall m st,
    Forall (fun e => conv_w (snd e)) m -> winv st -> ns_ok ns -> L0 <= a ->
    let st' := conv_map (fun c => convert c) a ns ks m st in
    winv st' /\ length (st_heap st) <= length (st_heap st') /\
    forall x, x < length (st_heap st) -> x <> a -> hget (st_heap st') x = hget (st_heap st) x.
  Proof.
    induction m as [|[k c] m IH]; intros st F W Hns Ha; cbn [conv_map]; [auto|].
    inversion F as [|? ? Fc Fm]; subst. cbn [snd] in Fc.
    assert (Hns' : ns_ok (RMapE a k :: ns)) by (constructor; [cbn; auto|exact Hns]).
    specialize (Fc (RMapE a k :: ns) (k :: ks) st W Hns').
    destruct (convert c (RMapE a k :: ns) (k :: ks) st) as [p st1]. cbn [snd] in Fc.
    destruct Fc as (W1 & L1 & A1).
    destruct (parse_h_w st1 ns ks k p W1 Hns) as [W2 H2].
    destruct (parse_h st1 ns ks k p) as [consumed st2]. cbn [snd] in *.
    set (st3 := if consumed then st2 else heap_map_set st2 a k p).
    assert (K3 : winv st3 /\ length (st_heap st3) = length (st_heap st2) /\
                 forall x, x <> a -> hget (st_heap st3) x = hget (st_heap st2) x).
    { subst st3. destruct consumed; [auto|now apply heap_map_set_w]. }
    destruct K3 as (W3 & L3 & A3).
    destruct (IH st3 Fm W3 Hns Ha) as (W4 & L4 & A4).
    split; [exact W4|]. split; [rewrite H2 in L3; lia|].
    intros x Hx Hxa. rewrite A4 by (try exact Hxa; rewrite L3, H2; lia).
    rewrite A3 by exact Hxa. rewrite H2. now apply A1.
  Qed.

  Lemma conv_seq_w a ns ks : forall l i st,
    Forall conv_w l -> winv st -> ns_ok ns -> L0 <= a ->
    let st' := conv_seq (fun c => convert c) a ns ks l i st in
    winv st' /\ length (st_heap st) <= length (st_heap st') /\
    forall x, x < length (st_heap st) -> x <> a -> hget (st_heap st') x = hget (st_heap st) x.
  Proof.
    induction l as [|c l IH]; intros i st F W Hns Ha; cbn [conv_seq]; [auto|].
    inversion F as [|? ? Fc Fl]; subst.
    assert (Hns' : ns_ok (RListE a i :: ns)) by (constructor; [cbn; auto|exact Hns]).
    specialize (Fc (RListE a i :: ns) (idx_key i :: ks) st W Hns').
    destruct (convert c (RListE a i :: ns) (idx_key i :: ks) st) as [p st1]. cbn [snd] in Fc.
    destruct Fc as (W1 & L1 & A1).
    destruct (heap_list_append_w st1 a p W1) as (W3 & L3 & A3).
    destruct (IH (S i) _ Fl W3 Hns Ha) as (W4 & L4 & A4).
    split; [exact W4|]. split; [lia|].
    intros x Hx Hxa. rewrite A4 by (try exact Hxa; lia). rewrite A3 by exact Hxa. now apply A1.
  Qed.

  Lemma convert_w : forall y, conv_w y.
  Proof.
    induction y as [|s|l IHl|m IHm] using ydoc_ind'; intros ns ks st W Hns; cbn [convert].
    - cbn. auto.
    - unfold alloc. cbn [snd st_heap with_heap]. split; [apply winv_heap; [exact W|rewrite app_length; lia]|].
      split; [rewrite app_length; lia|]. intros x Hx. now apply hget_app_old.
    - unfold alloc. cbn [snd].
      set (st1 := with_heap st (st_heap st ++ [HList []])).
      assert (W1 : winv st1) by (apply winv_heap; [exact W|rewrite app_length; lia]).
      assert (Len1 : length (st_heap st1) = S (length (st_heap st))) by (subst st1; cbn; rewrite app_length; cbn; lia).
      destruct (conv_seq_w (length (st_heap st)) ns ks l 0 st1 IHl W1 Hns (proj1 W)) as (W2 & L2 & A2).
      split; [exact W2|]. split; [lia|].
      intros x Hx. rewrite A2 by lia. subst st1. cbn. now apply hget_app_old.
    - unfold alloc. cbn [snd].
      set (st1 := with_heap st (st_heap st ++ [HMap []])).
      assert (W1 : winv st1) by (apply winv_heap; [exact W|rewrite app_length; lia]).
      assert (Len1 : length (st_heap st1) = S (length (st_heap st))) by (subst st1; cbn; rewrite app_length; cbn; lia).
      destruct (conv_map_w (length (st_heap st)) ns ks m st1 IHm W1 Hns (proj1 W)) as (W2 & L2 & A2).
      split; [exact W2|]. split; [lia|].
      intros x Hx. rewrite A2 by lia. subst st1. cbn. now apply hget_app_old.
  Qed.

  Lemma winv_res st r : winv st -> winv (with_res st r).
  Proof. intros (HL & Hd). split; [exact HL|exact Hd]. Qed.

  Lemma auto_patch_h_w st id : winv st ->
    winv (auto_patch_h st id) /\ st_heap (auto_patch_h st id) = st_heap st.
  Proof.
    intros W. unfold auto_patch_h. destruct (ends_with id s_custom); [auto|].
    assert (K : winv (graph_add st [RRes id] [id ++ [c_colon]] (DPatchRef (auto_patch_ref id))) /\
                st_heap (graph_add st [RRes id] [id ++ [c_colon]] (DPatchRef (auto_patch_ref id))) = st_heap st).
    { apply graph_add_w; [exact W| |intros t; now left]. constructor; [cbn; auto|constructor]. }
    destruct (deps_at st (id ++ [c_colon])) as [[|d l]|]; try exact K.
    destruct (2 <=? priority (last l d)); [auto|exact K].
  Qed.

  Lemma compile_h_w ds st file : winv st -> wgood st (snd (compile_h ds st file)).
  Proof.
    intros W. unfold compile_h.
    set (id := to_resource_id file).
    set (st1 := with_res st (aset id {| rs_root := None; rs_loaded := false |} (st_res st))).
    assert (W1 : winv st1) by now apply winv_res.
    destruct (alookup id ds) as [y|].
    - pose proof (convert_w y [RRes id] [id ++ [c_colon]] st1 W1
                    ltac:(constructor; [cbn; auto|constructor])) as K.
      destruct (convert y [RRes id] [id ++ [c_colon]] st1) as [p st2]. cbn [snd] in *.
      destruct K as (W2 & L2 & A2).
      set (st3 := with_res st2 (aset id {| rs_root := p; rs_loaded := true |} (st_res st2))).
      destruct (auto_patch_h_w st3 id (winv_res _ _ W2)) as [W4 H4].
      split; [exact W4|]. split; [rewrite H4; exact L2|].
      intros a Ha _. rewrite H4. cbn. apply A2. destruct W as [HL _]. cbn. lia.
    - destruct (auto_patch_h_w st1 id W1) as [W4 H4]. cbn [snd].
      split; [exact W4|]. split; [rewrite H4; cbn; lia|]. intros a _ _. now rewrite H4.
  Qed.

  (** ** ResolveDependencies *)
  Section WithRec.
    Variable ds : docs.
    Variable wf : nat.
    Variable rec : str -> state -> bool * state.
    Hypothesis Hrec : forall p st, winv st -> wgood st (snd (rec p st)).

    Lemma walk_keys_w : forall keys st node np, winv st -> wgood st (snd (walk_keys rec keys st node np)).
    Proof.
      induction keys as [|key keys IH]; intros st node np W; cbn [walk_keys].
      - specialize (Hrec np st W). destruct (rec np st) as [ok st1]. exact Hrec.
      - set (st1 := if blocking st np then snd (rec np st) else st).
        assert (K1 : wgood st st1) by (subst st1; destruct (blocking st np); [now apply Hrec|now apply wgood_refl]).
        destruct (get_item st1 node) as [a|]; [|exact K1].
        destruct (hget (st_heap st1) a) as [[s|l|m]|]; try exact K1.
        + destruct (is_list_ref key); [|exact K1]. eapply wgood_trans; [exact K1|]. apply IH. apply K1.
        + eapply wgood_trans; [exact K1|]. apply IH. apply K1.
    Qed.

    Lemma resolve_reference_w st r : winv st -> wgood st (snd (resolve_reference ds rec st r)).
    Proof.
      intros W. unfold resolve_reference, get_resolved_item.
      destruct (alookup (r_res r) (st_res st)) as [rs|].
      - destruct (rs_loaded rs); [now apply walk_keys_w|now apply wgood_refl].
      - pose proof (compile_h_w ds st (r_res r) W) as K.
        destruct (compile_h ds st (r_res r)) as [[id loaded] st1]. cbn [snd] in *.
        destruct loaded; [|exact K]. eapply wgood_trans; [exact K|]. apply walk_keys_w. apply K.
    Qed.

    Lemma resolve_dep_w st d : winv st -> dep_ok d -> wgood st (snd (resolve_dep ds wf rec st d)).
    Proof.
      intros W Hd. destruct d as [cp|r t|r t|a t]; cbn [resolve_dep].
      - now apply Hrec.
      - pose proof (resolve_reference_w st r W) as K.
        destruct (resolve_reference ds rec st r) as [inc st1]. cbn [snd] in K.
        destruct inc as [ia|]; [|exact K].
        destruct Hd as [Hb Ha]. cbn [dep_target] in *.
        pose proof (include_h_frame (length (st_heap st1)) wf st1 t (Some ia) (Nat.le_refl _) (is_base_owned _ t Hb)) as E.
        pose proof (sg_include_h wf st1 t (Some ia)) as S.
        pose proof (edit_wgood st1 t _ (proj1 K) Hb Ha E S) as G.
        destruct (include_h wf st1 t (Some ia)) as [[ok st2] t']. cbn [fst snd] in *.
        eapply wgood_trans; eauto.
      - pose proof (resolve_reference_w st r W) as K.
        destruct (resolve_reference ds rec st r) as [p st1]. cbn [snd] in K.
        destruct p as [pa|]; [|exact K].
        destruct (as_map st1 (Some pa)) as [[a' m]|]; [|exact K].
        destruct Hd as [Hb Ha]. cbn [dep_target] in *.
        pose proof (patch_literal_h_frame (length (st_heap st1)) wf m st1 t (Nat.le_refl _) (is_base_owned _ t Hb)) as E.
        pose proof (sg_patch_literal_h wf m st1 t) as S.
        pose proof (edit_wgood st1 t _ (proj1 K) Hb Ha E S) as G.
        destruct (patch_literal_h wf m st1 t) as [[ok st2] t']. cbn [fst snd] in *.
        eapply wgood_trans; eauto.
      - destruct (as_map st (Some a)) as [[a' m]|].
        + destruct Hd as [Hb Ha]. cbn [dep_target] in *.
          pose proof (patch_literal_h_frame (length (st_heap st)) wf m st t (Nat.le_refl _) (is_base_owned _ t Hb)) as E.
          pose proof (sg_patch_literal_h wf m st t) as S.
          pose proof (edit_wgood st t _ W Hb Ha E S) as G.
          destruct (patch_literal_h wf m st t) as [[ok st2] t']. exact G.
        + cbn [snd]. split; [destruct W as [HL Hx]; split; [exact HL|exact Hx]|]. split; [cbn; lia|intros; reflexivity].
    Qed.

    Lemma winv_erase_head_dep st path : winv st -> winv (erase_head_dep st path).
    Proof.
      intros (HL & Hd). unfold erase_head_dep.
      destruct (deps_at st path) as [[|d l]|] eqn:E; try (split; assumption).
      split; [exact HL|]. cbn. intros p l' x Hin Hx. apply In_aset in Hin. destruct Hin as [Eq|Hin]; [|eauto].
      inversion Eq; subst. eapply Hd; [eapply alookup_In; exact E|now right].
    Qed.
    Lemma heap_erase_head_dep st path : st_heap (erase_head_dep st path) = st_heap st.
    Proof. unfold erase_head_dep. destruct (deps_at st path) as [[|d l]|]; reflexivity. Qed.

    Lemma resolve_loop_w path : forall l st,
      winv st -> (forall d, In d l -> dep_ok d) -> wgood st (snd (resolve_loop ds wf rec l path st)).
    Proof.
      induction l as [|d l IH]; intros st W Hd; cbn [resolve_loop]; [now apply wgood_refl|].
      pose proof (resolve_dep_w st d W (Hd d (or_introl eq_refl))) as K.
      destruct (resolve_dep ds wf rec st d) as [ok st1]. cbn [snd] in K.
      destruct ok; [|exact K].
      eapply wgood_trans; [exact K|].
      assert (W2 : winv (erase_head_dep st1 path)) by (apply winv_erase_head_dep; apply K).
      eapply wgood_trans; [|apply IH; [exact W2|intros x Hx; apply Hd; now right]].
      split; [exact W2|]. unfold wframe. rewrite heap_erase_head_dep.
      split; [lia|intros a _ _; reflexivity].
    Qed.
  End WithRec.

  Lemma winv_chain st c : winv st -> winv (with_chain st c).
  Proof. intros (HL & Hd). split; [exact HL|exact Hd]. Qed.

  Lemma resolve_deps_body_w ds wf rec path st :
    (forall p s, winv s -> wgood s (snd (rec p s))) -> winv st ->
    wgood st (snd (resolve_deps_body ds wf rec path st)).
  Proof.
    intros Hrec W. unfold resolve_deps_body.
    destruct (deps_at st path) as [l|] eqn:E; [|now apply wgood_refl].
    destruct (has_circular st path); [now apply wgood_refl|].
    set (st1 := with_chain st (st_chain st ++ [path])).
    assert (W1 : winv st1) by now apply winv_chain.
    assert (Hd : forall d, In d l -> dep_ok d).
    { intros d Hd. destruct W as [_ H]. eapply H; [eapply alookup_In; exact E|exact Hd]. }
    pose proof (resolve_loop_w ds wf rec Hrec path l st1 W1 Hd) as K.
    destruct (resolve_loop ds wf rec l path st1) as [ok st2]. cbn [snd] in K.
    destruct ok; cbn [snd]; [|exact K].
    destruct K as (W2 & F2). split; [now apply winv_chain|exact F2].
  Qed.

  Theorem resolve_deps_w ds wf : forall fuel path st, winv st -> wgood st (snd (resolve_deps ds wf fuel path st)).
  Proof.
    induction fuel as [|f IH]; intros path st W; cbn [resolve_deps].
    - cbn [snd]. split; [destruct W as [HL Hx]; split; [exact HL|exact Hx]|]. split; [cbn; lia|intros; reflexivity].
    - apply resolve_deps_body_w; [intros p s Ws; now apply IH|exact W].
  Qed.
End Whole.

(** * the statement *)
Definition pending_base (st : state) (a : nat) : Prop :=
  exists p l d, In (p, l) (st_deps st) /\ In d l /\ dep_base d = Some a.

Definition targets_are_slots (st : state) : Prop :=
  forall p l d t, In (p, l) (st_deps st) -> In d l -> dep_target d = Some t -> is_base t.

(** Whatever ResolveDependencies does from a state [st] (for any path, any
    fuel, any documents - nested compilations included), a node of [st]'s
    heap changes only if it is the container of the target slot of a
    dependency pending in [st]. *)
Theorem resolve_writes_only_pending_targets ds wf fuel path st :
  targets_are_slots st ->
  forall a, a < length (st_heap st) -> ~ pending_base st a ->
  hget (st_heap (snd (resolve_deps ds wf fuel path st))) a = hget (st_heap st) a.
Proof.
  intros Ht a Ha Hn.
  assert (W : winv (length (st_heap st)) (pending_base st) st).
  { split; [lia|]. intros p l d Hin Hd. unfold dep_ok.
    destruct (dep_target d) as [t|] eqn:E; [|exact I]. split; [eapply Ht; eauto|].
    destruct (base_addr t) as [b|] eqn:Eb; [|exact I]. left. exists p, l, d.
    repeat split; auto. unfold dep_base. now rewrite E. }
  destruct (resolve_deps_w (length (st_heap st)) (pending_base st) ds wf fuel path st W) as (_ & _ & F).
  now apply F.
Qed.

(* the traversal [readback wf h q] visits no address of [bad] and no dangling pointer *)
Fixpoint avoids_all (wf : nat) (h : heap) (bad : nat -> bool) (q : ptr) : bool :=
  match wf with
  | 0 => true
  | S wf' =>
    match q with
    | None => true
    | Some a =>
        negb (bad a) &&
        match hget h a with
        | Some (HList l) => av_list (avoids_all wf' h bad) l
        | Some (HMap m) => av_map (avoids_all wf' h bad) m
        | Some (HScalar _) => true
        | None => false
        end
    end
  end.

Lemma readback_agree_all wf : forall h h' bad q,
  (forall a, a < length h -> bad a = false -> hget h' a = hget h a) ->
  avoids_all wf h bad q = true ->
  readback wf h' q = readback wf h q.
Proof.
  induction wf as [|wf IH]; intros h h' bad q Hag Hav; [reflexivity|].
  cbn [readback avoids_all] in *. destruct q as [a|]; [|reflexivity].
  apply andb_true_iff in Hav. destruct Hav as [Hne Hav]. apply negb_true_iff in Hne.
  destruct (hget h a) as [n|] eqn:E; [|discriminate].
  rewrite (Hag a (hget_Some_lt _ _ _ E) Hne), E.
  destruct n as [s|l|m]; [reflexivity| |].
  - assert (G : rb_list (readback wf h') l = rb_list (readback wf h) l).
    { clear E. induction l as [|x l IHl]; cbn [rb_list av_list] in *; [reflexivity|].
      apply andb_true_iff in Hav. destruct Hav as [H1 H2].
      rewrite (IH h h' bad x Hag H1), (IHl H2). reflexivity. }
    now rewrite G.
  - assert (G : rb_map (readback wf h') m = rb_map (readback wf h) m).
    { clear E. induction m as [|[k x] m IHm]; cbn [rb_map av_map] in *; [reflexivity|].
      apply andb_true_iff in Hav. destruct Hav as [H1 H2].
      rewrite (IH h h' bad x Hag H1), (IHm H2). reflexivity. }
    now rewrite G.
Qed.

(** Sources stay untouched: a tree that contains no container of a pending
    target slot (a fully compiled document, an included source) reads back
    the same after any further resolution in the same compiler. *)
Theorem sources_untouched_by_resolve ds wf fuel path st (bad : nat -> bool) wf' q :
  targets_are_slots st ->
  (forall a, pending_base st a -> bad a = true) ->
  avoids_all wf' (st_heap st) bad q = true ->
  readback wf' (st_heap (snd (resolve_deps ds wf fuel path st))) q = readback wf' (st_heap st) q.
Proof.
  intros Ht Hb Hav. apply (readback_agree_all wf' _ _ bad q); [|exact Hav].
  intros a Ha Hbad. apply resolve_writes_only_pending_targets; auto.
  intros Hp. apply Hb in Hp. congruence.
Qed.

(** computable form: the containers of the pending target slots *)
Definition pending_bases (st : state) : list nat :=
  flat_map (fun e => flat_map (fun d => match dep_base d with Some a => [a] | None => [] end) (snd e))
           (st_deps st).
Definition is_pending_base (st : state) (a : nat) : bool := existsb (Nat.eqb a) (pending_bases st).

Lemma pending_base_in st a : pending_base st a -> is_pending_base st a = true.
Proof.
  intros (p & l & d & Hin & Hd & Hb). unfold is_pending_base. apply existsb_exists. exists a.
  split; [|apply Nat.eqb_refl]. unfold pending_bases. apply in_flat_map. exists (p, l). split; [exact Hin|].
  cbn [snd]. apply in_flat_map. exists d. split; [exact Hd|]. rewrite Hb. now left.
Qed.

Theorem sources_untouched ds wf fuel path st wf' q :
  targets_are_slots st ->
  avoids_all wf' (st_heap st) (is_pending_base st) q = true ->
  readback wf' (st_heap (snd (resolve_deps ds wf fuel path st))) q = readback wf' (st_heap st) q.
Proof.
  intros Ht Hav. apply (sources_untouched_by_resolve ds wf fuel path st (is_pending_base st)); auto.
  intros a. apply pending_base_in.
Qed.

(** the states the compiler reaches have slots as dependency targets *)
Lemma compile_targets_are_slots ds st file :
  targets_are_slots st -> targets_are_slots (snd (compile_h ds st file)).
Proof.
  intros Ht.
  assert (W : winv 0 (fun _ => True) st).
  { split; [lia|]. intros p l d Hin Hd. unfold dep_ok. destruct (dep_target d) as [t|] eqn:E; [|exact I].
    split; [eapply Ht; eauto|]. destruct (base_addr t); [now left|exact I]. }
  destruct (compile_h_w 0 (fun _ => True) ds st file W) as ((_ & Hd) & _).
  intros p l d t Hin Hx E. specialize (Hd p l d Hin Hx). unfold dep_ok in Hd. rewrite E in Hd. apply Hd.
Qed.

Lemma resolve_targets_are_slots ds wf fuel path st :
  targets_are_slots st -> targets_are_slots (snd (resolve_deps ds wf fuel path st)).
Proof.
  intros Ht.
  assert (W : winv 0 (fun _ => True) st).
  { split; [lia|]. intros p l d Hin Hd. unfold dep_ok. destruct (dep_target d) as [t|] eqn:E; [|exact I].
    split; [eapply Ht; eauto|]. destruct (base_addr t); [now left|exact I]. }
  destruct (resolve_deps_w 0 (fun _ => True) ds wf fuel path st W) as ((_ & Hd) & _).
  intros p l d t Hin Hx E. specialize (Hd p l d Hin Hx). unfold dep_ok in Hd. rewrite E in Hd. apply Hd.
Qed.

Lemma st0_targets_are_slots : targets_are_slots st0.
Proof. intros p l d t []. Qed.
