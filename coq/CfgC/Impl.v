(** C14: a port of the config compiler that exists (config_compiler.cc,
    config_cow_ref.h, config_data.cc, the plugins), over an explicit heap of
    shared nodes so that pointer sharing and ConfigCowRef's copy-on-write are
    represented.  Model file: definitions only.

    Addresses are indices into [heap]; [None] is the null pointer.  Every
    ConfigItemRef is an [iref]; a copy-on-write reference carries the
    container it copied ([copied_] and [container_]), so functions that write through references return the
    updated reference.  [resolve_deps] is ConfigCompiler::ResolveDependencies;
    its recursion is bounded by explicit fuel ([st_oof] records exhaustion);
    walks down the heap (MergeTree's recursion, readback) have their own fuel
    ([st_woof]); [st_ub] records a null container dereference. *)
From Coq Require Import List NArith Arith Bool.
From Coq.Strings Require Import Byte.
From RimeV Require Import Base.Bytes CfgC.Str CfgC.Tree CfgC.Spec.
Import ListNotations.

Definition ptr := option nat.

Inductive hnode :=
| HScalar (s : str)
| HList (l : list ptr)
| HMap (m : list (str * ptr)).

Definition heap := list hnode.

Inductive iref :=
| RRes (id : str)                                     (* ConfigResource *)
| RMapE (a : nat) (k : str)                           (* ConfigMapEntryRef *)
| RListE (a : nat) (i : nat)                          (* ConfigListEntryRef *)
| RCow (islist : bool) (parent : iref) (k : str) (copied : option nat).
    (* ConfigCowRef<T>; [copied] = the container this reference copied and keeps writing to *)

Inductive dep :=
| DPending (child_path : str)
| DInclude (r : reference) (t : iref)
| DPatchRef (r : reference) (t : iref)
| DPatchLit (m : nat) (t : iref).

Definition priority (d : dep) : nat :=
  match d with DPending _ => 0 | DInclude _ _ => 1 | DPatchRef _ _ => 2 | DPatchLit _ _ => 2 end.

Record resource := { rs_root : ptr; rs_loaded : bool }.

Record state := {
  st_heap : heap;
  st_res : list (str * resource);
  st_deps : list (str * list dep);
  st_chain : list str;
  st_oof : bool;
  st_woof : bool;
  st_ub : bool }.

Definition st0 : state :=
  {| st_heap := []; st_res := []; st_deps := []; st_chain := [];
     st_oof := false; st_woof := false; st_ub := false |}.

Definition with_heap (st : state) (h : heap) : state :=
  {| st_heap := h; st_res := st_res st; st_deps := st_deps st; st_chain := st_chain st;
     st_oof := st_oof st; st_woof := st_woof st; st_ub := st_ub st |}.
Definition with_res (st : state) (r : list (str * resource)) : state :=
  {| st_heap := st_heap st; st_res := r; st_deps := st_deps st; st_chain := st_chain st;
     st_oof := st_oof st; st_woof := st_woof st; st_ub := st_ub st |}.
Definition with_deps (st : state) (d : list (str * list dep)) : state :=
  {| st_heap := st_heap st; st_res := st_res st; st_deps := d; st_chain := st_chain st;
     st_oof := st_oof st; st_woof := st_woof st; st_ub := st_ub st |}.
Definition with_chain (st : state) (c : list str) : state :=
  {| st_heap := st_heap st; st_res := st_res st; st_deps := st_deps st; st_chain := c;
     st_oof := st_oof st; st_woof := st_woof st; st_ub := st_ub st |}.
Definition set_oof (st : state) : state :=
  {| st_heap := st_heap st; st_res := st_res st; st_deps := st_deps st; st_chain := st_chain st;
     st_oof := true; st_woof := st_woof st; st_ub := st_ub st |}.
Definition set_woof (st : state) : state :=
  {| st_heap := st_heap st; st_res := st_res st; st_deps := st_deps st; st_chain := st_chain st;
     st_oof := st_oof st; st_woof := true; st_ub := st_ub st |}.
Definition set_ub (st : state) : state :=
  {| st_heap := st_heap st; st_res := st_res st; st_deps := st_deps st; st_chain := st_chain st;
     st_oof := st_oof st; st_woof := st_woof st; st_ub := true |}.

(** heap *)
Definition hget (h : heap) (a : nat) : option hnode := nth_error h a.
Fixpoint hset (h : heap) (a : nat) (n : hnode) : heap :=
  match h, a with
  | [], _ => []
  | _ :: r, 0 => n :: r
  | x :: r, S a' => x :: hset r a' n
  end.
Definition alloc (st : state) (n : hnode) : nat * state :=
  (length (st_heap st), with_heap st (st_heap st ++ [n])).
Definition deref (st : state) (p : ptr) : option hnode :=
  match p with Some a => hget (st_heap st) a | None => None end.

Definition as_map (st : state) (p : ptr) : option (nat * list (str * ptr)) :=
  match p with
  | Some a => match hget (st_heap st) a with Some (HMap m) => Some (a, m) | _ => None end
  | None => None
  end.
Definition as_list (st : state) (p : ptr) : option (nat * list ptr) :=
  match p with
  | Some a => match hget (st_heap st) a with Some (HList l) => Some (a, l) | _ => None end
  | None => None
  end.
Definition map_get (m : list (str * ptr)) (k : str) : ptr :=
  match alookup k m with Some p => p | None => None end.

Definition res_root (st : state) (id : str) : ptr :=
  match alookup id (st_res st) with Some r => rs_root r | None => None end.
Definition set_root (st : state) (id : str) (p : ptr) : state :=
  match alookup id (st_res st) with
  | Some r => with_res st (aset id {| rs_root := p; rs_loaded := rs_loaded r |} (st_res st))
  | None => st
  end.

(** ConfigItemRef::GetItem *)
Fixpoint get_item (st : state) (r : iref) : ptr :=
  match r with
  | RRes id => res_root st id
  | RMapE a k => match hget (st_heap st) a with Some (HMap m) => map_get m k | _ => None end
  | RListE a i => match hget (st_heap st) a with Some (HList l) => nth i l None | _ => None end
  | RCow true p k _ =>
      match as_list st (get_item st p) with
      | Some (_, l) => nth (fst (resolve_index (length l) k)) l None
      | None => None
      end
  | RCow false p k _ =>
      match as_map st (get_item st p) with
      | Some (_, m) => map_get m k
      | None => None
      end
  end.

(* ConfigCowRef<T>::Write on the container at address a *)
Definition cow_write (st : state) (islist : bool) (a : nat) (k : str) (v : ptr) : state :=
  match hget (st_heap st) a with
  | Some (HList l) =>
      let '(i, ins) := resolve_index (length l) k in
      let l1 := if ins then list_insert None l i None else l in
      with_heap st (hset (st_heap st) a (HList (list_set_at None l1 i v)))
  | Some (HMap m) => with_heap st (hset (st_heap st) a (HMap (sset k v m)))
  | _ => set_ub st
  end.

(** ConfigItemRef::SetItem; returns the reference with its updated flags *)
Fixpoint set_item (st : state) (r : iref) (v : ptr) : state * iref :=
  match r with
  | RRes id => (set_root st id v, r)
  | RMapE a k =>
      (match hget (st_heap st) a with
       | Some (HMap m) => with_heap st (hset (st_heap st) a (HMap (sset k v m)))
       | _ => set_ub st
       end, r)
  | RListE a i =>
      (match hget (st_heap st) a with
       | Some (HList l) => with_heap st (hset (st_heap st) a (HList (list_set_at None l i v)))
       | _ => set_ub st
       end, r)
  | RCow islist p k copied =>
      match copied with
      | Some a => (cow_write st islist a k v, r)
      | None =>
        let cont := if islist
                    then option_map fst (as_list st (get_item st p))
                    else option_map fst (as_map st (get_item st p)) in
        let node := match cont with
                    | Some a => match hget (st_heap st) a with Some n => n | None => HMap [] end
                    | None => if islist then HList [] else HMap []
                    end in
        let '(a', st1) := alloc st node in
        let '(st2, p') := set_item st1 p (Some a') in
        (cow_write st2 islist a' k v, RCow islist p' k (Some a'))
      end
  end.

(** Cow(parent, key) *)
Definition cow (parent : iref) (k : str) : iref := RCow (is_list_ref k) parent k None.

Definition node_is_list (n : hnode) := match n with HList _ => true | _ => false end.
Definition node_is_map (n : hnode) := match n with HMap _ => true | _ => false end.
Definition node_empty (n : hnode) : bool :=
  match n with
  | HScalar s => match s with [] => true | _ => false end
  | HList l => match l with [] => true | _ => false end
  | HMap m => match m with [] => true | _ => false end
  end.

(** TypeCheckedCopyOnWrite / TraverseCopyOnWrite *)
Definition type_checked_h (st : state) (parent : iref) (k : str) : option iref :=
  match k with
  | [] => Some parent
  | _ =>
    match deref st (get_item st parent) with
    | Some n => if (if is_list_ref k then node_is_list n else node_is_map n)
                then Some (cow parent k) else None
    | None => Some (cow parent k)
    end
  end.
Fixpoint type_checked_all_h (st : state) (head : iref) (ks : list str) : option iref :=
  match ks with
  | [] => Some head
  | k :: ks' => match type_checked_h st head k with
                | Some c => type_checked_all_h st c ks'
                | None => None
                end
  end.
Definition traverse_cow_h (st : state) (head : iref) (p : str) : option iref :=
  if match p with [] => true | _ => str_eqb p s_slash end then Some head
  else type_checked_all_h st head (split_path p).

(* recover the (updated) head from a reference found by the two functions above *)
Fixpoint strip_cows (n : nat) (r : iref) : iref :=
  match n with
  | 0 => r
  | S n' => match r with RCow _ p _ _ => strip_cows n' p | _ => r end
  end.

Definition nonempty_keys (ks : list str) : nat :=
  length (filter (fun k => match k with [] => false | _ => true end) ks).

Definition ptr_is_map (st : state) (p : ptr) : bool :=
  match deref st p with Some (HMap _) => true | _ => false end.

(* the loop of MergeTree, parameterised by the editor of one entry *)
Section MergeLoopH.
  Variable ed : state -> iref -> str -> ptr -> bool * state * iref.
  Fixpoint merge_loop_h (m : list (str * ptr)) (st : state) (tgt : iref) : bool * state * iref :=
    match m with
    | [] => (true, st, tgt)
    | (k, v) :: m' =>
        let '(ok, st1, tgt1) := ed st tgt k v in
        if ok then merge_loop_h m' st1 tgt1 else (false, st1, tgt1)
    end.
End MergeLoopH.

(** EditNode, MergeTree, AppendToString, AppendToList.
    Result: success, state, the head reference with updated flags. *)
Fixpoint edit_node_h (wf : nat) (st : state) (head : iref) (key : str) (value : ptr) (mt : bool)
  : bool * state * iref :=
  match wf with
  | 0 => (false, set_woof st, head)
  | S wf' =>
    let appending := is_appending key in
    let merging := str_eqb key s_merge || ends_with key s_add ||
                   (mt && (match value with None => true | _ => ptr_is_map st value end) &&
                    negb (ends_with key s_equ)) in
    let p := strip_operator key (appending || merging) in
    let depth := if mt then nonempty_keys [p]
                 else if match p with [] => true | _ => str_eqb p s_slash end then 0
                      else nonempty_keys (split_path p) in
    match (if mt then type_checked_h st head p else traverse_cow_h st head p) with
    | None => (false, st, head)
    | Some target =>
      let tv := get_item st target in
      match tv with
      | Some ta =>
        if appending || merging then
          match value with
          | None => (true, st, head)
          | Some va =>
            match hget (st_heap st) va with
            | Some (HScalar s) =>
                if appending then
                  match hget (st_heap st) ta with
                  | Some (HScalar t) =>
                      let '(a', st1) := alloc st (HScalar (t ++ s)) in
                      let '(st2, target') := set_item st1 target (Some a') in
                      (true, st2, strip_cows depth target')
                  | _ => (false, st, head)
                  end
                else (false, st, head)
            | Some (HList vl) =>
                if appending then
                  match hget (st_heap st) ta with
                  | Some (HList tl) =>
                      match vl with
                      | [] => (true, st, head)
                      | _ =>
                        let '(a', st1) := alloc st (HList (tl ++ vl)) in
                        let '(st2, target') := set_item st1 target (Some a') in
                        (true, st2, strip_cows depth target')
                      end
                  | Some n =>
                      if node_empty n then
                        (* an empty non-list node is converted: the new list is written once *)
                        let '(a', st1) := alloc st (HList vl) in
                        let '(st2, target') := set_item st1 target (Some a') in
                        (true, st2, strip_cows depth target')
                      else (false, st, head)
                  | None => (false, set_ub st, head)
                  end
                else (false, st, head)
            | Some (HMap vm) =>
                if merging then
                  let '(ok, st', target') :=
                    merge_loop_h (fun s t k v => edit_node_h wf' s t k v true) vm st target in
                  (ok, st', strip_cows depth target')
                else (false, st, head)
            | None => (false, set_ub st, head)
            end
          end
        else
          let '(st1, target') := set_item st target value in
          (true, st1, strip_cows depth target')
      | None =>
          let '(st1, target') := set_item st target value in
          (true, st1, strip_cows depth target')
      end
    end
  end.

Definition merge_tree_h (wf : nat) (m : list (str * ptr)) (st : state) (tgt : iref) : bool * state * iref :=
  merge_loop_h (fun s t k v => edit_node_h wf s t k v true) m st tgt.

(** PatchLiteral::Resolve *)
Fixpoint patch_literal_h (wf : nat) (m : list (str * ptr)) (st : state) (tgt : iref) : bool * state * iref :=
  match m with
  | [] => (true, st, tgt)
  | (k, v) :: m' =>
      let '(ok, st1, tgt1) := edit_node_h wf st tgt k v false in
      let '(ok', st2, tgt2) := patch_literal_h wf m' st1 tgt1 in
      (ok && ok', st2, tgt2)
  end.

(** the tail of IncludeReference::Resolve, once [included] is known non-null *)
Definition include_h (wf : nat) (st : state) (target : iref) (included : ptr) : bool * state * iref :=
  let overrides := as_map st (get_item st target) in
  let '(st1, target1) := set_item st target included in
  match overrides with
  | Some (_, e :: m) => merge_tree_h wf (e :: m) st1 target1
  | _ => (true, st1, target1)
  end.

(** dependency graph *)
Definition deps_at (st : state) (path : str) : option (list dep) := alookup path (st_deps st).
Fixpoint insert_by_priority (l : list dep) (d : dep) : list dep :=
  match l with
  | [] => [d]
  | x :: r => if priority d <? priority x then d :: x :: r else x :: insert_by_priority r d
  end.
Definition add_dep_at (st : state) (path : str) (d : dep) : state :=
  with_deps st (aset path (insert_by_priority (match deps_at st path with Some l => l | None => [] end) d)
                     (st_deps st)).
Definition pending_at (st : state) (path : str) : bool :=
  match deps_at st path with Some (_ :: _) => true | _ => false end.

Definition join_path (keys : list str) : str := join_with s_slash keys.

(* the loop of ConfigDependencyGraph::Add that spreads the pending state;
   [rkeys] is the key stack reversed (innermost first) *)
Fixpoint spread_pending (st : state) (rkeys : list str) : state :=
  match rkeys with
  | [] => st
  | last_key :: rest =>
      match rest with
      | [] => st
      | _ =>
        let parent_path := join_path (rev rest) in
        let was := pending_at st parent_path in
        let st1 := add_dep_at st parent_path (DPending (parent_path ++ s_slash ++ last_key)) in
        if was || (length rest =? 1) then st1 else spread_pending st1 rest
      end
  end.

(** ConfigDependencyGraph::Add; [nstack]/[kstack] innermost first *)
Definition graph_add (st : state) (nstack : list iref) (kstack : list str) (mk : iref -> dep) : state :=
  match nstack with
  | [] => st
  | target :: _ =>
      let path := join_path (rev kstack) in
      let was := pending_at st path in
      let st1 := add_dep_at st path (mk target) in
      if was || (length kstack =? 1) then st1 else spread_pending st1 kstack
  end.

Definition current_resource_id (kstack : list str) : str :=
  match rev kstack with [] => [] | k :: _ => trim_right c_colon k end.

(* ParsePatch *)
Definition parse_patch_h (st : state) (ns : list iref) (ks : list str) (item : ptr) : bool * state :=
  match item with
  | Some a =>
      match hget (st_heap st) a with
      | Some (HScalar s) =>
          (true, graph_add st ns ks (DPatchRef (create_reference (current_resource_id ks) s)))
      | Some (HMap _) => (true, graph_add st ns ks (DPatchLit a))
      | _ => (false, st)
      end
  | None => (false, st)
  end.
Fixpoint parse_patch_list_h (st : state) (ns : list iref) (ks : list str) (l : list ptr) : bool * state :=
  match l with
  | [] => (true, st)
  | x :: r => let '(ok, st1) := parse_patch_h st ns ks x in
              if ok then parse_patch_list_h st1 ns ks r else (false, st1)
  end.
(** ConfigCompiler::Parse *)
Definition parse_h (st : state) (ns : list iref) (ks : list str) (key : str) (item : ptr) : bool * state :=
  if str_eqb key s_include then
    match deref st item with
    | Some (HScalar s) =>
        (true, graph_add st ns ks (DInclude (create_reference (current_resource_id ks) s)))
    | _ => (false, st)
    end
  else if str_eqb key s_patch then
    match as_list st item with
    | Some (_, l) => parse_patch_list_h st ns ks l
    | None => parse_patch_h st ns ks item
    end
  else (false, st).

Definition heap_map_set (st : state) (a : nat) (k : str) (v : ptr) : state :=
  match hget (st_heap st) a with
  | Some (HMap m) => with_heap st (hset (st_heap st) a (HMap (sset k v m)))
  | _ => set_ub st
  end.
Definition heap_list_append (st : state) (a : nat) (v : ptr) : state :=
  match hget (st_heap st) a with
  | Some (HList l) => with_heap st (hset (st_heap st) a (HList (l ++ [v])))
  | _ => set_ub st
  end.

(** ConvertFromYaml with a compiler *)
Section ConvertLoops.
  Variable conv : ydoc -> list iref -> list str -> state -> ptr * state.
  Variables (a : nat) (ns : list iref) (ks : list str).
  Fixpoint conv_seq (l : list ydoc) (i : nat) (st : state) : state :=
    match l with
    | [] => st
    | c :: r =>
        let '(p, st') := conv c (RListE a i :: ns) (idx_key i :: ks) st in
        conv_seq r (S i) (heap_list_append st' a p)
    end.
  Fixpoint conv_map (m : list (str * ydoc)) (st : state) : state :=
    match m with
    | [] => st
    | (k, c) :: r =>
        let '(p, st') := conv c (RMapE a k :: ns) (k :: ks) st in
        let '(consumed, st'') := parse_h st' ns ks k p in
        conv_map r (if consumed then st'' else heap_map_set st'' a k p)
    end.
End ConvertLoops.

Fixpoint convert (y : ydoc) (ns : list iref) (ks : list str) (st : state) {struct y} : ptr * state :=
  match y with
  | YNull => (None, st)
  | YScalar s => let '(a, st1) := alloc st (HScalar s) in (Some a, st1)
  | YSeq l =>
      let '(a, st1) := alloc st (HList []) in
      (Some a, conv_seq (fun c => convert c) a ns ks l 0 st1)
  | YMap m =>
      let '(a, st1) := alloc st (HMap []) in
      (Some a, conv_map (fun c => convert c) a ns ks m st1)
  end.

(** AutoPatchConfigPlugin::ReviewCompileOutput *)
Definition auto_patch_h (st : state) (id : str) : state :=
  if ends_with id s_custom then st
  else
    let root_path := id ++ [c_colon] in
    match deps_at st root_path with
    | Some (d :: l) => if 2 <=? priority (last l d) then st
                       else graph_add st [RRes id] [root_path] (DPatchRef (auto_patch_ref id))
    | _ => graph_add st [RRes id] [root_path] (DPatchRef (auto_patch_ref id))
    end.

(** ConfigCompiler::Compile *)
Definition compile_h (ds : docs) (st : state) (file_name : str) : str * bool * state :=
  let id := to_resource_id file_name in
  let st1 := with_res st (aset id {| rs_root := None; rs_loaded := false |} (st_res st)) in
  match alookup id ds with
  | Some y =>
      let '(p, st2) := convert y [RRes id] [id ++ [c_colon]] st1 in
      let st3 := with_res st2 (aset id {| rs_root := p; rs_loaded := true |} (st_res st2)) in
      (id, true, auto_patch_h st3 id)
  | None => (id, false, auto_patch_h st1 id)
  end.

Definition blocking (st : state) (path : str) : bool :=
  match deps_at st path with
  | Some (d :: l) => 0 <? priority (last l d)
  | _ => false
  end.

Definition has_circular (st : state) (path : str) : bool :=
  existsb (fun x => starts_with x path &&
                    ((length x =? length path) ||
                     match nth_error x (length path) with Some c => beqb c c_slash | None => false end))
          (st_chain st).

Definition erase_head_dep (st : state) (path : str) : state :=
  match deps_at st path with
  | Some (_ :: l) => with_deps st (aset path l (st_deps st))
  | _ => st
  end.

Section Resolve.
  Variable ds : docs.
  Variable wf : nat.
  (* ConfigCompiler::ResolveDependencies, one level down *)
  Variable rec : str -> state -> bool * state.

  (** GetResolvedItem *)
  Fixpoint walk_keys (keys : list str) (st : state) (node : iref) (node_path : str) : ptr * state :=
    match keys with
    | [] =>
        let '(ok, st1) := rec node_path st in
        ((if ok then get_item st1 node else None), st1)
    | key :: keys' =>
        let st1 := if blocking st node_path then snd (rec node_path st) else st in
        let item := get_item st1 node in
        match item with
        | Some a =>
            match hget (st_heap st1) a with
            | Some (HList l) =>
                if is_list_ref key then
                  let i := fst (resolve_index (length l) key) in
                  walk_keys keys' st1 (RListE a i) (node_path ++ s_slash ++ idx_key i)
                else (None, st1)
            | Some (HMap _) => walk_keys keys' st1 (RMapE a key) (node_path ++ s_slash ++ key)
            | _ => (None, st1)
            end
        | None => (None, st1)
        end
    end.

  Definition get_resolved_item (st : state) (id : str) (path : str) : ptr * state :=
    walk_keys (ref_keys path) st (RRes id) (id ++ [c_colon]).

  (** ResolveReference *)
  Definition resolve_reference (st : state) (r : reference) : ptr * state :=
    match alookup (r_res r) (st_res st) with
    | Some rs => if rs_loaded rs then get_resolved_item st (r_res r) (r_path r) else (None, st)
    | None =>
        let '(id, loaded, st1) := compile_h ds st (r_res r) in
        if loaded then get_resolved_item st1 id (r_path r) else (None, st1)
    end.

  Definition resolve_dep (st : state) (d : dep) : bool * state :=
    match d with
    | DPending cp => rec cp st
    | DInclude r t =>
        let '(inc, st1) := resolve_reference st r in
        match inc with
        | None => (r_opt r, st1)
        | Some _ => let '(ok, st2, _) := include_h wf st1 t inc in (ok, st2)
        end
    | DPatchRef r t =>
        let '(p, st1) := resolve_reference st r in
        match p with
        | None => (r_opt r, st1)
        | Some _ =>
            match as_map st1 p with
            | Some (_, m) => let '(ok, st2, _) := patch_literal_h wf m st1 t in (ok, st2)
            | None => (false, st1)
            end
        end
    | DPatchLit a t =>
        match as_map st (Some a) with
        | Some (_, m) => let '(ok, st1, _) := patch_literal_h wf m st t in (ok, st1)
        | None => (false, set_ub st)
        end
    end.

  Fixpoint resolve_loop (snapshot : list dep) (path : str) (st : state) : bool * state :=
    match snapshot with
    | [] => (true, st)
    | d :: rest =>
        let '(ok, st1) := resolve_dep st d in
        if ok then resolve_loop rest path (erase_head_dep st1 path) else (false, st1)
    end.

  Definition resolve_deps_body (path : str) (st : state) : bool * state :=
    match deps_at st path with
    | None => (true, st)
    | Some l =>
        if has_circular st path then (false, st)
        else
          let st1 := with_chain st (st_chain st ++ [path]) in
          let '(ok, st2) := resolve_loop l path st1 in
          if ok then (true, with_chain st2 (removelast (st_chain st2))) else (false, st2)
    end.
End Resolve.

Fixpoint resolve_deps (ds : docs) (wf : nat) (fuel : nat) (path : str) (st : state) : bool * state :=
  match fuel with
  | 0 => (false, set_oof st)
  | S f => resolve_deps_body ds wf (resolve_deps ds wf f) path st
  end.

(** link-time plugins *)
Definition include_plugin (ds : docs) (wf fuel : nat) (st : state) (target : iref) (r : reference)
  : bool * state * iref :=
  let '(inc, st1) := resolve_reference ds (resolve_deps ds wf fuel) st r in
  match inc with
  | None => (r_opt r, st1, target)
  | Some _ => include_h wf st1 target inc
  end.

(* ConfigData::Traverse *)
Fixpoint traverse_h (st : state) (p : ptr) (ks : list str) : ptr :=
  match ks with
  | [] => p
  | k :: ks' =>
      if is_list_ref k then
        match as_list st p with
        | Some (_, l) => traverse_h st (nth (fst (resolve_index (length l) k)) l None) ks'
        | None => None
        end
      else
        match as_map st p with
        | Some (_, m) => traverse_h st (map_get m k) ks'
        | None => None
        end
  end.

Definition preset_step_h (ds : docs) (wf fuel : nat) (id : str) (section : str) (kb : bool)
  (acc : bool * state) : bool * state :=
  let '(ok, st) := acc in
  if negb ok then acc else
  match traverse_h st (res_root st id) [section; s_import_preset] with
  | None => acc
  | Some pa =>
      match hget (st_heap st) pa with
      | Some (HScalar pid) =>
          let target := cow (RRes id) section in
          let '(st1, target1) :=
            if kb then
              match as_map st (get_item st target) with
              | Some (_, km) =>
                  match map_get km s_bindings with
                  | Some b =>
                      let '(st', c') := set_item st (cow target s_bindings_add) (Some b) in
                      let target' := match c' with RCow _ p _ _ => p | _ => target end in
                      (* target->operator[] of "bindings" := nullptr, in place on the (copied) map *)
                      (match as_map st' (get_item st' target') with
                       | Some (ka, _) => heap_map_set st' ka s_bindings None
                       | None => set_ub st'
                       end, target')
                  | None => (st, target)
                  end
              | None => (st, target)
              end
            else (st, target) in
          let '(ok2, st2, _) :=
            include_plugin ds wf fuel st1 target1 {| r_res := pid; r_path := section; r_opt := false |} in
          (ok2, st2)
      | _ => (false, st)
      end
  end.

(* the (never printed) content BuildInfoPlugin stores *)

(** ConfigCompiler::Link with the production plugin chain *)
Definition link_h (ds : docs) (wf fuel : nat) (st : state) (id : str) : bool * state :=
  match alookup id (st_res st) with
  | None => (false, st)
  | Some _ =>
      let '(ok, st1) := resolve_deps ds wf fuel (id ++ [c_colon]) st in
      if negb ok then (false, st1)
      else
        (* DefaultConfigPlugin, LegacyPresetConfigPlugin *)
        let '(ok2, st2) :=
          if ends_with id s_schema then
            let '(okd, std, _) :=
              include_plugin ds wf fuel st1 (cow (RRes id) s_menu)
                             {| r_res := s_default; r_path := s_menu; r_opt := true |} in
            preset_step_h ds wf fuel id s_recognizer false
              (preset_step_h ds wf fuel id s_punctuator false
                 (preset_step_h ds wf fuel id s_key_binder true (okd, std)))
          else (true, st1) in
        if negb ok2 then (false, st2)
        else
          (* BuildInfoPlugin: Cow(resource, "__build_info")->AsMap() creates the map
             through the copy-on-write reference (the root map is copied) *)
          let st3 :=
            let '(b, s') := alloc st2 (HMap []) in
            fst (set_item s' (cow (RRes id) s_build_info) (Some b)) in
          (true, st3)
  end.

(** reading a heap value back as a tree *)
Section ReadbackLoops.
  Variable rb : ptr -> item * bool.
  Fixpoint rb_list (l : list ptr) : list item * bool :=
    match l with
    | [] => ([], true)
    | x :: r => let '(v, o1) := rb x in let '(vs, o2) := rb_list r in (v :: vs, o1 && o2)
    end.
  Fixpoint rb_map (m : list (str * ptr)) : list (str * item) * bool :=
    match m with
    | [] => ([], true)
    | (k, x) :: r => let '(v, o1) := rb x in let '(vs, o2) := rb_map r in ((k, v) :: vs, o1 && o2)
    end.
End ReadbackLoops.

Fixpoint readback (wf : nat) (h : heap) (p : ptr) : item * bool :=
  match wf with
  | 0 => (Null, false)
  | S wf' =>
    match p with
    | None => (Null, true)
    | Some a =>
        match hget h a with
        | None => (Null, true)
        | Some (HScalar s) => (Scalar s, true)
        | Some (HList l) => let '(vs, ok) := rb_list (readback wf' h) l in (Lst vs, ok)
        | Some (HMap m) => let '(vs, ok) := rb_map (readback wf' h) m in (Map vs, ok)
        end
    end
  end.

Definition strip_build_info (v : item) : item :=
  match v with
  | Map m => Map (filter (fun e => negb (str_eqb (fst e) s_build_info)) m)
  | _ => v
  end.

Record outcome := {
  o_loaded : bool;
  o_linked : bool;
  o_tree : item;          (* the target's tree, __build_info stripped at the top *)
  o_oof : bool;           (* resolve fuel exhausted *)
  o_woof : bool;          (* heap-walk fuel exhausted *)
  o_ub : bool;
  o_state : state }.

(** ConfigBuilder::LoadConfig *)
Definition compile_impl (ds : docs) (wf fuel : nat) (name : str) : outcome :=
  let '(id, loaded, st1) := compile_h ds st0 name in
  let '(linked, st2) := if loaded then link_h ds wf fuel st1 id else (false, st1) in
  let '(tree, rok) := readback wf (st_heap st2) (res_root st2 id) in
  {| o_loaded := loaded; o_linked := linked; o_tree := strip_build_info tree;
     o_oof := st_oof st2; o_woof := st_woof st2 || negb rok; o_ub := st_ub st2; o_state := st2 |}.

(** observations of the DIRECT mode of the harness *)
Definition resource_tree (wf : nat) (st : state) (id : str) : item :=
  strip_build_info (fst (readback wf (st_heap st) (res_root st id))).
Definition loaded_ids (st : state) : list (str * bool) :=
  map (fun e => (fst e, rs_loaded (snd e))) (st_res st).
Definition relink (ds : docs) (wf fuel : nat) (st : state) (id : str) : bool * state :=
  link_h ds wf fuel st id.
