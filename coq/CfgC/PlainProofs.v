(** C14: the port of the implementation on a directive-free document:
    ConfigBuilder::LoadConfig (Compile, the vacuous automatic patch, Link,
    BuildInfoPlugin) returns the document itself. *)
From Coq Require Import List Arith Bool Lia.
From Coq.Strings Require Import Byte.
From RimeV Require Import Base.Bytes CfgC.Str CfgC.Tree CfgC.Spec CfgC.Impl CfgC.ImplFacts
  CfgC.DepsProofs CfgC.TermProofs CfgC.EditProofs CfgC.SpecProofs CfgC.ConvProofs.
Import ListNotations.

Lemma readback_Map_inv w h p vs :
  readback (S w) h p = (Map vs, true) ->
  exists a m, p = Some a /\ hget h a = Some (HMap m) /\ rb_map (readback w h) m = (vs, true).
Proof.
  cbn [readback]. destruct p as [a|]; [|discriminate].
  destruct (hget h a) as [[s|l|m]|] eqn:E; try discriminate.
  - destruct (rb_list (readback w h) l). discriminate.
  - destruct (rb_map (readback w h) m) as [vs' ok] eqn:R. intros H. inversion H; subst.
    exists a, m. auto.
Qed.

Lemma filter_all {A} (f : A -> bool) l : (forall x, In x l -> f x = true) -> filter f l = l.
Proof.
  induction l as [|x l IH]; intros H; cbn; [reflexivity|].
  rewrite (H x (or_introl eq_refl)). f_equal. apply IH. intros y Hy. apply H. now right.
Qed.

Lemma filter_sset_drop (k : str) (v : item) vs :
  (forall e, In e vs -> str_eqb (fst e) k = false) ->
  filter (fun e => negb (str_eqb (fst e) k)) (sset k v vs) = vs.
Proof.
  induction vs as [|[k' v'] vs IH]; intros H; cbn [sset].
  - cbn. now rewrite str_eqb_refl.
  - pose proof (H (k', v') (or_introl eq_refl)) as Hk. cbn [fst] in Hk.
    rewrite str_eqb_sym, Hk.
    destruct (str_ltb k k'); cbn [filter fst].
    + rewrite str_eqb_refl, Hk. cbn [negb]. f_equal.
      apply filter_all. intros e He. now rewrite (H e (or_intror He)).
    + rewrite Hk. cbn [negb]. f_equal. apply IH. intros e He. apply H. now right.
Qed.

Lemma Forall_fold_sset (P : str * item -> Prop) (m : list (str * ydoc)) : forall acc,
  (forall e, In e m -> P (fst e, y2item (snd e))) -> Forall P acc ->
  Forall P (fold_left (fun a e => sset (fst e) (y2item (snd e)) a) m acc).
Proof.
  induction m as [|e m IH]; intros acc H Ha; cbn [fold_left]; [exact Ha|].
  apply IH; [intros x Hx; apply H; now right|].
  apply Forall_sset; [apply H; now left|exact Ha].
Qed.

Lemma custom_id_ne id : ends_with id s_custom = false -> str_eqb (custom_id id) id = false.
Proof.
  intros H. destruct (str_eqb (custom_id id) id) eqn:E; [|reflexivity].
  apply str_eqb_eq in E. unfold custom_id in E. rewrite <- E in H.
  now rewrite ends_with_custom in H.
Qed.

Lemma to_resource_id_custom_id id : to_resource_id (custom_id id) = custom_id id.
Proof. unfold custom_id. apply to_resource_id_custom. Qed.
Lemma ends_with_custom_id id : ends_with (custom_id id) s_custom = true.
Proof. unfold custom_id. apply ends_with_custom. Qed.

Section PlainImpl.
  Variable ds : docs.
  Variables (wf f : nat) (name : str) (m : list (str * ydoc)).
  Let id := to_resource_id name.
  Let y := YMap m.
  Hypothesis Hy : alookup id ds = Some y.
  Hypothesis Hd : directive_free y = true.
  Hypothesis Hc : alookup (custom_id id) ds = None.
  Hypothesis Hs : ends_with id s_schema = false.
  Hypothesis Hcu : ends_with id s_custom = false.
  Hypothesis Hbi : forall e, In e m -> str_eqb (fst e) s_build_info = false.
  Hypothesis Hwf : S (ydepth y) <= wf.

  Let r0 := {| rs_root := None; rs_loaded := false |}.
  Let root := id ++ [c_colon].
  Let st1 := with_res st0 (aset id r0 (st_res st0)).

  Lemma compile_h_plain :
    exists a h2 mfin,
      compile_h ds st0 name =
        (id, true,
         {| st_heap := h2; st_res := [(id, {| rs_root := Some a; rs_loaded := true |})];
            st_deps := [(root, [DPatchRef (auto_patch_ref id) (RRes id)])]; st_chain := [];
            st_oof := false; st_woof := false; st_ub := false |}) /\
      hget h2 a = Some (HMap mfin) /\
      forall w h'', ydepth y <= S w -> agree_on 0 (length h2) h2 h'' ->
        rb_map (readback w h'') mfin =
        (fold_left (fun acc e => sset (fst e) (y2item (snd e)) acc) m [], true).
  Proof.
    pose proof (convert_plain y Hd [RRes id] [root] st1) as K.
    unfold compile_h. fold id. rewrite Hy.
    change (with_res st0 (aset id {| rs_root := None; rs_loaded := false |} (st_res st0))) with st1.
    change (id ++ [c_colon]) with root.
    destruct (convert y [RRes id] [root] st1) as [p st2] eqn:Ec.
    destruct K as (O & L & A & R). cbn [fst snd] in *.
    destruct O as (Od & Or & Och & Oo & Ow & Ou).
    destruct st2 as [h2 r2 d2 c2 o2 w2 u2]. cbn in Od, Or, Och, Oo, Ow, Ou, L, A, R. subst.
    pose proof (R (ydepth y) h2 (Nat.le_refl _) (fun _ _ _ => eq_refl)) as R0.
    change (ydepth y) with (S (list_max (map (fun e => ydepth (snd e)) m))) in R0.
    change (y2item y) with (Map (fold_left (fun acc e => sset (fst e) (y2item (snd e)) acc) m [])) in R0.
    apply readback_Map_inv in R0. destruct R0 as (a & mfin & -> & Hg & _).
    exists a, h2, mfin. split; [|split; [exact Hg|]].
    - cbn [st_res with_res aset]. rewrite str_eqb_refl.
      unfold auto_patch_h. rewrite Hcu. unfold deps_at. cbn [st_deps with_res alookup].
      unfold graph_add. cbn [rev app join_path join_with].
      unfold pending_at, deps_at. cbn [st_deps with_res alookup length Nat.eqb orb].
      unfold add_dep_at, deps_at. cbn [st_deps with_res alookup aset insert_by_priority with_deps].
      reflexivity.
    - intros w h'' Hw Hag.
      specialize (R (S w) h'' Hw Hag).
      change (y2item y) with (Map (fold_left (fun acc e => sset (fst e) (y2item (snd e)) acc) m [])) in R.
      cbn [readback] in R. rewrite (Hag a) in R by (try lia; eapply hget_Some_lt; eauto).
      rewrite Hg in R. destruct (rb_map (readback w h'') mfin) as [vs ok]. now inversion R.
  Qed.

  Definition stA (a : nat) (h2 : heap) : state :=
    {| st_heap := h2; st_res := [(id, {| rs_root := Some a; rs_loaded := true |})];
       st_deps := [(root, [DPatchRef (auto_patch_ref id) (RRes id)])]; st_chain := [];
       st_oof := false; st_woof := false; st_ub := false |}.
  Definition stB (a : nat) (h2 : heap) : state :=
    {| st_heap := h2;
       st_res := [(id, {| rs_root := Some a; rs_loaded := true |}); (custom_id id, r0)];
       st_deps := [(root, [])]; st_chain := [];
       st_oof := false; st_woof := false; st_ub := false |}.

  (* the automatic patch refers to a document that does not exist: resolved, nothing changes *)
  Lemma resolve_root_plain a h2 :
    resolve_deps ds wf (S f) root (stA a h2) = (true, stB a h2).
  Proof.
    cbn [resolve_deps]. unfold resolve_deps_body, deps_at.
    cbn [st_deps stA alookup]. rewrite str_eqb_refl.
    unfold has_circular. cbn [st_chain stA existsb app with_chain].
    cbn [resolve_loop resolve_dep]. unfold resolve_reference.
    cbn [r_res auto_patch_ref st_res with_chain stA alookup].
    rewrite (custom_id_ne id Hcu).
    unfold compile_h. rewrite to_resource_id_custom_id, Hc.
    unfold auto_patch_h. rewrite ends_with_custom_id.
    cbn [r_opt auto_patch_ref].
    unfold erase_head_dep, deps_at. cbn [st_deps with_res with_chain stA alookup]. rewrite str_eqb_refl.
    cbn [with_deps st_deps st_heap st_res st_chain st_oof st_woof st_ub with_res with_chain stA aset].
    rewrite str_eqb_refl. cbn [resolve_loop removelast app].
    rewrite (custom_id_ne id Hcu). reflexivity.
  Qed.

  Definition stC (a : nat) (h2 : heap) (mfin : list (str * ptr)) : state :=
    {| st_heap := hset ((h2 ++ [HMap []]) ++ [HMap mfin]) (S (length h2))
                       (HMap (sset s_build_info (Some (length h2)) mfin));
       st_res := [(id, {| rs_root := Some (S (length h2)); rs_loaded := true |}); (custom_id id, r0)];
       st_deps := [(root, [])]; st_chain := [];
       st_oof := false; st_woof := false; st_ub := false |}.

  (* BuildInfoPlugin: the root map is copied, the copy gets the extra key *)
  Lemma build_info_plain a h2 mfin :
    hget h2 a = Some (HMap mfin) ->
    fst (set_item (with_heap (stB a h2) (h2 ++ [HMap []])) (cow (RRes id) s_build_info) (Some (length h2)))
    = stC a h2 mfin.
  Proof.
    intros Hg. pose proof (hget_Some_lt _ _ _ Hg) as Ha.
    set (s' := with_heap (stB a h2) (h2 ++ [HMap []])).
    assert (E1 : get_item s' (RRes id) = Some a).
    { cbn [get_item]. unfold res_root. subst s'. cbn [st_res with_heap stB alookup].
      now rewrite str_eqb_refl. }
    assert (E2 : as_map s' (Some a) = Some (a, mfin)).
    { unfold as_map. subst s'. cbn [st_heap with_heap]. rewrite hget_app_old by exact Ha. now rewrite Hg. }
    assert (E3 : hget (st_heap s') a = Some (HMap mfin)).
    { subst s'. cbn [st_heap with_heap]. rewrite hget_app_old by exact Ha. exact Hg. }
    unfold cow. change (is_list_ref s_build_info) with false.
    cbn [set_item]. rewrite E1, E2. cbn [option_map fst]. rewrite E3.
    unfold alloc.
    assert (Ls : length (st_heap s') = S (length h2)).
    { subst s'. cbn [st_heap with_heap]. rewrite app_length. cbn. lia. }
    rewrite Ls.
    unfold set_root. subst s'. cbn [st_res st_heap with_heap stB alookup]. rewrite str_eqb_refl.
    cbn [aset]. rewrite str_eqb_refl. cbn [rs_loaded fst].
    unfold cow_write. cbn [st_heap with_res with_heap].
    replace (S (length h2)) with (length (h2 ++ [HMap []])) at 1 by (rewrite app_length; cbn; lia).
    rewrite hget_app_new. reflexivity.
  Qed.

  (** ConfigBuilder::LoadConfig on a directive-free map document *)
  Theorem impl_plain_fixed :
    let o := compile_impl ds wf (S f) name in
    o_tree o = y2item y /\ o_loaded o = true /\ o_linked o = true /\
    o_oof o = false /\ o_woof o = false /\ o_ub o = false.
  Proof.
    destruct compile_h_plain as (a & h2 & mfin & Ec & Hg & R).
    unfold compile_impl. rewrite Ec. fold (stA a h2).
    unfold link_h. cbn [st_res stA alookup]. rewrite str_eqb_refl.
    change (id ++ [c_colon]) with root. rewrite resolve_root_plain. cbn [negb]. rewrite Hs. cbn [negb].
    pose proof (hget_Some_lt _ _ _ Hg) as Ha.
    change (alloc (stB a h2) (HMap [])) with (length h2, with_heap (stB a h2) (h2 ++ [HMap []])).
    cbv beta iota.
    rewrite (build_info_plain a h2 mfin Hg).
    unfold res_root. cbn [st_res stC alookup]. rewrite str_eqb_refl. cbn [rs_root st_heap stC].
    set (n := length h2). set (a' := S n).
    set (hf := hset ((h2 ++ [HMap []]) ++ [HMap mfin]) a' (HMap (sset s_build_info (Some n) mfin))).
    assert (La : a' = S n) by reflexivity.
    assert (Lf : length ((h2 ++ [HMap []]) ++ [HMap mfin]) = S (S n)) by (rewrite !app_length; cbn; subst n; lia).
    assert (Hfa : hget hf a' = Some (HMap (sset s_build_info (Some n) mfin))).
    { subst hf. apply hget_hset_same. lia. }
    assert (Hfo : forall x, x <> a' -> hget hf x = hget ((h2 ++ [HMap []]) ++ [HMap mfin]) x).
    { intros x Hx. subst hf. apply hget_hset_other. congruence. }
    assert (Hfn : hget hf n = Some (HMap [])).
    { rewrite Hfo by lia. rewrite hget_app_old by (rewrite app_length; cbn; subst n; lia).
      subst n. apply hget_app_new. }
    assert (Hag : agree_on 0 (length h2) h2 hf).
    { intros x _ Hx. rewrite Hfo by (subst n; lia).
      rewrite hget_app_old by (rewrite app_length; cbn; lia). now apply hget_app_old. }
    destruct wf as [|w]; [lia|]. cbn [readback]. rewrite Hfa.
    assert (Hw : ydepth y <= S w) by lia.
    assert (Hb : readback w hf (Some n) = (Map [], true)).
    { destruct w as [|w']; [exfalso; unfold y in Hwf; cbn [ydepth] in Hwf; lia|]. cbn [readback]. rewrite Hfn. reflexivity. }
    pose proof (rb_map_sset (readback w hf) s_build_info (Some n) mfin _ _ Hb (R w hf Hw Hag)) as RB.
    destruct (rb_map (readback w hf) (sset s_build_info (Some n) mfin)) as [vs ok] eqn:X.
    unfold ptr in RB. rewrite RB in X. inversion X; subst vs ok. clear X.
    cbn [strip_build_info st_oof st_woof st_ub orb negb stC o_tree o_loaded o_linked o_oof o_woof o_ub].
    split; [|repeat split].
    change (y2item y) with (Map (fold_left (fun acc e => sset (fst e) (y2item (snd e)) acc) m [])).
    f_equal. apply filter_sset_drop.
    assert (F : Forall (fun e : str * item => str_eqb (fst e) s_build_info = false)
                  (fold_left (fun acc e => sset (fst e) (y2item (snd e)) acc) m [])).
    { apply Forall_fold_sset; [|constructor]. intros e He. cbn [fst]. now apply Hbi. }
    intros e He. rewrite Forall_forall in F. now apply F.
  Qed.
End PlainImpl.
