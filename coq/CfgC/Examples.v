(** C14: the repository's own compiler fixtures (data/test/config_*.yaml,
    starcraft.yaml) as documents, and what the two models make of them.
    Generated once from the YAML files; scalars are kept as written. *)
From Coq Require Import List Arith Bool.
From Coq.Strings Require Import Byte.
From Coq.Strings Require String.
Import String.StringSyntax.
Open Scope string_scope.
From RimeV Require Import Base.Bytes CfgC.Str CfgC.Tree CfgC.Spec CfgC.Impl.
Import ListNotations.

Definition y_starcraft : ydoc := Eval vm_compute in
  YMap [(bs "terrans", YMap [(bs "player", YScalar (bs "slayers_boxer"))]);
    (bs "protoss", YMap [(bs "ground_units", YSeq [YScalar (bs "probe"); YScalar (bs "zealot"); YScalar (bs "dragoon"); YScalar (bs "high templar"); YScalar (bs "archon"); YScalar (bs "reaver")]);
    (bs "player", YScalar (bs "grrrr"))]);
    (bs "zerg", YMap [(bs "ground_units", YSeq [YScalar (bs "drone"); YScalar (bs "zergling"); YScalar (bs "hydralisk"); YScalar (bs "ultralisk"); YScalar (bs "defiler")]);
    (bs "player", YScalar (bs "yellow"))])].

Definition y_config_test : ydoc := Eval vm_compute in
  YMap [(bs "terrans", YMap [(bs "tank", YMap [(bs "seiged", YScalar (bs "false"));
    (bs "cost", YMap [(bs "mineral", YScalar (bs "150"));
    (bs "gas", YScalar (bs "100"));
    (bs "time", YScalar (bs "30 seconds"))])]);
    (bs "supply", YMap [(bs "produced", YScalar (bs "0x1c"))]);
    (bs "math", YMap [(bs "pi", YScalar (bs "3.1415926"))])]);
    (bs "protoss", YMap [(bs "battery", YMap [(bs "energy", YScalar (bs "10.111"))]);
    (bs "residence", YScalar (bs "Aiur"));
    (bs "air_force", YSeq [YScalar (bs "scout"); YScalar (bs "cossair"); YScalar (bs "carrier"); YScalar (bs "arbiter")])]);
    (bs "zerg", YMap [(bs "lurker", YMap [(bs "burrowed", YScalar (bs "true"))]);
    (bs "zergling", YMap [(bs "lost", YScalar (bs "1234"))]);
    (bs "queen", YScalar (bs "Kerrigan"))])].

Definition y_config_compiler_test : ydoc := Eval vm_compute in
  YMap [(bs "include_local_reference", YSeq [YMap [(bs "__include", YScalar (bs "starcraft"))]; YMap [(bs "__include", YScalar (bs "/starcraft"))]; YMap [(bs "__include", YScalar (bs ":starcraft"))]; YMap [(bs "__include", YScalar (bs ":/starcraft"))]]);
    (bs "include_external_reference", YMap [(bs "terrans", YMap [(bs "__include", YScalar (bs "config_test:/terrans"))])]);
    (bs "include_external_file", YMap [(bs "__include", YScalar (bs "config_test:/"))]);
    (bs "patch_reference", YMap [(bs "__patch", YScalar (bs "/local/patch"));
    (bs "battlefields", YSeq [YScalar (bs "lost temple"); YScalar (bs "luna"); YScalar (bs "hunters")])]);
    (bs "patch_literal", YMap [(bs "__patch", YMap [(bs "zerg/ground_units/@next", YScalar (bs "lurker"))]);
    (bs "zerg", YMap [(bs "__include", YScalar (bs "/starcraft/zerg"))])]);
    (bs "patch_list", YMap [(bs "protoss", YMap [(bs "__include", YScalar (bs "/starcraft/protoss"))]);
    (bs "__patch", YSeq [YMap [(bs "protoss/ground_units/@next", YScalar (bs "dark templar"))]; YMap [(bs "protoss/ground_units/@next", YScalar (bs "dark archon"))]])]);
    (bs "local", YMap [(bs "patch", YMap [(bs "battlefields/@next", YScalar (bs "match point"))])]);
    (bs "starcraft", YMap [(bs "__include", YScalar (bs "starcraft:/"))])].

Definition y_config_circular_dependency_test : ydoc := Eval vm_compute in
  YMap [(bs "test", YMap [(bs "__patch", YScalar (bs "sometimes?"));
    (bs "home", YScalar (bs "excited"));
    (bs "work", YMap [(bs "__include", YScalar (bs "/test/home"))])]);
    (bs "sometimes", YMap [(bs "home", YScalar (bs "naive"))])].

Definition y_config_merge_test : ydoc := Eval vm_compute in
  YMap [(bs "starcraft", YMap [(bs "__include", YScalar (bs "starcraft:/"))]);
    (bs "append_with_include", YMap [(bs "list", YMap [(bs "__include", YScalar (bs "starcraft/protoss/ground_units"));
    (bs "__append", YSeq [YScalar (bs "dark templar"); YScalar (bs "dark archon")])])]);
    (bs "append_with_patch", YMap [(bs "__include", YScalar (bs "starcraft"));
    (bs "__patch", YMap [(bs "terrans/player/+", YScalar (bs ", nada"));
    (bs "terrans/air_units/+", YSeq [YScalar (bs "wraith"); YScalar (bs "battlecruiser")]);
    (bs "protoss/ground_units/+", YSeq [YScalar (bs "dark templar"); YScalar (bs "dark archon")])])]);
    (bs "merge_tree", YMap [(bs "__include", YScalar (bs "starcraft"));
    (bs "terrans", YMap [(bs "ground_units", YSeq [YScalar (bs "scv"); YScalar (bs "marine"); YScalar (bs "firebat"); YScalar (bs "vulture"); YScalar (bs "tank")]);
    (bs "__patch", YMap [(bs "ground_units/+", YSeq [YScalar (bs "medic"); YScalar (bs "goliath")])])]);
    (bs "protoss", YMap [(bs "ground_units", YMap [(bs "__append", YSeq [YScalar (bs "dark templar"); YScalar (bs "dark archon")])])]);
    (bs "zerg", YMap [(bs "ground_units", YSeq [])])]);
    (bs "create_list_with_inplace_patch", YMap [(bs "all_ground_units", YMap [(bs "__patch", YSeq [YMap [(bs "__append", YSeq [YScalar (bs "scv"); YScalar (bs "marine"); YScalar (bs "firebat"); YScalar (bs "vulture"); YScalar (bs "tank")])]; YMap [(bs "__append", YMap [(bs "__include", YScalar (bs "starcraft/protoss/ground_units"))])]; YMap [(bs "__append", YMap [(bs "__include", YScalar (bs "starcraft/zerg/ground_units"))])]])])])].

Definition y_config_dependency_test : ydoc := Eval vm_compute in
  YMap [(bs "dependency_chaining", YMap [(bs "alpha", YMap [(bs "__include", YScalar (bs "/dependency_chaining/beta"))]);
    (bs "beta", YMap [(bs "__include", YScalar (bs "/dependency_chaining/epsilon"))]);
    (bs "delta", YMap [(bs "__include", YScalar (bs "/dependency_chaining/beta"))]);
    (bs "epsilon", YScalar (bs "success"))]);
    (bs "dependency_priorities", YMap [(bs "terrans", YMap [(bs "__include", YScalar (bs "starcraft:/terrans"));
    (bs "__patch", YMap [(bs "player", YScalar (bs "nada"))])]);
    (bs "protoss", YMap [(bs "__patch", YMap [(bs "player", YScalar (bs "bisu"))]);
    (bs "__include", YScalar (bs "starcraft:/protoss"))])])].

Definition y_config_optional_reference_test : ydoc := Eval vm_compute in
  YMap [(bs "__include", YScalar (bs "nonexistent.yaml:/?"));
    (bs "__patch", YSeq [YScalar (bs "local/nonexistent_patch?"); YScalar (bs "config_test:/nonexistent_patch?"); YScalar (bs "nonexistent:/patch?")]);
    (bs "untouched", YScalar (bs "true"))].

Definition fixture_docs : docs := Eval vm_compute in
  [(bs "starcraft", y_starcraft);
   (bs "config_test", y_config_test);
   (bs "config_compiler_test", y_config_compiler_test);
   (bs "config_circular_dependency_test", y_config_circular_dependency_test);
   (bs "config_merge_test", y_config_merge_test);
   (bs "config_dependency_test", y_config_dependency_test);
   (bs "config_optional_reference_test", y_config_optional_reference_test)].


Definition fx_spec (name : String.string) := spec_link fixture_docs 40 (bs name).
Definition fx_impl (name : String.string) := compile_impl fixture_docs 60 400 (bs name).
Definition at_path (v : item) (p : String.string) : item := item_lookup v (split_path (bs p)).
Definition agree (name : String.string) : bool :=
  let '(loaded, v, fl, linked) := fx_spec name in
  let o := fx_impl name in
  loaded && linked && fl_clear fl && o_linked o && negb (o_oof o || o_woof o || o_ub o) && item_eqb (o_tree o) v.

(** acyclic fixtures: the port of the implemented algorithm and the
    specification agree, with all flags clear *)
Example fixtures_agree :
  forallb agree ["config_compiler_test"; "config_merge_test"; "config_dependency_test";
                 "starcraft"; "config_test"] = true.
Proof. vm_compute. reflexivity. Qed.

(** what the unit tests of the repository assert, on both models *)
Example patch_list_appends_in_order :
  let v := o_tree (fx_impl "config_compiler_test") in
  at_path v "patch_list/protoss/ground_units/@6" = Scalar (bs "dark templar") /\
  at_path v "patch_list/protoss/ground_units/@7" = Scalar (bs "dark archon") /\
  (* the included source keeps its six units *)
  at_path v "starcraft/protoss/ground_units/@6" = Null.
Proof. vm_compute. repeat split. Qed.

Example merge_tree_fixture :
  let v := compile_spec fixture_docs 40 (bs "config_merge_test") in
  at_path v "merge_tree/terrans/ground_units/@6" = Scalar (bs "goliath") /\
  at_path v "append_with_patch/terrans/player" = Scalar (bs "slayers_boxer, nada") /\
  at_path v "starcraft/terrans/player" = Scalar (bs "slayers_boxer") /\
  at_path v "create_list_with_inplace_patch/all_ground_units/@15" = Scalar (bs "defiler").
Proof. vm_compute. repeat split. Qed.

(** the cyclic fixture: the specification classifies it as cyclic, the port
    terminates with the best-effort result the unit test expects *)
Example circular_fixture :
  let '(_, _, fl, _) := fx_spec "config_circular_dependency_test" in
  let o := fx_impl "config_circular_dependency_test" in
  f_cyc fl = true /\ o_linked o = true /\ o_oof o = false /\
  at_path (o_tree o) "test/home" = Scalar (bs "naive") /\
  at_path (o_tree o) "test/work" = Scalar (bs "excited").
Proof. vm_compute. repeat split. Qed.

(** optional references to missing documents / nodes are tolerated; the root
    patch that refers into its own document makes the set cyclic in the
    specification's sense, the port still links it *)
Example optional_reference_fixture :
  let '(_, _, fl, _) := fx_spec "config_optional_reference_test" in
  let o := fx_impl "config_optional_reference_test" in
  f_cyc fl = true /\ f_err fl = false /\ o_linked o = true /\
  o_tree o = Map [(bs "untouched", Scalar (bs "true"))].
Proof. vm_compute. repeat split. Qed.
