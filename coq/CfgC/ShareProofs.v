(** C14: no write through sharing.  A write through a fresh copy-on-write
    reference (ConfigCowRef with [copied_ = false] at every level, which is
    what TypeCheckedCopyOnWrite / TraverseCopyOnWrite / Cow() hand out)
    modifies no node that existed before, except the container of the slot
    the chain is anchored at; so every tree that does not contain that
    container reads back unchanged. *)
From Coq Require Import List Arith Bool Lia.
From Coq.Strings Require Import Byte.
From RimeV Require Import Base.Bytes CfgC.Str CfgC.Tree CfgC.Spec CfgC.Impl CfgC.ImplFacts
  CfgC.DepsProofs CfgC.TermProofs.
Import ListNotations.

(** the container that the anchor of a reference mutates in place *)
Fixpoint base_addr (r : iref) : option nat :=
  match r with
  | RRes _ => None
  | RMapE a _ => Some a
  | RListE a _ => Some a
  | RCow _ p _ _ => base_addr p
  end.
Fixpoint base_res (r : iref) : option str :=
  match r with
  | RRes id => Some id
  | RCow _ p _ _ => base_res p
  | _ => None
  end.

Fixpoint fresh (r : iref) : Prop :=
  match r with
  | RCow _ p _ copied => copied = None /\ fresh p
  | _ => True
  end.

(** heaps agree below [n] except at [b] *)
Definition agree_except (n : nat) (b : option nat) (h h' : heap) : Prop :=
  forall a, a < n -> Some a <> b -> hget h' a = hget h a.

Lemma cow_write_old st isl a k v x :
  x <> a -> hget (st_heap (cow_write st isl a k v)) x = hget (st_heap st) x.
Proof.
  intros H. unfold cow_write. destruct (hget (st_heap st) a) as [[s|l|m]|]; try (cbn; reflexivity).
  - destruct (resolve_index (length l) k) as [i ins]. cbn. apply hget_hset_other. congruence.
  - cbn. apply hget_hset_other. congruence.
Qed.

Lemma cow_write_length st isl a k v : length (st_heap (cow_write st isl a k v)) = length (st_heap st).
Proof.
  unfold cow_write. destruct (hget (st_heap st) a) as [[s|l|m]|]; try (cbn; reflexivity).
  - destruct (resolve_index (length l) k) as [i ins]. cbn. apply hset_length.
  - cbn. apply hset_length.
Qed.

Lemma cow_write_res st isl a k v : st_res (cow_write st isl a k v) = st_res st.
Proof.
  unfold cow_write. destruct (hget (st_heap st) a) as [[s|l|m]|]; try (cbn; reflexivity).
  destruct (resolve_index (length l) k) as [i ins]. reflexivity.
Qed.

(** one write through a fresh chain *)
Lemma set_item_fresh_frame r : forall st v,
  fresh r ->
  let st' := fst (set_item st r v) in
  length (st_heap st) <= length (st_heap st') /\
  agree_except (length (st_heap st)) (base_addr r) (st_heap st) (st_heap st') /\
  (forall id, Some id <> base_res r -> res_root st' id = res_root st id).
Proof.
  induction r as [id|a k|a i|isl p IH k copied]; intros st v F; cbn [set_item fst base_addr base_res].
  - split; [|split].
    + unfold set_root. destruct (alookup id (st_res st)); cbn; lia.
    + intros a _ _. unfold set_root. destruct (alookup id (st_res st)); reflexivity.
    + intros id' Hne. unfold set_root, res_root. destruct (alookup id (st_res st)) as [r0|] eqn:E; [|reflexivity].
      cbn. assert (id' <> id) by congruence.
      clear E. induction (st_res st) as [|[k0 r1] m IHm]; cbn.
      * destruct (str_eqb id' id) eqn:E; [apply str_eqb_eq in E; congruence|reflexivity].
      * destruct (str_eqb id k0) eqn:E1; cbn.
        -- apply str_eqb_eq in E1. subst k0.
           destruct (str_eqb id' id) eqn:E; [apply str_eqb_eq in E; congruence|reflexivity].
        -- destruct (str_eqb id' k0); [reflexivity|exact IHm].
  - destruct (hget (st_heap st) a) as [[s|l|m]|]; cbn; (split; [rewrite ?hset_length; lia|split]);
      try (intros x _ _; reflexivity); try (intros; reflexivity).
    intros x _ Hx. apply hget_hset_other. congruence.
  - destruct (hget (st_heap st) a) as [[s|l|m]|]; cbn; (split; [rewrite ?hset_length; lia|split]);
      try (intros x _ _; reflexivity); try (intros; reflexivity).
    intros x _ Hx. apply hget_hset_other. congruence.
  - destruct F as [-> F].
    set (cont := if isl then _ else _).
    match goal with |- context[alloc st ?n] => set (node := n) end.
    unfold alloc.
    set (st1 := with_heap st (st_heap st ++ [node])).
    specialize (IH st1 (Some (length (st_heap st))) F).
    destruct (set_item st1 p (Some (length (st_heap st)))) as [st2 p'] eqn:Es. cbn [fst] in *.
    destruct IH as (L2 & A2 & R2).
    assert (L1 : length (st_heap st1) = S (length (st_heap st))).
    { subst st1. cbn. rewrite app_length. cbn. lia. }
    split; [rewrite cow_write_length; lia|]. split.
    + intros x Hx Hb. rewrite cow_write_old by lia.
      rewrite A2 by (auto; lia). subst st1. cbn. now apply hget_app_old.
    + intros id Hid. unfold res_root. rewrite cow_write_res.
      specialize (R2 id Hid). unfold res_root in R2. rewrite R2. reflexivity.
Qed.

(** ** reading back is insensitive to nodes it does not visit *)
Section Avoid.
  Variable av : ptr -> bool.
  Fixpoint av_list (l : list ptr) : bool :=
    match l with [] => true | x :: r => av x && av_list r end.
  Fixpoint av_map (m : list (str * ptr)) : bool :=
    match m with [] => true | (_, x) :: r => av x && av_map r end.
End Avoid.

(* the traversal [readback wf h q] never looks at address [b] *)
Fixpoint avoids (wf : nat) (h : heap) (b : nat) (q : ptr) : bool :=
  match wf with
  | 0 => true
  | S wf' =>
    match q with
    | None => true
    | Some a =>
        negb (a =? b) &&
        match hget h a with
        | Some (HList l) => av_list (avoids wf' h b) l
        | Some (HMap m) => av_map (avoids wf' h b) m
        | Some (HScalar _) => true
        | None => false     (* dangling pointers are not "avoiding" anything *)
        end
    end
  end.

(* for a chain anchored at a resource root no node is the anchor: use an
   address that no valid node has *)
Definition anchor (st : state) (r : iref) : nat :=
  match base_addr r with Some b => b | None => length (st_heap st) end.

Lemma readback_agree wf : forall h h' b q,
  (forall a, a < length h -> a <> b -> hget h' a = hget h a) ->
  avoids wf h b q = true ->
  readback wf h' q = readback wf h q.
Proof.
  induction wf as [|wf IH]; intros h h' b q Hag Hav; [reflexivity|].
  cbn [readback avoids] in *. destruct q as [a|]; [|reflexivity].
  apply andb_true_iff in Hav. destruct Hav as [Hne Hav]. apply negb_true_iff, Nat.eqb_neq in Hne.
  destruct (hget h a) as [n|] eqn:E.
  - rewrite (Hag a (hget_Some_lt _ _ _ E) Hne), E.
    destruct n as [s|l|m]; [reflexivity| |].
    + assert (G : rb_list (readback wf h') l = rb_list (readback wf h) l).
      { clear E. induction l as [|x l IHl]; cbn [rb_list av_list] in *; [reflexivity|].
        apply andb_true_iff in Hav. destruct Hav as [H1 H2].
        rewrite (IH h h' b x Hag H1), (IHl H2). reflexivity. }
      now rewrite G.
    + assert (G : rb_map (readback wf h') m = rb_map (readback wf h) m).
      { clear E. induction m as [|[k x] m IHm]; cbn [rb_map av_map] in *; [reflexivity|].
        apply andb_true_iff in Hav. destruct Hav as [H1 H2].
        rewrite (IH h h' b x Hag H1), (IHm H2). reflexivity. }
      now rewrite G.
  - discriminate.
Qed.

(** the statement: what a fresh copy-on-write write leaves untouched.
    [avoids wf h b q] says that the tree at [q] is a well-formed tree of the
    old heap (no dangling pointer) that does not contain the anchor container. *)
Theorem cow_write_leaves_sources_untouched r st v wf q :
  fresh r ->
  avoids wf (st_heap st) (anchor st r) q = true ->
  readback wf (st_heap (fst (set_item st r v))) q = readback wf (st_heap st) q.
Proof.
  intros F Hav.
  destruct (set_item_fresh_frame r st v F) as (_ & A & _).
  apply (readback_agree wf _ _ (anchor st r) q); [|exact Hav].
  intros a Ha Hne. apply A; [exact Ha|].
  unfold anchor in Hne. destruct (base_addr r); congruence.
Qed.

(** and the roots of the other resources are not touched either *)
Theorem cow_write_leaves_other_roots r st v id :
  fresh r -> Some id <> base_res r ->
  res_root (fst (set_item st r v)) id = res_root st id.
Proof.
  intros F H. now destruct (set_item_fresh_frame r st v F) as (_ & _ & R); apply R.
Qed.

(** * the lift: every edit of the node editor
    Since 153d253 a copy-on-write reference keeps the container it copied, so
    "this reference only writes to nodes allocated after address L" is a
    property of the reference itself. *)
Fixpoint owned (L : nat) (r : iref) : Prop :=
  match r with
  | RCow _ p _ c => match c with Some a => L <= a | None => True end /\ owned L p
  | _ => True
  end.

(** nodes below [L] other than the anchor container [b] are as before, the
    heap only grows, roots other than the anchor resource [br] do not move *)
Definition frame (L : nat) (b : option nat) (br : option str) (st st' : state) : Prop :=
  length (st_heap st) <= length (st_heap st') /\
  (forall a, a < L -> Some a <> b -> hget (st_heap st') a = hget (st_heap st) a) /\
  (forall id, Some id <> br -> res_root st' id = res_root st id).

Lemma frame_refl L b br st : frame L b br st st.
Proof. repeat split; auto. Qed.
Lemma frame_trans L b br s1 s2 s3 : frame L b br s1 s2 -> frame L b br s2 s3 -> frame L b br s1 s3.
Proof.
  intros (l1 & a1 & r1) (l2 & a2 & r2). split; [lia|]. split.
  - intros a Ha Hb. rewrite a2 by assumption. now apply a1.
  - intros id Hid. rewrite r2 by assumption. now apply r1.
Qed.

Lemma frame_alloc L b br st n : L <= length (st_heap st) -> frame L b br st (snd (alloc st n)).
Proof.
  intros HL. unfold alloc, frame. cbn [snd st_heap with_heap]. split; [rewrite app_length; lia|]. split.
  - intros a Ha _. apply hget_app_old. lia.
  - intros id _. reflexivity.
Qed.

Lemma frame_heap_only L b br st st' :
  st_heap st' = st_heap st -> st_res st' = st_res st -> frame L b br st st'.
Proof. intros Hh Hr. unfold frame, res_root. rewrite Hh, Hr. repeat split; auto. Qed.

Lemma set_root_other st id p id' : id' <> id -> res_root (set_root st id p) id' = res_root st id'.
Proof.
  intros Hne. unfold set_root, res_root. destruct (alookup id (st_res st)) as [r0|] eqn:E; [|reflexivity].
  cbn. clear E. induction (st_res st) as [|[k0 r1] m IHm]; cbn.
  - destruct (str_eqb id' id) eqn:E; [apply str_eqb_eq in E; congruence|reflexivity].
  - destruct (str_eqb id k0) eqn:E1; cbn.
    + apply str_eqb_eq in E1. subst k0.
      destruct (str_eqb id' id) eqn:E; [apply str_eqb_eq in E; congruence|reflexivity].
    + destruct (str_eqb id' k0); [reflexivity|exact IHm].
Qed.

Lemma set_item_frame L r : forall st v,
  L <= length (st_heap st) -> owned L r ->
  frame L (base_addr r) (base_res r) st (fst (set_item st r v)) /\
  owned L (snd (set_item st r v)) /\
  base_addr (snd (set_item st r v)) = base_addr r /\ base_res (snd (set_item st r v)) = base_res r.
Proof.
  induction r as [id|a k|a i|isl p IH k copied]; intros st v HL Ho; cbn [set_item fst snd base_addr base_res].
  - split; [|cbn; auto]. split; [|split].
    + unfold set_root. destruct (alookup id (st_res st)); cbn; lia.
    + intros a _ _. unfold set_root. destruct (alookup id (st_res st)); reflexivity.
    + intros id' Hne. apply set_root_other. congruence.
  - split; [|cbn; auto].
    destruct (hget (st_heap st) a) as [[s|l|m]|];
      try (apply frame_heap_only; reflexivity).
    unfold frame. cbn [st_heap with_heap]. split; [rewrite hset_length; lia|]. split; [|intros; reflexivity].
    intros x _ Hx. apply hget_hset_other. congruence.
  - split; [|cbn; auto].
    destruct (hget (st_heap st) a) as [[s|l|m]|];
      try (apply frame_heap_only; reflexivity).
    unfold frame. cbn [st_heap with_heap]. split; [rewrite hset_length; lia|]. split; [|intros; reflexivity].
    intros x _ Hx. apply hget_hset_other. congruence.
  - destruct Ho as [Hc Hp]. destruct copied as [ca|].
    + cbn [fst snd base_addr base_res owned]. split; [|auto].
      split; [rewrite cow_write_length; lia|]. split.
      * intros x Hx _. apply cow_write_old. lia.
      * intros id _. unfold res_root. now rewrite cow_write_res.
    + set (cont := if isl then _ else _).
      match goal with |- context[alloc st ?n] => set (node := n) end.
      unfold alloc.
      set (st1 := with_heap st (st_heap st ++ [node])).
      assert (L1 : length (st_heap st1) = S (length (st_heap st))).
      { subst st1. cbn. rewrite app_length. cbn. lia. }
      specialize (IH st1 (Some (length (st_heap st))) ltac:(lia) Hp).
      destruct (set_item st1 p (Some (length (st_heap st)))) as [st2 p'] eqn:Es. cbn [fst snd] in *.
      destruct IH as ((l2 & a2 & r2) & Ho2 & B2 & R2).
      cbn [base_addr base_res owned]. split; [|repeat split; auto].
      split; [rewrite cow_write_length; lia|]. split.
      * intros x Hx Hb. rewrite cow_write_old by lia. rewrite a2 by assumption.
        subst st1. cbn. apply hget_app_old. lia.
      * intros id Hid. unfold res_root. rewrite cow_write_res.
        specialize (r2 id Hid). unfold res_root in r2. now rewrite r2.
Qed.

Lemma owned_strip L n : forall r, owned L r -> owned L (strip_cows n r).
Proof.
  induction n as [|n IH]; intros r H; cbn; [exact H|].
  destruct r; try exact H. apply IH. apply H.
Qed.
Lemma base_strip n : forall r, base_addr (strip_cows n r) = base_addr r /\ base_res (strip_cows n r) = base_res r.
Proof.
  induction n as [|n IH]; intros r; cbn [strip_cows]; [auto|]. destruct r; auto.
  cbn [base_addr base_res]. apply IH.
Qed.

Lemma type_checked_h_owned L st head k t :
  owned L head -> type_checked_h st head k = Some t ->
  owned L t /\ base_addr t = base_addr head /\ base_res t = base_res head.
Proof.
  intros Ho. unfold type_checked_h. destruct k as [|c k]; [intros H; inversion H; subst; auto|].
  destruct (deref st (get_item st head)) as [n|].
  - destruct (if is_list_ref (c :: k) then node_is_list n else node_is_map n); [|discriminate].
    intros H. inversion H; subst. cbn. auto.
  - intros H. inversion H; subst. cbn. auto.
Qed.
Lemma type_checked_all_h_owned L st ks : forall head t,
  owned L head -> type_checked_all_h st head ks = Some t ->
  owned L t /\ base_addr t = base_addr head /\ base_res t = base_res head.
Proof.
  induction ks as [|k ks IH]; intros head t Ho H; cbn in H; [inversion H; subst; auto|].
  destruct (type_checked_h st head k) as [c|] eqn:E; [|discriminate].
  destruct (type_checked_h_owned L st head k c Ho E) as (Hc & B & R).
  destruct (IH c t Hc H) as (Ht & B' & R'). repeat split; congruence.
Qed.
Lemma traverse_cow_h_owned L st head p t :
  owned L head -> traverse_cow_h st head p = Some t ->
  owned L t /\ base_addr t = base_addr head /\ base_res t = base_res head.
Proof.
  intros Ho. unfold traverse_cow_h.
  destruct (match p with [] => true | _ => str_eqb p s_slash end); [intros H; inversion H; subst; auto|].
  now apply type_checked_all_h_owned.
Qed.

(* allocate a node, write it through [target] *)
Lemma alloc_set_frame L st target n :
  L <= length (st_heap st) -> owned L target ->
  let '(a', st1) := alloc st n in
  let '(st2, t') := set_item st1 target (Some a') in
  frame L (base_addr target) (base_res target) st st2 /\ owned L t' /\
  base_addr t' = base_addr target /\ base_res t' = base_res target.
Proof.
  intros HL Ho. pose proof (frame_alloc L (base_addr target) (base_res target) st n HL) as F1.
  destruct (alloc st n) as [a' st1] eqn:Ea. cbn [snd] in F1.
  assert (HL1 : L <= length (st_heap st1)) by (destruct F1; lia).
  pose proof (set_item_frame L target st1 (Some a') HL1 Ho) as K.
  destruct (set_item st1 target (Some a')) as [st2 t']. cbn [fst snd] in K.
  destruct K as (F2 & Ho' & B & R). split; [eapply frame_trans; eauto|auto].
Qed.

Definition edit_post (L : nat) (st : state) (head : iref) (r : bool * state * iref) : Prop :=
  frame L (base_addr head) (base_res head) st (snd (fst r)) /\ owned L (snd r) /\
  base_addr (snd r) = base_addr head /\ base_res (snd r) = base_res head.

Lemma edit_post_keep L st head b : owned L head -> edit_post L st head (b, st, head).
Proof. intros H. unfold edit_post. cbn. split; [apply frame_refl|auto]. Qed.
Lemma edit_post_flag L st head b st' :
  owned L head -> st_heap st' = st_heap st -> st_res st' = st_res st -> edit_post L st head (b, st', head).
Proof. intros H Hh Hr. unfold edit_post. cbn. split; [now apply frame_heap_only|auto]. Qed.

Lemma merge_loop_h_frame L ed :
  (forall st tgt k v, L <= length (st_heap st) -> owned L tgt -> edit_post L st tgt (ed st tgt k v)) ->
  forall m st tgt, L <= length (st_heap st) -> owned L tgt -> edit_post L st tgt (merge_loop_h ed m st tgt).
Proof.
  intros Hed. induction m as [|[k v] m IH]; intros st tgt HL Ho; cbn [merge_loop_h].
  - now apply edit_post_keep.
  - pose proof (Hed st tgt k v HL Ho) as K.
    destruct (ed st tgt k v) as [[ok st1] tgt1]. unfold edit_post in K. cbn [fst snd] in K.
    destruct K as (F1 & Ho1 & B1 & R1).
    destruct ok; [|unfold edit_post; cbn; auto].
    assert (HL1 : L <= length (st_heap st1)) by (destruct F1; lia).
    specialize (IH st1 tgt1 HL1 Ho1). unfold edit_post in *. rewrite B1, R1 in IH.
    destruct IH as (F2 & Ho2 & B2 & R2). split; [eapply frame_trans; eauto|]. repeat split; congruence.
Qed.

Lemma edit_node_h_frame L wf : forall st head key value mt,
  L <= length (st_heap st) -> owned L head ->
  edit_post L st head (edit_node_h wf st head key value mt).
Proof.
  induction wf as [|wf IH]; intros st head key value mt HL Ho.
  - cbn. now apply edit_post_flag.
  - cbn [edit_node_h].
    set (target_opt := if mt then _ else _).
    set (depth := if mt then _ else _).
    assert (Ht : forall t, target_opt = Some t ->
                 owned L t /\ base_addr t = base_addr head /\ base_res t = base_res head).
    { intros t E. subst target_opt. destruct mt;
        [eapply type_checked_h_owned|eapply traverse_cow_h_owned]; eauto. }
    destruct target_opt as [target|]; [|now apply edit_post_keep].
    destruct (Ht target eq_refl) as (Hot & Bt & Rt).
    (* the common shape: allocate, write through target, strip *)
    assert (W : forall n, edit_post L st head
                  (let '(a', st1) := alloc st n in
                   let '(st2, target') := set_item st1 target (Some a') in
                   (true, st2, strip_cows depth target'))).
    { intros n. pose proof (alloc_set_frame L st target n HL Hot) as K.
      destruct (alloc st n) as [a' st1]. destruct (set_item st1 target (Some a')) as [st2 t'].
      destruct K as (F & Ho' & B & R). unfold edit_post. cbn [fst snd]. rewrite <- Bt, <- Rt.
      split; [exact F|]. split; [now apply owned_strip|].
      destruct (base_strip depth t') as [b1 b2]. split; congruence. }
    assert (W0 : edit_post L st head
                  (let '(st1, target') := set_item st target value in (true, st1, strip_cows depth target'))).
    { pose proof (set_item_frame L target st value HL Hot) as K.
      destruct (set_item st target value) as [st1 t']. cbn [fst snd] in K.
      destruct K as (F & Ho' & B & R). unfold edit_post. cbn [fst snd]. rewrite <- Bt, <- Rt.
      split; [exact F|]. split; [now apply owned_strip|].
      destruct (base_strip depth t') as [b1 b2]. split; congruence. }
    destruct (get_item st target) as [ta|]; [|exact W0].
    match goal with |- context[if ?c then _ else _] => destruct c end; [|exact W0].
    destruct value as [va|]; [|now apply edit_post_keep].
    destruct (hget (st_heap st) va) as [[s|vl|vm]|]; [| | |now apply edit_post_flag].
    + destruct (is_appending key); [|now apply edit_post_keep].
      destruct (hget (st_heap st) ta) as [[t|tl|tm]|]; try now apply edit_post_keep.
      apply W.
    + destruct (is_appending key); [|now apply edit_post_keep].
      destruct (hget (st_heap st) ta) as [[t|tl|tm]|]; try (now apply edit_post_flag).
      * destruct (node_empty (HScalar t)); [apply W|now apply edit_post_keep].
      * destruct vl as [|x vl]; [now apply edit_post_keep|apply W].
      * destruct (node_empty (HMap tm)); [apply W|now apply edit_post_keep].
    + match goal with |- context[if ?c then _ else _] => destruct c end; [|now apply edit_post_keep].
      pose proof (merge_loop_h_frame L (fun s t k v => edit_node_h wf s t k v true)
                    (fun s t k v hl ho => IH s t k v true hl ho) vm st target HL Hot) as K.
      destruct (merge_loop_h _ vm st target) as [[ok st'] t']. unfold edit_post in *. cbn [fst snd] in *.
      destruct K as (F & Ho' & B & R). rewrite <- Bt, <- Rt.
      split; [exact F|]. split; [now apply owned_strip|].
      destruct (base_strip depth t') as [b1 b2]. split; congruence.
Qed.

Lemma patch_literal_h_frame L wf m : forall st tgt,
  L <= length (st_heap st) -> owned L tgt -> edit_post L st tgt (patch_literal_h wf m st tgt).
Proof.
  induction m as [|[k v] m IH]; intros st tgt HL Ho; cbn [patch_literal_h].
  - now apply edit_post_keep.
  - pose proof (edit_node_h_frame L wf st tgt k v false HL Ho) as K.
    destruct (edit_node_h wf st tgt k v false) as [[ok st1] tgt1]. unfold edit_post in K. cbn [fst snd] in K.
    destruct K as (F1 & Ho1 & B1 & R1).
    assert (HL1 : L <= length (st_heap st1)) by (destruct F1; lia).
    specialize (IH st1 tgt1 HL1 Ho1).
    destruct (patch_literal_h wf m st1 tgt1) as [[ok' st2] tgt2]. unfold edit_post in *. cbn [fst snd] in *.
    rewrite B1, R1 in IH. destruct IH as (F2 & Ho2 & B2 & R2).
    split; [eapply frame_trans; eauto|]. repeat split; congruence.
Qed.

Lemma include_h_frame L wf st target inc :
  L <= length (st_heap st) -> owned L target -> edit_post L st target (include_h wf st target inc).
Proof.
  intros HL Ho. unfold include_h.
  pose proof (set_item_frame L target st inc HL Ho) as K.
  destruct (set_item st target inc) as [st1 t1]. cbn [fst snd] in K. destruct K as (F1 & Ho1 & B1 & R1).
  assert (HL1 : L <= length (st_heap st1)) by (destruct F1; lia).
  destruct (as_map st (get_item st target)) as [[a [|e m]]|];
    try (unfold edit_post; cbn [fst snd]; auto).
  pose proof (merge_loop_h_frame L (fun s t k v => edit_node_h wf s t k v true)
                (fun s t k v hl ho => edit_node_h_frame L wf s t k v true hl ho) (e :: m) st1 t1 HL1 Ho1) as K.
  unfold merge_tree_h. destruct (merge_loop_h _ (e :: m) st1 t1) as [[ok st2] t2].
  unfold edit_post in *. cbn [fst snd] in *. rewrite B1, R1 in K. destruct K as (F2 & Ho2 & B2 & R2).
  split; [eapply frame_trans; eauto|]. repeat split; congruence.
Qed.

(** ** no write through sharing, for every edit the compiler performs
    (PatchLiteral::Resolve on any patch map, IncludeReference::Resolve with
    any overrides): with [L] the heap size when the edit starts, no node
    below [L] other than the container of the dependency's target slot
    changes, and no root other than the target's own resource moves *)
Theorem patch_leaves_sources_untouched wf m st tgt :
  owned (length (st_heap st)) tgt ->
  frame (length (st_heap st)) (base_addr tgt) (base_res tgt) st (snd (fst (patch_literal_h wf m st tgt))).
Proof. intros Ho. apply (patch_literal_h_frame _ wf m st tgt (Nat.le_refl _) Ho). Qed.

Theorem include_leaves_sources_untouched wf st tgt inc :
  owned (length (st_heap st)) tgt ->
  frame (length (st_heap st)) (base_addr tgt) (base_res tgt) st (snd (fst (include_h wf st tgt inc))).
Proof. intros Ho. apply (include_h_frame _ wf st tgt inc (Nat.le_refl _) Ho). Qed.

(* and therefore every tree of the old heap that avoids the anchor reads back unchanged *)
Theorem frame_readback L b br st st' wf q :
  frame L b br st st' -> L = length (st_heap st) ->
  avoids wf (st_heap st) (match b with Some a => a | None => L end) q = true ->
  readback wf (st_heap st') q = readback wf (st_heap st) q.
Proof.
  intros (_ & A & _) -> Hav.
  apply (readback_agree wf _ _ (match b with Some a => a | None => length (st_heap st) end) q); [|exact Hav].
  intros a Ha Hne. apply A; [exact Ha|]. destruct b; congruence.
Qed.
