(** C14: no write through sharing.  A write through a fresh copy-on-write
    reference (ConfigCowRef with [copied_ = false] at every level, which is
    what TypeCheckedCopyOnWrite / TraverseCopyOnWrite / Cow() hand out)
    modifies no node that existed before, except the container of the slot
    the chain is anchored at; so every tree that does not contain that
    container reads back unchanged. *)
From Coq Require Import List Arith Bool Lia.
From Coq.Strings Require Import Byte.
From RimeV Require Import Base.Bytes CfgC.Str CfgC.Tree CfgC.Spec CfgC.Impl CfgC.ImplFacts
  CfgC.DepsProofs CfgC.TermProofs.
Import ListNotations.

(** the container that the anchor of a reference mutates in place *)
Fixpoint base_addr (r : iref) : option nat :=
  match r with
  | RRes _ => None
  | RMapE a _ => Some a
  | RListE a _ => Some a
  | RCow _ p _ _ => base_addr p
  end.
Fixpoint base_res (r : iref) : option str :=
  match r with
  | RRes id => Some id
  | RCow _ p _ _ => base_res p
  | _ => None
  end.

Fixpoint fresh (r : iref) : Prop :=
  match r with
  | RCow _ p _ copied => copied = None /\ fresh p
  | _ => True
  end.

(** heaps agree below [n] except at [b] *)
Definition agree_except (n : nat) (b : option nat) (h h' : heap) : Prop :=
  forall a, a < n -> Some a <> b -> hget h' a = hget h a.

Lemma cow_write_old st isl a k v x :
  x <> a -> hget (st_heap (cow_write st isl a k v)) x = hget (st_heap st) x.
Proof.
  intros H. unfold cow_write. destruct (hget (st_heap st) a) as [[s|l|m]|]; try (cbn; reflexivity).
  - destruct (resolve_index (length l) k) as [i ins]. cbn. apply hget_hset_other. congruence.
  - cbn. apply hget_hset_other. congruence.
Qed.

Lemma cow_write_length st isl a k v : length (st_heap (cow_write st isl a k v)) = length (st_heap st).
Proof.
  unfold cow_write. destruct (hget (st_heap st) a) as [[s|l|m]|]; try (cbn; reflexivity).
  - destruct (resolve_index (length l) k) as [i ins]. cbn. apply hset_length.
  - cbn. apply hset_length.
Qed.

Lemma cow_write_res st isl a k v : st_res (cow_write st isl a k v) = st_res st.
Proof.
  unfold cow_write. destruct (hget (st_heap st) a) as [[s|l|m]|]; try (cbn; reflexivity).
  destruct (resolve_index (length l) k) as [i ins]. reflexivity.
Qed.

(** one write through a fresh chain *)
Lemma set_item_fresh_frame r : forall st v,
  fresh r ->
  let st' := fst (set_item st r v) in
  length (st_heap st) <= length (st_heap st') /\
  agree_except (length (st_heap st)) (base_addr r) (st_heap st) (st_heap st') /\
  (forall id, Some id <> base_res r -> res_root st' id = res_root st id).
Proof.
  induction r as [id|a k|a i|isl p IH k copied]; intros st v F; cbn [set_item fst base_addr base_res].
  - split; [|split].
    + unfold set_root. destruct (alookup id (st_res st)); cbn; lia.
    + intros a _ _. unfold set_root. destruct (alookup id (st_res st)); reflexivity.
    + intros id' Hne. unfold set_root, res_root. destruct (alookup id (st_res st)) as [r0|] eqn:E; [|reflexivity].
      cbn. assert (id' <> id) by congruence.
      clear E. induction (st_res st) as [|[k0 r1] m IHm]; cbn.
      * destruct (str_eqb id' id) eqn:E; [apply str_eqb_eq in E; congruence|reflexivity].
      * destruct (str_eqb id k0) eqn:E1; cbn.
        -- apply str_eqb_eq in E1. subst k0.
           destruct (str_eqb id' id) eqn:E; [apply str_eqb_eq in E; congruence|reflexivity].
        -- destruct (str_eqb id' k0); [reflexivity|exact IHm].
  - destruct (hget (st_heap st) a) as [[s|l|m]|]; cbn; (split; [rewrite ?hset_length; lia|split]);
      try (intros x _ _; reflexivity); try (intros; reflexivity).
    intros x _ Hx. apply hget_hset_other. congruence.
  - destruct (hget (st_heap st) a) as [[s|l|m]|]; cbn; (split; [rewrite ?hset_length; lia|split]);
      try (intros x _ _; reflexivity); try (intros; reflexivity).
    intros x _ Hx. apply hget_hset_other. congruence.
  - destruct F as [-> F].
    set (cont := if isl then _ else _).
    match goal with |- context[alloc st ?n] => set (node := n) end.
    unfold alloc.
    set (st1 := with_heap st (st_heap st ++ [node])).
    specialize (IH st1 (Some (length (st_heap st))) F).
    destruct (set_item st1 p (Some (length (st_heap st)))) as [st2 p'] eqn:Es. cbn [fst] in *.
    destruct IH as (L2 & A2 & R2).
    assert (L1 : length (st_heap st1) = S (length (st_heap st))).
    { subst st1. cbn. rewrite app_length. cbn. lia. }
    split; [rewrite cow_write_length; lia|]. split.
    + intros x Hx Hb. rewrite cow_write_old by lia.
      rewrite A2 by (auto; lia). subst st1. cbn. now apply hget_app_old.
    + intros id Hid. unfold res_root. rewrite cow_write_res.
      specialize (R2 id Hid). unfold res_root in R2. rewrite R2. reflexivity.
Qed.

(** ** reading back is insensitive to nodes it does not visit *)
Section Avoid.
  Variable av : ptr -> bool.
  Fixpoint av_list (l : list ptr) : bool :=
    match l with [] => true | x :: r => av x && av_list r end.
  Fixpoint av_map (m : list (str * ptr)) : bool :=
    match m with [] => true | (_, x) :: r => av x && av_map r end.
End Avoid.

(* the traversal [readback wf h q] never looks at address [b] *)
Fixpoint avoids (wf : nat) (h : heap) (b : nat) (q : ptr) : bool :=
  match wf with
  | 0 => true
  | S wf' =>
    match q with
    | None => true
    | Some a =>
        negb (a =? b) &&
        match hget h a with
        | Some (HList l) => av_list (avoids wf' h b) l
        | Some (HMap m) => av_map (avoids wf' h b) m
        | Some (HScalar _) => true
        | None => false     (* dangling pointers are not "avoiding" anything *)
        end
    end
  end.

(* for a chain anchored at a resource root no node is the anchor: use an
   address that no valid node has *)
Definition anchor (st : state) (r : iref) : nat :=
  match base_addr r with Some b => b | None => length (st_heap st) end.

Lemma readback_agree wf : forall h h' b q,
  (forall a, a < length h -> a <> b -> hget h' a = hget h a) ->
  avoids wf h b q = true ->
  readback wf h' q = readback wf h q.
Proof.
  induction wf as [|wf IH]; intros h h' b q Hag Hav; [reflexivity|].
  cbn [readback avoids] in *. destruct q as [a|]; [|reflexivity].
  apply andb_true_iff in Hav. destruct Hav as [Hne Hav]. apply negb_true_iff, Nat.eqb_neq in Hne.
  destruct (hget h a) as [n|] eqn:E.
  - rewrite (Hag a (hget_Some_lt _ _ _ E) Hne), E.
    destruct n as [s|l|m]; [reflexivity| |].
    + assert (G : rb_list (readback wf h') l = rb_list (readback wf h) l).
      { clear E. induction l as [|x l IHl]; cbn [rb_list av_list] in *; [reflexivity|].
        apply andb_true_iff in Hav. destruct Hav as [H1 H2].
        rewrite (IH h h' b x Hag H1), (IHl H2). reflexivity. }
      now rewrite G.
    + assert (G : rb_map (readback wf h') m = rb_map (readback wf h) m).
      { clear E. induction m as [|[k x] m IHm]; cbn [rb_map av_map] in *; [reflexivity|].
        apply andb_true_iff in Hav. destruct Hav as [H1 H2].
        rewrite (IH h h' b x Hag H1), (IHm H2). reflexivity. }
      now rewrite G.
  - discriminate.
Qed.

(** the statement: what a fresh copy-on-write write leaves untouched.
    [avoids wf h b q] says that the tree at [q] is a well-formed tree of the
    old heap (no dangling pointer) that does not contain the anchor container. *)
Theorem cow_write_leaves_sources_untouched r st v wf q :
  fresh r ->
  avoids wf (st_heap st) (anchor st r) q = true ->
  readback wf (st_heap (fst (set_item st r v))) q = readback wf (st_heap st) q.
Proof.
  intros F Hav.
  destruct (set_item_fresh_frame r st v F) as (_ & A & _).
  apply (readback_agree wf _ _ (anchor st r) q); [|exact Hav].
  intros a Ha Hne. apply A; [exact Ha|].
  unfold anchor in Hne. destruct (base_addr r); congruence.
Qed.

(** and the roots of the other resources are not touched either *)
Theorem cow_write_leaves_other_roots r st v id :
  fresh r -> Some id <> base_res r ->
  res_root (fst (set_item st r v)) id = res_root st id.
Proof.
  intros F H. now destruct (set_item_fresh_frame r st v F) as (_ & _ & R); apply R.
Qed.
